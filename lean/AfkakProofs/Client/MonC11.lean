import Afkak.Monitor.C11
import AfkakProofs.Client.Timers
/-!
# Every trace of the client model is accepted by the C11 monitor (core rules)

A simulation argument: `Rel` relates the model state (and its stack of pending actions) to the
monitor state; every action of the interpreter preserves it while the monitor consumes that action's
observations; at the end of a step the stack is empty (unless the step reports that it ran out of
fuel), which discharges the disconnect obligations, and the timer invariant `NInv` + `NotOverdue`
discharge the end-of-step timer check.
-/
namespace Afkak.ClientNet
open Afkak.ClientCache Afkak.Monitor.C11

/-- the monitor's view of a model request -/
def toM (q : Req) : MReq :=
  { k := q.k, b := q.b, issued := q.issued, due := some q.due, pending := q.pending, grp := q.grp }

/-- broker clients of the `disconnect` actions waiting on the stack -/
def stackDisc : List Act → List Nat
  | [] => []
  | .disconnect b :: r => b :: stackDisc r
  | _ :: r => stackDisc r

theorem stackDisc_append (a b : List Act) : stackDisc (a ++ b) = stackDisc a ++ stackDisc b := by
  induction a with
  | nil => rfl
  | cons x a ih =>
    cases x <;> simp [stackDisc, ih]

def Act.notDisc : Act → Bool
  | .disconnect _ => false
  | _ => true

theorem stackDisc_nil_of_all {acts : List Act} (h : acts.all Act.notDisc = true) : stackDisc acts = [] := by
  induction acts with
  | nil => rfl
  | cons x a ih =>
    simp only [List.all_cons, Bool.and_eq_true] at h
    cases x <;> simp_all [stackDisc, Act.notDisc]

/-- observations the core rules of the monitor look at -/
def Ob.rel11 : Ob → Bool
  | .mk .. | .setTimer (.mrtb _) _ | .fired .. | .late _ | .cancelTimer (.mrtb _) | .bcCancel _ | .bcDisconnect _ => true
  | _ => false

/-- the part of the monitor state the core rules depend on -/
structure Core11 (m m' : MSt) : Prop where
  now : m'.now = m.now
  reqs : m'.reqs = m.reqs
  seen : m'.seen = m.seen
  cur : m'.cur = m.cur
  lateOf : m'.lateOf = m.lateOf
  owed : m'.owedDisc = m.owedDisc
  fails : m'.fails = m.fails

theorem Core11.refl (m : MSt) : Core11 m m := ⟨rfl, rfl, rfl, rfl, rfl, rfl, rfl⟩

theorem Core11.trans {a b c : MSt} (h1 : Core11 a b) (h2 : Core11 b c) : Core11 a c :=
  ⟨h2.now.trans h1.now, h2.reqs.trans h1.reqs, h2.seen.trans h1.seen, h2.cur.trans h1.cur,
   h2.lateOf.trans h1.lateOf, h2.owed.trans h1.owed, h2.fails.trans h1.fails⟩

theorem stepOb_irrelevant (cfg : Cfg) (m : MSt) (o : Ob) (h : o.rel11 = false) : Core11 m (stepOb cfg m o) := by
  cases o
  case setTimer t d =>
    cases t
    · simp [Ob.rel11] at h
    · exact ⟨rfl, rfl, rfl, rfl, rfl, rfl, rfl⟩
    · exact ⟨rfl, rfl, rfl, rfl, rfl, rfl, rfl⟩
  case cancelTimer t =>
    cases t
    · simp [Ob.rel11] at h
    · exact ⟨rfl, rfl, rfl, rfl, rfl, rfl, rfl⟩
    · exact ⟨rfl, rfl, rfl, rfl, rfl, rfl, rfl⟩
  case result o r =>
    simp only [stepOb]
    split
    · split <;> exact ⟨rfl, rfl, rfl, rfl, rfl, rfl, rfl⟩
    · exact ⟨rfl, rfl, rfl, rfl, rfl, rfl, rfl⟩
  all_goals (first
    | (simp [Ob.rel11] at h; done)
    | exact ⟨rfl, rfl, rfl, rfl, rfl, rfl, rfl⟩)

theorem foldl_irrelevant (cfg : Cfg) : ∀ (obs : List Ob) (m : MSt), (∀ o ∈ obs, o.rel11 = false) →
    Core11 m (obs.foldl (stepOb cfg) m)
  | [], m, _ => Core11.refl m
  | o :: rest, m, h => by
    simp only [List.foldl_cons]
    exact (stepOb_irrelevant cfg m o (h o (by simp))).trans
      (foldl_irrelevant cfg rest _ (fun o' ho' => h o' (by simp [ho'])))

/-! ### facts about single actions -/

/-- actions whose observations the core rules ignore and that leave the request table alone -/
def Act.plain11 : Act → Bool
  | .fireReq .. | .cancelReq .. | .disconnect .. | .unawareNext .. | .issueSlot .. | .srtcGo .. | .timeoutFired .. => false
  | _ => true

/-- actions that can sit on the stack: the clock's `timeoutFired` and the network's top-level
    `fireReq … false` are only ever the first action of a step -/
def Act.ok11 : Act → Bool
  | .timeoutFired _ => false
  | .fireReq _ _ false => false
  | _ => true

/-- actions that never cancel a broker request (what a clock advance may run) -/
def Act.advSafe : Act → Bool
  | .cancelReq _ | .cancelU _ | .cancelBoots => false
  | _ => true

def srtcKeys (st : St) : List (String × Option Rat) := st.srtcs.map (fun x => (x.g, x.minTimeout))

@[simp] theorem srtcKeys_setUnaware (st : St) u f : srtcKeys (setUnaware st u f) = srtcKeys st := rfl
@[simp] theorem srtcKeys_setSend (st : St) s f : srtcKeys (setSend st s f) = srtcKeys st := rfl
@[simp] theorem srtcKeys_setReq (st : St) k f : srtcKeys (setReq st k f) = srtcKeys st := rfl
@[simp] theorem srtcKeys_cancelTimer (st : St) w : srtcKeys (cancelTimer st w) = srtcKeys st := rfl
@[simp] theorem srtcKeys_applyUpdate (st : St) c' cn bs : srtcKeys (applyUpdate st c' cn bs).1 = srtcKeys st := rfl

theorem srtcKeys_setSrtc (st : St) (r : Nat) (f : Srtc → Srtc) (hf : ∀ y, (f y).g = y.g ∧ (f y).minTimeout = y.minTimeout) :
    srtcKeys (setSrtc st r f) = srtcKeys st := by
  simp only [srtcKeys, setSrtc, List.map_map]
  apply List.map_congr_left
  intro y _
  simp only [Function.comp]
  split
  · rw [(hf y).1, (hf y).2]
  · rfl

theorem srtcKeys_reqDone (st : St) (o : ReqOwner) (k : Nat) (r : Res) : srtcKeys (reqDone st o k r).1 = srtcKeys st := by
  unfold reqDone
  split
  · split <;> (try split) <;> rfl
  · rfl
  · rfl

theorem srtcKeys_cloadJoin (st : St) (w : Waiter) (g : String) : srtcKeys (cloadJoin st w g).1 = srtcKeys st := by
  unfold cloadJoin; split <;> rfl

theorem srtcKeys_shuffle {α} {st st' : St} {xs ys : List α} (h : shuffle st xs = some (st', ys)) : srtcKeys st' = srtcKeys st := by
  unfold shuffle at h
  split at h
  · cases h
  · simp only [Option.map_eq_some_iff] at h
    obtain ⟨_, _, heq⟩ := h
    cases heq; rfl

theorem srtcKeys_getBrokerClient {st st' : St} {n : Int} {b : Nat} {obs : List Ob}
    (h : getBrokerClient st n = .ok (st', b, obs)) : srtcKeys st' = srtcKeys st := by
  unfold getBrokerClient at h
  split at h
  · cases h
  · split at h
    · cases h; rfl
    · split at h
      · cases h
      · cases h; rfl

theorem srtcKeys_makeRequest (cfg : Cfg) (st : St) b o e w m : srtcKeys (makeRequest cfg st b o e w m).1 = srtcKeys st := rfl

theorem issueTo_srtcKeys_ok {cfg : Cfg} {st : St} {n : Int} {o : ReqOwner} {e : Bool} {w : ReqWhat} {m : Option Rat} {rj : Bool}
    {i : IssueOk} (hi : issueTo cfg st n o e w m rj = .ok i) : srtcKeys i.st = srtcKeys st := by
  obtain ⟨st1, b, obs1, hg, h1, _, _, _⟩ := issueTo_ok hi
  rw [h1, srtcKeys_makeRequest]; exact srtcKeys_getBrokerClient hg

theorem issueTo_srtcKeys_err {cfg : Cfg} {st : St} {n : Int} {o : ReqOwner} {e : Bool} {w : ReqWhat} {m : Option Rat} {rj : Bool}
    {er : IssueErr} (he : issueTo cfg st n o e w m rj = .error er) : srtcKeys er.st = srtcKeys st := by
  rcases issueTo_err he with ⟨h1, _⟩ | ⟨b, hg⟩
  · rw [h1]
  · exact srtcKeys_getBrokerClient hg

/-- no action changes which coordinator requests (group, min_timeout) exist -/
theorem exec_srtcKeys (cfg : Cfg) (st : St) (a : Act) : srtcKeys (exec cfg st a).1 = srtcKeys st := by
  cases a
  all_goals simp only [exec]
  all_goals (repeat' split)
  all_goals (try dsimp only)
  all_goals (first
    | rfl
    | (rename_i hs; exact srtcKeys_shuffle hs)
    | exact srtcKeys_cloadJoin _ _ _
    | exact srtcKeys_reqDone _ _ _ _
    | (apply srtcKeys_setSrtc; intro y; exact ⟨rfl, rfl⟩)
    | (rename_i he; exact issueTo_srtcKeys_err he)
    | (rename_i he; rw [srtcKeys_setUnaware]; exact issueTo_srtcKeys_ok he)
    | (rename_i he; rw [srtcKeys_setSend]; exact issueTo_srtcKeys_ok he)
    | (rename_i he; refine Eq.trans (srtcKeys_setSrtc _ _ _ ?_) (issueTo_srtcKeys_ok he); intro y; exact ⟨rfl, rfl⟩)
    | (simp [srtcKeys]; done)
    | (simp_all [srtcKeys]; done))

/-! ### plain actions: nothing the core rules look at -/

theorem cancelUnaware_obs11 (x : Unaware) : ∀ o ∈ (cancelUnaware x).1, o.rel11 = false := by
  unfold cancelUnaware; split <;> simp [Ob.rel11]

theorem applyUpdate_obs11 (st : St) (c' : Cache) (cn : List Int) (bs : List Broker) : ∀ o ∈ (applyUpdate st c' cn bs).2.1, o.rel11 = false := by
  intro o ho
  simp only [applyUpdate, List.mem_flatMap] at ho
  obtain ⟨e, _, he⟩ := ho
  split at he
  · simp only [List.mem_singleton] at he; subst he; rfl
  · cases he

@[simp] theorem applyUpdate_reqs (st : St) c' cn bs : (applyUpdate st c' cn bs).1.reqs = st.reqs := rfl

theorem reqDone_now (st : St) (o : ReqOwner) (k : Nat) (r : Res) : (reqDone st o k r).1.now = st.now := by
  unfold reqDone
  split
  · split <;> (try split) <;> rfl
  · rfl
  · rfl

theorem reqDone_reqs (st : St) (o : ReqOwner) (k : Nat) (r : Res) : (reqDone st o k r).1.reqs = st.reqs :=
  congrArg Prod.fst (core_reqDone st o k r)

theorem cloadJoin_reqs (st : St) (w : Waiter) (g : String) : (cloadJoin st w g).1.reqs = st.reqs :=
  congrArg Prod.fst (core_cloadJoin st w g)

/-- a plain action emits nothing the core rules look at and leaves the request table alone -/
theorem exec_plain11 (cfg : Cfg) (st : St) (a : Act) (hp : a.plain11 = true) :
    (∀ o ∈ (exec cfg st a).2.1, o.rel11 = false) ∧ (exec cfg st a).1.reqs = st.reqs := by
  cases a <;> simp only [Act.plain11] at hp
  all_goals simp only [exec]
  all_goals (repeat' split)
  all_goals (try dsimp only)
  all_goals (first
    | (refine ⟨?_, rfl⟩; simp [Ob.rel11]; done)
    | (rename_i hs; refine ⟨by simp [Ob.rel11], ?_⟩; exact congrArg Prod.fst (core_shuffle hs))
    | exact ⟨by simp [Ob.rel11], cloadJoin_reqs _ _ _⟩
    | exact ⟨by simp [Ob.rel11], reqDone_reqs _ _ _ _⟩
    | exact ⟨cancelUnaware_obs11 _, rfl⟩
    | exact ⟨applyUpdate_obs11 _ _ _ _, rfl⟩
    | (refine ⟨?_, ?_⟩ <;> simp_all [Ob.rel11]; done))

/-! ### what actions put on the stack -/

@[simp] theorem reqDone_ok11 (st : St) (o : ReqOwner) (k : Nat) (r : Res) : (reqDone st o k r).2.all Act.ok11 = true := by
  unfold reqDone
  split
  · split
    · simp [Act.ok11]
    · split <;> simp [Act.ok11]
  · simp [Act.ok11]
  · simp [Act.ok11]

@[simp] theorem deliverLoad_ok11 (lo : LOwner) (r : Res) : (deliverLoad lo r).all Act.ok11 = true := by
  unfold deliverLoad; split <;> simp [Act.ok11]

@[simp] theorem cloadJoin_ok11 (st : St) (w : Waiter) (g : String) : (cloadJoin st w g).2.all Act.ok11 = true := by
  unfold cloadJoin; split <;> simp [Act.ok11]

@[simp] theorem applyUpdate_ok11 (st : St) (c' : Cache) (cn : List Int) (bs : List Broker) : (applyUpdate st c' cn bs).2.2.all Act.ok11 = true := by
  simp only [applyUpdate]
  split <;> simp [List.all_map, Function.comp_def, Act.ok11]

@[simp] theorem cancelUnaware_ok11 (x : Unaware) : (cancelUnaware x).2.all Act.ok11 = true := by
  unfold cancelUnaware; split <;> simp [Act.ok11]

@[simp] theorem reqDone_noDisc (st : St) (o : ReqOwner) (k : Nat) (r : Res) : (reqDone st o k r).2.all Act.notDisc = true := by
  unfold reqDone
  split
  · split
    · simp [Act.notDisc]
    · split <;> simp [Act.notDisc]
  · simp [Act.notDisc]
  · simp [Act.notDisc]

@[simp] theorem deliverLoad_noDisc (lo : LOwner) (r : Res) : (deliverLoad lo r).all Act.notDisc = true := by
  unfold deliverLoad; split <;> simp [Act.notDisc]

@[simp] theorem cloadJoin_noDisc (st : St) (w : Waiter) (g : String) : (cloadJoin st w g).2.all Act.notDisc = true := by
  unfold cloadJoin; split <;> simp [Act.notDisc]

@[simp] theorem applyUpdate_noDisc (st : St) (c' : Cache) (cn : List Int) (bs : List Broker) : (applyUpdate st c' cn bs).2.2.all Act.notDisc = true := by
  simp only [applyUpdate]
  split <;> simp [List.all_map, Function.comp_def, Act.notDisc]

@[simp] theorem cancelUnaware_noDisc (x : Unaware) : (cancelUnaware x).2.all Act.notDisc = true := by
  unfold cancelUnaware; split <;> simp [Act.notDisc]

@[simp] theorem reqDone_advSafe (st : St) (o : ReqOwner) (k : Nat) (r : Res) : (reqDone st o k r).2.all Act.advSafe = true := by
  unfold reqDone
  split
  · split
    · simp [Act.advSafe]
    · split <;> simp [Act.advSafe]
  · simp [Act.advSafe]
  · simp [Act.advSafe]

@[simp] theorem deliverLoad_advSafe (lo : LOwner) (r : Res) : (deliverLoad lo r).all Act.advSafe = true := by
  unfold deliverLoad; split <;> simp [Act.advSafe]

@[simp] theorem cloadJoin_advSafe (st : St) (w : Waiter) (g : String) : (cloadJoin st w g).2.all Act.advSafe = true := by
  unfold cloadJoin; split <;> simp [Act.advSafe]

@[simp] theorem applyUpdate_advSafe (st : St) (c' : Cache) (cn : List Int) (bs : List Broker) : (applyUpdate st c' cn bs).2.2.all Act.advSafe = true := by
  simp only [applyUpdate]
  split <;> simp [List.all_map, Function.comp_def, Act.advSafe]


theorem issueTo_acts11 {cfg : Cfg} {st : St} {n : Int} {o : ReqOwner} {e : Bool} {w : ReqWhat} {m : Option Rat} {rj : Bool}
    {i : IssueOk} (hi : issueTo cfg st n o e w m rj = .ok i) :
    i.acts.all (fun a => a.ok11 && a.advSafe && a.notDisc) = true := by
  obtain ⟨st1, b, obs1, _, _, _, _, h4⟩ := issueTo_ok hi
  rw [h4]
  simp only [makeRequest]
  split <;> simp [Act.ok11, Act.advSafe, Act.notDisc]

/-- no action puts a clock timeout or a top-level completion on the stack, and only the clock's timeout
    puts a `disconnect` there -/
theorem exec_ok11 (cfg : Cfg) (st : St) (a : Act) : (exec cfg st a).2.2.all Act.ok11 = true := by
  cases a
  all_goals simp only [exec]
  all_goals (repeat' split)
  all_goals (try dsimp only)
  all_goals (first
    | rfl
    | (simp [List.all_map, List.all_append, List.all_flatMap, Function.comp_def, Act.ok11]; done)
    | (rename_i he; have := issueTo_acts11 he; simp only [List.all_eq_true, Bool.and_eq_true] at this ⊢; exact fun x hx => (this x hx).1.1)
    | (simp_all [List.all_map, List.all_append, Function.comp_def, Act.ok11]; done))

theorem exec_noDisc (cfg : Cfg) (st : St) (a : Act) (h : a.notTimeout = true) :
    (exec cfg st a).2.2.all Act.notDisc = true := by
  cases a <;> simp only [Act.notTimeout] at h
  all_goals simp only [exec]
  all_goals (repeat' split)
  all_goals (try dsimp only)
  all_goals (first
    | rfl
    | (simp [List.all_map, List.all_append, List.all_flatMap, Function.comp_def, Act.notDisc]; done)
    | (rename_i he; have := issueTo_acts11 he; simp only [List.all_eq_true, Bool.and_eq_true] at this ⊢; exact fun x hx => (this x hx).2)
    | (simp_all [List.all_map, List.all_append, Function.comp_def, Act.notDisc]; done))

/-- what a clock advance runs never cancels a broker request -/
theorem exec_advSafe (cfg : Cfg) (st : St) (a : Act) (h : a.advSafe = true) : (exec cfg st a).2.2.all Act.advSafe = true := by
  cases a <;> simp only [Act.advSafe] at h
  all_goals simp only [exec]
  all_goals (repeat' split)
  all_goals (try dsimp only)
  all_goals (first
    | rfl
    | (simp [List.all_map, List.all_append, List.all_flatMap, Function.comp_def, Act.advSafe]; done)
    | (rename_i he; have := issueTo_acts11 he; simp only [List.all_eq_true, Bool.and_eq_true] at this ⊢; exact fun x hx => (this x hx).1.2)
    | (simp_all [List.all_map, List.all_append, Function.comp_def, Act.advSafe]; done))

/-! ### the monitor's request table follows the model's -/

@[simp] theorem fail_reqs (m : MSt) (w : String) : (fail m w).reqs = m.reqs := rfl
@[simp] theorem fail_fails (m : MSt) (w : String) : (fail m w).fails = m.fails ++ [w] := rfl
@[simp] theorem failX_fails (m : MSt) (w : String) : (failX m w).fails = m.fails := rfl
@[simp] theorem failX_reqs (m : MSt) (w : String) : (failX m w).reqs = m.reqs := rfl

/-- no observation changes the clock, the calls seen, the event of the step or the late marker -/
theorem stepOb_frame (cfg : Cfg) (m : MSt) (o : Ob) :
    (stepOb cfg m o).cur = m.cur ∧ (stepOb cfg m o).now = m.now ∧ (stepOb cfg m o).seen = m.seen ∧
    (stepOb cfg m o).lateOf = m.lateOf := by
  cases o
  all_goals simp only [stepOb]
  all_goals (repeat' split)
  all_goals (first
    | exact ⟨rfl, rfl, rfl, rfl⟩
    | (simp [fail, failX, setReq, resolve]; done))

theorem foldl_frame (cfg : Cfg) : ∀ (obs : List Ob) (m : MSt),
    (obs.foldl (stepOb cfg) m).cur = m.cur ∧ (obs.foldl (stepOb cfg) m).now = m.now ∧
    (obs.foldl (stepOb cfg) m).seen = m.seen ∧ (obs.foldl (stepOb cfg) m).lateOf = m.lateOf
  | [], m => ⟨rfl, rfl, rfl, rfl⟩
  | o :: rest, m => by
    simp only [List.foldl_cons]
    obtain ⟨a1, a2, a3, a4⟩ := stepOb_frame cfg m o
    obtain ⟨b1, b2, b3, b4⟩ := foldl_frame cfg rest (stepOb cfg m o)
    exact ⟨b1.trans a1, b2.trans a2, b3.trans a3, b4.trans a4⟩

theorem getReq_map {m : MSt} {reqs : List Req} (h : m.reqs = reqs.map toM) (k : Nat) :
    getReq m k = ((reqs.filter (fun r => r.k == k)).head?).map toM := by
  unfold getReq
  rw [h, List.filter_map, List.head?_map]
  rfl

theorem setReq_map {m : MSt} {reqs : List Req} (h : m.reqs = reqs.map toM) (k : Nat) (f : MReq → MReq) (g : Req → Req)
    (hfg : ∀ q, f (toM q) = toM (g q)) :
    (Afkak.Monitor.C11.setReq m k f).reqs = (reqs.map (fun r => if r.k == k then g r else r)).map toM := by
  simp only [Afkak.Monitor.C11.setReq, h, List.map_map]
  apply List.map_congr_left
  intro q _
  simp only [Function.comp]
  show (if (toM q).k == k then f (toM q) else toM q) = toM (if q.k == k then g q else q)
  have : (toM q).k = q.k := rfl
  rw [this]
  split
  · exact hfg q
  · rfl

theorem boundFor_eq (cfg : Cfg) (mt : Option Rat) : boundFor cfg mt = boundOf cfg mt := by
  cases mt <;> rfl

/-! ### the simulation relation -/

/-- model state + pending action stack  ~  monitor state (core part) -/
structure Rel (cfg : Cfg) (st : St) (acts : List Act) (m : MSt) : Prop where
  reqs : m.reqs = st.reqs.map toM
  now : m.now = st.now
  owed : m.owedDisc.Perm (stackDisc acts)
  dot : stackDisc acts ≠ [] → cfg.disconnectOnTimeout = true
  seen : ∀ x ∈ st.srtcs, (x.g, x.minTimeout) ∈ m.seen
  fails : m.fails = []

theorem mem_srtcKeys {st : St} {p : String × Option Rat} : p ∈ srtcKeys st ↔ ∃ x ∈ st.srtcs, (x.g, x.minTimeout) = p := by
  simp [srtcKeys]

/-- observations the core rules ignore, with the request table, clock and coordinator calls untouched -/
theorem Rel.plain {cfg : Cfg} {st st' : St} {acts acts' : List Act} {m : MSt} {obs : List Ob} (h : Rel cfg st acts m)
    (hobs : ∀ o ∈ obs, o.rel11 = false) (hr : st'.reqs = st.reqs) (hn : st'.now = st.now)
    (hs : srtcKeys st' = srtcKeys st) (hd : stackDisc acts' = stackDisc acts) :
    Rel cfg st' acts' (obs.foldl (stepOb cfg) m) := by
  have hc := foldl_irrelevant cfg obs m hobs
  refine ⟨by rw [hc.reqs, hr]; exact h.reqs, by rw [hc.now, hn]; exact h.now, by rw [hc.owed, hd]; exact h.owed,
    by rw [hd]; exact h.dot, ?_, by rw [hc.fails]; exact h.fails⟩
  intro x hx
  have : (x.g, x.minTimeout) ∈ srtcKeys st' := mem_srtcKeys.mpr ⟨x, hx, rfl⟩
  rw [hs] at this
  obtain ⟨y, hy, hyx⟩ := mem_srtcKeys.mp this
  rw [hc.seen, ← hyx]
  exact h.seen y hy

theorem getReq_append_new (m : MSt) (l : List MReq) (n : MReq) (k : Nat) (hl : ∀ r ∈ l, r.k ≠ k) (hn : n.k = k) :
    getReq { m with reqs := l ++ [n] } k = some n := by
  have : l.filter (fun r => r.k == k) = [] := by
    apply List.filter_eq_nil_iff.mpr
    intro r hr; simpa using hl r hr
  simp [getReq, List.filter_append, this, hn]

theorem map_if_append_new (l : List MReq) (n : MReq) (k : Nat) (f : MReq → MReq) (hl : ∀ r ∈ l, r.k ≠ k) (hn : n.k = k) :
    (l ++ [n]).map (fun r => if r.k == k then f r else r) = l ++ [f n] := by
  rw [List.map_append]
  congr 1
  · conv => rhs; rw [← List.map_id l]
    apply List.map_congr_left
    intro r hr
    have := hl r hr
    simp [this]
  · simp [hn]

theorem getReq_of_reqs {m : MSt} {l : List MReq} {n : MReq} {k : Nat} (h : m.reqs = l ++ [n]) (hl : ∀ r ∈ l, r.k ≠ k) (hn : n.k = k) :
    getReq m k = some n := by
  have := getReq_append_new m l n k hl hn
  simpa [getReq, h] using this

theorem setReq_of_reqs {m : MSt} {l : List MReq} {n : MReq} {k : Nat} (f : MReq → MReq) (h : m.reqs = l ++ [n])
    (hl : ∀ r ∈ l, r.k ≠ k) (hn : n.k = k) : (Afkak.Monitor.C11.setReq m k f).reqs = l ++ [f n] := by
  simp only [Afkak.Monitor.C11.setReq, h]
  exact map_if_append_new l n k f hl hn

@[simp] theorem setReq_fails (m : MSt) (k : Nat) (f : MReq → MReq) : (Afkak.Monitor.C11.setReq m k f).fails = m.fails := rfl
@[simp] theorem setReq_owed (m : MSt) (k : Nat) (f : MReq → MReq) : (Afkak.Monitor.C11.setReq m k f).owedDisc = m.owedDisc := rfl
@[simp] theorem setReq_seen (m : MSt) (k : Nat) (f : MReq → MReq) : (Afkak.Monitor.C11.setReq m k f).seen = m.seen := rfl
@[simp] theorem setReq_now (m : MSt) (k : Nat) (f : MReq → MReq) : (Afkak.Monitor.C11.setReq m k f).now = m.now := rfl

theorem makeRequest_eq (cfg : Cfg) (st : St) (b : Nat) (o : ReqOwner) (e : Bool) (w : ReqWhat) (mt : Option Rat) :
    makeRequest cfg st b o e w mt =
      (let due := st.now + boundOf cfg mt
       let k := st.reqs.length
       let newq : Req := { k := k, b := b, issued := st.now, due := due, pending := !syncFire st b e, grp := grpOf w, owner := o }
       let newt : Timer := { what := .mrtb k, due := due }
       ({ st with reqs := st.reqs ++ [newq], timers := if syncFire st b e then st.timers else insertTimer newt st.timers },
        k,
        [Ob.mk k b e w] ++ (if syncFire st b e then [Ob.fired k none] else []) ++ [Ob.setTimer (.mrtb k) due] ++
          (if syncFire st b e then [Ob.cancelTimer (.mrtb k)] else []),
        if syncFire st b e then [Act.deliver o k (.ok .none)] else [])) := by
  cases mt <;> rfl

/-- the monitor accepts what `_make_request_to_broker` does, and its table gains the same request -/
theorem makeRequest_rel (cfg : Cfg) (st : St) (b : Nat) (o : ReqOwner) (e : Bool) (w : ReqWhat) (mt : Option Rat) (m : MSt)
    (hreqs : m.reqs = st.reqs.map toM) (hnow : m.now = st.now) (hf : m.fails = [])
    (hk : ∀ q ∈ st.reqs, q.k < st.reqs.length)
    (hb : match grpOf w with | none => mt = none | some g => (g, mt) ∈ m.seen) :
    ((makeRequest cfg st b o e w mt).2.2.1.foldl (stepOb cfg) m).reqs = (makeRequest cfg st b o e w mt).1.reqs.map toM ∧
    ((makeRequest cfg st b o e w mt).2.2.1.foldl (stepOb cfg) m).fails = [] ∧
    ((makeRequest cfg st b o e w mt).2.2.1.foldl (stepOb cfg) m).owedDisc = m.owedDisc := by
  have hl : ∀ r ∈ m.reqs, r.k ≠ st.reqs.length := by
    intro r hr
    rw [hreqs] at hr
    obtain ⟨q, hq, rfl⟩ := List.mem_map.mp hr
    exact Nat.ne_of_lt (hk q hq)
  -- the bound the timer is armed with is the one the monitor expects
  have hbound : ∀ (p : Bool) (s : MSt), s.seen = m.seen →
      boundOk cfg s { k := st.reqs.length, b := b, issued := m.now, pending := p, grp := grpOf w } (st.now + boundOf cfg mt) = true := by
    intro p s hs
    unfold boundOk
    cases hg : grpOf w with
    | none =>
      rw [hg] at hb
      subst hb
      simp [hnow, boundOf]
    | some g =>
      rw [hg] at hb
      simp only [hs, List.any_eq_true, Bool.and_eq_true, beq_iff_eq]
      exact ⟨(g, mt), hb, rfl, by rw [boundFor_eq, hnow]⟩
  rw [makeRequest_eq]
  dsimp only
  cases hsync : syncFire st b e
  · -- an ordinary request: `mk`, `setTimer`
    simp only [Bool.false_eq_true, if_false, List.append_nil, List.cons_append, List.nil_append, List.foldl_cons, List.foldl_nil, Bool.not_false]
    generalize hm1 : stepOb cfg m (Ob.mk st.reqs.length b e w) = m1
    have h1 : m1.reqs = m.reqs ++ [{ k := st.reqs.length, b := b, issued := m.now, grp := grpOf w }] := by rw [← hm1]; rfl
    have h1f : m1.fails = [] := by rw [← hm1]; exact hf
    have h1o : m1.owedDisc = m.owedDisc := by rw [← hm1]; rfl
    have h1s : m1.seen = m.seen := by rw [← hm1]; rfl
    simp only [stepOb]
    rw [getReq_of_reqs (m := { m1 with nobs := m1.nobs + 1 }) h1 hl rfl]
    dsimp only
    rw [if_pos (hbound true { m1 with nobs := m1.nobs + 1 } h1s)]
    refine ⟨?_, h1f, h1o⟩
    rw [setReq_of_reqs _ (m := { m1 with nobs := m1.nobs + 1 }) h1 hl rfl, hreqs, List.map_append]
    simp [toM, hnow]
  · -- the Deferred fired inside `makeRequest`: `mk`, `fired`, `setTimer`, `cancelTimer`
    simp only [if_true, List.cons_append, List.nil_append, List.foldl_cons, List.foldl_nil, Bool.not_true]
    generalize hm1 : stepOb cfg m (Ob.mk st.reqs.length b e w) = m1
    have h1 : m1.reqs = m.reqs ++ [{ k := st.reqs.length, b := b, issued := m.now, grp := grpOf w }] := by rw [← hm1]; rfl
    have h1f : m1.fails = [] := by rw [← hm1]; exact hf
    have h1o : m1.owedDisc = m.owedDisc := by rw [← hm1]; rfl
    have h1s : m1.seen = m.seen := by rw [← hm1]; rfl
    generalize hm2 : stepOb cfg m1 (Ob.fired st.reqs.length none) = m2
    have h2 : m2.reqs = m.reqs ++ [{ k := st.reqs.length, b := b, issued := m.now, pending := false, grp := grpOf w }] := by
      rw [← hm2]
      exact setReq_of_reqs _ (m := { m1 with nobs := m1.nobs + 1 }) h1 hl rfl
    have h2f : m2.fails = [] := by rw [← hm2]; exact h1f
    have h2o : m2.owedDisc = m.owedDisc := by rw [← hm2]; exact h1o
    have h2s : m2.seen = m.seen := by rw [← hm2]; exact h1s
    generalize hm3 : stepOb cfg m2 (Ob.setTimer (TimerWhat.mrtb st.reqs.length) (st.now + boundOf cfg mt)) = m3
    have h3 : m3.reqs = m.reqs ++ [{ k := st.reqs.length, b := b, issued := m.now, due := some (st.now + boundOf cfg mt), pending := false, grp := grpOf w }]
        ∧ m3.fails = [] ∧ m3.owedDisc = m.owedDisc := by
      rw [← hm3]
      simp only [stepOb]
      rw [getReq_of_reqs (m := { m2 with nobs := m2.nobs + 1 }) h2 hl rfl]
      dsimp only
      rw [if_pos (hbound false { m2 with nobs := m2.nobs + 1 } h2s)]
      exact ⟨setReq_of_reqs _ (m := { m2 with nobs := m2.nobs + 1 }) h2 hl rfl, h2f, h2o⟩
    simp only [stepOb]
    rw [getReq_of_reqs (m := { m3 with nobs := m3.nobs + 1 }) h3.1 hl rfl]
    simp only [Bool.false_eq_true, if_false]
    refine ⟨?_, h3.2.1, h3.2.2⟩
    show m3.reqs = _
    rw [h3.1, hreqs, List.map_append]
    simp [toM, hnow]

theorem getBrokerClient_frame {st st' : St} {n : Int} {b : Nat} {obs : List Ob}
    (h : getBrokerClient st n = .ok (st', b, obs)) :
    st'.reqs = st.reqs ∧ st'.now = st.now ∧ (∀ o ∈ obs, o.rel11 = false) := by
  unfold getBrokerClient at h
  split at h
  · cases h
  · split at h
    · cases h; exact ⟨rfl, rfl, by simp⟩
    · split at h
      · cases h
      · cases h; exact ⟨rfl, rfl, by simp [Ob.rel11]⟩

theorem issueTo_rel_err {cfg : Cfg} {st : St} {n : Int} {o : ReqOwner} {e : Bool} {w : ReqWhat} {mt : Option Rat} {rj : Bool}
    {er : IssueErr} (he : issueTo cfg st n o e w mt rj = .error er) :
    er.st.reqs = st.reqs ∧ er.st.now = st.now ∧ (∀ o ∈ er.obs, o.rel11 = false) := by
  rcases issueTo_err he with ⟨h1, h2⟩ | ⟨b, hg⟩
  · rw [h1, h2]; exact ⟨rfl, rfl, by simp⟩
  · exact getBrokerClient_frame hg

/-- issuing a request: the monitor accepts it and its table gains the same request -/
theorem issueTo_rel_ok {cfg : Cfg} {st : St} {n : Int} {o : ReqOwner} {e : Bool} {w : ReqWhat} {mt : Option Rat} {rj : Bool}
    {i : IssueOk} (hi : issueTo cfg st n o e w mt rj = .ok i) {acts : List Act} {m : MSt} (h : Rel cfg st acts m) (hinv : SInv st)
    (hb : match grpOf w with | none => mt = none | some g => (g, mt) ∈ m.seen) :
    (i.obs.foldl (stepOb cfg) m).reqs = i.st.reqs.map toM ∧ (i.obs.foldl (stepOb cfg) m).fails = [] ∧
    (i.obs.foldl (stepOb cfg) m).owedDisc = m.owedDisc ∧ i.st.now = st.now := by
  obtain ⟨st1, b, obs1, hg, h1, _, h3, _⟩ := issueTo_ok hi
  obtain ⟨g1, g2, g3⟩ := getBrokerClient_frame hg
  have hc := foldl_irrelevant cfg obs1 m g3
  rw [h3, List.foldl_append, h1]
  have hb' : match grpOf w with | none => mt = none | some g => (g, mt) ∈ (obs1.foldl (stepOb cfg) m).seen := by
    rw [hc.seen]; exact hb
  have := makeRequest_rel cfg st1 b o e w mt (obs1.foldl (stepOb cfg) m) (by rw [hc.reqs, g1]; exact h.reqs)
    (by rw [hc.now, g2]; exact h.now) (by rw [hc.fails]; exact h.fails) (by rw [g1]; exact hinv.kBound) hb'
  refine ⟨this.1, this.2.1, this.2.2.trans hc.owed, ?_⟩
  rw [makeRequest_eq]; exact g2

theorem stackDisc_cons {a : Act} (rest : List Act) (h : a.notDisc = true) : stackDisc (a :: rest) = stackDisc rest := by
  cases a <;> simp_all [stackDisc, Act.notDisc]

theorem head?_filter_mem {α} {p : α → Bool} {l : List α} {x : α} (h : (l.filter p).head? = some x) : x ∈ l :=
  (List.mem_filter.mp (List.mem_of_mem_head? h)).1

theorem reqGet_setReq {st : St} {k : Nat} {q : Req} (f : Req → Req) (h : reqGet st k = some q) (hf : ∀ x, (f x).k = x.k) :
    reqGet (setReq st k f) k = some (f q) := by
  have hq := reqGet_mem h
  unfold reqGet setReq at *
  simp only
  rw [List.filter_map]
  have : ((fun r : Req => r.k == k) ∘ fun r => if (r.k == k) = true then f r else r) = (fun r : Req => r.k == k) := by
    funext r
    simp only [Function.comp]
    split
    · rw [hf r]
    · rfl
  rw [this, List.head?_map, h]
  simp [hq.2]

theorem stepOb_bcCancel_nonadv (cfg : Cfg) (m : MSt) (k : Nat) (hna : ∀ dt, m.cur ≠ some (.advance dt)) :
    stepOb cfg m (.bcCancel k) = { m with nobs := m.nobs + 1 } := by
  simp only [stepOb]
  split
  · rename_i heq _; exact absurd heq (hna _)
  · rfl

theorem resolved_cancelTimer (cfg : Cfg) (m : MSt) (k : Nat) (r : MReq) (hget : getReq m k = some r) (hp : r.pending = false) :
    stepOb cfg m (.cancelTimer (.mrtb k)) = { m with nobs := m.nobs + 1 } := by
  simp only [stepOb]
  rw [show getReq { m with nobs := m.nobs + 1 } k = getReq m k from rfl, hget]
  simp [hp]

theorem Rel.step {cfg : Cfg} {st st' : St} {acts acts' : List Act} {m m' : MSt} (h : Rel cfg st acts m)
    (hreqs : m'.reqs = st'.reqs.map toM) (hnow : st'.now = st.now) (hmnow : m'.now = m.now)
    (howed : m'.owedDisc = m.owedDisc) (hd : stackDisc acts' = stackDisc acts) (hseen : m'.seen = m.seen)
    (hs : srtcKeys st' = srtcKeys st) (hf : m'.fails = []) : Rel cfg st' acts' m' := by
  refine ⟨hreqs, by rw [hmnow, hnow]; exact h.now, by rw [howed, hd]; exact h.owed, by rw [hd]; exact h.dot, ?_, hf⟩
  intro x hx
  have : (x.g, x.minTimeout) ∈ srtcKeys st' := mem_srtcKeys.mpr ⟨x, hx, rfl⟩
  rw [hs] at this
  obtain ⟨y, hy, hyx⟩ := mem_srtcKeys.mp this
  rw [hseen, ← hyx]
  exact h.seen y hy

/-- a nested completion of a pending request: `fired`, then (if its timer is still armed) `cancelTimer` -/
theorem fired_rel (cfg : Cfg) (st : St) (m : MSt) (k : Nat) (q : Req) (kd : Option Kind) (obs2 : List Ob)
    (hreqs : m.reqs = st.reqs.map toM) (hq : reqGet st k = some q)
    (hobs : obs2 = [] ∨ obs2 = [Ob.cancelTimer (.mrtb k)]) :
    (([Ob.fired k kd] ++ obs2).foldl (stepOb cfg) m).reqs = (setReq st k (fun x => { x with pending := false })).reqs.map toM ∧
    (([Ob.fired k kd] ++ obs2).foldl (stepOb cfg) m).fails = m.fails ∧
    (([Ob.fired k kd] ++ obs2).foldl (stepOb cfg) m).owedDisc = m.owedDisc := by
  have hres : (resolve { m with nobs := m.nobs + 1 } k).reqs =
      (setReq st k (fun x => { x with pending := false })).reqs.map toM :=
    setReq_map (m := { m with nobs := m.nobs + 1 }) hreqs k _ _ (fun q => rfl)
  have hget : getReq (resolve { m with nobs := m.nobs + 1 } k) k = some (toM { q with pending := false }) := by
    rw [getReq_map hres]
    have := reqGet_setReq (fun x => { x with pending := false }) hq (fun _ => rfl)
    unfold reqGet at this
    rw [this]; rfl
  rcases hobs with rfl | rfl
  · exact ⟨hres, rfl, rfl⟩
  · simp only [List.cons_append, List.nil_append, List.foldl_cons, List.foldl_nil]
    rw [show stepOb cfg m (.fired k kd) = resolve { m with nobs := m.nobs + 1 } k from rfl,
      resolved_cancelTimer cfg _ k _ hget rfl]
    exact ⟨hres, rfl, rfl⟩

/-- every action that can sit on the stack preserves the relation while the monitor consumes its observations -/
theorem exec_rel (cfg : Cfg) (h0 : 0 ≤ cfg.timeout) (h1 : 0 ≤ cfg.retryDelay) (st : St) (a : Act) (rest : List Act) (m : MSt)
    (hok : a.ok11 = true) (hinv : SInv st) (h : Rel cfg st (a :: rest) m)
    (hmode : (∃ dt, m.cur = some (.advance dt)) → a.advSafe = true) :
    Rel cfg (exec cfg st a).1 ((exec cfg st a).2.2 ++ rest) ((exec cfg st a).2.1.foldl (stepOb cfg) m) := by
  have hnt : a.notTimeout = true := by cases a <;> simp_all [Act.ok11, Act.notTimeout]
  have hsd : stackDisc ((exec cfg st a).2.2 ++ rest) = stackDisc rest := by
    rw [stackDisc_append, stackDisc_nil_of_all (exec_noDisc cfg st a hnt)]; rfl
  have hnow := (exec_timers cfg h0 h1 st a).1
  have hsk := exec_srtcKeys cfg st a
  obtain ⟨fcur, fnow, fseen, flate⟩ := foldl_frame cfg (exec cfg st a).2.1 m
  clear fcur flate
  by_cases hp : a.plain11 = true
  · have hd : a.notDisc = true := by cases a <;> simp_all [Act.plain11, Act.notDisc]
    obtain ⟨ho, hr⟩ := exec_plain11 cfg st a hp
    exact h.plain ho hr hnow hsk (by rw [hsd, stackDisc_cons rest hd])
  · cases a <;> simp only [Act.plain11] at hp
    case timeoutFired k => simp [Act.ok11] at hok
    case disconnect b =>
      have hdot : cfg.disconnectOnTimeout = true := h.dot (by simp [stackDisc])
      have hmem : b ∈ m.owedDisc := h.owed.mem_iff.mpr (by simp [stackDisc])
      have hstep : stepOb cfg m (.bcDisconnect b) = { m with nobs := m.nobs + 1, owedDisc := m.owedDisc.erase b } := by
        simp only [stepOb, hdot, Bool.not_true, Bool.false_eq_true, if_false]
        rw [if_pos (by simpa using hmem)]
      simp only [exec, List.foldl_cons, List.foldl_nil, List.nil_append, hstep]
      refine ⟨h.reqs, h.now, ?_, fun _ => hdot, h.seen, h.fails⟩
      have := h.owed.erase b
      simpa [stackDisc] using this
    case cancelReq k =>
      have hna : ∀ dt, m.cur ≠ some (.advance dt) := by
        intro dt hc
        have := hmode ⟨dt, hc⟩
        simp [Act.advSafe] at this
      simp only [exec]
      split
      · exact h.plain (st' := st) (by simp [Ob.rel11]) rfl rfl rfl (by simp [stackDisc])
      · split
        · simp only [List.foldl_cons, List.foldl_nil, stepOb_bcCancel_nonadv cfg m k hna]
          exact ⟨h.reqs, h.now, by simpa [stackDisc] using h.owed, by simpa [stackDisc] using h.dot, h.seen, h.fails⟩
        · exact h.plain (st' := st) (by simp) rfl rfl rfl (by simp [stackDisc])
    case fireReq k r nested =>
      have hn : nested = true := by cases nested <;> simp_all [Act.ok11]
      subst hn
      have hst : stackDisc (Act.fireReq k r true :: rest) = stackDisc rest := rfl
      revert hsd hnow hsk fnow fseen
      simp only [exec]
      split
      · intros; exact h.plain (st' := st) (by simp [Ob.rel11]) rfl rfl rfl (by simp [stackDisc])
      · rename_i q hq
        split
        · intros; exact h.plain (st' := st) (by simp) rfl rfl rfl (by simp [stackDisc])
        · dsimp only
          split
          · intro hsd hnow hsk fnow fseen
            simp only [if_true, ↓reduceIte] at hsd hnow hsk fnow fseen ⊢
            obtain ⟨f1, f2, f3⟩ := fired_rel cfg st m k q _ [Ob.cancelTimer (.mrtb k)] h.reqs hq (Or.inr rfl)
            exact h.step (by rw [f1, reqDone_reqs]; rfl) hnow fnow f3 (by rw [hsd]; rfl) fseen hsk (by rw [f2]; exact h.fails)
          · intro hsd hnow hsk fnow fseen
            simp only [Bool.false_eq_true, if_false, if_true, ↓reduceIte] at hsd hnow hsk fnow fseen ⊢
            obtain ⟨f1, f2, f3⟩ := fired_rel cfg st m k q _ [] h.reqs hq (Or.inl rfl)
            exact h.step (by rw [f1, reqDone_reqs]) hnow fnow f3 (by rw [hsd]; rfl) fseen hsk (by rw [f2]; exact h.fails)
    case unawareNext u nodes =>
      revert hsd hnow hsk fnow fseen
      simp only [exec]
      split
      · intros; exact h.plain (st' := st) (by simp [Ob.rel11]) rfl rfl rfl (by simp [stackDisc])
      · split
        · split
          · intros; exact h.plain (st' := st) (by simp [Ob.rel11]) rfl rfl rfl (by simp [stackDisc])
          · rename_i hs
            intro hsd hnow hsk _ _
            exact h.plain (by simp) (congrArg Prod.fst (core_shuffle hs)) hnow hsk (by rw [hsd]; rfl)
        · split
          · rename_i he
            intro hsd hnow hsk _ _
            obtain ⟨e1, _, e3⟩ := issueTo_rel_err he
            exact h.plain e3 e1 hnow hsk (by rw [hsd]; rfl)
          · rename_i x _ _ _ _ _ i he
            intro hsd hnow hsk fnow fseen
            have hb : match grpOf (match x.kind with | .metadata ts => ReqWhat.metadata ts | .coord g => ReqWhat.coord g) with
                | none => (none : Option Rat) = none | some g => (g, none) ∈ m.seen := by
              cases x.kind <;> simp [grpOf]
            obtain ⟨i1, i2, i3, _⟩ := issueTo_rel_ok he h hinv hb
            exact h.step i1 hnow fnow i3 (by rw [hsd]; rfl) fseen hsk i2
    case issueSlot s j =>
      revert hsd hnow hsk fnow fseen
      simp only [exec]
      split
      · intros; exact h.plain (st' := st) (by simp [Ob.rel11]) rfl rfl rfl (by simp [stackDisc])
      · split
        · split
          · intros; exact h.plain (st' := st) (by simp [Ob.rel11]) rfl rfl rfl (by simp [stackDisc])
          · split
            · rename_i he
              intro hsd hnow hsk _ _
              obtain ⟨e1, _, e3⟩ := issueTo_rel_err he
              exact h.plain e3 e1 hnow hsk (by rw [hsd]; rfl)
            · rename_i he
              intro hsd hnow hsk fnow fseen
              obtain ⟨i1, i2, i3, _⟩ := issueTo_rel_ok he h hinv (by simp [grpOf])
              exact h.step i1 hnow fnow i3 (by rw [hsd]; rfl) fseen hsk i2
        · intros; exact h.plain (st' := st) (by simp) rfl rfl rfl (by simp [stackDisc])
    case srtcGo r =>
      revert hsd hnow hsk fnow fseen
      simp only [exec]
      split
      · intros; exact h.plain (st' := st) (by simp [Ob.rel11]) rfl rfl rfl (by simp [stackDisc])
      · rename_i x hx
        split
        · intros; exact h.plain (st' := st) (by simp) rfl rfl rfl (by simp [stackDisc])
        · split
          · rename_i he
            intro hsd hnow hsk _ _
            obtain ⟨e1, _, e3⟩ := issueTo_rel_err he
            exact h.plain e3 e1 hnow hsk (by rw [hsd]; rfl)
          · rename_i he
            intro hsd hnow hsk fnow fseen
            have hxm : x ∈ st.srtcs := head?_filter_mem hx
            obtain ⟨i1, i2, i3, _⟩ := issueTo_rel_ok he h hinv (by simpa [grpOf] using h.seen x hxm)
            exact h.step i1 hnow fnow i3 (by rw [hsd]; rfl) fseen hsk i2
    all_goals (exact absurd trivial hp)

def IsAdv (m : MSt) : Prop := ∃ dt, m.cur = some (.advance dt)

/-- running the stack to completion: the monitor accepts every observation and ends related to the final state -/
theorem runActs_rel (cfg : Cfg) (h0 : 0 ≤ cfg.timeout) (h1 : 0 ≤ cfg.retryDelay) :
    ∀ (fuel : Nat) (st : St) (acts : List Act) (obs0 : List Ob) (m : MSt),
    SInv st → Rel cfg st acts m → acts.all Act.ok11 = true → (IsAdv m → acts.all Act.advSafe = true) →
    Ob.badOp "fuel" ∉ (runActs cfg fuel st acts obs0).2 →
    ∃ new, (runActs cfg fuel st acts obs0).2 = obs0 ++ new ∧
      Rel cfg (runActs cfg fuel st acts obs0).1 [] (new.foldl (stepOb cfg) m)
  | 0, st, acts, obs0, m, _, _, _, _, hf => by
    simp [runActs] at hf
  | fuel+1, st, [], obs0, m, _, hrel, _, _, _ => by
    exact ⟨[], by simp [runActs], by simpa [runActs] using hrel⟩
  | fuel+1, st, a :: rest, obs0, m, hinv, hrel, hok, hadv, hf => by
    simp only [runActs] at hf ⊢
    simp only [List.all_cons, Bool.and_eq_true] at hok
    have hrel1 := exec_rel cfg h0 h1 st a rest m hok.1 hinv hrel (fun ha => by
      have := hadv ha; simp only [List.all_cons, Bool.and_eq_true] at this; exact this.1)
    have hinv1 := exec_inv cfg st a (by cases a <;> simp_all [Act.ok11, Act.notTimeout]) hinv
    obtain ⟨fcur, _, _, _⟩ := foldl_frame cfg (exec cfg st a).2.1 m
    obtain ⟨new, hnew, hr⟩ := runActs_rel cfg h0 h1 fuel (exec cfg st a).1 ((exec cfg st a).2.2 ++ rest) (obs0 ++ (exec cfg st a).2.1)
      ((exec cfg st a).2.1.foldl (stepOb cfg) m) hinv1 hrel1
      (by rw [List.all_append, exec_ok11, hok.2]; rfl)
      (fun ha => by
        have ha' : IsAdv m := by obtain ⟨dt, hdt⟩ := ha; exact ⟨dt, by rw [← fcur]; exact hdt⟩
        have := hadv ha'
        simp only [List.all_cons, Bool.and_eq_true] at this
        rw [List.all_append, exec_advSafe cfg st a this.1, this.2]; rfl)
      hf
    refine ⟨(exec cfg st a).2.1 ++ new, by rw [hnew, List.append_assoc], ?_⟩
    rw [List.foldl_append]
    exact hr

/-! ### between steps -/

def LateOk (m : MSt) : Prop := match m.lateOf with | some _ => m.nobs = 1 | none => True

/-- the end-of-step rules find nothing when no disconnect is owed and a late reply stood alone -/
theorem endStep_core (m : MSt) (howed : m.owedDisc = []) (hlate : LateOk m) :
    (endStep m).fails = m.fails ∧ (endStep m).reqs = m.reqs ∧ (endStep m).now = m.now ∧ (endStep m).seen = m.seen ∧
    (endStep m).owedDisc = [] ∧ (endStep m).lateOf = none := by
  unfold LateOk at hlate
  unfold endStep
  simp only [howed, List.isEmpty_nil, if_true]
  refine ⟨?_, ?_, ?_, ?_, ?_, ?_⟩
  all_goals (cases hl : m.lateOf <;> rw [hl] at hlate)
  all_goals (repeat' split)
  all_goals (simp_all [fail, failX])

theorem foldl_fixed {α β} (f : β → α → β) (l : List α) (s : β) (h : ∀ a ∈ l, f s a = s) : l.foldl f s = s := by
  induction l with
  | nil => rfl
  | cons a l ih =>
    simp only [List.foldl_cons]
    rw [h a (by simp)]
    exact ih (fun b hb => h b (by simp [hb]))

theorem reqGet_of_mem' {st : St} (hu : ∀ q ∈ st.reqs, ∀ q' ∈ st.reqs, q.k = q'.k → q = q') {q : Req} (hq : q ∈ st.reqs) :
    reqGet st q.k = some q := by
  unfold reqGet
  cases hh : (st.reqs.filter (fun r => r.k == q.k)).head? with
  | none =>
    have := List.head?_eq_none_iff.mp hh
    have hm : q ∈ st.reqs.filter (fun r => r.k == q.k) := List.mem_filter.mpr ⟨hq, by simp⟩
    rw [this] at hm; cases hm
  | some q' =>
    have hm := List.mem_filter.mp (List.mem_of_mem_head? hh)
    have : q' = q := hu q' hm.1 q hq (by simpa using hm.2)
    rw [this]

theorem reqGet_of_mem {st : St} (hinv : SInv st) {q : Req} (hq : q ∈ st.reqs) : reqGet st q.k = some q := by
  unfold reqGet
  cases hh : (st.reqs.filter (fun r => r.k == q.k)).head? with
  | none =>
    have := List.head?_eq_none_iff.mp hh
    have hm : q ∈ st.reqs.filter (fun r => r.k == q.k) := List.mem_filter.mpr ⟨hq, by simp⟩
    rw [this] at hm; cases hm
  | some q' =>
    have hm := List.mem_filter.mp (List.mem_of_mem_head? hh)
    have : q' = q := hinv.kUnique q' hm.1 q hq (by simpa using hm.2)
    rw [this]

/-- the end-of-step timer check finds nothing in a state that satisfies the timer invariant with nothing overdue -/
theorem timers_ok (cfg : Cfg) (st : St) (m : MSt) (hreqs : m.reqs = st.reqs.map toM) (hnow : m.now = st.now)
    (hinv : SInv st) (hno : NotOverdue st) :
    stepItem cfg m (.timers (st.timers.map (fun t => (t.what, t.due)))) = m := by
  simp only [stepItem]
  generalize hN : List.filterMap _ (List.map (fun t => (t.what, t.due)) st.timers) = names
  have hnames : ∀ (k : Nat) (d : Rat), (k, d) ∈ names ↔ ({ what := .mrtb k, due := d } : Timer) ∈ st.timers := by
    intro k d
    rw [← hN]
    simp only [List.mem_filterMap, List.mem_map]
    constructor
    · rintro ⟨a, ⟨t, ht, rfl⟩, ha⟩
      dsimp only at ha
      split at ha
      · rename_i k' hk'
        simp only [Option.some.injEq, Prod.mk.injEq] at ha
        obtain ⟨rfl, rfl⟩ := ha
        have : t = { what := .mrtb k', due := t.due } := by cases t; simp_all
        rw [← this]; exact ht
      · cases ha
    · intro ht
      exact ⟨(.mrtb k, d), ⟨_, ht, rfl⟩, rfl⟩
  have key : ∀ (f1 : MSt → MReq → MSt) (f2 : MSt → (Nat × Rat) → MSt) (l1 : List MReq) (l2 : List (Nat × Rat)),
      (∀ r ∈ l1, f1 m r = m) → (∀ n ∈ l2, f2 m n = m) → l2.foldl f2 (l1.foldl f1 m) = m := by
    intro f1 f2 l1 l2 a b; rw [foldl_fixed f1 l1 m a]; exact foldl_fixed f2 l2 m b
  apply key
  · intro r hr
    obtain ⟨hrm, hrp⟩ := List.mem_filter.mp hr
    rw [hreqs] at hrm
    obtain ⟨q, hq, rfl⟩ := List.mem_map.mp hrm
    have hpt := hinv.pendTimer q hq hrp
    have hc : names.contains (q.k, q.due) = true := by
      rw [List.contains_iff_mem]; exact (hnames _ _).mpr hpt
    have hd : ¬ q.due < m.now := by
      rw [hnow]; exact Rat.not_lt.mpr (hno _ hpt)
    simp only [toM]
    rw [if_neg hd]
    have hmem : (q.k, q.due) ∈ names := (hnames _ _).mpr hpt
    simp [hmem]
  · intro n hn
    obtain ⟨k, d⟩ := n
    have ht := (hnames k d).mp hn
    obtain ⟨q, hq, hqk, hqp, _⟩ := hinv.timerPend _ ht k rfl
    have hg : getReq m k = some (toM q) := by
      rw [getReq_map hreqs]
      have := reqGet_of_mem hinv hq
      unfold reqGet at this
      rw [← hqk, this]; rfl
    simp only [hg, toM, hqp, if_true]

/-! ### one step of the model against the monitor -/

/-- what holds between two steps -/
structure StepInv (cfg : Cfg) (st : St) (m : MSt) : Prop where
  rel : Rel cfg st [] m
  inv : SInv st
  nover : NotOverdue st
  late : LateOk m

theorem foldl_obs_items (cfg : Cfg) : ∀ (obs : List Ob) (m : MSt),
    (obs.map TItem.ob).foldl (stepItem cfg) m = obs.foldl (stepOb cfg) m
  | [], _ => rfl
  | o :: rest, m => by
    simp only [List.map_cons, List.foldl_cons]
    exact foldl_obs_items cfg rest _

/-- the monitor state after the event item, in terms of the one before -/
structure EvCore (m m1 : MSt) (e : Ev) : Prop where
  reqs : m1.reqs = m.reqs
  now : m1.now = m.now
  seen : m1.seen = m.seen
  owed : m1.owedDisc = []
  fails : m1.fails = m.fails
  late : m1.lateOf = none
  cur : m1.cur = some e
  nobs : m1.nobs = 0

theorem ev_core (cfg : Cfg) (m : MSt) (e : Ev) (howed : m.owedDisc = []) (hlate : LateOk m)
    (hne : match e with | .advance _ => False | .srtc .. => False | .fire .. => False | _ => True) :
    EvCore m (stepItem cfg m (.ev e)) e := by
  obtain ⟨e1, e2, e3, e4, e5, e6⟩ := endStep_core m howed hlate
  cases e <;> simp only at hne
  all_goals exact ⟨e2, e3, e4, e5, e1, e6, rfl, rfl⟩

theorem Rel.start {cfg : Cfg} {st st0 : St} {m m1 : MSt} {acts : List Act} (h : Rel cfg st [] m)
    (hreqs : st0.reqs = st.reqs) (hnow : st0.now = st.now) (hm1r : m1.reqs = m.reqs) (hm1n : m1.now = m.now)
    (hm1o : m1.owedDisc = []) (hm1f : m1.fails = m.fails)
    (hseen : ∀ x ∈ st0.srtcs, (x.g, x.minTimeout) ∈ m1.seen) (hnd : acts.all Act.notDisc = true) : Rel cfg st0 acts m1 := by
  have hsd := stackDisc_nil_of_all hnd
  refine ⟨by rw [hm1r, hreqs]; exact h.reqs, by rw [hm1n, hnow]; exact h.now, by rw [hm1o, hsd], by rw [hsd]; intro hh; exact absurd rfl hh,
    hseen, by rw [hm1f]; exact h.fails⟩

theorem run_sound (cfg : Cfg) (h0 : 0 ≤ cfg.timeout) (h1 : 0 ≤ cfg.retryDelay) (st0 : St) (acts : List Act) (m1 : MSt)
    (hrel : Rel cfg st0 acts m1) (hinv : SInv st0) (hok : acts.all Act.ok11 = true) (hna : ¬ IsAdv m1)
    (hf : Ob.badOp "fuel" ∉ (runActs cfg fuel st0 acts []).2) :
    Rel cfg (runActs cfg fuel st0 acts []).1 [] ((runActs cfg fuel st0 acts []).2.foldl (stepOb cfg) m1) := by
  obtain ⟨new, hnew, hr⟩ := runActs_rel cfg h0 h1 fuel st0 acts [] m1 hinv hrel hok (fun ha => absurd ha hna) hf
  rw [hnew]; simpa using hr

/-- the cache dump and the timer list that end a step's items change nothing -/
theorem tail_ok (cfg : Cfg) (st' : St) (m' : MSt) (hrel : Rel cfg st' [] m') (hinv : SInv st') (hno : NotOverdue st') (hl : LateOk m') :
    StepInv cfg st' (stepItem cfg (stepItem cfg m' (.dump st'.cache)) (.timers (st'.timers.map (fun t => (t.what, t.due))))) := by
  have hd : stepItem cfg m' (.dump st'.cache) = m' := rfl
  rw [hd, timers_ok cfg st' m' hrel.reqs hrel.now hinv hno]
  exact ⟨hrel, hinv, hno, hl⟩

theorem lateOk_of_none {m : MSt} (h : m.lateOf = none) : LateOk m := by
  unfold LateOk; rw [h]; trivial

theorem not_isAdv_of_cur {m : MSt} {e : Ev} (hc : m.cur = some e) (hne : ∀ dt, e ≠ .advance dt) : ¬ IsAdv m := by
  rintro ⟨dt, hdt⟩
  rw [hc] at hdt
  exact hne dt (Option.some.inj hdt)

/-- events that start with the monitor's table untouched and run a stack of tame actions -/
theorem classA (cfg : Cfg) (h0 : 0 ≤ cfg.timeout) (h1 : 0 ≤ cfg.retryDelay) {st : St} {m m1 : MSt} (hI : StepInv cfg st m)
    (hm1r : m1.reqs = m.reqs) (hm1n : m1.now = m.now) (hm1o : m1.owedDisc = []) (hm1f : m1.fails = m.fails)
    (hm1l : m1.lateOf = none) (hna : ¬ IsAdv m1)
    (st0 : St) (acts : List Act) (obs0 : List Ob)
    (hreqs : st0.reqs = st.reqs) (htim : st0.timers = st.timers) (hnow : st0.now = st.now)
    (hseen : ∀ x ∈ st0.srtcs, (x.g, x.minTimeout) ∈ m1.seen)
    (hok : acts.all Act.ok11 = true) (hnd : acts.all Act.notDisc = true) (hobs0 : ∀ o ∈ obs0, o.rel11 = false)
    (hf : Ob.badOp "fuel" ∉ (runActs cfg fuel st0 acts obs0).2) :
    Rel cfg (runActs cfg fuel st0 acts obs0).1 [] ((runActs cfg fuel st0 acts obs0).2.foldl (stepOb cfg) m1) ∧
    LateOk ((runActs cfg fuel st0 acts obs0).2.foldl (stepOb cfg) m1) := by
  have hinv0 : SInv st0 := by unfold SInv; rw [hreqs, htim]; exact hI.inv
  have hrel0 : Rel cfg st0 acts m1 := hI.rel.start hreqs hnow hm1r hm1n hm1o hm1f hseen hnd
  have hc := foldl_irrelevant cfg obs0 m1 hobs0
  obtain ⟨c1, _, _, c4⟩ := foldl_frame cfg obs0 m1
  have hrel0' : Rel cfg st0 acts (obs0.foldl (stepOb cfg) m1) :=
    hrel0.plain hobs0 rfl rfl rfl rfl
  have hna' : ¬ IsAdv (obs0.foldl (stepOb cfg) m1) := by
    rintro ⟨dt, hdt⟩; exact hna ⟨dt, by rw [← c1]; exact hdt⟩
  obtain ⟨new, hnew, hr⟩ := runActs_rel cfg h0 h1 fuel st0 acts obs0 _ hinv0 hrel0' hok (fun ha => absurd ha hna') hf
  rw [hnew, List.foldl_append]
  refine ⟨hr, lateOk_of_none ?_⟩
  rw [(foldl_frame cfg new _).2.2.2, c4, hm1l]

theorem cancelOp_facts (st : St) (o : Nat) :
    (cancelOp st o).1.reqs = st.reqs ∧ (cancelOp st o).1.timers = st.timers ∧ (cancelOp st o).1.now = st.now ∧
    srtcKeys (cancelOp st o).1 = srtcKeys st ∧ (∀ ob ∈ (cancelOp st o).2.1, ob.rel11 = false) ∧
    (cancelOp st o).2.2.all Act.ok11 = true ∧ (cancelOp st o).2.2.all Act.notDisc = true := by
  unfold cancelOp
  repeat' split
  all_goals (try dsimp only)
  all_goals (refine ⟨?_, ?_, ?_, ?_, ?_, ?_, ?_⟩)
  all_goals (first
    | rfl
    | exact cancelUnaware_obs11 _
    | exact cancelUnaware_ok11 _
    | exact cancelUnaware_noDisc _
    | (simp [List.all_flatMap, Act.ok11, Act.notDisc, Ob.rel11]; done)
    | (simp_all [List.all_flatMap, Act.ok11, Act.notDisc, Ob.rel11]; done)
    | (rw [List.all_flatMap]; apply List.all_eq_true.mpr; intro sl _; split <;> simp [Act.ok11, Act.notDisc]))

theorem runActs_prefix (cfg : Cfg) : ∀ (fuel : Nat) (st : St) (acts : List Act) (obs : List Ob),
    ∃ more, (runActs cfg fuel st acts obs).2 = obs ++ more
  | 0, st, acts, obs => ⟨[.badOp "fuel"], rfl⟩
  | fuel+1, st, [], obs => ⟨[], by simp [runActs]⟩
  | fuel+1, st, a :: rest, obs => by
    simp only [runActs]
    obtain ⟨more, hm⟩ := runActs_prefix cfg fuel (exec cfg st a).1 ((exec cfg st a).2.2 ++ rest) (obs ++ (exec cfg st a).2.1)
    exact ⟨(exec cfg st a).2.1 ++ more, by rw [hm, List.append_assoc]⟩

theorem fireDue_prefix (cfg : Cfg) : ∀ (n : Nat) (st : St) (obs : List Ob), ∃ more, (fireDue cfg n st obs).2 = obs ++ more
  | 0, st, obs => ⟨[.badOp "fuel"], rfl⟩
  | n+1, st, obs => by
    simp only [fireDue]
    split
    · exact ⟨[], by simp⟩
    · split
      · exact ⟨[], by simp⟩
      · rename_i t rest _ _
        obtain ⟨m1, h1⟩ := runActs_prefix cfg fuel { st with timers := rest } [timerAct t.what] obs
        obtain ⟨m2, h2⟩ := fireDue_prefix cfg n (runActs cfg fuel { st with timers := rest } [timerAct t.what] obs).1
          (runActs cfg fuel { st with timers := rest } [timerAct t.what] obs).2
        exact ⟨m1 ++ m2, by rw [h2, h1, List.append_assoc]⟩

theorem stepOb_bcCancel_adv (cfg : Cfg) (m : MSt) (k : Nat) (dt : Rat) (r : MReq) (due : Rat)
    (hc : m.cur = some (.advance dt)) (hg : getReq m k = some r) (hd : r.due = some due) (hle : due ≤ m.now) :
    (stepOb cfg m (.bcCancel k)).owedDisc = m.owedDisc ++ (if cfg.disconnectOnTimeout then [r.b] else []) ∧
    (stepOb cfg m (.bcCancel k)).reqs = m.reqs ∧ (stepOb cfg m (.bcCancel k)).fails = m.fails := by
  simp only [stepOb]
  rw [show getReq { m with nobs := m.nobs + 1 } k = getReq m k from rfl, hg]
  simp only [hc, hd]
  cases hdot : cfg.disconnectOnTimeout
  · simp
  · simp [hle]

/-- the clock fires the timer of request `k` (just popped): `bcCancel`, `fired`, and the disconnect is owed -/
theorem timeoutFired_rel (cfg : Cfg) (st : St) (k : Nat) (m : MSt) (hx : NInvX k st.reqs st.timers)
    (hrel : Rel cfg st [] m) (hadv : IsAdv m) (hdue : ∀ q ∈ st.reqs, q.k = k → q.pending = true → q.due ≤ st.now) :
    Rel cfg (exec cfg st (.timeoutFired k)).1 (exec cfg st (.timeoutFired k)).2.2
      ((exec cfg st (.timeoutFired k)).2.1.foldl (stepOb cfg) m) ∧
    (exec cfg st (.timeoutFired k)).2.2.all Act.ok11 = true ∧ (exec cfg st (.timeoutFired k)).2.2.all Act.advSafe = true := by
  obtain ⟨q, hq, hqk, hqp⟩ := hx.isPending
  have hget : reqGet st k = some q := by rw [← hqk]; exact reqGet_of_mem' hx.kUnique hq
  obtain ⟨dt, hdt⟩ := hadv
  have hle : q.due ≤ m.now := by rw [hrel.now]; exact hdue q hq hqk hqp
  have hgm : getReq m k = some (toM q) := by
    rw [getReq_map hrel.reqs]
    unfold reqGet at hget
    rw [hget]; rfl
  obtain ⟨b1, b2, b3⟩ := stepOb_bcCancel_adv cfg m k dt (toM q) q.due hdt hgm rfl hle
  have howed0 : m.owedDisc = [] := List.Perm.eq_nil (by simpa [stackDisc] using hrel.owed)
  simp only [exec, hget, hqp, Bool.not_true, Bool.false_eq_true, if_false, List.foldl_cons, List.foldl_nil]
  generalize hm1 : stepOb cfg m (Ob.bcCancel k) = m1 at b1 b2 b3
  have hres : (resolve { m1 with nobs := m1.nobs + 1 } k).reqs =
      (setReq st k (fun x => { x with timedOut := true, pending := false })).reqs.map toM :=
    setReq_map (m := { m1 with nobs := m1.nobs + 1 }) (by show m1.reqs = _; rw [b2]; exact hrel.reqs) k _ _ (fun q => rfl)
  have hf1 : (stepOb cfg m1 (.fired k (some .cancelled))).now = m.now ∧ (stepOb cfg m1 (.fired k (some .cancelled))).seen = m.seen := by
    have a := stepOb_frame cfg m1 (.fired k (some .cancelled))
    have b := stepOb_frame cfg m (.bcCancel k)
    rw [hm1] at b
    exact ⟨a.2.1.trans b.2.1, a.2.2.1.trans b.2.2.1⟩
  refine ⟨?_, ?_, ?_⟩
  · refine ⟨?_, ?_, ?_, ?_, ?_, ?_⟩
    · show (resolve { m1 with nobs := m1.nobs + 1 } k).reqs = _
      rw [hres, reqDone_reqs]
    · rw [hf1.1, hrel.now, reqDone_now]; rfl
    · show m1.owedDisc.Perm _
      rw [b1, howed0, stackDisc_append, stackDisc_nil_of_all (reqDone_noDisc _ _ _ _)]
      cases cfg.disconnectOnTimeout <;> simp [stackDisc, toM]
    · intro hne
      rw [stackDisc_append, stackDisc_nil_of_all (reqDone_noDisc _ _ _ _)] at hne
      cases hdot : cfg.disconnectOnTimeout
      · simp [hdot, stackDisc] at hne
      · rfl
    · intro x hx
      rw [hf1.2]
      have : (x.g, x.minTimeout) ∈ srtcKeys st := by
        have h1 := srtcKeys_reqDone (setReq st k (fun x => { x with timedOut := true, pending := false })) q.owner k (.err .timedOut)
        rw [srtcKeys_setReq] at h1
        rw [← h1]; exact mem_srtcKeys.mpr ⟨x, hx, rfl⟩
      obtain ⟨y, hy, hyx⟩ := mem_srtcKeys.mp this
      rw [← hyx]; exact hrel.seen y hy
    · show m1.fails = []
      rw [b3]; exact hrel.fails
  · rw [List.all_append, reqDone_ok11]; cases cfg.disconnectOnTimeout <;> simp [Act.ok11]
  · rw [List.all_append, reqDone_advSafe]; cases cfg.disconnectOnTimeout <;> simp [Act.advSafe]

/-- one due timer: its action runs to completion -/
theorem timerRun_rel (cfg : Cfg) (h0 : 0 ≤ cfg.timeout) (h1 : 0 ≤ cfg.retryDelay) (st : St) (t : Timer) (rest : List Timer)
    (obs0 : List Ob) (m : MSt) (ht : st.timers = t :: rest) (hdue : ¬ st.now < t.due)
    (hinv : SInv st) (hrel : Rel cfg st [] m) (hadv : IsAdv m)
    (hf : Ob.badOp "fuel" ∉ (runActs cfg fuel { st with timers := rest } [timerAct t.what] obs0).2) :
    SInv (runActs cfg fuel { st with timers := rest } [timerAct t.what] obs0).1 ∧
    ∃ new, (runActs cfg fuel { st with timers := rest } [timerAct t.what] obs0).2 = obs0 ++ new ∧
      Rel cfg (runActs cfg fuel { st with timers := rest } [timerAct t.what] obs0).1 [] (new.foldl (stepOb cfg) m) := by
  have hpop := NInv.pop (show NInv st.reqs (t :: rest) by rw [← ht]; exact hinv)
  have hrel1 : ∀ a : Act, a.notDisc = true → Rel cfg ({ st with timers := rest } : St) [a] m := fun a ha =>
    hrel.plain (obs := []) (by simp) rfl rfl rfl (by rw [stackDisc_cons [] ha])
  cases hw : t.what with
  | mrtb k =>
    have hx : NInvX k ({ st with timers := rest } : St).reqs ({ st with timers := rest } : St).timers := hpop.1 k hw
    have hdue' : ∀ q ∈ ({ st with timers := rest } : St).reqs, q.k = k → q.pending = true → q.due ≤ ({ st with timers := rest } : St).now := by
      intro q hq hqk _
      obtain ⟨q', hq', hqk', _, hqd⟩ := hinv.timerPend t (by rw [ht]; simp) k hw
      have : q = q' := hinv.kUnique q hq q' hq' (by rw [hqk, hqk'])
      rw [this, hqd]
      exact Rat.not_lt.mp hdue
    have hrel0 : Rel cfg ({ st with timers := rest } : St) [] m := hrel.plain (obs := []) (by simp) rfl rfl rfl rfl
    obtain ⟨r1, r2, r3⟩ := timeoutFired_rel cfg _ k m hx hrel0 hadv hdue'
    have hinv' := exec_timeoutFired cfg _ k hx
    have hfu : fuel = 99999 + 1 := rfl
    simp only [hw, timerAct] at hf ⊢
    rw [hfu] at hf ⊢
    simp only [runActs, List.append_nil] at hf ⊢
    obtain ⟨fcur, _, _, _⟩ := foldl_frame cfg (exec cfg ({ st with timers := rest } : St) (.timeoutFired k)).2.1 m
    obtain ⟨new, hnew, hr⟩ := runActs_rel cfg h0 h1 99999 _ _ (obs0 ++ (exec cfg ({ st with timers := rest } : St) (.timeoutFired k)).2.1)
      _ hinv' r1 r2 (fun _ => r3) hf
    refine ⟨runActs_inv cfg _ _ _ _ hinv' (exec_acts cfg _ _), (exec cfg ({ st with timers := rest } : St) (.timeoutFired k)).2.1 ++ new, ?_, ?_⟩
    · rw [hnew, List.append_assoc]
    · rw [List.foldl_append]; exact hr
  | boot j =>
    have hx : SInv ({ st with timers := rest } : St) := hpop.2 (fun k hh => by rw [hw] at hh; cases hh)
    simp only [hw, timerAct] at hf ⊢
    refine ⟨runActs_inv cfg _ _ _ _ hx (by simp [Act.notTimeout]), ?_⟩
    exact runActs_rel cfg h0 h1 fuel _ _ obs0 m hx (hrel1 _ rfl) (by simp [Act.ok11]) (fun _ => by simp [Act.advSafe]) hf
  | retry l =>
    have hx : SInv ({ st with timers := rest } : St) := hpop.2 (fun k hh => by rw [hw] at hh; cases hh)
    simp only [hw, timerAct] at hf ⊢
    refine ⟨runActs_inv cfg _ _ _ _ hx (by simp [Act.notTimeout]), ?_⟩
    exact runActs_rel cfg h0 h1 fuel _ _ obs0 m hx (hrel1 _ rfl) (by simp [Act.ok11]) (fun _ => by simp [Act.advSafe]) hf

theorem fireDue_nil (cfg : Cfg) (n : Nat) (st : St) (obs : List Ob) (ht : st.timers = []) :
    fireDue cfg (n+1) st obs = (st, obs) := by
  unfold fireDue
  split
  · rfl
  · rename_i t' rest' h; rw [ht] at h; cases h

theorem fireDue_cons (cfg : Cfg) (n : Nat) (st : St) (obs : List Ob) (t : Timer) (rest : List Timer) (ht : st.timers = t :: rest) :
    fireDue cfg (n+1) st obs =
      if st.now < t.due then (st, obs) else
      fireDue cfg n (runActs cfg fuel { st with timers := rest } [timerAct t.what] obs).1
        (runActs cfg fuel { st with timers := rest } [timerAct t.what] obs).2 := by
  conv => lhs; unfold fireDue
  split
  · rename_i h; rw [ht] at h; cases h
  · rename_i t' rest' h
    rw [ht] at h
    cases h
    rfl

/-- a clock advance: every due timer in turn -/
theorem fireDue_rel (cfg : Cfg) (h0 : 0 ≤ cfg.timeout) (h1 : 0 ≤ cfg.retryDelay) :
    ∀ (n : Nat) (st : St) (obs0 : List Ob) (m : MSt), SInv st → Rel cfg st [] m → IsAdv m →
    Ob.badOp "fuel" ∉ (fireDue cfg n st obs0).2 →
    ∃ new, (fireDue cfg n st obs0).2 = obs0 ++ new ∧ Rel cfg (fireDue cfg n st obs0).1 [] (new.foldl (stepOb cfg) m)
  | 0, st, obs0, m, _, _, _, hf => by simp [fireDue] at hf
  | n+1, st, obs0, m, hinv, hrel, hadv, hf => by
    cases ht : st.timers with
    | nil =>
      rw [fireDue_nil cfg n st obs0 ht]
      exact ⟨[], by simp, hrel⟩
    | cons t rest =>
      rw [fireDue_cons cfg n st obs0 t rest ht] at hf ⊢
      by_cases hlt : st.now < t.due
      · rw [if_pos hlt]
        exact ⟨[], by simp, hrel⟩
      · rw [if_neg hlt] at hf ⊢
        obtain ⟨more, hmore⟩ := fireDue_prefix cfg n (runActs cfg fuel { st with timers := rest } [timerAct t.what] obs0).1
          (runActs cfg fuel { st with timers := rest } [timerAct t.what] obs0).2
        have hf1 : Ob.badOp "fuel" ∉ (runActs cfg fuel { st with timers := rest } [timerAct t.what] obs0).2 := by
          intro hh; apply hf; rw [hmore]; exact List.mem_append_left _ hh
        obtain ⟨hinv2, new1, hnew1, hr1⟩ := timerRun_rel cfg h0 h1 st t rest obs0 m ht hlt hinv hrel hadv hf1
        have hadv2 : IsAdv (new1.foldl (stepOb cfg) m) := by
          obtain ⟨dt, hdt⟩ := hadv
          exact ⟨dt, by rw [(foldl_frame cfg new1 m).1]; exact hdt⟩
        obtain ⟨new2, hnew2, hr2⟩ := fireDue_rel cfg h0 h1 n _ _ (new1.foldl (stepOb cfg) m) hinv2 hr1 hadv2 hf
        refine ⟨new1 ++ new2, by rw [hnew2, hnew1, List.append_assoc], ?_⟩
        rw [List.foldl_append]; exact hr2

theorem cloadJoin_frame (st : St) (w : Waiter) (g : String) :
    (cloadJoin st w g).1.reqs = st.reqs ∧ (cloadJoin st w g).1.timers = st.timers ∧ (cloadJoin st w g).1.now = st.now ∧
    (cloadJoin st w g).1.srtcs = st.srtcs := by
  unfold cloadJoin; split <;> exact ⟨rfl, rfl, rfl, rfl⟩

/-- the event item for a completion from the network -/
theorem ev_fire (cfg : Cfg) (m : MSt) (st : St) (k : Nat) (r : Res) (hrel : Rel cfg st [] m) (hlate : LateOk m) :
    (stepItem cfg m (.ev (.fire k r))).now = m.now ∧ (stepItem cfg m (.ev (.fire k r))).seen = m.seen ∧
    (stepItem cfg m (.ev (.fire k r))).owedDisc = [] ∧ (stepItem cfg m (.ev (.fire k r))).fails = [] ∧
    (stepItem cfg m (.ev (.fire k r))).cur = some (.fire k r) ∧
    (match reqGet st k with
     | none => (stepItem cfg m (.ev (.fire k r))).reqs = m.reqs ∧ (stepItem cfg m (.ev (.fire k r))).lateOf = none
     | some q =>
       if q.pending then
         (stepItem cfg m (.ev (.fire k r))).reqs = (setReq st k (fun x => { x with pending := false })).reqs.map toM ∧
         (stepItem cfg m (.ev (.fire k r))).lateOf = none
       else (stepItem cfg m (.ev (.fire k r))).reqs = m.reqs ∧ (stepItem cfg m (.ev (.fire k r))).lateOf = some k ∧
         (stepItem cfg m (.ev (.fire k r))).nobs = 0) := by
  have howed : m.owedDisc = [] := List.Perm.eq_nil (by simpa [stackDisc] using hrel.owed)
  obtain ⟨e1, e2, e3, e4, e5, e6⟩ := endStep_core m howed hlate
  have hsr : ({ endStep m with cur := some (.fire k r), nobs := 0 } : MSt).reqs = st.reqs.map toM := by
    show (endStep m).reqs = _; rw [e2]; exact hrel.reqs
  have hg := getReq_map hsr k
  simp only [stepItem]
  rw [hg]
  cases hq : reqGet st k with
  | none =>
    unfold reqGet at hq
    rw [hq]
    exact ⟨e3, e4, e5, by rw [← hrel.fails]; exact e1, rfl, e2, e6⟩
  | some q =>
    have hq' := hq
    unfold reqGet at hq'
    rw [hq']
    simp only [Option.map_some, toM]
    cases hp : q.pending
    · simp only [Bool.false_eq_true, if_false]
      exact ⟨e3, e4, e5, by rw [← hrel.fails]; exact e1, trivial, e2, trivial, trivial⟩
    · simp only [if_true]
      refine ⟨e3, e4, e5, by rw [← hrel.fails]; exact e1, rfl, ?_, e6⟩
      exact setReq_map hsr k _ _ (fun q => rfl)

theorem closeBc_ok11 (l : List Nat) : (l.map Act.closeBc).all Act.ok11 = true := by
  simp [List.all_map, Function.comp_def, Act.ok11]

theorem closeBc_noDisc (l : List Nat) : (l.map Act.closeBc).all Act.notDisc = true := by
  simp [List.all_map, Function.comp_def, Act.notDisc]

/-- a reply from the network to an unresolved request: the monitor resolved it at the event; the model now
    releases the timer and runs the callbacks -/
theorem fire_pending_rel (cfg : Cfg) (h0 : 0 ≤ cfg.timeout) (h1 : 0 ≤ cfg.retryDelay) (st : St) (k : Nat) (r : Res) (q : Req) (m1 : MSt)
    (hinv : SInv st) (hq : reqGet st k = some q) (hp : q.pending = true)
    (hreqs : m1.reqs = (setReq st k (fun x => { x with pending := false })).reqs.map toM) (hnow : m1.now = st.now)
    (howed : m1.owedDisc = []) (hfails : m1.fails = []) (hseen : ∀ x ∈ st.srtcs, (x.g, x.minTimeout) ∈ m1.seen)
    (hna : ¬ IsAdv m1) (hf : Ob.badOp "fuel" ∉ (runActs cfg fuel st [.fireReq k r false] []).2) :
    Rel cfg (runActs cfg fuel st [.fireReq k r false] []).1 [] ((runActs cfg fuel st [.fireReq k r false] []).2.foldl (stepOb cfg) m1) := by
  have hfu : fuel = 99999 + 1 := rfl
  have hinv' := exec_fireReq cfg st k r false hinv
  rw [hfu] at hf ⊢
  simp only [runActs, List.append_nil, List.nil_append] at hf ⊢
  have hgm : getReq m1 k = some (toM { q with pending := false }) := by
    rw [getReq_map hreqs]
    have := reqGet_setReq (fun x => { x with pending := false }) hq (fun _ => rfl)
    unfold reqGet at this
    rw [this]; rfl
  -- the relation after the first action
  have hrel1 : Rel cfg (exec cfg st (.fireReq k r false)).1 (exec cfg st (.fireReq k r false)).2.2
      ((exec cfg st (.fireReq k r false)).2.1.foldl (stepOb cfg) m1) ∧
      (exec cfg st (.fireReq k r false)).2.2.all Act.ok11 = true := by
    simp only [exec, hq, hp, Bool.not_true, Bool.false_eq_true, if_false, List.nil_append]
    have hsk : ∀ (s' : St), srtcKeys s' = srtcKeys st → ∀ x ∈ s'.srtcs, (x.g, x.minTimeout) ∈ m1.seen := by
      intro s' hs x hx
      have : (x.g, x.minTimeout) ∈ srtcKeys st := by rw [← hs]; exact mem_srtcKeys.mpr ⟨x, hx, rfl⟩
      obtain ⟨y, hy, hyx⟩ := mem_srtcKeys.mp this
      rw [← hyx]; exact hseen y hy
    split
    · simp only [List.foldl_cons, List.foldl_nil, resolved_cancelTimer cfg m1 k _ hgm rfl]
      refine ⟨⟨by show m1.reqs = _; rw [hreqs, reqDone_reqs]; rfl, by show m1.now = _; rw [hnow, reqDone_now]; rfl,
        by show m1.owedDisc.Perm _; rw [howed, stackDisc_nil_of_all (reqDone_noDisc _ _ _ _)],
        by rw [stackDisc_nil_of_all (reqDone_noDisc _ _ _ _)]; intro hh; exact absurd rfl hh,
        hsk _ (by rw [srtcKeys_reqDone]; rfl), hfails⟩, reqDone_ok11 _ _ _ _⟩
    · simp only [List.foldl_nil]
      refine ⟨⟨by rw [hreqs, reqDone_reqs], by rw [hnow, reqDone_now]; rfl,
        by rw [howed, stackDisc_nil_of_all (reqDone_noDisc _ _ _ _)],
        by rw [stackDisc_nil_of_all (reqDone_noDisc _ _ _ _)]; intro hh; exact absurd rfl hh,
        hsk _ (by rw [srtcKeys_reqDone]; rfl), hfails⟩, reqDone_ok11 _ _ _ _⟩
  have hna' : ¬ IsAdv ((exec cfg st (.fireReq k r false)).2.1.foldl (stepOb cfg) m1) := by
    rintro ⟨dt, hdt⟩; exact hna ⟨dt, by rw [← (foldl_frame cfg _ m1).1]; exact hdt⟩
  obtain ⟨new, hnew, hr⟩ := runActs_rel cfg h0 h1 99999 _ _ (exec cfg st (.fireReq k r false)).2.1 _ hinv' hrel1.1 hrel1.2
    (fun ha => absurd ha hna') hf
  rw [hnew, List.foldl_append]
  exact hr

/-- the monitor accepts one step of the model and ends related to the state after it -/
theorem step_core (cfg : Cfg) (h0 : 0 ≤ cfg.timeout) (h1 : 0 ≤ cfg.retryDelay) (st : St) (env : Env) (e : Ev) (m : MSt)
    (hI : StepInv cfg st m) (hfuel : Ob.badOp "fuel" ∉ (step cfg st env e).2) :
    Rel cfg (step cfg st env e).1 [] ((step cfg st env e).2.foldl (stepOb cfg) (stepItem cfg m (.ev e))) ∧
    LateOk ((step cfg st env e).2.foldl (stepOb cfg) (stepItem cfg m (.ev e))) := by
  have howed : m.owedDisc = [] := List.Perm.eq_nil (by simpa [stackDisc] using hI.rel.owed)
  have hI' : StepInv cfg ({ st with env := env } : St) m := ⟨hI.rel.plain (obs := []) (by simp) rfl rfl rfl rfl, hI.inv, hI.nover, hI.late⟩
  have seenOf : ∀ {m1 : MSt}, m1.seen = m.seen → ∀ x ∈ st.srtcs, (x.g, x.minTimeout) ∈ m1.seen :=
    fun hs x hx => by rw [hs]; exact hI.rel.seen x hx
  cases e
  case load o topics =>
    have ec := ev_core cfg m (.load o topics) howed hI.late trivial
    revert hfuel; simp only [step]; intro hf
    exact classA cfg h0 h1 hI' ec.reqs ec.now ec.owed ec.fails ec.late (not_isAdv_of_cur ec.cur (by intro dt h; cases h))
      _ _ _ rfl rfl rfl (seenOf ec.seen) (by simp [Act.ok11]) (by simp [Act.notDisc]) (by simp) hf
  case send o keys group foe expect =>
    have ec := ev_core cfg m (.send o keys group foe expect) howed hI.late trivial
    revert hfuel; simp only [step]
    split
    · intro hf
      exact classA cfg h0 h1 hI' ec.reqs ec.now ec.owed ec.fails ec.late (not_isAdv_of_cur ec.cur (by intro dt h; cases h))
        _ _ _ rfl rfl rfl (seenOf ec.seen) (by simp [Act.ok11]) (by simp [Act.notDisc]) (by simp) hf
    · split
      · intro hf
        exact classA cfg h0 h1 hI' ec.reqs ec.now ec.owed ec.fails ec.late (not_isAdv_of_cur ec.cur (by intro dt h; cases h))
          _ _ _ rfl rfl rfl (seenOf ec.seen) (by simp [Act.ok11]) (by simp [Act.notDisc]) (by simp) hf
      · intro hf
        exact classA cfg h0 h1 hI' ec.reqs ec.now ec.owed ec.fails ec.late (not_isAdv_of_cur ec.cur (by intro dt h; cases h))
          _ _ _ rfl rfl rfl (seenOf ec.seen) (by simp [Act.ok11]) (by simp [Act.notDisc]) (by simp) hf
  case cload o g =>
    have ec := ev_core cfg m (.cload o g) howed hI.late trivial
    revert hfuel; simp only [step]; intro hf
    obtain ⟨c1, c2, c3, c4⟩ := cloadJoin_frame ({ st with env := env, liveOps := st.liveOps ++ [o] } : St) (.api o) g
    exact classA cfg h0 h1 hI' ec.reqs ec.now ec.owed ec.fails ec.late (not_isAdv_of_cur ec.cur (by intro dt h; cases h))
      _ _ _ c1 c2 c3 (by rw [c4]; exact seenOf ec.seen) (cloadJoin_ok11 _ _ _) (cloadJoin_noDisc _ _ _) (by simp) hf
  case ltp o topics =>
    have ec := ev_core cfg m (.ltp o topics) howed hI.late trivial
    revert hfuel; simp only [step]; intro hf
    exact classA cfg h0 h1 hI' ec.reqs ec.now ec.owed ec.fails ec.late (not_isAdv_of_cur ec.cur (by intro dt h; cases h))
      _ _ _ rfl rfl rfl (seenOf ec.seen) (by simp [Act.ok11]) (by simp [Act.notDisc]) (by simp) hf
  case cancel o =>
    have ec := ev_core cfg m (.cancel o) howed hI.late trivial
    revert hfuel; simp only [step]; intro hf
    obtain ⟨c1, c2, c3, c4, c5, c6, c7⟩ := cancelOp_facts ({ st with env := env } : St) o
    refine classA cfg h0 h1 hI' ec.reqs ec.now ec.owed ec.fails ec.late (not_isAdv_of_cur ec.cur (by intro dt h; cases h))
      _ _ _ c1 c2 c3 ?_ c6 c7 c5 hf
    intro x hx
    have : (x.g, x.minTimeout) ∈ srtcKeys ({ st with env := env } : St) := by rw [← c4]; exact mem_srtcKeys.mpr ⟨x, hx, rfl⟩
    obtain ⟨y, hy, hyx⟩ := mem_srtcKeys.mp this
    rw [← hyx]; exact seenOf ec.seen y hy
  case close o =>
    have ec := ev_core cfg m (.close o) howed hI.late trivial
    revert hfuel; simp only [step]
    split
    · split
      · intro hf
        exact classA cfg h0 h1 hI' ec.reqs ec.now ec.owed ec.fails ec.late (not_isAdv_of_cur ec.cur (by intro dt h; cases h))
          _ _ _ rfl rfl rfl (seenOf ec.seen) (by simp [Act.ok11]) (by simp [Act.notDisc]) (by simp) hf
      · intro _
        have hr : Rel cfg ({ st with env := env } : St) [] (stepItem cfg m (.ev (.close o))) :=
          hI'.rel.start rfl rfl ec.reqs ec.now ec.owed ec.fails (seenOf ec.seen) rfl
        refine ⟨hr.plain (by simp [Ob.rel11]) rfl rfl rfl rfl, lateOk_of_none ?_⟩
        rw [(foldl_frame cfg _ _).2.2.2]; exact ec.late
    · intro hf
      exact classA cfg h0 h1 hI' ec.reqs ec.now ec.owed ec.fails ec.late (not_isAdv_of_cur ec.cur (by intro dt h; cases h))
        _ _ _ rfl rfl rfl (seenOf ec.seen)
        (by rw [List.all_append, List.all_append, List.all_append, closeBc_ok11]; cases Consts.clientCloseWakesRetryDelays <;> simp [Act.ok11])
        (by rw [List.all_append, List.all_append, List.all_append, closeBc_noDisc]; cases Consts.clientCloseWakesRetryDelays <;> simp [Act.notDisc]) (by simp) hf
  case down b =>
    have ec := ev_core cfg m (.down b) howed hI.late trivial
    revert hfuel; simp only [step]; intro hf
    exact classA cfg h0 h1 hI' ec.reqs ec.now ec.owed ec.fails ec.late (not_isAdv_of_cur ec.cur (by intro dt h; cases h))
      _ _ _ rfl rfl rfl (seenOf ec.seen) (by simp [Act.ok11]) (by simp [Act.notDisc]) (by simp) hf
  case bootReply j p =>
    have ec := ev_core cfg m (.bootReply j p) howed hI.late trivial
    revert hfuel; simp only [step]; intro hf
    exact classA cfg h0 h1 hI' ec.reqs ec.now ec.owed ec.fails ec.late (not_isAdv_of_cur ec.cur (by intro dt h; cases h))
      _ _ _ rfl rfl rfl (seenOf ec.seen) (by simp [Act.ok11]) (by simp [Act.notDisc]) (by simp) hf
  case bootLost j =>
    have ec := ev_core cfg m (.bootLost j) howed hI.late trivial
    revert hfuel; simp only [step]; intro hf
    exact classA cfg h0 h1 hI' ec.reqs ec.now ec.owed ec.fails ec.late (not_isAdv_of_cur ec.cur (by intro dt h; cases h))
      _ _ _ rfl rfl rfl (seenOf ec.seen) (by simp [Act.ok11]) (by simp [Act.notDisc]) (by simp) hf
  case bootFail j =>
    have ec := ev_core cfg m (.bootFail j) howed hI.late trivial
    have hr : Rel cfg ({ st with env := env } : St) [] (stepItem cfg m (.ev (.bootFail j))) :=
      hI'.rel.start rfl rfl ec.reqs ec.now ec.owed ec.fails (seenOf ec.seen) rfl
    revert hfuel; simp only [step]
    split
    · intro _
      refine ⟨hr.plain (by simp [Ob.rel11]) rfl rfl rfl rfl, lateOk_of_none ?_⟩
      rw [(foldl_frame cfg _ _).2.2.2]; exact ec.late
    · intro hf
      exact classA cfg h0 h1 hI' ec.reqs ec.now ec.owed ec.fails ec.late (not_isAdv_of_cur ec.cur (by intro dt h; cases h))
        _ _ _ rfl rfl rfl (seenOf ec.seen) (by simp [Act.ok11]) (by simp [Act.notDisc]) (by simp) hf
  case bootOk j =>
    have ec := ev_core cfg m (.bootOk j) howed hI.late trivial
    have hr : Rel cfg ({ st with env := env } : St) [] (stepItem cfg m (.ev (.bootOk j))) :=
      hI'.rel.start rfl rfl ec.reqs ec.now ec.owed ec.fails (seenOf ec.seen) rfl
    simp only [step]
    split
    · refine ⟨hr.plain (by simp [Ob.rel11]) rfl rfl rfl rfl, lateOk_of_none ?_⟩
      rw [(foldl_frame cfg _ _).2.2.2]; exact ec.late
    · refine ⟨hr.plain (by simp [Ob.rel11]) rfl rfl rfl rfl, lateOk_of_none ?_⟩
      rw [(foldl_frame cfg _ _).2.2.2]; exact ec.late
  case conn b v =>
    have ec := ev_core cfg m (.conn b v) howed hI.late trivial
    have hr : Rel cfg ({ st with env := env } : St) [] (stepItem cfg m (.ev (.conn b v))) :=
      hI'.rel.start rfl rfl ec.reqs ec.now ec.owed ec.fails (seenOf ec.seen) rfl
    simp only [step]
    exact ⟨hr.plain (obs := []) (by simp) rfl rfl rfl rfl, lateOk_of_none ec.late⟩
  case resetTopics ts =>
    have ec := ev_core cfg m (.resetTopics ts) howed hI.late trivial
    have hr : Rel cfg ({ st with env := env } : St) [] (stepItem cfg m (.ev (.resetTopics ts))) :=
      hI'.rel.start rfl rfl ec.reqs ec.now ec.owed ec.fails (seenOf ec.seen) rfl
    simp only [step]
    exact ⟨hr.plain (obs := []) (by simp) rfl rfl rfl rfl, lateOk_of_none ec.late⟩
  case srtc o g mt =>
    obtain ⟨e1, e2, e3, e4, e5, e6⟩ := endStep_core m howed hI.late
    have hna : ¬ IsAdv (stepItem cfg m (.ev (.srtc o g mt))) :=
      not_isAdv_of_cur (e := .srtc o g mt) rfl (by intro dt h; cases h)
    have hseen : ∀ x ∈ st.srtcs ++ [({ r := st.srtcs.length, o := o, g := g, minTimeout := mt, phase := .resolving } : Srtc)],
        (x.g, x.minTimeout) ∈ (stepItem cfg m (.ev (.srtc o g mt))).seen := by
      intro x hx
      show (x.g, x.minTimeout) ∈ (endStep m).seen ++ [(g, mt)]
      rcases List.mem_append.mp hx with hx | hx
      · rw [e4]; exact List.mem_append_left _ (hI.rel.seen x hx)
      · simp only [List.mem_singleton] at hx; subst hx; simp
    revert hfuel; simp only [step]
    split
    · intro hf
      exact classA cfg h0 h1 hI' (m1 := stepItem cfg m (.ev (.srtc o g mt))) e2 e3 e5 e1 e6 hna
        _ _ _ rfl rfl rfl hseen (by simp [Act.ok11]) (by simp [Act.notDisc]) (by simp) hf
    · intro hf
      refine classA cfg h0 h1 hI' (m1 := stepItem cfg m (.ev (.srtc o g mt))) e2 e3 e5 e1 e6 hna
        _ _ _ ?_ ?_ ?_ ?_ (cloadJoin_ok11 _ _ _) (cloadJoin_noDisc _ _ _) (by simp) hf
      · exact (cloadJoin_frame _ _ _).1
      · exact (cloadJoin_frame _ _ _).2.1
      · exact (cloadJoin_frame _ _ _).2.2.1
      · rw [(cloadJoin_frame _ _ _).2.2.2]; exact hseen
  case advance dt =>
    obtain ⟨e1, e2, e3, e4, e5, e6⟩ := endStep_core m howed hI.late
    by_cases hdt : dt < 0
    · have hm1 : stepItem cfg m (.ev (.advance dt)) = { endStep m with cur := some (.advance dt), nobs := 0 } := by
        simp only [stepItem, hdt, if_true]
      have hr : Rel cfg ({ st with env := env } : St) [] (stepItem cfg m (.ev (.advance dt))) := by
        rw [hm1]; exact hI'.rel.start rfl rfl e2 e3 e5 e1 (fun x hx => by show _ ∈ (endStep m).seen; rw [e4]; exact hI.rel.seen x hx) rfl
      simp only [step, hdt, if_true]
      refine ⟨hr.plain (by simp [Ob.rel11]) rfl rfl rfl rfl, lateOk_of_none ?_⟩
      rw [(foldl_frame cfg _ _).2.2.2, hm1]; exact e6
    · have hm1 : stepItem cfg m (.ev (.advance dt)) =
          { endStep m with cur := some (.advance dt), nobs := 0, now := (endStep m).now + dt } := by
        simp only [stepItem, hdt, if_false]
      have hr : Rel cfg ({ st with env := env, now := st.now + dt } : St) [] (stepItem cfg m (.ev (.advance dt))) := by
        rw [hm1]
        refine ⟨by show (endStep m).reqs = _; rw [e2]; exact hI.rel.reqs, by show (endStep m).now + dt = st.now + dt; rw [e3, hI.rel.now],
          by show (endStep m).owedDisc.Perm _; rw [e5]; exact List.Perm.refl _, by intro hh; exact absurd rfl hh,
          fun x hx => by show _ ∈ (endStep m).seen; rw [e4]; exact hI.rel.seen x hx, by show (endStep m).fails = []; rw [e1]; exact hI.rel.fails⟩
      have hadv : IsAdv (stepItem cfg m (.ev (.advance dt))) := ⟨dt, by rw [hm1]⟩
      revert hfuel; simp only [step, hdt, if_false]; intro hf
      obtain ⟨new, hnew, hrr⟩ := fireDue_rel cfg h0 h1 _ ({ st with env := env, now := st.now + dt } : St) [] _ hI.inv hr hadv hf
      rw [hnew, List.nil_append]
      refine ⟨hrr, lateOk_of_none ?_⟩
      rw [(foldl_frame cfg _ _).2.2.2, hm1]; exact e6
  case fire k r =>
    obtain ⟨f1, f2, f3, f4, f5, f6⟩ := ev_fire cfg m ({ st with env := env } : St) k r hI'.rel hI.late
    have hna : ¬ IsAdv (stepItem cfg m (.ev (.fire k r))) := not_isAdv_of_cur f5 (by intro dt h; cases h)
    have hseen : ∀ x ∈ st.srtcs, (x.g, x.minTimeout) ∈ (stepItem cfg m (.ev (.fire k r))).seen := seenOf f2
    cases hq : reqGet ({ st with env := env } : St) k with
    | none =>
      rw [hq] at f6
      have hs : step cfg st env (.fire k r) = ({ st with env := env }, [.badOp "fireReq"]) := by
        simp [step, fuel, runActs, exec, hq]
      rw [hs]
      have hr : Rel cfg ({ st with env := env } : St) [] (stepItem cfg m (.ev (.fire k r))) :=
        hI'.rel.start rfl rfl f6.1 f1 f3 (by rw [f4]; exact hI.rel.fails.symm) hseen rfl
      refine ⟨hr.plain (by simp [Ob.rel11]) rfl rfl rfl rfl, lateOk_of_none ?_⟩
      rw [(foldl_frame cfg _ _).2.2.2]; exact f6.2
    | some q =>
      rw [hq] at f6
      cases hp : q.pending
      · simp only [hp, Bool.false_eq_true, if_false] at f6
        rw [step_late_reply cfg st env k r q hq hp]
        have hr : Rel cfg ({ st with env := env } : St) [] (stepItem cfg m (.ev (.fire k r))) :=
          hI'.rel.start rfl rfl f6.1 f1 f3 (by rw [f4]; exact hI.rel.fails.symm) hseen rfl
        have hstep : stepOb cfg (stepItem cfg m (.ev (.fire k r))) (.late k) =
            { stepItem cfg m (.ev (.fire k r)) with nobs := (stepItem cfg m (.ev (.fire k r))).nobs + 1 } := by
          simp only [stepOb]
          rw [show ({ stepItem cfg m (.ev (.fire k r)) with nobs := (stepItem cfg m (.ev (.fire k r))).nobs + 1 } : MSt).lateOf =
            (stepItem cfg m (.ev (.fire k r))).lateOf from rfl, f6.2.1]
          simp
        simp only [List.foldl_cons, List.foldl_nil, hstep]
        refine ⟨⟨hr.reqs, hr.now, hr.owed, hr.dot, hr.seen, hr.fails⟩, ?_⟩
        unfold LateOk
        show (match (stepItem cfg m (.ev (.fire k r))).lateOf with | some _ => (stepItem cfg m (.ev (.fire k r))).nobs + 1 = 1 | none => True)
        rw [f6.2.1, f6.2.2]
      · simp only [hp, if_true] at f6
        revert hfuel; simp only [step]; intro hf
        refine ⟨fire_pending_rel cfg h0 h1 _ k r q _ hI.inv hq hp f6.1 (by rw [f1]; exact hI.rel.now) f3 f4 hseen hna hf, lateOk_of_none ?_⟩
        rw [(foldl_frame cfg _ _).2.2.2]; exact f6.2

theorem step_sound (cfg : Cfg) (h0 : 0 ≤ cfg.timeout) (h1 : 0 ≤ cfg.retryDelay) (st : St) (env : Env) (e : Ev) (m : MSt)
    (hI : StepInv cfg st m) (hfuel : Ob.badOp "fuel" ∉ (step cfg st env e).2) :
    StepInv cfg (step cfg st env e).1
      (([TItem.ev e] ++ (step cfg st env e).2.map TItem.ob ++
        [TItem.dump (step cfg st env e).1.cache, TItem.timers ((step cfg st env e).1.timers.map (fun t => (t.what, t.due)))]).foldl
          (stepItem cfg) m) := by
  obtain ⟨hrel, hlate⟩ := step_core cfg h0 h1 st env e m hI hfuel
  have hinv := step_inv cfg st env e hI.inv
  have hno : NotOverdue (step cfg st env e).1 := by
    by_cases hadv : ∃ dt, e = .advance dt
    · obtain ⟨dt, rfl⟩ := hadv
      by_cases hdt : dt < 0
      · have : (step cfg st env (.advance dt)).1 = { st with env := env } := by simp [step, hdt]
        rw [this]; exact hI.nover
      · rcases step_advance_exit cfg st env dt (Rat.not_lt.mp hdt) hI.inv with h | h
        · intro t ht; exact Rat.le_of_lt (h t ht)
        · exact absurd h hfuel
    · exact step_notOverdue cfg h0 h1 st env e (fun dt hh => hadv ⟨dt, hh⟩) hI.nover
  simp only [List.foldl_append, List.foldl_cons, List.foldl_nil, foldl_obs_items]
  exact tail_ok cfg _ _ hrel hinv hno hlate

theorem StepInv.init (cfg : Cfg) : StepInv cfg {} {} := by
  refine ⟨⟨rfl, rfl, List.Perm.refl _, fun h => absurd rfl h, ?_, rfl⟩, NInv.init, ?_, trivial⟩
  · intro x hx; cases hx
  · intro t ht; cases ht

/-- the monitor, fed the model's own trace, stays related to the model's state -/
theorem trace_sound (cfg : Cfg) (h0 : 0 ≤ cfg.timeout) (h1 : 0 ≤ cfg.retryDelay) :
    ∀ (evs : List (Env × Ev)) (st : St) (m : MSt), StepInv cfg st m → NoFuel cfg st evs →
    StepInv cfg (evs.foldl (fun s e => (step cfg s e.1 e.2).1) st) ((traceOf cfg st evs).foldl (stepItem cfg) m)
  | [], st, m, hI, _ => by simpa [traceOf] using hI
  | (env, e) :: rest, st, m, hI, hnf => by
    obtain ⟨hf, hnf'⟩ := hnf
    have hs := step_sound cfg h0 h1 st env e m hI hf
    have := trace_sound cfg h0 h1 rest _ _ hs hnf'
    simp only [traceOf, List.foldl_cons]
    rw [List.foldl_append]
    exact this

/-- **Soundness of the C11 monitor (core rules) for the model**: every trace of the client model from the
    initial state, for every sequence of events and environment answers, is accepted - provided the
    timeouts are non-negative and no step exhausts the interpreter's fuel. -/
theorem monitor_accepts_model (cfg : Cfg) (h0 : 0 ≤ cfg.timeout) (h1 : 0 ≤ cfg.retryDelay) (evs : List (Env × Ev))
    (hnf : NoFuel cfg {} evs) : Afkak.Monitor.C11.ok cfg (traceOf cfg {} evs) = true := by
  have hI := trace_sound cfg h0 h1 evs {} {} (StepInv.init cfg) hnf
  have howed : ((traceOf cfg {} evs).foldl (stepItem cfg) {}).owedDisc = [] :=
    List.Perm.eq_nil (by simpa [stackDisc] using hI.rel.owed)
  obtain ⟨e1, _⟩ := endStep_core _ howed hI.late
  unfold Afkak.Monitor.C11.ok Afkak.Monitor.C11.run
  rw [e1, hI.rel.fails]; rfl

end Afkak.ClientNet
