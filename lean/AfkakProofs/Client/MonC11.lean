import Afkak.Monitor.C11
import AfkakProofs.Client.Timers
/-!
# Every trace of the client model is accepted by the C11 monitor (core rules)

A simulation argument: `Rel` relates the model state (and its stack of pending actions) to the
monitor state; every action of the interpreter preserves it while the monitor consumes that action's
observations; at the end of a step the stack is empty (unless the step reports that it ran out of
fuel), which discharges the disconnect obligations, and the timer invariant `NInv` + `NotOverdue`
discharge the end-of-step timer check.
-/
namespace Afkak.ClientNet
open Afkak.ClientCache Afkak.Monitor.C11

/-- the monitor's view of a model request -/
def toM (q : Req) : MReq :=
  { k := q.k, b := q.b, issued := q.issued, due := some q.due, pending := q.pending, grp := q.grp, conn := none }

/-- broker clients of the `disconnect` actions waiting on the stack -/
def stackDisc : List Act → List Nat
  | [] => []
  | .disconnect b :: r => b :: stackDisc r
  | _ :: r => stackDisc r

theorem stackDisc_append (a b : List Act) : stackDisc (a ++ b) = stackDisc a ++ stackDisc b := by
  induction a with
  | nil => rfl
  | cons x a ih =>
    cases x <;> simp [stackDisc, ih]

def Act.isDisc : Act → Bool
  | .disconnect _ => true
  | _ => false

theorem stackDisc_nil_of_all {acts : List Act} (h : acts.all (fun a => !a.isDisc) = true) : stackDisc acts = [] := by
  induction acts with
  | nil => rfl
  | cons x a ih =>
    simp only [List.all_cons, Bool.and_eq_true] at h
    cases x <;> simp_all [stackDisc, Act.isDisc]

/-- observations the core rules of the monitor look at -/
def Ob.rel11 : Ob → Bool
  | .mk .. | .setTimer (.mrtb _) _ | .fired .. | .late _ | .cancelTimer (.mrtb _) | .bcCancel _ | .bcDisconnect _ => true
  | _ => false

/-- the part of the monitor state the core rules depend on -/
structure Core11 (m m' : MSt) : Prop where
  now : m'.now = m.now
  reqs : m'.reqs = m.reqs
  seen : m'.seen = m.seen
  cur : m'.cur = m.cur
  lateOf : m'.lateOf = m.lateOf
  owed : m'.owedDisc = m.owedDisc
  fails : m'.fails = m.fails

theorem Core11.refl (m : MSt) : Core11 m m := ⟨rfl, rfl, rfl, rfl, rfl, rfl, rfl⟩

theorem Core11.trans {a b c : MSt} (h1 : Core11 a b) (h2 : Core11 b c) : Core11 a c :=
  ⟨h2.now.trans h1.now, h2.reqs.trans h1.reqs, h2.seen.trans h1.seen, h2.cur.trans h1.cur,
   h2.lateOf.trans h1.lateOf, h2.owed.trans h1.owed, h2.fails.trans h1.fails⟩

theorem stepOb_irrelevant (cfg : Cfg) (m : MSt) (o : Ob) (h : o.rel11 = false) : Core11 m (stepOb cfg m o) := by
  cases o
  case setTimer t d =>
    cases t
    · simp [Ob.rel11] at h
    · exact ⟨rfl, rfl, rfl, rfl, rfl, rfl, rfl⟩
    · exact ⟨rfl, rfl, rfl, rfl, rfl, rfl, rfl⟩
  case cancelTimer t =>
    cases t
    · simp [Ob.rel11] at h
    · exact ⟨rfl, rfl, rfl, rfl, rfl, rfl, rfl⟩
    · exact ⟨rfl, rfl, rfl, rfl, rfl, rfl, rfl⟩
  case result o r =>
    simp only [stepOb]
    split
    · split <;> exact ⟨rfl, rfl, rfl, rfl, rfl, rfl, rfl⟩
    · exact ⟨rfl, rfl, rfl, rfl, rfl, rfl, rfl⟩
  all_goals (first
    | (simp [Ob.rel11] at h; done)
    | exact ⟨rfl, rfl, rfl, rfl, rfl, rfl, rfl⟩)

theorem foldl_irrelevant (cfg : Cfg) : ∀ (obs : List Ob) (m : MSt), (∀ o ∈ obs, o.rel11 = false) →
    Core11 m (obs.foldl (stepOb cfg) m)
  | [], m, _ => Core11.refl m
  | o :: rest, m, h => by
    simp only [List.foldl_cons]
    exact (stepOb_irrelevant cfg m o (h o (by simp))).trans
      (foldl_irrelevant cfg rest _ (fun o' ho' => h o' (by simp [ho'])))

/-! ### facts about single actions -/

/-- actions whose observations the core rules ignore and that leave the request table alone -/
def Act.plain11 : Act → Bool
  | .fireReq .. | .cancelReq .. | .disconnect .. | .unawareNext .. | .issueSlot .. | .srtcGo .. | .timeoutFired .. => false
  | _ => true

/-- actions that can sit on the stack: the clock's `timeoutFired` and the network's top-level
    `fireReq … false` are only ever the first action of a step -/
def Act.ok11 : Act → Bool
  | .timeoutFired _ => false
  | .fireReq _ _ false => false
  | _ => true

/-- actions that never cancel a broker request (what a clock advance may run) -/
def Act.advSafe : Act → Bool
  | .cancelReq _ | .cancelU _ | .cancelBoots => false
  | _ => true

def srtcKeys (st : St) : List (String × Option Rat) := st.srtcs.map (fun x => (x.g, x.minTimeout))

@[simp] theorem srtcKeys_setUnaware (st : St) u f : srtcKeys (setUnaware st u f) = srtcKeys st := rfl
@[simp] theorem srtcKeys_setSend (st : St) s f : srtcKeys (setSend st s f) = srtcKeys st := rfl
@[simp] theorem srtcKeys_setReq (st : St) k f : srtcKeys (setReq st k f) = srtcKeys st := rfl
@[simp] theorem srtcKeys_cancelTimer (st : St) w : srtcKeys (cancelTimer st w) = srtcKeys st := rfl
@[simp] theorem srtcKeys_applyUpdate (st : St) c' cn bs : srtcKeys (applyUpdate st c' cn bs).1 = srtcKeys st := rfl

theorem srtcKeys_setSrtc (st : St) (r : Nat) (f : Srtc → Srtc) (hf : ∀ y, (f y).g = y.g ∧ (f y).minTimeout = y.minTimeout) :
    srtcKeys (setSrtc st r f) = srtcKeys st := by
  simp only [srtcKeys, setSrtc, List.map_map]
  apply List.map_congr_left
  intro y _
  simp only [Function.comp]
  split
  · rw [(hf y).1, (hf y).2]
  · rfl

theorem srtcKeys_reqDone (st : St) (o : ReqOwner) (k : Nat) (r : Res) : srtcKeys (reqDone st o k r).1 = srtcKeys st := by
  unfold reqDone
  split
  · split <;> (try split) <;> rfl
  · rfl
  · rfl

theorem srtcKeys_cloadJoin (st : St) (w : Waiter) (g : String) : srtcKeys (cloadJoin st w g).1 = srtcKeys st := by
  unfold cloadJoin; split <;> rfl

theorem srtcKeys_shuffle {α} {st st' : St} {xs ys : List α} (h : shuffle st xs = some (st', ys)) : srtcKeys st' = srtcKeys st := by
  unfold shuffle at h
  split at h
  · cases h
  · simp only [Option.map_eq_some_iff] at h
    obtain ⟨_, _, heq⟩ := h
    cases heq; rfl

theorem srtcKeys_getBrokerClient {st st' : St} {n : Int} {b : Nat} {obs : List Ob}
    (h : getBrokerClient st n = .ok (st', b, obs)) : srtcKeys st' = srtcKeys st := by
  unfold getBrokerClient at h
  split at h
  · cases h
  · split at h
    · cases h; rfl
    · split at h
      · cases h
      · cases h; rfl

theorem srtcKeys_makeRequest (cfg : Cfg) (st : St) b o e w m : srtcKeys (makeRequest cfg st b o e w m).1 = srtcKeys st := rfl

/-- no action changes which coordinator requests (group, min_timeout) exist -/
theorem exec_srtcKeys (cfg : Cfg) (st : St) (a : Act) : srtcKeys (exec cfg st a).1 = srtcKeys st := by
  cases a
  all_goals simp only [exec]
  all_goals (repeat' split)
  all_goals (try dsimp only)
  all_goals (first
    | rfl
    | (rename_i hs; exact srtcKeys_shuffle hs)
    | exact srtcKeys_cloadJoin _ _ _
    | exact srtcKeys_reqDone _ _ _ _
    | (apply srtcKeys_setSrtc; intro y; exact ⟨rfl, rfl⟩)
    | (rename_i hg; rw [srtcKeys_setUnaware, srtcKeys_makeRequest]; exact srtcKeys_getBrokerClient hg)
    | (rename_i hg; rw [srtcKeys_setSend, srtcKeys_makeRequest]; exact srtcKeys_getBrokerClient hg)
    | (rename_i hg; rw [srtcKeys_setSrtc _ _ _ (fun y => ⟨rfl, rfl⟩), srtcKeys_makeRequest]; exact srtcKeys_getBrokerClient hg)
    | (rename_i hg; exact srtcKeys_getBrokerClient hg)
    | (simp [srtcKeys, srtcKeys_reqDone]; done)
    | (simp_all [srtcKeys]; done))

end Afkak.ClientNet
