import Afkak.Monitor.C20
import AfkakProofs.Client.Net
import AfkakProofs.Client.B_BootClose
/-!
# Every trace of the client model satisfies the "nothing connects after close" rules of the C20 monitor

`Afkak.Monitor.C20.run` keeps the failures of four rules - after the first `close()` no `mk`, `bcNew`,
`bootConnect`, `bootWrite` - in `connFails`.  A simulation: the monitor's `closed` flag is true exactly when the
model has executed a `close` event; from then on the model state is closing and awaits no bootstrap connection
(`close_no_boot`, fuel permitting), so no step emits an observation that connects (`step_closing`).
-/
namespace Afkak.ClientNet
open Afkak.ClientCache Afkak.Monitor.C20

/-! ## the closing flag only changes in the `close` event -/

theorem getBrokerClient_closing_eq {st st1 : St} {n : Int} {b : Nat} {obs : List Ob}
    (h : getBrokerClient st n = .ok (st1, b, obs)) : st1.closing = st.closing := by
  unfold getBrokerClient at h
  split at h
  · cases h
  · split at h
    · cases h; rfl
    · split at h
      · cases h
      · cases h; rfl

theorem issueTo_ok_closing {cfg : Cfg} {st : St} {n : Int} {o : ReqOwner} {e : Bool} {w : ReqWhat} {m : Option Rat}
    {rj : Bool} {i : IssueOk} (h : issueTo cfg st n o e w m rj = .ok i) : i.st.closing = st.closing := by
  obtain ⟨st1, b, obs1, hg, hst, _, _, _⟩ := issueTo_ok h
  rw [hst]
  exact (getBrokerClient_closing_eq hg : st1.closing = st.closing)

theorem issueTo_err_closing {cfg : Cfg} {st : St} {n : Int} {o : ReqOwner} {e : Bool} {w : ReqWhat} {m : Option Rat}
    {rj : Bool} {er : IssueErr} (h : issueTo cfg st n o e w m rj = .error er) : er.st.closing = st.closing := by
  rcases issueTo_err h with ⟨h1, _⟩ | ⟨b, hg⟩
  · rw [h1]
  · exact getBrokerClient_closing_eq hg

theorem exec_closing_eq (cfg : Cfg) (st : St) (a : Act) : (exec cfg st a).1.closing = st.closing := by
  cases a
  case unawareDone u r =>
    simp only [exec]
    repeat' split
    all_goals (try dsimp only)
    all_goals (first | rfl | (simp [applyUpdate_closing]; done))
  all_goals simp only [exec]
  all_goals (repeat' split)
  all_goals (try dsimp only)
  all_goals (first
    | rfl
    | (rename_i hs; exact shuffle_closing hs)
    | exact reqDone_closing _ _ _ _
    | exact cloadJoin_closing _ _ _
    | exact issueTo_err_closing (by assumption)
    | (simp only [setUnaware_closing, setSend_closing, setSrtc_closing]; exact issueTo_ok_closing (by assumption))
    | (simp_all; done))

theorem runActs_closing_eq (cfg : Cfg) : ∀ (fuel : Nat) (st : St) (acts : List Act) (obs : List Ob),
    (runActs cfg fuel st acts obs).1.closing = st.closing
  | 0, _, _, _ => by simp [runActs]
  | _+1, _, [], _ => by simp [runActs]
  | fuel+1, st, a :: rest, obs => by
    simp only [runActs]
    rw [runActs_closing_eq cfg fuel, exec_closing_eq]

theorem fireDue_closing_eq (cfg : Cfg) : ∀ (n : Nat) (st : St) (obs : List Ob), (fireDue cfg n st obs).1.closing = st.closing
  | 0, _, _ => by simp [fireDue]
  | n+1, st, obs => by
    simp only [fireDue]
    split
    · rfl
    · split
      · rfl
      · rw [fireDue_closing_eq cfg n, runActs_closing_eq]

def Ev.isClose : Ev → Bool
  | .close _ => true
  | _ => false

theorem step_closing_eq (cfg : Cfg) (st : St) (env : Env) (e : Ev) (he : e.isClose = false) :
    (step cfg st env e).1.closing = st.closing := by
  cases e
  case close o => simp [Ev.isClose] at he
  case cancel o =>
    simp only [step]
    rw [runActs_closing_eq]
    exact (cancelOp_closing _ o).1
  case advance dt =>
    simp only [step]
    split
    · rfl
    · rw [fireDue_closing_eq]
  case bootOk j => simp only [step]; split <;> rfl
  case bootFail j =>
    simp only [step]
    split
    · rfl
    · rw [runActs_closing_eq]
  case conn b v => rfl
  case resetTopics ts => rfl
  case cload o g => simp only [step]; rw [runActs_closing_eq, cloadJoin_closing]
  case srtc o g m =>
    simp only [step]
    split
    · rw [runActs_closing_eq]
    · rw [runActs_closing_eq, cloadJoin_closing]
  case send o keys group foe expect =>
    simp only [step]
    split
    · rw [runActs_closing_eq]
    · split <;> rw [runActs_closing_eq]
  all_goals (simp only [step]; rw [runActs_closing_eq])

/-! ## what the proof needs of the monitor -/

theorem endStep_cc (m : MSt) : (endStep m).closed = m.closed ∧ (endStep m).connFails = m.connFails := by
  unfold endStep
  constructor <;> (dsimp only; repeat' split) <;> rfl

theorem mon_ev (m : MSt) (e : Ev) :
    (stepItem m (.ev e)).closed = (m.closed || e.isClose) ∧ (stepItem m (.ev e)).connFails = m.connFails := by
  obtain ⟨h1, h2⟩ := endStep_cc m
  cases e <;> simp only [stepItem, startOp, Ev.isClose, Bool.or_false, Bool.or_true]
  case close o =>
    split
    · rename_i hc; exact ⟨by rw [hc], h2⟩
    · exact ⟨rfl, h2⟩
  all_goals exact ⟨h1, h2⟩

theorem mon_ob (m : MSt) (o : Ob) :
    (stepItem m (.ob o)).closed = m.closed ∧
    ((m.closed = false ∨ o.connects = false) → (stepItem m (.ob o)).connFails = m.connFails) := by
  have conn : ∀ (m1 : MSt) (w : String), m1.closed = m.closed → m1.connFails = m.connFails → o.connects = true →
      ((if m.closed then failC m1 w else m1).closed = m.closed ∧
       ((m.closed = false ∨ o.connects = false) → (if m.closed then failC m1 w else m1).connFails = m.connFails)) := by
    intro m1 w h1 h2 ho
    cases hm : m.closed
    · simp only [Bool.false_eq_true, if_false]
      exact ⟨h1.trans hm, fun _ => h2⟩
    · simp only [if_true]
      refine ⟨h1.trans hm, fun h => ?_⟩
      rcases h with h | h
      · cases h
      · rw [ho] at h; cases h
  cases o
  case mk k b e w => exact conn m _ rfl rfl rfl
  case bcNew b n h p => exact conn { m with newBcs := m.newBcs ++ [b] } _ rfl rfl rfl
  case bootConnect j h p => exact conn m _ rfl rfl rfl
  case bootWrite j => exact conn m _ rfl rfl rfl
  all_goals (try simp only [stepItem])
  all_goals (repeat' split)
  all_goals (first
    | exact ⟨rfl, fun _ => rfl⟩
    | exact ⟨trivial, fun _ => trivial⟩
    | exact ⟨trivial, fun _ => rfl⟩
    | exact ⟨rfl, fun _ => trivial⟩
    | exact fun _ => trivial
    | trivial
    | (simp; done))

theorem mon_other (m : MSt) (it : TItem) (h : (match it with | .ev _ => false | .ob _ => false | _ => true) = true) :
    (stepItem m it).closed = m.closed ∧ (stepItem m it).connFails = m.connFails := by
  cases it <;> (try cases h)
  all_goals (try simp only [stepItem])
  all_goals (repeat' split)
  all_goals (first
    | exact ⟨rfl, rfl⟩
    | exact ⟨trivial, trivial⟩
    | exact ⟨trivial, rfl⟩
    | exact ⟨rfl, trivial⟩
    | trivial
    | (simp; done))

theorem fold_obs (obs : List Ob) : ∀ (m : MSt), (m.closed = false ∨ ∀ o ∈ obs, o.connects = false) →
    ((obs.map TItem.ob).foldl stepItem m).closed = m.closed ∧ ((obs.map TItem.ob).foldl stepItem m).connFails = m.connFails := by
  induction obs with
  | nil => intro m _; exact ⟨rfl, rfl⟩
  | cons o rest ih =>
    intro m h
    simp only [List.map_cons, List.foldl_cons]
    obtain ⟨h1, h2⟩ := mon_ob m o
    have h' : (stepItem m (.ob o)).closed = false ∨ ∀ o' ∈ rest, o'.connects = false := by
      rcases h with h | h
      · left; rw [h1]; exact h
      · right; exact fun o' ho' => h o' (List.mem_cons_of_mem _ ho')
    obtain ⟨i1, i2⟩ := ih _ h'
    refine ⟨i1.trans h1, i2.trans (h2 ?_)⟩
    rcases h with h | h
    · exact Or.inl h
    · exact Or.inr (h o List.mem_cons_self)

/-! ## the simulation -/

structure Rel20 (st : St) (m : MSt) : Prop where
  inv : BootInv st
  closed : m.closed = true → st.closing = true ∧ NoBootConn st
  open_ : m.closed = false → st.closing = false
  conn : m.connFails = []

theorem Rel20.init : Rel20 ({} : St) ({} : MSt) :=
  ⟨BootInv.init, fun h => (by cases h), fun _ => rfl, rfl⟩

theorem step_rel20 (cfg : Cfg) (st : St) (env : Env) (e : Ev) (m : MSt) (hR : Rel20 st m)
    (hf : Ob.badOp "fuel" ∉ (step cfg st env e).2) :
    Rel20 (step cfg st env e).1
      (([TItem.ev e] ++ (step cfg st env e).2.map TItem.ob ++
        [TItem.dump (step cfg st env e).1.cache, TItem.timers ((step cfg st env e).1.timers.map (fun t => (t.what, t.due)))]).foldl stepItem m) := by
  simp only [List.foldl_append, List.foldl_cons, List.foldl_nil]
  obtain ⟨e1, e2⟩ := mon_ev m e
  -- the dump and timers items change nothing the relation looks at
  have hd := fun (m' : MSt) => mon_other m' (TItem.dump (step cfg st env e).1.cache) rfl
  have ht := fun (m' : MSt) => mon_other m' (TItem.timers ((step cfg st env e).1.timers.map (fun t => (t.what, t.due)))) rfl
  have hinv' := step_bootInv cfg st env e hR.inv
  -- in every case: the observations of the step do not connect, or the monitor is not yet closed
  have key : ((stepItem m (.ev e)).closed = false ∨ ∀ o ∈ (step cfg st env e).2, o.connects = false) ∧
      ((stepItem m (.ev e)).closed = true → (step cfg st env e).1.closing = true ∧ NoBootConn (step cfg st env e).1) ∧
      ((stepItem m (.ev e)).closed = false → (step cfg st env e).1.closing = false) := by
    cases hm : m.closed
    · have hst := hR.open_ hm
      cases hc : e.isClose
      · -- not a close: nothing changes
        refine ⟨Or.inl (by rw [e1, hm, hc]; rfl), fun h => ?_, fun _ => by rw [step_closing_eq cfg st env e hc]; exact hst⟩
        rw [e1, hm, hc] at h; cases h
      · -- the first close
        cases e <;> simp [Ev.isClose] at hc
        rename_i o
        have hobs : ∀ ob ∈ (step cfg st env (.close o)).2, ob.connects = false := by
          simp only [step, hst, Bool.false_eq_true, if_false]
          exact (runActs_closing cfg fuel _ _ [] rfl (by simp)).2
        have hcl : (step cfg st env (.close o)).1.closing = true := by
          simp only [step, hst, Bool.false_eq_true, if_false]
          exact runActs_closing_state cfg fuel _ _ _ rfl
        have hnb : NoBootConn (step cfg st env (.close o)).1 := by
          intro x hx j rest hh
          have := close_no_boot cfg st env o hR.inv hst hf x hx
          rw [hh] at this; cases this
        refine ⟨Or.inr hobs, fun _ => ⟨hcl, hnb⟩, fun h => ?_⟩
        rw [e1, hm] at h; simp [Ev.isClose] at h
    · obtain ⟨hcl, hnb⟩ := hR.closed hm
      obtain ⟨s1, s2⟩ := step_closing cfg st env e hcl hnb
      refine ⟨Or.inr s2, fun _ => ⟨s1, step_closing_nbc cfg st env e hcl hnb⟩, fun h => ?_⟩
      rw [e1, hm] at h; simp at h
  obtain ⟨k1, k2, k3⟩ := key
  obtain ⟨f1, f2⟩ := fold_obs (step cfg st env e).2 (stepItem m (.ev e)) k1
  constructor
  · exact hinv'
  · intro h
    rw [(ht _).1, (hd _).1, f1] at h
    exact k2 h
  · intro h
    rw [(ht _).1, (hd _).1, f1] at h
    exact k3 h
  · rw [(ht _).2, (hd _).2, f2, e2]; exact hR.conn

theorem trace_rel20 (cfg : Cfg) : ∀ (evs : List (Env × Ev)) (st : St) (m : MSt), Rel20 st m → NoFuel cfg st evs →
    Rel20 (evs.foldl (fun s e => (step cfg s e.1 e.2).1) st) ((traceOf cfg st evs).foldl stepItem m)
  | [], st, m, hR, _ => by simpa [traceOf] using hR
  | (env, e) :: rest, st, m, hR, hnf => by
    obtain ⟨hf, hnf'⟩ := hnf
    have hs := step_rel20 cfg st env e m hR hf
    have := trace_rel20 cfg rest _ _ hs hnf'
    simp only [traceOf, List.foldl_cons]
    rw [List.foldl_append]
    exact this

theorem run_connFails (tr : List TItem) : (Afkak.Monitor.C20.run tr).connFails = (tr.foldl stepItem {}).connFails := by
  unfold Afkak.Monitor.C20.run
  dsimp only
  repeat' split
  all_goals (first
    | exact (endStep_cc _).2
    | (simp only [fail]; exact (endStep_cc _).2))

/-- **every trace of the client model satisfies the "nothing connects after close" rules of the C20 monitor** -/
theorem model_no_connFails (cfg : Cfg) (evs : List (Env × Ev)) (hnf : NoFuel cfg {} evs) :
    (Afkak.Monitor.C20.run (traceOf cfg {} evs)).connFails = [] := by
  rw [run_connFails]
  exact (trace_rel20 cfg evs {} {} Rel20.init hnf).conn

end Afkak.ClientNet
