import AfkakProofs.Client.A_Unavail2
import AfkakProofs.Client.A_Unavail3
/-! The invariant `UInv` over (state, action stack, ghost set of boot-connected hosts) and the trace-level theorem. -/
namespace Afkak.ClientNet
open Afkak.ClientCache

def Covered (cfg : Cfg) (B rest : List (String × Int)) : Prop := ∀ hp ∈ cfg.bootHosts, hp ∈ rest ∨ hp ∈ B
def AllTried (cfg : Cfg) (B : List (String × Int)) : Prop := ∀ hp ∈ cfg.bootHosts, hp ∈ B

theorem Covered.mono {cfg : Cfg} {B B' rest : List (String × Int)} (h : Covered cfg B rest) (hs : ∀ x ∈ B, x ∈ B') : Covered cfg B' rest :=
  fun hp hhp => (h hp hhp).imp id (hs hp)

theorem AllTried.mono {cfg : Cfg} {B B' : List (String × Int)} (h : AllTried cfg B) (hs : ∀ x ∈ B, x ∈ B') : AllTried cfg B' :=
  fun hp hhp => hs hp (h hp hhp)

structure UInv (cfg : Cfg) (st : St) (acts : List Act) (B : List (String × Int)) : Prop where
  open_ : st.closing = false
  boots : ∀ r ∈ bootsOf st, Covered cfg B r
  rests : ∀ r ∈ restsOf st, ∀ n ∈ r, Known st n
  bootAct : ∀ u hosts, Act.bootNext u hosts ∈ acts → Covered cfg B hosts
  nextAct : ∀ u nodes, Act.unawareNext u nodes ∈ acts → ∀ n ∈ nodes, Known st n
  delivers : ∀ o k r, Act.deliver o k r ∈ acts → ∃ p, r = .ok p
  claims : ∀ a ∈ acts, a.claims = true → AllTried cfg B

theorem UInv.drop {cfg : Cfg} {st : St} {acts acts' : List Act} {B : List (String × Int)} (h : UInv cfg st acts B)
    (hs : ∀ a ∈ acts', a ∈ acts) : UInv cfg st acts' B :=
  ⟨h.open_, h.boots, h.rests, fun u hosts hm => h.bootAct u hosts (hs _ hm), fun u nodes hm => h.nextAct u nodes (hs _ hm),
   fun o k r hm => h.delivers o k r (hs _ hm), fun a ha => h.claims a (hs a ha)⟩

theorem exec_uinv (cfg : Cfg) (st : St) (a : Act) (rest : List Act) (B : List (String × Int)) (h : UInv cfg st (a :: rest) B) :
    UInv cfg (exec cfg st a).1 ((exec cfg st a).2.2 ++ rest) (B ++ bootHostsOf (exec cfg st a).2.1) ∧
    (∀ o ∈ (exec cfg st a).2.1, o.isUnavResult = true → AllTried cfg B) := by
  have hsub : ∀ x ∈ B, x ∈ B ++ bootHostsOf (exec cfg st a).2.1 := fun x hx => List.mem_append_left _ hx
  have hok := exec_acts_ok cfg st a h.open_
    (fun u n r ha => h.nextAct u (n :: r) (by rw [ha]; simp) n (by simp))
    (fun o k r ha => h.delivers o k r (by rw [ha]; simp))
  have hbs := exec_bsub cfg st a
  have hclaim : a.claims = true ∨ (∃ u, a = .bootNext u []) → AllTried cfg B := by
    rintro (hc | ⟨u, rfl⟩)
    · exact h.claims a (by simp) hc
    · intro hp hhp
      rcases h.bootAct u [] (by simp) hp hhp with h1 | h1
      · cases h1
      · exact h1
  refine ⟨⟨?_, ?_, ?_, ?_, ?_, ?_, ?_⟩, ?_⟩
  · rw [exec_closing_eq]; exact h.open_
  · intro r hr
    rcases exec_bext cfg st a r hr with h1 | ⟨u, hh, p, rfl⟩
    · exact (h.boots r h1).mono hsub
    · intro hp hhp
      rcases h.bootAct u ((hh, p) :: r) (by simp) hp hhp with h1 | h1
      · rcases List.mem_cons.mp h1 with rfl | h2
        · exact Or.inr (List.mem_append_right _ (exec_bootConnect cfg st u hh p r h.open_))
        · exact Or.inl h2
      · exact Or.inr (hsub _ h1)
  · intro r hr n hn
    rcases exec_rext cfg st a r hr with h1 | ⟨u, n0, rfl⟩
    · exact hbs n (h.rests r h1 n hn)
    · exact hbs n (h.nextAct u (n0 :: r) (by simp) n (by simp [hn]))
  · intro u hosts hm
    rcases List.mem_append.mp hm with h1 | h1
    · rcases (hok _ h1).2.1 u hosts rfl with h2 | h2
      · exact (h.boots hosts h2).mono hsub
      · exact fun hp hhp => Or.inl (h2 hp hhp)
    · exact (h.bootAct u hosts (by simp [h1])).mono hsub
  · intro u nodes hm n hn
    rcases List.mem_append.mp hm with h1 | h1
    · rcases (hok _ h1).2.2.1 u nodes rfl with h2 | h2
      · exact hbs n (h2 n hn)
      · exact hbs n (h.rests nodes h2 n hn)
    · exact hbs n (h.nextAct u nodes (by simp [h1]) n hn)
  · intro o k r hm
    rcases List.mem_append.mp hm with h1 | h1
    · exact (hok _ h1).2.2.2 o k r rfl
    · exact h.delivers o k r (by simp [h1])
  · intro a' ha' hc'
    rcases List.mem_append.mp ha' with h1 | h1
    · exact (hclaim ((hok _ h1).1 hc')).mono hsub
    · exact (h.claims a' (by simp [h1]) hc').mono hsub
  · intro o ho hr
    exact hclaim (Or.inl (exec_results cfg st a o ho hr))

/-- "unavailable" results so far are justified -/
def Good (cfg : Cfg) (B0 : List (String × Int)) (obs : List Ob) : Prop :=
  ∀ o ∈ obs, o.isUnavResult = true → AllTried cfg (B0 ++ bootHostsOf obs)

theorem Good.append {cfg : Cfg} {B0 : List (String × Int)} {obs more : List Ob} (h : Good cfg B0 obs)
    (hm : ∀ o ∈ more, o.isUnavResult = true → AllTried cfg (B0 ++ bootHostsOf obs)) : Good cfg B0 (obs ++ more) := by
  intro o ho hr
  have hsub : ∀ x ∈ B0 ++ bootHostsOf obs, x ∈ B0 ++ bootHostsOf (obs ++ more) := by
    intro x hx; rw [bootHostsOf_append, ← List.append_assoc]; exact List.mem_append_left _ hx
  rcases List.mem_append.mp ho with h1 | h1
  · exact (h o h1 hr).mono hsub
  · exact (hm o h1 hr).mono hsub

theorem runActs_succ' (cfg : Cfg) (n : Nat) (st : St) (a : Act) (rest : List Act) (obs : List Ob) :
    runActs cfg (n + 1) st (a :: rest) obs =
      runActs cfg n (exec cfg st a).1 ((exec cfg st a).2.2 ++ rest) (obs ++ (exec cfg st a).2.1) := by
  simp [runActs]

theorem runActs_uinv (cfg : Cfg) (B0 : List (String × Int)) : ∀ (fuel : Nat) (st : St) (acts : List Act) (obs : List Ob),
    UInv cfg st acts (B0 ++ bootHostsOf obs) → Good cfg B0 obs →
    UInv cfg (runActs cfg fuel st acts obs).1 [] (B0 ++ bootHostsOf (runActs cfg fuel st acts obs).2) ∧
      Good cfg B0 (runActs cfg fuel st acts obs).2
  | 0, st, acts, obs, h, hg => by
    simp only [runActs]
    have hb : bootHostsOf (obs ++ [Ob.badOp "fuel"]) = bootHostsOf obs := by simp [bootHostsOf]
    refine ⟨by rw [hb]; exact h.drop (by simp), ?_⟩
    exact hg.append (by intro o ho hr; rw [List.mem_singleton.mp ho] at hr; cases hr)
  | _+1, st, [], obs, h, hg => by simp only [runActs]; exact ⟨h, hg⟩
  | fuel+1, st, a :: rest, obs, h, hg => by
    rw [runActs_succ']
    obtain ⟨h1, h2⟩ := exec_uinv cfg st a rest _ h
    refine runActs_uinv cfg B0 fuel _ _ _ ?_ (hg.append h2)
    rw [bootHostsOf_append, ← List.append_assoc]; exact h1

theorem UInv.of_state {cfg : Cfg} {st st' : St} {acts : List Act} {B : List (String × Int)} (h : UInv cfg st acts B)
    (h1 : st'.closing = st.closing) (h2 : bootsOf st' = bootsOf st) (h3 : restsOf st' = restsOf st)
    (h4 : st'.cache.brokers = st.cache.brokers) : UInv cfg st' acts B := by
  have hk : ∀ n, Known st n → Known st' n := fun n hn => by unfold Known; rw [h4]; exact hn
  exact ⟨h1.trans h.open_, by rw [h2]; exact h.boots, by rw [h3]; exact fun r hr n hn => hk n (h.rests r hr n hn),
    h.bootAct, fun u nodes hm n hn => hk n (h.nextAct u nodes hm n hn), h.delivers, h.claims⟩

/-- start a stack on a quiescent state -/
theorem UInv.pushOk {cfg : Cfg} {st : St} {B : List (String × Int)} (h : UInv cfg st [] B) (acts : List Act)
    (hok : ∀ a' ∈ acts, ActOk cfg st Act.aggCheck a') : UInv cfg st acts B := by
  refine ⟨h.open_, h.boots, h.rests, ?_, ?_, ?_, ?_⟩
  · intro u hosts hm
    rcases (hok _ hm).2.1 u hosts rfl with h2 | h2
    · exact h.boots hosts h2
    · exact fun hp hhp => Or.inl (h2 hp hhp)
  · intro u nodes hm n hn
    rcases (hok _ hm).2.2.1 u nodes rfl with h2 | h2
    · exact h2 n hn
    · exact h.rests nodes h2 n hn
  · intro o k r hm
    exact (hok _ hm).2.2.2 o k r rfl
  · intro a' ha' hc
    rcases (hok _ ha').1 hc with h1 | ⟨u, h1⟩
    · cases h1
    · cases h1

theorem UInv.pushPlain {cfg : Cfg} {st : St} {B : List (String × Int)} (h : UInv cfg st [] B) (acts : List Act)
    (hp : acts.all Act.plainU = true) : UInv cfg st acts B := h.pushOk acts (all_plain hp)

theorem Good.nil (cfg : Cfg) (B0 : List (String × Int)) : Good cfg B0 [] := fun o ho => by cases ho

theorem runActs_uinv0 (cfg : Cfg) (B : List (String × Int)) (st : St) (acts : List Act) (h : UInv cfg st acts B) :
    UInv cfg (runActs cfg fuel st acts []).1 [] (B ++ bootHostsOf (runActs cfg fuel st acts []).2) ∧
      Good cfg B (runActs cfg fuel st acts []).2 :=
  runActs_uinv cfg B fuel st acts [] (by simpa [bootHostsOf] using h) (Good.nil cfg B)

theorem timerAct_plain (w : TimerWhat) : [timerAct w].all Act.plainU = true := by cases w <;> rfl

theorem fireDue_uinv (cfg : Cfg) (B0 : List (String × Int)) : ∀ (n : Nat) (st : St) (obs : List Ob),
    UInv cfg st [] (B0 ++ bootHostsOf obs) → Good cfg B0 obs →
    UInv cfg (fireDue cfg n st obs).1 [] (B0 ++ bootHostsOf (fireDue cfg n st obs).2) ∧ Good cfg B0 (fireDue cfg n st obs).2
  | 0, st, obs, h, hg => by
    simp only [fireDue]
    have hb : bootHostsOf (obs ++ [Ob.badOp "fuel"]) = bootHostsOf obs := by simp [bootHostsOf]
    exact ⟨by rw [hb]; exact h, hg.append (by intro o ho hr; rw [List.mem_singleton.mp ho] at hr; cases hr)⟩
  | n+1, st, obs, h, hg => by
    simp only [fireDue]
    split
    · exact ⟨h, hg⟩
    · split
      · exact ⟨h, hg⟩
      · rename_i t rest _ _
        have h1 : UInv cfg { st with timers := rest } [] (B0 ++ bootHostsOf obs) := h.of_state rfl rfl rfl rfl
        obtain ⟨h2, h3⟩ := runActs_uinv cfg B0 fuel _ _ obs (h1.pushPlain _ (timerAct_plain t.what)) hg
        exact fireDue_uinv cfg B0 n _ _ h2 h3

theorem head?_filter_mem' {α} {p : α → Bool} {l : List α} {x : α} (h : (l.filter p).head? = some x) : x ∈ l ∧ p x = true :=
  List.mem_filter.mp (List.mem_of_mem_head? h)

theorem cancelOp_uinv (cfg : Cfg) (st : St) (o : Nat) (B : List (String × Int)) (h : UInv cfg st [] B) :
    UInv cfg (cancelOp st o).1 (cancelOp st o).2.2 B ∧ bootHostsOf (cancelOp st o).2.1 = [] ∧
      ∀ ob ∈ (cancelOp st o).2.1, ob.isUnavResult = false := by
  have hcu : ∀ x : Unaware, bootHostsOf (cancelUnaware x).1 = [] := by
    intro x; unfold cancelUnaware; split <;> rfl
  unfold cancelOp
  repeat' split
  all_goals (try dsimp only)
  all_goals (first
    | exact ⟨h, rfl, by simp⟩
    | (rename_i x hx
       exact ⟨h.pushOk _ (cancelUnaware_ok cfg st _ x (head?_filter_mem' hx).1), hcu x, cancelUnaware_noResult x⟩)
    | (refine ⟨UInv.pushPlain ?_ _ rfl, rfl, by simp⟩
       exact h.of_state rfl rfl rfl rfl)
    | (refine ⟨h.pushPlain _ ?_, rfl, by simp⟩
       first
         | rfl
         | (simp only [List.all_flatMap]
            apply List.all_eq_true.mpr
            intro sl _
            split <;> rfl)))

theorem mem_bootHostsOf {obs : List Ob} {hp : String × Int} (h : hp ∈ bootHostsOf obs) : ∃ j, Ob.bootConnect j hp.1 hp.2 ∈ obs := by
  simp only [bootHostsOf, List.mem_filterMap] at h
  obtain ⟨o, ho, hm⟩ := h
  split at hm
  · rename_i j hh p
    cases hm
    exact ⟨j, ho⟩
  · cases hm

theorem step_uinv (cfg : Cfg) (st : St) (env : Env) (e : Ev) (B : List (String × Int)) (h : UInv cfg st [] B)
    (hnc : ∀ o, e ≠ .close o) (hb : ∀ k r, e = .fire k r → r.benign = true) :
    UInv cfg (step cfg st env e).1 [] (B ++ bootHostsOf (step cfg st env e).2) ∧ Good cfg B (step cfg st env e).2 := by
  have h0 : UInv cfg { st with env := env } [] B := h.of_state rfl rfl rfl rfl
  have hnil : ∀ st', UInv cfg st' [] B → UInv cfg st' [] (B ++ bootHostsOf []) ∧ Good cfg B [] :=
    fun st' h' => ⟨by simpa [bootHostsOf] using h', Good.nil cfg B⟩
  have hbad : ∀ st' w, UInv cfg st' [] B → UInv cfg st' [] (B ++ bootHostsOf [Ob.badOp w]) ∧ Good cfg B [Ob.badOp w] :=
    fun st' w h' => ⟨by simpa [bootHostsOf] using h', fun o ho hr => by rw [List.mem_singleton.mp ho] at hr; cases hr⟩
  cases e
  all_goals simp only [step]
  case load o topics =>
    refine runActs_uinv0 cfg B _ _ (UInv.pushPlain ?_ _ rfl)
    exact h0.of_state rfl (bootsOf_append_done _ _ _ rfl rfl) rfl rfl
  case send o keys group foe expect =>
    split
    · refine runActs_uinv0 cfg B _ _ (UInv.pushPlain ?_ _ rfl)
      exact h0.of_state rfl rfl rfl rfl
    · split
      · refine runActs_uinv0 cfg B _ _ (UInv.pushPlain ?_ _ rfl)
        exact h0.of_state rfl rfl rfl rfl
      · refine runActs_uinv0 cfg B _ _ (UInv.pushPlain ?_ _ rfl)
        exact h0.of_state rfl rfl rfl rfl
  case cload o g =>
    refine runActs_uinv0 cfg B _ _ (UInv.pushPlain ?_ _ ?_)
    · refine UInv.of_state (st := { st with env := env, liveOps := st.liveOps ++ [o] }) ?_
        (cloadJoin_closing _ _ _) (cloadJoin_boots _ _ _) (restsOf_of_core (core_cloadJoin _ _ _)) (congrArg Cache.brokers (cloadJoin_cache _ _ _))
      exact h0.of_state rfl rfl rfl rfl
    · unfold cloadJoin; split <;> rfl
  case srtc o g minT =>
    split
    · refine runActs_uinv0 cfg B _ _ (UInv.pushPlain ?_ _ rfl)
      exact h0.of_state rfl rfl rfl rfl
    · refine runActs_uinv0 cfg B _ _ (UInv.pushPlain ?_ _ ?_)
      · refine UInv.of_state (st := { st with env := env, liveOps := st.liveOps ++ [o], srtcs := st.srtcs ++ [{ r := st.srtcs.length, o := o, g := g, minTimeout := minT, phase := .resolving }] }) ?_
          (cloadJoin_closing _ _ _) (cloadJoin_boots _ _ _) (restsOf_of_core (core_cloadJoin _ _ _)) (congrArg Cache.brokers (cloadJoin_cache _ _ _))
        exact h0.of_state rfl rfl rfl rfl
      · unfold cloadJoin; split <;> rfl
  case ltp o topics =>
    refine runActs_uinv0 cfg B _ _ (UInv.pushPlain ?_ _ rfl)
    exact h0.of_state rfl rfl rfl rfl
  case cancel o =>
    obtain ⟨h1, h2, h3⟩ := cancelOp_uinv cfg _ o B h0
    refine runActs_uinv cfg B fuel _ _ _ (by rw [h2, List.append_nil]; exact h1) ?_
    intro ob hob hr
    rw [h3 ob hob] at hr; cases hr
  case close o => exact absurd rfl (hnc o)
  case resetTopics ts =>
    exact hnil _ (h0.of_state rfl rfl rfl (resetTopics_brokers _ _))
  case fire k r =>
    refine runActs_uinv0 cfg B _ _ (h0.pushPlain _ ?_)
    simp [Act.plainU, Act.claims, hb k r rfl]
  case down b => exact runActs_uinv0 cfg B _ _ (h0.pushPlain _ rfl)
  case conn b v => exact hnil _ (h0.of_state rfl rfl rfl rfl)
  case bootOk j =>
    split
    · exact hbad _ _ h0
    · rename_i x hx
      have hxm := head?_filter_mem' hx
      refine ⟨?_, fun ob hob hr => ?_⟩
      · have hbh : bootHostsOf [Ob.bootWrite j, Ob.setTimer (TimerWhat.boot j) (st.now + cfg.timeout)] = [] := rfl
        rw [hbh, List.append_nil]
        refine ⟨h0.open_, ?_, h0.rests, h0.bootAct, h0.nextAct, h0.delivers, h0.claims⟩
        intro r hr
        have hr' : r ∈ bootsOf (setUnaware { st with env := env } x.u fun y => { y with st := UState.bootReq j (match x.st with | UState.bootConn _ rest => rest | _ => []) }) := hr
        rcases bootsOf_setUnaware_sub _ _ _ (some _) (fun y => rfl) r hr' with h1 | h1
        · exact h0.boots r h1
        · cases h1
          have hp := hxm.2
          cases hst : x.st <;> simp only [hst] at hp ⊢ <;> try cases hp
          exact h0.boots _ (mem_bootsOf hxm.1 (by rw [hst]; rfl))
      · simp only [List.mem_cons, List.not_mem_nil, or_false] at hob
        rcases hob with rfl | rfl <;> cases hr
  case bootFail j =>
    split
    · exact hbad _ _ h0
    · rename_i x hx
      have hxm := head?_filter_mem' hx
      refine runActs_uinv0 cfg B _ _ (h0.pushOk _ ?_)
      intro a' ha'
      rw [List.mem_singleton.mp ha']
      refine ⟨by simp [Act.claims], ?_, by simp, by simp⟩
      intro u' hosts' hh
      cases hh
      left
      have hp := hxm.2
      cases hst : x.st <;> simp only [hst] at hp ⊢ <;> try cases hp
      exact mem_bootsOf hxm.1 (by rw [hst]; rfl)
  case bootReply j p => exact runActs_uinv0 cfg B _ _ (h0.pushPlain _ rfl)
  case bootLost j => exact runActs_uinv0 cfg B _ _ (h0.pushPlain _ rfl)
  case advance dt =>
    split
    · exact hbad _ _ h0
    · refine fireDue_uinv cfg B _ _ [] ?_ (Good.nil cfg B)
      show UInv cfg _ [] (B ++ [])
      rw [List.append_nil]
      exact h0.of_state rfl rfl rfl rfl

theorem UInv.init (cfg : Cfg) : UInv cfg {} [] [] :=
  ⟨rfl, by simp [bootsOf], by simp [restsOf], by simp, by simp, by simp, by simp⟩

/-- trace level: with `B` the hosts boot-connected so far -/
theorem trace_unavailable (cfg : Cfg) : ∀ (evs : List (Env × Ev)) (st : St) (B : List (String × Int)), UInv cfg st [] B →
    (∀ e ∈ evs, ∀ o, e.2 ≠ .close o) → (∀ e ∈ evs, ∀ k r, e.2 = .fire k r → r.benign = true) →
    ∀ o, TItem.ob (.result o (.fail .unavailable)) ∈ traceOf cfg st evs →
    ∀ hp ∈ cfg.bootHosts, hp ∈ B ∨ ∃ j, TItem.ob (.bootConnect j hp.1 hp.2) ∈ traceOf cfg st evs
  | [], _, _, _, _, _, o, hm => by simp [traceOf] at hm
  | (env, e) :: rest, st, B, h, hnc, hb, o, hm => by
    intro hp hhp
    obtain ⟨h1, h2⟩ := step_uinv cfg st env e B h (hnc (env, e) (by simp)) (hb (env, e) (by simp))
    have htr : traceOf cfg st ((env, e) :: rest) = [TItem.ev e] ++ (step cfg st env e).2.map TItem.ob ++
        [TItem.dump (step cfg st env e).1.cache, TItem.timers ((step cfg st env e).1.timers.map (fun t => (t.what, t.due)))] ++
        traceOf cfg (step cfg st env e).1 rest := rfl
    rw [htr] at hm ⊢
    have key : hp ∈ B ++ bootHostsOf (step cfg st env e).2 → hp ∈ B ∨ ∃ j, TItem.ob (.bootConnect j hp.1 hp.2) ∈
        [TItem.ev e] ++ (step cfg st env e).2.map TItem.ob ++
        [TItem.dump (step cfg st env e).1.cache, TItem.timers ((step cfg st env e).1.timers.map (fun t => (t.what, t.due)))] ++
        traceOf cfg (step cfg st env e).1 rest := by
      intro hin
      rcases List.mem_append.mp hin with h3 | h3
      · exact Or.inl h3
      · obtain ⟨j, hj⟩ := mem_bootHostsOf h3
        refine Or.inr ⟨j, ?_⟩
        apply List.mem_append_left
        apply List.mem_append_left
        apply List.mem_append_right
        exact List.mem_map.mpr ⟨_, hj, rfl⟩
    rcases List.mem_append.mp hm with hm1 | hm2
    · rcases List.mem_append.mp hm1 with hm3 | hm4
      · rcases List.mem_append.mp hm3 with hm5 | hm6
        · simp at hm5
        · obtain ⟨ob, hob, heq⟩ := List.mem_map.mp hm6
          cases heq
          exact key (h2 _ hob rfl hp hhp)
      · simp at hm4
    · rcases trace_unavailable cfg rest _ _ h1 (fun e' he' => hnc e' (by simp [he'])) (fun e' he' => hb e' (by simp [he'])) o hm2 hp hhp with h3 | ⟨j, hj⟩
      · exact key h3
      · exact Or.inr ⟨j, List.mem_append_right _ hj⟩

end Afkak.ClientNet
