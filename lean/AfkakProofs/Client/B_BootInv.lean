import Afkak.ClientNet
import AfkakProofs.Client.Net
/-!
# Bootstrap attempts are numbered uniquely (C20)

`BootInv`: in every reachable state of the client model the broker-unaware request instances are numbered by
their position, the bootstrap attempt ids they wait on are below `nBoot`, and no two instances wait on the same
attempt.  Preserved by every action of the interpreter and by every event.  Needed to show that `close()`
aborts EVERY bootstrap in progress (`B_BootClose.lean`).
-/
namespace Afkak.ClientNet
open Afkak.ClientCache

/-- the bootstrap attempt a broker-unaware request is waiting on -/
def UState.bootId : UState → Option Nat
  | .bootConn j _ => some j
  | .bootReq j _ => some j
  | _ => none

structure BootInv (st : St) : Prop where
  ids : ∀ (i : Nat) (x : Unaware), st.unawares[i]? = some x → x.u = i
  uniq : ∀ (i i' : Nat) (x x' : Unaware) (j : Nat), st.unawares[i]? = some x → st.unawares[i']? = some x' →
    x.st.bootId = some j → x'.st.bootId = some j → i = i'
  lt : ∀ (i : Nat) (x : Unaware) (j : Nat), st.unawares[i]? = some x → x.st.bootId = some j → j < st.nBoot

theorem BootInv.init : BootInv ({} : St) := ⟨by simp, by simp, by simp⟩

theorem BootInv.of_eq {st st' : St} (h : BootInv st) (hu : st'.unawares = st.unawares) (hn : st'.nBoot = st.nBoot) :
    BootInv st' := by
  constructor
  · rw [hu]; exact h.ids
  · rw [hu]; exact h.uniq
  · rw [hu, hn]; exact h.lt

theorem BootInv.append {st st' : St} (h : BootInv st) (x : Unaware) (hx : x.st.bootId = none)
    (hxu : x.u = st.unawares.length) (hu : st'.unawares = st.unawares ++ [x]) (hn : st'.nBoot = st.nBoot) :
    BootInv st' := by
  have key : ∀ (i : Nat) (y : Unaware), (st.unawares ++ [x])[i]? = some y → st.unawares[i]? = some y ∨ (i = st.unawares.length ∧ y = x) := by
    intro i y hy
    by_cases hi : i < st.unawares.length
    · left; rwa [List.getElem?_append_left hi] at hy
    · right
      rw [List.getElem?_append_right (by omega)] at hy
      have : i - st.unawares.length = 0 := by
        rcases Nat.eq_zero_or_pos (i - st.unawares.length) with h0 | hpos
        · exact h0
        · rw [List.getElem?_eq_none (by simp; omega)] at hy
          cases hy
      rw [this] at hy
      simp only [List.getElem?_cons_zero, Option.some.injEq] at hy
      exact ⟨by omega, hy.symm⟩
  constructor
  · intro i y hy
    rw [hu] at hy
    rcases key i y hy with hy | ⟨hi, rfl⟩
    · exact h.ids i y hy
    · rw [hxu, hi]
  · intro i i' y y' j hy hy' hj hj'
    rw [hu] at hy hy'
    rcases key i y hy with hy | ⟨_, rfl⟩
    · rcases key i' y' hy' with hy' | ⟨_, rfl⟩
      · exact h.uniq i i' y y' j hy hy' hj hj'
      · rw [hx] at hj'; cases hj'
    · rw [hx] at hj; cases hj
  · intro i y j hy hj
    rw [hu] at hy
    rw [hn]
    rcases key i y hy with hy | ⟨_, rfl⟩
    · exact h.lt i y j hy hj
    · rw [hx] at hj; cases hj

theorem setUnaware_getElem? (st : St) (u : Nat) (f : Unaware → Unaware) (i : Nat) :
    (setUnaware st u f).unawares[i]? = (st.unawares[i]?).map (fun x => if x.u == u then f x else x) := by
  simp [setUnaware, List.getElem?_map]

/-- `setUnaware` with a function that keeps the instance number and either leaves the bootstrap attempt as it
    is or drops it -/
theorem BootInv.setU {st : St} (h : BootInv st) (u : Nat) (f : Unaware → Unaware) (hfu : ∀ y, (f y).u = y.u)
    (hfb : ∀ y, st.unawares[u]? = some y → (f y).st.bootId = none ∨ (f y).st.bootId = y.st.bootId) :
    BootInv (setUnaware st u f) := by
  have key : ∀ (i : Nat) (y : Unaware), (setUnaware st u f).unawares[i]? = some y → ∃ y0 : Unaware, st.unawares[i]? = some y0 ∧ y.u = y0.u ∧
      (y.st.bootId = none ∨ y.st.bootId = y0.st.bootId) := by
    intro i y hy
    rw [setUnaware_getElem?] at hy
    cases h0 : st.unawares[i]? with
    | none => rw [h0] at hy; cases hy
    | some y0 =>
      rw [h0] at hy
      simp only [Option.map_some, Option.some.injEq] at hy
      refine ⟨y0, rfl, ?_, ?_⟩
      · subst hy; split
        · exact hfu y0
        · rfl
      · subst hy
        split
        · rename_i hu
          have hi : y0.u = i := h.ids i y0 h0
          have : i = u := by rw [← hi]; exact beq_iff_eq.mp hu
          subst this
          exact hfb y0 h0
        · right; rfl
  constructor
  · intro i y hy
    obtain ⟨y0, h0, hu0, _⟩ := key i y hy
    rw [hu0]; exact h.ids i y0 h0
  · intro i i' y y' j hy hy' hj hj'
    obtain ⟨y0, h0, _, hb0⟩ := key i y hy
    obtain ⟨y0', h0', _, hb0'⟩ := key i' y' hy'
    rcases hb0 with hb0 | hb0
    · rw [hb0] at hj; cases hj
    · rcases hb0' with hb0' | hb0'
      · rw [hb0'] at hj'; cases hj'
      · exact h.uniq i i' y0 y0' j h0 h0' (hb0 ▸ hj) (hb0' ▸ hj')
  · intro i y j hy hj
    obtain ⟨y0, h0, _, hb0⟩ := key i y hy
    rcases hb0 with hb0 | hb0
    · rw [hb0] at hj; cases hj
    · exact h.lt i y0 j h0 (hb0 ▸ hj)

/-- `bootNext`: the instance starts waiting on the fresh attempt `nBoot` -/
theorem BootInv.setU_fresh {st : St} (h : BootInv st) (u : Nat) (rest : List (String × Int)) :
    BootInv (setUnaware { st with nBoot := st.nBoot + 1 } u (fun y => { y with st := .bootConn st.nBoot rest })) := by
  have key : ∀ (i : Nat) (y : Unaware), (setUnaware { st with nBoot := st.nBoot + 1 } u (fun y => { y with st := .bootConn st.nBoot rest })).unawares[i]? = some y →
      ∃ y0 : Unaware, st.unawares[i]? = some y0 ∧ y.u = y0.u ∧ ((i = u ∧ y.st.bootId = some st.nBoot) ∨ y = y0) := by
    intro i y hy
    rw [setUnaware_getElem?] at hy
    cases h0 : st.unawares[i]? with
    | none =>
      have : ({ st with nBoot := st.nBoot + 1 } : St).unawares[i]? = none := h0
      rw [this] at hy; cases hy
    | some y0 =>
      have : ({ st with nBoot := st.nBoot + 1 } : St).unawares[i]? = some y0 := h0
      rw [this] at hy
      simp only [Option.map_some, Option.some.injEq] at hy
      refine ⟨y0, rfl, ?_, ?_⟩
      · subst hy; split <;> rfl
      · subst hy
        split
        · rename_i hu
          left
          have hi : y0.u = i := h.ids i y0 h0
          exact ⟨by rw [← hi]; exact beq_iff_eq.mp hu, rfl⟩
        · right; rfl
  constructor
  · intro i y hy
    obtain ⟨y0, h0, hu0, _⟩ := key i y hy
    rw [hu0]; exact h.ids i y0 h0
  · intro i i' y y' j hy hy' hj hj'
    obtain ⟨y0, h0, _, hb0⟩ := key i y hy
    obtain ⟨y0', h0', _, hb0'⟩ := key i' y' hy'
    rcases hb0 with ⟨hi, hb0⟩ | rfl
    · rcases hb0' with ⟨hi', _⟩ | rfl
      · rw [hi, hi']
      · rw [hb0] at hj; cases hj
        have := h.lt i' y' _ h0' hj'
        omega
    · rcases hb0' with ⟨_, hb0'⟩ | rfl
      · rw [hb0'] at hj'; cases hj'
        have := h.lt i y _ h0 hj
        omega
      · exact h.uniq i i' y y' j h0 h0' hj hj'
  · intro i y j hy hj
    obtain ⟨y0, h0, _, hb0⟩ := key i y hy
    show j < st.nBoot + 1
    rcases hb0 with ⟨_, hb0⟩ | rfl
    · rw [hb0] at hj; cases hj; omega
    · have := h.lt i y j h0 hj
      omega

/-- under `ids`, looking an instance up by number is looking at that position -/
theorem unawareGet_getElem? {st : St} (h : BootInv st) {u : Nat} {x : Unaware} (hx : unawareGet st u = some x) :
    st.unawares[u]? = some x := by
  have hm := List.mem_of_mem_head? hx
  obtain ⟨hxu, hp⟩ := List.mem_filter.mp hm
  obtain ⟨i, hi⟩ := List.mem_iff_getElem?.mp hxu
  have := h.ids i x hi
  have hu : x.u = u := beq_iff_eq.mp hp
  rw [← hu, this]; exact hi

theorem getElem?_unawareGet {st : St} (h : BootInv st) {u : Nat} {x : Unaware} (hx : st.unawares[u]? = some x) :
    unawareGet st u = some x := by
  unfold unawareGet
  cases hh : (st.unawares.filter (fun y => y.u == u)).head? with
  | none =>
    rw [List.head?_eq_none_iff, List.filter_eq_nil_iff] at hh
    have := hh x (List.mem_of_getElem? hx)
    simp [h.ids u x hx] at this
  | some y =>
    have := unawareGet_getElem? h (u := u) (x := y) hh
    rw [hx] at this
    exact congrArg some (Option.some.inj this).symm ▸ rfl

/-! ### the pieces of `exec` that leave the instances alone -/

theorem shuffle_nBoot {α} {st st' : St} {xs ys : List α} (h : shuffle st xs = some (st', ys)) :
    st'.nBoot = st.nBoot := by
  unfold shuffle at h
  split at h
  · cases h
  · simp only [Option.map_eq_some_iff] at h
    obtain ⟨_, _, heq⟩ := h
    cases heq; rfl

theorem reqDone_nBoot (st : St) (o : ReqOwner) (k : Nat) (r : Res) : (reqDone st o k r).1.nBoot = st.nBoot := by
  unfold reqDone
  split
  · split <;> (try split) <;> rfl
  · rfl
  · rfl

theorem getBrokerClient_unawares {st st1 : St} {n : Int} {b : Nat} {obs : List Ob}
    (h : getBrokerClient st n = .ok (st1, b, obs)) : st1.unawares = st.unawares ∧ st1.nBoot = st.nBoot := by
  unfold getBrokerClient at h
  split at h
  · cases h
  · split at h
    · cases h; exact ⟨rfl, rfl⟩
    · split at h
      · cases h
      · cases h; exact ⟨rfl, rfl⟩

theorem issueTo_ok_unawares {cfg : Cfg} {st : St} {n : Int} {o : ReqOwner} {e : Bool} {w : ReqWhat} {m : Option Rat}
    {rj : Bool} {i : IssueOk} (h : issueTo cfg st n o e w m rj = .ok i) :
    i.st.unawares = st.unawares ∧ i.st.nBoot = st.nBoot := by
  obtain ⟨st1, b, obs1, hg, hst, _, _, _⟩ := issueTo_ok h
  obtain ⟨h1, h2⟩ := getBrokerClient_unawares hg
  rw [hst]
  exact ⟨h1, h2⟩

theorem issueTo_err_unawares {cfg : Cfg} {st : St} {n : Int} {o : ReqOwner} {e : Bool} {w : ReqWhat} {m : Option Rat}
    {rj : Bool} {er : IssueErr} (h : issueTo cfg st n o e w m rj = .error er) :
    er.st.unawares = st.unawares ∧ er.st.nBoot = st.nBoot := by
  rcases issueTo_err h with ⟨h1, _⟩ | ⟨b, hg⟩
  · rw [h1]; exact ⟨rfl, rfl⟩
  · exact getBrokerClient_unawares hg

theorem cloadJoin_bootInv {st : St} (h : BootInv st) (w : Waiter) (g : String) : BootInv (cloadJoin st w g).1 := by
  unfold cloadJoin
  split
  · exact h.of_eq rfl rfl
  · exact h.append _ rfl rfl rfl rfl

end Afkak.ClientNet
