import AfkakProofs.Client.A_Reload
import AfkakProofs.Client.Route
import AfkakProofs.Client.Assemble
/-!
# The coroutine `_send_broker_aware_request` computes what the kernels compute (C07, coroutine level)

In every reachable state each send holds `routed = [(leader of payload 0, 0), (leader of payload 1, 1), …]` for the
payloads resolved so far, and once it issues, its per-broker requests (`slots`) are `groupByNode routed` with every
payload index resolved.  Hence every payload request the model hands to a broker client carries exactly one group of
`groupByNode`, and every `responses` / `FailedPayloadsError` result is `assemble` of per-request results whose index
lists are those groups: the hypotheses of the kernel theorems (`C07_one_request_per_broker`,
`C07_requests_partition_payloads`, `C07_order`, `C07_failed_payloads`, `C07_accounting`) hold of the coroutine.
-/
namespace Afkak.ClientNet
open Afkak.ClientCache

def SendOkP (keys : List TP) (routed : List (Int × Nat)) : SPhase → Prop
  | .resolving i => routed.map (·.2) = List.range i ∧ i ≤ keys.length
  | .inflight slots => routed.map (·.2) = List.range keys.length ∧
      slots.map (fun sl => (sl.node, sl.idxs)) = groupByNode routed
  | .done => True

def SendOk (x : Send) : Prop := SendOkP x.keys x.routed x.phase

def SendsOk (st : St) : Prop := ∀ x ∈ st.sends, SendOk x

/-- send `s` has resolved every payload and not issued yet -/
def Ready (st : St) (s : Nat) : Prop := ∀ x ∈ st.sends, x.s = s → ∃ i, x.phase = .resolving i ∧ x.keys.length ≤ i

theorem SendsOk.of_sends {st st' : St} (h : SendsOk st) (hs : st'.sends = st.sends) : SendsOk st' := by
  intro x hx; rw [hs] at hx; exact h x hx

theorem SendsOk.setSend {st : St} (h : SendsOk st) (s : Nat) (f : Send → Send) (hf : ∀ x ∈ st.sends, x.s = s → SendOk (f x)) :
    SendsOk (setSend st s f) := by
  intro x hx
  simp only [ClientNet.setSend, List.mem_map] at hx
  obtain ⟨x0, hx0, rfl⟩ := hx
  split
  · rename_i hc; exact hf x0 hx0 (by simpa using hc)
  · exact h x0 hx0

theorem map_zip_range {α β} (l : List α) (g : α → β) (F : Nat × α → α) (hF : ∀ e, g (F e) = g e.2) :
    (((List.range l.length).zip l).map F).map g = l.map g := by
  rw [List.map_map]
  have : (g ∘ F) = (g ∘ Prod.snd) := by
    funext e; simp [hF]
  rw [this, ← List.map_map, List.map_snd_zip]
  simp

theorem sids_eq_sends {st st' : St} (h : st'.sends = st.sends) : True := trivial

theorem reqDone_sendsOk {st : St} (h : SendsOk st) (o : ReqOwner) (k : Nat) (r : Res) : SendsOk (reqDone st o k r).1 := by
  unfold reqDone
  split
  · split <;> (try split) <;> exact h
  · apply h.setSend
    intro x hx _
    have hx' := h x hx
    unfold SendOk at hx' ⊢
    cases hp : x.phase <;> simp only [hp] at hx' ⊢
    · exact hx'
    · rename_i slots
      refine ⟨hx'.1, ?_⟩
      rw [← hx'.2, List.map_map]
      apply List.map_congr_left
      intro sl _
      simp only [Function.comp]
      split <;> rfl
    · exact hx'
  · exact h

theorem cloadJoin_sends (st : St) (w : Waiter) (g : String) : (cloadJoin st w g).1.sends = st.sends := by
  unfold cloadJoin; split <;> rfl

theorem shuffle_sends {α} {st st' : St} {xs ys : List α} (h : shuffle st xs = some (st', ys)) : st'.sends = st.sends :=
  (shuffle_frame h).2.2

theorem getBrokerClient_sends {st st' : St} {n : Int} {b : Nat} {obs : List Ob}
    (h : getBrokerClient st n = .ok (st', b, obs)) : st'.sends = st.sends := (getBrokerClient_frameR h).2.2.1

theorem issueTo_sends_ok {cfg : Cfg} {st : St} {n : Int} {o : ReqOwner} {e : Bool} {w : ReqWhat} {m : Option Rat} {rj : Bool}
    {i : IssueOk} (hi : issueTo cfg st n o e w m rj = .ok i) : i.st.sends = st.sends := by
  obtain ⟨st1, b, obs1, hg, h1, _, _, _⟩ := issueTo_ok hi
  have := getBrokerClient_sends hg
  rw [h1]; exact this

theorem issueTo_sends_err {cfg : Cfg} {st : St} {n : Int} {o : ReqOwner} {e : Bool} {w : ReqWhat} {m : Option Rat} {rj : Bool}
    {er : IssueErr} (he : issueTo cfg st n o e w m rj = .error er) : er.st.sends = st.sends := by
  rcases issueTo_err he with ⟨h1, _⟩ | ⟨b, hg⟩
  · rw [h1]
  · exact getBrokerClient_sends hg

theorem Ids.send_unique {st : St} (h : Ids st) {x y : Send} (hx : x ∈ st.sends) (hy : y ∈ st.sends) (hs : x.s = y.s) : x = y := by
  have hnd : (st.sends.map (·.s)).Nodup := by
    have := h.sends; simp only [sids] at this
    rw [this]; exact List.nodup_range
  exact eq_of_nodup_map (·.s) hnd hx hy hs

theorem SendsOk.setSend_done {st : St} (h : SendsOk st) (s : Nat) : SendsOk (ClientNet.setSend st s (fun y => { y with phase := .done })) :=
  h.setSend s _ (fun _ _ _ => trivial)

/-- every action keeps `SendsOk`; `sendIssue s` needs the send to be ready -/
theorem exec_sendsOk (cfg : Cfg) (st : St) (a : Act) (hids : Ids st) (h : SendsOk st) (hr : ∀ s, a = .sendIssue s → Ready st s) :
    SendsOk (exec cfg st a).1 := by
  cases a
  case sendLookup s =>
    simp only [exec]
    repeat' split
    all_goals (try dsimp only)
    all_goals (first | exact h | skip)
    rename_i x hx _ i hp _ key hk _ b _
    obtain ⟨hxm, hxs⟩ := sendGet_mem hx
    apply h.setSend
    intro y hy hys
    have hyx : y = x := hids.send_unique hy hxm (hys.trans hxs.symm)
    subst hyx
    have hy' := h y hy
    unfold SendOk at hy' ⊢
    rw [hp] at hy'
    simp only [SendOkP] at hy' ⊢
    have hlt : i < y.keys.length := by
      rcases Nat.lt_or_ge i y.keys.length with hl | hl
      · exact hl
      · rw [List.getElem?_eq_none hl] at hk; cases hk
    refine ⟨?_, hlt⟩
    rw [List.map_append, hy'.1, List.range_succ]; rfl
  case sendFail s kd =>
    simp only [exec]
    split
    · exact h
    · exact h.setSend_done s
  case sendIssue s =>
    simp only [exec]
    split
    · exact h
    · rename_i x hx
      obtain ⟨hxm, hxs⟩ := sendGet_mem hx
      dsimp only
      apply h.setSend
      intro y hy hys
      have hyx : y = x := hids.send_unique hy hxm (hys.trans hxs.symm)
      subst hyx
      obtain ⟨i, hp, hle⟩ := hr s rfl y hy hys
      have hy' := h y hy
      unfold SendOk at hy' ⊢
      rw [hp] at hy'
      simp only [SendOkP] at hy' ⊢
      have : i = y.keys.length := Nat.le_antisymm hy'.2 hle
      refine ⟨by rw [hy'.1, this], ?_⟩
      simp [List.map_map, Function.comp_def]
  case issueSlot s j =>
    simp only [exec]
    repeat' split
    all_goals (try dsimp only)
    all_goals (first
      | exact h
      | (rename_i he; exact h.of_sends (issueTo_sends_err he))
      | skip)
    rename_i hi
    apply SendsOk.setSend (h.of_sends (issueTo_sends_ok hi))
    intro y hy _
    have hy' := (h.of_sends (issueTo_sends_ok hi)) y hy
    unfold SendOk at hy' ⊢
    cases hp : y.phase <;> simp only [hp] at hy' ⊢
    · exact hy'
    · rename_i sls
      refine ⟨hy'.1, ?_⟩
      rw [← hy'.2]
      exact map_zip_range sls (fun sl => (sl.node, sl.idxs)) _ (fun e => by by_cases hc : (e.1 == j) = true <;> simp [hc])
    · exact hy'
  case sendCheck s =>
    simp only [exec]
    repeat' split
    all_goals (try dsimp only)
    all_goals (first
      | exact h
      | exact h.setSend_done s
      | exact (h.setSend_done s).of_sends rfl)
  case fireReq k r nested =>
    simp only [exec]
    repeat' split
    all_goals (try dsimp only)
    all_goals (first
      | exact h
      | (refine reqDone_sendsOk ?_ _ _ _; exact h.of_sends rfl))
  case deliver o k r =>
    simp only [exec]
    exact reqDone_sendsOk h _ _ _
  case timeoutFired k =>
    simp only [exec]
    repeat' split
    all_goals (try dsimp only)
    all_goals (first
      | exact h
      | (refine reqDone_sendsOk ?_ _ _ _; exact h.of_sends rfl))
  all_goals simp only [exec]
  all_goals (repeat' split)
  all_goals (try dsimp only)
  all_goals (first
    | exact h
    | exact h.of_sends rfl
    | (rename_i hs; exact h.of_sends (shuffle_sends hs))
    | exact h.of_sends (cloadJoin_sends _ _ _)
    | (rename_i he; exact h.of_sends (issueTo_sends_err he))
    | (rename_i hi; exact h.of_sends (issueTo_sends_ok hi))
    | (rename_i hi; exact h.of_sends (Eq.trans rfl (issueTo_sends_ok hi)))
    | (exact h.of_sends (by simp))
    | (exact h.of_sends (by simp_all)))

/-! ### only `sendResolve` pushes `sendIssue`, alone, when every payload is resolved -/

def Act.isIssue : Act → Bool
  | .sendIssue _ => true
  | _ => false

def noIss (l : List Act) : Prop := ∀ a' ∈ l, a'.isIssue = false

theorem noIss_nil : noIss [] := fun _ h => by cases h

theorem noIss_of_all {l : List Act} (h : l.all (fun a => !a.isIssue) = true) : noIss l := by
  intro a' ha'
  have := List.all_eq_true.mp h a' ha'
  simpa using this

theorem noIss_append {l l' : List Act} (h : noIss l) (h' : noIss l') : noIss (l ++ l') := by
  intro a' ha'
  rcases List.mem_append.mp ha' with h1 | h1
  · exact h a' h1
  · exact h' a' h1

theorem reqDone_noIss (st : St) (o : ReqOwner) (k : Nat) (r : Res) : noIss (reqDone st o k r).2 := by
  unfold reqDone
  split
  · split <;> (try split) <;> exact noIss_of_all rfl
  · exact noIss_of_all rfl
  · exact noIss_of_all rfl

theorem deliverLoad_noIss (lo : LOwner) (r : Res) : noIss (deliverLoad lo r) := by
  unfold deliverLoad; split <;> exact noIss_of_all rfl

theorem applyUpdate_noIss (st : St) (c' : Cache) (cn : List Int) (bs : List Broker) : noIss (applyUpdate st c' cn bs).2.2 := by
  simp only [applyUpdate]
  split
  · exact noIss_nil
  · apply noIss_of_all
    simp only [List.all_append, List.all_map, Bool.and_eq_true]
    exact ⟨List.all_eq_true.mpr (fun b _ => rfl), rfl⟩

theorem cancelUnaware_noIss (x : Unaware) : noIss (cancelUnaware x).2 := by
  unfold cancelUnaware; split <;> exact noIss_of_all rfl

theorem issueTo_noIss {cfg : Cfg} {st : St} {n : Int} {o : ReqOwner} {e : Bool} {w : ReqWhat} {m : Option Rat} {rj : Bool}
    {i : IssueOk} (hi : issueTo cfg st n o e w m rj = .ok i) : noIss i.acts := by
  obtain ⟨st1, b, obs1, _, _, _, _, e4⟩ := issueTo_ok hi
  rw [e4]
  simp only [makeRequest]
  split <;> exact noIss_of_all rfl

theorem cloadJoin_noIss (st : St) (w : Waiter) (g : String) : noIss (cloadJoin st w g).2 := by
  unfold cloadJoin; split <;> exact noIss_of_all rfl

theorem map_noIss {α} (l : List α) (f : α → Act) (h : ∀ x, (f x).isIssue = false) : noIss (l.map f) := by
  intro a' ha'
  obtain ⟨x, _, rfl⟩ := List.mem_map.mp ha'
  exact h x

/-- every action other than `sendResolve` pushes no `sendIssue` -/
theorem exec_noIss (cfg : Cfg) (st : St) (a : Act) (hne : ∀ s, a ≠ .sendResolve s) : noIss (exec cfg st a).2.2 := by
  cases a
  case sendResolve s => exact absurd rfl (hne s)
  all_goals simp only [exec]
  all_goals (repeat' split)
  all_goals (try dsimp only)
  all_goals (first
    | exact noIss_nil
    | exact noIss_of_all rfl
    | exact reqDone_noIss _ _ _ _
    | exact deliverLoad_noIss _ _
    | exact cancelUnaware_noIss _
    | (rename_i hi; exact issueTo_noIss hi)
    | exact noIss_append (applyUpdate_noIss _ _ _ _) (noIss_of_all rfl)
    | exact noIss_append (applyUpdate_noIss _ _ _ _) (map_noIss _ _ (fun _ => rfl))
    | exact map_noIss _ _ (fun _ => rfl)
    | exact noIss_append (reqDone_noIss _ _ _ _) (noIss_of_all rfl)
    | exact noIss_append (reqDone_noIss _ _ _ _) noIss_nil
    | exact noIss_append (map_noIss _ _ (fun _ => rfl)) (noIss_of_all rfl)
    | (apply noIss_append (map_noIss _ _ (fun _ => rfl)); split <;> exact noIss_of_all rfl)
    | (apply noIss_append (reqDone_noIss _ _ _ _); split <;> exact noIss_of_all rfl)
    | (intro a' ha'; simp only [List.mem_flatMap] at ha'; obtain ⟨sl, _, hs⟩ := ha'; split at hs <;> simp_all [Act.isIssue]))

/-- `sendResolve s` pushes `sendIssue` only alone, for `s`, when every payload of `s` is resolved -/
theorem exec_sendResolve_issue (cfg : Cfg) (st : St) (s : Nat) (hids : Ids st) :
    noIss (exec cfg st (.sendResolve s)).2.2 ∨
    ((exec cfg st (.sendResolve s)).2.2 = [.sendIssue s] ∧ (exec cfg st (.sendResolve s)).1 = st ∧ Ready st s) := by
  simp only [exec]
  repeat' split
  all_goals (try dsimp only)
  all_goals (first
    | exact Or.inl noIss_nil
    | exact Or.inl (noIss_of_all rfl)
    | exact Or.inl (cloadJoin_noIss _ _ _)
    | skip)
  rename_i x hx _ i hp _ hk
  obtain ⟨hxm, hxs⟩ := sendGet_mem hx
  refine Or.inr ⟨rfl, rfl, ?_⟩
  intro y hy hys
  have hyx : y = x := hids.send_unique hy hxm (hys.trans hxs.symm)
  subst hyx
  refine ⟨i, hp, ?_⟩
  rcases Nat.lt_or_ge i y.keys.length with hl | hl
  · rw [List.getElem?_eq_getElem hl] at hk; cases hk
  · exact hl

/-! ### only `sendCheck` pushes a `responses` / `FailedPayloadsError` result -/

def Act.isSendRes : Act → Bool
  | .opResult _ (.responses _) | .opResult _ (.failedPayloads _ _) => true
  | _ => false

def noSR (l : List Act) : Prop := ∀ a' ∈ l, a'.isSendRes = false

theorem noSR_nil : noSR [] := fun _ h => by cases h

theorem noSR_of_all {l : List Act} (h : l.all (fun a => !a.isSendRes) = true) : noSR l := by
  intro a' ha'
  have := List.all_eq_true.mp h a' ha'
  simpa using this

theorem noSR_append {l l' : List Act} (h : noSR l) (h' : noSR l') : noSR (l ++ l') := by
  intro a' ha'
  rcases List.mem_append.mp ha' with h1 | h1
  · exact h a' h1
  · exact h' a' h1

theorem reqDone_noSR (st : St) (o : ReqOwner) (k : Nat) (r : Res) : noSR (reqDone st o k r).2 := by
  unfold reqDone
  split
  · split <;> (try split) <;> exact noSR_of_all rfl
  · exact noSR_of_all rfl
  · exact noSR_of_all rfl

theorem isSendRes_simple (o : Nat) (q : OpRes) (h : q = .okTrue ∨ q = .okNone ∨ ∃ k, q = .fail k) :
    (Act.opResult o q).isSendRes = false := by
  rcases h with rfl | rfl | ⟨k, rfl⟩ <;> rfl

theorem deliverLoad_noSR (lo : LOwner) (r : Res) : noSR (deliverLoad lo r) := by
  unfold deliverLoad
  split
  · intro a' ha'
    rw [List.mem_singleton.mp ha']
    apply isSendRes_simple
    split
    · exact Or.inl rfl
    · exact Or.inr (Or.inl rfl)
    · exact Or.inr (Or.inr ⟨_, rfl⟩)
  · exact noSR_of_all rfl

theorem applyUpdate_noSR (st : St) (c' : Cache) (cn : List Int) (bs : List Broker) : noSR (applyUpdate st c' cn bs).2.2 := by
  simp only [applyUpdate]
  split
  · exact noSR_nil
  · apply noSR_of_all
    simp only [List.all_append, List.all_map, Bool.and_eq_true]
    exact ⟨List.all_eq_true.mpr (fun b _ => rfl), rfl⟩

theorem cancelUnaware_noSR (x : Unaware) : noSR (cancelUnaware x).2 := by
  unfold cancelUnaware; split <;> exact noSR_of_all rfl

theorem issueTo_noSR {cfg : Cfg} {st : St} {n : Int} {o : ReqOwner} {e : Bool} {w : ReqWhat} {m : Option Rat} {rj : Bool}
    {i : IssueOk} (hi : issueTo cfg st n o e w m rj = .ok i) : noSR i.acts := by
  obtain ⟨st1, b, obs1, _, _, _, _, e4⟩ := issueTo_ok hi
  rw [e4]
  simp only [makeRequest]
  split <;> exact noSR_of_all rfl

theorem cloadJoin_noSR (st : St) (w : Waiter) (g : String) : noSR (cloadJoin st w g).2 := by
  unfold cloadJoin; split <;> exact noSR_of_all rfl

theorem map_noSR {α} (l : List α) (f : α → Act) (h : ∀ x, (f x).isSendRes = false) : noSR (l.map f) := by
  intro a' ha'
  obtain ⟨x, _, rfl⟩ := List.mem_map.mp ha'
  exact h x

theorem single_noSR_res (o : Nat) (r : OpRes) (h : (Act.opResult o r).isSendRes = false) : noSR [Act.opResult o r] := by
  intro a' ha'; rw [List.mem_singleton.mp ha']; exact h

/-- every action other than `sendCheck` pushes no `responses` / `FailedPayloadsError` result -/
theorem exec_noSR (cfg : Cfg) (st : St) (a : Act) (hne : ∀ s, a ≠ .sendCheck s) : noSR (exec cfg st a).2.2 := by
  cases a
  case sendCheck s => exact absurd rfl (hne s)
  case waiterFire w r =>
    simp only [exec]
    split
    · apply single_noSR_res
      apply isSendRes_simple
      split
      · exact Or.inl rfl
      · exact Or.inr (Or.inr ⟨_, rfl⟩)
    · exact noSR_of_all rfl
    · exact noSR_of_all rfl
  all_goals simp only [exec]
  all_goals (repeat' split)
  all_goals (try dsimp only)
  all_goals (first
    | exact noSR_nil
    | exact noSR_of_all rfl
    | exact reqDone_noSR _ _ _ _
    | exact deliverLoad_noSR _ _
    | exact cancelUnaware_noSR _
    | exact cloadJoin_noSR _ _ _
    | (rename_i hi; exact issueTo_noSR hi)
    | exact noSR_append (applyUpdate_noSR _ _ _ _) (noSR_of_all rfl)
    | exact noSR_append (applyUpdate_noSR _ _ _ _) (map_noSR _ _ (fun _ => rfl))
    | exact map_noSR _ _ (fun _ => rfl)
    | exact noSR_append (reqDone_noSR _ _ _ _) (noSR_of_all rfl)
    | exact noSR_append (reqDone_noSR _ _ _ _) noSR_nil
    | exact noSR_append (map_noSR _ _ (fun _ => rfl)) (noSR_of_all rfl)
    | (apply noSR_append (map_noSR _ _ (fun _ => rfl)); split <;> exact noSR_of_all rfl)
    | (apply noSR_append (reqDone_noSR _ _ _ _); split <;> exact noSR_of_all rfl)
    | (intro a' ha'; simp only [List.mem_flatMap] at ha'; obtain ⟨sl, _, hs⟩ := ha'; split at hs <;> simp_all [Act.isSendRes]))

/-! ### observations: payload requests come from `issueSlot`, results from `opResult` -/

def Ob.isResult : Ob → Bool
  | .result _ _ => true
  | _ => false

/-- neither a payload request nor a result -/
def Ob.quietC (ob : Ob) : Bool := !ob.isPay && !ob.isResult

def quietObs (l : List Ob) : Prop := ∀ ob ∈ l, ob.quietC = true

theorem quietObs_of_all {l : List Ob} (h : l.all Ob.quietC = true) : quietObs l := fun ob hob => List.all_eq_true.mp h ob hob

theorem quietObs_append {l l' : List Ob} (h : quietObs l) (h' : quietObs l') : quietObs (l ++ l') := by
  intro ob hob
  rcases List.mem_append.mp hob with h1 | h1
  · exact h ob h1
  · exact h' ob h1

theorem applyUpdate_quiet (st : St) (c' : Cache) (cn : List Int) (bs : List Broker) : quietObs (applyUpdate st c' cn bs).2.1 := by
  intro o ho
  simp only [applyUpdate, List.mem_flatMap] at ho
  obtain ⟨e, _, he⟩ := ho
  split at he
  · simp only [List.mem_singleton] at he; subst he; rfl
  · cases he

theorem cancelUnaware_quiet (x : Unaware) : quietObs (cancelUnaware x).1 := by
  unfold cancelUnaware; split <;> exact quietObs_of_all rfl

theorem getBrokerClient_quiet {st st' : St} {n : Int} {b : Nat} {obs : List Ob}
    (h : getBrokerClient st n = .ok (st', b, obs)) : quietObs obs := by
  unfold getBrokerClient at h
  split at h
  · cases h
  · split at h
    · cases h; exact quietObs_of_all rfl
    · split at h
      · cases h
      · cases h; exact quietObs_of_all rfl

def ReqWhat.isPayloads : ReqWhat → Bool
  | .payloads _ _ => true
  | _ => false

theorem makeRequest_quiet (cfg : Cfg) (st : St) (b : Nat) (o : ReqOwner) (e : Bool) (w : ReqWhat) (m : Option Rat)
    (hw : w.isPayloads = false) : quietObs (makeRequest cfg st b o e w m).2.2.1 := by
  intro ob hob
  simp only [makeRequest] at hob
  have hmk : (Ob.mk st.reqs.length b e w).quietC = true := by
    cases w <;> simp_all [Ob.quietC, Ob.isPay, Ob.isResult, ReqWhat.isPayloads]
  by_cases hs : syncFire st b e = true
  · simp only [hs, if_true, List.mem_append, List.mem_cons, List.not_mem_nil, or_false] at hob
    rcases hob with ((rfl | rfl) | rfl) | rfl
    · exact hmk
    · rfl
    · rfl
    · rfl
  · simp only [hs, Bool.false_eq_true, if_false, List.append_nil, List.mem_append, List.mem_cons, List.not_mem_nil, or_false] at hob
    rcases hob with rfl | rfl
    · exact hmk
    · rfl

theorem issueTo_quiet_ok {cfg : Cfg} {st : St} {n : Int} {o : ReqOwner} {e : Bool} {w : ReqWhat} {m : Option Rat} {rj : Bool}
    {i : IssueOk} (hi : issueTo cfg st n o e w m rj = .ok i) (hw : w.isPayloads = false) : quietObs i.obs := by
  obtain ⟨st1, b, obs1, hg, _, _, e3, _⟩ := issueTo_ok hi
  rw [e3]
  exact quietObs_append (getBrokerClient_quiet hg) (makeRequest_quiet cfg st1 b o e w m hw)

theorem issueTo_quiet_err {cfg : Cfg} {st : St} {n : Int} {o : ReqOwner} {e : Bool} {w : ReqWhat} {m : Option Rat} {rj : Bool}
    {er : IssueErr} (he : issueTo cfg st n o e w m rj = .error er) : quietObs er.obs := by
  rcases issueTo_err he with ⟨_, h2⟩ | ⟨b, hg⟩
  · rw [h2]; exact quietObs_of_all rfl
  · exact getBrokerClient_quiet hg

/-- every action other than `issueSlot` and `opResult` emits neither a payload request nor a result -/
theorem exec_quietObs (cfg : Cfg) (st : St) (a : Act) (h1 : ∀ s j, a ≠ .issueSlot s j) (h2 : ∀ o r, a ≠ .opResult o r) :
    quietObs (exec cfg st a).2.1 := by
  cases a
  case issueSlot s j => exact absurd rfl (h1 s j)
  case opResult o r => exact absurd rfl (h2 o r)
  case unawareNext u nodes =>
    simp only [exec]
    repeat' split
    all_goals (try dsimp only)
    all_goals (first
      | exact quietObs_of_all rfl
      | (rename_i he; exact issueTo_quiet_err he)
      | (rename_i hi; exact issueTo_quiet_ok hi (by split <;> rfl)))
  case srtcGo r =>
    simp only [exec]
    repeat' split
    all_goals (try dsimp only)
    all_goals (first
      | exact quietObs_of_all rfl
      | (rename_i he; exact issueTo_quiet_err he)
      | (rename_i hi; exact issueTo_quiet_ok hi rfl))
  all_goals simp only [exec]
  all_goals (repeat' split)
  all_goals (try dsimp only)
  all_goals (first
    | exact quietObs_of_all rfl
    | exact applyUpdate_quiet _ _ _ _
    | exact cancelUnaware_quiet _
    | exact quietObs_append (quietObs_of_all rfl) (quietObs_of_all rfl)
    | (intro ob hob; obtain ⟨w, _, rfl⟩ := List.mem_map.mp hob; rfl)
    | (intro ob hob; simp_all [Ob.quietC, Ob.isPay, Ob.isResult]; done))

/-! ### what is emitted is what the kernels compute -/

def Partitions (keys : List TP) (results : List (List Nat × BrokerResult Kind)) : Prop :=
  (results.flatMap (·.1)).Nodup ∧ ∀ i, i < keys.length → i ∈ results.flatMap (·.1)

/-- a `responses` / `FailedPayloadsError` result is `assemble keys results` for per-request results whose payload
    index lists partition the payload list -/
def ResOk : OpRes → Prop
  | .responses tags => ∃ (keys : List TP) (results : List (List Nat × BrokerResult Kind)), Partitions keys results ∧
      (assemble keys results).2 = [] ∧ tags = (assemble keys results).1.map (·.tag)
  | .failedPayloads tags failed => ∃ (keys : List TP) (results : List (List Nat × BrokerResult Kind)), Partitions keys results ∧
      failed = (assemble keys results).2 ∧ tags = (assemble keys results).1.map (·.tag)
  | _ => True

/-- a payload request carries one group of `groupByNode` over a complete resolution of the payload list -/
def PayOk (ob : Ob) : Prop := ∀ k b e idxs ks, ob = .mk k b e (.payloads idxs ks) →
  ∃ (keys : List TP) (routed : List (Int × Nat)) (n : Int), routed.map (·.2) = List.range keys.length ∧
    (n, idxs) ∈ groupByNode routed ∧ ks = idxs.filterMap (fun i => keys[i]?)

def ObOk (ob : Ob) : Prop := PayOk ob ∧ ∀ o r, ob = .result o r → ResOk r

theorem ObOk.of_quiet {ob : Ob} (h : ob.quietC = true) : ObOk ob := by
  simp only [Ob.quietC, Bool.and_eq_true, Bool.not_eq_eq_eq_not, Bool.not_true] at h
  refine ⟨?_, ?_⟩
  · rintro k b e idxs ks rfl; simp [Ob.isPay] at h
  · rintro o r rfl; simp [Ob.isResult] at h

theorem ResOk.of_not {o : Nat} {r : OpRes} (h : (Act.opResult o r).isSendRes = false) : ResOk r := by
  cases r <;> first | trivial | (simp [Act.isSendRes] at h)

theorem slotResults_idxs (expect : Bool) : ∀ (slots : List Slot) (results : List (List Nat × BrokerResult Kind)),
    slotResults expect slots = some results → results.map (·.1) = slots.map (·.idxs)
  | [], results, h => by simp only [slotResults, Option.some.injEq] at h; subst h; rfl
  | sl :: rest, results, h => by
    simp only [slotResults] at h
    split at h
    · rename_i hd tl hh ht
      simp only [Option.some.injEq] at h
      subst h
      have ih := slotResults_idxs expect rest tl ht
      simp only [List.map_cons, ih]
      congr 1
      repeat' split at hh
      all_goals (first | (cases hh; rfl) | cases hh)
    · cases h

theorem partitions_of_sendOk {keys : List TP} {routed : List (Int × Nat)} {slots : List Slot}
    {results : List (List Nat × BrokerResult Kind)} (h : SendOkP keys routed (.inflight slots))
    (hr : results.map (·.1) = slots.map (·.idxs)) : Partitions keys results := by
  have hf : results.flatMap (·.1) = (groupByNode routed).flatMap (·.2) := by
    have h2 := congrArg (List.map Prod.snd) h.2
    simp only [List.map_map, Function.comp_def] at h2
    rw [List.flatMap_def, List.flatMap_def, hr]
    exact congrArg List.flatten h2
  unfold Partitions
  rw [hf]
  exact groupByNode_partition routed keys.length h.1

theorem exec_sendCheck_res (cfg : Cfg) (st : St) (s : Nat) (hs : SendsOk st) :
    ∀ o r, Act.opResult o r ∈ (exec cfg st (.sendCheck s)).2.2 → ResOk r := by
  intro o r hm
  simp only [exec] at hm
  split at hm
  · cases hm
  · rename_i x hx
    obtain ⟨hxm, _⟩ := sendGet_mem hx
    have hok := hs x hxm
    unfold SendOk at hok
    split at hm
    · rename_i slots hp
      rw [hp] at hok
      split at hm
      · cases hm
      · split at hm
        · simp at hm
        · rename_i results hsr
          have hpart := partitions_of_sendOk hok (slotResults_idxs _ _ _ hsr)
          split at hm
          · simp only [List.mem_singleton, Act.opResult.injEq] at hm
            obtain ⟨_, rfl⟩ := hm
            exact ⟨x.keys, results, hpart, rfl, rfl⟩
          · rename_i hfe
            simp only [List.mem_singleton, Act.opResult.injEq] at hm
            obtain ⟨_, rfl⟩ := hm
            split
            · refine ⟨x.keys, results, hpart, ?_, rfl⟩
              simpa using hfe
            · trivial
            · trivial
    · cases hm

theorem exec_issueSlot_obs (cfg : Cfg) (st : St) (s j : Nat) (hs : SendsOk st) :
    ∀ ob ∈ (exec cfg st (.issueSlot s j)).2.1, ObOk ob := by
  simp only [exec]
  repeat' split
  all_goals (try dsimp only)
  all_goals (first
    | (intro ob hob; exact ObOk.of_quiet (quietObs_of_all rfl ob hob))
    | (rename_i he; intro ob hob; exact ObOk.of_quiet (issueTo_quiet_err he ob hob))
    | skip)
  rename_i x hx _ slots hp _ sl hsl _ i hi
  obtain ⟨hxm, _⟩ := sendGet_mem hx
  have hok := hs x hxm
  unfold SendOk at hok
  rw [hp] at hok
  obtain ⟨st1, b, obs1, hg, _, _, e3, _⟩ := issueTo_ok hi
  rw [e3]
  intro ob hob
  rcases List.mem_append.mp hob with h1 | h1
  · exact ObOk.of_quiet (getBrokerClient_quiet hg ob h1)
  · have hmem : (sl.node, sl.idxs) ∈ groupByNode x.routed := by
      rw [← hok.2]
      exact List.mem_map.mpr ⟨sl, List.mem_of_getElem? hsl, rfl⟩
    refine ⟨?_, ?_⟩
    · rintro k b' e idxs ks rfl
      simp only [makeRequest] at h1
      have : idxs = sl.idxs ∧ ks = sl.idxs.filterMap (fun i => x.keys[i]?) := by
        by_cases hsf : syncFire st1 b x.expect = true
        · simp only [hsf, if_true, List.mem_append, List.mem_cons, List.not_mem_nil, or_false] at h1
          rcases h1 with ((h | h) | h) | h <;> cases h
          exact ⟨rfl, rfl⟩
        · simp only [hsf, Bool.false_eq_true, if_false, List.append_nil, List.mem_append, List.mem_cons, List.not_mem_nil, or_false] at h1
          rcases h1 with h | h <;> cases h
          exact ⟨rfl, rfl⟩
      obtain ⟨rfl, rfl⟩ := this
      exact ⟨x.keys, x.routed, sl.node, hok.1, hmem, rfl⟩
    · rintro o r rfl
      simp only [makeRequest] at h1
      by_cases hsf : syncFire st1 b x.expect = true
      · simp only [hsf, if_true, List.mem_append, List.mem_cons, List.not_mem_nil, or_false] at h1
        rcases h1 with ((h | h) | h) | h <;> cases h
      · simp only [hsf, Bool.false_eq_true, if_false, List.append_nil, List.mem_append, List.mem_cons, List.not_mem_nil, or_false] at h1
        rcases h1 with h | h <;> cases h

/-! ### the invariant over (state, stack) -/

structure CInv (st : St) (acts : List Act) : Prop where
  sends : SendsOk st
  tail : noIss acts.tail
  head : ∀ s, acts.head? = some (.sendIssue s) → Ready st s
  res : ∀ o r, Act.opResult o r ∈ acts → ResOk r

theorem CInv.ofPlain {st : St} (hs : SendsOk st) (acts : List Act) (h1 : noIss acts) (h2 : noSR acts) : CInv st acts := by
  refine ⟨hs, fun a' ha' => h1 a' (List.mem_of_mem_tail ha'), ?_, fun o r hm => ResOk.of_not (h2 _ hm)⟩
  intro s hh
  have : Act.sendIssue s ∈ acts := List.mem_of_mem_head? hh
  have := h1 _ this
  cases this

theorem exec_cinv (cfg : Cfg) (st : St) (a : Act) (rest : List Act) (hids : Ids st) (h : CInv st (a :: rest)) :
    CInv (exec cfg st a).1 ((exec cfg st a).2.2 ++ rest) ∧ ∀ ob ∈ (exec cfg st a).2.1, ObOk ob := by
  have hsends := exec_sendsOk cfg st a hids h.sends (fun s ha => h.head s (by rw [ha]; rfl))
  have hrest : noIss rest := h.tail
  have hshape : noIss (exec cfg st a).2.2 ∨ ∃ s, (exec cfg st a).2.2 = [.sendIssue s] ∧ (exec cfg st a).1 = st ∧ Ready st s := by
    by_cases hsr : ∃ s, a = .sendResolve s
    · obtain ⟨s, rfl⟩ := hsr
      rcases exec_sendResolve_issue cfg st s hids with h1 | h1
      · exact Or.inl h1
      · exact Or.inr ⟨s, h1⟩
    · exact Or.inl (exec_noIss cfg st a (fun s hs => hsr ⟨s, hs⟩))
  have hres : ∀ o r, Act.opResult o r ∈ (exec cfg st a).2.2 → ResOk r := by
    by_cases hsc : ∃ s, a = .sendCheck s
    · obtain ⟨s, rfl⟩ := hsc
      exact exec_sendCheck_res cfg st s h.sends
    · intro o r hm
      exact ResOk.of_not (exec_noSR cfg st a (fun s hs => hsc ⟨s, hs⟩) _ hm)
  refine ⟨⟨hsends, ?_, ?_, ?_⟩, ?_⟩
  · rcases hshape with h1 | ⟨s, h1, _, _⟩
    · intro a' ha'
      exact noIss_append h1 hrest a' (List.mem_of_mem_tail ha')
    · rw [h1]; exact hrest
  · intro s hh
    rcases hshape with h1 | ⟨s', h1, h2, h3⟩
    · have hm : Act.sendIssue s ∈ (exec cfg st a).2.2 ++ rest := List.mem_of_mem_head? hh
      have := noIss_append h1 hrest _ hm
      cases this
    · rw [h1] at hh
      simp only [List.cons_append, List.nil_append, List.head?_cons, Option.some.injEq, Act.sendIssue.injEq] at hh
      subst hh
      rw [h2]; exact h3
  · intro o r hm
    rcases List.mem_append.mp hm with h1 | h1
    · exact hres o r h1
    · exact h.res o r (List.mem_cons_of_mem _ h1)
  · by_cases his : ∃ s j, a = .issueSlot s j
    · obtain ⟨s, j, rfl⟩ := his
      exact exec_issueSlot_obs cfg st s j h.sends
    · by_cases hop : ∃ o r, a = .opResult o r
      · obtain ⟨o, r, rfl⟩ := hop
        have hr := h.res o r (by simp)
        simp only [exec]
        split
        · intro ob hob
          rw [List.mem_singleton.mp hob]
          refine ⟨?_, ?_⟩
          · rintro k b e idxs ks hh; cases hh
          · rintro o' r' hh; cases hh; exact hr
        · intro ob hob
          rw [List.mem_singleton.mp hob]
          exact ObOk.of_quiet rfl
      · intro ob hob
        exact ObOk.of_quiet (exec_quietObs cfg st a (fun s j hh => his ⟨s, j, hh⟩) (fun o r hh => hop ⟨o, r, hh⟩) ob hob)

theorem CInv.drop {st : St} {acts : List Act} (h : CInv st acts) : CInv st [] :=
  ⟨h.sends, fun _ ha => (by cases ha), fun _ hh => (by cases hh), fun _ _ hm => (by cases hm)⟩

theorem runActs_cinv (cfg : Cfg) : ∀ (fuel : Nat) (st : St) (acts : List Act) (obs : List Ob), Ids st → CInv st acts →
    (∀ ob ∈ obs, ObOk ob) →
    CInv (runActs cfg fuel st acts obs).1 [] ∧ ∀ ob ∈ (runActs cfg fuel st acts obs).2, ObOk ob
  | 0, st, acts, obs, _, h, ho => by
    simp only [runActs]
    refine ⟨h.drop, ?_⟩
    intro ob hob
    rcases List.mem_append.mp hob with h1 | h1
    · exact ho ob h1
    · rw [List.mem_singleton.mp h1]; exact ObOk.of_quiet rfl
  | _+1, st, [], obs, _, h, ho => by simp only [runActs]; exact ⟨h, ho⟩
  | fuel+1, st, a :: rest, obs, hids, h, ho => by
    rw [runActs_succ]
    obtain ⟨h1, h2⟩ := exec_cinv cfg st a rest hids h
    refine runActs_cinv cfg fuel _ _ _ (exec_ids cfg st a hids) h1 ?_
    intro ob hob
    rcases List.mem_append.mp hob with h3 | h3
    · exact ho ob h3
    · exact h2 ob h3

theorem timerAct_noIss (w : TimerWhat) : noIss [timerAct w] ∧ noSR [timerAct w] := by
  cases w <;> exact ⟨noIss_of_all rfl, noSR_of_all rfl⟩

theorem fireDue_cinv (cfg : Cfg) : ∀ (n : Nat) (st : St) (obs : List Ob), Ids st → CInv st [] → (∀ ob ∈ obs, ObOk ob) →
    CInv (fireDue cfg n st obs).1 [] ∧ ∀ ob ∈ (fireDue cfg n st obs).2, ObOk ob
  | 0, st, obs, _, h, ho => by
    simp only [fireDue]
    refine ⟨h, ?_⟩
    intro ob hob
    rcases List.mem_append.mp hob with h1 | h1
    · exact ho ob h1
    · rw [List.mem_singleton.mp h1]; exact ObOk.of_quiet rfl
  | n+1, st, obs, hids, h, ho => by
    simp only [fireDue]
    split
    · exact ⟨h, ho⟩
    · split
      · exact ⟨h, ho⟩
      · rename_i t rest _ _
        have hids1 : Ids { st with timers := rest } := hids.of_tables rfl rfl
        have hs1 : SendsOk { st with timers := rest } := h.sends.of_sends rfl
        have hc1 : CInv { st with timers := rest } [timerAct t.what] :=
          CInv.ofPlain hs1 _ (timerAct_noIss t.what).1 (timerAct_noIss t.what).2
        obtain ⟨h2, h3⟩ := runActs_cinv cfg fuel _ _ obs hids1 hc1 ho
        exact fireDue_cinv cfg n _ _ (runActs_ids cfg _ _ _ _ hids1) h2 h3

theorem cancelOp_cfacts (st : St) (o : Nat) :
    (cancelOp st o).1.sends = st.sends ∧ (cancelOp st o).1.unawares = st.unawares ∧
    noIss (cancelOp st o).2.2 ∧ noSR (cancelOp st o).2.2 ∧ quietObs (cancelOp st o).2.1 := by
  unfold cancelOp
  repeat' split
  all_goals (try dsimp only)
  all_goals (first
    | exact ⟨rfl, rfl, noIss_nil, noSR_nil, quietObs_of_all rfl⟩
    | exact ⟨rfl, rfl, cancelUnaware_noIss _, cancelUnaware_noSR _, cancelUnaware_quiet _⟩
    | exact ⟨rfl, rfl, noIss_of_all rfl, noSR_of_all rfl, quietObs_of_all rfl⟩
    | (refine ⟨rfl, rfl, ?_, ?_, quietObs_of_all rfl⟩
       · intro a' ha'; simp only [List.mem_flatMap] at ha'; obtain ⟨sl, _, hs⟩ := ha'; split at hs <;> simp_all [Act.isIssue]
       · intro a' ha'; simp only [List.mem_flatMap] at ha'; obtain ⟨sl, _, hs⟩ := ha'; split at hs <;> simp_all [Act.isSendRes]))

theorem SendsOk.init : SendsOk {} := fun _ h => by cases h

theorem step_cinv (cfg : Cfg) (st : St) (env : Env) (e : Ev) (hids : Ids st) (h : SendsOk st) :
    SendsOk (step cfg st env e).1 ∧ ∀ ob ∈ (step cfg st env e).2, ObOk ob := by
  have hids0 : Ids { st with env := env } := hids.of_tables rfl rfl
  have h0 : SendsOk { st with env := env } := h.of_sends rfl
  have fin : ∀ {st1 : St} {acts : List Act}, Ids st1 → SendsOk st1 → noIss acts → noSR acts →
      SendsOk (runActs cfg fuel st1 acts []).1 ∧ ∀ ob ∈ (runActs cfg fuel st1 acts []).2, ObOk ob := by
    intro st1 acts hi hs h1 h2
    obtain ⟨h3, h4⟩ := runActs_cinv cfg fuel st1 acts [] hi (CInv.ofPlain hs acts h1 h2) (fun _ hh => by cases hh)
    exact ⟨h3.sends, h4⟩
  have quiet : ∀ {st1 : St} {obs : List Ob}, SendsOk st1 → obs.all Ob.quietC = true → SendsOk st1 ∧ ∀ ob ∈ obs, ObOk ob :=
    fun hs hq => ⟨hs, fun ob hob => ObOk.of_quiet (quietObs_of_all hq ob hob)⟩
  cases e
  all_goals simp only [step]
  case load o topics =>
    exact fin (hids0.addUnaware _ rfl _ rfl rfl) (h0.of_sends rfl) (noIss_of_all rfl) (noSR_of_all rfl)
  case send o keys group foe expect =>
    split
    · exact fin (hids0.of_tables rfl rfl) (h0.of_sends rfl) (noIss_of_all rfl) (noSR_of_all rfl)
    · split
      · exact fin (hids0.of_tables rfl rfl) (h0.of_sends rfl) (noIss_of_all rfl) (noSR_of_all rfl)
      · refine fin (hids0.addSend _ rfl _ rfl rfl) ?_ (noIss_of_all rfl) (noSR_of_all rfl)
        intro x hx
        rcases List.mem_append.mp hx with h1 | h1
        · exact h0 x h1
        · rw [List.mem_singleton.mp h1]
          exact ⟨rfl, Nat.zero_le _⟩
  case cload o g =>
    refine fin (cloadJoin_ids (st := { st with env := env, liveOps := st.liveOps ++ [o] }) (hids0.of_tables rfl rfl) _ _)
      (SendsOk.of_sends (st := { st with env := env }) h0 (cloadJoin_sends _ _ _)) (cloadJoin_noIss _ _ _) (cloadJoin_noSR _ _ _)
  case srtc o g minT =>
    split
    · exact fin (hids0.of_tables rfl rfl) (h0.of_sends rfl) (noIss_of_all rfl) (noSR_of_all rfl)
    · refine fin (cloadJoin_ids (st := { st with env := env, liveOps := st.liveOps ++ [o], srtcs := st.srtcs ++ [{ r := st.srtcs.length, o := o, g := g, minTimeout := minT, phase := .resolving }] }) (hids0.of_tables rfl rfl) _ _)
        (SendsOk.of_sends (st := { st with env := env }) h0 (cloadJoin_sends _ _ _)) (cloadJoin_noIss _ _ _) (cloadJoin_noSR _ _ _)
  case ltp o topics =>
    exact fin (hids0.of_tables rfl rfl) (h0.of_sends rfl) (noIss_of_all rfl) (noSR_of_all rfl)
  case cancel o =>
    obtain ⟨c1, c2, c3, c4, c5⟩ := cancelOp_cfacts { st with env := env } o
    obtain ⟨h3, h4⟩ := runActs_cinv cfg fuel _ _ _ (hids0.of_tables c1 c2) (CInv.ofPlain (h0.of_sends c1) _ c3 c4)
      (fun ob hob => ObOk.of_quiet (c5 ob hob))
    exact ⟨h3.sends, h4⟩
  case close o =>
    split
    · split
      · exact fin hids0 h0 (noIss_of_all rfl) (noSR_of_all rfl)
      · exact quiet h0 rfl
    · refine fin (hids0.of_tables rfl rfl) (h0.of_sends rfl) ?_ ?_
      · refine noIss_append (noIss_append (noIss_append (map_noIss _ _ (fun _ => rfl)) (noIss_of_all rfl)) ?_) (noIss_of_all rfl)
        split <;> exact noIss_of_all rfl
      · refine noSR_append (noSR_append (noSR_append (map_noSR _ _ (fun _ => rfl)) (noSR_of_all rfl)) ?_) (noSR_of_all rfl)
        split <;> exact noSR_of_all rfl
  case resetTopics ts => exact ⟨h0.of_sends rfl, fun _ hh => by cases hh⟩
  case fire k r => exact fin hids0 h0 (noIss_of_all rfl) (noSR_of_all rfl)
  case down b => exact fin hids0 h0 (noIss_of_all rfl) (noSR_of_all rfl)
  case conn b v => exact ⟨h0.of_sends rfl, fun _ hh => by cases hh⟩
  case bootOk j =>
    split
    · exact quiet h0 rfl
    · exact quiet (h0.of_sends rfl) rfl
  case bootFail j =>
    split
    · exact quiet h0 rfl
    · exact fin hids0 h0 (noIss_of_all rfl) (noSR_of_all rfl)
  case bootReply j p => exact fin hids0 h0 (noIss_of_all rfl) (noSR_of_all rfl)
  case bootLost j => exact fin hids0 h0 (noIss_of_all rfl) (noSR_of_all rfl)
  case advance dt =>
    split
    · exact quiet h0 rfl
    · have hi1 : Ids { st with env := env, now := st.now + dt } := hids0.of_tables rfl rfl
      have hs1 : SendsOk { st with env := env, now := st.now + dt } := h0.of_sends rfl
      obtain ⟨h3, h4⟩ := fireDue_cinv cfg (st.timers.length + fuel) _ [] hi1 (CInv.ofPlain hs1 [] noIss_nil noSR_nil)
        (fun _ hh => by cases hh)
      exact ⟨h3.sends, h4⟩

/-- every observation of every run of the client model is what the kernels compute -/
theorem trace_obOk (cfg : Cfg) : ∀ (evs : List (Env × Ev)) (st : St), Ids st → SendsOk st →
    ∀ ob, TItem.ob ob ∈ traceOf cfg st evs → ObOk ob
  | [], _, _, _, ob, hm => by simp [traceOf] at hm
  | (env, e) :: rest, st, hids, hs, ob, hm => by
    obtain ⟨h1, h2⟩ := step_cinv cfg st env e hids hs
    have htr : traceOf cfg st ((env, e) :: rest) = [TItem.ev e] ++ (step cfg st env e).2.map TItem.ob ++
        [TItem.dump (step cfg st env e).1.cache, TItem.timers ((step cfg st env e).1.timers.map (fun t => (t.what, t.due)))] ++
        traceOf cfg (step cfg st env e).1 rest := rfl
    rw [htr] at hm
    rcases List.mem_append.mp hm with hm1 | hm2
    · rcases List.mem_append.mp hm1 with hm3 | hm4
      · rcases List.mem_append.mp hm3 with hm5 | hm6
        · simp at hm5
        · obtain ⟨ob', hob', heq⟩ := List.mem_map.mp hm6
          cases heq
          exact h2 _ hob'
      · simp at hm4
    · exact trace_obOk cfg rest _ (step_ids cfg st env e hids) h1 ob hm2

end Afkak.ClientNet
