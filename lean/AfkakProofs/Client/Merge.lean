import AfkakProofs.Client.Cache
/-! `_merge_topic_metadata` mirrors the response (C08_mirror). -/
namespace Afkak.ClientCache
open Afkak.Monitor.C08 Afkak.Consts

section lists
variable {κ ν : Type} [BEq κ] [LawfulBEq κ]

theorem hasKey_append (k : κ) (l l' : List (κ × ν)) : hasKey k (l ++ l') = (hasKey k l || hasKey k l') := by
  simp [hasKey, List.any_append]

theorem get?_append (k : κ) : ∀ (l l' : List (κ × ν)),
    get? k (l ++ l') = (match get? k l with | some v => some v | none => get? k l')
  | [], l' => rfl
  | e :: l, l' => by
    simp only [List.cons_append, get?]
    by_cases h : e.1 == k
    · simp [h]
    · simp only [h, Bool.false_eq_true, if_false]; exact get?_append k l l'

theorem get?_filter_of_key (k : κ) (p : κ × ν → Bool) (hp : ∀ e, e.1 = k → p e = true) :
    ∀ (l : List (κ × ν)), get? k (l.filter p) = get? k l
  | [] => rfl
  | e :: l => by
    simp only [List.filter_cons]
    by_cases hk : e.1 == k
    · have : e.1 = k := by simpa using hk
      simp [hp e this, get?, hk]
    · by_cases hpe : p e
      · simp only [hpe, if_true, get?, hk, Bool.false_eq_true, if_false]; exact get?_filter_of_key k p hp l
      · simp only [hpe, Bool.false_eq_true, if_false, get?, hk]; exact get?_filter_of_key k p hp l

theorem upsert_absent {k : κ} (v : ν) {l : List (κ × ν)} (h : hasKey k l = false) : upsert k v l = l ++ [(k, v)] := by
  simp [upsert, h]

/-- assigning fresh, pairwise distinct keys appends them in order -/
theorem foldl_upsert_fresh {σ : Type} (g : σ → κ × ν) : ∀ (es : List σ) (l : List (κ × ν)),
    (es.map (fun e => (g e).1)).Nodup → (∀ e ∈ es, hasKey (g e).1 l = false) →
    es.foldl (fun d e => upsert (g e).1 (g e).2 d) l = l ++ es.map g
  | [], l, _, _ => by simp
  | e :: es, l, hnd, hfr => by
    simp only [List.map_cons, List.nodup_cons] at hnd
    simp only [List.foldl_cons, List.map_cons]
    rw [upsert_absent _ (hfr e (by simp))]
    rw [foldl_upsert_fresh g es _ hnd.2]
    · simp
    · intro e' he'
      rw [hasKey_append, hfr e' (by simp [he']), Bool.false_or]
      rw [Bool.eq_false_iff]
      intro hh
      simp only [hasKey, List.any_cons, List.any_nil, Bool.or_false, beq_iff_eq] at hh
      exact hnd.1 (List.mem_map.mpr ⟨e', he', hh.symm⟩)

/-- a dict built from `(f x, x)` pairs is keyed by `f` -/
theorem dictOfList_keyed {σ : Type} (f : σ → κ) (xs : List σ) :
    ∀ e ∈ dictOfList (xs.map (fun x => (f x, x))), e.1 = f e.2 := by
  suffices h : ∀ (xs : List σ) (l : List (κ × σ)), (∀ e ∈ l, e.1 = f e.2) →
      ∀ e ∈ (xs.map (fun x => (f x, x))).foldl (fun d e => upsert e.1 e.2 d) l, e.1 = f e.2 from h xs [] (by simp)
  intro xs
  induction xs with
  | nil => intro l h; simpa using h
  | cons x xs ih =>
    intro l h
    simp only [List.map_cons, List.foldl_cons]
    apply ih
    intro e he
    unfold upsert at he
    split at he
    · obtain ⟨e0, he0, rfl⟩ := List.mem_map.mp he
      split
      · rfl
      · exact h e0 he0
    · rcases List.mem_append.mp he with he | he
      · exact h e he
      · simp only [List.mem_singleton] at he; subst he; rfl

theorem nodup_map_pair {σ α β : Type} (a : α) (f : σ → β) : ∀ {l : List σ}, (l.map f).Nodup → (l.map (fun e => (a, f e))).Nodup
  | [], _ => by simp
  | x :: l, h => by
    simp only [List.map_cons, List.nodup_cons, List.mem_map, not_exists, not_and] at h ⊢
    refine ⟨?_, nodup_map_pair a f h.2⟩
    intro y hy heq
    exact h.1 y hy (Prod.mk.inj heq).2

theorem mem_insertInt {x a : Int} : ∀ {l : List Int}, x ∈ insertInt a l ↔ x = a ∨ x ∈ l
  | [] => by simp [insertInt]
  | b :: l => by
    unfold insertInt
    split
    · simp
    · simp only [List.mem_cons, mem_insertInt (l := l)]
      constructor
      · rintro (h | h | h) <;> simp [h]
      · rintro (h | h | h) <;> simp [h]

theorem mem_sortInts {x : Int} : ∀ {l : List Int}, x ∈ sortInts l ↔ x ∈ l
  | [] => by simp [sortInts]
  | a :: l => by simp [sortInts, mem_insertInt, mem_sortInts (l := l)]

end lists

/-- the leader stored for one partition of a response -/
def leaderVal (c : Cache) (p : PartMeta) : Option Broker := if p.leader == -1 then none else get? p.leader c.brokers

/-- cache facts beyond `CWf` that make the leader view exact: `_brokers` is keyed by node id -/
def BrokersKeyed (c : Cache) : Prop := ∀ e ∈ c.brokers, e.2.nodeId = e.1

theorem resetTopic_errs_absent (c : Cache) (t : String) : hasKey t (resetTopic c t).topicErrs = false := by
  rw [← get?_isSome]; simp [resetTopic, get?_erase_self]

theorem resetTopic_parts_absent (c : Cache) (t : String) : hasKey t (resetTopic c t).topicParts = false := by
  rw [← get?_isSome]; simp [resetTopic, get?_erase_self]

/-- normal form of one iteration of the merge loop on a well-formed cache -/
theorem mergeTopic_nf {c : Cache} (h : CWf c) (tm : TopicMeta) :
    let parts := respParts tm
    (mergeTopic c tm).brokers = c.brokers ∧ (mergeTopic c tm).clients = c.clients ∧ (mergeTopic c tm).groups = c.groups ∧
    (mergeTopic c tm).topicErrs = erase tm.name c.topicErrs ++ [(tm.name, tm.err)] ∧
    (mergeTopic c tm).topicParts = erase tm.name c.topicParts ++
        (if parts.isEmpty then [] else [(tm.name, sortInts (parts.map (·.1)))]) ∧
    (mergeTopic c tm).t2b = c.t2b.filter (fun e => !(e.1.1 == tm.name)) ++
        parts.map (fun e => ((tm.name, e.1), leaderVal c e.2)) := by
  intro parts
  have herr : upsert tm.name tm.err (resetTopic c tm.name).topicErrs = erase tm.name c.topicErrs ++ [(tm.name, tm.err)] := by
    rw [upsert_absent _ (resetTopic_errs_absent c tm.name)]; rfl
  unfold mergeTopic
  simp only
  split
  · rename_i hemp
    have hp : parts = [] := by simpa [parts, respParts] using hemp
    refine ⟨rfl, rfl, rfl, herr, ?_, ?_⟩
    · simp [hp, resetTopic]
    · simp [hp, resetTopic_t2b h]
  · rename_i hne
    have hp : parts.isEmpty = false := by simpa [parts, respParts] using hne
    refine ⟨rfl, rfl, rfl, herr, ?_, ?_⟩
    · simp only [hp, Bool.false_eq_true, if_false]
      rw [upsert_absent _ (resetTopic_parts_absent c tm.name)]; rfl
    · have hfold := foldl_upsert_fresh (fun (e : Int × PartMeta) => ((tm.name, e.1), leaderVal c e.2)) parts
        (resetTopic c tm.name).t2b ?_ ?_
      · have hbr : (resetTopic c tm.name).brokers = c.brokers := rfl
        rw [resetTopic_t2b h] at hfold
        rw [resetTopic_t2b h]
        simpa only [leaderVal, hbr, parts, respParts] using hfold
      · have hnd : (parts.map (·.1)).Nodup := dictOfList_nodup _
        exact nodup_map_pair tm.name (fun e : Int × PartMeta => e.1) hnd
      · intro e _
        rw [Bool.eq_false_iff]
        intro hh
        obtain ⟨v, hv⟩ := hasKey_iff.mp hh
        rw [resetTopic_t2b h] at hv
        simp at hv

theorem mergeTopic_wf {c : Cache} (h : CWf c) (tm : TopicMeta) : CWf (mergeTopic c tm) := by
  obtain ⟨hb, _, hg, herr, hparts, ht2b⟩ := mergeTopic_nf h tm
  have hpn : ((respParts tm).map (·.1)).Nodup := dictOfList_nodup _
  constructor
  · rw [ht2b, List.map_append]
    refine List.nodup_append.mpr ⟨h.t2bKeys.sublist (List.Sublist.map _ List.filter_sublist), ?_, ?_⟩
    · rw [List.map_map]
      exact nodup_map_pair tm.name (fun e : Int × PartMeta => e.1) hpn
    · intro a ha b hb' heq
      subst heq
      obtain ⟨e, he, rfl⟩ := List.mem_map.mp ha
      obtain ⟨e', he'm, he'⟩ := List.mem_map.mp hb'
      obtain ⟨pe, _, rfl⟩ := List.mem_map.mp he'm
      have h1 := (List.mem_filter.mp he).2
      have : e.1.1 = tm.name := by rw [← he']
      simp [this] at h1
  · rw [hparts, List.map_append]
    refine List.nodup_append.mpr ⟨keys_erase_nodup h.partsKeys, by split <;> simp, ?_⟩
    intro a ha b hb' heq
    subst heq
    split at hb'
    · simp at hb'
    · simp only [List.map_cons, List.map_nil, List.mem_singleton] at hb'
      obtain ⟨e, he, rfl⟩ := List.mem_map.mp ha
      simp only [erase, List.mem_filter] at he
      simp [hb'] at he
  · rw [herr, List.map_append]
    refine List.nodup_append.mpr ⟨keys_erase_nodup h.errsKeys, by simp, ?_⟩
    intro a ha b hb' heq
    subst heq
    simp only [List.map_cons, List.map_nil, List.mem_singleton] at hb'
    obtain ⟨e, he, rfl⟩ := List.mem_map.mp ha
    simp only [erase, List.mem_filter] at he
    simp [hb'] at he
  · rw [hb]; exact h.brokersKeys
  · rw [hg]; exact h.groupsKeys
  · intro e he
    rw [ht2b] at he
    rw [hparts]
    rcases List.mem_append.mp he with he | he
    · obtain ⟨he1, he2⟩ := List.mem_filter.mp he
      obtain ⟨ps, hps, hp⟩ := h.listed e he1
      exact ⟨ps, List.mem_append_left _ (by simp only [erase, List.mem_filter]; exact ⟨hps, he2⟩), hp⟩
    · obtain ⟨pe, hpe, rfl⟩ := List.mem_map.mp he
      have hne : (respParts tm).isEmpty = false := by
        cases hl : respParts tm with
        | nil => rw [hl] at hpe; cases hpe
        | cons _ _ => rfl
      refine ⟨sortInts ((respParts tm).map (·.1)), ?_, ?_⟩
      · simp [hne]
      · exact mem_sortInts.mpr (List.mem_map.mpr ⟨pe, hpe, rfl⟩)


/-- `topicMirror after tm` reads only these parts of `after` -/
theorem topicMirror_congr {a b : Cache} (tm : TopicMeta)
    (h1 : get? tm.name a.topicErrs = get? tm.name b.topicErrs)
    (h2 : get? tm.name a.topicParts = get? tm.name b.topicParts)
    (h3 : t2bOf a tm.name = t2bOf b tm.name)
    (h4 : ∀ p, get? (tm.name, p) a.t2b = get? (tm.name, p) b.t2b)
    (h5 : a.brokers = b.brokers) : topicMirror a tm = topicMirror b tm := by
  have hk : hasKey tm.name a.topicParts = hasKey tm.name b.topicParts := by rw [← get?_isSome, ← get?_isSome, h2]
  simp only [topicMirror, leaderMirror, h1, h2, h3, h4, h5, hk]

theorem get?_singleton_ne {κ ν : Type} [BEq κ] [LawfulBEq κ] {k k' : κ} (v : ν) (h : k' ≠ k) : get? k [(k', v)] = none := by
  have : (k' == k) = false := by simpa using h
  simp [get?, this]

/-- merging one topic does not touch what `topicMirror` reads of any other topic -/
theorem mergeTopic_frame {c : Cache} (h : CWf c) (tm : TopicMeta) (t : String) (hne : t ≠ tm.name) :
    get? t (mergeTopic c tm).topicErrs = get? t c.topicErrs ∧
    get? t (mergeTopic c tm).topicParts = get? t c.topicParts ∧
    t2bOf (mergeTopic c tm) t = t2bOf c t ∧
    (∀ p, get? (t, p) (mergeTopic c tm).t2b = get? (t, p) c.t2b) := by
  obtain ⟨_, _, _, herr, hparts, ht2b⟩ := mergeTopic_nf h tm
  have hne' : tm.name ≠ t := fun hh => hne hh.symm
  refine ⟨?_, ?_, ?_, ?_⟩
  · rw [herr, get?_append, get?_erase_ne hne', get?_singleton_ne _ hne']
    cases get? t c.topicErrs <;> rfl
  · rw [hparts, get?_append, get?_erase_ne hne']
    cases get? t c.topicParts with
    | some v => rfl
    | none =>
      show get? t (if (respParts tm).isEmpty then [] else [(tm.name, sortInts ((respParts tm).map (·.1)))]) = none
      by_cases hem : (respParts tm).isEmpty
      · simp [hem, get?]
      · simp only [hem, Bool.false_eq_true, if_false]; exact get?_singleton_ne _ hne'
  · simp only [t2bOf, ht2b, List.filter_append, List.filter_filter]
    have h1 : (c.t2b.filter fun e => (e.1.1 == t) && !(e.1.1 == tm.name)) = c.t2b.filter fun e => e.1.1 == t := by
      apply List.filter_congr
      intro e _
      by_cases he : e.1.1 == t
      · have : e.1.1 = t := by simpa using he
        have h2 : (e.1.1 == tm.name) = false := by rw [this]; simpa using hne
        simp [he, h2]
      · simp [he]
    have h2 : ((respParts tm).map fun e => ((tm.name, e.1), leaderVal c e.2)).filter (fun e => e.1.1 == t) = [] := by
      apply List.filter_eq_nil_iff.mpr
      intro e he
      obtain ⟨pe, _, rfl⟩ := List.mem_map.mp he
      simpa using hne'
    rw [h1, h2, List.append_nil]
  · intro p
    rw [ht2b, get?_append]
    rw [get?_filter_of_key]
    · cases get? (t, p) c.t2b with
      | some v => rfl
      | none =>
        simp only
        rw [get?_eq_none_iff, Bool.eq_false_iff]
        intro hh
        obtain ⟨v, hv⟩ := hasKey_iff.mp hh
        obtain ⟨pe, _, hpe⟩ := List.mem_map.mp hv
        exact hne' (Prod.mk.inj (Prod.mk.inj hpe).1).1
    · intro e he
      have : e.1.1 = t := by rw [he]
      simp [this, hne]

/-- the loop body establishes the mirror of its own topic -/
theorem mergeTopic_mirror {c : Cache} (h : CWf c) (hk : BrokersKeyed c) (tm : TopicMeta) :
    topicMirror (mergeTopic c tm) tm = true := by
  obtain ⟨hb, _, _, herr, hparts, ht2b⟩ := mergeTopic_nf h tm
  have hkeyed := dictOfList_keyed (fun p : PartMeta => p.part) tm.parts
  have hpn : ((respParts tm).map (·.1)).Nodup := dictOfList_nodup _
  have herr' : get? tm.name (mergeTopic c tm).topicErrs = some tm.err := by
    rw [herr, get?_append, get?_erase_self]; simp [get?]
  have hfilt : ∀ p, get? (tm.name, p) (c.t2b.filter fun e => !(e.1.1 == tm.name)) = none := by
    intro p
    rw [get?_eq_none_iff, Bool.eq_false_iff]
    intro hh
    obtain ⟨v, hv⟩ := hasKey_iff.mp hh
    simp at hv
  have ht2bOf : t2bOf (mergeTopic c tm) tm.name = (respParts tm).map (fun e => ((tm.name, e.1), leaderVal c e.2)) := by
    simp only [t2bOf, ht2b, List.filter_append, List.filter_filter]
    have h1 : (c.t2b.filter fun e => (e.1.1 == tm.name) && !(e.1.1 == tm.name)) = [] := by
      apply List.filter_eq_nil_iff.mpr; intro e _; simp
    rw [h1, List.nil_append]
    apply List.filter_eq_self.mpr
    intro e he
    obtain ⟨pe, _, rfl⟩ := List.mem_map.mp he
    simp
  simp only [topicMirror, herr', beq_self_eq_true, Bool.true_and]
  split
  · rename_i hemp
    have hp : respParts tm = [] := by simpa using hemp
    simp only [Bool.and_eq_true, Bool.not_eq_eq_eq_not, Bool.not_true, List.isEmpty_iff]
    refine ⟨?_, by rw [ht2bOf, hp]; rfl⟩
    rw [← get?_isSome, hparts, hp]
    simp [get?_erase_self]
  · rename_i hne
    have hp : (respParts tm).isEmpty = false := by simpa using hne
    simp only [Bool.and_eq_true, beq_iff_eq, List.all_eq_true]
    refine ⟨⟨?_, ?_⟩, ?_⟩
    · rw [hparts, get?_append, get?_erase_self]; simp [hp, get?]
    · intro e he
      have hke : e.1 = e.2.part := hkeyed e he
      have hget : get? (tm.name, e.2.part) (mergeTopic c tm).t2b = some (leaderVal c e.2) := by
        rw [ht2b, get?_append, hfilt]
        simp only
        apply get?_of_mem
        · rw [List.map_map]; exact nodup_map_pair tm.name (fun e : Int × PartMeta => e.1) hpn
        · rw [← hke]; exact List.mem_map.mpr ⟨e, he, rfl⟩
      simp only [leaderMirror, hget, hb]
      unfold leaderVal
      by_cases hl : e.2.leader == -1
      · simp [hl]
      · simp only [hl, Bool.false_eq_true, if_false]
        cases hg : get? e.2.leader c.brokers with
        | none => simp [get?_eq_none_iff.mp hg]
        | some b =>
          have hmem := get?_mem hg
          have hid : b.nodeId = e.2.leader := hk _ hmem
          have hl' : ¬ e.2.leader = -1 := by simpa using hl
          simp [hid, hl']
    · intro e he
      rw [ht2bOf] at he
      obtain ⟨pe, hpe, rfl⟩ := List.mem_map.mp he
      exact hasKey_iff.mpr ⟨pe.2, hpe⟩

/-- merging one topic leaves every entry of every other topic where it was (list-level frame) -/
theorem mergeTopic_others {c : Cache} (h : CWf c) (tm : TopicMeta) (q : String → Bool) (hq : q tm.name = false) :
    (mergeTopic c tm).t2b.filter (fun e => q e.1.1) = c.t2b.filter (fun e => q e.1.1) ∧
    (mergeTopic c tm).topicParts.filter (fun e => q e.1) = c.topicParts.filter (fun e => q e.1) ∧
    (mergeTopic c tm).topicErrs.filter (fun e => q e.1) = c.topicErrs.filter (fun e => q e.1) := by
  obtain ⟨_, _, _, herr, hparts, ht2b⟩ := mergeTopic_nf h tm
  have hqe : ∀ s : String, q s = true → (s == tm.name) = false := by
    intro s hs
    rw [Bool.eq_false_iff]; intro hh
    have : s = tm.name := by simpa using hh
    rw [this, hq] at hs; cases hs
  refine ⟨?_, ?_, ?_⟩
  · rw [ht2b, List.filter_append, List.filter_filter]
    have h2 : ((respParts tm).map fun e => ((tm.name, e.1), leaderVal c e.2)).filter (fun e => q e.1.1) = [] := by
      apply List.filter_eq_nil_iff.mpr
      intro e he
      obtain ⟨pe, _, rfl⟩ := List.mem_map.mp he
      simp [hq]
    rw [h2, List.append_nil]
    apply List.filter_congr
    intro e _
    by_cases hs : q e.1.1
    · simp [hs, hqe _ hs]
    · simp [hs]
  · rw [hparts, List.filter_append]
    have h2 : (if (respParts tm).isEmpty then [] else [(tm.name, sortInts ((respParts tm).map (·.1)))]).filter (fun e => q e.1) = [] := by
      split <;> simp [hq]
    rw [h2, List.append_nil]
    simp only [erase, List.filter_filter]
    apply List.filter_congr
    intro e _
    by_cases hs : q e.1
    · simp [hs, hqe _ hs]
    · simp [hs]
  · rw [herr, List.filter_append]
    have h2 : [(tm.name, tm.err)].filter (fun e => q e.1) = [] := by simp [hq]
    rw [h2, List.append_nil]
    simp only [erase, List.filter_filter]
    apply List.filter_congr
    intro e _
    by_cases hs : q e.1
    · simp [hs, hqe _ hs]
    · simp [hs]

/-- the whole per-topic loop -/
def mergeAll (c : Cache) (tdict : List (String × TopicMeta)) : Cache := tdict.foldl (fun c e => mergeTopic c e.2) c

theorem mergeTopic_keyed {c : Cache} (h : CWf c) (hk : BrokersKeyed c) (tm : TopicMeta) : BrokersKeyed (mergeTopic c tm) := by
  obtain ⟨hb, _⟩ := mergeTopic_nf h tm
  intro e he; rw [hb] at he; exact hk e he

theorem mergeAll_spec : ∀ (tdict : List (String × TopicMeta)) (c : Cache), CWf c → BrokersKeyed c →
    (tdict.map (·.1)).Nodup → (∀ e ∈ tdict, e.1 = e.2.name) →
    CWf (mergeAll c tdict) ∧
    (mergeAll c tdict).brokers = c.brokers ∧ (mergeAll c tdict).clients = c.clients ∧ (mergeAll c tdict).groups = c.groups ∧
    (∀ e ∈ tdict, topicMirror (mergeAll c tdict) e.2 = true) ∧
    (∀ tm : TopicMeta, (∀ e ∈ tdict, e.1 ≠ tm.name) → topicMirror (mergeAll c tdict) tm = topicMirror c tm) ∧
    (∀ q : String → Bool, (∀ e ∈ tdict, q e.1 = false) →
      (mergeAll c tdict).t2b.filter (fun e => q e.1.1) = c.t2b.filter (fun e => q e.1.1) ∧
      (mergeAll c tdict).topicParts.filter (fun e => q e.1) = c.topicParts.filter (fun e => q e.1) ∧
      (mergeAll c tdict).topicErrs.filter (fun e => q e.1) = c.topicErrs.filter (fun e => q e.1))
  | [], c, h, _, _, _ => ⟨h, rfl, rfl, rfl, by simp, fun _ _ => rfl, fun _ _ => ⟨rfl, rfl, rfl⟩⟩
  | e :: rest, c, h, hk, hnd, hkey => by
    simp only [List.map_cons, List.nodup_cons] at hnd
    have hname : e.1 = e.2.name := hkey e (by simp)
    have hw := mergeTopic_wf h e.2
    have hk' := mergeTopic_keyed h hk e.2
    obtain ⟨nb, nc, ng, _, _, _⟩ := mergeTopic_nf h e.2
    obtain ⟨i1, i2, i3, i4, i5, i6, i7⟩ := mergeAll_spec rest (mergeTopic c e.2) hw hk' hnd.2 (fun e' he' => hkey e' (by simp [he']))
    have hstep : mergeAll c (e :: rest) = mergeAll (mergeTopic c e.2) rest := rfl
    rw [hstep]
    refine ⟨i1, i2.trans nb, i3.trans nc, i4.trans ng, ?_, ?_, ?_⟩
    · intro e' he'
      rcases List.mem_cons.mp he' with rfl | he'
      · rw [i6 e'.2 ?_]
        · exact mergeTopic_mirror h hk e'.2
        · intro e'' he'' heq
          exact hnd.1 (List.mem_map.mpr ⟨e'', he'', by rw [heq, ← hname]⟩)
      · exact i5 e' he'
    · intro tm hall
      rw [i6 tm (fun e' he' => hall e' (by simp [he']))]
      have hne : tm.name ≠ e.2.name := by
        have := hall e (by simp); rw [hname] at this; exact fun hh => this hh.symm
      obtain ⟨f1, f2, f3, f4⟩ := mergeTopic_frame h e.2 tm.name hne
      exact topicMirror_congr tm f1 f2 f3 f4 nb
    · intro q hq
      obtain ⟨a1, a2, a3⟩ := i7 q (fun e' he' => hq e' (by simp [he']))
      have hqe : q e.2.name = false := by rw [← hname]; exact hq e (by simp)
      obtain ⟨b1, b2, b3⟩ := mergeTopic_others h e.2 q hqe
      exact ⟨a1.trans b1, a2.trans b2, a3.trans b3⟩


/-! ### `_update_brokers` -/

theorem mem_foldl_upsert {κ ν : Type} [BEq κ] [LawfulBEq κ] : ∀ (es l : List (κ × ν)) (e : κ × ν),
    e ∈ es.foldl (fun d e => upsert e.1 e.2 d) l → e ∈ l ∨ e ∈ es
  | [], l, e, h => Or.inl h
  | x :: es, l, e, h => by
    simp only [List.foldl_cons] at h
    rcases mem_foldl_upsert es _ e h with h | h
    · unfold upsert at h
      split at h
      · obtain ⟨e0, he0, rfl⟩ := List.mem_map.mp h
        split
        · right; simp
        · left; exact he0
      · rcases List.mem_append.mp h with h | h
        · left; exact h
        · right; simp only [List.mem_singleton] at h; subst h; simp
    · right; exact List.mem_cons_of_mem _ h

theorem dictOfList_isEmpty {κ ν : Type} [BEq κ] [LawfulBEq κ] (l : List (κ × ν)) : (dictOfList l).isEmpty = l.isEmpty := by
  cases l with
  | nil => rfl
  | cons e l =>
    simp only [List.isEmpty_cons]
    rw [Bool.eq_false_iff]
    intro hh
    have hem : dictOfList (e :: l) = [] := by simpa using hh
    have : get? e.1 (dictOfList (e :: l)) ≠ none := by
      intro hn
      -- the first key is present after the fold
      have hk : hasKey e.1 (dictOfList (e :: l)) = true := by
        unfold dictOfList
        simp only [List.foldl_cons]
        have : ∀ (es d : List (κ × ν)), hasKey e.1 d = true → hasKey e.1 (es.foldl (fun d e => upsert e.1 e.2 d) d) = true := by
          intro es
          induction es with
          | nil => intro d h; exact h
          | cons x es ih => intro d h; exact ih _ (by rw [hasKey_upsert, h]; simp)
        apply this
        rw [hasKey_upsert]; simp
      rw [get?_eq_none_iff] at hn
      rw [hn] at hk; cases hk
    rw [hem] at this
    exact this rfl

/-- `updateMetadata` on the live broker clients -/
def retarget (byId : List (Int × Broker)) (cl : Int × Broker) : Int × Broker :=
  match get? cl.1 byId with | some b => (cl.1, b) | none => cl

theorem retarget_key (byId : List (Int × Broker)) (cl : Int × Broker) : (retarget byId cl).1 = cl.1 := by
  unfold retarget; split <;> rfl

theorem get?_retarget (byId : List (Int × Broker)) (k : Int) : ∀ (l : List (Int × Broker)),
    get? k (l.map (retarget byId)) = (match get? k l with
      | some v => some (match get? k byId with | some b => b | none => v)
      | none => none)
  | [] => rfl
  | cl :: l => by
    simp only [List.map_cons, get?, retarget_key]
    by_cases hk : cl.1 == k
    · have : cl.1 = k := by simpa using hk
      simp only [hk, if_true, retarget, this]
      cases get? k byId <;> simp
    · simp only [hk, Bool.false_eq_true, if_false]; exact get?_retarget byId k l

theorem updateBrokersDict_spec {c : Cache} (h : CWf c) (hk : BrokersKeyed c) (byId : List (Int × Broker))
    (hnd : (byId.map (·.1)).Nodup) (hkeyed : ∀ e ∈ byId, e.1 = e.2.nodeId) (remove : Bool) :
    let r := updateBrokersDict c byId remove
    CWf r.1 ∧ BrokersKeyed r.1 ∧
    r.1.t2b = c.t2b ∧ r.1.topicParts = c.topicParts ∧ r.1.topicErrs = c.topicErrs ∧ r.1.groups = c.groups ∧
    (∀ e ∈ byId, get? e.1 r.1.brokers = some e.2 ∧
      (match get? e.1 r.1.clients with | some a => a = e.2 | none => True)) ∧
    (if remove then
       r.2 = (c.clients.filter (fun cl => !hasKey cl.1 byId)).map (·.1) ∧
       r.1.clients.map (·.1) = (c.clients.filter (fun cl => hasKey cl.1 byId)).map (·.1)
     else r.2 = [] ∧ r.1.clients.map (·.1) = c.clients.map (·.1)) := by
  intro r
  have hbr : r.1.brokers = byId.foldl (fun d e => upsert e.1 e.2 d) c.brokers := by
    simp only [r, updateBrokersDict]; split <;> rfl
  have hcl : r.1.clients = if remove then (c.clients.map (retarget byId)).filter (fun cl => hasKey cl.1 byId)
      else c.clients.map (retarget byId) := by
    have hfun : (fun cl : Int × Broker => match get? cl.1 byId with | some b => (cl.1, b) | none => cl) = retarget byId := rfl
    simp only [r, updateBrokersDict]
    split
    · rename_i hr; simp only [hr, if_true]; rfl
    · rename_i hr; simp only [hr, Bool.false_eq_true, if_false]; rfl
  have hrest : r.1.t2b = c.t2b ∧ r.1.topicParts = c.topicParts ∧ r.1.topicErrs = c.topicErrs ∧ r.1.groups = c.groups := by
    simp only [r, updateBrokersDict]; split <;> exact ⟨rfl, rfl, rfl, rfl⟩
  obtain ⟨r1, r2, r3, r4⟩ := hrest
  refine ⟨?_, ?_, r1, r2, r3, r4, ?_, ?_⟩
  · exact { t2bKeys := r1 ▸ h.t2bKeys, partsKeys := r2 ▸ h.partsKeys, errsKeys := r3 ▸ h.errsKeys,
            brokersKeys := hbr ▸ foldl_upsert_nodup byId c.brokers h.brokersKeys, groupsKeys := r4 ▸ h.groupsKeys,
            listed := by rw [r1, r2]; exact h.listed }
  · intro e he
    rw [hbr] at he
    rcases mem_foldl_upsert byId c.brokers e he with he | he
    · exact hk e he
    · exact (hkeyed e he).symm
  · intro e he
    constructor
    · rw [hbr, get?_foldl_upsert e.1 byId c.brokers hnd, get?_of_mem hnd he]
    · have hge : get? e.1 byId = some e.2 := get?_of_mem hnd he
      have hke : hasKey e.1 byId = true := by rw [← get?_isSome, hge]; rfl
      rw [hcl]
      cases remove with
      | true =>
        simp only [if_true]
        rw [get?_filter_of_key e.1 _ (fun x hx => by rw [hx]; exact hke), get?_retarget, hge]
        cases get? e.1 c.clients <;> simp
      | false =>
        simp only [Bool.false_eq_true, if_false]
        rw [get?_retarget, hge]
        cases get? e.1 c.clients <;> simp
  · have hmapfilter : ∀ (p : Int → Bool), ((c.clients.map (retarget byId)).filter (fun cl => p cl.1)).map (·.1)
        = (c.clients.filter (fun cl => p cl.1)).map (·.1) := by
      intro p
      induction c.clients with
      | nil => rfl
      | cons cl l ih =>
        simp only [List.map_cons, List.filter_cons, retarget_key]
        by_cases hp : p cl.1 <;> simp [hp, ih, retarget_key]
    cases remove with
    | true =>
      simp only [if_true]
      constructor
      · simp only [r, updateBrokersDict, if_true]
        exact hmapfilter (fun n => !hasKey n byId)
      · rw [hcl]; simp only [if_true]; exact hmapfilter (fun n => hasKey n byId)
    | false =>
      simp only [Bool.false_eq_true, if_false]
      constructor
      · simp [r, updateBrokersDict]
      · rw [hcl]; simp only [Bool.false_eq_true, if_false, List.map_map]
        apply List.map_congr_left; intro cl _; exact retarget_key byId cl

/-- C08, first sentence: the cache after `_merge_topic_metadata` satisfies the monitor that is run on the
    real client's dictionaries -/
theorem mergeTopicMetadata_mirror {c : Cache} (h : CWf c) (hk : BrokersKeyed c) (bs : List Broker)
    (ts : List TopicMeta) (fetchedAll : Bool) :
    let r := mergeTopicMetadata c bs ts fetchedAll
    mirrorOk c r.1 bs ts fetchedAll r.2 = true ∧ CWf r.1 ∧ BrokersKeyed r.1 := by
  intro r
  have hnd : ((respBrokers bs).map (·.1)).Nodup := dictOfList_nodup _
  have hkeyed : ∀ e ∈ respBrokers bs, e.1 = e.2.nodeId := dictOfList_keyed (fun b : Broker => b.nodeId) bs
  have hemp : (respBrokers bs).isEmpty = bs.isEmpty := by
    simp only [respBrokers]; rw [dictOfList_isEmpty]; cases bs <;> rfl
  obtain ⟨u1, u2, u3, u4, u5, u6, u7, u8⟩ := updateBrokersDict_spec h hk (respBrokers bs) hnd hkeyed (fetchedAll && !(respBrokers bs).isEmpty)
  have htn : ((respTopics ts).map (·.1)).Nodup := dictOfList_nodup _
  have htk : ∀ e ∈ respTopics ts, e.1 = e.2.name := dictOfList_keyed (fun t : TopicMeta => t.name) ts
  obtain ⟨m1, m2, m3, m4, m5, _, m7⟩ := mergeAll_spec (respTopics ts) _ u1 u2 htn htk
  have hr1 : r.1 = mergeAll (updateBrokersDict c (respBrokers bs) (fetchedAll && !(respBrokers bs).isEmpty)).1 (respTopics ts) := rfl
  have hr2 : r.2 = (updateBrokersDict c (respBrokers bs) (fetchedAll && !(respBrokers bs).isEmpty)).2 := rfl
  refine ⟨?_, hr1 ▸ m1, ?_⟩
  · simp only [mirrorOk, Bool.and_eq_true]
    refine ⟨⟨⟨?_, ?_⟩, ?_⟩, ?_⟩
    · simp only [brokersMirror, List.all_eq_true, Bool.and_eq_true, beq_iff_eq]
      intro e he
      obtain ⟨g1, g2⟩ := u7 e he
      rw [hr1, m2, m3]
      refine ⟨g1, ?_⟩
      cases hg : get? e.1 (updateBrokersDict c (respBrokers bs) (fetchedAll && !(respBrokers bs).isEmpty)).1.clients with
      | none => rfl
      | some a => rw [hg] at g2; simp [g2]
    · rw [hr1]; exact List.all_eq_true.mpr (fun e he => m5 e he)
    · have hq : ∀ e ∈ respTopics ts, (!hasKey e.1 (respTopics ts)) = false := by
        intro e he; simp [hasKey_iff.mpr ⟨e.2, he⟩]
      obtain ⟨a1, a2, a3⟩ := m7 (fun t => !hasKey t (respTopics ts)) hq
      simp only [othersUntouched, Bool.and_eq_true, beq_iff_eq]
      rw [hr1]
      exact ⟨⟨⟨by rw [a1, u3], by rw [a2, u4]⟩, by rw [a3, u5]⟩, by rw [m4, u6]⟩
    · simp only [closesMissing]
      rw [← hemp]
      cases hrm : (fetchedAll && !(respBrokers bs).isEmpty) with
      | true =>
        rw [hrm] at u8
        simp only [if_true] at u8 ⊢
        obtain ⟨c1, c2⟩ := u8
        simp only [Bool.and_eq_true, beq_iff_eq]
        rw [hr2, hr1, m3, hrm]
        exact ⟨by rw [c1], c2⟩
      | false =>
        rw [hrm] at u8
        simp only [Bool.false_eq_true, if_false] at u8 ⊢
        obtain ⟨c1, c2⟩ := u8
        simp only [Bool.and_eq_true, beq_iff_eq, List.isEmpty_iff]
        rw [hr2, hr1, m3, hrm]
        exact ⟨c1, c2⟩
  · rw [hr1]
    intro e he
    rw [m2] at he
    exact u2 e he

end Afkak.ClientCache
