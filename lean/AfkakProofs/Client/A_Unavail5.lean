import AfkakProofs.Client.A_Unavail4
import AfkakProofs.Client.A_Recover
import AfkakProps.Open.C07
/-!
# `C07_unaware_unavailable_only_after_all`: the statement as given is false of the model (a broker client that fails a
request with something that is neither a Kafka error nor a cancellation ends the broker loop without the bootstrap
fall-back); the part that holds (`trace_unavailable`) restated over the Bool hypothesis `benignFires`.
-/
namespace Afkak.ClientNet
open Afkak.ClientCache

/-- every completion the environment delivers for a broker request is a reply, a Kafka error or a cancellation -/
def benignFires (evs : List (Env × Ev)) : Bool :=
  evs.all (fun e => match e.2 with | .fire _ r => r.benign | _ => true)

def noClose (evs : List (Env × Ev)) : Bool :=
  evs.all (fun e => match e.2 with | .close _ => false | _ => true)

theorem unavailable_only_after_all (cfg : Cfg) (evs : List (Env × Ev)) (o : Nat) (hc : noClose evs = true)
    (hb : benignFires evs = true) (hm : TItem.ob (.result o (.fail .unavailable)) ∈ traceOf cfg {} evs) :
    ∀ hp ∈ cfg.bootHosts, ∃ j, TItem.ob (.bootConnect j hp.1 hp.2) ∈ traceOf cfg {} evs := by
  intro hp hhp
  have h1 : ∀ e ∈ evs, ∀ o', e.2 ≠ .close o' := by
    intro e he o' heq
    have := List.all_eq_true.mp hc e he
    rw [heq] at this; cases this
  have h2 : ∀ e ∈ evs, ∀ k r, e.2 = .fire k r → r.benign = true := by
    intro e he k r heq
    have := List.all_eq_true.mp hb e he
    rw [heq] at this; exact this
  rcases trace_unavailable cfg evs {} [] (UInv.init cfg) h1 h2 o hm hp hhp with h | h
  · cases h
  · exact h

def TItem.isUnavResultOf (o : Nat) : TItem → Bool
  | .ob (.result o' (.fail .unavailable)) => o' == o
  | _ => false

theorem mem_unavResult_of_any {tr : List TItem} {o : Nat} (h : tr.any (TItem.isUnavResultOf o) = true) :
    TItem.ob (.result o (.fail .unavailable)) ∈ tr := by
  obtain ⟨it, hit, hp⟩ := List.any_eq_true.mp h
  unfold TItem.isUnavResultOf at hp
  split at hp
  · simp only [beq_iff_eq] at hp
    subst hp
    exact hit
  · cases hp

def TItem.isBootConnectTo (hp : String × Int) : TItem → Bool
  | .ob (.bootConnect _ h p) => h == hp.1 && p == hp.2
  | _ => false

theorem no_bootConnect_of_all {tr : List TItem} {hp : String × Int} (h : tr.all (fun it => !it.isBootConnectTo hp) = true) :
    ¬ ∃ j, TItem.ob (.bootConnect j hp.1 hp.2) ∈ tr := by
  rintro ⟨j, hj⟩
  have := List.all_eq_true.mp h _ hj
  simp [TItem.isBootConnectTo] at this

namespace UnavailWitness
def cfg : Cfg := { timeout := 10, disconnectOnTimeout := false, bootHosts := [("a", 1), ("b", 2)] }
/-- bootstrap through host a (host b is never needed), learn broker 1; a second metadata load is tried on broker 1,
    whose broker client fails the request with a connection-lost error -/
def evs : List (Env × Ev) :=
  [({ shuffles := [[], [0, 1]] }, .load 0 []), ({}, .bootOk 0),
   ({}, .bootReply 0 (.metadata [⟨1, "h1", 9092⟩] [])),
   ({ shuffles := [[0]] }, .load 1 []),
   ({}, .fire 0 (.err .connLost))]
end UnavailWitness

end Afkak.ClientNet
