import Afkak.ClientNet
/-! Lemmas about the client state machine `Afkak.ClientNet` (C11, C20). -/
namespace Afkak.ClientNet
open Afkak.ClientCache

/-- observations that open a connection, create a broker client or hand a request to a broker -/
def Ob.connects : Ob → Bool
  | .mk .. | .bcNew .. | .bootConnect .. | .bootWrite .. => true
  | _ => false

@[simp] theorem setReq_closing (st : St) k f : (setReq st k f).closing = st.closing := rfl
@[simp] theorem setUnaware_closing (st : St) u f : (setUnaware st u f).closing = st.closing := rfl
@[simp] theorem setSend_closing (st : St) s f : (setSend st s f).closing = st.closing := rfl
@[simp] theorem setSrtc_closing (st : St) r f : (setSrtc st r f).closing = st.closing := rfl
@[simp] theorem cancelTimer_closing (st : St) w : (cancelTimer st w).closing = st.closing := rfl
@[simp] theorem suppressWaiter_closing (st : St) w : (suppressWaiter st w).closing = st.closing := rfl

theorem getBrokerClient_closing {st : St} (h : st.closing = true) (n : Int) :
    getBrokerClient st n = .error .clientClosed := by simp [getBrokerClient, h]

theorem issueTo_closing {st : St} (h : st.closing = true) (cfg : Cfg) (n : Int) (o : ReqOwner) (e : Bool) (w : ReqWhat)
    (m : Option Rat) (rj : Bool) :
    issueTo cfg st n o e w m rj = .error { st := st, obs := [], kind := .clientClosed } := by
  simp [issueTo, getBrokerClient_closing h]

theorem issueTo_ok {cfg : Cfg} {st : St} {n : Int} {o : ReqOwner} {e : Bool} {w : ReqWhat} {m : Option Rat} {rj : Bool} {i : IssueOk}
    (h : issueTo cfg st n o e w m rj = .ok i) :
    ∃ st1 b obs1, getBrokerClient st n = .ok (st1, b, obs1) ∧ i.st = (makeRequest cfg st1 b o e w m).1 ∧
      i.k = (makeRequest cfg st1 b o e w m).2.1 ∧ i.obs = obs1 ++ (makeRequest cfg st1 b o e w m).2.2.1 ∧
      i.acts = (makeRequest cfg st1 b o e w m).2.2.2 := by
  unfold issueTo at h
  split at h
  · cases h
  · rename_i st1 b obs1 hg
    split at h
    · cases h
    · simp only [Except.ok.injEq] at h
      subst h
      exact ⟨st1, b, obs1, hg, rfl, rfl, rfl, rfl⟩

theorem issueTo_err {cfg : Cfg} {st : St} {n : Int} {o : ReqOwner} {e : Bool} {w : ReqWhat} {m : Option Rat} {rj : Bool} {er : IssueErr}
    (h : issueTo cfg st n o e w m rj = .error er) :
    (er.st = st ∧ er.obs = []) ∨ (∃ b, getBrokerClient st n = .ok (er.st, b, er.obs)) := by
  unfold issueTo at h
  split at h
  · simp only [Except.error.injEq] at h; subst h; exact Or.inl ⟨rfl, rfl⟩
  · rename_i st1 b obs1 hg
    split at h
    · simp only [Except.error.injEq] at h; subst h; exact Or.inr ⟨b, hg⟩
    · cases h

theorem shuffle_closing {α} {st st' : St} {xs ys : List α} (h : shuffle st xs = some (st', ys)) :
    st'.closing = st.closing := by
  unfold shuffle at h
  split at h
  · cases h
  · simp only [Option.map_eq_some_iff] at h
    obtain ⟨_, _, heq⟩ := h
    cases heq; rfl

theorem reqDone_closing (st : St) (o : ReqOwner) (k : Nat) (r : Res) : (reqDone st o k r).1.closing = st.closing := by
  unfold reqDone
  split
  · split <;> (try split) <;> rfl
  · rfl
  · rfl

theorem cloadJoin_closing (st : St) (w : Waiter) (g : String) : (cloadJoin st w g).1.closing = st.closing := by
  unfold cloadJoin; split <;> rfl

theorem applyUpdate_closing (st : St) (c' : Cache) (cn : List Int) (bs : List Broker) :
    (applyUpdate st c' cn bs).1.closing = st.closing := rfl

theorem applyUpdate_obs (st : St) (c' : Cache) (cn : List Int) (bs : List Broker) :
    ∀ o ∈ (applyUpdate st c' cn bs).2.1, o.connects = false := by
  intro o ho
  simp only [applyUpdate, List.mem_flatMap] at ho
  obtain ⟨e, _, he⟩ := ho
  split at he
  · simp only [List.mem_singleton] at he; subst he; rfl
  · cases he


theorem applyUpdate_pair {st : St} {c' : Cache} {cn : List Int} {bs : List Broker} {st1 : St} {obs : List Ob} {acts : List Act}
    (he : applyUpdate st c' cn bs = (st1, obs, acts)) : st1.closing = st.closing ∧ ∀ o ∈ obs, o.connects = false := by
  have h1 := applyUpdate_closing st c' cn bs
  have h2 := applyUpdate_obs st c' cn bs
  rw [he] at h1 h2
  exact ⟨h1, h2⟩

theorem cancelUnaware_obs (x : Unaware) : ∀ o ∈ (cancelUnaware x).1, o.connects = false := by
  intro o ho
  unfold cancelUnaware at ho
  split at ho <;> simp at ho
  subst ho; rfl

/-- once the client is closing no action connects, creates a broker client or issues a request, and
    the client stays closing -/
theorem exec_closing (cfg : Cfg) (st : St) (a : Act) (h : st.closing = true) :
    (exec cfg st a).1.closing = true ∧ ∀ o ∈ (exec cfg st a).2.1, o.connects = false := by
  have hg := fun n => getBrokerClient_closing h n
  cases a
  case cancelU u =>
    simp only [exec]
    split
    · exact ⟨h, by simp [Ob.connects]⟩
    · exact ⟨h, cancelUnaware_obs _⟩
  case unawareDone u r =>
    simp only [exec]
    split <;> try dsimp only
    · exact ⟨h, by simp [Ob.connects]⟩
    · split
      all_goals (split <;> try dsimp only)
      all_goals (first
        | (refine ⟨?_, fun o ho => applyUpdate_obs _ _ _ _ o ho⟩; simp [applyUpdate_closing, h]; done)
        | exact ⟨h, by simp [Ob.connects]⟩)
  all_goals simp only [exec, hg, h, issueTo_closing h]
  all_goals (repeat' split)
  all_goals (try dsimp only)
  all_goals (first
    | exact ⟨h, by simp [Ob.connects]⟩
    | (rename_i hs; exact ⟨(shuffle_closing hs).trans h, by simp [Ob.connects]⟩)
    | (refine ⟨?_, fun o ho => applyUpdate_obs _ _ _ _ o ho⟩; simp [applyUpdate_closing, h]; done)
    | (simp_all [Ob.connects, reqDone_closing, cloadJoin_closing]; done))

theorem runActs_closing (cfg : Cfg) : ∀ (fuel : Nat) (st : St) (acts : List Act) (obs : List Ob),
    st.closing = true → (∀ o ∈ obs, o.connects = false) →
    (runActs cfg fuel st acts obs).1.closing = true ∧ ∀ o ∈ (runActs cfg fuel st acts obs).2, o.connects = false
  | 0, st, acts, obs, h, ho => by
    simp only [runActs]
    exact ⟨h, fun o hm => by
      rcases List.mem_append.mp hm with hm | hm
      · exact ho o hm
      · simp only [List.mem_singleton] at hm; subst hm; rfl⟩
  | fuel+1, st, [], obs, h, ho => by simp only [runActs]; exact ⟨h, ho⟩
  | fuel+1, st, a :: rest, obs, h, ho => by
    simp only [runActs]
    obtain ⟨h1, h2⟩ := exec_closing cfg st a h
    apply runActs_closing cfg fuel _ _ _ h1
    intro o hm
    rcases List.mem_append.mp hm with hm | hm
    · exact ho o hm
    · exact h2 o hm

theorem fireDue_closing (cfg : Cfg) : ∀ (n : Nat) (st : St) (obs : List Ob),
    st.closing = true → (∀ o ∈ obs, o.connects = false) →
    (fireDue cfg n st obs).1.closing = true ∧ ∀ o ∈ (fireDue cfg n st obs).2, o.connects = false
  | 0, st, obs, h, ho => by
    simp only [fireDue]
    exact ⟨h, fun o hm => by
      rcases List.mem_append.mp hm with hm | hm
      · exact ho o hm
      · simp only [List.mem_singleton] at hm; subst hm; rfl⟩
  | n+1, st, obs, h, ho => by
    simp only [fireDue]
    split
    · exact ⟨h, ho⟩
    · split
      · exact ⟨h, ho⟩
      · rename_i t rest _ _
        have hr := runActs_closing cfg fuel { st with timers := rest }
          [timerAct t.what] obs h ho
        exact fireDue_closing cfg n _ _ hr.1 hr.2

/-- no broker-unaware request is waiting for a bootstrap connection to be established -/
def NoBootConn (st : St) : Prop := ∀ x ∈ st.unawares, ∀ j rest, x.st ≠ .bootConn j rest

theorem cancelOp_closing (st : St) (o : Nat) :
    (cancelOp st o).1.closing = st.closing ∧ ∀ ob ∈ (cancelOp st o).2.1, ob.connects = false := by
  unfold cancelOp
  repeat' split
  all_goals (try dsimp only)
  all_goals (refine ⟨?_, ?_⟩)
  all_goals (first
    | rfl
    | (intro ob hob; exact cancelUnaware_obs _ ob hob)
    | (simp [Ob.connects]; done)
    | (simp_all [Ob.connects]; done))

/-- C20: after `close()` no step connects, creates a broker client, writes a bootstrap request or hands a
    request to a broker client — whatever the event — and the client stays closed. -/
theorem step_closing (cfg : Cfg) (st : St) (env : Env) (e : Ev) (h : st.closing = true) (hb : NoBootConn st) :
    (step cfg st env e).1.closing = true ∧ ∀ o ∈ (step cfg st env e).2, o.connects = false := by
  have nil : ∀ o ∈ ([] : List Ob), o.connects = false := by simp
  cases e
  case bootOk j =>
    simp only [step]
    split
    · exact ⟨h, by simp [Ob.connects]⟩
    · rename_i x hx
      exfalso
      have hm := List.mem_of_mem_head? hx
      obtain ⟨hxu, hp⟩ := List.mem_filter.mp hm
      split at hp
      · rename_i j' rest hst; exact hb x hxu j' rest hst
      · cases hp
  case cancel o =>
    simp only [step]
    have hc := cancelOp_closing { st with env := env } o
    exact runActs_closing cfg fuel _ _ _ (hc.1.trans h) hc.2
  case advance dt =>
    simp only [step]
    split
    · exact ⟨h, by simp [Ob.connects]⟩
    · exact fireDue_closing cfg _ _ _ h nil
  case close o =>
    simp only [step, h, if_true]
    split
    · exact runActs_closing cfg fuel _ _ _ rfl nil
    · exact ⟨rfl, by simp [Ob.connects]⟩
  case conn b v => simp only [step]; exact ⟨h, nil⟩
  case resetTopics ts => simp only [step]; exact ⟨h, nil⟩
  case cload o g =>
    simp only [step]
    exact runActs_closing cfg fuel _ _ _ ((cloadJoin_closing _ _ _).trans h) nil
  case srtc o g m =>
    simp only [step]
    split
    · exact runActs_closing cfg fuel _ _ _ h nil
    · exact runActs_closing cfg fuel _ _ _ ((cloadJoin_closing _ _ _).trans h) nil
  case bootFail j =>
    simp only [step]
    split
    · exact ⟨h, by simp [Ob.connects]⟩
    · exact runActs_closing cfg fuel _ _ _ h nil
  case send o keys group foe expect =>
    simp only [step]
    split
    · exact runActs_closing cfg fuel _ _ _ h nil
    · split <;> exact runActs_closing cfg fuel _ _ _ h nil
  all_goals (simp only [step]; exact runActs_closing cfg fuel _ _ _ h nil)

/-! ### C11: the timeout wrapper -/

theorem mem_insertTimer {t x : Timer} : ∀ {l : List Timer}, x ∈ insertTimer t l ↔ x = t ∨ x ∈ l
  | [] => by simp [insertTimer]
  | y :: l => by
    unfold insertTimer
    split
    · simp
    · simp only [List.mem_cons, mem_insertTimer (l := l)]
      constructor
      · rintro (h | h | h) <;> simp [h]
      · rintro (h | h | h) <;> simp [h]

/-- the bound a request is armed with: `max(self.timeout, min_timeout)` -/
def boundOf (cfg : Cfg) (m : Option Rat) : Rat :=
  match m with
  | some x => if cfg.timeout < x then x else cfg.timeout
  | none => cfg.timeout

theorem makeRequest_spec (cfg : Cfg) (st : St) (b : Nat) (owner : ReqOwner) (expect : Bool) (what : ReqWhat) (m : Option Rat) :
    let r := makeRequest cfg st b owner expect what m
    r.2.1 = st.reqs.length ∧
    r.1.reqs = st.reqs ++ [{ k := st.reqs.length, b := b, issued := st.now, due := st.now + boundOf cfg m,
                             pending := !syncFire st b expect, grp := grpOf what, owner := owner }] ∧
    r.1.timers = (if syncFire st b expect then st.timers
                  else insertTimer { what := .mrtb st.reqs.length, due := st.now + boundOf cfg m } st.timers) ∧
    Ob.setTimer (.mrtb st.reqs.length) (st.now + boundOf cfg m) ∈ r.2.2.1 ∧ r.1.now = st.now := by
  intro r
  refine ⟨rfl, ?_, ?_, ?_, rfl⟩
  · cases m <;> rfl
  · cases m <;> rfl
  · cases m <;> simp [r, makeRequest, boundOf]

/-- a completion of a request that is already resolved (timed out, cancelled) changes nothing -/
theorem step_late_reply (cfg : Cfg) (st : St) (env : Env) (k : Nat) (r : Res) (q : Req)
    (hq : reqGet st k = some q) (hp : q.pending = false) :
    step cfg st env (.fire k r) = ({ st with env := env }, [.late k]) := by
  have hq' : reqGet { st with env := env } k = some q := hq
  simp [step, fuel, runActs, exec, hq', hp]

/-! ### once closing, no bootstrap connection attempt is ever awaited again -/

theorem NoBootConn_setUnaware {st : St} (h : NoBootConn st) (u : Nat) (f : Unaware → Unaware)
    (hf : ∀ y j rest, (f y).st ≠ .bootConn j rest) : NoBootConn (setUnaware st u f) := by
  intro x hx j rest
  simp only [setUnaware, List.mem_map] at hx
  obtain ⟨y, hy, rfl⟩ := hx
  split
  · exact hf y j rest
  · exact h y hy j rest

theorem NoBootConn_of_unawares {st st' : St} (h : NoBootConn st) (he : st'.unawares = st.unawares) : NoBootConn st' := by
  intro x hx; rw [he] at hx; exact h x hx

theorem NoBootConn_append {st st' : St} (h : NoBootConn st) (x : Unaware) (hx : x.st = .done)
    (he : st'.unawares = st.unawares ++ [x]) : NoBootConn st' := by
  intro y hy j rest
  rw [he] at hy
  rcases List.mem_append.mp hy with hy | hy
  · exact h y hy j rest
  · simp only [List.mem_singleton] at hy; subst hy; rw [hx]; exact fun hh => by cases hh

theorem shuffle_unawares {α} {st st' : St} {xs ys : List α} (h : shuffle st xs = some (st', ys)) :
    st'.unawares = st.unawares := by
  unfold shuffle at h
  split at h
  · cases h
  · simp only [Option.map_eq_some_iff] at h
    obtain ⟨_, _, heq⟩ := h
    cases heq; rfl

theorem reqDone_unawares (st : St) (o : ReqOwner) (k : Nat) (r : Res) : (reqDone st o k r).1.unawares = st.unawares := by
  unfold reqDone
  split
  · split <;> (try split) <;> rfl
  · rfl
  · rfl

theorem cloadJoin_nbc {st : St} (h : NoBootConn st) (w : Waiter) (g : String) : NoBootConn (cloadJoin st w g).1 := by
  unfold cloadJoin
  split
  · exact NoBootConn_of_unawares h rfl
  · exact NoBootConn_append h _ rfl rfl

theorem exec_closing_nbc (cfg : Cfg) (st : St) (a : Act) (h : st.closing = true) (hb : NoBootConn st) :
    NoBootConn (exec cfg st a).1 := by
  have hg := fun n => getBrokerClient_closing h n
  cases a
  all_goals simp only [exec, hg, h, issueTo_closing h]
  all_goals (repeat' split)
  all_goals (try dsimp only)
  all_goals (first
    | exact hb
    | exact NoBootConn_of_unawares hb rfl
    | (rename_i hs; exact NoBootConn_of_unawares hb (shuffle_unawares hs))
    | exact NoBootConn_of_unawares hb (reqDone_unawares _ _ _ _)
    | exact cloadJoin_nbc hb _ _
    | (exact absurd trivial (by assumption))
    | (apply NoBootConn_setUnaware hb; intro y j rest hh; cases hh; done)
    | exact NoBootConn_append hb _ rfl rfl
    | (exact NoBootConn_of_unawares (NoBootConn_setUnaware hb _ _ (fun y j rest hh => by cases hh)) rfl)
    | (simp_all; done))

theorem runActs_closing_nbc (cfg : Cfg) : ∀ (fuel : Nat) (st : St) (acts : List Act) (obs : List Ob),
    st.closing = true → NoBootConn st → NoBootConn (runActs cfg fuel st acts obs).1
  | 0, st, acts, obs, _, hb => by simp only [runActs]; exact hb
  | fuel+1, st, [], obs, _, hb => by simp only [runActs]; exact hb
  | fuel+1, st, a :: rest, obs, h, hb => by
    simp only [runActs]
    exact runActs_closing_nbc cfg fuel _ _ _ (exec_closing cfg st a h).1 (exec_closing_nbc cfg st a h hb)

theorem runActs_closing_state (cfg : Cfg) : ∀ (fuel : Nat) (st : St) (acts : List Act) (obs : List Ob),
    st.closing = true → (runActs cfg fuel st acts obs).1.closing = true
  | 0, st, acts, obs, h => by simp only [runActs]; exact h
  | fuel+1, st, [], obs, h => by simp only [runActs]; exact h
  | fuel+1, st, a :: rest, obs, h => by
    simp only [runActs]
    exact runActs_closing_state cfg fuel _ _ _ (exec_closing cfg st a h).1

theorem fireDue_closing_nbc (cfg : Cfg) : ∀ (n : Nat) (st : St) (obs : List Ob),
    st.closing = true → NoBootConn st → NoBootConn (fireDue cfg n st obs).1
  | 0, st, obs, _, hb => by simp only [fireDue]; exact hb
  | n+1, st, obs, h, hb => by
    simp only [fireDue]
    split
    · exact hb
    · split
      · exact hb
      · rename_i t rest _ _
        have hb' : NoBootConn ({ st with timers := rest } : St) := hb
        have h' : ({ st with timers := rest } : St).closing = true := h
        exact fireDue_closing_nbc cfg n _ _ (runActs_closing_state cfg fuel _ _ _ h') (runActs_closing_nbc cfg fuel _ _ _ h' hb')

/-- C20: a closed client in which no bootstrap connection attempt is awaited stays that way -/
theorem step_closing_nbc (cfg : Cfg) (st : St) (env : Env) (e : Ev) (h : st.closing = true) (hb : NoBootConn st) :
    NoBootConn (step cfg st env e).1 := by
  have hb' : NoBootConn ({ st with env := env } : St) := hb
  have h' : ({ st with env := env } : St).closing = true := h
  cases e
  case bootOk j =>
    simp only [step]
    split
    · exact hb
    · dsimp only
      refine NoBootConn_of_unawares (NoBootConn_setUnaware hb' _ _ (fun y j rest hh => by cases hh)) rfl
  case cancel o =>
    simp only [step]
    have hc := cancelOp_closing { st with env := env } o
    apply runActs_closing_nbc cfg fuel _ _ _ (hc.1.trans h)
    unfold cancelOp
    repeat' split
    all_goals (try dsimp only)
    all_goals (first
      | exact hb'
      | exact NoBootConn_of_unawares hb' rfl)
  case advance dt =>
    simp only [step]
    split
    · exact hb
    · exact fireDue_closing_nbc cfg _ _ _ h hb
  case close o =>
    simp only [step, h, if_true]
    split
    · exact runActs_closing_nbc cfg fuel _ _ _ rfl hb'
    · exact hb
  case conn b v => simp only [step]; exact hb
  case resetTopics ts => simp only [step]; exact hb
  case load o topics =>
    simp only [step]
    exact runActs_closing_nbc cfg fuel _ _ _ h (NoBootConn_append hb' _ rfl rfl)
  case cload o g =>
    simp only [step]
    have h2 : NoBootConn ({ st with env := env, liveOps := st.liveOps ++ [o] } : St) := hb
    exact runActs_closing_nbc cfg fuel _ _ _ ((cloadJoin_closing _ _ _).trans h) (cloadJoin_nbc h2 _ _)
  case srtc o g m =>
    simp only [step]
    split
    · exact runActs_closing_nbc cfg fuel _ _ _ h (NoBootConn_of_unawares hb' rfl)
    · have h2 : NoBootConn ({ st with env := env, liveOps := st.liveOps ++ [o], srtcs := st.srtcs ++ [{ r := st.srtcs.length, o := o, g := g, minTimeout := m, phase := .resolving }] } : St) := hb
      exact runActs_closing_nbc cfg fuel _ _ _ ((cloadJoin_closing _ _ _).trans h) (cloadJoin_nbc h2 _ _)
  case bootFail j =>
    simp only [step]
    split
    · exact hb
    · exact runActs_closing_nbc cfg fuel _ _ _ h hb'
  case send o keys group foe expect =>
    simp only [step]
    split
    · exact runActs_closing_nbc cfg fuel _ _ _ h (NoBootConn_of_unawares hb' rfl)
    · split <;> exact runActs_closing_nbc cfg fuel _ _ _ h (NoBootConn_of_unawares hb' rfl)
  case ltp o topics =>
    simp only [step]
    exact runActs_closing_nbc cfg fuel _ _ _ h (NoBootConn_of_unawares hb' rfl)
  all_goals (simp only [step]; exact runActs_closing_nbc cfg fuel _ _ _ h hb')

/-- C20, trace level: after a closed state without awaited bootstrap connections, no event sequence
    whatsoever makes the client connect, create a broker client, write a bootstrap request or issue a
    request to a broker client. -/
theorem closed_forever (cfg : Cfg) : ∀ (evs : List (Env × Ev)) (st : St), st.closing = true → NoBootConn st →
    ∀ (pre : List (Env × Ev)) (e : Env × Ev) (post : List (Env × Ev)), evs = pre ++ e :: post →
      ∀ o ∈ (step cfg (pre.foldl (fun s x => (step cfg s x.1 x.2).1) st) e.1 e.2).2, o.connects = false := by
  intro evs st h hb pre
  induction pre generalizing st evs with
  | nil =>
    intro e post _ o ho
    exact (step_closing cfg st e.1 e.2 h hb).2 o ho
  | cons x pre ih =>
    intro e post _ o ho
    simp only [List.foldl_cons] at ho
    exact ih (pre ++ e :: post) _ (step_closing cfg st x.1 x.2 h hb).1 (step_closing_nbc cfg st x.1 x.2 h hb) e post rfl o ho

/-! ### bootstrap connections at close (the known finding about the close Deferred) -/

/-- no broker-unaware request has a bootstrap connection open (request in flight on it) -/
def NoBootReq (st : St) : Prop := ∀ x ∈ st.unawares, ∀ j rest, x.st ≠ .bootReq j rest

def Ob.isBootLose : Ob → Bool
  | .bootLose _ => true
  | _ => false

theorem NoBootReq_setUnaware {st : St} (h : NoBootReq st) (u : Nat) (f : Unaware → Unaware)
    (hf : ∀ y j rest, (f y).st ≠ .bootReq j rest) : NoBootReq (setUnaware st u f) := by
  intro x hx j rest
  simp only [setUnaware, List.mem_map] at hx
  obtain ⟨y, hy, rfl⟩ := hx
  split
  · exact hf y j rest
  · exact h y hy j rest

theorem NoBootReq_of_unawares {st st' : St} (h : NoBootReq st) (he : st'.unawares = st.unawares) : NoBootReq st' := by
  intro x hx; rw [he] at hx; exact h x hx

theorem NoBootReq_append {st st' : St} (h : NoBootReq st) (x : Unaware) (hx : x.st = .done)
    (he : st'.unawares = st.unawares ++ [x]) : NoBootReq st' := by
  intro y hy j rest
  rw [he] at hy
  rcases List.mem_append.mp hy with hy | hy
  · exact h y hy j rest
  · simp only [List.mem_singleton] at hy; subst hy; rw [hx]; exact fun hh => by cases hh

theorem cloadJoin_nbr {st : St} (h : NoBootReq st) (w : Waiter) (g : String) : NoBootReq (cloadJoin st w g).1 := by
  unfold cloadJoin
  split
  · exact NoBootReq_of_unawares h rfl
  · exact NoBootReq_append h _ rfl rfl

theorem applyUpdate_noLose (st : St) (c' : Cache) (cn : List Int) (bs : List Broker) :
    ∀ o ∈ (applyUpdate st c' cn bs).2.1, o.isBootLose = false := by
  intro o ho
  simp only [applyUpdate, List.mem_flatMap] at ho
  obtain ⟨e, _, he⟩ := ho
  split at he
  · simp only [List.mem_singleton] at he; subst he; rfl
  · cases he

theorem cancelUnaware_noLose (x : Unaware) : ∀ o ∈ (cancelUnaware x).1, o.isBootLose = false := by
  intro o ho
  unfold cancelUnaware at ho
  split at ho <;> simp at ho
  subst ho; rfl

/-- while closing, with no bootstrap connection open, no action opens one or tells one to close -/
theorem exec_closing_nbr (cfg : Cfg) (st : St) (a : Act) (h : st.closing = true) (hb : NoBootReq st) :
    NoBootReq (exec cfg st a).1 ∧ ∀ o ∈ (exec cfg st a).2.1, o.isBootLose = false := by
  have hg := fun n => getBrokerClient_closing h n
  cases a
  case bootResult j r =>
    simp only [exec]
    split
    · exact ⟨hb, by simp [Ob.isBootLose]⟩
    · rename_i x hx
      exfalso
      have hm := List.mem_of_mem_head? hx
      obtain ⟨hxu, hp⟩ := List.mem_filter.mp hm
      split at hp
      · rename_i j' rest hst; exact hb x hxu j' rest hst
      · cases hp
  case cancelU u =>
    simp only [exec]
    split
    · exact ⟨hb, by simp [Ob.isBootLose]⟩
    · exact ⟨hb, cancelUnaware_noLose _⟩
  case unawareDone u r =>
    have hset : NoBootReq (setUnaware st u fun y => { y with st := .done }) :=
      NoBootReq_setUnaware hb _ _ (fun y j rest hh => by cases hh)
    simp only [exec]
    split <;> try dsimp only
    · exact ⟨hb, by simp [Ob.isBootLose]⟩
    · split
      all_goals (split <;> try dsimp only)
      all_goals (first
        | exact ⟨NoBootReq_of_unawares hset rfl, fun o ho => applyUpdate_noLose _ _ _ _ o ho⟩
        | exact ⟨NoBootReq_of_unawares hset rfl, by simp [Ob.isBootLose]⟩
        | exact ⟨hset, by simp [Ob.isBootLose]⟩)
  all_goals simp only [exec, hg, h, issueTo_closing h]
  all_goals (repeat' split)
  all_goals (try dsimp only)
  all_goals (refine ⟨?_, ?_⟩)
  all_goals (first
    | exact hb
    | exact NoBootReq_of_unawares hb rfl
    | (rename_i hs; exact NoBootReq_of_unawares hb (shuffle_unawares hs))
    | exact NoBootReq_of_unawares hb (reqDone_unawares _ _ _ _)
    | exact cloadJoin_nbr hb _ _
    | (exact absurd trivial (by assumption))
    | (apply NoBootReq_setUnaware hb; intro y j rest hh; cases hh; done)
    | exact NoBootReq_append hb _ rfl rfl
    | (exact NoBootReq_of_unawares (NoBootReq_setUnaware hb _ _ (fun y j rest hh => by cases hh)) rfl)
    | (simp [Ob.isBootLose]; done)
    | (simp_all [Ob.isBootLose]; done))

theorem runActs_closing_nbr (cfg : Cfg) : ∀ (fuel : Nat) (st : St) (acts : List Act) (obs : List Ob),
    st.closing = true → NoBootReq st → (∀ o ∈ obs, o.isBootLose = false) →
    ∀ o ∈ (runActs cfg fuel st acts obs).2, o.isBootLose = false
  | 0, st, acts, obs, _, _, ho => by
    simp only [runActs]
    intro o hm
    rcases List.mem_append.mp hm with hm | hm
    · exact ho o hm
    · simp only [List.mem_singleton] at hm; subst hm; rfl
  | fuel+1, st, [], obs, _, _, ho => by simp only [runActs]; exact ho
  | fuel+1, st, a :: rest, obs, h, hb, ho => by
    simp only [runActs]
    obtain ⟨h1, h2⟩ := exec_closing_nbr cfg st a h hb
    apply runActs_closing_nbr cfg fuel _ _ _ (exec_closing cfg st a h).1 h1
    intro o hm
    rcases List.mem_append.mp hm with hm | hm
    · exact ho o hm
    · exact h2 o hm

end Afkak.ClientNet
