import Afkak.ClientQuery
import Afkak.Monitor.C08
import AfkakProofs.Client.Dict
import AfkakProofs.Client.Cache
import AfkakProofs.Client.Merge
/-!
# The cache query methods answer what the last metadata response said (lemmas for `C08_query_*`)
-/
namespace Afkak.ClientQuery
open Afkak.ClientCache Afkak.Monitor.C08 Afkak.Consts

theorem hasKey_of_get? {κ ν : Type} [BEq κ] [LawfulBEq κ] {k : κ} {v : ν} {l : List (κ × ν)} (h : get? k l = some v) : hasKey k l = true := by
  rw [← get?_isSome, h]; rfl

/-- filtering a dict by a predicate on KEYS does not change the look-up of a key that passes -/
theorem get?_filter_keep {κ ν : Type} [BEq κ] [LawfulBEq κ] (p : κ → Bool) (k : κ) (hk : p k = true) :
    ∀ (l : List (κ × ν)), get? k (l.filter (fun e => p e.1)) = get? k l
  | [] => rfl
  | (k', v) :: l => by
    by_cases hkk : k' = k
    · subst hkk
      simp [hk, get?]
    · by_cases hp : p k' = true
      · simp [hp, get?, hkk, get?_filter_keep p k hk l]
      · simp [hp, get?, hkk, get?_filter_keep p k hk l]

theorem hasKey_filter_keep {κ ν : Type} [BEq κ] [LawfulBEq κ] (p : κ → Bool) (k : κ) (hk : p k = true) (l : List (κ × ν)) :
    hasKey k (l.filter (fun e => p e.1)) = hasKey k l := by
  rw [← get?_isSome, ← get?_isSome, get?_filter_keep p k hk]

/-- a covered topic: the queries answer the response's error code and whether it listed any partition -/
theorem query_of_topicMirror {after : Cache} {tm : TopicMeta} (h : topicMirror after tm = true) :
    metadataErrorForTopic after tm.name = tm.err ∧
    hasMetadataForTopic after tm.name = !(respParts tm).isEmpty := by
  simp only [topicMirror, Bool.and_eq_true, beq_iff_eq] at h
  obtain ⟨herr, hparts⟩ := h
  refine ⟨by simp [metadataErrorForTopic, herr], ?_⟩
  by_cases he : (respParts tm).isEmpty = true
  · simp only [he, if_true, Bool.and_eq_true, Bool.not_eq_eq_eq_not, Bool.not_true] at hparts
    simp [hasMetadataForTopic, hparts.1, he]
  · simp only [he, Bool.false_eq_true, if_false, Bool.and_eq_true, beq_iff_eq] at hparts
    simp only [Bool.not_eq_true] at he
    simp [hasMetadataForTopic, hasKey_of_get? hparts.1.1, he]

/-- a topic the response does not cover: both queries answer what they answered before -/
theorem query_of_untouched {before after : Cache} {ts : List TopicMeta} (h : othersUntouched before after ts = true)
    (t : String) (ht : hasKey t (respTopics ts) = false) :
    metadataErrorForTopic after t = metadataErrorForTopic before t ∧
    hasMetadataForTopic after t = hasMetadataForTopic before t ∧
    consumerGroupToBrokers after = consumerGroupToBrokers before := by
  simp only [othersUntouched, Bool.and_eq_true, beq_iff_eq] at h
  obtain ⟨⟨⟨_, hp⟩, he⟩, hg⟩ := h
  have hk : (fun t => !hasKey t (respTopics ts)) t = true := by simp [ht]
  refine ⟨?_, ?_, hg⟩
  · have := congrArg (get? t) he
    rw [get?_filter_keep (fun t => !hasKey t (respTopics ts)) t hk, get?_filter_keep (fun t => !hasKey t (respTopics ts)) t hk] at this
    simp [metadataErrorForTopic, this]
  · have := congrArg (hasKey t) hp
    rw [hasKey_filter_keep (fun t => !hasKey t (respTopics ts)) t hk, hasKey_filter_keep (fun t => !hasKey t (respTopics ts)) t hk] at this
    simpa [hasMetadataForTopic] using this

/-- an invalidated topic: "no metadata", and the error code of an unknown topic -/
theorem query_of_invalid {c : Cache} {t : String} (h : topicInvalid c t = true) :
    hasMetadataForTopic c t = false ∧ metadataErrorForTopic c t = clientMetadataErrorDefault := by
  simp only [topicInvalid, Bool.and_eq_true, Bool.not_eq_eq_eq_not, Bool.not_true] at h
  refine ⟨h.1.1, ?_⟩
  have : get? t c.topicErrs = none := get?_eq_none_iff.mpr h.2
  simp [metadataErrorForTopic, this]

theorem get?_answers (c : Cache) (t : String) : ∀ (topics : List String), t ∈ topics →
    get? t (answers c topics) = some (hasMetadataForTopic c t, metadataErrorForTopic c t)
  | [], h => by cases h
  | t' :: rest, h => by
    by_cases htt : t' = t
    · subst htt; simp [answers, get?]
    · have : t ∈ rest := by
        rcases List.mem_cons.mp h with h | h
        · exact absurd h.symm htt
        · exact h
      have ih := get?_answers c t rest this
      simp only [answers] at ih
      simp [answers, get?, htt, ih]

/-- the monitor holds of the answers computed from any cache in which every covered topic mirrors the response -/
theorem queryMirror_of_topicMirror {after : Cache} {ts : List TopicMeta}
    (h : (respTopics ts).all (fun e => topicMirror after e.2) = true) :
    queryMirror ts (answers after ((respTopics ts).map (·.1))) = true := by
  have htk : ∀ e ∈ respTopics ts, e.1 = e.2.name := dictOfList_keyed (fun t : TopicMeta => t.name) ts
  simp only [queryMirror, List.all_eq_true, beq_iff_eq]
  intro e he
  have hq := query_of_topicMirror (List.all_eq_true.mp h e he)
  rw [get?_answers after e.1 _ (List.mem_map.mpr ⟨e, he, rfl⟩), htk e he, hq.1, hq.2]

end Afkak.ClientQuery
