import Afkak.ClientNet
import AfkakProofs.Client.Net
import AfkakProofs.Client.B_CloseAll
/-!
# The `_send_request_to_coordinator` and `_load_topic_partitions` instances are numbered by position (C20)

No action of the interpreter adds an instance or changes an instance's number (`exec_tids`); the `srtc` / `ltp` events
append one with the next number.  So in every reachable state `x.r < srtcs.length` and `x.l < ltps.length`
(`reachable_tids`): the fresh-id side conditions of the "fails at once after close" theorems.
-/
namespace Afkak.ClientNet
open Afkak.ClientCache Afkak.Consts

def rids (st : St) : List Nat := st.srtcs.map (·.r)
def lids (st : St) : List Nat := st.ltps.map (·.l)

/-- both tables of numbers are unchanged -/
def SameT (st st' : St) : Prop := rids st' = rids st ∧ lids st' = lids st

theorem SameT.of_eq {st st' : St} (h1 : st'.srtcs = st.srtcs) (h2 : st'.ltps = st.ltps) : SameT st st' :=
  ⟨by simp [rids, h1], by simp [lids, h2]⟩

theorem SameT.trans {a b c : St} (h1 : SameT a b) (h2 : SameT b c) : SameT a c :=
  ⟨h2.1.trans h1.1, h2.2.trans h1.2⟩

theorem sameT_setSrtc (st : St) (r : Nat) (f : Srtc → Srtc) (hf : ∀ y, (f y).r = y.r) : SameT st (setSrtc st r f) := by
  refine ⟨?_, rfl⟩
  simp only [rids, setSrtc, List.map_map]
  apply List.map_congr_left
  intro y _
  simp only [Function.comp]
  split
  · exact hf y
  · rfl

theorem sameT_ltps (st st' : St) (l : Nat) (f : Ltp → Ltp) (hf : ∀ y, (f y).l = y.l) (h1 : st'.srtcs = st.srtcs)
    (h2 : st'.ltps = st.ltps.map (fun y => if y.l == l then f y else y)) : SameT st st' := by
  refine ⟨by simp [rids, h1], ?_⟩
  simp only [lids, h2, List.map_map]
  apply List.map_congr_left
  intro y _
  simp only [Function.comp]
  split
  · exact hf y
  · rfl

theorem sameT_ltpsmap (st st' : St) (g : Ltp → Ltp) (hg : ∀ y, (g y).l = y.l) (h1 : st'.srtcs = st.srtcs)
    (h2 : st'.ltps = st.ltps.map g) : SameT st st' := by
  refine ⟨by simp [rids, h1], ?_⟩
  simp only [lids, h2, List.map_map]
  apply List.map_congr_left
  intro y _
  exact hg y

theorem shuffle_sameT {α} {st st' : St} {xs ys : List α} (h : shuffle st xs = some (st', ys)) : SameT st st' := by
  unfold shuffle at h
  split at h
  · cases h
  · simp only [Option.map_eq_some_iff] at h
    obtain ⟨_, _, heq⟩ := h
    cases heq; exact SameT.of_eq rfl rfl

theorem reqDone_sameT (st : St) (o : ReqOwner) (k : Nat) (r : Res) : SameT st (reqDone st o k r).1 := by
  unfold reqDone
  split
  · split <;> (try split) <;> exact SameT.of_eq rfl rfl
  · exact SameT.of_eq rfl rfl
  · exact SameT.of_eq rfl rfl

theorem cloadJoin_sameT (st : St) (w : Waiter) (g : String) : SameT st (cloadJoin st w g).1 := by
  unfold cloadJoin; split <;> exact SameT.of_eq rfl rfl

theorem getBrokerClient_sameT {st st1 : St} {n : Int} {b : Nat} {obs : List Ob}
    (hg : getBrokerClient st n = .ok (st1, b, obs)) : SameT st st1 := by
  unfold getBrokerClient at hg
  split at hg
  · cases hg
  · split at hg
    · cases hg; exact SameT.of_eq rfl rfl
    · split at hg
      · cases hg
      · cases hg; exact SameT.of_eq rfl rfl

theorem issueTo_ok_sameT {cfg : Cfg} {st : St} {n : Int} {o : ReqOwner} {e : Bool} {w : ReqWhat} {m : Option Rat}
    {rj : Bool} {i : IssueOk} (hi : issueTo cfg st n o e w m rj = .ok i) : SameT st i.st := by
  obtain ⟨st1, b, obs1, hg, hst, _, _, _⟩ := issueTo_ok hi
  rw [hst]
  exact (getBrokerClient_sameT hg).trans (SameT.of_eq rfl rfl)

theorem issueTo_err_sameT {cfg : Cfg} {st : St} {n : Int} {o : ReqOwner} {e : Bool} {w : ReqWhat} {m : Option Rat}
    {rj : Bool} {er : IssueErr} (he : issueTo cfg st n o e w m rj = .error er) : SameT st er.st := by
  rcases issueTo_err he with ⟨h1, _⟩ | ⟨b, hg⟩
  · rw [h1]; exact SameT.of_eq rfl rfl
  · exact getBrokerClient_sameT hg

theorem exec_tids (cfg : Cfg) (st : St) (a : Act) : SameT st (exec cfg st a).1 := by
  cases a
  case unawareDone u r =>
    simp only [exec, updateBrokers]
    repeat' split
    all_goals (try dsimp only)
    all_goals exact SameT.of_eq rfl rfl
  all_goals simp only [exec]
  all_goals (repeat' split)
  all_goals (try dsimp only)
  all_goals (first
    | exact SameT.of_eq rfl rfl
    | (rename_i hs; exact shuffle_sameT hs)
    | exact reqDone_sameT _ _ _ _
    | exact (reqDone_sameT _ _ _ _).trans (SameT.of_eq rfl rfl)
    | exact (SameT.of_eq rfl rfl).trans (reqDone_sameT _ _ _ _)
    | exact cloadJoin_sameT _ _ _
    | exact issueTo_err_sameT (by assumption)
    | exact (issueTo_ok_sameT (by assumption)).trans (SameT.of_eq rfl rfl)
    | exact sameT_setSrtc _ _ _ (fun _ => rfl)
    | exact (issueTo_ok_sameT (by assumption)).trans (sameT_setSrtc _ _ _ (fun _ => rfl))
    | exact sameT_ltpsmap _ _ _ (fun y => by split <;> rfl) rfl rfl)

theorem runActs_tids (cfg : Cfg) : ∀ (fuel : Nat) (st : St) (acts : List Act) (obs : List Ob),
    SameT st (runActs cfg fuel st acts obs).1
  | 0, _, _, _ => by simp only [runActs]; exact SameT.of_eq rfl rfl
  | _+1, _, [], _ => by simp only [runActs]; exact SameT.of_eq rfl rfl
  | fuel+1, st, a :: rest, obs => by
    simp only [runActs]
    exact (exec_tids cfg st a).trans (runActs_tids cfg fuel _ _ _)

theorem fireDue_tids (cfg : Cfg) : ∀ (n : Nat) (st : St) (obs : List Ob), SameT st (fireDue cfg n st obs).1
  | 0, _, _ => by simp only [fireDue]; exact SameT.of_eq rfl rfl
  | n+1, st, obs => by
    simp only [fireDue]
    split
    · exact SameT.of_eq rfl rfl
    · split
      · exact SameT.of_eq rfl rfl
      · rename_i t rest _ _
        exact ((SameT.of_eq (st := st) (st' := { st with timers := rest }) rfl rfl).trans (runActs_tids cfg fuel _ _ _)).trans
          (fireDue_tids cfg n _ _)

theorem cancelOp_sameT (st : St) (o : Nat) : SameT st (cancelOp st o).1 := by
  unfold cancelOp
  repeat' split
  all_goals exact SameT.of_eq rfl rfl

/-- the numbers are the positions -/
structure TIds (st : St) : Prop where
  srtcs : rids st = List.range st.srtcs.length
  ltps : lids st = List.range st.ltps.length

theorem TIds.init : TIds ({} : St) := ⟨rfl, rfl⟩

theorem TIds.same {st st' : St} (h : TIds st) (hs : SameT st st') : TIds st' := by
  have h1 : st'.srtcs.length = st.srtcs.length := by
    have := congrArg List.length hs.1; simpa [rids] using this
  have h2 : st'.ltps.length = st.ltps.length := by
    have := congrArg List.length hs.2; simpa [lids] using this
  exact ⟨by rw [hs.1, h1]; exact h.srtcs, by rw [hs.2, h2]; exact h.ltps⟩

theorem step_tids (cfg : Cfg) (st : St) (env : Env) (e : Ev) (h : TIds st) : TIds (step cfg st env e).1 := by
  cases e
  case srtc o g m =>
    simp only [step]
    have h1 : TIds ({ st with env := env, liveOps := st.liveOps ++ [o], srtcs := st.srtcs ++ [{ r := st.srtcs.length, o := o, g := g, minTimeout := m, phase := .resolving }] } : St) :=
      ⟨by simp [rids, List.range_succ]; exact h.srtcs, h.ltps⟩
    split
    · exact h1.same (runActs_tids cfg fuel _ _ _)
    · exact h1.same ((cloadJoin_sameT _ _ _).trans (runActs_tids cfg fuel _ _ _))
  case ltp o topics =>
    simp only [step]
    have h1 : TIds ({ st with env := env, liveOps := st.liveOps ++ [o], ltps := st.ltps ++ [{ l := st.ltps.length, o := o, topics := topics, phase := .sleeping }] } : St) :=
      ⟨h.srtcs, by simp [lids, List.range_succ]; exact h.ltps⟩
    exact h1.same (runActs_tids cfg fuel _ _ _)
  case cancel o =>
    simp only [step]
    exact h.same (((SameT.of_eq (st := st) (st' := { st with env := env }) rfl rfl).trans (cancelOp_sameT _ o)).trans (runActs_tids cfg fuel _ _ _))
  case advance dt =>
    simp only [step]
    split
    · exact h.same (SameT.of_eq rfl rfl)
    · exact h.same ((SameT.of_eq (st := st) (st' := { st with env := env, now := st.now + dt }) rfl rfl).trans (fireDue_tids cfg _ _ _))
  case close o =>
    cases hc : st.closing
    · rw [step_close_open cfg st env o hc]
      exact h.same ((SameT.of_eq (st := st) rfl rfl).trans (runActs_tids cfg fuel _ _ _))
    · rw [step_close_closing cfg st env o hc]
      split
      · exact h.same ((SameT.of_eq (st := st) (st' := { st with env := env }) rfl rfl).trans (runActs_tids cfg fuel _ _ _))
      · exact h.same (SameT.of_eq rfl rfl)
  case cload o g =>
    simp only [step]
    exact h.same (((SameT.of_eq (st := st) (st' := { st with env := env, liveOps := st.liveOps ++ [o] }) rfl rfl).trans (cloadJoin_sameT _ _ _)).trans (runActs_tids cfg fuel _ _ _))
  all_goals simp only [step]
  all_goals (repeat' split)
  all_goals (first
    | exact h.same (SameT.of_eq rfl rfl)
    | exact h.same ((SameT.of_eq (st := st) rfl rfl).trans (runActs_tids cfg fuel _ _ _)))

theorem reachable_tids (cfg : Cfg) : ∀ (evs : List (Env × Ev)) (st : St), TIds st →
    TIds (evs.foldl (fun s e => (step cfg s e.1 e.2).1) st)
  | [], _, h => h
  | e :: rest, st, h => by
    simp only [List.foldl_cons]
    exact reachable_tids cfg rest _ (step_tids cfg st e.1 e.2 h)

theorem TIds.srtc_lt {st : St} (h : TIds st) : ∀ x ∈ st.srtcs, x.r < st.srtcs.length := by
  intro x hx
  have hm : x.r ∈ rids st := List.mem_map.mpr ⟨x, hx, rfl⟩
  rw [h.srtcs] at hm
  simpa using hm

theorem TIds.ltp_lt {st : St} (h : TIds st) : ∀ x ∈ st.ltps, x.l < st.ltps.length := by
  intro x hx
  have hm : x.l ∈ lids st := List.mem_map.mpr ⟨x, hx, rfl⟩
  rw [h.ltps] at hm
  simpa using hm

end Afkak.ClientNet
