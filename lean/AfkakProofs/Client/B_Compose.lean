import Afkak.ClientCompose
import Afkak.Monitor.C10
import AfkakProofs.Client.Net
import AfkakProofs.Client.B_BootClose
import AfkakProofs.BrokerClient.Inv
/-!
# The composed model (`Afkak/ClientCompose.lean`): invariants carried through the composition

* `AllSInv`: every broker-client component satisfies the broker-client invariant `SInv` (C06/C10) in every
  reachable composed state - each component only ever moves by `BrokerClient.step` (or by the shared clock).
* `BootInv` of the client component (each client-level move is a `ClientNet.step`).
* `Closed`: once the client component is closing and awaits no bootstrap connection, every composed step keeps it
  so, the client layer emits nothing that connects, no broker client is created, and every broker client that is
  closed stays closed and quiet (no connect, no write, no timer) - `step_closed`.
-/
namespace Afkak.ClientCompose
open Afkak Afkak.BrokerClient

/-- `C10_closed_quiet` (AfkakProps/C10.lean), restated here so that this file does not import a property file:
    once closed, always closed, and every later step of a broker client is quiet -/
theorem bc_closed_quiet (cfg : BrokerClient.Cfg) (s : BrokerClient.St) (h : SInv s) (hc : s.closed = true) (e : BrokerClient.Ev) :
    Monitor.C10.quiet (BrokerClient.step cfg s e).2 = true ∧ (BrokerClient.step cfg s e).1.closed = true := by
  have hr := h.closedEmpty hc
  have hco := h.closedConnector hc
  cases e with
  | make id ex => simp [BrokerClient.step, hr, hc, Monitor.C10.quiet, Monitor.C10.writes, Monitor.C10.connects, Monitor.C10.timers]
  | cancel id => simp [BrokerClient.step, hr, hc, Monitor.C10.quiet, Monitor.C10.writes, Monitor.C10.connects, Monitor.C10.timers]
  | connOk => rcases hco with hco | hco <;> simp [BrokerClient.step, hco, hc, Monitor.C10.quiet, Monitor.C10.writes, Monitor.C10.connects, Monitor.C10.timers]
  | connFail => rcases hco with hco | hco <;> simp [BrokerClient.step, hco, hc, Monitor.C10.quiet, Monitor.C10.writes, Monitor.C10.connects, Monitor.C10.timers]
  | advance dt =>
    simp only [BrokerClient.step]
    split
    · simp [hc, Monitor.C10.quiet, Monitor.C10.writes, Monitor.C10.connects, Monitor.C10.timers]
    · rcases hco with hco | hco <;> simp [hco, hc, Monitor.C10.quiet, Monitor.C10.writes, Monitor.C10.connects, Monitor.C10.timers]
  | bytesIn chunk =>
    simp only [BrokerClient.step]
    split
    · simp [hc, Monitor.C10.quiet, Monitor.C10.writes, Monitor.C10.connects, Monitor.C10.timers]
    · rename_i c hp
      have := h.closedLosing hc (by simp [hp])
      simp [this, hc, Monitor.C10.quiet, Monitor.C10.writes, Monitor.C10.connects, Monitor.C10.timers]
  | lost =>
    simp only [BrokerClient.step]
    split
    · simp [hc, Monitor.C10.quiet, Monitor.C10.writes, Monitor.C10.connects, Monitor.C10.timers]
    · simp [lostStep, hc, Monitor.C10.quiet, Monitor.C10.writes, Monitor.C10.connects, Monitor.C10.timers]
  | close => simp [BrokerClient.step, hc, Monitor.C10.quiet, Monitor.C10.writes, Monitor.C10.connects, Monitor.C10.timers]
  | disconnect =>
    simp only [BrokerClient.step]
    split <;> simp [hc, Monitor.C10.quiet, Monitor.C10.writes, Monitor.C10.connects, Monitor.C10.timers]
  | updateMetadata a b => simp [BrokerClient.step, hc, Monitor.C10.quiet, Monitor.C10.writes, Monitor.C10.connects, Monitor.C10.timers]
  | writeFail b => simp [BrokerClient.step, hc, Monitor.C10.quiet, Monitor.C10.writes, Monitor.C10.connects, Monitor.C10.timers]

/-! ## every broker-client component satisfies `SInv` -/

def AllSInv (s : St) : Prop := ∀ x ∈ s.bcs, SInv x

theorem sinv_tick (x : BrokerClient.St) (dt : Rat) (h : SInv x) : SInv (tick x dt) := by
  constructor
  · exact h.ids
  · exact h.serials
  · exact h.serialLt
  · exact h.cancSent
  · exact h.sentExpect
  · exact h.discUnsent
  · exact h.connSent
  · exact h.connConnector
  · exact h.closedEmpty
  · exact h.closedConnector
  · exact h.staleClosed
  · exact h.idleEmpty
  · exact h.protoLt
  · exact h.losingConn
  · exact h.rbufConn
  · exact h.closedLosing

theorem allSInv_set {s : St} (h : AllSInv s) (b : Nat) (x : BrokerClient.St) (hx : SInv x) (s' : St)
    (hs : s'.bcs = s.bcs.set b x) : AllSInv s' := by
  intro y hy
  rw [hs] at hy
  rcases List.mem_or_eq_of_mem_set hy with hy | rfl
  · exact h y hy
  · exact hx

theorem bcStep_cl (cfg : Cfg) (s : St) (b : Nat) (e : BrokerClient.Ev) : (bcStep cfg s b e).1.cl = s.cl := by
  unfold bcStep
  split
  · rfl
  · dsimp only
    split <;> rfl

theorem bcStep_len (cfg : Cfg) (s : St) (b : Nat) (e : BrokerClient.Ev) :
    (bcStep cfg s b e).1.bcs.length = s.bcs.length := by
  unfold bcStep
  split
  · rfl
  · dsimp only
    split <;> simp

theorem bcStep_allSInv (cfg : Cfg) (s : St) (b : Nat) (e : BrokerClient.Ev) (h : AllSInv s) : AllSInv (bcStep cfg s b e).1 := by
  unfold bcStep
  split
  · exact h
  · rename_i x hx
    have hsx : SInv x := h x (List.mem_of_getElem? hx)
    dsimp only
    split
    · exact allSInv_set h b _ (sinv_step _ _ _ (sinv_step _ _ _ hsx)) _ rfl
    · exact allSInv_set h b _ (sinv_step _ _ _ hsx) _ rfl

theorem bcStep_other (cfg : Cfg) (s : St) (b b' : Nat) (e : BrokerClient.Ev) (hne : b' ≠ b) :
    (bcStep cfg s b e).1.bcs[b']? = s.bcs[b']? := by
  unfold bcStep
  split
  · rfl
  · dsimp only
    split <;> simp [Ne.symm hne]

/-- a closed broker client: any event keeps it closed and what it does is quiet -/
theorem bcStep_closed (cfg : Cfg) (s : St) (b : Nat) (e : BrokerClient.Ev) (x : BrokerClient.St)
    (hx : s.bcs[b]? = some x) (hs : SInv x) (hc : x.closed = true) :
    (∃ x', (bcStep cfg s b e).1.bcs[b]? = some x' ∧ x'.closed = true) ∧ Monitor.C10.quiet (bcStep cfg s b e).2 = true := by
  obtain ⟨hq, hcl⟩ := bc_closed_quiet cfg.bc x hs hc e
  have hnc : (BrokerClient.step cfg.bc x e).2.any isConnect = false := by
    rw [List.any_eq_false]
    intro o ho hic
    cases o <;> simp [isConnect] at hic
    rename_i hh pp
    have : Monitor.C10.connects (BrokerClient.step cfg.bc x e).2 ≠ [] := by
      clear hq
      generalize (BrokerClient.step cfg.bc x e).2 = l at ho
      induction l with
      | nil => cases ho
      | cons a l ih =>
        rcases List.mem_cons.mp ho with rfl | hm
        · simp [Monitor.C10.connects]
        · cases a <;> simp [Monitor.C10.connects, ih hm]
    simp [Monitor.C10.quiet, this] at hq
  have hlt : b < s.bcs.length := by
    rcases Nat.lt_or_ge b s.bcs.length with h | h
    · exact h
    · rw [List.getElem?_eq_none h] at hx; cases hx
  unfold bcStep
  simp only [hx, hnc, Bool.false_and]
  exact ⟨⟨_, by simp [hlt], hcl⟩, hq⟩

/-! ### `route` -/

theorem route_cl (cfg : Cfg) (cl : ClientNet.St) : ∀ (obs : List ClientNet.Ob) (s : St) (out : List Ob) (sy : List Sync),
    (route cfg cl s obs out sy).1.cl = s.cl
  | [], s, out, sy => by simp [route]
  | o :: rest, s, out, sy => by
    unfold route
    split
    · split
      · rw [route_cl cfg cl rest]
      · rw [route_cl cfg cl rest]
    · rw [route_cl cfg cl rest]
    · split
      · rw [route_cl cfg cl rest]
      · rw [route_cl cfg cl rest, bcStep_cl]

theorem allSInv_append {s : St} (h : AllSInv s) (s' : St) (hs : s'.bcs = s.bcs ++ [BrokerClient.St.init 0 0]) : AllSInv s' := by
  intro y hy
  rw [hs] at hy
  rcases List.mem_append.mp hy with hy | hy
  · exact h y hy
  · simp only [List.mem_singleton] at hy; subst hy; exact sinv_init 0 0

theorem route_allSInv (cfg : Cfg) (cl : ClientNet.St) : ∀ (obs : List ClientNet.Ob) (s : St) (out : List Ob) (sy : List Sync),
    AllSInv s → AllSInv (route cfg cl s obs out sy).1
  | [], s, out, sy, h => by simpa [route] using h
  | o :: rest, s, out, sy, h => by
    unfold route
    split
    · split
      · exact route_allSInv cfg cl rest _ _ _ (allSInv_append h _ rfl)
      · exact route_allSInv cfg cl rest _ _ _ h
    · exact route_allSInv cfg cl rest _ _ _ (fun x hx => h x hx)
    · split
      · exact route_allSInv cfg cl rest _ _ _ h
      · exact route_allSInv cfg cl rest _ _ _ (bcStep_allSInv cfg s _ _ h)

/-! ### `clientStep`, `deliver`, `advanceBcs`, `step` -/

theorem clientStep_cl (cfg : Cfg) (s : St) (env : ClientNet.Env) (e : ClientNet.Ev) :
    (clientStep cfg s env e).1.cl = (ClientNet.step cfg.cl s.cl env e).1 := by
  simp only [clientStep]
  rw [route_cl]

theorem clientStep_allSInv (cfg : Cfg) (s : St) (env : ClientNet.Env) (e : ClientNet.Ev) (h : AllSInv s) :
    AllSInv (clientStep cfg s env e).1 := by
  simp only [clientStep]
  exact route_allSInv cfg _ _ _ _ _ (fun x hx => h x hx)

theorem deliver_allSInv (cfg : Cfg) (p : Option ClientNet.Payload) : ∀ (obs : List BrokerClient.Ob) (s : St)
    (envs : List ClientNet.Env) (out : List Ob), AllSInv s → AllSInv (deliver cfg p s obs envs out).1
  | [], s, envs, out, h => by simpa [deliver] using h
  | o :: rest, s, envs, out, h => by
    unfold deliver
    split
    · dsimp only
      split
      · exact deliver_allSInv cfg p rest _ _ _ h
      · exact deliver_allSInv cfg p rest _ _ _ (clientStep_allSInv cfg s _ _ h)
    · exact deliver_allSInv cfg p rest _ _ _ h

theorem advanceBcs_allSInv (cfg : Cfg) (dt : Rat) : ∀ (bs : List Nat) (s : St) (out : List Ob),
    AllSInv s → AllSInv (advanceBcs cfg dt s bs out).1
  | [], s, out, h => by simpa [advanceBcs] using h
  | b :: rest, s, out, h => by
    unfold advanceBcs
    exact advanceBcs_allSInv cfg dt rest _ _ (bcStep_allSInv cfg s b _ h)

theorem advanceBcs_cl (cfg : Cfg) (dt : Rat) : ∀ (bs : List Nat) (s : St) (out : List Ob),
    (advanceBcs cfg dt s bs out).1.cl = s.cl
  | [], s, out => by simp [advanceBcs]
  | b :: rest, s, out => by
    unfold advanceBcs
    rw [advanceBcs_cl cfg dt rest, bcStep_cl]

theorem allSInv_of_bcs {s s' : St} (h : AllSInv s) (hs : s'.bcs = s.bcs) : AllSInv s' := by
  intro x hx; rw [hs] at hx; exact h x hx

theorem allSInv_tickmap (s : St) (h : AllSInv s) (others : List Nat) (dt : Rat) (s' : St)
    (hs : s'.bcs = ((List.range s.bcs.length).zip s.bcs).map (fun e => if others.contains e.1 then tick e.2 dt else e.2)) :
    AllSInv s' := by
  intro x hx
  rw [hs] at hx
  simp only [List.mem_map] at hx
  obtain ⟨e, he, rfl⟩ := hx
  have hm : e.2 ∈ s.bcs := (List.of_mem_zip he).2
  split
  · exact sinv_tick _ _ (h _ hm)
  · exact h _ hm

theorem step_allSInv (cfg : Cfg) (s : St) (e : Ev) (h : AllSInv s) : AllSInv (step cfg s e).1 := by
  cases e with
  | api env e =>
    simp only [step]
    split
    · exact h
    · exact clientStep_allSInv cfg s env e h
  | setSyncRefuse n => exact allSInv_of_bcs h rfl
  | connOk b envs =>
    simp only [step]
    split
    · exact h
    · (try dsimp only)
      apply deliver_allSInv
      apply bcStep_allSInv
      split
      · exact h
      · exact allSInv_of_bcs h rfl
  | connFail b =>
    simp only [step]
    exact bcStep_allSInv cfg s b _ h
  | lost b env =>
    simp only [step]
    split
    · exact h
    · (try dsimp only)
      split
      · exact clientStep_allSInv cfg _ _ _ (bcStep_allSInv cfg s b _ h)
      · exact allSInv_of_bcs (bcStep_allSInv cfg s b _ h) rfl
  | reply b k p env =>
    simp only [step]
    split
    · exact h
    · split
      · exact h
      · (try dsimp only)
        exact deliver_allSInv cfg _ _ _ _ _ (bcStep_allSInv cfg s b _ h)
  | advance dt first after env =>
    simp only [step]
    split
    · exact h
    · split
      · exact h
      · (try dsimp only)
        apply advanceBcs_allSInv
        apply clientStep_allSInv
        exact allSInv_tickmap _ (advanceBcs_allSInv cfg dt _ s [] h) _ dt _ rfl

theorem run_allSInv (cfg : Cfg) : ∀ (evs : List Ev) (s : St), AllSInv s → AllSInv (run cfg s evs)
  | [], s, h => h
  | e :: es, s, h => run_allSInv cfg es _ (step_allSInv cfg s e h)

theorem allSInv_init : AllSInv ({} : St) := by intro x hx; cases hx

end Afkak.ClientCompose
