import Afkak.ClientNet
import Afkak.ClientTrace
import AfkakProps.Open.C08
/-!
# `C08_recovers_within_retry_budget` is false as stated: a request that is not answered before the client's
request timeout fails (witness and the Bool predicates that make its hypotheses decidable)

The open statement lets the run contain clock steps.  A third send whose request is answered by nobody before
`cfg.timeout` elapses is timed out by the client (`_mrtb_timeout`): the caller gets `FailedPayloadsError`, the
request is no longer pending (so "every request is eventually answered", stated as "no request pending at the end",
holds vacuously) and no response list is delivered.  That is the designed behaviour of the code; the statement
needs the additional hypothesis that no request of the run times out.
-/
namespace Afkak.ClientNet
open Afkak.ClientCache Afkak.Props.C08.Open

def TItem.isBadOp : TItem → Bool
  | .ob (.badOp _) => true
  | _ => false

theorem noBadOp_of_all {tr : List TItem} (h : tr.all (fun it => !it.isBadOp) = true) :
    ∀ it ∈ tr, ∀ w, it ≠ TItem.ob (.badOp w) := by
  intro it hit w heq
  have := List.all_eq_true.mp h it hit
  subst heq
  simp [TItem.isBadOp] at this

def TItem.isResponsesOf (o : Nat) : TItem → Bool
  | .ob (.result o' (.responses _)) => o' == o
  | _ => false

theorem no_responses_of_all {tr : List TItem} {o : Nat} (h : tr.all (fun it => !it.isResponsesOf o) = true) :
    ¬ ∃ tags : List Int, TItem.ob (.result o (.responses tags)) ∈ tr := by
  rintro ⟨tags, hmem⟩
  have := List.all_eq_true.mp h _ hmem
  simp [TItem.isResponsesOf] at this

def TItem.mkAgrees (whatOf : Nat → Option ReqWhat) : TItem → Bool
  | .ob (.mk k _ _ w) => whatOf k == some w
  | _ => true

theorem mkAgrees_of_all {tr : List TItem} {whatOf : Nat → Option ReqWhat} (h : tr.all (TItem.mkAgrees whatOf) = true) :
    ∀ it ∈ tr, ∀ k b e w, it = TItem.ob (.mk k b e w) → whatOf k = some w := by
  intro it hit k b e w heq
  have := List.all_eq_true.mp h it hit
  subst heq
  simpa [TItem.mkAgrees] using this

/-- `ConsistentWith` as a Bool -/
def consistentB (L : Layout) (cfg : Cfg) (whatOf : Nat → Option ReqWhat) : St → List (Env × Ev) → Bool
  | _, [] => true
  | st, (env, e) :: rest =>
    (match e with
     | .fire k r => (match reqGet st k, whatOf k with
        | some q, some w => L.answer st q w == some r
        | _, _ => false)
     | .close _ | .cancel _ | .down _ | .bootLost _ | .bootFail _ => false
     | _ => true) && consistentB L cfg whatOf (step cfg st env e).1 rest

theorem consistentWith_of_B (L : Layout) (cfg : Cfg) (whatOf : Nat → Option ReqWhat) :
    ∀ (evs : List (Env × Ev)) (st : St), consistentB L cfg whatOf st evs = true → ConsistentWith L cfg whatOf st evs
  | [], _, _ => trivial
  | (env, e) :: rest, st, h => by
    simp only [consistentB, Bool.and_eq_true] at h
    refine ⟨?_, consistentWith_of_B L cfg whatOf rest _ h.2⟩
    have h1 := h.1
    cases e <;> simp only [Bool.false_eq_true] at h1 <;> try trivial
    case fire k r =>
      show (match reqGet st k, whatOf k with
        | some q, some w => L.answer st q w = some r
        | _, _ => False)
      split at h1
      · simpa using h1
      · cases h1

namespace RecoverWitness

def cfg : Cfg := { timeout := 10, disconnectOnTimeout := false, bootHosts := [("boot", 9092)] }
def L : Layout := { brokers := [⟨1, "h1", 9092⟩], topics := [⟨"t", 0, [⟨0, 0, 1⟩]⟩] }
def keys : List TP := [("t", 0)]
def whatOf : Nat → Option ReqWhat := fun _ => some (.payloads [0] [("t", 0)])
/-- the client bootstraps and learns the (already settled) layout -/
def past : List (Env × Ev) :=
  [({ shuffles := [[], [0]] }, .load 0 []), ({}, .bootOk 0),
   ({}, .bootReply 0 (.metadata [⟨1, "h1", 9092⟩] [⟨"t", 0, [⟨0, 0, 1⟩]⟩]))]
/-- two sends answered by the leader; the third is answered by nobody for 11 s (> the 10 s request timeout) -/
def evs : List (Env × Ev) :=
  [({}, .send 1 keys none true true), ({}, .fire 0 (.ok (.items [(("t", 0), 0, 0)]))),
   ({}, .send 2 keys none true true), ({}, .fire 1 (.ok (.items [(("t", 0), 0, 0)]))),
   ({}, .send 3 keys none true true), ({}, .advance 11)]
def st0 : St := past.foldl (fun s e => (step cfg s e.1 e.2).1) ({} : St)

end RecoverWitness
end Afkak.ClientNet
