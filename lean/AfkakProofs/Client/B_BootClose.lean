import Afkak.ClientNet
import AfkakProofs.Client.Net
import AfkakProofs.Client.B_BootInv
/-!
# `close()` aborts every bootstrap in progress (C20)

1. `BootInv` is preserved by every action and every event (`exec_bootInv`, `step_bootInv`, `run_bootInv`).
2. While the client is closing no action puts a broker-unaware request into a bootstrap state or changes the
   attempt it waits on (`exec_mono`), and the actions `cancelBoots`, `cancelU u`, `bootResult j _`,
   `bootNext u _`, `unawareDone u _` lead, one after the other, to instance `u` leaving its bootstrap state
   (`exec_hits`).
3. Hence, if the interpreter's fuel suffices, after the `close` step no instance is in a bootstrap state
   (`close_no_boot`).
-/
namespace Afkak.ClientNet
open Afkak.ClientCache

/-! ## 1. the invariant -/

theorem exec_bootInv (cfg : Cfg) (st : St) (a : Act) (h : BootInv st) : BootInv (exec cfg st a).1 := by
  cases a
  case bootNext u hosts =>
    simp only [exec]
    split
    · exact h
    · split
      · exact h
      · exact h.setU_fresh u _
  case unawareNext u nodes =>
    simp only [exec]
    split
    · exact h
    · split
      · split
        · exact h
        · rename_i hs; exact h.of_eq (shuffle_unawares hs) (shuffle_nBoot hs)
      · split
        · rename_i e he; exact h.of_eq (issueTo_err_unawares he).1 (issueTo_err_unawares he).2
        · rename_i i hi
          have hi' : BootInv i.st := h.of_eq (issueTo_ok_unawares hi).1 (issueTo_ok_unawares hi).2
          exact hi'.setU u _ (fun _ => rfl) (fun _ _ => Or.inl rfl)
  case unawareDone u r =>
    have hset : BootInv (setUnaware st u fun y => { y with st := .done }) :=
      h.setU u _ (fun _ => rfl) (fun _ _ => Or.inl rfl)
    simp only [exec]
    split <;> try dsimp only
    · exact h
    · split
      all_goals (split <;> try dsimp only)
      all_goals (first
        | exact hset
        | exact hset.of_eq rfl rfl)
  all_goals simp only [exec]
  all_goals (repeat' split)
  all_goals (try dsimp only)
  all_goals (first
    | exact h
    | exact h.of_eq rfl rfl
    | (rename_i hs; exact h.of_eq (shuffle_unawares hs) (shuffle_nBoot hs))
    | exact h.of_eq (reqDone_unawares _ _ _ _) (reqDone_nBoot _ _ _ _)
    | exact cloadJoin_bootInv h _ _
    | exact h.append _ rfl rfl rfl rfl
    | (rename_i e he; exact h.of_eq (issueTo_err_unawares he).1 (issueTo_err_unawares he).2)
    | (rename_i i hi; exact h.of_eq (issueTo_ok_unawares hi).1 (issueTo_ok_unawares hi).2)
    | (rename_i e he _; exact h.of_eq (issueTo_err_unawares he).1 (issueTo_err_unawares he).2)
    | (rename_i i hi _; exact h.of_eq (issueTo_ok_unawares hi).1 (issueTo_ok_unawares hi).2))

theorem runActs_bootInv (cfg : Cfg) : ∀ (fuel : Nat) (st : St) (acts : List Act) (obs : List Ob),
    BootInv st → BootInv (runActs cfg fuel st acts obs).1
  | 0, _, _, _, h => by simp only [runActs]; exact h
  | _+1, _, [], _, h => by simp only [runActs]; exact h
  | fuel+1, st, a :: rest, obs, h => by
    simp only [runActs]
    exact runActs_bootInv cfg fuel _ _ _ (exec_bootInv cfg st a h)

theorem fireDue_bootInv (cfg : Cfg) : ∀ (n : Nat) (st : St) (obs : List Ob), BootInv st → BootInv (fireDue cfg n st obs).1
  | 0, _, _, h => by simp only [fireDue]; exact h
  | n+1, st, obs, h => by
    simp only [fireDue]
    split
    · exact h
    · split
      · exact h
      · rename_i t rest _ _
        have h' : BootInv ({ st with timers := rest } : St) := h.of_eq rfl rfl
        exact fireDue_bootInv cfg n _ _ (runActs_bootInv cfg fuel _ _ _ h')

theorem cancelOp_bootInv (st : St) (o : Nat) (h : BootInv st) : BootInv (cancelOp st o).1 := by
  unfold cancelOp
  repeat' split
  all_goals (try dsimp only)
  all_goals (first
    | exact h
    | exact h.of_eq rfl rfl)

theorem bHead?_filter_mem {α} {p : α → Bool} {l : List α} {x : α} (h : (l.filter p).head? = some x) : x ∈ l ∧ p x = true :=
  List.mem_filter.mp (List.mem_of_mem_head? h)

theorem step_bootInv (cfg : Cfg) (st : St) (env : Env) (e : Ev) (h : BootInv st) : BootInv (step cfg st env e).1 := by
  have h' : BootInv ({ st with env := env } : St) := h.of_eq rfl rfl
  cases e
  case bootOk j =>
    simp only [step]
    split
    · exact h'
    · rename_i x hx
      dsimp only
      obtain ⟨hxu, hp⟩ := bHead?_filter_mem hx
      obtain ⟨i, hi⟩ := List.mem_iff_getElem?.mp hxu
      have hxi : x.u = i := h'.ids i x hi
      have hb : BootInv (setUnaware ({ st with env := env } : St) x.u (fun y => { y with st := .bootReq j (match x.st with | .bootConn _ rest => rest | _ => []) })) := by
        refine BootInv.setU h' x.u _ (fun _ => rfl) ?_
        intro y hy
        rw [hxi] at hy
        have : y = x := by rw [hi] at hy; exact (Option.some.inj hy).symm
        subst this
        right
        split at hp
        · rename_i j' rest hst
          rw [hst]
          simp only [UState.bootId]
          rw [beq_iff_eq.mp hp]
        · cases hp
      exact hb.of_eq rfl rfl
  case cancel o =>
    simp only [step]
    exact runActs_bootInv cfg fuel _ _ _ (cancelOp_bootInv _ o h')
  case advance dt =>
    simp only [step]
    split
    · exact h'
    · exact fireDue_bootInv cfg _ _ _ (h'.of_eq rfl rfl)
  case close o =>
    simp only [step]
    split
    · split
      · exact runActs_bootInv cfg fuel _ _ _ h'
      · exact h'
    · exact runActs_bootInv cfg fuel _ _ _ (h'.of_eq rfl rfl)
  case conn b v => simp only [step]; exact h'.of_eq rfl rfl
  case resetTopics ts => simp only [step]; exact h'.of_eq rfl rfl
  case load o topics =>
    simp only [step]
    exact runActs_bootInv cfg fuel _ _ _ (h'.append _ rfl rfl rfl rfl)
  case cload o g =>
    simp only [step]
    have h2 : BootInv ({ st with env := env, liveOps := st.liveOps ++ [o] } : St) := h.of_eq rfl rfl
    exact runActs_bootInv cfg fuel _ _ _ (cloadJoin_bootInv h2 _ _)
  case srtc o g m =>
    simp only [step]
    split
    · exact runActs_bootInv cfg fuel _ _ _ (h'.of_eq rfl rfl)
    · have h2 : BootInv ({ st with env := env, liveOps := st.liveOps ++ [o], srtcs := st.srtcs ++ [{ r := st.srtcs.length, o := o, g := g, minTimeout := m, phase := .resolving }] } : St) := h.of_eq rfl rfl
      exact runActs_bootInv cfg fuel _ _ _ (cloadJoin_bootInv h2 _ _)
  case bootFail j =>
    simp only [step]
    split
    · exact h'
    · exact runActs_bootInv cfg fuel _ _ _ h'
  case send o keys group foe expect =>
    simp only [step]
    split
    · exact runActs_bootInv cfg fuel _ _ _ (h'.of_eq rfl rfl)
    · split <;> exact runActs_bootInv cfg fuel _ _ _ (h'.of_eq rfl rfl)
  case ltp o topics =>
    simp only [step]
    exact runActs_bootInv cfg fuel _ _ _ (h'.of_eq rfl rfl)
  all_goals (simp only [step]; exact runActs_bootInv cfg fuel _ _ _ h')

/-- every reachable state -/
theorem run_bootInv (cfg : Cfg) (evs : List (Env × Ev)) (st : St) (h : BootInv st) :
    BootInv (evs.foldl (fun s e => (step cfg s e.1 e.2).1) st) := by
  induction evs generalizing st with
  | nil => exact h
  | cons e es ih => exact ih _ (step_bootInv cfg st e.1 e.2 h)

/-! ## 2. while closing, bootstrap states only go away -/

/-- instance `i` of `st1`, if it is in a bootstrap state, was in the same state in `st` -/
def MonoBoot (st st1 : St) : Prop :=
  ∀ (i : Nat) (x1 : Unaware), st1.unawares[i]? = some x1 → x1.st.bootId.isSome = true →
    ∃ x : Unaware, st.unawares[i]? = some x ∧ x.st = x1.st

theorem MonoBoot.of_eq {st st1 : St} (hu : st1.unawares = st.unawares) : MonoBoot st st1 := by
  intro i x1 h1 _
  rw [hu] at h1
  exact ⟨x1, h1, rfl⟩

theorem MonoBoot.trans {a b c : St} (h1 : MonoBoot a b) (h2 : MonoBoot b c) : MonoBoot a c := by
  intro i x1 hx hb
  obtain ⟨x, hx', he⟩ := h2 i x1 hx hb
  obtain ⟨x0, hx0, he0⟩ := h1 i x hx' (he ▸ hb)
  exact ⟨x0, hx0, he0.trans he⟩

theorem MonoBoot.append {st st1 : St} (x : Unaware) (hx : x.st.bootId = none) (hu : st1.unawares = st.unawares ++ [x]) :
    MonoBoot st st1 := by
  intro i x1 h1 hb
  rw [hu] at h1
  by_cases hi : i < st.unawares.length
  · rw [List.getElem?_append_left hi] at h1
    exact ⟨x1, h1, rfl⟩
  · exfalso
    rw [List.getElem?_append_right (by omega)] at h1
    rcases Nat.eq_zero_or_pos (i - st.unawares.length) with h0 | hpos
    · rw [h0] at h1
      simp only [List.getElem?_cons_zero, Option.some.injEq] at h1
      subst h1
      rw [hx] at hb; cases hb
    · rw [List.getElem?_eq_none (by simp; omega)] at h1
      cases h1

theorem MonoBoot.setU_done (st : St) (u : Nat) : MonoBoot st (setUnaware st u (fun y => { y with st := .done })) := by
  intro i x1 h1 hb
  rw [setUnaware_getElem?] at h1
  cases h0 : st.unawares[i]? with
  | none => rw [h0] at h1; cases h1
  | some y0 =>
    rw [h0] at h1
    simp only [Option.map_some, Option.some.injEq] at h1
    subst h1
    split at hb
    · cases hb
    · rename_i hne
      refine ⟨y0, rfl, ?_⟩
      simp [hne]

theorem cloadJoin_mono (st : St) (w : Waiter) (g : String) : MonoBoot st (cloadJoin st w g).1 := by
  unfold cloadJoin
  split
  · exact MonoBoot.of_eq rfl
  · exact MonoBoot.append _ rfl rfl

theorem unawareDone_unawares (cfg : Cfg) (st : St) (u : Nat) (r : Res) (x : Unaware) (hx : unawareGet st u = some x) :
    (exec cfg st (.unawareDone u r)).1.unawares = (setUnaware st u (fun y => { y with st := .done })).unawares := by
  simp only [exec, hx]
  repeat' split
  all_goals rfl

theorem exec_mono (cfg : Cfg) (st : St) (a : Act) (h : st.closing = true) : MonoBoot st (exec cfg st a).1 := by
  cases a
  case unawareDone u r =>
    cases hx : unawareGet st u with
    | none => simp only [exec, hx]; exact MonoBoot.of_eq rfl
    | some x => exact (MonoBoot.setU_done st u).trans (MonoBoot.of_eq (unawareDone_unawares cfg st u r x hx))
  all_goals simp only [exec, h, issueTo_closing h]
  all_goals (repeat' split)
  all_goals (try dsimp only)
  all_goals (first
    | exact MonoBoot.of_eq rfl
    | (rename_i hs; exact MonoBoot.of_eq (shuffle_unawares hs))
    | exact MonoBoot.of_eq (reqDone_unawares _ _ _ _)
    | exact cloadJoin_mono _ _ _
    | (exact absurd trivial (by assumption))
    | exact MonoBoot.append _ rfl rfl
    | (simp_all; done))

/-- the actions that, run to completion while the client is closing, take instance `i` out of its bootstrap state -/
def Act.hits (st : St) (i : Nat) : Act → Prop
  | .cancelU u => u = i
  | .bootNext u _ => u = i
  | .unawareDone u _ => u = i
  | .bootResult j _ => ∃ x : Unaware, st.unawares[i]? = some x ∧ ∃ rest, x.st = .bootReq j rest
  | .cancelBoots => ∃ x : Unaware, st.unawares[i]? = some x ∧ x.st.bootId.isSome = true
  | _ => False

theorem Act.hits_mono {st st1 : St} (hm : MonoBoot st st1) {i : Nat} {x1 : Unaware} (h1 : st1.unawares[i]? = some x1)
    (hb : x1.st.bootId.isSome = true) (b : Act) (hh : b.hits st i) : b.hits st1 i := by
  obtain ⟨x, hx, he⟩ := hm i x1 h1 hb
  cases b
  case bootResult j r =>
    obtain ⟨y, hy, rest, hr⟩ := hh
    rw [hx] at hy
    have : y = x := (Option.some.inj hy).symm
    subst this
    exact ⟨x1, h1, rest, he ▸ hr⟩
  case cancelBoots => exact ⟨x1, h1, hb⟩
  all_goals exact hh

theorem exec_hits (cfg : Cfg) (st : St) (a : Act) (h : st.closing = true) (hinv : BootInv st) (i : Nat)
    (hh : a.hits st i) (x1 : Unaware) (h1 : (exec cfg st a).1.unawares[i]? = some x1)
    (hb : x1.st.bootId.isSome = true) : ∃ a' ∈ (exec cfg st a).2.2, a'.hits (exec cfg st a).1 i := by
  obtain ⟨x, hx, he⟩ := exec_mono cfg st a h i x1 h1 hb
  have hxb : x.st.bootId.isSome = true := he ▸ hb
  have hget : unawareGet st i = some x := getElem?_unawareGet hinv hx
  cases a
  case cancelU u =>
    have hu : u = i := hh
    subst hu
    simp only [exec, hget]
    cases hs : x.st with
    | bootConn j rest =>
      refine ⟨.bootNext x.u rest, by simp [cancelUnaware, hs], ?_⟩
      exact hinv.ids u x hx
    | bootReq j rest =>
      refine ⟨.bootResult j (.err .cancelled), by simp [cancelUnaware, hs], ?_⟩
      exact ⟨x, hx, rest, hs⟩
    | onBroker k => rw [hs] at hxb; cases hxb
    | done => rw [hs] at hxb; cases hxb
  case bootNext u hosts =>
    have hu : u = i := hh
    subst hu
    simp only [exec, h, if_true]
    exact ⟨_, List.mem_singleton.mpr rfl, rfl⟩
  case unawareDone u r =>
    exfalso
    have hu : u = i := hh
    subst hu
    rw [unawareDone_unawares cfg st u r x hget, setUnaware_getElem?, hx] at h1
    simp only [Option.map_some, Option.some.injEq] at h1
    have hxu : x.u = u := hinv.ids u x hx
    simp only [hxu, beq_self_eq_true, if_true] at h1
    subst h1
    cases hb
  case bootResult j r =>
    obtain ⟨y, hy, rest, hr⟩ := hh
    rw [hx] at hy
    have : y = x := (Option.some.inj hy).symm
    subst this
    simp only [exec]
    split
    · rename_i hnone
      exfalso
      rw [List.head?_eq_none_iff, List.filter_eq_nil_iff] at hnone
      have := hnone y (List.mem_of_getElem? hx)
      simp [hr] at this
    · rename_i x' hx'
      obtain ⟨hm, hp⟩ := bHead?_filter_mem hx'
      obtain ⟨i', hi'⟩ := List.mem_iff_getElem?.mp hm
      have hb' : x'.st.bootId = some j := by
        split at hp
        · rename_i j' rest' hst; rw [hst]; simp only [UState.bootId]; rw [beq_iff_eq.mp hp]
        · cases hp
      have hby : y.st.bootId = some j := by rw [hr]; rfl
      have hii : i' = i := hinv.uniq i' i x' y j hi' hx hb' hby
      have hxu : x'.u = i := by rw [← hii]; exact hinv.ids i' x' hi'
      split <;> (try split)
      all_goals exact ⟨_, List.mem_singleton.mpr rfl, hxu⟩
  case cancelBoots =>
    simp only [exec]
    refine ⟨.cancelU x.u, ?_, hinv.ids i x hx⟩
    simp only [List.mem_map]
    refine ⟨x, List.mem_filter.mpr ⟨List.mem_of_getElem? hx, ?_⟩, rfl⟩
    revert hxb
    cases x.st <;> simp [UState.bootId]
  all_goals exact hh.elim

/-- run to completion while closing: every instance still in a bootstrap state was in that state before, and no
    action of the stack was going to take it out -/
theorem runActs_boot (cfg : Cfg) : ∀ (fuel : Nat) (st : St) (acts : List Act) (obs : List Ob),
    st.closing = true → BootInv st → Ob.badOp "fuel" ∉ (runActs cfg fuel st acts obs).2 →
    ∀ (i : Nat) (x1 : Unaware), (runActs cfg fuel st acts obs).1.unawares[i]? = some x1 → x1.st.bootId.isSome = true →
      (∃ x : Unaware, st.unawares[i]? = some x ∧ x.st = x1.st) ∧ ¬ ∃ a ∈ acts, a.hits st i
  | 0, st, acts, obs, _, _, hf => by
    exfalso; apply hf; simp [runActs]
  | _+1, st, [], obs, _, _, _ => by
    intro i x1 h1 _
    simp only [runActs] at h1
    exact ⟨⟨x1, h1, rfl⟩, by simp⟩
  | fuel+1, st, a :: rest, obs, h, hinv, hf => by
    intro i x1 h1 hb
    simp only [runActs] at h1 hf
    have hc1 := (exec_closing cfg st a h).1
    have hinv1 := exec_bootInv cfg st a hinv
    obtain ⟨⟨x', hx', he'⟩, hno⟩ := runActs_boot cfg fuel _ _ _ hc1 hinv1 hf i x1 h1 hb
    have hb' : x'.st.bootId.isSome = true := he' ▸ hb
    have hm := exec_mono cfg st a h
    obtain ⟨x, hx, he⟩ := hm i x' hx' hb'
    refine ⟨⟨x, hx, he.trans he'⟩, ?_⟩
    rintro ⟨b, hbm, hbh⟩
    apply hno
    rcases List.mem_cons.mp hbm with rfl | hbr
    · obtain ⟨a', ha', hh'⟩ := exec_hits cfg st b h hinv i hbh x' hx' hb'
      exact ⟨a', List.mem_append_left _ ha', hh'⟩
    · exact ⟨b, List.mem_append_right _ hbr, Act.hits_mono hm hx' hb' b hbh⟩

/-- C20: `close()` on an open client whose bootstrap attempts are numbered uniquely (every reachable state) leaves
    no broker-unaware request waiting on a bootstrap connection or reply, provided the step did not run out of fuel -/
theorem close_no_boot (cfg : Cfg) (st : St) (env : Env) (o : Nat) (hinv : BootInv st) (hc : st.closing = false)
    (hf : Ob.badOp "fuel" ∉ (step cfg st env (.close o)).2) :
    ∀ x ∈ (step cfg st env (.close o)).1.unawares, x.st.bootId = none := by
  intro x1 hx1
  obtain ⟨i, hi⟩ := List.mem_iff_getElem?.mp hx1
  cases hb : x1.st.bootId with
  | none => rfl
  | some j =>
    exfalso
    simp only [step, hc, Bool.false_eq_true, if_false] at hi hf
    have key := fun hcl hin => runActs_boot cfg fuel _ _ _ hcl hin hf i x1 hi (by rw [hb]; rfl)
    obtain ⟨⟨x, hx, he⟩, hno⟩ := key rfl (hinv.of_eq rfl rfl)
    apply hno
    refine ⟨.cancelBoots, by simp, x, hx, ?_⟩
    rw [he, hb]; rfl

end Afkak.ClientNet
