import AfkakProofs.Client.A_Coroutine
/-!
# The coroutine's requests and results, tied to the send they belong to (session 5)

`C07_coroutine_requests_and_results` (A_Coroutine.lean) exports `PayOk`/`ResOk`, whose witnesses (`keys`, `routed`,
`results`) are existentially quantified and tied to nothing of the run (audit round 2, C07-1).  The invariant underneath,
`SendsOk`, IS about the send's own `keys`/`routed`/`slots`.  Here the two actions that emit payload requests and
send results are characterised against THE send in the state they run in:

* `issueSlot s j` hands a broker client exactly group `j` of `groupByNode x.routed` - `x` the send `s` of that state,
  `x.routed` its own complete in-order resolution - with `x`'s own keys at those indices, and the broker client it
  hands it to is one of the group's node;
* `sendCheck s` delivers `assemble x.keys results` where `results` are the recorded completions of `x`'s own slots
  (`slotResults`), whose index lists are the groups of `groupByNode x.routed`.

`SendsOk` holds in every reachable state and is preserved by every action the interpreter executes.
-/
namespace Afkak.ClientNet
open Afkak.ClientCache

theorem reachable_sendsOk (cfg : Cfg) : ∀ (evs : List (Env × Ev)) (st : St), Ids st → SendsOk st →
    SendsOk (evs.foldl (fun s e => (step cfg s e.1 e.2).1) st) ∧ Ids (evs.foldl (fun s e => (step cfg s e.1 e.2).1) st)
  | [], _, hi, hs => ⟨hs, hi⟩
  | (env, e) :: rest, st, hi, hs => by
    simp only [List.foldl_cons]
    exact reachable_sendsOk cfg rest _ (step_ids cfg st env e hi) (step_cinv cfg st env e hi hs).1

theorem getBrokerClient_node {st st1 : St} {n : Int} {b : Nat} {obs : List Ob}
    (h : getBrokerClient st n = .ok (st1, b, obs)) : ∃ i ∈ st1.bcs, i.b = b ∧ i.node = n := by
  unfold getBrokerClient at h
  split at h
  · cases h
  · split at h
    · rename_i i hi
      simp only [Except.ok.injEq, Prod.mk.injEq] at h
      obtain ⟨rfl, rfl, _⟩ := h
      have := List.mem_filter.mp (List.mem_of_mem_head? hi)
      simp only [Bool.and_eq_true, beq_iff_eq] at this
      exact ⟨i, this.1, rfl, this.2.1⟩
    · split at h
      · cases h
      · simp only [Except.ok.injEq, Prod.mk.injEq] at h
        obtain ⟨rfl, rfl, _⟩ := h
        exact ⟨{ b := st.bcs.length, node := n }, by simp, rfl, rfl⟩

theorem makeRequest_bcs (cfg : Cfg) (st : St) (b : Nat) (o : ReqOwner) (e : Bool) (w : ReqWhat) (m : Option Rat) :
    (makeRequest cfg st b o e w m).1.bcs = st.bcs := by simp [makeRequest]

theorem setSend_bcs (st : St) (s : Nat) (f : Send → Send) : (setSend st s f).bcs = st.bcs := rfl

/-- what `issueSlot s j` hands to a broker client, against the send `s` of the state it runs in -/
theorem issueSlot_tied (cfg : Cfg) (st : St) (s j : Nat) (hs : SendsOk st) (k b : Nat) (e : Bool) (idxs : List Nat) (ks : List TP)
    (hm : Ob.mk k b e (.payloads idxs ks) ∈ (exec cfg st (.issueSlot s j)).2.1) :
    ∃ (x : Send) (slots : List Slot) (sl : Slot), sendGet st s = some x ∧ x.phase = .inflight slots ∧ slots[j]? = some sl ∧
      x.routed.map (·.2) = List.range x.keys.length ∧ (groupByNode x.routed)[j]? = some (sl.node, sl.idxs) ∧
      idxs = sl.idxs ∧ ks = sl.idxs.filterMap (fun i => x.keys[i]?) ∧ e = x.expect ∧
      ∃ i ∈ (exec cfg st (.issueSlot s j)).1.bcs, i.b = b ∧ i.node = sl.node := by
  simp only [exec] at hm ⊢
  cases hsg : sendGet st s with
  | none => simp [hsg] at hm
  | some x =>
    simp only [hsg] at hm ⊢
    cases hph : x.phase with
    | resolving i => simp [hph] at hm
    | done => simp [hph] at hm
    | inflight slots =>
      simp only [hph] at hm ⊢
      cases hsl : slots[j]? with
      | none => simp [hsl] at hm
      | some sl =>
        simp only [hsl] at hm ⊢
        obtain ⟨hxm, _⟩ := sendGet_mem hsg
        have hok := hs x hxm
        unfold SendOk at hok
        rw [hph] at hok
        have hgj : (groupByNode x.routed)[j]? = some (sl.node, sl.idxs) := by
          rw [← hok.2, List.getElem?_map, hsl]; rfl
        cases hi : issueTo cfg st sl.node (.slot s j) x.expect (.payloads sl.idxs (sl.idxs.filterMap (fun i => x.keys[i]?))) none
            (Afkak.Consts.clientEncoderRefusesDuplicates && (sortHP (sl.idxs.filterMap (fun i => x.keys[i]?))).length != sl.idxs.length) with
        | error er =>
          simp only [hi] at hm
          have := issueTo_quiet_err hi _ hm
          simp [Ob.quietC, Ob.isPay] at this
        | ok io =>
          simp only [hi] at hm ⊢
          obtain ⟨st1, b', obs1, hg, e1, _, e3, _⟩ := issueTo_ok hi
          rw [e3] at hm
          rcases List.mem_append.mp hm with h1 | h1
          · have := getBrokerClient_quiet hg _ h1
            simp [Ob.quietC, Ob.isPay] at this
          · have hmk : k = (makeRequest cfg st1 b' (.slot s j) x.expect (.payloads sl.idxs (sl.idxs.filterMap (fun i => x.keys[i]?))) none).2.1 ∧
                b = b' ∧ e = x.expect ∧ idxs = sl.idxs ∧ ks = sl.idxs.filterMap (fun i => x.keys[i]?) := by
              simp only [makeRequest] at h1 ⊢
              by_cases hsf : syncFire st1 b' x.expect = true
              · simp only [hsf, if_true, List.mem_append, List.mem_cons, List.not_mem_nil, or_false] at h1
                rcases h1 with ((h | h) | h) | h <;> cases h
                exact ⟨rfl, rfl, rfl, rfl, rfl⟩
              · simp only [hsf, Bool.false_eq_true, if_false, List.append_nil, List.mem_append, List.mem_cons, List.not_mem_nil, or_false] at h1
                rcases h1 with h | h <;> cases h
                exact ⟨rfl, rfl, rfl, rfl, rfl⟩
            obtain ⟨_, rfl, rfl, rfl, rfl⟩ := hmk
            refine ⟨x, slots, sl, rfl, hph, hsl, hok.1, hgj, rfl, rfl, rfl, ?_⟩
            obtain ⟨i, him, hib, hin⟩ := getBrokerClient_node hg
            refine ⟨i, ?_, hib, hin⟩
            rw [setSend_bcs, e1, makeRequest_bcs]
            exact him

/-- what `sendCheck s` delivers, against the send `s` of the state it runs in -/
theorem sendCheck_tied (cfg : Cfg) (st : St) (s : Nat) (hs : SendsOk st) (o : Nat) (r : OpRes)
    (hm : Act.opResult o r ∈ (exec cfg st (.sendCheck s)).2.2) :
    ∃ (x : Send) (slots : List Slot), sendGet st s = some x ∧ o = x.o ∧ x.phase = .inflight slots ∧
      slots.map (fun sl => (sl.node, sl.idxs)) = groupByNode x.routed ∧ x.routed.map (·.2) = List.range x.keys.length ∧
      (∀ tags, r = .responses tags → ∃ results, slotResults x.expect slots = some results ∧ results.map (·.1) = slots.map (·.idxs) ∧
          (assemble x.keys results).2 = [] ∧ tags = (assemble x.keys results).1.map (·.tag)) ∧
      (∀ tags failed, r = .failedPayloads tags failed → ∃ results, slotResults x.expect slots = some results ∧
          results.map (·.1) = slots.map (·.idxs) ∧ failed = (assemble x.keys results).2 ∧ failed ≠ [] ∧
          tags = (assemble x.keys results).1.map (·.tag)) := by
  simp only [exec] at hm
  cases hsg : sendGet st s with
  | none => simp [hsg] at hm
  | some x =>
    simp only [hsg] at hm
    obtain ⟨hxm, _⟩ := sendGet_mem hsg
    have hok := hs x hxm
    unfold SendOk at hok
    cases hph : x.phase with
    | resolving i => simp [hph] at hm
    | done => simp [hph] at hm
    | inflight slots =>
      simp only [hph] at hm
      rw [hph] at hok
      by_cases hall : (!slots.all (fun sl => sl.res.isSome)) = true
      · simp [hall] at hm
      · simp only [hall, Bool.false_eq_true, if_false] at hm
        cases hsr : slotResults x.expect slots with
        | none =>
          simp only [hsr, List.mem_singleton] at hm
          simp only [reduceCtorEq] at hm
        | some results =>
          simp only [hsr] at hm
          have hidx := slotResults_idxs _ _ _ hsr
          by_cases hf : (!(assemble x.keys results).2.isEmpty) = true
          · simp only [hf, if_true, List.mem_singleton, Act.opResult.injEq] at hm
            obtain ⟨rfl, rfl⟩ := hm
            refine ⟨x, slots, rfl, rfl, hph, hok.2, hok.1, (fun tags h => by cases h), fun tags failed h => ?_⟩
            simp only [OpRes.failedPayloads.injEq] at h
            obtain ⟨rfl, rfl⟩ := h
            refine ⟨results, hsr, hidx, rfl, ?_, rfl⟩
            intro he; simp [he] at hf
          · simp only [hf, Bool.false_eq_true, if_false, List.mem_singleton, Act.opResult.injEq] at hm
            obtain ⟨rfl, rfl⟩ := hm
            refine ⟨x, slots, rfl, rfl, hph, hok.2, hok.1, fun tags h => ?_, fun tags failed h => ?_⟩
            · split at h <;> try (cases h)
              refine ⟨results, hsr, hidx, ?_, rfl⟩
              simpa using hf
            · split at h <;> cases h

end Afkak.ClientNet
