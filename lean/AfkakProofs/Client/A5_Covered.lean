import AfkakProofs.Client.Merge
import AfkakProofs.Client.A_Wf
import AfkakProofs.Client.Net
/-!
# The covered part of the mirror survives a reset in the middle of the merge

`_merge_topic_metadata` first calls `_update_brokers` - which, on a full refresh, closes the broker clients of the
brokers the response no longer lists; a request in flight on such a client fails at once and its failure path calls
`reset_all_metadata()` - and only then runs the per-topic loop.  "Other topics untouched" is false of such a step,
but the response's brokers and every topic the response covers still mirror the response afterwards: the monitor
`mon-covered` evaluated on the real client's dumps of those steps.
-/
namespace Afkak.ClientCache
open Afkak.Monitor.C08

theorem covered_mirror_despite_reset {c : Cache} (h : CWf c) (hk : BrokersKeyed c) (bs : List Broker)
    (ts : List TopicMeta) (fetchedAll reset : Bool) :
    let u := updateBrokersDict c (respBrokers bs) (fetchedAll && !(respBrokers bs).isEmpty)
    let c1 := if reset then resetAll u.1 else u.1
    let c2 := mergeAll c1 (respTopics ts)
    brokersMirror c2 bs = true ∧ (respTopics ts).all (fun e => topicMirror c2 e.2) = true := by
  intro u c1 c2
  have hnd : ((respBrokers bs).map (·.1)).Nodup := dictOfList_nodup _
  have hkeyed : ∀ e ∈ respBrokers bs, e.1 = e.2.nodeId := dictOfList_keyed (fun b : Broker => b.nodeId) bs
  obtain ⟨u1, u2, _, _, _, _, u7, _⟩ := updateBrokersDict_spec h hk (respBrokers bs) hnd hkeyed (fetchedAll && !(respBrokers bs).isEmpty)
  have hc1 : CWf c1 ∧ BrokersKeyed c1 ∧ c1.brokers = u.1.brokers ∧ c1.clients = u.1.clients := by
    cases reset
    · exact ⟨u1, u2, rfl, rfl⟩
    · have := Afkak.ClientNet.resetAll_wfc (c := u.1) ⟨u1, u2⟩
      exact ⟨this.1, this.2, rfl, rfl⟩
  obtain ⟨w1, w2, w3, w4⟩ := hc1
  have htn : ((respTopics ts).map (·.1)).Nodup := dictOfList_nodup _
  have htk : ∀ e ∈ respTopics ts, e.1 = e.2.name := dictOfList_keyed (fun t : TopicMeta => t.name) ts
  obtain ⟨_, m2, m3, _, m5, _, _⟩ := mergeAll_spec (respTopics ts) c1 w1 w2 htn htk
  refine ⟨?_, List.all_eq_true.mpr (fun e he => m5 e he)⟩
  simp only [brokersMirror, List.all_eq_true, Bool.and_eq_true, beq_iff_eq]
  intro e he
  obtain ⟨g1, g2⟩ := u7 e he
  show get? e.1 (mergeAll c1 (respTopics ts)).brokers = some e.2 ∧ _
  rw [m2, m3, w3, w4]
  refine ⟨g1, ?_⟩
  cases hg : get? e.1 u.1.clients with
  | none => rfl
  | some a =>
    have hg' : get? e.1 (updateBrokersDict c (respBrokers bs) (fetchedAll && !(respBrokers bs).isEmpty)).1.clients = some a := hg
    rw [hg'] at g2; simp [g2]

end Afkak.ClientCache

namespace Afkak.ClientNet
open Afkak.ClientCache Afkak.Monitor.C08

/-- the coroutine's own merge ACTIONS, in whatever state of a step they run (`WfC` is an invariant of every action of
    the interpreter: `exec_wfc`): (1) `unawareDone` of a metadata load that received a response runs `_update_brokers`:
    right after it every listed broker is known at the response's address and live clients are told; (2) the
    per-topic loop (`mergeTopics`, which runs after the closes and whatever their failures reset) leaves every covered
    topic equal to the response and does not touch brokers or clients -/
theorem mergeTopics_action_covered (cfg : Cfg) (st : St) (ts : List TopicMeta) (lo : LOwner) (h : WfC st.cache) :
    (respTopics ts).all (fun e => topicMirror (exec cfg st (.mergeTopics ts lo)).1.cache e.2) = true ∧
    (exec cfg st (.mergeTopics ts lo)).1.cache.brokers = st.cache.brokers ∧
    (exec cfg st (.mergeTopics ts lo)).1.cache.clients = st.cache.clients := by
  have htn : ((respTopics ts).map (·.1)).Nodup := dictOfList_nodup _
  have htk : ∀ e ∈ respTopics ts, e.1 = e.2.name := dictOfList_keyed (fun t : TopicMeta => t.name) ts
  obtain ⟨_, m2, m3, _, m5, _, _⟩ := mergeAll_spec (respTopics ts) st.cache h.1 h.2 htn htk
  have hc : (exec cfg st (.mergeTopics ts lo)).1.cache = mergeAll st.cache (respTopics ts) := rfl
  rw [hc]
  exact ⟨List.all_eq_true.mpr (fun e he => m5 e he), m2, m3⟩

end Afkak.ClientNet
