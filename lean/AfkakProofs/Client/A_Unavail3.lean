import AfkakProofs.Client.A_Unavail
/-! How the tables of pending work (`restsOf`, `bootsOf`) evolve under each action, and which observations an
    action emits (`result … unavailable`, `bootConnect`). -/
namespace Afkak.ClientNet
open Afkak.ClientCache

/-! ### `restsOf` -/

theorem restsOf_of_reqs {st st' : St} (h : st'.reqs = st.reqs) : restsOf st' = restsOf st := by simp [restsOf, h]

theorem restsOf_of_core {st st' : St} (h : core st' = core st) : restsOf st' = restsOf st :=
  restsOf_of_reqs (congrArg Prod.fst h)

theorem restsOf_setReq (st : St) (k : Nat) (f : Req → Req) (hf : ∀ q, (f q).owner = q.owner) :
    restsOf (setReq st k f) = restsOf st := by
  simp only [restsOf, setReq, List.filterMap_map]
  congr 1
  funext q
  simp only [Function.comp]
  split
  · rw [hf]
  · rfl

def RExt (a : Act) (st st' : St) : Prop := ∀ r ∈ restsOf st', r ∈ restsOf st ∨ ∃ u n, a = .unawareNext u (n :: r)

theorem RExt.of_eq {a : Act} {st st' : St} (h : restsOf st' = restsOf st) : RExt a st st' := by
  intro r hr; rw [h] at hr; exact Or.inl hr

theorem issueTo_rests_ok {cfg : Cfg} {st : St} {n : Int} {o : ReqOwner} {e : Bool} {w : ReqWhat} {m : Option Rat} {rj : Bool}
    {i : IssueOk} (hi : issueTo cfg st n o e w m rj = .ok i) : restsOf i.st = restsOf st ++ (restOfOwner o).toList := by
  obtain ⟨st1, b, obs1, hg, h1, _, _, _⟩ := issueTo_ok hi
  have hc := congrArg Prod.fst (core_getBrokerClient hg)
  simp only [core] at hc
  rw [h1]
  simp only [restsOf, makeRequest, List.filterMap_append, hc, List.filterMap_cons, List.filterMap_nil]
  cases restOfOwner o <;> rfl

theorem issueTo_rests_err {cfg : Cfg} {st : St} {n : Int} {o : ReqOwner} {e : Bool} {w : ReqWhat} {m : Option Rat} {rj : Bool}
    {er : IssueErr} (he : issueTo cfg st n o e w m rj = .error er) : restsOf er.st = restsOf st := by
  rcases issueTo_err he with ⟨h1, _⟩ | ⟨b, hg⟩
  · rw [h1]
  · exact restsOf_of_core (core_getBrokerClient hg)

theorem exec_rext (cfg : Cfg) (st : St) (a : Act) : RExt a st (exec cfg st a).1 := by
  by_cases hq : a.quiet = true
  · exact RExt.of_eq (restsOf_of_core (exec_quiet cfg st a hq))
  · cases a <;> simp only [Act.quiet, not_true_eq_false] at hq
    case unawareNext u nodes =>
      simp only [exec]
      repeat' split
      all_goals (try dsimp only)
      all_goals (first
        | exact RExt.of_eq rfl
        | (rename_i hs; exact RExt.of_eq (restsOf_of_core (core_shuffle hs)))
        | (rename_i he; exact RExt.of_eq (issueTo_rests_err he))
        | skip)
      rename_i n rest _ i hi
      intro r hr
      have : restsOf (setUnaware i.st u fun y => { y with st := UState.onBroker i.k }) = restsOf i.st := rfl
      rw [this, issueTo_rests_ok hi] at hr
      rcases List.mem_append.mp hr with h | h
      · exact Or.inl h
      · simp only [restOfOwner, Option.toList_some, List.mem_singleton] at h
        subst h
        exact Or.inr ⟨u, n, rfl⟩
    all_goals simp only [exec]
    all_goals (repeat' split)
    all_goals (try dsimp only)
    all_goals (first
      | exact RExt.of_eq rfl
      | exact RExt.of_eq (restsOf_of_core (core_reqDone _ _ _ _))
      | (refine RExt.of_eq ((restsOf_of_core (core_reqDone _ _ _ _)).trans ?_)
         first
           | exact restsOf_setReq _ _ _ (fun q => rfl)
           | exact (restsOf_of_reqs rfl).trans (restsOf_setReq _ _ _ (fun q => rfl)))
      | (rename_i he; exact RExt.of_eq (issueTo_rests_err he))
      | (rename_i hi
         refine RExt.of_eq ?_
         refine Eq.trans (restsOf_of_reqs rfl) ((issueTo_rests_ok hi).trans ?_)
         simp [restOfOwner])
      | (exact RExt.of_eq (restsOf_of_reqs (by simp)))
      | (exact RExt.of_eq (restsOf_of_reqs (by simp_all))))

/-! ### `bootsOf` -/

theorem bootsOf_of_unawares {st st' : St} (h : st'.unawares = st.unawares) : bootsOf st' = bootsOf st := by simp [bootsOf, h]

def BExt (a : Act) (st st' : St) : Prop := ∀ r ∈ bootsOf st', r ∈ bootsOf st ∨ ∃ u h p, a = .bootNext u ((h, p) :: r)

theorem BExt.of_eq {a : Act} {st st' : St} (h : bootsOf st' = bootsOf st) : BExt a st st' := by
  intro r hr; rw [h] at hr; exact Or.inl hr

theorem BExt.of_unawares {a : Act} {st st' : St} (h : st'.unawares = st.unawares) : BExt a st st' :=
  BExt.of_eq (bootsOf_of_unawares h)

theorem bootsOf_setUnaware_sub (st : St) (u : Nat) (f : Unaware → Unaware) (r0 : Option (List (String × Int)))
    (hf : ∀ y, bootRest (f y).st = r0) : ∀ r ∈ bootsOf (setUnaware st u f), r ∈ bootsOf st ∨ r0 = some r := by
  intro r hr
  simp only [bootsOf, setUnaware, List.mem_filterMap, List.mem_map] at hr
  obtain ⟨y', ⟨y, hy, rfl⟩, hyr⟩ := hr
  split at hyr
  · rw [hf] at hyr; exact Or.inr hyr
  · exact Or.inl (List.mem_filterMap.mpr ⟨y, hy, hyr⟩)

theorem bootsOf_append_done (st st' : St) (x : Unaware) (hx : x.st = .done) (h : st'.unawares = st.unawares ++ [x]) :
    bootsOf st' = bootsOf st := by
  simp [bootsOf, h, List.filterMap_append, hx, bootRest]

theorem cloadJoin_boots (st : St) (w : Waiter) (g : String) : bootsOf (cloadJoin st w g).1 = bootsOf st := by
  unfold cloadJoin
  split
  · rfl
  · exact bootsOf_append_done _ _ _ rfl rfl

theorem getBrokerClient_unawaresA {st st' : St} {n : Int} {b : Nat} {obs : List Ob}
    (h : getBrokerClient st n = .ok (st', b, obs)) : st'.unawares = st.unawares := by
  unfold getBrokerClient at h
  split at h
  · cases h
  · split at h
    · cases h; rfl
    · split at h
      · cases h
      · cases h; rfl

theorem issueTo_unawares_ok {cfg : Cfg} {st : St} {n : Int} {o : ReqOwner} {e : Bool} {w : ReqWhat} {m : Option Rat} {rj : Bool}
    {i : IssueOk} (hi : issueTo cfg st n o e w m rj = .ok i) : i.st.unawares = st.unawares := by
  obtain ⟨st1, b, obs1, hg, h1, _, _, _⟩ := issueTo_ok hi
  have := getBrokerClient_unawaresA hg
  rw [h1]; exact this

theorem issueTo_unawares_err {cfg : Cfg} {st : St} {n : Int} {o : ReqOwner} {e : Bool} {w : ReqWhat} {m : Option Rat} {rj : Bool}
    {er : IssueErr} (he : issueTo cfg st n o e w m rj = .error er) : er.st.unawares = st.unawares := by
  rcases issueTo_err he with ⟨h1, _⟩ | ⟨b, hg⟩
  · rw [h1]
  · exact getBrokerClient_unawaresA hg

theorem exec_bext (cfg : Cfg) (st : St) (a : Act) : BExt a st (exec cfg st a).1 := by
  cases a
  case bootNext u hosts =>
    simp only [exec]
    split
    · exact BExt.of_eq rfl
    · split
      · exact BExt.of_eq rfl
      · rename_i h p rest
        intro r hr
        rcases bootsOf_setUnaware_sub { st with nBoot := st.nBoot + 1 } u _ (some rest) (fun y => rfl) r hr with h1 | h1
        · exact Or.inl h1
        · cases h1; exact Or.inr ⟨u, h, p, rfl⟩
  all_goals simp only [exec]
  all_goals (repeat' split)
  all_goals (try dsimp only)
  all_goals (first
    | exact BExt.of_eq rfl
    | exact BExt.of_unawares rfl
    | (rename_i hs; exact BExt.of_unawares (shuffle_unawares hs))
    | exact BExt.of_unawares (reqDone_unawares _ _ _ _)
    | exact BExt.of_eq (cloadJoin_boots _ _ _)
    | (rename_i he; exact BExt.of_unawares (issueTo_unawares_err he))
    | (rename_i hi; exact BExt.of_unawares (issueTo_unawares_ok hi))
    | (rename_i hi; exact BExt.of_unawares (Eq.trans rfl (issueTo_unawares_ok hi)))
    | exact BExt.of_eq (bootsOf_append_done _ _ _ rfl rfl)
    | (intro r hr
       first
         | (rcases bootsOf_setUnaware_sub _ _ _ none (fun y => rfl) r hr with h1 | h1
            · exact Or.inl h1
            · cases h1)
         | (rename_i hi
            have hr' : r ∈ bootsOf (setUnaware _ _ _) := hr
            rcases bootsOf_setUnaware_sub _ _ _ none (fun y => rfl) r hr' with h1 | h1
            · rw [bootsOf_of_unawares (issueTo_unawares_ok hi)] at h1; exact Or.inl h1
            · cases h1))
    | (exact BExt.of_unawares (by simp))
    | (exact BExt.of_unawares (by simp_all)))

/-! ### observations -/

def bootHostsOf (obs : List Ob) : List (String × Int) :=
  obs.filterMap (fun o => match o with | .bootConnect _ h p => some (h, p) | _ => none)

theorem bootHostsOf_append (a b : List Ob) : bootHostsOf (a ++ b) = bootHostsOf a ++ bootHostsOf b := by
  simp [bootHostsOf, List.filterMap_append]

def Ob.isUnavResult : Ob → Bool
  | .result _ (.fail .unavailable) => true
  | _ => false

theorem applyUpdate_noResult (st : St) (c' : Cache) (cn : List Int) (bs : List Broker) :
    ∀ o ∈ (applyUpdate st c' cn bs).2.1, o.isUnavResult = false := by
  intro o ho
  simp only [applyUpdate, List.mem_flatMap] at ho
  obtain ⟨e, _, he⟩ := ho
  split at he
  · simp only [List.mem_singleton] at he; subst he; rfl
  · cases he

theorem cancelUnaware_noResult (x : Unaware) : ∀ o ∈ (cancelUnaware x).1, o.isUnavResult = false := by
  unfold cancelUnaware; split <;> simp [Ob.isUnavResult]

theorem getBrokerClient_noResult {st st' : St} {n : Int} {b : Nat} {obs : List Ob}
    (h : getBrokerClient st n = .ok (st', b, obs)) : ∀ o ∈ obs, o.isUnavResult = false := by
  unfold getBrokerClient at h
  split at h
  · cases h
  · split at h
    · cases h; simp
    · split at h
      · cases h
      · cases h; simp [Ob.isUnavResult]

theorem issueTo_noResult_ok {cfg : Cfg} {st : St} {n : Int} {o : ReqOwner} {e : Bool} {w : ReqWhat} {m : Option Rat} {rj : Bool}
    {i : IssueOk} (hi : issueTo cfg st n o e w m rj = .ok i) : ∀ ob ∈ i.obs, ob.isUnavResult = false := by
  obtain ⟨st1, b, obs1, hg, _, _, e3, _⟩ := issueTo_ok hi
  rw [e3]
  intro ob hob
  rcases List.mem_append.mp hob with h | h
  · exact getBrokerClient_noResult hg ob h
  · simp only [makeRequest] at h
    by_cases hs : syncFire st1 b e = true
    · simp only [hs, if_true, List.mem_append, List.mem_cons, List.not_mem_nil, or_false] at h
      rcases h with ((rfl | rfl) | rfl) | rfl <;> rfl
    · simp only [hs, Bool.false_eq_true, if_false, List.append_nil, List.mem_append, List.mem_cons, List.not_mem_nil, or_false] at h
      rcases h with rfl | rfl <;> rfl

theorem issueTo_noResult_err {cfg : Cfg} {st : St} {n : Int} {o : ReqOwner} {e : Bool} {w : ReqWhat} {m : Option Rat} {rj : Bool}
    {er : IssueErr} (he : issueTo cfg st n o e w m rj = .error er) : ∀ ob ∈ er.obs, ob.isUnavResult = false := by
  rcases issueTo_err he with ⟨_, h2⟩ | ⟨b, hg⟩
  · rw [h2]; simp
  · exact getBrokerClient_noResult hg

/-- only an `opResult … (fail unavailable)` action emits an "unavailable" result -/
theorem exec_results (cfg : Cfg) (st : St) (a : Act) : ∀ o ∈ (exec cfg st a).2.1, o.isUnavResult = true → a.claims = true := by
  cases a
  case opResult o r =>
    simp only [exec]
    split
    · intro ob hob h
      rw [List.mem_singleton.mp hob] at h
      cases r <;> simp only [Ob.isUnavResult] at h <;> try cases h
      rename_i k
      cases k <;> simp only [Ob.isUnavResult] at h <;> try cases h
      rfl
    · intro ob hob h
      rw [List.mem_singleton.mp hob] at h
      cases h
  all_goals simp only [exec]
  all_goals (repeat' split)
  all_goals (try dsimp only)
  all_goals (first
    | (intro ob hob; cases hob; done)
    | (intro ob hob h
       have : ob.isUnavResult = false := by
         first
           | (simp only [List.mem_cons, List.mem_singleton, List.not_mem_nil, or_false, List.mem_append] at hob
              rcases hob with rfl | rfl | rfl <;> rfl)
           | exact applyUpdate_noResult _ _ _ _ ob hob
           | exact cancelUnaware_noResult _ ob hob
           | (obtain ⟨w, _, rfl⟩ := List.mem_map.mp hob; rfl)
           | (rename_i hi; exact issueTo_noResult_ok hi ob hob)
           | (rename_i he; exact issueTo_noResult_err he ob hob)
           | (simp_all [Ob.isUnavResult]; done)
       rw [this] at h; cases h))

theorem exec_bootConnect (cfg : Cfg) (st : St) (u : Nat) (h : String) (p : Int) (rest : List (String × Int)) (hc : st.closing = false) :
    (h, p) ∈ bootHostsOf (exec cfg st (.bootNext u ((h, p) :: rest))).2.1 := by
  simp [exec, hc, bootHostsOf]

end Afkak.ClientNet
