import AfkakProofs.Client.Net
/-!
# Identifiers of sends and broker-unaware requests are positions (reachable-state invariant)

`Send.s` / `Unaware.u` are assigned as the length of the table when the entry is appended and no action
ever changes them, so in every reachable state entry `i` of either table has id `i`: `sendGet`/`unawareGet`
find THE entry.  Proved for every action of the interpreter and every event, no hypothesis on the run.
-/
namespace Afkak.ClientNet
open Afkak.ClientCache

def sids (st : St) : List Nat := st.sends.map (·.s)
def uids (st : St) : List Nat := st.unawares.map (·.u)

/-- the ids of both tables are their positions -/
structure Ids (st : St) : Prop where
  sends : sids st = List.range st.sends.length
  unawares : uids st = List.range st.unawares.length

theorem Ids.init : Ids {} := ⟨rfl, rfl⟩

/-- the unaware table is unchanged or got one entry whose id is its position -/
def UExt (st st' : St) : Prop := uids st' = uids st ∨ uids st' = uids st ++ [(uids st).length]

theorem UExt.refl' {st st' : St} (h : st'.unawares = st.unawares) : UExt st st' := Or.inl (by simp [uids, h])

theorem UExt.trans_eq {a b c : St} (h1 : UExt a b) (h2 : uids c = uids b) : UExt a c := by
  rcases h1 with h | h
  · exact Or.inl (h2.trans h)
  · exact Or.inr (h2.trans h)

theorem UExt.eq_trans {a b c : St} (h1 : uids b = uids a) (h2 : UExt b c) : UExt a c := by
  rcases h2 with h | h
  · exact Or.inl (h.trans h1)
  · exact Or.inr (by rw [h, h1])

@[simp] theorem sids_setUnaware (st : St) u f : sids (setUnaware st u f) = sids st := rfl
@[simp] theorem sids_setReq (st : St) k f : sids (setReq st k f) = sids st := rfl
@[simp] theorem sids_setSrtc (st : St) r f : sids (setSrtc st r f) = sids st := rfl
@[simp] theorem sids_cancelTimer (st : St) w : sids (cancelTimer st w) = sids st := rfl
@[simp] theorem sids_applyUpdate (st : St) c' cn bs : sids (applyUpdate st c' cn bs).1 = sids st := rfl
@[simp] theorem sids_suppressWaiter (st : St) w : sids (suppressWaiter st w) = sids st := rfl
@[simp] theorem uids_setSend (st : St) s f : uids (setSend st s f) = uids st := rfl
@[simp] theorem uids_setReq (st : St) k f : uids (setReq st k f) = uids st := rfl
@[simp] theorem uids_setSrtc (st : St) r f : uids (setSrtc st r f) = uids st := rfl
@[simp] theorem uids_cancelTimer (st : St) w : uids (cancelTimer st w) = uids st := rfl
@[simp] theorem uids_applyUpdate (st : St) c' cn bs : uids (applyUpdate st c' cn bs).1 = uids st := rfl
@[simp] theorem uids_suppressWaiter (st : St) w : uids (suppressWaiter st w) = uids st := rfl

theorem sids_setSend (st : St) (s : Nat) (f : Send → Send) (hf : ∀ y, (f y).s = y.s) : sids (setSend st s f) = sids st := by
  simp only [sids, setSend, List.map_map]
  apply List.map_congr_left
  intro y _
  simp only [Function.comp]
  split
  · exact hf y
  · rfl

theorem uids_setUnaware (st : St) (u : Nat) (f : Unaware → Unaware) (hf : ∀ y, (f y).u = y.u) : uids (setUnaware st u f) = uids st := by
  simp only [uids, setUnaware, List.map_map]
  apply List.map_congr_left
  intro y _
  simp only [Function.comp]
  split
  · exact hf y
  · rfl

theorem sids_reqDone (st : St) (o : ReqOwner) (k : Nat) (r : Res) : sids (reqDone st o k r).1 = sids st := by
  unfold reqDone
  split
  · split <;> (try split) <;> rfl
  · apply sids_setSend; intro y; split <;> rfl
  · rfl

theorem uids_reqDone (st : St) (o : ReqOwner) (k : Nat) (r : Res) : uids (reqDone st o k r).1 = uids st := by
  unfold reqDone
  split
  · split <;> (try split) <;> rfl
  · rfl
  · rfl

theorem sids_cloadJoin (st : St) (w : Waiter) (g : String) : sids (cloadJoin st w g).1 = sids st := by
  unfold cloadJoin; split <;> rfl

theorem uext_cloadJoin (st : St) (w : Waiter) (g : String) : UExt st (cloadJoin st w g).1 := by
  unfold cloadJoin; split
  · exact Or.inl rfl
  · exact Or.inr (by simp [uids])

theorem sids_shuffle {α} {st st' : St} {xs ys : List α} (h : shuffle st xs = some (st', ys)) : sids st' = sids st := by
  unfold shuffle at h
  split at h
  · cases h
  · simp only [Option.map_eq_some_iff] at h
    obtain ⟨_, _, heq⟩ := h
    cases heq; rfl

theorem uids_shuffle {α} {st st' : St} {xs ys : List α} (h : shuffle st xs = some (st', ys)) : uids st' = uids st := by
  unfold shuffle at h
  split at h
  · cases h
  · simp only [Option.map_eq_some_iff] at h
    obtain ⟨_, _, heq⟩ := h
    cases heq; rfl

theorem sids_getBrokerClient {st st' : St} {n : Int} {b : Nat} {obs : List Ob}
    (h : getBrokerClient st n = .ok (st', b, obs)) : sids st' = sids st ∧ uids st' = uids st := by
  unfold getBrokerClient at h
  split at h
  · cases h
  · split at h
    · cases h; exact ⟨rfl, rfl⟩
    · split at h
      · cases h
      · cases h; exact ⟨rfl, rfl⟩

theorem issueTo_ids_ok {cfg : Cfg} {st : St} {n : Int} {o : ReqOwner} {e : Bool} {w : ReqWhat} {m : Option Rat} {rj : Bool}
    {i : IssueOk} (hi : issueTo cfg st n o e w m rj = .ok i) : sids i.st = sids st ∧ uids i.st = uids st := by
  obtain ⟨st1, b, obs1, hg, h1, _, _, _⟩ := issueTo_ok hi
  have := sids_getBrokerClient hg
  rw [h1]; exact this

theorem issueTo_ids_err {cfg : Cfg} {st : St} {n : Int} {o : ReqOwner} {e : Bool} {w : ReqWhat} {m : Option Rat} {rj : Bool}
    {er : IssueErr} (he : issueTo cfg st n o e w m rj = .error er) : sids er.st = sids st ∧ uids er.st = uids st := by
  rcases issueTo_err he with ⟨h1, _⟩ | ⟨b, hg⟩
  · rw [h1]; exact ⟨rfl, rfl⟩
  · exact sids_getBrokerClient hg

/-- no action adds a send or changes a send's id -/
theorem exec_sids (cfg : Cfg) (st : St) (a : Act) : sids (exec cfg st a).1 = sids st := by
  cases a
  all_goals simp only [exec]
  all_goals (repeat' split)
  all_goals (try dsimp only)
  all_goals (first
    | rfl
    | (rename_i hs; exact sids_shuffle hs)
    | exact sids_cloadJoin _ _ _
    | exact sids_reqDone _ _ _ _
    | (apply sids_setSend; intro y; (try split) <;> rfl)
    | (rename_i he; exact (issueTo_ids_err he).1)
    | (rename_i he; rw [sids_setUnaware]; exact (issueTo_ids_ok he).1)
    | (rename_i he; rw [sids_setSrtc]; exact (issueTo_ids_ok he).1)
    | (rename_i he; refine Eq.trans (sids_setSend _ _ _ ?_) (issueTo_ids_ok he).1; intro y; (try split) <;> rfl)
    | (simp [sids]; done)
    | (simp_all [sids]; done))

/-- an action adds at most one unaware request, whose id is its position, and changes no id -/
theorem exec_uext (cfg : Cfg) (st : St) (a : Act) : UExt st (exec cfg st a).1 := by
  cases a
  all_goals simp only [exec]
  all_goals (repeat' split)
  all_goals (try dsimp only)
  all_goals (first
    | exact Or.inl rfl
    | (rename_i hs; exact Or.inl (uids_shuffle hs))
    | exact uext_cloadJoin _ _ _
    | exact Or.inl (uids_reqDone _ _ _ _)
    | (refine Or.inl (uids_setUnaware _ _ _ ?_); intro y; rfl)
    | (rename_i he; exact Or.inl (issueTo_ids_err he).2)
    | (rename_i he; rw [show ∀ s f, uids (setSend (_ : St) s f) = uids _ from fun _ _ => rfl]; exact Or.inl (issueTo_ids_ok he).2)
    | (rename_i he; exact Or.inl (issueTo_ids_ok he).2)
    | (rename_i he; refine Or.inl (Eq.trans (uids_setUnaware _ _ _ ?_) (issueTo_ids_ok he).2); intro y; rfl)
    | (exact Or.inr (by simp [uids]))
    | (exact Or.inl (by simp [uids]))
    | (exact Or.inl (by simp_all [uids])))

theorem Ids.of_exts {st st' : St} (h : Ids st) (hs : sids st' = sids st) (hu : UExt st st') : Ids st' := by
  have hl : ∀ {α β} {l l' : List α} {f : α → β}, l'.map f = l.map f → l'.length = l.length := by
    intro α β l l' f h; simpa using congrArg List.length h
  constructor
  · have := hl hs
    rw [hs, h.sends, this]
  · rcases hu with hu | hu
    · have := hl hu
      rw [hu, h.unawares, this]
    · have hlen : st'.unawares.length = st.unawares.length + 1 := by
        have := congrArg List.length hu
        simpa [uids] using this
      rw [hu, h.unawares, hlen, List.range_succ]
      simp

theorem exec_ids (cfg : Cfg) (st : St) (a : Act) (h : Ids st) : Ids (exec cfg st a).1 :=
  h.of_exts (exec_sids cfg st a) (exec_uext cfg st a)

theorem runActs_ids (cfg : Cfg) : ∀ (fuel : Nat) (st : St) (acts : List Act) (obs : List Ob), Ids st →
    Ids (runActs cfg fuel st acts obs).1
  | 0, _, _, _, h => h
  | _+1, _, [], _, h => h
  | fuel+1, st, a :: rest, obs, h => by
    simp only [runActs]
    exact runActs_ids cfg fuel _ _ _ (exec_ids cfg st a h)

theorem Ids.of_tables {st st' : St} (h : Ids st) (hs : st'.sends = st.sends) (hu : st'.unawares = st.unawares) : Ids st' :=
  ⟨by simp [sids, hs, h.sends.symm], by simp [uids, hu, h.unawares.symm]⟩

theorem fireDue_ids (cfg : Cfg) : ∀ (n : Nat) (st : St) (obs : List Ob), Ids st → Ids (fireDue cfg n st obs).1
  | 0, _, _, h => h
  | n+1, st, obs, h => by
    simp only [fireDue]
    split
    · exact h
    · split
      · exact h
      · exact fireDue_ids cfg n _ _ (runActs_ids cfg _ _ _ _ (h.of_tables rfl rfl))

theorem cancelOp_ids (st : St) (o : Nat) (h : Ids st) : Ids (cancelOp st o).1 := by
  unfold cancelOp
  repeat' split
  all_goals (first | exact h | exact h.of_tables rfl rfl)

theorem Ids.addSend {st : St} (h : Ids st) (x : Send) (hx : x.s = st.sends.length) (st' : St)
    (hs : st'.sends = st.sends ++ [x]) (hu : st'.unawares = st.unawares) : Ids st' := by
  constructor
  · simp only [sids, hs, List.map_append, List.length_append, List.length_cons, List.length_nil, List.range_succ]
    have := h.sends; simp only [sids] at this
    rw [this]; simp [hx]
  · simp [uids, hu, h.unawares.symm]

theorem Ids.addUnaware {st : St} (h : Ids st) (x : Unaware) (hx : x.u = st.unawares.length) (st' : St)
    (hs : st'.sends = st.sends) (hu : st'.unawares = st.unawares ++ [x]) : Ids st' := by
  constructor
  · simp [sids, hs, h.sends.symm]
  · simp only [uids, hu, List.map_append, List.length_append, List.length_cons, List.length_nil, List.range_succ]
    have := h.unawares; simp only [uids] at this
    rw [this]; simp [hx]

theorem cloadJoin_ids {st : St} (h : Ids st) (w : Waiter) (g : String) : Ids (cloadJoin st w g).1 :=
  h.of_exts (sids_cloadJoin st w g) (uext_cloadJoin st w g)

theorem step_ids (cfg : Cfg) (st : St) (env : Env) (e : Ev) (h : Ids st) : Ids (step cfg st env e).1 := by
  have h0 : Ids { st with env := env } := h.of_tables rfl rfl
  cases e
  all_goals simp only [step]
  case load o topics =>
    exact runActs_ids cfg _ _ _ _ (h0.addUnaware _ rfl _ rfl rfl)
  case send o keys group foe expect =>
    split
    · exact runActs_ids cfg _ _ _ _ (h0.of_tables rfl rfl)
    · split
      · exact runActs_ids cfg _ _ _ _ (h0.of_tables rfl rfl)
      · exact runActs_ids cfg _ _ _ _ (h0.addSend _ rfl _ rfl rfl)
  case cload o g =>
    refine runActs_ids cfg _ _ _ _ (cloadJoin_ids (st := _) ?_ _ _)
    exact h0.of_tables rfl rfl
  case srtc o g minT =>
    split
    · exact runActs_ids cfg _ _ _ _ (h0.of_tables rfl rfl)
    · refine runActs_ids cfg _ _ _ _ (cloadJoin_ids (st := _) ?_ _ _)
      exact h0.of_tables rfl rfl
  case ltp o topics =>
    exact runActs_ids cfg _ _ _ _ (h0.of_tables rfl rfl)
  case cancel o =>
    exact runActs_ids cfg _ _ _ _ (cancelOp_ids _ o h0)
  case close o =>
    split
    · split
      · exact runActs_ids cfg _ _ _ _ h0
      · exact h0
    · exact runActs_ids cfg _ _ _ _ (h0.of_tables rfl rfl)
  case resetTopics ts => exact h0.of_tables rfl rfl
  case fire k r => exact runActs_ids cfg _ _ _ _ h0
  case down b => exact runActs_ids cfg _ _ _ _ h0
  case conn b v => exact h0.of_tables rfl rfl
  case bootOk j =>
    split
    · exact h0
    · refine Ids.of_exts h0 ?_ ?_
      · rfl
      · exact Or.inl (uids_setUnaware _ _ _ (fun y => rfl))
  case bootFail j =>
    split
    · exact h0
    · exact runActs_ids cfg _ _ _ _ h0
  case bootReply j p => exact runActs_ids cfg _ _ _ _ h0
  case bootLost j => exact runActs_ids cfg _ _ _ _ h0
  case advance dt =>
    split
    · exact h0
    · exact fireDue_ids cfg _ _ _ (h0.of_tables rfl rfl)

/-- in every reachable state the ids of sends and broker-unaware requests are their positions -/
theorem reachable_ids (cfg : Cfg) : ∀ (evs : List (Env × Ev)) (st : St), Ids st →
    Ids (evs.foldl (fun s e => (step cfg s e.1 e.2).1) st)
  | [], _, h => h
  | e :: rest, st, h => by
    simp only [List.foldl_cons]
    exact reachable_ids cfg rest _ (step_ids cfg st e.1 e.2 h)

end Afkak.ClientNet
