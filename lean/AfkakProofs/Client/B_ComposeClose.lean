import AfkakProofs.Client.B_Compose
/-!
# C20 through the composition: after `close()` nothing below the client connects or writes

`step_keeps`: a broker-client component that is closed stays closed through every composed step, and nothing it
emits in that step is a connect, a write or a timer (the broker-client theorem `C10_closed_quiet`, carried through
`route` / `deliver` / the clock).
`step_closed`: once the client component is closing and awaits no bootstrap connection, every composed step keeps
it so, the client layer emits nothing that connects, and no broker client is created.
`close_establishes`: the composed `close` event establishes that state (fuel permitting).
-/
namespace Afkak.ClientCompose
open Afkak Afkak.BrokerClient

def quietOb : BrokerClient.Ob → Bool
  | .connect .. | .write .. | .writeLost .. | .setTimer _ => false
  | _ => true

theorem quiet_all {l : List BrokerClient.Ob} (h : Monitor.C10.quiet l = true) : ∀ o ∈ l, quietOb o = true := by
  induction l with
  | nil => intro o ho; cases ho
  | cons a l ih =>
    intro o ho
    have hsplit : Monitor.C10.quiet l = true ∧ quietOb a = true := by
      cases a <;> simp_all [Monitor.C10.quiet, Monitor.C10.writes, Monitor.C10.connects, Monitor.C10.timers, quietOb]
    rcases List.mem_cons.mp ho with rfl | hm
    · exact hsplit.2
    · exact ih hsplit.1 o hm

/-- what a composed step shows of broker client `b0` is quiet -/
def OutOk (b0 : Nat) (out : List Ob) : Prop :=
  ∀ o ∈ out, match o with
    | .bc b o' => b = b0 → quietOb o' = true
    | .connect b _ _ => b ≠ b0
    | _ => True

theorem OutOk.nil (b0 : Nat) : OutOk b0 [] := by intro o ho; cases ho

theorem OutOk.append {b0 : Nat} {a b : List Ob} (ha : OutOk b0 a) (hb : OutOk b0 b) : OutOk b0 (a ++ b) := by
  intro o ho
  rcases List.mem_append.mp ho with h | h
  · exact ha o h
  · exact hb o h

theorem OutOk.cl (b0 : Nat) (l : List ClientNet.Ob) : OutOk b0 (l.map Ob.cl) := by
  intro o ho
  simp only [List.mem_map] at ho
  obtain ⟨x, _, rfl⟩ := ho
  trivial

theorem OutOk.mismatch (b0 : Nat) (w : String) : OutOk b0 [.mismatch w] := by
  intro o ho; simp only [List.mem_singleton] at ho; subst ho; trivial

theorem OutOk.badOp (b0 : Nat) (w : String) : OutOk b0 [.badOp w] := by
  intro o ho; simp only [List.mem_singleton] at ho; subst ho; trivial

/-- observations of ANOTHER broker client -/
theorem outOk_lift_other (s : St) (b b0 : Nat) (obs : List BrokerClient.Ob) (hne : b ≠ b0) : OutOk b0 (liftObs s b obs) := by
  intro o ho
  simp only [liftObs, List.mem_map] at ho
  obtain ⟨x, _, rfl⟩ := ho
  cases x
  case connect h p =>
    dsimp only
    cases s.addr[b]? with
    | none => trivial
    | some a => exact hne
  all_goals exact fun h => absurd h hne

/-- quiet observations of the broker client itself -/
theorem outOk_lift_quiet (s : St) (b0 : Nat) (obs : List BrokerClient.Ob) (hq : ∀ o ∈ obs, quietOb o = true) :
    OutOk b0 (liftObs s b0 obs) := by
  intro o ho
  simp only [liftObs, List.mem_map] at ho
  obtain ⟨x, hx, rfl⟩ := ho
  have := hq x hx
  cases x
  case connect h p => simp [quietOb] at this
  all_goals exact fun _ => this

structure Keep (b0 : Nat) (s : St) : Prop where
  inv : AllSInv s
  closed : ∃ x, s.bcs[b0]? = some x ∧ x.closed = true

theorem bcStep_keeps (cfg : Cfg) (s : St) (b b0 : Nat) (e : BrokerClient.Ev) (h : Keep b0 s) :
    Keep b0 (bcStep cfg s b e).1 ∧ OutOk b0 (liftObs (bcStep cfg s b e).1 b (bcStep cfg s b e).2) := by
  obtain ⟨x, hx, hc⟩ := h.closed
  by_cases hb : b = b0
  · subst hb
    obtain ⟨h1, h2⟩ := bcStep_closed cfg s b e x hx (h.inv x (List.mem_of_getElem? hx)) hc
    exact ⟨⟨bcStep_allSInv cfg s b e h.inv, h1⟩, outOk_lift_quiet _ _ _ (quiet_all h2)⟩
  · refine ⟨⟨bcStep_allSInv cfg s b e h.inv, x, ?_, hc⟩, outOk_lift_other _ _ _ _ hb⟩
    rw [bcStep_other cfg s b b0 e (Ne.symm hb)]; exact hx

theorem keep_of_bcs {b0 : Nat} {s s' : St} (h : Keep b0 s) (hs : s'.bcs = s.bcs) : Keep b0 s' :=
  ⟨allSInv_of_bcs h.inv hs, by rw [hs]; exact h.closed⟩

theorem keep_append {b0 : Nat} {s s' : St} (h : Keep b0 s) (hs : s'.bcs = s.bcs ++ [BrokerClient.St.init 0 0]) : Keep b0 s' := by
  obtain ⟨x, hx, hc⟩ := h.closed
  refine ⟨allSInv_append h.inv _ hs, x, ?_, hc⟩
  have hlt : b0 < s.bcs.length := by
    rcases Nat.lt_or_ge b0 s.bcs.length with h' | h'
    · exact h'
    · rw [List.getElem?_eq_none h'] at hx; cases hx
  rw [hs, List.getElem?_append_left hlt]; exact hx

theorem route_keeps (cfg : Cfg) (cl : ClientNet.St) (b0 : Nat) : ∀ (obs : List ClientNet.Ob) (s : St) (out : List Ob) (sy : List Sync),
    Keep b0 s → OutOk b0 out → Keep b0 (route cfg cl s obs out sy).1 ∧ OutOk b0 (route cfg cl s obs out sy).2.1
  | [], s, out, sy, h, ho => by simpa [route] using ⟨h, ho⟩
  | o :: rest, s, out, sy, h, ho => by
    unfold route
    split
    · split
      · exact route_keeps cfg cl b0 rest _ _ _ (keep_append h rfl) ho
      · exact route_keeps cfg cl b0 rest _ _ _ h (ho.append (OutOk.mismatch b0 _))
    · exact route_keeps cfg cl b0 rest _ _ _ (keep_of_bcs h rfl) ho
    · split
      · exact route_keeps cfg cl b0 rest _ _ _ h ho
      · rename_i b e _
        obtain ⟨h1, h2⟩ := bcStep_keeps cfg s b b0 e h
        exact route_keeps cfg cl b0 rest _ _ _ h1 (ho.append h2)

theorem clientStep_keeps (cfg : Cfg) (s : St) (b0 : Nat) (env : ClientNet.Env) (e : ClientNet.Ev) (h : Keep b0 s) :
    Keep b0 (clientStep cfg s env e).1 ∧ OutOk b0 (clientStep cfg s env e).2 := by
  simp only [clientStep]
  obtain ⟨h1, h2⟩ := route_keeps cfg (ClientNet.step cfg.cl s.cl env e).1 b0 (ClientNet.step cfg.cl s.cl env e).2
    { s with cl := (ClientNet.step cfg.cl s.cl env e).1 } [] [] (keep_of_bcs h rfl) (OutOk.nil b0)
  refine ⟨h1, ((OutOk.cl b0 _).append h2).append ?_⟩
  split
  · exact OutOk.nil b0
  · exact OutOk.mismatch b0 _

theorem deliver_keeps (cfg : Cfg) (p : Option ClientNet.Payload) (b0 : Nat) : ∀ (obs : List BrokerClient.Ob) (s : St)
    (envs : List ClientNet.Env) (out : List Ob), Keep b0 s → OutOk b0 out →
    Keep b0 (deliver cfg p s obs envs out).1 ∧ OutOk b0 (deliver cfg p s obs envs out).2
  | [], s, envs, out, h, ho => by simpa [deliver] using ⟨h, ho⟩
  | o :: rest, s, envs, out, h, ho => by
    unfold deliver
    split
    · dsimp only
      split
      · exact deliver_keeps cfg p b0 rest _ _ _ h (ho.append (OutOk.badOp b0 _))
      · obtain ⟨h1, h2⟩ := clientStep_keeps cfg s b0 (envs.headD {}) _ h
        exact deliver_keeps cfg p b0 rest _ _ _ h1 (ho.append h2)
    · exact deliver_keeps cfg p b0 rest _ _ _ h ho

theorem advanceBcs_keeps (cfg : Cfg) (dt : Rat) (b0 : Nat) : ∀ (bs : List Nat) (s : St) (out : List Ob),
    Keep b0 s → OutOk b0 out → Keep b0 (advanceBcs cfg dt s bs out).1 ∧ OutOk b0 (advanceBcs cfg dt s bs out).2
  | [], s, out, h, ho => by simpa [advanceBcs] using ⟨h, ho⟩
  | b :: rest, s, out, h, ho => by
    unfold advanceBcs
    obtain ⟨h1, h2⟩ := bcStep_keeps cfg s b b0 (.advance dt) h
    exact advanceBcs_keeps cfg dt b0 rest _ _ h1 (ho.append h2)

theorem keep_tickmap {b0 : Nat} (s : St) (h : Keep b0 s) (others : List Nat) (dt : Rat) (s' : St)
    (hs : s'.bcs = ((List.range s.bcs.length).zip s.bcs).map (fun e => if others.contains e.1 then tick e.2 dt else e.2)) :
    Keep b0 s' := by
  obtain ⟨x, hx, hc⟩ := h.closed
  refine ⟨allSInv_tickmap s h.inv others dt s' hs, ?_⟩
  have hlt : b0 < s.bcs.length := by
    rcases Nat.lt_or_ge b0 s.bcs.length with h' | h'
    · exact h'
    · rw [List.getElem?_eq_none h'] at hx; cases hx
  have hz : ((List.range s.bcs.length).zip s.bcs)[b0]? = some (b0, x) := by
    rw [List.getElem?_zip_eq_some]
    exact ⟨by simp [hlt], hx⟩
  rw [hs, List.getElem?_map, hz]
  simp only [Option.map_some]
  split
  · exact ⟨_, rfl, hc⟩
  · exact ⟨_, rfl, hc⟩

/-- **a closed broker client stays closed and quiet through every composed step** -/
theorem step_keeps (cfg : Cfg) (s : St) (b0 : Nat) (e : Ev) (h : Keep b0 s) :
    Keep b0 (step cfg s e).1 ∧ OutOk b0 (step cfg s e).2 := by
  cases e with
  | api env e =>
    simp only [step]
    split
    · exact ⟨h, OutOk.badOp b0 _⟩
    · exact clientStep_keeps cfg s b0 env e h
  | setSyncRefuse n => exact ⟨keep_of_bcs h rfl, OutOk.nil b0⟩
  | connOk b envs =>
    simp only [step]
    split
    · exact ⟨h, OutOk.badOp b0 _⟩
    · (try dsimp only)
      rename_i x hx
      have h0 : Keep b0 (if x.closed then s else { s with cl := (ClientNet.step cfg.cl s.cl {} (.conn b true)).1 }) := by
        split
        · exact h
        · exact keep_of_bcs h rfl
      obtain ⟨h1, h2⟩ := bcStep_keeps cfg _ b b0 .connOk h0
      exact deliver_keeps cfg none b0 _ _ _ _ h1 h2
  | connFail b =>
    simp only [step]
    exact bcStep_keeps cfg s b b0 .connFail h
  | lost b env =>
    simp only [step]
    split
    · exact ⟨h, OutOk.badOp b0 _⟩
    · (try dsimp only)
      obtain ⟨h1, h2⟩ := bcStep_keeps cfg s b b0 .lost h
      split
      · obtain ⟨h3, h4⟩ := clientStep_keeps cfg _ b0 env (.down b) h1
        exact ⟨h3, h2.append h4⟩
      · exact ⟨keep_of_bcs h1 rfl, h2⟩
  | reply b k p env =>
    simp only [step]
    split
    · exact ⟨h, OutOk.badOp b0 _⟩
    · split
      · exact ⟨h, OutOk.nil b0⟩
      · (try dsimp only)
        obtain ⟨h1, h2⟩ := bcStep_keeps cfg s b b0 (.bytesIn (Frame.encode (Frame.prefix32 k))) h
        exact deliver_keeps cfg (some p) b0 _ _ _ _ h1 h2
  | advance dt first after env =>
    simp only [step]
    split
    · exact ⟨h, OutOk.badOp b0 _⟩
    · split
      · exact ⟨h, OutOk.badOp b0 _⟩
      · (try dsimp only)
        have hA := advanceBcs_keeps cfg dt b0 (first.filter (fun b => decide (b < s.bcs.length))) s [] h (OutOk.nil b0)
        refine ⟨?_, ?_⟩
        · exact (advanceBcs_keeps cfg 0 b0 _ _ [] (clientStep_keeps cfg _ b0 env _ (keep_tickmap _ hA.1 _ dt _ rfl)).1 (OutOk.nil b0)).1
        · exact (hA.2.append (clientStep_keeps cfg _ b0 env _ (keep_tickmap _ hA.1 _ dt _ rfl)).2).append
            (advanceBcs_keeps cfg 0 b0 _ _ [] (clientStep_keeps cfg _ b0 env _ (keep_tickmap _ hA.1 _ dt _ rfl)).1 (OutOk.nil b0)).2

/-! ## what holds of every client-layer step holds of the client component of every composed step -/

theorem liftObs_no_cl (s : St) (b : Nat) (obs : List BrokerClient.Ob) (o : ClientNet.Ob) : Ob.cl o ∉ liftObs s b obs := by
  intro ho
  simp only [liftObs, List.mem_map] at ho
  obtain ⟨x, _, hx⟩ := ho
  cases x
  case connect h p =>
    dsimp only at hx
    cases hh : s.addr[b]? <;> rw [hh] at hx <;> cases hx
  all_goals cases hx

theorem route_out_cl (cfg : Cfg) (cl : ClientNet.St) (o : ClientNet.Ob) : ∀ (obs : List ClientNet.Ob) (s : St) (out : List Ob) (sy : List Sync),
    Ob.cl o ∈ (route cfg cl s obs out sy).2.1 → Ob.cl o ∈ out
  | [], s, out, sy, h => by simpa [route] using h
  | x :: rest, s, out, sy, h => by
    unfold route at h
    split at h
    · split at h
      · exact route_out_cl cfg cl o rest _ _ _ h
      · have := route_out_cl cfg cl o rest _ _ _ h
        rcases List.mem_append.mp this with h' | h'
        · exact h'
        · simp at h'
    · exact route_out_cl cfg cl o rest _ _ _ h
    · split at h
      · exact route_out_cl cfg cl o rest _ _ _ h
      · have := route_out_cl cfg cl o rest _ _ _ h
        rcases List.mem_append.mp this with h' | h'
        · exact h'
        · exact absurd h' (liftObs_no_cl _ _ _ _)

/-- `P` an invariant of the client layer's `step`, `Q` a property of everything a step from a `P`-state emits -/
structure ClStepInv (cfg : Cfg) (P : ClientNet.St → Prop) (Q : ClientNet.Ob → Prop) : Prop where
  pres : ∀ st env e, P st → P (ClientNet.step cfg.cl st env e).1
  obs : ∀ st env e, P st → ∀ o ∈ (ClientNet.step cfg.cl st env e).2, Q o

def ClOut (Q : ClientNet.Ob → Prop) (out : List Ob) : Prop := ∀ o, Ob.cl o ∈ out → Q o

theorem ClOut.append {Q : ClientNet.Ob → Prop} {a b : List Ob} (ha : ClOut Q a) (hb : ClOut Q b) : ClOut Q (a ++ b) := by
  intro o ho
  rcases List.mem_append.mp ho with h | h
  · exact ha o h
  · exact hb o h

theorem ClOut.lift (Q : ClientNet.Ob → Prop) (s : St) (b : Nat) (obs : List BrokerClient.Ob) : ClOut Q (liftObs s b obs) :=
  fun o ho => absurd ho (liftObs_no_cl s b obs o)

theorem ClOut.nil (Q : ClientNet.Ob → Prop) : ClOut Q [] := fun _ ho => by cases ho

theorem ClOut.single_badOp (Q : ClientNet.Ob → Prop) (w : String) : ClOut Q [.badOp w] := fun _ ho => by simp at ho

theorem clientStep_gen (cfg : Cfg) {P : ClientNet.St → Prop} {Q : ClientNet.Ob → Prop} (I : ClStepInv cfg P Q) (s : St)
    (env : ClientNet.Env) (e : ClientNet.Ev) (h : P s.cl) : P (clientStep cfg s env e).1.cl ∧ ClOut Q (clientStep cfg s env e).2 := by
  refine ⟨by rw [clientStep_cl]; exact I.pres _ _ _ h, ?_⟩
  intro o ho
  simp only [clientStep] at ho
  rcases List.mem_append.mp ho with ho | ho
  · rcases List.mem_append.mp ho with ho | ho
    · simp only [List.mem_map, Ob.cl.injEq, exists_eq_right] at ho
      exact I.obs _ _ _ h o ho
    · have := route_out_cl cfg _ o _ _ _ _ ho
      cases this
  · split at ho
    · cases ho
    · simp at ho

theorem deliver_gen (cfg : Cfg) {P : ClientNet.St → Prop} {Q : ClientNet.Ob → Prop} (I : ClStepInv cfg P Q)
    (p : Option ClientNet.Payload) : ∀ (obs : List BrokerClient.Ob) (s : St) (envs : List ClientNet.Env) (out : List Ob),
    P s.cl → ClOut Q out → P (deliver cfg p s obs envs out).1.cl ∧ ClOut Q (deliver cfg p s obs envs out).2
  | [], s, envs, out, h, ho => by simpa [deliver] using ⟨h, ho⟩
  | o :: rest, s, envs, out, h, ho => by
    unfold deliver
    split
    · dsimp only
      split
      · exact deliver_gen cfg I p rest _ _ _ h (ho.append (ClOut.single_badOp Q _))
      · obtain ⟨h1, h2⟩ := clientStep_gen cfg I s (envs.headD {}) _ h
        exact deliver_gen cfg I p rest _ _ _ h1 (ho.append h2)
    · exact deliver_gen cfg I p rest _ _ _ h ho

theorem advanceBcs_out (cfg : Cfg) (dt : Rat) (Q : ClientNet.Ob → Prop) : ∀ (bs : List Nat) (s : St) (out : List Ob),
    ClOut Q out → ClOut Q (advanceBcs cfg dt s bs out).2
  | [], s, out, ho => by simpa [advanceBcs] using ho
  | b :: rest, s, out, ho => by
    unfold advanceBcs
    exact advanceBcs_out cfg dt Q rest _ _ (ho.append (ClOut.lift Q _ _ _))

/-- **every invariant of the client layer is an invariant of the client component of the composition, and what the
    client layer never emits from such a state is never emitted by the composition** -/
theorem step_gen (cfg : Cfg) {P : ClientNet.St → Prop} {Q : ClientNet.Ob → Prop} (I : ClStepInv cfg P Q) (s : St) (e : Ev)
    (h : P s.cl) : P (step cfg s e).1.cl ∧ ClOut Q (step cfg s e).2 := by
  cases e with
  | api env e =>
    simp only [step]
    split
    · exact ⟨h, ClOut.single_badOp Q _⟩
    · exact clientStep_gen cfg I s env e h
  | setSyncRefuse n => exact ⟨h, ClOut.nil Q⟩
  | connOk b envs =>
    simp only [step]
    split
    · exact ⟨h, ClOut.single_badOp Q _⟩
    · (try dsimp only)
      rename_i x hx
      apply deliver_gen cfg I
      · rw [bcStep_cl]
        split
        · exact h
        · exact I.pres _ _ _ h
      · exact ClOut.lift Q _ _ _
  | connFail b =>
    simp only [step]
    exact ⟨by rw [bcStep_cl]; exact h, ClOut.lift Q _ _ _⟩
  | lost b env =>
    simp only [step]
    split
    · exact ⟨h, ClOut.single_badOp Q _⟩
    · (try dsimp only)
      split
      · obtain ⟨h1, h2⟩ := clientStep_gen cfg I (bcStep cfg s b .lost).1 env (.down b) (by rw [bcStep_cl]; exact h)
        exact ⟨h1, (ClOut.lift Q _ _ _).append h2⟩
      · refine ⟨?_, ClOut.lift Q _ _ _⟩
        show P (ClientNet.step cfg.cl (bcStep cfg s b .lost).1.cl {} (.conn b false)).1
        rw [bcStep_cl]; exact I.pres _ _ _ h
  | reply b k p env =>
    simp only [step]
    split
    · exact ⟨h, ClOut.single_badOp Q _⟩
    · split
      · exact ⟨h, ClOut.nil Q⟩
      · (try dsimp only)
        exact deliver_gen cfg I (some p) _ _ _ _ (by rw [bcStep_cl]; exact h) (ClOut.lift Q _ _ _)
  | advance dt first after env =>
    simp only [step]
    split
    · exact ⟨h, ClOut.single_badOp Q _⟩
    · split
      · exact ⟨h, ClOut.single_badOp Q _⟩
      · (try dsimp only)
        have hA : P (advanceBcs cfg dt s (first.filter (fun b => decide (b < s.bcs.length))) []).1.cl := by
          rw [advanceBcs_cl]; exact h
        refine ⟨?_, ?_⟩
        · rw [advanceBcs_cl]
          exact (clientStep_gen cfg I _ env (.advance dt) (by exact hA)).1
        · exact ((advanceBcs_out cfg dt Q _ s [] (ClOut.nil Q)).append
            (clientStep_gen cfg I _ env (.advance dt) (by exact hA)).2).append
            (advanceBcs_out cfg 0 Q _ _ [] (ClOut.nil Q))

theorem run_gen (cfg : Cfg) {P : ClientNet.St → Prop} {Q : ClientNet.Ob → Prop} (I : ClStepInv cfg P Q) :
    ∀ (evs : List Ev) (s : St), P s.cl → P (run cfg s evs).cl
  | [], _, h => h
  | e :: es, s, h => run_gen cfg I es _ (step_gen cfg I s e h).1

/-! ## the closed client in the composition -/

structure Closed (st : ClientNet.St) : Prop where
  closing : st.closing = true
  nbc : ClientNet.NoBootConn st

theorem closedInv (cfg : Cfg) : ClStepInv cfg Closed (fun o => o.connects = false) where
  pres st env e h := ⟨(ClientNet.step_closing cfg.cl st env e h.closing h.nbc).1, ClientNet.step_closing_nbc cfg.cl st env e h.closing h.nbc⟩
  obs st env e h := (ClientNet.step_closing cfg.cl st env e h.closing h.nbc).2

theorem bootInvC (cfg : Cfg) : ClStepInv cfg ClientNet.BootInv (fun _ => True) where
  pres st env e h := ClientNet.step_bootInv cfg.cl st env e h
  obs _ _ _ _ _ _ := trivial

/-- no broker client is created by a step whose client-level observations do not connect -/
theorem route_len (cfg : Cfg) (cl : ClientNet.St) : ∀ (obs : List ClientNet.Ob) (s : St) (out : List Ob) (sy : List Sync),
    (∀ o ∈ obs, o.connects = false) → (route cfg cl s obs out sy).1.bcs.length = s.bcs.length
  | [], s, out, sy, _ => by simp [route]
  | x :: rest, s, out, sy, h => by
    have hr : ∀ o ∈ rest, o.connects = false := fun o ho => h o (List.mem_cons_of_mem _ ho)
    unfold route
    split
    · have := h _ (List.mem_cons_self)
      simp [ClientNet.Ob.connects] at this
    · rw [route_len cfg cl rest _ _ _ hr]
    · split
      · rw [route_len cfg cl rest _ _ _ hr]
      · rw [route_len cfg cl rest _ _ _ hr, bcStep_len]

/-- the composed `close` event on an open client establishes `Closed` (if the step does not exhaust the fuel) -/
theorem close_establishes (cfg : Cfg) (s : St) (env : ClientNet.Env) (o : Nat) (hinv : ClientNet.BootInv s.cl)
    (hc : s.cl.closing = false) (hf : ClientNet.Ob.badOp "fuel" ∉ (ClientNet.step cfg.cl s.cl env (.close o)).2) :
    Closed (step cfg s (.api env (.close o))).1.cl := by
  have : (step cfg s (.api env (.close o))).1.cl = (ClientNet.step cfg.cl s.cl env (.close o)).1 := by
    simp only [step, internal, Bool.false_eq_true, if_false]
    exact clientStep_cl cfg s env _
  rw [this]
  constructor
  · simp only [ClientNet.step, hc, Bool.false_eq_true, if_false]
    exact ClientNet.runActs_closing_state cfg.cl ClientNet.fuel _ _ _ rfl
  · intro x hx j rest hh
    have := ClientNet.close_no_boot cfg.cl s.cl env o hinv hc hf x hx
    rw [hh] at this
    cases this

end Afkak.ClientCompose
