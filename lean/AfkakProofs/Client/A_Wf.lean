import AfkakProofs.Client.A_Kept
import AfkakProofs.Client.Merge
/-! Every reachable state of the client model has a well-formed cache (`CWf`, `BrokersKeyed`): the hypotheses of the
    C08 kernel theorems hold wherever the coroutine applies a cache operation. -/
namespace Afkak.ClientNet
open Afkak.ClientCache

def WfC (c : Cache) : Prop := CWf c ∧ BrokersKeyed c

theorem WfC.of_eq {c c' : Cache} (h : WfC c) (h1 : c'.t2b = c.t2b) (h2 : c'.topicParts = c.topicParts)
    (h3 : c'.topicErrs = c.topicErrs) (h4 : c'.brokers = c.brokers) (h5 : c'.groups = c.groups) : WfC c' := by
  obtain ⟨hw, hk⟩ := h
  refine ⟨⟨by rw [h1]; exact hw.t2bKeys, by rw [h2]; exact hw.partsKeys, by rw [h3]; exact hw.errsKeys,
    by rw [h4]; exact hw.brokersKeys, by rw [h5]; exact hw.groupsKeys, by rw [h1, h2]; exact hw.listed⟩, ?_⟩
  intro e he; rw [h4] at he; exact hk e he

theorem resetAll_wfc {c : Cache} (h : WfC c) : WfC (resetAll c) := by
  obtain ⟨hw, hk⟩ := h
  exact ⟨⟨by simp [resetAll], by simp [resetAll], by simp [resetAll], hw.brokersKeys, by simp [resetAll],
    by simp [resetAll]⟩, hk⟩

theorem resetTopic_wfc {c : Cache} (h : WfC c) (t : String) : WfC (resetTopic c t) := ⟨resetTopic_wf h.1 t, h.2⟩
theorem resetGroup_wfc {c : Cache} (h : WfC c) (g : String) : WfC (resetGroup c g) := ⟨resetGroup_wf h.1 g, h.2⟩

theorem resetTopics_wfc : ∀ (ts : List String) {c : Cache}, WfC c → WfC (resetTopics c ts)
  | [], _, h => h
  | t :: ts, c, h => by
    simp only [resetTopics, List.foldl_cons]
    exact resetTopics_wfc ts (resetTopic_wfc h t)

theorem examineRest_wfc (grp : Option String) (f : Raised) : ∀ (rs : List (String × Int)) {c : Cache}, WfC c →
    WfC (examineRest grp f c rs).1
  | [], _, h => h
  | (t, e) :: rs, c, h => by
    simp only [examineRest]
    repeat' split
    all_goals (first
      | exact h
      | exact examineRest_wfc _ f rs h
      | exact examineRest_wfc _ f rs (resetTopic_wfc h _)
      | exact examineRest_wfc _ f rs (resetGroup_wfc h _))

theorem afterFirst_wfc (grp : Option String) (f : Raised) {c : Cache} (h : WfC c) (rs : List (String × Int)) :
    WfC (afterFirst grp f c rs).1 := by
  unfold afterFirst
  split
  · exact examineRest_wfc grp f rs h
  · exact h

theorem handleResponses_wfc (foe : Bool) (grp : Option String) : ∀ (rs : List (String × Int)) {c : Cache}, WfC c →
    WfC (handleResponses c foe grp rs).1
  | [], _, h => h
  | (t, e) :: rs, c, h => by
    simp only [handleResponses]
    repeat' split
    all_goals (first
      | exact h
      | exact handleResponses_wfc foe _ rs h
      | exact handleResponses_wfc foe _ rs (resetTopic_wfc h _)
      | exact handleResponses_wfc foe _ rs (resetGroup_wfc h _)
      | exact afterFirst_wfc _ _ h _
      | exact afterFirst_wfc _ _ (resetTopic_wfc h _) _
      | exact afterFirst_wfc _ _ (resetGroup_wfc h _) _)

theorem dictBrokers_keyed (bs : List Broker) : ∀ e ∈ dictOfList (bs.map (fun b => (b.nodeId, b))), e.1 = e.2.nodeId :=
  dictOfList_keyed (fun b : Broker => b.nodeId) bs

theorem updateBrokersDict_wfc {c : Cache} (h : WfC c) (bs : List Broker) (rm : Bool) :
    WfC (updateBrokersDict c (dictOfList (bs.map (fun b => (b.nodeId, b)))) rm).1 := by
  have := updateBrokersDict_spec h.1 h.2 _ (dictOfList_nodup _) (dictBrokers_keyed bs) rm
  exact ⟨this.1, this.2.1⟩

theorem foldl_mergeTopic_wfc (ts : List TopicMeta) {c : Cache} (h : WfC c) :
    WfC ((dictOfList (ts.map (fun t => (t.name, t)))).foldl (fun c e => mergeTopic c e.2) c) := by
  have hkey : ∀ e ∈ dictOfList (ts.map (fun t => (t.name, t))), e.1 = e.2.name :=
    dictOfList_keyed (fun t : TopicMeta => t.name) ts
  have := mergeAll_spec (dictOfList (ts.map (fun t => (t.name, t)))) c h.1 h.2 (dictOfList_nodup _) hkey
  refine ⟨this.1, ?_⟩
  intro e he
  have hb : ((dictOfList (ts.map (fun t => (t.name, t)))).foldl (fun c e => mergeTopic c e.2) c).brokers = c.brokers :=
    foldl_mergeTopic_brokers _ _
  rw [hb] at he
  exact h.2 e he

theorem setCoord_wfc {c : Cache} (h : WfC c) (g : String) (b : Broker) :
    WfC (updateBrokers { c with groups := upsert g b c.groups } [b] false).1 := by
  unfold updateBrokers
  have h1 : WfC { c with groups := upsert g b c.groups } := by
    obtain ⟨hw, hk⟩ := h
    exact ⟨⟨hw.t2bKeys, hw.partsKeys, hw.errsKeys, hw.brokersKeys, keys_upsert_nodup _ hw.groupsKeys, hw.listed⟩, hk⟩
  exact updateBrokersDict_wfc h1 [b] false

theorem getBrokerClient_wfc {st st' : St} {n : Int} {b : Nat} {obs : List Ob}
    (h : WfC st.cache) (hg : getBrokerClient st n = .ok (st', b, obs)) : WfC st'.cache := by
  unfold getBrokerClient at hg
  split at hg
  · cases hg
  · split at hg
    · cases hg; exact h
    · split at hg
      · cases hg
      · cases hg; exact h.of_eq rfl rfl rfl rfl rfl

theorem issueTo_wfc_ok {cfg : Cfg} {st : St} {n : Int} {o : ReqOwner} {e : Bool} {w : ReqWhat} {m : Option Rat} {rj : Bool}
    {i : IssueOk} (h : WfC st.cache) (hi : issueTo cfg st n o e w m rj = .ok i) : WfC i.st.cache := by
  obtain ⟨st1, b, obs1, hg, h1, _, _, _⟩ := issueTo_ok hi
  have := getBrokerClient_wfc h hg
  rw [h1]; exact this

theorem issueTo_wfc_err {cfg : Cfg} {st : St} {n : Int} {o : ReqOwner} {e : Bool} {w : ReqWhat} {m : Option Rat} {rj : Bool}
    {er : IssueErr} (h : WfC st.cache) (he : issueTo cfg st n o e w m rj = .error er) : WfC er.st.cache := by
  rcases issueTo_err he with ⟨h1, _⟩ | ⟨b, hg⟩
  · rw [h1]; exact h
  · exact getBrokerClient_wfc h hg

theorem exec_wfc (cfg : Cfg) (st : St) (a : Act) (h : WfC st.cache) : WfC (exec cfg st a).1.cache := by
  cases a
  all_goals simp only [exec]
  all_goals (repeat' split)
  all_goals (try dsimp only)
  all_goals (first
    | exact h
    | exact h.of_eq rfl rfl rfl rfl rfl
    | (rename_i hs; rw [shuffle_cache hs]; exact h)
    | (rw [cloadJoin_cache]; exact h)
    | (rw [reqDone_cache]; exact h)
    | (rename_i he; exact issueTo_wfc_err h he)
    | (rename_i hi; exact issueTo_wfc_ok h hi)
    | exact updateBrokersDict_wfc h _ _
    | exact setCoord_wfc (c := st.cache) h _ _
    | exact foldl_mergeTopic_wfc _ h
    | exact handleResponses_wfc _ _ _ h
    | exact resetAll_wfc h
    | exact resetGroup_wfc h _
    | exact resetAll_wfc (c := st.cache) h
    | exact resetGroup_wfc (c := st.cache) h _)

theorem runActs_wfc (cfg : Cfg) : ∀ (fuel : Nat) (st : St) (acts : List Act) (obs : List Ob),
    WfC st.cache → WfC (runActs cfg fuel st acts obs).1.cache
  | 0, _, _, _, h => h
  | _+1, _, [], _, h => h
  | fuel+1, st, a :: rest, obs, h => by
    simp only [runActs]
    exact runActs_wfc cfg fuel _ _ _ (exec_wfc cfg st a h)

theorem fireDue_wfc (cfg : Cfg) : ∀ (n : Nat) (st : St) (obs : List Ob), WfC st.cache → WfC (fireDue cfg n st obs).1.cache
  | 0, _, _, h => h
  | n+1, st, obs, h => by
    simp only [fireDue]
    split
    · exact h
    · split
      · exact h
      · exact fireDue_wfc cfg n _ _ (runActs_wfc cfg _ _ _ _ h)

theorem step_wfc (cfg : Cfg) (st : St) (env : Env) (e : Ev) (h : WfC st.cache) : WfC (step cfg st env e).1.cache := by
  cases e
  all_goals simp only [step]
  all_goals (repeat' split)
  all_goals (first
    | exact h
    | exact runActs_wfc cfg _ _ _ _ h
    | exact runActs_wfc cfg _ _ _ _ (by rw [cloadJoin_cache]; exact h)
    | exact runActs_wfc cfg _ _ _ _ (by rw [cancelOp_cache]; exact h)
    | exact runActs_wfc cfg _ _ _ _ (h.of_eq rfl rfl rfl rfl rfl)
    | exact resetTopics_wfc _ h
    | exact fireDue_wfc cfg _ _ _ h)

/-- every reachable state of the client model has a well-formed cache -/
theorem reachable_wfc (cfg : Cfg) : ∀ (evs : List (Env × Ev)) (st : St), WfC st.cache →
    WfC (evs.foldl (fun s e => (step cfg s e.1 e.2).1) st).cache
  | [], _, h => h
  | e :: rest, st, h => by
    simp only [List.foldl_cons]
    exact reachable_wfc cfg rest _ (step_wfc cfg st e.1 e.2 h)

end Afkak.ClientNet
