import Afkak.ClientNet
import AfkakProofs.Client.Net
import AfkakProofs.Client.B_BcInv
import AfkakProofs.Client.B_CloseAll
/-!
# `close()` fails every request in flight (C20)

`RInv st acts`: a request that is still pending on a broker client that has been told to close has its failure
(`fireReq k …`, pushed by `closeBc`) on the action stack; a broker client is told to close only after it left
`self.clients`.  Holds through every action (`exec_rinv`), so when a step ends (empty stack, no fuel exhaustion) no
request is pending on a closed broker client; after `close()` - which closes every broker client
(`close_closes_all`) - no request is pending at all, and it stays so (`closed_no_pending`).
-/
namespace Afkak.ClientNet
open Afkak.ClientCache Afkak.Consts

structure RInv (st : St) (acts : List Act) : Prop where
  rids : ∀ (k : Nat) (q : Req), st.reqs[k]? = some q → q.k = k
  closedOut : ∀ i ∈ st.bcs, i.closed = true → i.inClients = false
  stackOut : ∀ b, Act.closeBc b ∈ acts → b < st.bcs.length ∧ ∀ i ∈ st.bcs, i.b = b → i.inClients = false
  owed : ∀ q ∈ st.reqs, q.pending = true → ∀ i ∈ st.bcs, i.b = q.b → i.closed = true → ∃ r n, Act.fireReq q.k r n ∈ acts

theorem RInv.init : RInv ({} : St) [] := ⟨by simp, by simp, by simp, by simp⟩

theorem rids_unique {reqs : List Req} (h : ∀ (k : Nat) (q : Req), reqs[k]? = some q → q.k = k) {q q' : Req} (hq : q ∈ reqs) (hq' : q' ∈ reqs)
    (hk : q.k = q'.k) : q = q' := by
  obtain ⟨i, hi, hiq⟩ := List.getElem_of_mem hq
  obtain ⟨j, hj, hjq⟩ := List.getElem_of_mem hq'
  have h1 := h i q (by rw [List.getElem?_eq_getElem hi, hiq])
  have h2 := h j q' (by rw [List.getElem?_eq_getElem hj, hjq])
  have : i = j := by omega
  subst this
  rw [← hiq, ← hjq]

theorem reqGet_mem {st : St} {k : Nat} {q : Req} (h : reqGet st k = some q) : q ∈ st.reqs ∧ q.k = k := by
  unfold reqGet at h
  have := List.mem_of_mem_head? h
  simp only [List.mem_filter, beq_iff_eq] at this
  exact this

/-- the frame rule: an action other than `closeBc` that keeps the old instances' `b`/`closed` flags, only takes
    instances out of `self.clients`, adds open instances at the end, keeps the pending requests' `k`/`b` (new pending
    requests only on open instances), and pushes `closeBc` only for instances that left `self.clients` -/
theorem RInv.frame {st st1 : St} {a : Act} {rest acts1 : List Act} (h : RInv st (a :: rest))
    (hcl : ∀ b, a ≠ .closeBc b)
    (hlen : st.bcs.length ≤ st1.bcs.length)
    (hbc : ∀ i1 ∈ st1.bcs, (∃ i ∈ st.bcs, i1.b = i.b ∧ i1.closed = i.closed ∧ (i.inClients = false → i1.inClients = false)) ∨
      (i1.closed = false ∧ st.bcs.length ≤ i1.b))
    (hrid : ∀ (k : Nat) (q : Req), st1.reqs[k]? = some q → q.k = k)
    (hrr : ∀ q1 ∈ st1.reqs, q1.pending = true → (∃ q ∈ st.reqs, q.k = q1.k ∧ q.b = q1.b ∧ q.pending = true) ∨
      (∀ i1 ∈ st1.bcs, i1.b = q1.b → i1.closed = false))
    (hnew : ∀ b, Act.closeBc b ∈ acts1 → b < st1.bcs.length ∧ ∀ i ∈ st1.bcs, i.b = b → i.inClients = false)
    (hkeep : ∀ q ∈ st.reqs, q.pending = true → (∃ r n, a = .fireReq q.k r n) →
      (∃ r n, Act.fireReq q.k r n ∈ acts1 ++ rest) ∨ ∀ q1 ∈ st1.reqs, q1.k = q.k → q1.pending = false) :
    RInv st1 (acts1 ++ rest) := by
  constructor
  · exact hrid
  · intro i1 hi1 hc
    rcases hbc i1 hi1 with ⟨i, hi, _, h2, h3⟩ | ⟨h1, _⟩
    · exact h3 (h.closedOut i hi (h2 ▸ hc))
    · rw [h1] at hc; cases hc
  · intro b hb
    rcases List.mem_append.mp hb with hb | hb
    · exact hnew b hb
    · obtain ⟨h1, h2⟩ := h.stackOut b (List.mem_cons_of_mem _ hb)
      refine ⟨by omega, ?_⟩
      intro i1 hi1 hib
      rcases hbc i1 hi1 with ⟨i, hi, e1, _, e3⟩ | ⟨_, hge⟩
      · exact e3 (h2 i hi (e1 ▸ hib))
      · omega
  · intro q1 hq1 hp i1 hi1 hib hc
    rcases hrr q1 hq1 hp with ⟨q, hq, ek, eb, hqp⟩ | hopen
    · rcases hbc i1 hi1 with ⟨i, hi, e1, e2, _⟩ | ⟨h1, _⟩
      · obtain ⟨r, n, hm⟩ := h.owed q hq hqp i hi (by rw [← e1, hib, eb]) (e2 ▸ hc)
        rcases List.mem_cons.mp hm with hm | hm
        · rcases hkeep q hq hqp ⟨r, n, hm.symm⟩ with ⟨r', n', hw⟩ | hnp
          · exact ⟨r', n', ek ▸ hw⟩
          · have := hnp q1 hq1 ek.symm
            rw [this] at hp; cases hp
        · exact ⟨r, n, ek ▸ List.mem_append_right _ hm⟩
      · rw [h1] at hc; cases hc
    · have := hopen i1 hi1 hib
      rw [this] at hc; cases hc

/-- nothing the invariant talks about changes, no `closeBc` is pushed -/
theorem RInv.same {st st1 : St} {a : Act} {rest acts1 : List Act} (h : RInv st (a :: rest))
    (hcl : ∀ b, a ≠ .closeBc b) (hf : ∀ k r n, a ≠ .fireReq k r n)
    (hb : st1.bcs = st.bcs) (hr : st1.reqs = st.reqs) (hnew : ∀ b, Act.closeBc b ∉ acts1) : RInv st1 (acts1 ++ rest) := by
  apply h.frame hcl (by rw [hb]) ?_ (by rw [hr]; exact h.rids) ?_ (fun b hm => absurd hm (hnew b))
    (fun q _ _ ⟨r, n, e⟩ => absurd e (hf _ _ _))
  · intro i1 hi1; rw [hb] at hi1; exact Or.inl ⟨i1, hi1, rfl, rfl, id⟩
  · intro q1 hq1 hp; rw [hr] at hq1; exact Or.inl ⟨q1, hq1, rfl, rfl, hp⟩

/-- the state changes in what the invariant does not talk about; the stack is as it was -/
theorem RInv.of_eq {st st1 : St} {acts : List Act} (h : RInv st acts) (hb : st1.bcs = st.bcs) (hr : st1.reqs = st.reqs) :
    RInv st1 acts :=
  ⟨by rw [hr]; exact h.rids, by rw [hb]; exact h.closedOut, by rw [hb]; exact h.stackOut, by rw [hb, hr]; exact h.owed⟩

theorem shuffle_reqs {α} {st st' : St} {xs ys : List α} (h : shuffle st xs = some (st', ys)) : st'.reqs = st.reqs := by
  unfold shuffle at h
  split at h
  · cases h
  · simp only [Option.map_eq_some_iff] at h
    obtain ⟨_, _, heq⟩ := h
    cases heq; rfl

theorem reqDone_reqs (st : St) (o : ReqOwner) (k : Nat) (r : Res) : (reqDone st o k r).1.reqs = st.reqs := by
  unfold reqDone
  split
  · split <;> (try split) <;> rfl
  · rfl
  · rfl

theorem cloadJoin_reqs (st : St) (w : Waiter) (g : String) : (cloadJoin st w g).1.reqs = st.reqs := by
  unfold cloadJoin; split <;> rfl

theorem reqDone_noCloseBc (st : St) (o : ReqOwner) (k : Nat) (r : Res) (b : Nat) : Act.closeBc b ∉ (reqDone st o k r).2 := by
  unfold reqDone
  split
  · split <;> (try split) <;> simp
  · simp
  · simp

theorem cloadJoin_noCloseBc (st : St) (w : Waiter) (g : String) (b : Nat) : Act.closeBc b ∉ (cloadJoin st w g).2 := by
  unfold cloadJoin; split <;> simp

theorem cancelUnaware_noCloseBc (x : Unaware) (b : Nat) : Act.closeBc b ∉ (cancelUnaware x).2 := by
  unfold cancelUnaware; split <;> simp

theorem deliverLoad_noCloseBc (lo : LOwner) (r : Res) (b : Nat) : Act.closeBc b ∉ deliverLoad lo r := by
  unfold deliverLoad; split <;> simp

end Afkak.ClientNet
