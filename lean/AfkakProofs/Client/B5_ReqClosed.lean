import Afkak.ClientNet
import AfkakProofs.Client.Net
import AfkakProofs.Client.B_BcInv
import AfkakProofs.Client.B_CloseAll
/-!
# `close()` fails every request in flight (C20)

`RcInv st acts`: a request that is still pending on a broker client that has been told to close has its failure
(`fireReq k …`, pushed by `closeBc`) on the action stack; a broker client is told to close only after it left
`self.clients`.  Holds through every action (`exec_rinv`), so when a step ends (empty stack, no fuel exhaustion) no
request is pending on a closed broker client; after `close()` - which closes every broker client
(`close_closes_all`) - no request is pending at all, and it stays so (`closed_no_pending`).
-/
namespace Afkak.ClientNet
open Afkak.ClientCache Afkak.Consts

structure RcInv (st : St) (acts : List Act) : Prop where
  rids : ∀ (k : Nat) (q : Req), st.reqs[k]? = some q → q.k = k
  closedOut : ∀ i ∈ st.bcs, i.closed = true → i.inClients = false
  stackOut : ∀ b, Act.closeBc b ∈ acts → b < st.bcs.length ∧ ∀ i ∈ st.bcs, i.b = b → i.inClients = false
  owed : ∀ q ∈ st.reqs, q.pending = true → ∀ i ∈ st.bcs, i.b = q.b → i.closed = true → ∃ r n, Act.fireReq q.k r n ∈ acts
  /-- a pending request was handed to a broker client that exists -/
  hasBc : ∀ q ∈ st.reqs, q.pending = true → ∃ i ∈ st.bcs, i.b = q.b

theorem RcInv.init : RcInv ({} : St) [] := ⟨by simp, by simp, by simp, by simp, by simp⟩

theorem rids_unique {reqs : List Req} (h : ∀ (k : Nat) (q : Req), reqs[k]? = some q → q.k = k) {q q' : Req} (hq : q ∈ reqs) (hq' : q' ∈ reqs)
    (hk : q.k = q'.k) : q = q' := by
  obtain ⟨i, hi, hiq⟩ := List.getElem_of_mem hq
  obtain ⟨j, hj, hjq⟩ := List.getElem_of_mem hq'
  have h1 := h i q (by rw [List.getElem?_eq_getElem hi, hiq])
  have h2 := h j q' (by rw [List.getElem?_eq_getElem hj, hjq])
  have : i = j := by omega
  subst this
  rw [← hiq, ← hjq]

theorem RcInv.frame {st st1 : St} {a : Act} {rest acts1 : List Act} (h : RcInv st (a :: rest))
    (_hcl : ∀ b, a ≠ .closeBc b)
    (hlen : st.bcs.length ≤ st1.bcs.length)
    (hbc : ∀ i1 ∈ st1.bcs, (∃ i ∈ st.bcs, i1.b = i.b ∧ i1.closed = i.closed ∧ (i.inClients = false → i1.inClients = false)) ∨
      (i1.closed = false ∧ st.bcs.length ≤ i1.b))
    (hfwd : ∀ i ∈ st.bcs, ∃ i1 ∈ st1.bcs, i1.b = i.b)
    (hrid : ∀ (k : Nat) (q : Req), st1.reqs[k]? = some q → q.k = k)
    (hrr : ∀ q1 ∈ st1.reqs, q1.pending = true → (∃ q ∈ st.reqs, q.k = q1.k ∧ q.b = q1.b ∧ q.pending = true) ∨
      ((∃ i1 ∈ st1.bcs, i1.b = q1.b) ∧ ∀ i1 ∈ st1.bcs, i1.b = q1.b → i1.closed = false))
    (hnew : ∀ b, Act.closeBc b ∈ acts1 → b < st1.bcs.length ∧ ∀ i ∈ st1.bcs, i.b = b → i.inClients = false)
    (hkeep : ∀ q ∈ st.reqs, q.pending = true → (∃ r n, a = .fireReq q.k r n) →
      (∃ r n, Act.fireReq q.k r n ∈ acts1 ++ rest) ∨ ∀ q1 ∈ st1.reqs, q1.k = q.k → q1.pending = false) :
    RcInv st1 (acts1 ++ rest) := by
  constructor
  · exact hrid
  · intro i1 hi1 hc
    rcases hbc i1 hi1 with ⟨i, hi, _, h2, h3⟩ | ⟨h1, _⟩
    · exact h3 (h.closedOut i hi (h2 ▸ hc))
    · rw [h1] at hc; cases hc
  · intro b hb
    rcases List.mem_append.mp hb with hb | hb
    · exact hnew b hb
    · obtain ⟨h1, h2⟩ := h.stackOut b (List.mem_cons_of_mem _ hb)
      refine ⟨by omega, ?_⟩
      intro i1 hi1 hib
      rcases hbc i1 hi1 with ⟨i, hi, e1, _, e3⟩ | ⟨_, hge⟩
      · exact e3 (h2 i hi (e1 ▸ hib))
      · omega
  · intro q1 hq1 hp i1 hi1 hib hc
    rcases hrr q1 hq1 hp with ⟨q, hq, ek, eb, hqp⟩ | hopen
    · rcases hbc i1 hi1 with ⟨i, hi, e1, e2, _⟩ | ⟨h1, _⟩
      · obtain ⟨r, n, hm⟩ := h.owed q hq hqp i hi (by rw [← e1, hib, eb]) (e2 ▸ hc)
        rcases List.mem_cons.mp hm with hm | hm
        · rcases hkeep q hq hqp ⟨r, n, hm.symm⟩ with ⟨r', n', hw⟩ | hnp
          · exact ⟨r', n', ek ▸ hw⟩
          · have := hnp q1 hq1 ek.symm
            rw [this] at hp; cases hp
        · exact ⟨r, n, ek ▸ List.mem_append_right _ hm⟩
      · rw [h1] at hc; cases hc
    · have := hopen.2 i1 hi1 hib
      rw [this] at hc; cases hc
  · intro q1 hq1 hp
    rcases hrr q1 hq1 hp with ⟨q, hq, _, eb, hqp⟩ | hopen
    · obtain ⟨i, hi, hib⟩ := h.hasBc q hq hqp
      obtain ⟨i1, hi1, e⟩ := hfwd i hi
      exact ⟨i1, hi1, by rw [e, hib, eb]⟩
    · exact hopen.1

/-- nothing the invariant talks about changes, no `closeBc` is pushed -/
theorem RcInv.same {st st1 : St} {a : Act} {rest acts1 : List Act} (h : RcInv st (a :: rest))
    (hcl : ∀ b, a ≠ .closeBc b) (hf : ∀ k r n, a ≠ .fireReq k r n)
    (hb : st1.bcs = st.bcs) (hr : st1.reqs = st.reqs) (hnew : ∀ b, Act.closeBc b ∉ acts1) : RcInv st1 (acts1 ++ rest) := by
  apply h.frame hcl (by rw [hb]; exact Nat.le_refl _) ?_ (fun i hi => ⟨i, hb ▸ hi, rfl⟩) (by rw [hr]; exact h.rids) ?_ (fun b hm => absurd hm (hnew b))
    (fun q _ _ ⟨r, n, e⟩ => absurd e (hf _ _ _))
  · intro i1 hi1; rw [hb] at hi1; exact Or.inl ⟨i1, hi1, rfl, rfl, id⟩
  · intro q1 hq1 hp; rw [hr] at hq1; exact Or.inl ⟨q1, hq1, rfl, rfl, hp⟩

/-- the state changes in what the invariant does not talk about; the stack is as it was -/
theorem RcInv.of_eq {st st1 : St} {acts : List Act} (h : RcInv st acts) (hb : st1.bcs = st.bcs) (hr : st1.reqs = st.reqs) :
    RcInv st1 acts :=
  ⟨by rw [hr]; exact h.rids, by rw [hb]; exact h.closedOut, by rw [hb]; exact h.stackOut, by rw [hb, hr]; exact h.owed,
   by rw [hb, hr]; exact h.hasBc⟩

theorem shuffle_reqs {α} {st st' : St} {xs ys : List α} (h : shuffle st xs = some (st', ys)) : st'.reqs = st.reqs := by
  unfold shuffle at h
  split at h
  · cases h
  · simp only [Option.map_eq_some_iff] at h
    obtain ⟨_, _, heq⟩ := h
    cases heq; rfl

theorem reqDone_noCloseBc (st : St) (o : ReqOwner) (k : Nat) (r : Res) (b : Nat) : Act.closeBc b ∉ (reqDone st o k r).2 := by
  unfold reqDone
  split
  · split <;> (try split) <;> simp
  · simp
  · simp

theorem cloadJoin_noCloseBc (st : St) (w : Waiter) (g : String) (b : Nat) : Act.closeBc b ∉ (cloadJoin st w g).2 := by
  unfold cloadJoin; split <;> simp

theorem cancelUnaware_noCloseBc (x : Unaware) (b : Nat) : Act.closeBc b ∉ (cancelUnaware x).2 := by
  unfold cancelUnaware; split <;> simp

theorem deliverLoad_noCloseBc (lo : LOwner) (r : Res) (b : Nat) : Act.closeBc b ∉ deliverLoad lo r := by
  unfold deliverLoad; split <;> simp

theorem getBrokerClient_shape {st st1 : St} {n : Int} {b : Nat} {obs : List Ob} (hg : getBrokerClient st n = .ok (st1, b, obs)) :
    st1.reqs = st.reqs ∧ ((st1.bcs = st.bcs ∧ ∃ i ∈ st.bcs, i.b = b ∧ i.inClients = true) ∨
      (st1.bcs = st.bcs ++ [{ b := st.bcs.length, node := n }] ∧ b = st.bcs.length)) := by
  unfold getBrokerClient at hg
  split at hg
  · cases hg
  · split at hg
    · rename_i i hi
      cases hg
      refine ⟨rfl, Or.inl ⟨rfl, i, ?_⟩⟩
      unfold bcOfNode at hi
      have := List.mem_of_mem_head? hi
      simp only [List.mem_filter, Bool.and_eq_true, beq_iff_eq] at this
      exact ⟨this.1, rfl, this.2.2⟩
    · split at hg
      · cases hg
      · cases hg
        exact ⟨rfl, Or.inr ⟨rfl, rfl⟩⟩

theorem bcs_b_unique {st : St} (hI : BcInv st) {i j : BcInst} (hi : i ∈ st.bcs) (hj : j ∈ st.bcs) (h : i.b = j.b) : i = j := by
  obtain ⟨a, ha, hai⟩ := List.getElem_of_mem hi
  obtain ⟨c, hc, hcj⟩ := List.getElem_of_mem hj
  have h1 := hI.ids a i (by rw [List.getElem?_eq_getElem ha, hai])
  have h2 := hI.ids c j (by rw [List.getElem?_eq_getElem hc, hcj])
  have : a = c := by omega
  subst this
  rw [← hai, ← hcj]

theorem bcs_b_lt {st : St} (hI : BcInv st) {i : BcInst} (hi : i ∈ st.bcs) : i.b < st.bcs.length := by
  obtain ⟨a, ha, hai⟩ := List.getElem_of_mem hi
  have h1 := hI.ids a i (by rw [List.getElem?_eq_getElem ha, hai])
  omega

/-- after `_get_brokerclient` (old or new instance `b`), any state with the same tables plus possibly one more request
    on `b`, and follow-up actions without `closeBc` -/
theorem RcInv.afterGet {st st1 st2 : St} {n : Int} {b : Nat} {obs : List Ob} {a : Act} {rest acts1 : List Act}
    (h : RcInv st (a :: rest)) (hI : BcInv st) (hcl : ∀ b, a ≠ .closeBc b) (hf : ∀ k r n, a ≠ .fireReq k r n)
    (hg : getBrokerClient st n = .ok (st1, b, obs)) (hb : st2.bcs = st1.bcs)
    (hr : st2.reqs = st1.reqs ∨ ∃ q, st2.reqs = st1.reqs ++ [q] ∧ q.k = st1.reqs.length ∧ q.b = b)
    (hnew : ∀ b, Act.closeBc b ∉ acts1) : RcInv st2 (acts1 ++ rest) := by
  obtain ⟨hreq, hshape⟩ := getBrokerClient_shape hg
  have hopen : ∀ i1 ∈ st1.bcs, i1.b = b → i1.closed = false := by
    intro i1 hi1 hib
    rcases hshape with ⟨e, i, hi, hib', hin⟩ | ⟨e, hbl⟩
    · rw [e] at hi1
      have := bcs_b_unique hI hi1 hi (hib.trans hib'.symm)
      subst this
      cases hc : i1.closed
      · rfl
      · have := h.closedOut i1 hi hc; rw [this] at hin; cases hin
    · rw [e] at hi1
      rcases List.mem_append.mp hi1 with h1 | h1
      · have := bcs_b_lt hI h1; omega
      · simp only [List.mem_singleton] at h1; subst h1; rfl
  have hex : ∃ i1 ∈ st1.bcs, i1.b = b := by
    rcases hshape with ⟨e, i, hi, hib', _⟩ | ⟨e, hbl⟩
    · exact ⟨i, e ▸ hi, hib'⟩
    · exact ⟨{ b := st.bcs.length, node := n }, by rw [e]; simp, hbl.symm⟩
  apply h.frame hcl ?_ ?_ ?_ ?_ ?_ (fun b hm => absurd hm (hnew b)) (fun q _ _ ⟨r, n, e⟩ => absurd e (hf _ _ _))
  · rw [hb]; rcases hshape with ⟨e, _⟩ | ⟨e, _⟩ <;> rw [e] <;> simp
  · intro i1 hi1
    rw [hb] at hi1
    rcases hshape with ⟨e, _⟩ | ⟨e, _⟩
    · rw [e] at hi1; exact Or.inl ⟨i1, hi1, rfl, rfl, id⟩
    · rw [e] at hi1
      rcases List.mem_append.mp hi1 with h1 | h1
      · exact Or.inl ⟨i1, h1, rfl, rfl, id⟩
      · simp only [List.mem_singleton] at h1; subst h1; exact Or.inr ⟨rfl, Nat.le_refl _⟩
  · intro i hi
    rw [hb]
    rcases hshape with ⟨e, _⟩ | ⟨e, _⟩
    · exact ⟨i, e ▸ hi, rfl⟩
    · exact ⟨i, by rw [e]; exact List.mem_append_left _ hi, rfl⟩
  · intro k q hq
    rcases hr with e | ⟨qn, e, hk, _⟩
    · rw [e, hreq] at hq; exact h.rids k q hq
    · rw [e, hreq] at hq
      by_cases hlt : k < st.reqs.length
      · rw [List.getElem?_append_left hlt] at hq; exact h.rids k q hq
      · rw [List.getElem?_append_right (by omega)] at hq
        rcases Nat.eq_zero_or_pos (k - st.reqs.length) with h0 | hpos
        · rw [h0] at hq
          simp only [List.getElem?_cons_zero, Option.some.injEq] at hq
          subst hq; rw [hk, hreq]; omega
        · rw [List.getElem?_eq_none (by simp; omega)] at hq; cases hq
  · intro q1 hq1 hp
    rcases hr with e | ⟨qn, e, _, hqb⟩
    · rw [e, hreq] at hq1; exact Or.inl ⟨q1, hq1, rfl, rfl, hp⟩
    · rw [e, hreq] at hq1
      rcases List.mem_append.mp hq1 with h1 | h1
      · exact Or.inl ⟨q1, h1, rfl, rfl, hp⟩
      · simp only [List.mem_singleton] at h1; subst h1
        right
        refine ⟨by rw [hb, hqb]; exact hex, ?_⟩
        intro i1 hi1 hib
        rw [hb] at hi1
        exact hopen i1 hi1 (hib.trans hqb)

theorem makeRequest_shape (cfg : Cfg) (st : St) (b : Nat) (o : ReqOwner) (e : Bool) (w : ReqWhat) (m : Option Rat) :
    (makeRequest cfg st b o e w m).1.bcs = st.bcs ∧
    (∃ q, (makeRequest cfg st b o e w m).1.reqs = st.reqs ++ [q] ∧ q.k = st.reqs.length ∧ q.b = b) ∧
    ∀ b', Act.closeBc b' ∉ (makeRequest cfg st b o e w m).2.2.2 := by
  refine ⟨rfl, ⟨_, rfl, rfl, rfl⟩, ?_⟩
  intro b'
  simp only [makeRequest]
  split <;> simp

theorem issueTo_ok_rinv {cfg : Cfg} {st st2 : St} {n : Int} {o : ReqOwner} {e : Bool} {w : ReqWhat} {m : Option Rat}
    {rj : Bool} {i : IssueOk} {a : Act} {rest : List Act} (hi : issueTo cfg st n o e w m rj = .ok i)
    (h : RcInv st (a :: rest)) (hI : BcInv st) (hcl : ∀ b, a ≠ .closeBc b) (hf : ∀ k r n, a ≠ .fireReq k r n)
    (hb : st2.bcs = i.st.bcs) (hr : st2.reqs = i.st.reqs) : RcInv st2 (i.acts ++ rest) := by
  obtain ⟨st1, b, obs1, hg, hst, _, _, hacts⟩ := issueTo_ok hi
  obtain ⟨m1, ⟨q, m2, m3, m4⟩, m5⟩ := makeRequest_shape cfg st1 b o e w m
  rw [hacts]
  exact h.afterGet hI hcl hf hg (by rw [hb, hst, m1]) (Or.inr ⟨q, by rw [hr, hst, m2], m3, m4⟩) m5

theorem issueTo_err_rinv {cfg : Cfg} {st : St} {n : Int} {o : ReqOwner} {e : Bool} {w : ReqWhat} {m : Option Rat}
    {rj : Bool} {er : IssueErr} {a : Act} {rest acts1 : List Act} (he : issueTo cfg st n o e w m rj = .error er)
    (h : RcInv st (a :: rest)) (hI : BcInv st) (hcl : ∀ b, a ≠ .closeBc b) (hf : ∀ k r n, a ≠ .fireReq k r n)
    (hnew : ∀ b, Act.closeBc b ∉ acts1) : RcInv er.st (acts1 ++ rest) := by
  rcases issueTo_err he with ⟨h1, _⟩ | ⟨b, hg⟩
  · rw [h1]; exact h.same hcl hf rfl rfl hnew
  · exact h.afterGet hI hcl hf hg rfl (Or.inl rfl) hnew

theorem applyUpdate_rinv {st st0 : St} {a : Act} {rest : List Act} (h : RcInv st (a :: rest)) (hI : BcInv st)
    (hcl : ∀ b, a ≠ .closeBc b) (hf : ∀ k r n, a ≠ .fireReq k r n) (hb : st0.bcs = st.bcs) (hr : st0.reqs = st.reqs)
    (c' : Cache) (cn : List Int) (bs : List Broker) (more : List Act) (hmore : ∀ b, Act.closeBc b ∉ more) :
    RcInv (applyUpdate st0 c' cn bs).1 ((applyUpdate st0 c' cn bs).2.2 ++ more ++ rest) := by
  apply h.frame (acts1 := (applyUpdate st0 c' cn bs).2.2 ++ more) hcl ?_ ?_ ?_ ?_ ?_ ?_ (fun q _ _ ⟨r, n, e⟩ => absurd e (hf _ _ _))
  · simp [applyUpdate, hb]
  · intro i1 hi1
    simp only [applyUpdate, List.mem_map] at hi1
    obtain ⟨i, hi, rfl⟩ := hi1
    rw [hb] at hi
    refine Or.inl ⟨i, hi, ?_, ?_, ?_⟩ <;> (split <;> simp)
  · intro i hi
    refine ⟨(if ((sortByNode (st0.bcs.filter (fun i => i.inClients && cn.contains i.node))).map (·.b)).contains i.b
      then { i with inClients := false } else i), ?_, ?_⟩
    · simp only [applyUpdate, List.mem_map]
      exact ⟨i, hb ▸ hi, rfl⟩
    · split <;> rfl
  · simp only [applyUpdate, hr]; exact h.rids
  · intro q1 hq1 hp
    simp only [applyUpdate, hr] at hq1
    exact Or.inl ⟨q1, hq1, rfl, rfl, hp⟩
  · intro b hm
    rcases List.mem_append.mp hm with hm | hm
    · simp only [applyUpdate] at hm
      split at hm
      · cases hm
      · rcases List.mem_append.mp hm with hm | hm
        · simp only [List.mem_map, Act.closeBc.injEq, exists_eq_right] at hm
          obtain ⟨i, hi, hib⟩ := hm
          have hi' : i ∈ st.bcs := by
            rw [← hb]
            exact (List.mem_filter.mp (mem_sortByNode.mp hi)).1
          constructor
          · simp only [applyUpdate, List.length_map, hb]
            rw [← hib]; exact bcs_b_lt hI hi'
          · intro i1 hi1 hi1b
            simp only [applyUpdate, List.mem_map] at hi1
            obtain ⟨i0, _, rfl⟩ := hi1
            have hc : ((sortByNode (st0.bcs.filter (fun i => i.inClients && cn.contains i.node))).map (·.b)).contains i0.b = true := by
              rw [List.contains_iff_mem, List.mem_map]
              refine ⟨i, hi, ?_⟩
              rw [hib, ← hi1b]
              split <;> rfl
            rw [if_pos hc]
        · simp at hm
    · exact absurd hm (hmore b)

theorem setReq_mem {st : St} {k : Nat} {f : Req → Req} {q1 : Req} (h : q1 ∈ (setReq st k f).reqs) :
    ∃ q ∈ st.reqs, q1 = (if q.k == k then f q else q) := by
  simp only [setReq, List.mem_map] at h
  obtain ⟨q, hq, rfl⟩ := h
  exact ⟨q, hq, rfl⟩

theorem setReq_rids {st : St} (h : ∀ (k : Nat) (q : Req), st.reqs[k]? = some q → q.k = k) (k0 : Nat) (f : Req → Req)
    (hf : ∀ q, (f q).k = q.k) : ∀ (k : Nat) (q : Req), (setReq st k0 f).reqs[k]? = some q → q.k = k := by
  intro k q hq
  simp only [setReq, List.getElem?_map] at hq
  cases h0 : st.reqs[k]? with
  | none => rw [h0] at hq; cases hq
  | some q0 =>
    rw [h0] at hq
    simp only [Option.map_some, Option.some.injEq] at hq
    rw [← hq]
    split
    · rw [hf]; exact h k q0 h0
    · exact h k q0 h0

/-- an action that resolves request `k` (`pending := false`) and otherwise leaves the tables alone -/
theorem RcInv.resolve {st st1 : St} {a : Act} {rest acts1 : List Act} (h : RcInv st (a :: rest)) (hcl : ∀ b, a ≠ .closeBc b)
    (k : Nat) (f : Req → Req) (hfk : ∀ q, (f q).k = q.k ∧ (f q).b = q.b ∧ (f q).pending = false)
    (ha : ∀ k' r n, a = .fireReq k' r n → k' = k)
    (hb : st1.bcs = st.bcs) (hr : st1.reqs = (setReq st k f).reqs) (hnew : ∀ b, Act.closeBc b ∉ acts1) :
    RcInv st1 (acts1 ++ rest) := by
  apply h.frame hcl (by rw [hb]; exact Nat.le_refl _) ?_ (fun i hi => ⟨i, hb ▸ hi, rfl⟩) ?_ ?_ (fun b hm => absurd hm (hnew b)) ?_
  · intro i1 hi1; rw [hb] at hi1; exact Or.inl ⟨i1, hi1, rfl, rfl, id⟩
  · rw [hr]; exact setReq_rids h.rids k f (fun q => (hfk q).1)
  · intro q1 hq1 hp
    rw [hr] at hq1
    obtain ⟨q, hq, rfl⟩ := setReq_mem hq1
    left
    split at hp
    · rw [(hfk q).2.2] at hp; cases hp
    · rename_i hne
      simp only [hne]
      exact ⟨q, hq, rfl, rfl, hp⟩
  · intro q hq hp ⟨r, n, e⟩
    right
    have hk := ha _ _ _ e
    intro q1 hq1 hk1
    rw [hr] at hq1
    obtain ⟨q0, hq0, rfl⟩ := setReq_mem hq1
    split
    · exact (hfk q0).2.2
    · rename_i hne
      simp only [hne] at hk1
      exfalso
      apply hne
      simp only [beq_iff_eq]
      simp only [Bool.false_eq_true, if_false] at hk1
      rw [hk1, hk]

/-- flags the invariant does not talk about change (`down`, `conn`) -/
theorem RcInv.flags {st st1 : St} {a : Act} {rest acts1 : List Act} (h : RcInv st (a :: rest))
    (hcl : ∀ b, a ≠ .closeBc b) (hf : ∀ k r n, a ≠ .fireReq k r n) (g : BcInst → BcInst)
    (hg : ∀ i, (g i).b = i.b ∧ (g i).closed = i.closed ∧ (g i).inClients = i.inClients)
    (hb : st1.bcs = st.bcs.map g) (hr : st1.reqs = st.reqs) (hnew : ∀ b, Act.closeBc b ∉ acts1) : RcInv st1 (acts1 ++ rest) := by
  apply h.frame hcl (by rw [hb]; simp) ?_ (fun i hi => ⟨g i, by rw [hb]; exact List.mem_map.mpr ⟨i, hi, rfl⟩, (hg i).1⟩)
    (by rw [hr]; exact h.rids) ?_ (fun b hm => absurd hm (hnew b))
    (fun q _ _ ⟨r, n, e⟩ => absurd e (hf _ _ _))
  · intro i1 hi1
    rw [hb, List.mem_map] at hi1
    obtain ⟨i, hi, rfl⟩ := hi1
    exact Or.inl ⟨i, hi, (hg i).1, (hg i).2.1, fun hh => by rw [(hg i).2.2]; exact hh⟩
  · intro q1 hq1 hp; rw [hr] at hq1; exact Or.inl ⟨q1, hq1, rfl, rfl, hp⟩

theorem reqGet_none {st : St} {k : Nat} (h : reqGet st k = none) : ∀ q ∈ st.reqs, q.k ≠ k := by
  intro q hq hk
  unfold reqGet at h
  rw [List.head?_eq_none_iff, List.filter_eq_nil_iff] at h
  exact h q hq (by simp [hk])

theorem RcInv.closeBc {st : St} {b : Nat} {rest : List Act} (h : RcInv st (.closeBc b :: rest)) :
    RcInv (exec cfg st (.closeBc b)).1 ((exec cfg st (.closeBc b)).2.2 ++ rest) := by
  simp only [exec]
  obtain ⟨hblt, hbout⟩ := h.stackOut b List.mem_cons_self
  constructor
  · exact h.rids
  · intro i1 hi1 hc
    simp only [List.mem_map] at hi1
    obtain ⟨i, hi, rfl⟩ := hi1
    by_cases hib : i.b = b
    · simp only [hib, beq_self_eq_true, if_true]; exact hbout i hi hib
    · simp only [beq_iff_eq, hib, if_false] at hc ⊢; exact h.closedOut i hi hc
  · intro b' hb'
    have hb'' : Act.closeBc b' ∈ rest := by
      rcases List.mem_append.mp hb' with hm | hm
      · exfalso
        rcases List.mem_append.mp hm with hm | hm
        · simp at hm
        · split at hm <;> simp at hm
      · exact hm
    obtain ⟨h1, h2⟩ := h.stackOut b' (List.mem_cons_of_mem _ hb'')
    refine ⟨by simpa using h1, ?_⟩
    intro i1 hi1 hi1b
    simp only [List.mem_map] at hi1
    obtain ⟨i, hi, rfl⟩ := hi1
    have : i.b = b' := by split at hi1b <;> exact hi1b
    have := h2 i hi this
    split <;> exact this
  · intro q hq hp i1 hi1 hib hc
    simp only [List.mem_map] at hi1
    obtain ⟨i, hi, rfl⟩ := hi1
    have hib' : i.b = q.b := by split at hib <;> exact hib
    by_cases hbb : i.b = b
    · refine ⟨.err .clientClosed, true, ?_⟩
      apply List.mem_append_left
      apply List.mem_append_left
      rw [List.mem_map]
      refine ⟨q, ?_, rfl⟩
      rw [List.mem_reverse, List.mem_filter]
      exact ⟨hq, by simp [hp, ← hib', hbb]⟩
    · simp only [beq_iff_eq, hbb, if_false] at hc
      obtain ⟨r, n, hm⟩ := h.owed q hq hp i hi hib' hc
      rcases List.mem_cons.mp hm with hm | hm
      · cases hm
      · exact ⟨r, n, List.mem_append_right _ hm⟩
  · intro q hq hp
    obtain ⟨i, hi, hib⟩ := h.hasBc q hq hp
    refine ⟨_, List.mem_map.mpr ⟨i, hi, rfl⟩, ?_⟩
    split <;> exact hib

theorem exec_rinv (cfg : Cfg) (st : St) (a : Act) (rest : List Act) (hI : BcInv st) (h : RcInv st (a :: rest)) :
    RcInv (exec cfg st a).1 ((exec cfg st a).2.2 ++ rest) := by
  cases a
  case closeBc b => exact h.closeBc
  case fireReq k r nested =>
    have hcl : ∀ b, Act.fireReq k r nested ≠ .closeBc b := by intro b e; cases e
    have hk : ∀ k' r' n', Act.fireReq k r nested = .fireReq k' r' n' → k' = k := by intro k' r' n' e; cases e; rfl
    simp only [exec]
    split
    · rename_i hnone
      apply h.frame hcl (Nat.le_refl _) (fun i1 hi1 => Or.inl ⟨i1, hi1, rfl, rfl, id⟩) (fun i hi => ⟨i, hi, rfl⟩) h.rids
        (fun q1 hq1 hp => Or.inl ⟨q1, hq1, rfl, rfl, hp⟩) (fun b hm => by cases hm)
      intro q hq hp ⟨r', n', e⟩
      exact absurd (hk _ _ _ e) (reqGet_none hnone q hq)
    · rename_i q0 hq0
      split
      · rename_i hnp
        apply h.frame hcl (Nat.le_refl _) (fun i1 hi1 => Or.inl ⟨i1, hi1, rfl, rfl, id⟩) (fun i hi => ⟨i, hi, rfl⟩) h.rids
          (fun q1 hq1 hp => Or.inl ⟨q1, hq1, rfl, rfl, hp⟩) (fun b hm => by cases hm)
        intro q hq hp ⟨r', n', e⟩
        have := rids_unique h.rids hq (reqGet_mem hq0).1 ((hk _ _ _ e).trans (reqGet_mem hq0).2.symm)
        subst this
        simp [hp] at hnp
      · dsimp only
        split <;>
          exact h.resolve hcl k (fun x => { x with pending := false }) (fun q => ⟨rfl, rfl, rfl⟩) hk
            ((reqDone_bcs _ _ _ _).1.trans rfl) ((reqDone_reqs _ _ _ _).trans rfl) (reqDone_noCloseBc _ _ _ _)
  case timeoutFired k =>
    have hcl : ∀ b, Act.timeoutFired k ≠ .closeBc b := by intro b e; cases e
    have hf : ∀ k' r n, Act.timeoutFired k ≠ .fireReq k' r n := by intro k' r n e; cases e
    simp only [exec]
    split
    · exact h.same hcl hf rfl rfl (by simp)
    · split
      · exact h.same hcl hf rfl rfl (by simp)
      · dsimp only
        refine h.resolve hcl k (fun x => { x with timedOut := true, pending := false }) (fun q => ⟨rfl, rfl, rfl⟩)
          (fun k' r n e => by cases e) ((reqDone_bcs _ _ _ _).1.trans rfl) ((reqDone_reqs _ _ _ _).trans rfl) ?_
        intro b hm
        rcases List.mem_append.mp hm with hm | hm
        · exact reqDone_noCloseBc _ _ _ _ _ hm
        · split at hm <;> simp at hm
  case unawareDone u r =>
    have hcl : ∀ b, Act.unawareDone u r ≠ .closeBc b := by intro b e; cases e
    have hf : ∀ k' r' n, Act.unawareDone u r ≠ .fireReq k' r' n := by intro k' r' n e; cases e
    simp only [exec, updateBrokers]
    split <;> try dsimp only
    · exact h.same hcl hf rfl rfl (by simp)
    · split
      all_goals (split <;> try dsimp only)
      all_goals (first
        | (refine applyUpdate_rinv h hI hcl hf ?_ ?_ _ _ _ _ ?_ <;> first | rfl | (simp; done))
        | (refine h.same hcl hf rfl rfl ?_; simp [deliverLoad_noCloseBc]; done))
  case bcDown b nested =>
    simp only [exec]
    exact h.flags (by intro b e; cases e) (by intro k r n e; cases e) (fun i => if i.b == b then { i with down := true } else i)
      (fun i => by split <;> exact ⟨rfl, rfl, rfl⟩) rfl rfl (by simp)
  all_goals simp only [exec]
  all_goals (repeat' split)
  all_goals (try dsimp only)
  all_goals (first
    | (refine h.same (by intro b e; cases e) (by intro k r n e; cases e) rfl rfl ?_; simp [deliverLoad_noCloseBc, cancelUnaware_noCloseBc]; done)
    | (rename_i hs; refine h.same (by intro b e; cases e) (by intro k r n e; cases e) (shuffle_bcs hs).1 (shuffle_reqs hs) ?_; simp; done)
    | exact h.same (by intro b e; cases e) (by intro k r n e; cases e) (reqDone_bcs _ _ _ _).1 (reqDone_reqs _ _ _ _) (reqDone_noCloseBc _ _ _ _)
    | exact h.same (by intro b e; cases e) (by intro k r n e; cases e) (cloadJoin_bcs _ _ _).1 (cloadJoin_reqs _ _ _) (cloadJoin_noCloseBc _ _ _)
    | (refine issueTo_err_rinv (by assumption) h hI (by intro b e; cases e) (by intro k r n e; cases e) ?_; simp; done)
    | exact issueTo_ok_rinv (by assumption) h hI (by intro b e; cases e) (by intro k r n e; cases e) rfl rfl)

theorem runActs_rinv (cfg : Cfg) : ∀ (fuel : Nat) (st : St) (acts : List Act) (obs : List Ob),
    BcInv st → RcInv st acts → Ob.badOp "fuel" ∉ (runActs cfg fuel st acts obs).2 → RcInv (runActs cfg fuel st acts obs).1 []
  | 0, st, acts, obs, _, _, hf => by exfalso; apply hf; simp [runActs]
  | _+1, st, [], obs, _, h, _ => by simpa [runActs] using h
  | fuel+1, st, a :: rest, obs, hI, h, hf => by
    simp only [runActs] at hf ⊢
    exact runActs_rinv cfg fuel _ _ _ (exec_bcInv cfg st a hI) (exec_rinv cfg st a rest hI h) hf

/-- start a step: an empty stack is replaced by follow-up actions that contain no `closeBc` -/
theorem RcInv.start {st : St} (h : RcInv st []) (acts : List Act) (hn : ∀ b, Act.closeBc b ∉ acts) : RcInv st acts :=
  ⟨h.rids, h.closedOut, fun b hb => absurd hb (hn b),
   fun q hq hp i hi hib hc => (by obtain ⟨r, n, hm⟩ := h.owed q hq hp i hi hib hc; cases hm), h.hasBc⟩

theorem RcInv.begin {st st1 : St} (h : RcInv st []) (hb : st1.bcs = st.bcs) (hr : st1.reqs = st.reqs) (acts : List Act)
    (hn : ∀ b, Act.closeBc b ∉ acts) : RcInv st1 acts := (h.of_eq hb hr).start acts hn

theorem RcInv.map0 {st st1 : St} (h : RcInv st []) (g : BcInst → BcInst)
    (hg : ∀ i, (g i).b = i.b ∧ (g i).closed = i.closed ∧ (i.inClients = false → (g i).inClients = false))
    (hb : st1.bcs = st.bcs.map g) (hr : st1.reqs = st.reqs) : RcInv st1 [] := by
  constructor
  · rw [hr]; exact h.rids
  · intro i1 hi1 hc
    rw [hb, List.mem_map] at hi1
    obtain ⟨i, hi, rfl⟩ := hi1
    exact (hg i).2.2 (h.closedOut i hi ((hg i).2.1 ▸ hc))
  · intro b hb'; cases hb'
  · intro q hq hp i1 hi1 hib hc
    rw [hb, List.mem_map] at hi1
    obtain ⟨i, hi, rfl⟩ := hi1
    rw [hr] at hq
    exact h.owed q hq hp i hi ((hg i).1 ▸ hib) ((hg i).2.1 ▸ hc)
  · intro q hq hp
    rw [hr] at hq
    obtain ⟨i, hi, hib⟩ := h.hasBc q hq hp
    exact ⟨g i, by rw [hb]; exact List.mem_map.mpr ⟨i, hi, rfl⟩, by rw [(hg i).1, hib]⟩

theorem fireDue_rinv (cfg : Cfg) : ∀ (n : Nat) (st : St) (obs : List Ob),
    BcInv st → RcInv st [] → Ob.badOp "fuel" ∉ (fireDue cfg n st obs).2 → RcInv (fireDue cfg n st obs).1 []
  | 0, st, obs, _, _, hf => by exfalso; apply hf; simp [fireDue]
  | n+1, st, obs, hI, h, hf => by
    simp only [fireDue] at hf ⊢
    split
    · exact h
    · split
      · exact h
      · rename_i t rest hti hdue
        simp only [hti, hdue, if_false] at hf
        have hI' : BcInv ({ st with timers := rest } : St) := hI.of_eq rfl rfl
        have h0 : RcInv ({ st with timers := rest } : St) [] := h.of_eq rfl rfl
        have h' : RcInv ({ st with timers := rest } : St) [timerAct t.what] :=
          h0.start _ (by intro b hm; cases ht : t.what <;> (rw [ht] at hm; simp [timerAct] at hm))
        have hf2 : Ob.badOp "fuel" ∉ (runActs cfg fuel { st with timers := rest } [timerAct t.what] obs).2 := by
          intro hm
          obtain ⟨more, hmore⟩ := fireDue_prefix cfg n (runActs cfg fuel { st with timers := rest } [timerAct t.what] obs).1
            (runActs cfg fuel { st with timers := rest } [timerAct t.what] obs).2
          apply hf
          rw [hmore]
          exact List.mem_append_left _ hm
        exact fireDue_rinv cfg n _ _ (runActs_bcInv cfg fuel _ _ _ hI') (runActs_rinv cfg fuel _ _ _ hI' h' hf2) hf

theorem cancelOp_reqs (st : St) (o : Nat) : (cancelOp st o).1.reqs = st.reqs := by
  unfold cancelOp
  repeat' split
  all_goals rfl

theorem cancelOp_noCloseBc (st : St) (o : Nat) (b : Nat) : Act.closeBc b ∉ (cancelOp st o).2.2 := by
  unfold cancelOp
  repeat' split
  all_goals (try dsimp only)
  all_goals (first
    | exact cancelUnaware_noCloseBc _ _
    | (simp; done)
    | (intro hm
       simp only [List.mem_flatMap] at hm
       obtain ⟨sl, _, hsl⟩ := hm
       split at hsl <;> simp at hsl))

theorem bcInv_closeStart' {st : St} (h : BcInv st) (env : Env) :
    BcInv ({ st with env := env, closing := true, cache := { st.cache with clients := [] },
                     bcs := st.bcs.map (fun i => { i with inClients := false }) } : St) := by
  constructor
  · intro k i hi
    simp only [List.getElem?_map] at hi
    cases h0 : st.bcs[k]? with
    | none => rw [h0] at hi; cases hi
    | some i0 =>
      rw [h0] at hi
      simp only [Option.map_some, Option.some.injEq] at hi
      rw [← hi]; exact h.ids k i0 h0
  · show ([] : List (Int × Broker)).map (·.1) = nodesIn (st.bcs.map _)
    rw [nodesIn_allOut]; rfl
  · show (nodesIn (st.bcs.map _)).Nodup
    rw [nodesIn_allOut]; exact List.nodup_nil

theorem RcInv.closeStart {st : St} (h : RcInv st []) (hI : BcInv st) (env : Env) (o : Nat) :
    RcInv ({ st with env := env, closing := true, cache := { st.cache with clients := [] }, bcs := st.bcs.map (fun i => { i with inClients := false }) } : St)
      ((st.cache.clients.filterMap (fun cl => (bcOfNode { st with env := env } cl.1).map (·.b))).map Act.closeBc ++
          [.newAgg (st.cache.clients.filterMap (fun cl => (bcOfNode { st with env := env } cl.1).map (·.b))), .cancelBoots] ++
          (if clientCloseWakesRetryDelays then [.cancelDelays] else []) ++ [.finishClose o]) := by
  have hm : RcInv ({ st with env := env, closing := true, cache := { st.cache with clients := [] }, bcs := st.bcs.map (fun i => { i with inClients := false }) } : St) [] :=
    h.map0 (fun i => { i with inClients := false }) (fun i => ⟨rfl, rfl, fun _ => rfl⟩) rfl rfl
  refine ⟨hm.rids, hm.closedOut, ?_, fun q hq hp i hi hib hc => (by obtain ⟨r, n, hx⟩ := hm.owed q hq hp i hi hib hc; cases hx), hm.hasBc⟩
  intro b hb
  have hb' : b ∈ st.cache.clients.filterMap (fun cl => (bcOfNode { st with env := env } cl.1).map (·.b)) := by
    rcases List.mem_append.mp hb with hb | hb
    · rcases List.mem_append.mp hb with hb | hb
      · rcases List.mem_append.mp hb with hb | hb
        · simpa using hb
        · simp at hb
      · split at hb <;> simp at hb
    · simp at hb
  rw [List.mem_filterMap] at hb'
  obtain ⟨cl, _, hcl⟩ := hb'
  cases hbn : bcOfNode { st with env := env } cl.1 with
  | none => rw [hbn] at hcl; cases hcl
  | some i =>
    rw [hbn] at hcl
    simp only [Option.map_some, Option.some.injEq] at hcl
    have hi : i ∈ st.bcs := by
      unfold bcOfNode at hbn
      exact (List.mem_filter.mp (List.mem_of_mem_head? hbn)).1
    refine ⟨by simp only [List.length_map]; rw [← hcl]; exact bcs_b_lt hI hi, ?_⟩
    intro i1 hi1 _
    simp only [List.mem_map] at hi1
    obtain ⟨i0, _, rfl⟩ := hi1
    rfl

theorem step_rinv (cfg : Cfg) (st : St) (env : Env) (e : Ev) (hI : BcInv st) (h : RcInv st [])
    (hf : Ob.badOp "fuel" ∉ (step cfg st env e).2) : RcInv (step cfg st env e).1 [] := by
  have hI' : BcInv ({ st with env := env } : St) := hI.of_eq rfl rfl
  have h' : RcInv ({ st with env := env } : St) [] := h.of_eq rfl rfl
  cases e
  case cancel o =>
    simp only [step] at hf ⊢
    exact runActs_rinv cfg fuel _ _ _ (hI'.of_eq (cancelOp_bcs _ o).1 (by rw [(cancelOp_bcs _ o).2]))
      ((h'.of_eq (cancelOp_bcs _ o).1 (cancelOp_reqs _ o)).start _ (cancelOp_noCloseBc _ o)) hf
  case advance dt =>
    simp only [step] at hf ⊢
    split
    · exact h'
    · rename_i hd
      simp only [hd, if_false] at hf
      exact fireDue_rinv cfg _ _ _ (hI'.of_eq rfl rfl) (h'.of_eq rfl rfl) hf
  case close o =>
    cases hc : st.closing
    · rw [step_close_open cfg st env o hc] at hf ⊢
      exact runActs_rinv cfg fuel _ _ _ (bcInv_closeStart' hI env) (h.closeStart hI env o) hf
    · rw [step_close_closing cfg st env o hc] at hf ⊢
      split
      · rename_i hidem
        simp only [hidem, if_true] at hf
        exact runActs_rinv cfg fuel _ _ _ hI' (h'.start _ (by simp)) hf
      · exact h'
  case conn b v =>
    simp only [step]
    exact h.map0 (fun i => if i.b == b then { i with conn := v } else i) (fun i => by split <;> exact ⟨rfl, rfl, id⟩) rfl rfl
  case resetTopics ts => simp only [step]; exact h.of_eq rfl rfl
  case load o topics =>
    simp only [step] at hf ⊢
    (refine runActs_rinv cfg fuel _ _ _ ?_ ?_ hf; exact hI'.of_eq rfl rfl; (refine h.begin ?_ ?_ _ ?_ <;> first | rfl | (simp; done)))
  case cload o g =>
    simp only [step] at hf ⊢
    have h2 : RcInv ({ st with env := env, liveOps := st.liveOps ++ [o] } : St) [] := h.of_eq rfl rfl
    exact runActs_rinv cfg fuel _ _ _ (hI.of_eq (cloadJoin_bcs _ _ _).1 (by rw [(cloadJoin_bcs _ _ _).2]))
      ((h2.of_eq (cloadJoin_bcs _ _ _).1 (cloadJoin_reqs _ _ _)).start _ (cloadJoin_noCloseBc _ _ _)) hf
  case srtc o g m =>
    simp only [step] at hf ⊢
    split
    · rename_i hg; simp only [hg] at hf
      (refine runActs_rinv cfg fuel _ _ _ ?_ ?_ hf; exact hI'.of_eq rfl rfl; (refine h.begin ?_ ?_ _ ?_ <;> first | rfl | (simp; done)))
    · rename_i hg; simp only [hg] at hf
      have h2 : RcInv ({ st with env := env, liveOps := st.liveOps ++ [o], srtcs := st.srtcs ++ [{ r := st.srtcs.length, o := o, g := g, minTimeout := m, phase := .resolving }] } : St) [] := h.of_eq rfl rfl
      exact runActs_rinv cfg fuel _ _ _ (hI.of_eq (cloadJoin_bcs _ _ _).1 (by rw [(cloadJoin_bcs _ _ _).2]))
        ((h2.of_eq (cloadJoin_bcs _ _ _).1 (cloadJoin_reqs _ _ _)).start _ (cloadJoin_noCloseBc _ _ _)) hf
  case bootOk j =>
    simp only [step]
    split
    · exact h'
    · exact h'.of_eq rfl rfl
  case bootFail j =>
    simp only [step] at hf ⊢
    split
    · exact h'
    · rename_i x hx; simp only [hx] at hf
      exact runActs_rinv cfg fuel _ _ _ hI' (h'.start _ (by simp)) hf
  case send o keys group foe expect =>
    simp only [step] at hf ⊢
    split
    · rename_i hk; simp only [hk, if_true] at hf
      (refine runActs_rinv cfg fuel _ _ _ ?_ ?_ hf; exact hI'.of_eq rfl rfl; (refine h.begin ?_ ?_ _ ?_ <;> first | rfl | (simp; done)))
    · rename_i hk
      simp only [hk, if_false] at hf
      split
      · rename_i hd; simp only [hd, if_true] at hf
        (refine runActs_rinv cfg fuel _ _ _ ?_ ?_ hf; exact hI'.of_eq rfl rfl; (refine h.begin ?_ ?_ _ ?_ <;> first | rfl | (simp; done)))
      · rename_i hd; simp only [hd, if_false] at hf
        (refine runActs_rinv cfg fuel _ _ _ ?_ ?_ hf; exact hI'.of_eq rfl rfl; (refine h.begin ?_ ?_ _ ?_ <;> first | rfl | (simp; done)))
  case ltp o topics =>
    simp only [step] at hf ⊢
    (refine runActs_rinv cfg fuel _ _ _ ?_ ?_ hf; exact hI'.of_eq rfl rfl; (refine h.begin ?_ ?_ _ ?_ <;> first | rfl | (simp; done)))
  all_goals (simp only [step] at hf ⊢; exact runActs_rinv cfg fuel _ _ _ hI' (h'.start _ (by simp)) hf)

theorem run_rinv (cfg : Cfg) : ∀ (evs : List (Env × Ev)) (st : St), BcInv st → RcInv st [] → NoFuel cfg st evs →
    RcInv (evs.foldl (fun s e => (step cfg s e.1 e.2).1) st) []
  | [], _, _, h, _ => h
  | (env, e) :: rest, st, hI, h, hnf => by
    obtain ⟨hf, hnf'⟩ := hnf
    exact run_rinv cfg rest _ (step_bcInv cfg st env e hI) (step_rinv cfg st env e hI h hf) hnf'

/-- **once the client is closed no request is pending** - in every state reachable without fuel exhaustion: `close()`
    told every broker client to close (`Pend`), and a request pending on a closed broker client would have its failure
    still on the action stack (`RcInv`), which is empty between steps -/
theorem closed_no_pending (cfg : Cfg) (evs : List (Env × Ev)) (hnf : NoFuel cfg {} evs) :
    let st := evs.foldl (fun s e => (step cfg s e.1 e.2).1) ({} : St)
    st.closing = true → ∀ q ∈ st.reqs, q.pending = false := by
  intro st hc q hq
  have hR := run_rinv cfg evs {} BcInv.init RcInv.init hnf
  have hP := run_pend cfg evs {} BcInv.init (by intro i hi; cases hi) hnf
  cases hp : q.pending
  · rfl
  · exfalso
    obtain ⟨i, hi, hib⟩ := hR.hasBc q hq hp
    have hcl : i.closed = true := by
      rcases hP i hi (Or.inr hc) with h1 | h1
      · exact h1
      · cases h1
    obtain ⟨r, n, hm⟩ := hR.owed q hq hp i hi hib hcl
    cases hm

end Afkak.ClientNet
