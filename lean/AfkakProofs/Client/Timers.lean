import AfkakProofs.Client.Net
/-! The timer invariant of the timeout wrapper (C11_bound, C11_timer_released). -/
namespace Afkak.ClientNet
open Afkak.ClientCache

/-- the request a timer belongs to -/
def mrtbOf (t : Timer) : Option Nat := match t.what with | .mrtb k => some k | _ => none

/-- reachable-state facts about requests and the timer queue:
    every unresolved request owns a pending timer due at its bound (`pendTimer`), every pending
    wrapper timer belongs to an unresolved request (`timerPend`), timer names are unique, request ids
    are below the table size. -/
structure NInv (reqs : List Req) (timers : List Timer) : Prop where
  kBound : ∀ q ∈ reqs, q.k < reqs.length
  kUnique : ∀ q ∈ reqs, ∀ q' ∈ reqs, q.k = q'.k → q = q'
  pendTimer : ∀ q ∈ reqs, q.pending = true → ({ what := .mrtb q.k, due := q.due } : Timer) ∈ timers
  timerPend : ∀ t ∈ timers, ∀ k, t.what = .mrtb k → ∃ q ∈ reqs, q.k = k ∧ q.pending = true ∧ q.due = t.due
  names : (timers.filterMap mrtbOf).Nodup
  /-- the queue is kept in firing order (Clock sorts by due time, stable) -/
  sorted : timers.Pairwise (fun a b => a.due ≤ b.due)

theorem NInv.init : NInv [] [] := ⟨by simp, by simp, by simp, by simp, by simp, by simp⟩

theorem insertTimer_perm (t : Timer) : ∀ (l : List Timer), (insertTimer t l).Perm (t :: l)
  | [] => by simp [insertTimer]
  | x :: l => by
    unfold insertTimer
    split
    · exact List.Perm.refl _
    · exact ((insertTimer_perm t l).cons x).trans (List.Perm.swap t x l)

theorem insertTimer_sorted (t : Timer) : ∀ (l : List Timer), l.Pairwise (fun a b => a.due ≤ b.due) →
    (insertTimer t l).Pairwise (fun a b => a.due ≤ b.due)
  | [], _ => by simp [insertTimer]
  | x :: l, h => by
    unfold insertTimer
    have hx := List.pairwise_cons.mp h
    split
    · rename_i hlt
      refine List.pairwise_cons.mpr ⟨?_, h⟩
      intro y hy
      rcases List.mem_cons.mp hy with rfl | hy
      · exact Rat.le_of_lt hlt
      · exact Rat.le_trans (Rat.le_of_lt hlt) (hx.1 y hy)
    · rename_i hnl
      refine List.pairwise_cons.mpr ⟨?_, insertTimer_sorted t l hx.2⟩
      intro y hy
      rcases mem_insertTimer.mp hy with rfl | hy
      · exact Rat.not_lt.mp hnl
      · exact hx.1 y hy

/-- a request that is born resolved (no-reply request written at once) needs no timer -/
theorem NInv.issueResolved {reqs : List Req} {timers : List Timer} (h : NInv reqs timers) (q : Req)
    (hk : q.k = reqs.length) (hp : q.pending = false) : NInv (reqs ++ [q]) timers := by
  constructor
  · intro x hx
    simp only [List.length_append, List.length_singleton]
    rcases List.mem_append.mp hx with hx | hx
    · exact Nat.lt_succ_of_lt (h.kBound x hx)
    · simp only [List.mem_singleton] at hx; subst hx; omega
  · intro x hx x' hx' hkk
    rcases List.mem_append.mp hx with hx | hx <;> rcases List.mem_append.mp hx' with hx' | hx'
    · exact h.kUnique x hx x' hx' hkk
    · simp only [List.mem_singleton] at hx'
      have := h.kBound x hx; rw [hx', hk] at hkk; omega
    · simp only [List.mem_singleton] at hx
      have := h.kBound x' hx'; rw [hx, hk] at hkk; omega
    · simp only [List.mem_singleton] at hx hx'; rw [hx, hx']
  · intro x hx hpx
    rcases List.mem_append.mp hx with hx | hx
    · exact h.pendTimer x hx hpx
    · simp only [List.mem_singleton] at hx; subst hx; rw [hp] at hpx; cases hpx
  · intro t ht k hk'
    obtain ⟨x, hx, h1, h2, h3⟩ := h.timerPend t ht k hk'
    exact ⟨x, List.mem_append_left _ hx, h1, h2, h3⟩
  · exact h.names
  · exact h.sorted

theorem NInv.issue {reqs : List Req} {timers : List Timer} (h : NInv reqs timers) (b : Nat) (issued due : Rat) (owner : ReqOwner)
    (grp : Option String) :
    NInv (reqs ++ [{ k := reqs.length, b := b, issued := issued, due := due, grp := grp, owner := owner }])
         (insertTimer { what := .mrtb reqs.length, due := due } timers) := by
  constructor
  · intro q hq
    simp only [List.length_append, List.length_singleton]
    rcases List.mem_append.mp hq with hq | hq
    · exact Nat.lt_succ_of_lt (h.kBound q hq)
    · simp only [List.mem_singleton] at hq; subst hq; exact Nat.lt_succ_self _
  · intro q hq q' hq' hk
    rcases List.mem_append.mp hq with hq | hq <;> rcases List.mem_append.mp hq' with hq' | hq'
    · exact h.kUnique q hq q' hq' hk
    · simp only [List.mem_singleton] at hq'; subst hq'
      have := h.kBound q hq; simp only at hk; omega
    · simp only [List.mem_singleton] at hq; subst hq
      have := h.kBound q' hq'; simp only at hk; omega
    · simp only [List.mem_singleton] at hq hq'; rw [hq, hq']
  · intro q hq hp
    rcases List.mem_append.mp hq with hq | hq
    · exact mem_insertTimer.mpr (Or.inr (h.pendTimer q hq hp))
    · simp only [List.mem_singleton] at hq; subst hq; exact mem_insertTimer.mpr (Or.inl rfl)
  · intro t ht k hk
    rcases mem_insertTimer.mp ht with rfl | ht
    · simp only [TimerWhat.mrtb.injEq] at hk; subst hk
      exact ⟨_, List.mem_append_right _ (List.mem_singleton.mpr rfl), rfl, rfl, rfl⟩
    · obtain ⟨q, hq, h1, h2, h3⟩ := h.timerPend t ht k hk
      exact ⟨q, List.mem_append_left _ hq, h1, h2, h3⟩
  · have hp := (insertTimer_perm { what := .mrtb reqs.length, due := due } timers).filterMap mrtbOf
    refine (List.Perm.nodup_iff hp).mpr ?_
    simp only [List.filterMap_cons, mrtbOf, List.nodup_cons]
    refine ⟨?_, h.names⟩
    intro hm
    obtain ⟨t, ht, htw⟩ := List.mem_filterMap.mp hm
    have hw : t.what = .mrtb reqs.length := by
      unfold mrtbOf at htw; split at htw
      · rename_i k hk; simp only [Option.some.injEq] at htw; rw [hk, htw]
      · cases htw
    obtain ⟨q, hq, h1, _, _⟩ := h.timerPend t ht reqs.length hw
    have := h.kBound q hq
    omega
  · exact insertTimer_sorted _ _ h.sorted

theorem kUnique_map {reqs : List Req} (hu : ∀ q ∈ reqs, ∀ q' ∈ reqs, q.k = q'.k → q = q') (k : Nat) (f : Req → Req)
    (hfk : ∀ r, (f r).k = r.k) :
    ∀ q ∈ reqs.map (fun r => if r.k == k then f r else r), ∀ q' ∈ reqs.map (fun r => if r.k == k then f r else r), q.k = q'.k → q = q' := by
  intro q hq q' hq' hk
  obtain ⟨r, hr, rfl⟩ := List.mem_map.mp hq
  obtain ⟨r', hr', rfl⟩ := List.mem_map.mp hq'
  have hkk : r.k = r'.k := by
    have e1 : (if r.k == k then f r else r).k = r.k := by split <;> simp [hfk]
    have e2 : (if r'.k == k then f r' else r').k = r'.k := by split <;> simp [hfk]
    rw [e1, e2] at hk; exact hk
  rw [hu r hr r' hr' hkk]

/-- resolving request `k` (reply, cancel, close): it becomes not pending and its timer, if any, goes -/
theorem NInv.resolve {reqs : List Req} {timers : List Timer} (h : NInv reqs timers) (k : Nat) (f : Req → Req)
    (hfk : ∀ r, (f r).k = r.k) (hfp : ∀ r, (f r).pending = false) :
    NInv (reqs.map (fun r => if r.k == k then f r else r)) (timers.filter (fun t => !(t.what == .mrtb k))) := by
  constructor
  · intro q hq
    obtain ⟨r, hr, rfl⟩ := List.mem_map.mp hq
    simp only [List.length_map]
    split
    · rw [hfk]; exact h.kBound r hr
    · exact h.kBound r hr
  · exact kUnique_map h.kUnique k f hfk
  · intro q hq hp
    obtain ⟨r, hr, rfl⟩ := List.mem_map.mp hq
    by_cases hk : r.k == k
    · simp only [hk, if_true, hfp] at hp; cases hp
    · simp only [hk, Bool.false_eq_true, if_false] at hp ⊢
      refine List.mem_filter.mpr ⟨h.pendTimer r hr hp, ?_⟩
      have : r.k ≠ k := by simpa using hk
      simp [this]
  · intro t ht k' hk'
    obtain ⟨ht1, ht2⟩ := List.mem_filter.mp ht
    have hne : k' ≠ k := by
      intro heq; subst heq; simp [hk'] at ht2
    obtain ⟨q, hq, h1, h2, h3⟩ := h.timerPend t ht1 k' hk'
    refine ⟨q, List.mem_map.mpr ⟨q, hq, ?_⟩, h1, h2, h3⟩
    have : (q.k == k) = false := by rw [h1]; simpa using hne
    simp [this]
  · exact h.names.sublist (List.Sublist.filterMap _ List.filter_sublist)
  · exact h.sorted.sublist List.filter_sublist

/-- marking a request (e.g. `timedOut`) without touching `k`, `pending`, `due` keeps the invariant -/
theorem NInv.mark {reqs : List Req} {timers : List Timer} (h : NInv reqs timers) (k : Nat) (f : Req → Req)
    (hfk : ∀ r, (f r).k = r.k) (hfp : ∀ r, (f r).pending = r.pending) (hfd : ∀ r, (f r).due = r.due) :
    NInv (reqs.map (fun r => if r.k == k then f r else r)) timers := by
  constructor
  · intro q hq
    obtain ⟨r, hr, rfl⟩ := List.mem_map.mp hq
    simp only [List.length_map]
    split
    · rw [hfk]; exact h.kBound r hr
    · exact h.kBound r hr
  · exact kUnique_map h.kUnique k f hfk
  · intro q hq hp
    obtain ⟨r, hr, rfl⟩ := List.mem_map.mp hq
    by_cases hk : r.k == k
    · simp only [hk, if_true] at hp ⊢
      rw [hfp] at hp; rw [hfk, hfd]; exact h.pendTimer r hr hp
    · simp only [hk, Bool.false_eq_true, if_false] at hp ⊢
      exact h.pendTimer r hr hp
  · intro t ht k' hk'
    obtain ⟨q, hq, h1, h2, h3⟩ := h.timerPend t ht k' hk'
    refine ⟨if q.k == k then f q else q, List.mem_map.mpr ⟨q, hq, rfl⟩, ?_, ?_, ?_⟩
    · split <;> simp [hfk, h1]
    · split <;> simp [hfp, h2]
    · split <;> simp [hfd, h3]
  · exact h.names
  · exact h.sorted

/-- removing a timer that is not a request timer -/
theorem NInv.dropOther {reqs : List Req} {timers : List Timer} (h : NInv reqs timers) (w : TimerWhat)
    (hw : ∀ k, w ≠ .mrtb k) :
    NInv reqs (timers.filter (fun t => !(t.what == w))) := by
  constructor
  · exact h.kBound
  · exact h.kUnique
  · intro q hq hp
    refine List.mem_filter.mpr ⟨h.pendTimer q hq hp, ?_⟩
    have : (TimerWhat.mrtb q.k == w) = false := by
      rw [Bool.eq_false_iff]; intro hh
      have he : TimerWhat.mrtb q.k = w := by simpa using hh
      exact hw q.k he.symm
    simp [this]
  · intro t ht k hk
    exact h.timerPend t (List.mem_filter.mp ht).1 k hk
  · exact h.names.sublist (List.Sublist.filterMap _ List.filter_sublist)
  · exact h.sorted.sublist List.filter_sublist

/-- arming the bootstrap `addTimeout` timer -/
theorem NInv.addOther {reqs : List Req} {timers : List Timer} (h : NInv reqs timers) (w : TimerWhat) (due : Rat)
    (hw : ∀ k, w ≠ .mrtb k) :
    NInv reqs (insertTimer { what := w, due := due } timers) := by
  have hm : mrtbOf { what := w, due := due } = none := by
    unfold mrtbOf; split
    · rename_i k hk; exact absurd hk (hw k)
    · rfl
  constructor
  · exact h.kBound
  · exact h.kUnique
  · intro q hq hp
    exact mem_insertTimer.mpr (Or.inr (h.pendTimer q hq hp))
  · intro t ht k hk
    rcases mem_insertTimer.mp ht with rfl | ht
    · exact absurd hk (hw k)
    · exact h.timerPend t ht k hk
  · have hp := (insertTimer_perm { what := w, due := due } timers).filterMap mrtbOf
    refine (List.Perm.nodup_iff hp).mpr ?_
    simpa [List.filterMap_cons, hm] using h.names
  · exact insertTimer_sorted _ _ h.sorted


/-! ### the machine preserves the invariant -/

/-- the part of the state the invariant talks about -/
def core (st : St) : List Req × List Timer := (st.reqs, st.timers)

@[simp] theorem core_setUnaware (st : St) u f : core (setUnaware st u f) = core st := rfl
@[simp] theorem core_setSend (st : St) s f : core (setSend st s f) = core st := rfl
@[simp] theorem core_setSrtc (st : St) r f : core (setSrtc st r f) = core st := rfl
@[simp] theorem core_suppressWaiter (st : St) w : core (suppressWaiter st w) = core st := rfl
@[simp] theorem core_applyUpdate (st : St) c' cn bs : core (applyUpdate st c' cn bs).1 = core st := rfl

theorem core_shuffle {α} {st st' : St} {xs ys : List α} (h : shuffle st xs = some (st', ys)) : core st' = core st := by
  unfold shuffle at h
  split at h
  · cases h
  · simp only [Option.map_eq_some_iff] at h
    obtain ⟨_, _, heq⟩ := h
    cases heq; rfl

theorem core_reqDone (st : St) (o : ReqOwner) (k : Nat) (r : Res) : core (reqDone st o k r).1 = core st := by
  unfold reqDone
  split
  · split <;> (try split) <;> rfl
  · rfl
  · rfl

theorem core_cloadJoin (st : St) (w : Waiter) (g : String) : core (cloadJoin st w g).1 = core st := by
  unfold cloadJoin; split <;> rfl

theorem core_getBrokerClient {st st' : St} {n : Int} {b : Nat} {obs : List Ob}
    (h : getBrokerClient st n = .ok (st', b, obs)) : core st' = core st := by
  unfold getBrokerClient at h
  split at h
  · cases h
  · split at h
    · cases h; rfl
    · split at h
      · cases h
      · cases h; rfl

/-- actions that never touch requests or timers -/
def Act.quiet : Act → Bool
  | .fireReq .. | .timeoutFired .. | .unawareNext .. | .issueSlot .. | .srtcGo .. | .bootResult ..
  | .ltpMerged .. | .cancelDelay .. => false
  | _ => true

theorem exec_quiet (cfg : Cfg) (st : St) (a : Act) (hq : a.quiet = true) : core (exec cfg st a).1 = core st := by
  cases a <;> simp only [Act.quiet] at hq
  all_goals simp only [exec]
  all_goals (repeat' split)
  all_goals (try dsimp only)
  all_goals (first
    | rfl
    | (rename_i hs; exact core_shuffle hs)
    | exact core_cloadJoin _ _ _
    | exact core_reqDone _ _ _ _
    | (simp [core]; done)
    | (simp_all [core]; done))

abbrev SInv (st : St) : Prop := NInv st.reqs st.timers

theorem SInv_of_core {st st' : St} (h : SInv st) (hc : core st' = core st) : SInv st' := by
  have h1 : st'.reqs = st.reqs := congrArg Prod.fst hc
  have h2 : st'.timers = st.timers := congrArg Prod.snd hc
  unfold SInv; rw [h1, h2]; exact h

theorem filter_inactive {timers : List Timer} {w : TimerWhat} (h : (timers.any fun t => t.what == w) = false) :
    timers.filter (fun t => !(t.what == w)) = timers := by
  apply List.filter_eq_self.mpr
  intro t ht
  have := List.any_eq_false.mp h t ht
  simpa using this

theorem reqGet_mem {st : St} {k : Nat} {q : Req} (h : reqGet st k = some q) : q ∈ st.reqs ∧ q.k = k := by
  have hm := List.mem_of_mem_head? h
  obtain ⟨h1, h2⟩ := List.mem_filter.mp hm
  exact ⟨h1, by simpa using h2⟩

theorem exec_fireReq (cfg : Cfg) (st : St) (k : Nat) (r : Res) (n : Bool) (h : SInv st) :
    SInv (exec cfg st (.fireReq k r n)).1 := by
  simp only [exec]
  split
  · exact h
  · rename_i q hq
    split
    · exact h
    · dsimp only
      apply SInv_of_core _ (core_reqDone _ _ _ _)
      have hres := NInv.resolve h k (fun x => { x with pending := false }) (fun _ => rfl) (fun _ => rfl)
      split
      · exact hres
      · rename_i hna
        have hna' : ((setReq st k fun x => { x with pending := false }).timers.any fun t => t.what == TimerWhat.mrtb k) = false := by
          simpa [timerActive] using hna
        have : (setReq st k fun x => { x with pending := false }).timers = st.timers := rfl
        rw [this] at hna'
        unfold SInv
        show NInv (st.reqs.map _) st.timers
        rw [← filter_inactive hna']
        exact hres

theorem exec_makeRequest_site (cfg : Cfg) (st : St) (b : Nat) (owner : ReqOwner) (e : Bool) (w : ReqWhat) (m : Option Rat)
    (h : SInv st) : SInv (makeRequest cfg st b owner e w m).1 := by
  obtain ⟨_, hreqs, htim, _, _⟩ := makeRequest_spec cfg st b owner e w m
  unfold SInv
  rw [hreqs, htim]
  cases hs : syncFire st b e with
  | true => simp only [Bool.not_true, if_true]; exact NInv.issueResolved h _ rfl rfl
  | false => simp only [Bool.not_false, Bool.false_eq_true, if_false]; exact NInv.issue h b st.now _ owner _

theorem issueTo_inv_err {cfg : Cfg} {st : St} {n : Int} {o : ReqOwner} {e : Bool} {w : ReqWhat} {m : Option Rat} {rj : Bool}
    {er : IssueErr} (he : issueTo cfg st n o e w m rj = .error er) (h : SInv st) : SInv er.st := by
  rcases issueTo_err he with ⟨h1, _⟩ | ⟨b, hg⟩
  · rw [h1]; exact h
  · exact SInv_of_core h (core_getBrokerClient hg)

theorem issueTo_inv_ok {cfg : Cfg} {st : St} {n : Int} {o : ReqOwner} {e : Bool} {w : ReqWhat} {m : Option Rat} {rj : Bool}
    {i : IssueOk} (hi : issueTo cfg st n o e w m rj = .ok i) (h : SInv st) : SInv i.st := by
  obtain ⟨st1, b, obs1, hg, h1, _, _, _⟩ := issueTo_ok hi
  rw [h1]
  exact exec_makeRequest_site cfg _ _ _ _ _ _ (SInv_of_core h (core_getBrokerClient hg))

theorem exec_unawareNext (cfg : Cfg) (st : St) (u : Nat) (nodes : List Int) (h : SInv st) :
    SInv (exec cfg st (.unawareNext u nodes)).1 := by
  simp only [exec]
  split
  · exact h
  · split
    · split
      · exact h
      · rename_i hs; exact SInv_of_core h (core_shuffle hs)
    · split
      · rename_i he; exact issueTo_inv_err he h
      · rename_i he; exact SInv_of_core (issueTo_inv_ok he h) (core_setUnaware _ _ _)

theorem exec_issueSlot (cfg : Cfg) (st : St) (s j : Nat) (h : SInv st) : SInv (exec cfg st (.issueSlot s j)).1 := by
  simp only [exec]
  split
  · exact h
  · split
    · split
      · exact h
      · split
        · rename_i he; exact issueTo_inv_err he h
        · rename_i he; exact SInv_of_core (issueTo_inv_ok he h) (core_setSend _ _ _)
    · exact h

theorem exec_srtcGo (cfg : Cfg) (st : St) (r : Nat) (h : SInv st) : SInv (exec cfg st (.srtcGo r)).1 := by
  simp only [exec]
  split
  · exact h
  · split
    · exact h
    · split
      · rename_i he; exact issueTo_inv_err he h
      · rename_i he; exact SInv_of_core (issueTo_inv_ok he h) (core_setSrtc _ _ _)

theorem exec_bootResult (cfg : Cfg) (st : St) (j : Nat) (r : Res) (h : SInv st) : SInv (exec cfg st (.bootResult j r)).1 := by
  simp only [exec]
  repeat' split
  all_goals (try dsimp only)
  all_goals (first
    | exact h
    | exact NInv.dropOther h (.boot j) (fun k hh => by cases hh))

theorem exec_ltpMerged (cfg : Cfg) (st : St) (l : Nat) (ts : List TopicMeta) (h : SInv st) : SInv (exec cfg st (.ltpMerged l ts)).1 := by
  simp only [exec]
  repeat' split
  all_goals (try dsimp only)
  all_goals (first
    | exact h
    | exact NInv.addOther h (.retry l) _ (fun k hh => by cases hh))

theorem exec_cancelDelay (cfg : Cfg) (st : St) (l : Nat) (h : SInv st) : SInv (exec cfg st (.cancelDelay l)).1 := by
  simp only [exec]
  repeat' split
  all_goals (try dsimp only)
  all_goals (first
    | exact h
    | exact NInv.dropOther h (.retry l) (fun k hh => by cases hh))

/-- every action except the firing of a request timer (which needs its timer popped first) -/
def Act.notTimeout : Act → Bool
  | .timeoutFired _ => false
  | _ => true

theorem exec_inv (cfg : Cfg) (st : St) (a : Act) (hn : a.notTimeout = true) (h : SInv st) : SInv (exec cfg st a).1 := by
  by_cases hq : a.quiet = true
  · exact SInv_of_core h (exec_quiet cfg st a hq)
  · cases a
    all_goals (first
      | exact exec_fireReq cfg st _ _ _ h
      | exact exec_unawareNext cfg st _ _ h
      | exact exec_bootResult cfg st _ _ h
      | exact exec_issueSlot cfg st _ _ h
      | exact exec_srtcGo cfg st _ h
      | exact exec_ltpMerged cfg st _ _ h
      | exact exec_cancelDelay cfg st _ h
      | (simp [Act.quiet] at hq; done)
      | (simp [Act.notTimeout] at hn; done))

@[simp] theorem reqDone_acts (st : St) (o : ReqOwner) (k : Nat) (r : Res) : (reqDone st o k r).2.all Act.notTimeout = true := by
  unfold reqDone
  split
  · split
    · simp [Act.notTimeout]
    · split <;> simp [Act.notTimeout]
  · simp [Act.notTimeout]
  · simp [Act.notTimeout]

@[simp] theorem deliverLoad_acts (lo : LOwner) (r : Res) : (deliverLoad lo r).all Act.notTimeout = true := by
  unfold deliverLoad; split <;> simp [Act.notTimeout]

@[simp] theorem cloadJoin_acts (st : St) (w : Waiter) (g : String) : (cloadJoin st w g).2.all Act.notTimeout = true := by
  unfold cloadJoin; split <;> simp [Act.notTimeout]

@[simp] theorem cancelUnaware_acts (x : Unaware) : (cancelUnaware x).2.all Act.notTimeout = true := by
  unfold cancelUnaware; split <;> simp [Act.notTimeout]

@[simp] theorem applyUpdate_acts (st : St) c' cn bs : (applyUpdate st c' cn bs).2.2.all Act.notTimeout = true := by
  simp only [applyUpdate]
  split <;> simp [List.all_map, Function.comp_def, Act.notTimeout]

@[simp] theorem makeRequest_acts (cfg : Cfg) (st : St) b o e w m : (makeRequest cfg st b o e w m).2.2.2.all Act.notTimeout = true := by
  simp only [makeRequest]
  generalize (!e && match bcGet st b with | some i => i.conn | none => false) = c
  cases c <;> simp [Act.notTimeout]

theorem issueTo_acts {cfg : Cfg} {st : St} {n : Int} {o : ReqOwner} {e : Bool} {w : ReqWhat} {m : Option Rat} {rj : Bool}
    {i : IssueOk} (hi : issueTo cfg st n o e w m rj = .ok i) : i.acts.all Act.notTimeout = true := by
  obtain ⟨st1, b, obs1, _, _, _, _, h4⟩ := issueTo_ok hi
  rw [h4]; exact makeRequest_acts ..

/-- no action ever schedules the firing of a request timer: only the clock does -/
theorem exec_acts (cfg : Cfg) (st : St) (a : Act) : (exec cfg st a).2.2.all Act.notTimeout = true := by
  cases a
  all_goals simp only [exec]
  all_goals (repeat' split)
  all_goals (try dsimp only)
  all_goals (first
    | rfl
    | (simp [List.all_map, List.all_append, List.all_flatMap, Function.comp_def, Act.notTimeout]; done)
    | (simp_all [List.all_map, List.all_append, Function.comp_def, Act.notTimeout]; done)
    | (rename_i he; exact issueTo_acts he))

theorem runActs_inv (cfg : Cfg) : ∀ (fuel : Nat) (st : St) (acts : List Act) (obs : List Ob),
    SInv st → acts.all Act.notTimeout = true → SInv (runActs cfg fuel st acts obs).1
  | 0, st, acts, obs, h, _ => by simp only [runActs]; exact h
  | fuel+1, st, [], obs, h, _ => by simp only [runActs]; exact h
  | fuel+1, st, a :: rest, obs, h, ha => by
    simp only [runActs]
    simp only [List.all_cons, Bool.and_eq_true] at ha
    apply runActs_inv cfg fuel _ _ _ (exec_inv cfg st a ha.1 h)
    rw [List.all_append, exec_acts, ha.2]; rfl

/-- the invariant with the timer of request `k` just popped by the clock -/
structure NInvX (k : Nat) (reqs : List Req) (timers : List Timer) : Prop where
  kBound : ∀ q ∈ reqs, q.k < reqs.length
  kUnique : ∀ q ∈ reqs, ∀ q' ∈ reqs, q.k = q'.k → q = q'
  pendTimer : ∀ q ∈ reqs, q.pending = true → q.k ≠ k → ({ what := .mrtb q.k, due := q.due } : Timer) ∈ timers
  timerPend : ∀ t ∈ timers, ∀ k', t.what = .mrtb k' → k' ≠ k ∧ ∃ q ∈ reqs, q.k = k' ∧ q.pending = true ∧ q.due = t.due
  names : (timers.filterMap mrtbOf).Nodup
  sorted : timers.Pairwise (fun a b => a.due ≤ b.due)
  isPending : ∃ q ∈ reqs, q.k = k ∧ q.pending = true

theorem NInv.pop {reqs : List Req} {t : Timer} {rest : List Timer} (h : NInv reqs (t :: rest)) :
    (∀ k, t.what = .mrtb k → NInvX k reqs rest) ∧ ((∀ k, t.what ≠ .mrtb k) → NInv reqs rest) := by
  constructor
  · intro k hk
    have hnames := h.names
    have hm : mrtbOf t = some k := by simp [mrtbOf, hk]
    simp only [List.filterMap_cons, hm, List.nodup_cons] at hnames
    obtain ⟨q, hq, hqk, hqp, _⟩ := h.timerPend t (by simp) k hk
    refine ⟨h.kBound, h.kUnique, ?_, ?_, hnames.2, (List.pairwise_cons.mp h.sorted).2, ⟨q, hq, hqk, hqp⟩⟩
    · intro q' hq' hp hne
      have := h.pendTimer q' hq' hp
      rcases List.mem_cons.mp this with heq | hin
      · exfalso; rw [← heq] at hk; simp only [TimerWhat.mrtb.injEq] at hk; exact hne hk
      · exact hin
    · intro t' ht' k' hk'
      refine ⟨?_, h.timerPend t' (List.mem_cons_of_mem _ ht') k' hk'⟩
      intro heq; subst heq
      apply hnames.1
      exact List.mem_filterMap.mpr ⟨t', ht', by simp [mrtbOf, hk']⟩
  · intro hj
    have hm : mrtbOf t = none := by
      unfold mrtbOf; split
      · rename_i k hk; exact absurd hk (hj k)
      · rfl
    refine ⟨h.kBound, h.kUnique, ?_, ?_, ?_, (List.pairwise_cons.mp h.sorted).2⟩
    · intro q hq hp
      have := h.pendTimer q hq hp
      rcases List.mem_cons.mp this with heq | hin
      · exact absurd (by rw [← heq]) (hj q.k)
      · exact hin
    · intro t' ht' k hk
      exact h.timerPend t' (List.mem_cons_of_mem _ ht') k hk
    · have := h.names
      simpa [List.filterMap_cons, hm] using this

theorem exec_timeoutFired (cfg : Cfg) (st : St) (k : Nat) (h : NInvX k st.reqs st.timers) :
    SInv (exec cfg st (.timeoutFired k)).1 := by
  obtain ⟨q, hq, hqk, hqp⟩ := h.isPending
  -- the request found by id is that pending one
  have hget : ∃ q', reqGet st k = some q' ∧ q'.pending = true := by
    cases hg : reqGet st k with
    | none =>
      exfalso
      have : q ∈ st.reqs.filter (fun r => r.k == k) := List.mem_filter.mpr ⟨hq, by simp [hqk]⟩
      unfold reqGet at hg
      rw [List.head?_eq_none_iff] at hg
      rw [hg] at this; cases this
    | some q' =>
      obtain ⟨h1, h2⟩ := reqGet_mem hg
      have : q' = q := h.kUnique q' h1 q hq (by rw [h2, hqk])
      exact ⟨q', rfl, by rw [this]; exact hqp⟩
  obtain ⟨q', hg, hp'⟩ := hget
  simp only [exec, hg, hp', Bool.not_true, Bool.false_eq_true, if_false]
  apply SInv_of_core _ (core_reqDone _ _ _ _)
  show NInv (st.reqs.map _) st.timers
  constructor
  · intro x hx
    obtain ⟨r, hr, rfl⟩ := List.mem_map.mp hx
    simp only [List.length_map]
    split <;> exact h.kBound r hr
  · exact kUnique_map h.kUnique k _ (fun _ => rfl)
  · intro x hx hp
    obtain ⟨r, hr, rfl⟩ := List.mem_map.mp hx
    by_cases hk : r.k == k
    · simp [hk] at hp
    · simp only [hk, Bool.false_eq_true, if_false] at hp ⊢
      exact h.pendTimer r hr hp (by simpa using hk)
  · intro t ht k' hk'
    obtain ⟨hne, r, hr, h1, h2, h3⟩ := h.timerPend t ht k' hk'
    refine ⟨r, List.mem_map.mpr ⟨r, hr, ?_⟩, h1, h2, h3⟩
    have : (r.k == k) = false := by rw [h1]; simpa using hne
    simp [this]
  · exact h.names
  · exact h.sorted

theorem fireDue_inv (cfg : Cfg) : ∀ (n : Nat) (st : St) (obs : List Ob), SInv st → SInv (fireDue cfg n st obs).1
  | 0, st, obs, h => by simp only [fireDue]; exact h
  | n+1, st, obs, h => by
    simp only [fireDue]
    split
    · exact h
    · rename_i t rest ht
      split
      · exact h
      · apply fireDue_inv cfg n
        have hpop := NInv.pop (show NInv st.reqs (t :: rest) by rw [← ht]; exact h)
        cases hw : t.what with
        | mrtb k =>
          simp only [fuel, timerAct]
          simp only [runActs]
          have hx : NInvX k ({ st with timers := rest } : St).reqs ({ st with timers := rest } : St).timers := hpop.1 k hw
          apply runActs_inv cfg _ _ _ _ (exec_timeoutFired cfg _ k hx)
          rw [List.append_nil]; exact exec_acts cfg _ _
        | boot j =>
          have hx : SInv ({ st with timers := rest } : St) := hpop.2 (fun k hh => by rw [hw] at hh; cases hh)
          exact runActs_inv cfg _ _ _ _ hx (by simp [Act.notTimeout, timerAct])
        | retry l =>
          have hx : SInv ({ st with timers := rest } : St) := hpop.2 (fun k hh => by rw [hw] at hh; cases hh)
          exact runActs_inv cfg _ _ _ _ hx (by simp [Act.notTimeout, timerAct])

theorem cancelOp_inv (st : St) (o : Nat) : core (cancelOp st o).1 = core st ∧ (cancelOp st o).2.2.all Act.notTimeout = true := by
  unfold cancelOp
  repeat' split
  all_goals (try dsimp only)
  all_goals (refine ⟨?_, ?_⟩)
  all_goals (first
    | rfl
    | (simp [List.all_flatMap, Act.notTimeout]; done)
    | (simp_all [List.all_flatMap, Act.notTimeout]; done)
    | (rw [List.all_flatMap]; apply List.all_eq_true.mpr; intro sl _; split <;> simp [Act.notTimeout]))

/-- every step of the machine preserves the timer invariant -/
theorem step_inv (cfg : Cfg) (st : St) (env : Env) (e : Ev) (h : SInv st) : SInv (step cfg st env e).1 := by
  have h' : SInv ({ st with env := env } : St) := h
  cases e
  case cancel o =>
    simp only [step]
    have hc := cancelOp_inv { st with env := env } o
    exact runActs_inv cfg _ _ _ _ (SInv_of_core h' hc.1) hc.2
  case advance dt =>
    simp only [step]
    split
    · exact h
    · exact fireDue_inv cfg _ _ _ h
  case bootOk j =>
    simp only [step]
    split
    · exact h
    · dsimp only
      exact NInv.addOther h (.boot j) _ (fun k hh => by cases hh)
  case cload o g =>
    simp only [step]
    exact runActs_inv cfg _ _ _ _ (SInv_of_core h' (core_cloadJoin _ _ _)) (cloadJoin_acts _ _ _)
  case srtc o g m =>
    simp only [step]
    split
    · exact runActs_inv cfg _ _ _ _ h (by simp [Act.notTimeout])
    · exact runActs_inv cfg _ _ _ _ (SInv_of_core h' (core_cloadJoin _ _ _)) (cloadJoin_acts _ _ _)
  case close o =>
    simp only [step]
    split
    · split
      · exact runActs_inv cfg _ _ _ _ h (by simp [Act.notTimeout])
      · exact h
    · refine runActs_inv cfg _ _ _ _ (show SInv _ from h) ?_
      apply List.all_eq_true.mpr
      intro a ha
      simp only [List.mem_append, List.mem_map, List.mem_cons, List.mem_nil_iff, or_false] at ha
      rcases ha with ((⟨b, _, rfl⟩ | rfl | rfl) | ha) | rfl
      · rfl
      · rfl
      · rfl
      · split at ha
        · simp only [List.mem_singleton] at ha; subst ha; rfl
        · cases ha
      · rfl
  case send o keys group foe expect =>
    simp only [step]
    split
    · exact runActs_inv cfg _ _ _ _ h (by simp [Act.notTimeout])
    · split <;> exact runActs_inv cfg _ _ _ _ h (by simp [Act.notTimeout])
  case bootFail j =>
    simp only [step]
    split
    · exact h
    · exact runActs_inv cfg _ _ _ _ h (by simp [Act.notTimeout])
  case conn b v => simp only [step]; exact h
  case resetTopics ts => simp only [step]; exact h
  all_goals (simp only [step]; exact runActs_inv cfg _ _ _ _ h (by simp [Act.notTimeout]))

/-- the invariant holds in every reachable state -/
theorem reachable_inv (cfg : Cfg) (evs : List (Env × Ev)) :
    SInv (evs.foldl (fun s e => (step cfg s e.1 e.2).1) ({} : St)) := by
  suffices h : ∀ (st : St), SInv st → SInv (evs.foldl (fun s e => (step cfg s e.1 e.2).1) st) from h {} NInv.init
  induction evs with
  | nil => intro st h; exact h
  | cons e rest ih => intro st h; exact ih _ (step_inv cfg st e.1 e.2 h)

/-! ### nothing is overdue -/

@[simp] theorem setUnaware_now (st : St) u f : (setUnaware st u f).now = st.now := rfl
@[simp] theorem setUnaware_timers (st : St) u f : (setUnaware st u f).timers = st.timers := rfl
@[simp] theorem setSend_now (st : St) s f : (setSend st s f).now = st.now := rfl
@[simp] theorem setSend_timers (st : St) s f : (setSend st s f).timers = st.timers := rfl
@[simp] theorem setSrtc_now (st : St) r f : (setSrtc st r f).now = st.now := rfl
@[simp] theorem setSrtc_timers (st : St) r f : (setSrtc st r f).timers = st.timers := rfl

/-- no pending timer is past its due time -/
def NotOverdue (st : St) : Prop := ∀ t ∈ st.timers, st.now ≤ t.due

theorem boundOf_nonneg (cfg : Cfg) (h0 : 0 ≤ cfg.timeout) (m : Option Rat) : 0 ≤ boundOf cfg m := by
  unfold boundOf
  cases m with
  | none => exact h0
  | some x =>
    simp only
    split
    · rename_i hlt; exact Rat.le_trans h0 (Rat.le_of_lt hlt)
    · exact h0

theorem le_add_nonneg (a b : Rat) (hb : 0 ≤ b) : a ≤ a + b := by
  have := Rat.add_le_add_left (c := a) |>.mpr hb
  simpa [Rat.add_zero] using this

/-- timers an action leaves behind are old ones or are due no earlier than now; `now` is untouched -/
theorem exec_timers (cfg : Cfg) (h0 : 0 ≤ cfg.timeout) (h1 : 0 ≤ cfg.retryDelay) (st : St) (a : Act) :
    (exec cfg st a).1.now = st.now ∧ ∀ t ∈ (exec cfg st a).1.timers, t ∈ st.timers ∨ st.now ≤ t.due := by
  have hmr : ∀ (st1 : St) b o e w m, (makeRequest cfg st1 b o e w m).1.now = st1.now ∧
      ∀ t ∈ (makeRequest cfg st1 b o e w m).1.timers, t ∈ st1.timers ∨ st1.now ≤ t.due := by
    intro st1 b o e w m
    obtain ⟨_, _, htim, _, hnow⟩ := makeRequest_spec cfg st1 b o e w m
    refine ⟨hnow, ?_⟩
    intro t ht
    rw [htim] at ht
    split at ht
    · left; exact ht
    · rcases mem_insertTimer.mp ht with rfl | ht
      · right; exact le_add_nonneg _ _ (boundOf_nonneg cfg h0 m)
      · left; exact ht
  have hgb : ∀ {st st' : St} {n : Int} {b : Nat} {obs : List Ob}, getBrokerClient st n = .ok (st', b, obs) →
      st'.now = st.now ∧ st'.timers = st.timers := by
    intro st st' n b obs hg
    unfold getBrokerClient at hg
    split at hg
    · cases hg
    · split at hg
      · cases hg; exact ⟨rfl, rfl⟩
      · split at hg
        · cases hg
        · cases hg; exact ⟨rfl, rfl⟩
  have hsub : ∀ (w : TimerWhat) (t : Timer), t ∈ (cancelTimer st w).timers → t ∈ st.timers := by
    intro w t ht; exact (List.mem_filter.mp ht).1
  have hie : ∀ {n : Int} {o : ReqOwner} {e : Bool} {w : ReqWhat} {m : Option Rat} {rj : Bool} {er : IssueErr},
      issueTo cfg st n o e w m rj = .error er → er.st.now = st.now ∧ er.st.timers = st.timers := by
    intro n o e w m rj er he
    rcases issueTo_err he with ⟨h1, _⟩ | ⟨b, hg⟩
    · rw [h1]; exact ⟨rfl, rfl⟩
    · exact hgb hg
  have hio : ∀ {n : Int} {o : ReqOwner} {e : Bool} {w : ReqWhat} {m : Option Rat} {rj : Bool} {i : IssueOk},
      issueTo cfg st n o e w m rj = .ok i → i.st.now = st.now ∧ ∀ t ∈ i.st.timers, t ∈ st.timers ∨ st.now ≤ t.due := by
    intro n o e w m rj i hi
    obtain ⟨st1, b, obs1, hg, hst, _, _, _⟩ := issueTo_ok hi
    obtain ⟨g1, g2⟩ := hgb hg
    rw [hst]
    refine ⟨(hmr _ _ _ _ _ _).1.trans g1, fun t ht => ?_⟩
    rcases (hmr _ _ _ _ _ _).2 t ht with h | h
    · left; rw [← g2]; exact h
    · right; rw [← g1]; exact h
  by_cases hq : a.quiet = true
  · have hc := exec_quiet cfg st a hq
    have h2 : (exec cfg st a).1.timers = st.timers := congrArg Prod.snd hc
    refine ⟨?_, fun t ht => Or.inl (h2 ▸ ht)⟩
    -- quiet actions do not touch the clock either
    cases a <;> simp only [Act.quiet] at hq
    all_goals simp only [exec]
    all_goals (repeat' split)
    all_goals (try dsimp only)
    all_goals (first
      | rfl
      | (rename_i hs; exact (by
          unfold shuffle at hs
          split at hs
          · cases hs
          · simp only [Option.map_eq_some_iff] at hs
            obtain ⟨_, _, heq⟩ := hs
            cases heq; rfl))
      | (unfold cloadJoin; split <;> rfl)
      | (unfold reqDone; split <;> (try split) <;> (try split) <;> rfl)
      | (simp_all; done))
  · cases a <;> simp only [Act.quiet] at hq
    case fireReq k r n =>
      simp only [exec]
      split
      · exact ⟨rfl, fun t ht => Or.inl ht⟩
      · split
        · exact ⟨rfl, fun t ht => Or.inl ht⟩
        · dsimp only
          have hrd : ∀ (s : St) o k r, (reqDone s o k r).1.now = s.now ∧ (reqDone s o k r).1.timers = s.timers := by
            intro s o k r; unfold reqDone; split
            · split <;> (try split) <;> exact ⟨rfl, rfl⟩
            · exact ⟨rfl, rfl⟩
            · exact ⟨rfl, rfl⟩
          split
          · refine ⟨(hrd _ _ _ _).1, fun t ht => Or.inl ?_⟩
            rw [(hrd _ _ _ _).2] at ht
            exact (List.mem_filter.mp ht).1
          · refine ⟨(hrd _ _ _ _).1, fun t ht => Or.inl ?_⟩
            rw [(hrd _ _ _ _).2] at ht
            exact ht
    case timeoutFired k =>
      simp only [exec]
      split
      · exact ⟨rfl, fun t ht => Or.inl ht⟩
      · split
        · exact ⟨rfl, fun t ht => Or.inl ht⟩
        · dsimp only
          have hrd : ∀ (s : St) o k r, (reqDone s o k r).1.now = s.now ∧ (reqDone s o k r).1.timers = s.timers := by
            intro s o k r; unfold reqDone; split
            · split <;> (try split) <;> exact ⟨rfl, rfl⟩
            · exact ⟨rfl, rfl⟩
            · exact ⟨rfl, rfl⟩
          refine ⟨(hrd _ _ _ _).1, fun t ht => Or.inl ?_⟩
          rw [(hrd _ _ _ _).2] at ht
          exact ht
    case unawareNext u nodes =>
      simp only [exec]
      split
      · exact ⟨rfl, fun t ht => Or.inl ht⟩
      · split
        · split
          · exact ⟨rfl, fun t ht => Or.inl ht⟩
          · rename_i hs
            have hc := core_shuffle hs
            have h2 : _ = st.timers := congrArg Prod.snd hc
            refine ⟨?_, fun t ht => Or.inl (h2 ▸ ht)⟩
            unfold shuffle at hs
            split at hs
            · cases hs
            · simp only [Option.map_eq_some_iff] at hs
              obtain ⟨_, _, heq⟩ := hs
              cases heq; rfl
        · split
          · rename_i he; exact ⟨(hie he).1, fun t ht => Or.inl ((hie he).2 ▸ ht)⟩
          · rename_i he; exact ⟨(hio he).1, fun t ht => (hio he).2 t ht⟩
    case issueSlot s j =>
      simp only [exec]
      split
      · exact ⟨rfl, fun t ht => Or.inl ht⟩
      · split
        · split
          · exact ⟨rfl, fun t ht => Or.inl ht⟩
          · split
            · rename_i he; exact ⟨(hie he).1, fun t ht => Or.inl ((hie he).2 ▸ ht)⟩
            · rename_i he; exact ⟨(hio he).1, fun t ht => (hio he).2 t ht⟩
        · exact ⟨rfl, fun t ht => Or.inl ht⟩
    case srtcGo r =>
      simp only [exec]
      split
      · exact ⟨rfl, fun t ht => Or.inl ht⟩
      · split
        · exact ⟨rfl, fun t ht => Or.inl ht⟩
        · split
          · rename_i he; exact ⟨(hie he).1, fun t ht => Or.inl ((hie he).2 ▸ ht)⟩
          · rename_i he; exact ⟨(hio he).1, fun t ht => (hio he).2 t ht⟩
    case bootResult j r =>
      simp only [exec]
      repeat' split
      all_goals (try dsimp only)
      all_goals (first
        | exact ⟨rfl, fun t ht => Or.inl ht⟩
        | exact ⟨rfl, fun t ht => Or.inl (hsub _ t ht)⟩)
    case ltpMerged l ts =>
      simp only [exec]
      repeat' split
      all_goals (try dsimp only)
      all_goals (first
        | exact ⟨rfl, fun t ht => Or.inl ht⟩
        | (refine ⟨rfl, fun t ht => ?_⟩
           rcases mem_insertTimer.mp ht with rfl | ht
           · right; exact le_add_nonneg _ _ h1
           · left; exact ht))
    case cancelDelay l =>
      simp only [exec]
      repeat' split
      all_goals (try dsimp only)
      all_goals (first
        | exact ⟨rfl, fun t ht => Or.inl ht⟩
        | exact ⟨rfl, fun t ht => Or.inl (hsub _ t ht)⟩)
    all_goals (exact absurd trivial hq)

theorem runActs_timers (cfg : Cfg) (h0 : 0 ≤ cfg.timeout) (h1 : 0 ≤ cfg.retryDelay) : ∀ (fuel : Nat) (st : St) (acts : List Act) (obs : List Ob),
    (runActs cfg fuel st acts obs).1.now = st.now ∧
    ∀ t ∈ (runActs cfg fuel st acts obs).1.timers, t ∈ st.timers ∨ st.now ≤ t.due
  | 0, st, acts, obs => by
    have : (runActs cfg 0 st acts obs).1 = st := rfl
    rw [this]; exact ⟨rfl, fun t ht => Or.inl ht⟩
  | fuel+1, st, [], obs => by
    have : (runActs cfg (fuel+1) st [] obs).1 = st := rfl
    rw [this]; exact ⟨rfl, fun t ht => Or.inl ht⟩
  | fuel+1, st, a :: rest, obs => by
    simp only [runActs]
    obtain ⟨e1, e2⟩ := exec_timers cfg h0 h1 st a
    obtain ⟨r1, r2⟩ := runActs_timers cfg h0 h1 fuel (exec cfg st a).1 ((exec cfg st a).2.2 ++ rest) (obs ++ (exec cfg st a).2.1)
    refine ⟨r1.trans e1, fun t ht => ?_⟩
    rcases r2 t ht with h | h
    · exact e2 t h
    · right; rw [← e1]; exact h

theorem runActs_notOverdue (cfg : Cfg) (h0 : 0 ≤ cfg.timeout) (h1 : 0 ≤ cfg.retryDelay) (fuel : Nat) (st : St) (acts : List Act) (obs : List Ob)
    (h : NotOverdue st) : NotOverdue (runActs cfg fuel st acts obs).1 := by
  obtain ⟨r1, r2⟩ := runActs_timers cfg h0 h1 fuel st acts obs
  intro t ht
  rw [r1]
  rcases r2 t ht with h' | h'
  · exact h t h'
  · exact h'

/-- when the clock has fired everything that was due, every remaining timer is strictly in the future
    (unless the step ran out of fuel, which it reports) -/
theorem fireDue_exit (cfg : Cfg) : ∀ (n : Nat) (st : St) (obs : List Ob), SInv st →
    (∀ t ∈ (fireDue cfg n st obs).1.timers, (fireDue cfg n st obs).1.now < t.due) ∨
    Ob.badOp "fuel" ∈ (fireDue cfg n st obs).2
  | 0, st, obs, _ => by right; simp [fireDue]
  | n+1, st, obs, h => by
    simp only [fireDue]
    split
    · rename_i hnil; left; intro t ht; rw [hnil] at ht; cases ht
    · rename_i t rest ht
      split
      · rename_i hlt
        left
        intro t' ht'
        rw [ht] at ht'
        have hs : (t :: rest).Pairwise (fun a b => a.due ≤ b.due) := ht ▸ h.sorted
        rcases List.mem_cons.mp ht' with rfl | hin
        · exact hlt
        · exact Std.lt_of_lt_of_le hlt ((List.pairwise_cons.mp hs).1 t' hin)
      · apply fireDue_exit cfg n
        have hpop := NInv.pop (show NInv st.reqs (t :: rest) by rw [← ht]; exact h)
        cases hw : t.what with
        | mrtb k =>
          simp only [fuel, runActs, timerAct]
          have hx : NInvX k ({ st with timers := rest } : St).reqs ({ st with timers := rest } : St).timers := hpop.1 k hw
          apply runActs_inv cfg _ _ _ _ (exec_timeoutFired cfg _ k hx)
          rw [List.append_nil]; exact exec_acts cfg _ _
        | boot j =>
          have hx : SInv ({ st with timers := rest } : St) := hpop.2 (fun k hh => by rw [hw] at hh; cases hh)
          exact runActs_inv cfg _ _ _ _ hx (by simp [Act.notTimeout, timerAct])
        | retry l =>
          have hx : SInv ({ st with timers := rest } : St) := hpop.2 (fun k hh => by rw [hw] at hh; cases hh)
          exact runActs_inv cfg _ _ _ _ hx (by simp [Act.notTimeout, timerAct])

/-- a step that is not a clock advance keeps "nothing overdue" -/
theorem step_notOverdue (cfg : Cfg) (h0 : 0 ≤ cfg.timeout) (h1 : 0 ≤ cfg.retryDelay) (st : St) (env : Env) (e : Ev)
    (hne : ∀ dt, e ≠ .advance dt) (h : NotOverdue st) : NotOverdue (step cfg st env e).1 := by
  have h' : NotOverdue ({ st with env := env } : St) := h
  cases e
  case advance dt => exact absurd rfl (hne dt)
  case cancel o =>
    simp only [step]
    have hc := cancelOp_inv { st with env := env } o
    apply runActs_notOverdue cfg h0 h1
    intro t ht
    have h1 : (cancelOp { st with env := env } o).1.timers = st.timers := congrArg Prod.snd hc.1
    have h2 : (cancelOp { st with env := env } o).1.now = st.now := by
      unfold cancelOp; repeat' split
      all_goals (first | rfl | (simp_all; done))
    rw [h2]; rw [h1] at ht; exact h t ht
  case bootOk j =>
    simp only [step]
    split
    · exact h
    · dsimp only
      intro t ht
      simp only [setUnaware_timers, setUnaware_now] at ht ⊢
      rcases mem_insertTimer.mp ht with rfl | ht
      · exact le_add_nonneg _ _ h0
      · exact h t ht
  case cload o g =>
    simp only [step]
    apply runActs_notOverdue cfg h0 h1
    have hc := core_cloadJoin { st with env := env, liveOps := st.liveOps ++ [o] } (.api o) g
    intro t ht
    have h1 : (cloadJoin { st with env := env, liveOps := st.liveOps ++ [o] } (.api o) g).1.timers = st.timers := congrArg Prod.snd hc
    have h2 : (cloadJoin { st with env := env, liveOps := st.liveOps ++ [o] } (.api o) g).1.now = st.now := by
      unfold cloadJoin; split <;> rfl
    rw [h2]; rw [h1] at ht; exact h t ht
  case srtc o g m =>
    simp only [step]
    split
    · exact runActs_notOverdue cfg h0 h1 _ _ _ _ h
    · apply runActs_notOverdue cfg h0 h1
      intro t ht
      have hc := core_cloadJoin { st with env := env, liveOps := st.liveOps ++ [o], srtcs := st.srtcs ++ [{ r := st.srtcs.length, o := o, g := g, minTimeout := m, phase := .resolving }] } (.srtc st.srtcs.length) g
      have h1 : (cloadJoin { st with env := env, liveOps := st.liveOps ++ [o], srtcs := st.srtcs ++ [{ r := st.srtcs.length, o := o, g := g, minTimeout := m, phase := .resolving }] } (.srtc st.srtcs.length) g).1.timers = st.timers := congrArg Prod.snd hc
      have h2 : (cloadJoin { st with env := env, liveOps := st.liveOps ++ [o], srtcs := st.srtcs ++ [{ r := st.srtcs.length, o := o, g := g, minTimeout := m, phase := .resolving }] } (.srtc st.srtcs.length) g).1.now = st.now := by
        unfold cloadJoin; split <;> rfl
      rw [h2]; rw [h1] at ht; exact h t ht
  case close o =>
    simp only [step]
    split
    · split
      · exact runActs_notOverdue cfg h0 h1 _ _ _ _ h
      · exact h
    · exact runActs_notOverdue cfg h0 h1 _ _ _ _ h
  case send o keys group foe expect =>
    simp only [step]
    split
    · exact runActs_notOverdue cfg h0 h1 _ _ _ _ h
    · split <;> exact runActs_notOverdue cfg h0 h1 _ _ _ _ h
  case bootFail j =>
    simp only [step]
    split
    · exact h
    · exact runActs_notOverdue cfg h0 h1 _ _ _ _ h
  case conn b v => simp only [step]; exact h
  case resetTopics ts => simp only [step]; exact h
  all_goals (simp only [step]; exact runActs_notOverdue cfg h0 h1 _ _ _ _ h)

/-- a clock advance fires everything due: afterwards every pending timer is strictly in the future -/
theorem step_advance_exit (cfg : Cfg) (st : St) (env : Env) (dt : Rat) (hdt : 0 ≤ dt) (h : SInv st) :
    (∀ t ∈ (step cfg st env (.advance dt)).1.timers, (step cfg st env (.advance dt)).1.now < t.due) ∨
    Ob.badOp "fuel" ∈ (step cfg st env (.advance dt)).2 := by
  simp only [step]
  have : ¬ dt < 0 := Rat.not_lt.mpr hdt
  simp only [this, if_false]
  exact fireDue_exit cfg _ _ _ h

end Afkak.ClientNet
