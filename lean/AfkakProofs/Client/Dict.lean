import Afkak.ClientCache
/-! Lemmas about the association-list dict helpers of `Afkak.ClientCache`. -/
namespace Afkak.ClientCache
variable {κ ν : Type} [BEq κ] [LawfulBEq κ]

theorem hasKey_iff {k : κ} {l : List (κ × ν)} : hasKey k l = true ↔ ∃ v, (k, v) ∈ l := by
  simp only [hasKey, List.any_eq_true, beq_iff_eq]
  constructor
  · rintro ⟨e, he, rfl⟩; exact ⟨e.2, he⟩
  · rintro ⟨v, hv⟩; exact ⟨(k, v), hv, rfl⟩

theorem get?_eq_none_iff {k : κ} : ∀ {l : List (κ × ν)}, get? k l = none ↔ hasKey k l = false
  | [] => by simp [get?, hasKey]
  | (k', v) :: l => by
    simp only [get?, hasKey, List.any_cons]
    by_cases h : k' == k
    · simp [h]
    · simp only [h, Bool.false_eq_true, if_false, Bool.false_or]
      exact get?_eq_none_iff (l := l)

theorem get?_isSome {k : κ} {l : List (κ × ν)} : (get? k l).isSome = hasKey k l := by
  cases h : get? k l with
  | none => simp [get?_eq_none_iff.mp h]
  | some v =>
    cases h2 : hasKey k l with
    | true => rfl
    | false => rw [get?_eq_none_iff.mpr h2] at h; cases h

theorem get?_mem {k : κ} {v : ν} : ∀ {l : List (κ × ν)}, get? k l = some v → (k, v) ∈ l
  | [], h => by simp [get?] at h
  | (k', v') :: l, h => by
    simp only [get?] at h
    by_cases hk : k' == k
    · simp only [hk, if_true, Option.some.injEq] at h
      have : k' = k := by simpa using hk
      subst this; subst h; simp
    · simp only [hk, Bool.false_eq_true, if_false] at h
      exact List.mem_cons_of_mem _ (get?_mem h)

/-- with unique keys, membership determines the lookup -/
theorem get?_of_mem {k : κ} {v : ν} : ∀ {l : List (κ × ν)}, (l.map (·.1)).Nodup → (k, v) ∈ l → get? k l = some v
  | [], _, h => by cases h
  | (k', v') :: l, hnd, h => by
    simp only [List.map_cons, List.nodup_cons] at hnd
    simp only [get?]
    rcases List.mem_cons.mp h with heq | hm
    · simp only [Prod.mk.injEq] at heq; obtain ⟨rfl, rfl⟩ := heq; simp
    · have hne : ¬ (k' == k) = true := by
        intro hk
        have : k' = k := by simpa using hk
        subst this
        exact hnd.1 (List.mem_map.mpr ⟨(k', v), hm, rfl⟩)
      simp only [hne, if_false]
      exact get?_of_mem hnd.2 hm

theorem get?_upsert_self (k : κ) (v : ν) : ∀ (l : List (κ × ν)), get? k (upsert k v l) = some v := by
  intro l
  unfold upsert
  split
  · rename_i h
    induction l with
    | nil => simp [hasKey] at h
    | cons e l ih =>
      simp only [List.map_cons, get?]
      by_cases he : e.1 == k
      · simp [he]
      · simp only [he, Bool.false_eq_true, if_false]
        have : hasKey k l = true := by simpa [hasKey, he] using h
        exact ih this
  · rename_i h
    induction l with
    | nil => simp [get?]
    | cons e l ih =>
      have he : ¬ (e.1 == k) = true := by
        intro hh; apply h; simp [hasKey, hh]
      have hl : ¬ hasKey k l = true := by
        intro hh; apply h; simp only [hasKey, List.any_cons] at hh ⊢; simp [hh]
      simp only [List.cons_append, get?, he, if_false]
      exact ih hl

theorem get?_map_replace_ne {k k' : κ} (v : ν) (hne : k' ≠ k) : ∀ (l : List (κ × ν)),
    get? k (l.map (fun e => if e.1 == k' then (k', v) else e)) = get? k l
  | [] => rfl
  | e :: l => by
    have hb : (k' == k) = false := by simpa using hne
    simp only [List.map_cons, get?]
    by_cases he : e.1 == k'
    · have h1 : e.1 = k' := by simpa using he
      have h2 : (e.1 == k) = false := by rw [h1]; exact hb
      simp only [he, if_true, hb, h2, Bool.false_eq_true, if_false]
      exact get?_map_replace_ne v hne l
    · simp only [he, Bool.false_eq_true, if_false]
      by_cases hk : e.1 == k
      · simp [hk]
      · simp only [hk, Bool.false_eq_true, if_false]
        exact get?_map_replace_ne v hne l

theorem get?_append_ne {k k' : κ} (v : ν) (hne : k' ≠ k) : ∀ (l : List (κ × ν)), get? k (l ++ [(k', v)]) = get? k l
  | [] => by
    have hb : (k' == k) = false := by simpa using hne
    simp [get?, hb]
  | e :: l => by
    simp only [List.cons_append, get?]
    by_cases hk : e.1 == k
    · simp [hk]
    · simp only [hk, Bool.false_eq_true, if_false]
      exact get?_append_ne v hne l

theorem get?_upsert_ne {k k' : κ} (v : ν) (hne : k' ≠ k) (l : List (κ × ν)) : get? k (upsert k' v l) = get? k l := by
  unfold upsert
  split
  · exact get?_map_replace_ne v hne l
  · exact get?_append_ne v hne l

theorem hasKey_upsert {k k' : κ} (v : ν) (l : List (κ × ν)) :
    hasKey k (upsert k' v l) = (k == k' || hasKey k l) := by
  rw [← get?_isSome, ← get?_isSome]
  by_cases h : k' = k
  · subst h; simp [get?_upsert_self]
  · rw [get?_upsert_ne v h]
    have : (k == k') = false := by simpa using fun hh => h hh.symm
    simp [this]

theorem keys_upsert_nodup {k : κ} (v : ν) {l : List (κ × ν)} (h : (l.map (·.1)).Nodup) :
    ((upsert k v l).map (·.1)).Nodup := by
  unfold upsert
  split
  · have : (l.map (fun e => if e.1 == k then (k, v) else e)).map (·.1) = l.map (·.1) := by
      simp only [List.map_map]
      apply List.map_congr_left
      intro e _
      simp only [Function.comp]
      split
      · rename_i he; exact (by simpa using he : e.1 = k).symm
      · rfl
    rw [this]; exact h
  · rename_i hk
    simp only [List.map_append, List.map_cons, List.map_nil]
    refine List.nodup_append.mpr ⟨h, by simp, ?_⟩
    intro a ha b hb
    simp only [List.mem_singleton] at hb
    subst hb
    intro heq; subst heq
    apply hk
    obtain ⟨e, he, rfl⟩ := List.mem_map.mp ha
    exact hasKey_iff.mpr ⟨e.2, he⟩

theorem get?_erase_self (k : κ) (l : List (κ × ν)) : get? k (erase k l) = none := by
  rw [get?_eq_none_iff, Bool.eq_false_iff]
  intro h
  obtain ⟨v, hv⟩ := hasKey_iff.mp h
  simp [erase, List.mem_filter] at hv

theorem get?_erase_ne {k k' : κ} (hne : k' ≠ k) : ∀ (l : List (κ × ν)), get? k (erase k' l) = get? k l
  | [] => rfl
  | e :: l => by
    simp only [erase, List.filter_cons]
    by_cases he : e.1 == k'
    · have h1 : e.1 = k' := by simpa using he
      have h2 : (e.1 == k) = false := by rw [h1]; simpa using hne
      simp only [he, Bool.not_true, Bool.false_eq_true, if_false, get?, h2]
      exact get?_erase_ne hne l
    · simp only [he, Bool.not_false, if_true, get?]
      by_cases hk : e.1 == k
      · simp [hk]
      · simp only [hk, Bool.false_eq_true, if_false]
        exact get?_erase_ne hne l

theorem keys_erase_nodup {k : κ} {l : List (κ × ν)} (h : (l.map (·.1)).Nodup) : ((erase k l).map (·.1)).Nodup :=
  h.sublist (List.Sublist.map _ List.filter_sublist)

theorem foldl_upsert_nodup (es : List (κ × ν)) : ∀ (l : List (κ × ν)), (l.map (·.1)).Nodup →
    ((es.foldl (fun d e => upsert e.1 e.2 d) l).map (·.1)).Nodup := by
  induction es with
  | nil => intro l h; exact h
  | cons e es ih => intro l h; exact ih _ (keys_upsert_nodup _ h)

theorem dictOfList_nodup (es : List (κ × ν)) : ((dictOfList es).map (·.1)).Nodup :=
  foldl_upsert_nodup es [] (by simp)

/-- folding `d[k] = v` over entries with unique keys: a listed key gets its listed value, any other
    key keeps what it had -/
theorem get?_foldl_upsert (k : κ) : ∀ (es : List (κ × ν)) (l : List (κ × ν)), (es.map (·.1)).Nodup →
    get? k (es.foldl (fun d e => upsert e.1 e.2 d) l) = (match get? k es with | some v => some v | none => get? k l) := by
  intro es
  induction es with
  | nil => intro l _; rfl
  | cons e es ih =>
    intro l hnd
    simp only [List.map_cons, List.nodup_cons] at hnd
    simp only [List.foldl_cons, get?]
    rw [ih _ hnd.2]
    by_cases he : e.1 == k
    · have hek : e.1 = k := by simpa using he
      simp only [he, if_true]
      have : get? k es = none := by
        rw [get?_eq_none_iff, Bool.eq_false_iff]
        intro hh
        obtain ⟨v, hv⟩ := hasKey_iff.mp hh
        exact hnd.1 (List.mem_map.mpr ⟨(k, v), hv, hek.symm⟩)
      simp only [this]
      rw [← hek]; exact get?_upsert_self _ _ _
    · simp only [he, Bool.false_eq_true, if_false]
      have hne : e.1 ≠ k := by simpa using he
      cases get? k es with
      | some v => rfl
      | none => exact get?_upsert_ne _ hne _

end Afkak.ClientCache
