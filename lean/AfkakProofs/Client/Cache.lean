import Afkak.ClientCache
import Afkak.Monitor.C08
import AfkakProofs.Client.Dict
/-! Lemmas about the cache kernels (`resetTopic`, `handleResponses`, `updateBrokersDict`, …) for C08. -/
namespace Afkak.ClientCache
open Afkak.Monitor.C08 Afkak.Consts

/-- Reachable-cache facts: unique dict keys, and a routing entry only for a partition that is listed for
    its topic (`reset_topic_metadata` relies on it to delete every routing entry of a topic). -/
structure CWf (c : Cache) : Prop where
  t2bKeys : (c.t2b.map (·.1)).Nodup
  partsKeys : (c.topicParts.map (·.1)).Nodup
  errsKeys : (c.topicErrs.map (·.1)).Nodup
  brokersKeys : (c.brokers.map (·.1)).Nodup
  groupsKeys : (c.groups.map (·.1)).Nodup
  listed : ∀ e ∈ c.t2b, ∃ ps, (e.1.1, ps) ∈ c.topicParts ∧ e.1.2 ∈ ps

theorem CWf.empty : CWf {} := by constructor <;> simp

/-- under `CWf`, `reset_topic_metadata(topic)` deletes every routing entry of the topic -/
theorem resetTopic_t2b {c : Cache} (h : CWf c) (t : String) :
    (resetTopic c t).t2b = c.t2b.filter (fun e => !(e.1.1 == t)) := by
  simp only [resetTopic]
  apply List.filter_congr
  intro e he
  by_cases het : e.1.1 == t
  · simp only [het, Bool.true_and, Bool.not_true, Bool.not_eq_eq_eq_not]
    obtain ⟨ps, hps, hp⟩ := h.listed e he
    have : e.1.1 = t := by simpa using het
    simp only [Bool.not_false]
    rw [List.any_eq_true]
    exact ⟨(e.1.1, ps), hps, by simp [this, hp]⟩
  · simp [het]

theorem resetTopic_wf {c : Cache} (h : CWf c) (t : String) : CWf (resetTopic c t) := by
  have ht2b := resetTopic_t2b h t
  constructor
  · rw [ht2b]; exact h.t2bKeys.sublist (List.Sublist.map _ List.filter_sublist)
  · exact keys_erase_nodup h.partsKeys
  · exact keys_erase_nodup h.errsKeys
  · exact h.brokersKeys
  · exact h.groupsKeys
  · intro e he
    rw [ht2b] at he
    obtain ⟨he1, he2⟩ := List.mem_filter.mp he
    obtain ⟨ps, hps, hp⟩ := h.listed e he1
    refine ⟨ps, ?_, hp⟩
    simp only [resetTopic, erase, List.mem_filter]
    exact ⟨hps, he2⟩

/-- C08, second sentence (topic part): after the reset nothing routes the topic -/
theorem resetTopic_invalid {c : Cache} (h : CWf c) (t : String) : topicInvalid (resetTopic c t) t = true := by
  simp only [topicInvalid, Bool.and_eq_true, Bool.not_eq_eq_eq_not, Bool.not_true, List.isEmpty_iff]
  refine ⟨⟨?_, ?_⟩, ?_⟩
  · rw [← get?_isSome]; simp [resetTopic, get?_erase_self]
  · simp only [t2bOf, resetTopic_t2b h, List.filter_filter]
    apply List.filter_eq_nil_iff.mpr
    intro e _; simp
  · rw [← get?_isSome]; simp [resetTopic, get?_erase_self]

/-- resetting another topic keeps a topic invalid -/
theorem resetTopic_keeps_invalid {c : Cache} (t t' : String) (hinv : topicInvalid c t = true) :
    topicInvalid (resetTopic c t') t = true := by
  simp only [topicInvalid, Bool.and_eq_true, Bool.not_eq_eq_eq_not, Bool.not_true, List.isEmpty_iff] at hinv ⊢
  obtain ⟨⟨h1, h2⟩, h3⟩ := hinv
  refine ⟨⟨?_, ?_⟩, ?_⟩
  · rw [Bool.eq_false_iff] at h1 ⊢
    intro hh; apply h1
    obtain ⟨v, hv⟩ := hasKey_iff.mp hh
    simp only [resetTopic, erase, List.mem_filter] at hv
    exact hasKey_iff.mpr ⟨v, hv.1⟩
  · simp only [t2bOf, resetTopic, List.filter_filter] at h2 ⊢
    apply List.filter_eq_nil_iff.mpr
    intro e he hh
    have := List.filter_eq_nil_iff.mp h2 e he
    simp only [Bool.and_eq_true] at hh
    exact this hh.1
  · rw [Bool.eq_false_iff] at h3 ⊢
    intro hh; apply h3
    obtain ⟨v, hv⟩ := hasKey_iff.mp hh
    simp only [resetTopic, erase, List.mem_filter] at hv
    exact hasKey_iff.mpr ⟨v, hv.1⟩

theorem resetGroup_keeps_invalid {c : Cache} (t g : String) (hinv : topicInvalid c t = true) :
    topicInvalid (resetGroup c g) t = true := by
  simpa [topicInvalid, resetGroup, t2bOf] using hinv

theorem resetGroup_wf {c : Cache} (h : CWf c) (g : String) : CWf (resetGroup c g) :=
  { h with groupsKeys := keys_erase_nodup h.groupsKeys }

theorem resetGroup_gone (c : Cache) (g : String) : hasKey g (resetGroup c g).groups = false := by
  rw [← get?_isSome]; simp [resetGroup, get?_erase_self]

theorem resetTopic_groups (c : Cache) (t : String) : (resetTopic c t).groups = c.groups := rfl

theorem resetGroup_keeps_gone {c : Cache} (g g' : String) (h : hasKey g c.groups = false) :
    hasKey g (resetGroup c g').groups = false := by
  rw [Bool.eq_false_iff] at h ⊢
  intro hh; apply h
  obtain ⟨v, hv⟩ := hasKey_iff.mp hh
  simp only [resetGroup, erase, List.mem_filter] at hv
  exact hasKey_iff.mpr ⟨v, hv.1⟩

/-- the two exception tuples of `_handle_responses` name different error codes (from the source) -/
theorem topic_group_disjoint {e : Int} (h : clientTopicResetErrnos.contains e = true) :
    clientGroupResetErrnos.contains e = false := by
  simp only [clientTopicResetErrnos, clientGroupResetErrnos, List.contains_cons, List.contains_nil, Bool.or_false,
    Bool.or_eq_true, beq_iff_eq] at h ⊢
  rw [Bool.eq_false_iff]; simp only [ne_eq, Bool.or_eq_true, beq_iff_eq]; omega

/-- one response's clause of `invalidateOk` survives later resets -/
theorem invalidateOk_cons {c : Cache} {g : String} {r : String × Int} {rs : List (String × Int)}
    (h1 : (!clientTopicResetErrnos.contains r.2 || topicInvalid c r.1) = true)
    (h2 : (!clientGroupResetErrnos.contains r.2 || !hasKey g c.groups) = true)
    (h : invalidateOk c (some g) rs = true) : invalidateOk c (some g) (r :: rs) = true := by
  simp only [invalidateOk, List.all_cons, Bool.and_eq_true] at h ⊢
  exact ⟨⟨h1, h2⟩, h⟩

/-- the rest of a pass after the first error (55f24eb): every remaining response is examined, and something is raised -/
theorem examineRest_spec (g : String) (first : Raised) :
    ∀ (rs : List (String × Int)) (c : Cache), CWf c →
    (∀ t, topicInvalid c t = true → topicInvalid (examineRest (some g) first c rs).1 t = true) ∧
    (hasKey g c.groups = false → hasKey g (examineRest (some g) first c rs).1.groups = false) ∧
    CWf (examineRest (some g) first c rs).1 ∧
    invalidateOk (examineRest (some g) first c rs).1 (some g) rs = true ∧
    (examineRest (some g) first c rs).2 ≠ none := by
  intro rs
  induction rs with
  | nil => intro c h; exact ⟨fun _ h => h, fun h => h, h, by simp [invalidateOk], by simp [examineRest]⟩
  | cons r rs ih =>
    intro c h
    obtain ⟨topic, err⟩ := r
    simp only [examineRest, clientHandleCatchAll, Bool.not_true, Bool.false_eq_true, if_false]
    split
    · rename_i h0
      obtain ⟨i1, i2, i3, hok, hr⟩ := ih c h
      have he : err = 0 := by simpa using h0
      refine ⟨i1, i2, i3, invalidateOk_cons ?_ ?_ hok, hr⟩ <;> (subst he; simp [clientTopicResetErrnos, clientGroupResetErrnos])
    · split
      · rename_i h0 ht
        obtain ⟨i1, i2, i3, hok, hr⟩ := ih (resetTopic c topic) (resetTopic_wf h topic)
        refine ⟨fun t hi => i1 t (resetTopic_keeps_invalid t topic hi), fun hg => i2 (by simpa [resetTopic] using hg), i3,
          invalidateOk_cons ?_ ?_ hok, hr⟩
        · simp only [Bool.or_eq_true]; exact Or.inr (i1 topic (resetTopic_invalid h topic))
        · simp only [Bool.or_eq_true]; exact Or.inl (by have := topic_group_disjoint ht; simpa using this)
      · split
        · rename_i h0 ht hgr
          have hnt : (!clientTopicResetErrnos.contains err) = true := by simpa using ht
          obtain ⟨i1, i2, i3, hok, hr⟩ := ih (resetGroup c g) (resetGroup_wf h g)
          refine ⟨fun t hi => i1 t (resetGroup_keeps_invalid t g hi), fun _ => i2 (resetGroup_gone c g), i3,
            invalidateOk_cons ?_ ?_ hok, hr⟩
          · simp only [Bool.or_eq_true]; exact Or.inl hnt
          · simp only [Bool.or_eq_true]; exact Or.inr (by simp [i2 (resetGroup_gone c g)])
        · rename_i h0 ht hgr
          have hnt : (!clientTopicResetErrnos.contains err) = true := by simpa using ht
          have hng : (!clientGroupResetErrnos.contains err) = true := by simpa using hgr
          obtain ⟨i1, i2, i3, hok, hr⟩ := ih c h
          refine ⟨i1, i2, i3, invalidateOk_cons ?_ ?_ hok, hr⟩
          · simp only [Bool.or_eq_true]; exact Or.inl hnt
          · simp only [Bool.or_eq_true]; exact Or.inl hng

/-- what one pass of `_handle_responses` leaves behind: EVERY response was examined (also the ones behind
    the first error raised with `fail_on_error=True`: fix 55f24eb, read from the source) -/
theorem handleResponses_spec (foe : Bool) (g : String) :
    ∀ (rs : List (String × Int)) (c : Cache), CWf c →
    (∀ t, topicInvalid c t = true → topicInvalid (handleResponses c foe (some g) rs).1 t = true) ∧
    (hasKey g c.groups = false → hasKey g (handleResponses c foe (some g) rs).1.groups = false) ∧
    CWf (handleResponses c foe (some g) rs).1 ∧
    invalidateOk (handleResponses c foe (some g) rs).1 (some g) rs = true := by
  intro rs
  induction rs with
  | nil => intro c h; exact ⟨fun _ h => h, fun h => h, h, by simp [invalidateOk]⟩
  | cons r rs ih =>
    intro c h
    obtain ⟨topic, err⟩ := r
    simp only [handleResponses, afterFirst, clientHandleExaminesAll, clientHandleCatchAll, if_true, Bool.not_true, Bool.or_false]
    split
    · rename_i h0
      obtain ⟨i1, i2, i3, hok⟩ := ih c h
      have he : err = 0 := by simpa using h0
      refine ⟨i1, i2, i3, invalidateOk_cons ?_ ?_ hok⟩ <;> (subst he; simp [clientTopicResetErrnos, clientGroupResetErrnos])
    · split
      · rename_i h0 ht
        have hw := resetTopic_wf h topic
        have key : ∀ (res : Cache × Option Raised),
            (∀ t, topicInvalid (resetTopic c topic) t = true → topicInvalid res.1 t = true) →
            (hasKey g (resetTopic c topic).groups = false → hasKey g res.1.groups = false) → CWf res.1 →
            invalidateOk res.1 (some g) rs = true →
            (∀ t, topicInvalid c t = true → topicInvalid res.1 t = true) ∧ (hasKey g c.groups = false → hasKey g res.1.groups = false) ∧
            CWf res.1 ∧ invalidateOk res.1 (some g) ((topic, err) :: rs) = true := by
          intro res i1 i2 i3 hok
          refine ⟨fun t hi => i1 t (resetTopic_keeps_invalid t topic hi), fun hg => i2 (by simpa [resetTopic] using hg), i3,
            invalidateOk_cons ?_ ?_ hok⟩
          · simp only [Bool.or_eq_true]; exact Or.inr (i1 topic (resetTopic_invalid h topic))
          · simp only [Bool.or_eq_true]; exact Or.inl (by have := topic_group_disjoint ht; simpa using this)
        cases foe with
        | true =>
          simp only [if_true]
          obtain ⟨i1, i2, i3, hok, _⟩ := examineRest_spec g (.errno err) rs (resetTopic c topic) hw
          exact key _ i1 i2 i3 hok
        | false =>
          simp only [Bool.false_eq_true, if_false]
          obtain ⟨i1, i2, i3, hok⟩ := ih (resetTopic c topic) hw
          exact key _ i1 i2 i3 hok
      · split
        · rename_i h0 ht hgr
          have hnt : (!clientTopicResetErrnos.contains err) = true := by simpa using ht
          have hw := resetGroup_wf h g
          have key : ∀ (res : Cache × Option Raised),
              (∀ t, topicInvalid (resetGroup c g) t = true → topicInvalid res.1 t = true) →
              (hasKey g (resetGroup c g).groups = false → hasKey g res.1.groups = false) → CWf res.1 →
              invalidateOk res.1 (some g) rs = true →
              (∀ t, topicInvalid c t = true → topicInvalid res.1 t = true) ∧ (hasKey g c.groups = false → hasKey g res.1.groups = false) ∧
              CWf res.1 ∧ invalidateOk res.1 (some g) ((topic, err) :: rs) = true := by
            intro res i1 i2 i3 hok
            refine ⟨fun t hi => i1 t (resetGroup_keeps_invalid t g hi), fun _ => i2 (resetGroup_gone c g), i3,
              invalidateOk_cons ?_ ?_ hok⟩
            · simp only [Bool.or_eq_true]; exact Or.inl hnt
            · simp only [Bool.or_eq_true]; exact Or.inr (by simp [i2 (resetGroup_gone c g)])
          cases foe with
          | true =>
            simp only [if_true]
            obtain ⟨i1, i2, i3, hok, _⟩ := examineRest_spec g (.errno err) rs (resetGroup c g) hw
            exact key _ i1 i2 i3 hok
          | false =>
            simp only [Bool.false_eq_true, if_false]
            obtain ⟨i1, i2, i3, hok⟩ := ih (resetGroup c g) hw
            exact key _ i1 i2 i3 hok
        · rename_i h0 ht hgr
          have hnt : (!clientTopicResetErrnos.contains err) = true := by simpa using ht
          have hng : (!clientGroupResetErrnos.contains err) = true := by simpa using hgr
          have key : ∀ (res : Cache × Option Raised),
              (∀ t, topicInvalid c t = true → topicInvalid res.1 t = true) →
              (hasKey g c.groups = false → hasKey g res.1.groups = false) → CWf res.1 →
              invalidateOk res.1 (some g) rs = true →
              (∀ t, topicInvalid c t = true → topicInvalid res.1 t = true) ∧ (hasKey g c.groups = false → hasKey g res.1.groups = false) ∧
              CWf res.1 ∧ invalidateOk res.1 (some g) ((topic, err) :: rs) = true := by
            intro res i1 i2 i3 hok
            refine ⟨i1, i2, i3, invalidateOk_cons ?_ ?_ hok⟩
            · simp only [Bool.or_eq_true]; exact Or.inl hnt
            · simp only [Bool.or_eq_true]; exact Or.inl hng
          cases foe with
          | true =>
            simp only [if_true]
            obtain ⟨i1, i2, i3, hok, _⟩ := examineRest_spec g (.errno err) rs c h
            exact key _ i1 i2 i3 hok
          | false =>
            simp only [Bool.false_eq_true, if_false]
            obtain ⟨i1, i2, i3, hok⟩ := ih c h
            exact key _ i1 i2 i3 hok

/-! ### the main path: produce / fetch / offset requests carry no group -/

theorem invalidateOk_none_cons {c : Cache} {r : String × Int} {rs : List (String × Int)}
    (h1 : (!clientTopicResetErrnos.contains r.2 || topicInvalid c r.1) = true)
    (h : invalidateOk c none rs = true) : invalidateOk c none (r :: rs) = true := by
  simp only [invalidateOk, List.all_cons, Bool.and_eq_true, Bool.or_true, Bool.and_true] at h ⊢
  exact ⟨h1, h⟩

theorem examineRest_none_spec (first : Raised) :
    ∀ (rs : List (String × Int)) (c : Cache), CWf c → (∀ r ∈ rs, clientGroupResetErrnos.contains r.2 = false) →
    (∀ t, topicInvalid c t = true → topicInvalid (examineRest none first c rs).1 t = true) ∧
    CWf (examineRest none first c rs).1 ∧ invalidateOk (examineRest none first c rs).1 none rs = true := by
  intro rs
  induction rs with
  | nil => intro c h _; exact ⟨fun _ h => h, h, by simp [invalidateOk]⟩
  | cons r rs ih =>
    intro c h hg
    obtain ⟨topic, err⟩ := r
    have hg0 : clientGroupResetErrnos.contains err = false := hg (topic, err) (by simp)
    have hg' : ∀ r ∈ rs, clientGroupResetErrnos.contains r.2 = false := fun r hr => hg r (by simp [hr])
    simp only [examineRest, clientHandleCatchAll, Bool.not_true, Bool.false_eq_true, if_false, hg0]
    split
    · rename_i h0
      obtain ⟨i1, i3, hok⟩ := ih c h hg'
      have he : err = 0 := by simpa using h0
      refine ⟨i1, i3, invalidateOk_none_cons ?_ hok⟩
      subst he; simp [clientTopicResetErrnos]
    · split
      · obtain ⟨i1, i3, hok⟩ := ih (resetTopic c topic) (resetTopic_wf h topic) hg'
        refine ⟨fun t hi => i1 t (resetTopic_keeps_invalid t topic hi), i3, invalidateOk_none_cons ?_ hok⟩
        simp only [Bool.or_eq_true]; exact Or.inr (i1 topic (resetTopic_invalid h topic))
      · rename_i h0 ht
        have hnt : (!clientTopicResetErrnos.contains err) = true := by simpa using ht
        obtain ⟨i1, i3, hok⟩ := ih c h hg'
        refine ⟨i1, i3, invalidateOk_none_cons ?_ hok⟩
        simp only [Bool.or_eq_true]; exact Or.inl hnt

/-- `_handle_responses` of a request that carries no group (produce, fetch, offset): every not-leader /
    unknown-topic-or-partition answer of the list invalidates its topic, whatever `fail_on_error` is - provided no
    answer carries a coordinator error code (with `consumer_group=None` that makes `reset_consumer_group_metadata`
    raise `TypeError` at once) -/
theorem handleResponses_none_spec (foe : Bool) :
    ∀ (rs : List (String × Int)) (c : Cache), CWf c → (∀ r ∈ rs, clientGroupResetErrnos.contains r.2 = false) →
    (∀ t, topicInvalid c t = true → topicInvalid (handleResponses c foe none rs).1 t = true) ∧
    CWf (handleResponses c foe none rs).1 ∧ invalidateOk (handleResponses c foe none rs).1 none rs = true := by
  intro rs
  induction rs with
  | nil => intro c h _; exact ⟨fun _ h => h, h, by simp [invalidateOk]⟩
  | cons r rs ih =>
    intro c h hg
    obtain ⟨topic, err⟩ := r
    have hg0 : clientGroupResetErrnos.contains err = false := hg (topic, err) (by simp)
    have hg' : ∀ r ∈ rs, clientGroupResetErrnos.contains r.2 = false := fun r hr => hg r (by simp [hr])
    simp only [handleResponses, afterFirst, clientHandleExaminesAll, clientHandleCatchAll, if_true, Bool.not_true, Bool.or_false, hg0,
      Bool.false_eq_true, if_false]
    split
    · rename_i h0
      obtain ⟨i1, i3, hok⟩ := ih c h hg'
      have he : err = 0 := by simpa using h0
      refine ⟨i1, i3, invalidateOk_none_cons ?_ hok⟩
      subst he; simp [clientTopicResetErrnos]
    · split
      · have hw := resetTopic_wf h topic
        cases foe with
        | true =>
          simp only [if_true]
          obtain ⟨i1, i3, hok⟩ := examineRest_none_spec (.errno err) rs (resetTopic c topic) hw hg'
          refine ⟨fun t hi => i1 t (resetTopic_keeps_invalid t topic hi), i3, invalidateOk_none_cons ?_ hok⟩
          simp only [Bool.or_eq_true]; exact Or.inr (i1 topic (resetTopic_invalid h topic))
        | false =>
          simp only [Bool.false_eq_true, if_false]
          obtain ⟨i1, i3, hok⟩ := ih (resetTopic c topic) hw hg'
          refine ⟨fun t hi => i1 t (resetTopic_keeps_invalid t topic hi), i3, invalidateOk_none_cons ?_ hok⟩
          simp only [Bool.or_eq_true]; exact Or.inr (i1 topic (resetTopic_invalid h topic))
      · rename_i h0 ht
        have hnt : (!clientTopicResetErrnos.contains err) = true := by simpa using ht
        cases foe with
        | true =>
          simp only [if_true]
          obtain ⟨i1, i3, hok⟩ := examineRest_none_spec (.errno err) rs c h hg'
          refine ⟨i1, i3, invalidateOk_none_cons ?_ hok⟩
          simp only [Bool.or_eq_true]; exact Or.inl hnt
        | false =>
          simp only [Bool.false_eq_true, if_false]
          obtain ⟨i1, i3, hok⟩ := ih c h hg'
          refine ⟨i1, i3, invalidateOk_none_cons ?_ hok⟩
          simp only [Bool.or_eq_true]; exact Or.inl hnt

end Afkak.ClientCache
