import AfkakProofs.Client.A_Unavail
import Afkak.Monitor.C08
/-! The client never forgets a broker it has learned: `_brokers` only grows, under every event. -/
namespace Afkak.ClientNet
open Afkak.ClientCache

theorem BSub.after {st st1 st2 : St} (h2 : BSub st1 st2) (h1 : st1.cache.brokers = st.cache.brokers) : BSub st st2 :=
  (BSub.of_eq h1).trans h2

theorem runActs_bsub (cfg : Cfg) : ∀ (fuel : Nat) (st : St) (acts : List Act) (obs : List Ob),
    BSub st (runActs cfg fuel st acts obs).1
  | 0, st, _, _ => BSub.rfl' st
  | _+1, st, [], _ => BSub.rfl' st
  | fuel+1, st, a :: rest, obs => by
    simp only [runActs]
    exact (exec_bsub cfg st a).trans (runActs_bsub cfg fuel _ _ _)

theorem fireDue_bsub (cfg : Cfg) : ∀ (n : Nat) (st : St) (obs : List Ob), BSub st (fireDue cfg n st obs).1
  | 0, st, _ => BSub.rfl' st
  | n+1, st, obs => by
    simp only [fireDue]
    split
    · exact BSub.rfl' st
    · split
      · exact BSub.rfl' st
      · exact BSub.after ((runActs_bsub cfg _ _ _ _).trans (fireDue_bsub cfg n _ _)) rfl

theorem cancelOp_cache (st : St) (o : Nat) : (cancelOp st o).1.cache = st.cache := by
  unfold cancelOp
  repeat' split
  all_goals rfl

/-- no event makes the client forget a broker -/
theorem step_bsub (cfg : Cfg) (st : St) (env : Env) (e : Ev) : BSub st (step cfg st env e).1 := by
  cases e
  all_goals simp only [step]
  all_goals (repeat' split)
  all_goals (first
    | exact BSub.rfl' st
    | exact BSub.of_eq rfl
    | exact BSub.after (runActs_bsub cfg _ _ _ _) rfl
    | exact BSub.after (runActs_bsub cfg _ _ _ _) (congrArg Cache.brokers (cloadJoin_cache _ _ _))
    | exact BSub.after (runActs_bsub cfg _ _ _ _) (congrArg Cache.brokers (cancelOp_cache _ _))
    | exact BSub.of_eq (resetTopics_brokers _ _)
    | exact BSub.after (fireDue_bsub cfg _ _ _) rfl)

theorem brokersKept_of_bsub {st st' : St} (h : BSub st st') : Afkak.Monitor.C08.brokersKept st.cache st'.cache = true := by
  simp only [Afkak.Monitor.C08.brokersKept, List.all_eq_true]
  intro e he
  exact h e.1 (hasKey_iff.mpr ⟨e.2, he⟩)

end Afkak.ClientNet
