import AfkakProofs.Client.A_Ids
import AfkakProofs.Client.Dict
import AfkakProofs.Client.Timers
import AfkakProofs.Client.Hosts
/-!
# "unavailable" only after every bootstrap host was tried (C07, coroutine level)

In a run without `close()` in which the broker clients fail requests only with Kafka errors or cancellations
(`Res.benign`), an operation of the client model fails with `KafkaUnavailableError` only after a bootstrap
connection attempt has been made to every configured bootstrap host.  Ghost state: the hosts of the `bootConnect`
observations so far.  Invariant `UInv` over (state, action stack, ghost).
-/
namespace Afkak.ClientNet
open Afkak.ClientCache

/-! ## the broker table only grows -/

def Known (st : St) (n : Int) : Prop := hasKey n st.cache.brokers = true

theorem hasKey_foldl_upsert_mono {n : Int} : ∀ (es : List (Int × Broker)) (d : List (Int × Broker)),
    hasKey n d = true → hasKey n (es.foldl (fun d e => upsert e.1 e.2 d) d) = true
  | [], _, h => h
  | e :: es, d, h => by
    simp only [List.foldl_cons]
    exact hasKey_foldl_upsert_mono es _ (by rw [hasKey_upsert]; simp [h])

theorem updateBrokersDict_mono {n : Int} (c : Cache) (byId : List (Int × Broker)) (rm : Bool)
    (h : hasKey n c.brokers = true) : hasKey n (updateBrokersDict c byId rm).1.brokers = true := by
  unfold updateBrokersDict
  split <;> exact hasKey_foldl_upsert_mono _ _ h

theorem mergeTopic_brokers (c : Cache) (tm : TopicMeta) : (mergeTopic c tm).brokers = c.brokers := by
  simp only [mergeTopic]
  split <;> rfl

theorem foldl_mergeTopic_brokers : ∀ (ts : List (String × TopicMeta)) (c : Cache),
    (ts.foldl (fun c e => mergeTopic c e.2) c).brokers = c.brokers
  | [], _ => rfl
  | t :: ts, c => by
    simp only [List.foldl_cons]
    rw [foldl_mergeTopic_brokers ts, mergeTopic_brokers]

theorem resetTopics_brokers : ∀ (ts : List String) (c : Cache), (resetTopics c ts).brokers = c.brokers
  | [], _ => rfl
  | t :: ts, c => by
    simp only [resetTopics, List.foldl_cons]
    exact (resetTopics_brokers ts (resetTopic c t)).trans rfl

theorem examineRest_brokers (g : Option String) (f : Raised) : ∀ (rs : List (String × Int)) (c : Cache),
    (examineRest g f c rs).1.brokers = c.brokers
  | [], _ => rfl
  | (t, e) :: rs, c => by
    simp only [examineRest]
    repeat' split
    all_goals (first | rfl | exact examineRest_brokers _ f rs _ | exact (examineRest_brokers _ f rs _).trans rfl)

theorem afterFirst_brokers (g : Option String) (f : Raised) (c : Cache) (rs : List (String × Int)) :
    (afterFirst g f c rs).1.brokers = c.brokers := by
  unfold afterFirst
  split
  · exact examineRest_brokers g f rs c
  · rfl

theorem handleResponses_brokers (foe : Bool) (g : Option String) : ∀ (rs : List (String × Int)) (c : Cache),
    (handleResponses c foe g rs).1.brokers = c.brokers
  | [], _ => rfl
  | (t, e) :: rs, c => by
    simp only [handleResponses]
    repeat' split
    all_goals (first
      | rfl
      | exact handleResponses_brokers foe _ rs _
      | exact (handleResponses_brokers foe _ rs _).trans rfl
      | exact afterFirst_brokers _ _ _ _
      | exact (afterFirst_brokers _ _ _ _).trans rfl)

/-- the keys of the broker table of `st'` include those of `st` -/
def BSub (st st' : St) : Prop := ∀ n, Known st n → Known st' n

theorem BSub.of_eq {st st' : St} (h : st'.cache.brokers = st.cache.brokers) : BSub st st' := by
  intro n hn; unfold Known; rw [h]; exact hn

theorem BSub.rfl' (st : St) : BSub st st := fun _ h => h

theorem BSub.trans {a b c : St} (h1 : BSub a b) (h2 : BSub b c) : BSub a c := fun n hn => h2 n (h1 n hn)

theorem shuffle_cache {α} {st st' : St} {xs ys : List α} (h : shuffle st xs = some (st', ys)) : st'.cache = st.cache := by
  unfold shuffle at h
  split at h
  · cases h
  · simp only [Option.map_eq_some_iff] at h
    obtain ⟨_, _, heq⟩ := h
    cases heq; rfl

theorem reqDone_cache (st : St) (o : ReqOwner) (k : Nat) (r : Res) : (reqDone st o k r).1.cache = st.cache := by
  unfold reqDone
  split
  · split <;> (try split) <;> rfl
  · rfl
  · rfl

theorem cloadJoin_cache (st : St) (w : Waiter) (g : String) : (cloadJoin st w g).1.cache = st.cache := by
  unfold cloadJoin; split <;> rfl

theorem getBrokerClient_brokers {st st' : St} {n : Int} {b : Nat} {obs : List Ob}
    (h : getBrokerClient st n = .ok (st', b, obs)) : st'.cache.brokers = st.cache.brokers ∧ st'.closing = st.closing := by
  unfold getBrokerClient at h
  split at h
  · cases h
  · split at h
    · cases h; exact ⟨rfl, rfl⟩
    · split at h
      · cases h
      · cases h; exact ⟨rfl, rfl⟩

theorem issueTo_brokers_ok {cfg : Cfg} {st : St} {n : Int} {o : ReqOwner} {e : Bool} {w : ReqWhat} {m : Option Rat} {rj : Bool}
    {i : IssueOk} (hi : issueTo cfg st n o e w m rj = .ok i) : i.st.cache.brokers = st.cache.brokers ∧ i.st.closing = st.closing := by
  obtain ⟨st1, b, obs1, hg, h1, _, _, _⟩ := issueTo_ok hi
  have := getBrokerClient_brokers hg
  rw [h1]; exact this

theorem issueTo_brokers_err {cfg : Cfg} {st : St} {n : Int} {o : ReqOwner} {e : Bool} {w : ReqWhat} {m : Option Rat} {rj : Bool}
    {er : IssueErr} (he : issueTo cfg st n o e w m rj = .error er) : er.st.cache.brokers = st.cache.brokers ∧ er.st.closing = st.closing := by
  rcases issueTo_err he with ⟨h1, _⟩ | ⟨b, hg⟩
  · rw [h1]; exact ⟨rfl, rfl⟩
  · exact getBrokerClient_brokers hg

theorem applyUpdate_cache (st : St) (c' : Cache) (cn : List Int) (bs : List Broker) : (applyUpdate st c' cn bs).1.cache = c' := rfl

/-- no action forgets a broker -/
theorem exec_bsub (cfg : Cfg) (st : St) (a : Act) : BSub st (exec cfg st a).1 := by
  cases a
  all_goals simp only [exec]
  all_goals (repeat' split)
  all_goals (try dsimp only)
  all_goals (first
    | exact BSub.rfl' _
    | exact BSub.of_eq rfl
    | (rename_i hs; exact BSub.of_eq (congrArg Cache.brokers (shuffle_cache hs)))
    | exact BSub.of_eq (congrArg Cache.brokers (cloadJoin_cache _ _ _))
    | exact BSub.of_eq (congrArg Cache.brokers (reqDone_cache _ _ _ _))
    | (rename_i he; exact BSub.of_eq (issueTo_brokers_err he).1)
    | (rename_i he; exact BSub.of_eq (issueTo_brokers_ok he).1)
    | (intro n hn; exact updateBrokersDict_mono _ _ _ hn)
    | (intro n hn; exact updateBrokersDict_mono (c := { (_ : Cache) with groups := _ }) _ _ hn)
    | exact BSub.of_eq (foldl_mergeTopic_brokers _ _)
    | exact BSub.of_eq (handleResponses_brokers _ _ _ _)
    | (intro n hn; unfold Known at *; simp_all [updateBrokers, updateBrokersDict_mono]; done))

/-- no action changes `closing` -/
theorem exec_closing_eq (cfg : Cfg) (st : St) (a : Act) : (exec cfg st a).1.closing = st.closing := by
  cases a
  all_goals simp only [exec]
  all_goals (repeat' split)
  all_goals (try dsimp only)
  all_goals (first
    | rfl
    | (rename_i hs; exact shuffle_closing hs)
    | exact cloadJoin_closing _ _ _
    | exact reqDone_closing _ _ _ _
    | (rename_i he; exact (issueTo_brokers_err he).2)
    | (rename_i he; exact (issueTo_brokers_ok he).2)
    | (simp_all; done))

/-! ## which actions can turn into an "unavailable" result -/

def Kind.isUnav : Kind → Bool
  | .unavailable => true
  | _ => false

/-- failures of a broker request that never end in "unavailable" without the bootstrap hosts having been tried:
    Kafka errors (the loop goes on to the next broker) and cancellations (the load completes with `None`) -/
def Kind.benign : Kind → Bool
  | .cancelled => true
  | .unavailable => false
  | k => k.isKafkaError

def Res.benign : Res → Bool
  | .ok _ => true
  | .err k => k.benign

def Res.claimsU : Res → Bool
  | .err k => k.isUnav
  | _ => false

def Res.claimsD : Res → Bool
  | .err k => !k.isCancel
  | _ => false

/-- the action, if it runs, may make an operation fail with "unavailable" -/
def Act.claims : Act → Bool
  | .unawareDone _ r => r.claimsD
  | .sendLoaded _ r | .sendCoordLoaded _ r | .srtcCoordLoaded _ r | .srtcDone _ r | .waiterFire _ r => r.claimsU
  | .sendFail _ k | .srtcFail _ k | .ltpFail _ k => k.isUnav
  | .opResult _ (.fail k) => k.isUnav
  | .fireReq _ r _ => !r.benign
  | _ => false

def restOfOwner : ReqOwner → Option (List Int)
  | .unaware _ rest => some rest
  | _ => none

/-- the brokers still to be tried by the broker-unaware requests that wait on a broker request -/
def restsOf (st : St) : List (List Int) := st.reqs.filterMap (fun q => restOfOwner q.owner)

def bootRest : UState → Option (List (String × Int))
  | .bootConn _ r | .bootReq _ r => some r
  | _ => none

/-- the bootstrap hosts still to be tried by the broker-unaware requests that are bootstrapping -/
def bootsOf (st : St) : List (List (String × Int)) := st.unawares.filterMap (fun x => bootRest x.st)

/-- what an action `a` run in state `st` may push -/
def ActOk (cfg : Cfg) (st : St) (a a' : Act) : Prop :=
  (a'.claims = true → a.claims = true ∨ ∃ u, a = .bootNext u []) ∧
  (∀ u hosts, a' = .bootNext u hosts → hosts ∈ bootsOf st ∨ ∀ hp ∈ cfg.bootHosts, hp ∈ hosts) ∧
  (∀ u nodes, a' = .unawareNext u nodes → (∀ n ∈ nodes, Known st n) ∨ nodes ∈ restsOf st) ∧
  (∀ o k r, a' = .deliver o k r → ∃ p, r = .ok p)

def Act.plainU : Act → Bool
  | .bootNext .. | .unawareNext .. | .deliver .. => false
  | a => !a.claims

theorem ActOk.of_plain {cfg : Cfg} {st : St} {a a' : Act} (h : a'.plainU = true) : ActOk cfg st a a' := by
  refine ⟨?_, ?_, ?_, ?_⟩
  · intro hc
    cases a' <;> simp_all [Act.plainU]
  · rintro u hosts rfl; simp [Act.plainU] at h
  · rintro u nodes rfl; simp [Act.plainU] at h
  · rintro o k r rfl; simp [Act.plainU] at h

theorem ActOk.of_claims {cfg : Cfg} {st : St} {a a' : Act} (h1 : a'.claims = true → a.claims = true ∨ ∃ u, a = .bootNext u [])
    (h2 : ∀ u hosts, a' ≠ .bootNext u hosts) (h3 : ∀ u nodes, a' ≠ .unawareNext u nodes) (h4 : ∀ o k r, a' ≠ .deliver o k r) :
    ActOk cfg st a a' :=
  ⟨h1, fun u hosts h => absurd h (h2 u hosts), fun u nodes h => absurd h (h3 u nodes), fun o k r h => absurd h (h4 o k r)⟩

theorem all_plain {cfg : Cfg} {st : St} {a : Act} {l : List Act} (h : l.all Act.plainU = true) : ∀ a' ∈ l, ActOk cfg st a a' :=
  fun a' ha' => ActOk.of_plain (List.all_eq_true.mp h a' ha')

theorem kind_nonkafka_benign {k : Kind} (h1 : k.isKafkaError = false) (h2 : k.benign = true) : k.isCancel = true := by
  cases k <;> simp_all [Kind.isKafkaError, Kind.benign, Kind.isCancel]

theorem reqDone_ok (cfg : Cfg) (st st' : St) (a : Act) (owner : ReqOwner) (k : Nat) (r : Res)
    (hrest : ∀ u rest, owner = .unaware u rest → rest ∈ restsOf st)
    (hcl : r.benign = false → a.claims = true) :
    ∀ a' ∈ (reqDone st' owner k r).2, ActOk cfg st a a' := by
  intro a' ha'
  unfold reqDone at ha'
  split at ha'
  · rename_i u rest
    split at ha'
    · simp only [List.mem_singleton] at ha'; subst ha'
      exact ActOk.of_plain rfl
    · rename_i kind
      split at ha'
      · simp only [List.mem_singleton] at ha'; subst ha'
        exact ⟨by simp [Act.claims], by simp, fun u' nodes h => by cases h; exact Or.inr (hrest u rest rfl), by simp⟩
      · rename_i hk
        simp only [List.mem_singleton] at ha'; subst ha'
        refine ActOk.of_claims ?_ (by simp) (by simp) (by simp)
        intro hc
        simp only [Act.claims, Res.claimsD, Bool.not_eq_eq_eq_not, Bool.not_true] at hc
        by_cases hb : kind.benign = true
        · have := kind_nonkafka_benign (by simpa using hk) hb
          rw [this] at hc; cases hc
        · exact Or.inl (hcl (by simpa [Res.benign] using hb))
  · simp only [List.mem_singleton] at ha'; subst ha'
    exact ActOk.of_plain rfl
  · simp only [List.mem_singleton] at ha'; subst ha'
    refine ActOk.of_claims ?_ (by simp) (by simp) (by simp)
    intro hc
    cases r with
    | ok p => simp [Act.claims, Res.claimsU] at hc
    | err kd =>
      simp only [Act.claims, Res.claimsU] at hc
      refine Or.inl (hcl ?_)
      cases kd <;> simp_all [Kind.isUnav, Res.benign, Kind.benign]

theorem deliverLoad_ok (cfg : Cfg) (st : St) (a : Act) (lo : LOwner) (r : Res) (h : r.claimsU = true → a.claims = true) :
    ∀ a' ∈ deliverLoad lo r, ActOk cfg st a a' := by
  intro a' ha'
  unfold deliverLoad at ha'
  split at ha'
  · simp only [List.mem_singleton] at ha'; subst ha'
    refine ActOk.of_claims ?_ (by simp) (by simp) (by simp)
    intro hc
    split at hc
    · simp [Act.claims] at hc
    · simp [Act.claims] at hc
    · rename_i kd
      exact Or.inl (h (by simpa [Act.claims, Res.claimsU] using hc))
  · simp only [List.mem_singleton] at ha'; subst ha'
    exact ActOk.of_claims (fun hc => Or.inl (h (by simpa [Act.claims] using hc))) (by simp) (by simp) (by simp)

theorem issueTo_err_kind {cfg : Cfg} {st : St} {n : Int} {o : ReqOwner} {e : Bool} {w : ReqWhat} {m : Option Rat} {rj : Bool}
    {er : IssueErr} (he : issueTo cfg st n o e w m rj = .error er) : er.kind.isUnav = false := by
  unfold issueTo at he
  split at he
  · rename_i kd hg
    simp only [Except.error.injEq] at he; subst he
    unfold getBrokerClient at hg
    split at hg
    · cases hg; rfl
    · split at hg
      · cases hg
      · split at hg
        · cases hg; rfl
        · cases hg
  · split at he
    · simp only [Except.error.injEq] at he; subst he; rfl
    · cases he

theorem issueTo_acts_ok {cfg : Cfg} {st : St} {n : Int} {o : ReqOwner} {e : Bool} {w : ReqWhat} {m : Option Rat} {rj : Bool}
    {i : IssueOk} (hi : issueTo cfg st n o e w m rj = .ok i) : i.acts = [] ∨ i.acts = [.deliver o i.k (.ok .none)] := by
  obtain ⟨st1, b, obs1, _, _, e2, _, e4⟩ := issueTo_ok hi
  rw [e4, e2]
  simp only [makeRequest]
  split
  · exact Or.inr rfl
  · exact Or.inl rfl

theorem issueTo_acts_ActOk {cfg : Cfg} {st0 : St} {a : Act} {st : St} {n : Int} {o : ReqOwner} {e : Bool} {w : ReqWhat} {m : Option Rat} {rj : Bool}
    {i : IssueOk} (hi : issueTo cfg st n o e w m rj = .ok i) : ∀ a' ∈ i.acts, ActOk cfg st0 a a' := by
  intro a' ha'
  rcases issueTo_acts_ok hi with h | h
  · rw [h] at ha'; cases ha'
  · rw [h] at ha'
    simp only [List.mem_singleton] at ha'; subst ha'
    exact ⟨by simp [Act.claims], by simp, by simp, fun o' k' r' h => by cases h; exact ⟨_, rfl⟩⟩

theorem issueTo_ok_of_known {cfg : Cfg} {st : St} {n : Int} {o : ReqOwner} {e : Bool} {w : ReqWhat} {m : Option Rat}
    (hc : st.closing = false) (hk : Known st n) : ∀ er, issueTo cfg st n o e w m false ≠ .error er := by
  intro er he
  unfold issueTo at he
  split at he
  · rename_i kd hg
    unfold getBrokerClient at hg
    rw [hc] at hg
    simp only [Bool.false_eq_true, if_false] at hg
    split at hg
    · cases hg
    · split at hg
      · rename_i hnone
        unfold Known at hk
        rw [get?_eq_none_iff] at hnone
        rw [hnone] at hk; cases hk
      · cases hg
  · simp at he

theorem mem_bootsOf {st : St} {x : Unaware} {r : List (String × Int)} (hx : x ∈ st.unawares) (hr : bootRest x.st = some r) :
    r ∈ bootsOf st := List.mem_filterMap.mpr ⟨x, hx, hr⟩

theorem mem_restsOf {st : St} {q : Req} {u : Nat} {rest : List Int} (hq : q ∈ st.reqs) (ho : q.owner = .unaware u rest) :
    rest ∈ restsOf st := List.mem_filterMap.mpr ⟨q, hq, by rw [ho]; rfl⟩

theorem cancelUnaware_ok (cfg : Cfg) (st : St) (a : Act) (x : Unaware) (hx : x ∈ st.unawares) :
    ∀ a' ∈ (cancelUnaware x).2, ActOk cfg st a a' := by
  intro a' ha'
  unfold cancelUnaware at ha'
  split at ha'
  · simp only [List.mem_singleton] at ha'; subst ha'; exact ActOk.of_plain rfl
  · rename_i j rest hst
    simp only [List.mem_singleton] at ha'; subst ha'
    exact ⟨by simp [Act.claims], fun u hosts h => by cases h; exact Or.inl (mem_bootsOf hx (by rw [hst]; rfl)), by simp, by simp⟩
  · simp only [List.mem_singleton] at ha'; subst ha'; exact ActOk.of_plain rfl
  · cases ha'

theorem applyUpdate_acts_plain (st : St) (c' : Cache) (cn : List Int) (bs : List Broker) :
    (applyUpdate st c' cn bs).2.2.all Act.plainU = true := by
  simp only [applyUpdate]
  split
  · rfl
  · simp only [List.all_append, List.all_map, Bool.and_eq_true]
    refine ⟨?_, rfl⟩
    apply List.all_eq_true.mpr; intro b _; rfl

theorem applyPerm_mem {α} {perm : List Nat} {xs ys : List α} (h : applyPerm perm xs = some ys) :
    (∀ x ∈ xs, x ∈ ys) ∧ (∀ y ∈ ys, y ∈ xs) := by
  unfold applyPerm at h
  split at h
  · rename_i hc
    simp only [Bool.and_eq_true, beq_iff_eq, List.all_eq_true, List.mem_range, List.contains_iff_mem] at hc
    have hm := Afkak.ClientCache.mem_of_mapM_some (fun i => xs[i]?) h
    constructor
    · intro x hx
      obtain ⟨i, hi, rfl⟩ := List.getElem_of_mem hx
      exact (hm _).mpr ⟨i, hc.2 i hi, by simp [hi]⟩
    · intro y hy
      obtain ⟨i, _, hi⟩ := (hm y).mp hy
      exact List.mem_of_getElem? hi
  · cases h

theorem shuffle_mem {α} {st st' : St} {xs ys : List α} (h : shuffle st xs = some (st', ys)) :
    (∀ x ∈ xs, x ∈ ys) ∧ (∀ y ∈ ys, y ∈ xs) := by
  unfold shuffle at h
  split at h
  · cases h
  · simp only [Option.map_eq_some_iff] at h
    obtain ⟨zs, hz, heq⟩ := h
    cases heq
    exact applyPerm_mem hz

end Afkak.ClientNet
