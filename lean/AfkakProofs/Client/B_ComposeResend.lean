import AfkakProofs.Client.B_Compose
import AfkakProofs.BrokerClient.Compose
/-!
# C11 through the composition: disconnect-on-timeout re-sends the remaining unanswered requests

The broker-client theorem `Afkak.Compose.timeout_disconnect_resends` (`AfkakProofs/BrokerClient/Compose.lean`, the
core of `C10_timeout_disconnect_resends`) stated for raw broker-client steps, here carried through the composed
model's own functions: the client layer's observations of a timeout (`bcCancel k`, `fired k cancelled`,
`bcDisconnect b`) are ROUTED to broker client `b` by `route`, the connection loss and the new connection are the
composed events `lost b` / `connOk b`.
-/
namespace Afkak.ClientCompose
open Afkak Afkak.BrokerClient

theorem bcStep_eq0 (cfg : Cfg) (s : St) (b : Nat) (e : BrokerClient.Ev) (x : BrokerClient.St)
    (hx : s.bcs[b]? = some x) (hsr : s.syncRefuse = 0) :
    bcStep cfg s b e = ({ s with bcs := s.bcs.set b (BrokerClient.step cfg.bc x e).1 }, (BrokerClient.step cfg.bc x e).2) := by
  unfold bcStep
  simp [hx, hsr]

theorem set_get {α} (l : List α) (b : Nat) (x y : α) (h : l[b]? = some x) : (l.set b y)[b]? = some y := by
  have hlt : b < l.length := by
    rcases Nat.lt_or_ge b l.length with h' | h'
    · exact h'
    · rw [List.getElem?_eq_none h'] at h; cases h
  simp [hlt]

theorem lostStep_closed (s : BrokerClient.St) : (lostStep s).1.closed = s.closed := by
  unfold lostStep
  dsimp only
  split
  · rfl
  · split <;> rfl

def isFire : BrokerClient.Ob → Bool
  | .fire .. => true
  | _ => false

theorem deliver_nofire (cfg : Cfg) (p : Option ClientNet.Payload) : ∀ (obs : List BrokerClient.Ob) (s : St)
    (envs : List ClientNet.Env) (out : List Ob), (∀ o ∈ obs, isFire o = false) → deliver cfg p s obs envs out = (s, out)
  | [], s, envs, out, _ => by simp [deliver]
  | o :: rest, s, envs, out, h => by
    have hr : ∀ o ∈ rest, isFire o = false := fun o ho => h o (List.mem_cons_of_mem _ ho)
    have ho := h o List.mem_cons_self
    cases o
    case fire => simp [isFire] at ho
    all_goals (simp only [deliver]; exact deliver_nofire cfg p rest s envs out hr)

theorem liftObs_writes (s : St) (b : Nat) (l : List BrokerClient.Req) (c : Nat) :
    liftObs s b (l.map (fun r => BrokerClient.Ob.write c r.serial r.id)) = l.map (fun r => Ob.bc b (.write c r.serial r.id)) := by
  simp [liftObs, List.map_map, Function.comp_def]

/-- **disconnect-on-timeout, end to end.**  Composed state `s` (every broker-client component satisfying its
    invariant, no synchronous refusal pending); the client layer's request `k` is outstanding on broker client `b`
    (`rq`, correlation id `k`, not cancelled), which is connected on connection `c` (not being dropped, writes
    succeed).  The client layer's timeout observations are routed to `b`; then the connection goes (`lost b`) and a
    new one is established (`connOk b`):
    * routing makes `b` errback exactly that request with `CancelledError` at once - what the client layer booked
      (`fired k cancelled`: the interface agrees) - and tell connection `c` to close;
    * when the connection has gone, `b` asks for a new one iff another unanswered request remains;
    * on the new connection exactly the remaining unanswered requests are written, each once, in issue order - the
      timed-out one is not among them. -/
theorem timeout_disconnect_resends_composed (cfg : Cfg) (s : St) (cl : ClientNet.St) (hi : AllSInv s) (hsr : s.syncRefuse = 0)
    (b k : Nat) (q : ClientNet.Req) (x : BrokerClient.St) (rq : BrokerClient.Req) (c : Nat) (a : String × Int)
    (hq : ClientNet.reqGet cl k = some q) (hqb : q.b = b)
    (hx : s.bcs[b]? = some x) (ha : s.addr[b]? = some a)
    (hrq : rq ∈ x.reqs) (hid : rq.id = (k : Int)) (hlive : rq.cancelled = false)
    (hp : x.proto = some c) (hlo : x.losing = false) (hwf : x.wfail = false) (env : ClientNet.Env) :
    let r := route cfg cl s [.bcCancel k, .fired k (some .cancelled), .bcDisconnect b] [] []
    let l := step cfg r.1 (.lost b env)
    let o := step cfg l.1 (.connOk b [])
    r.2.1 = [.bc b (.fire rq.serial rq.id (.err .cancelled)), .bc b (.lose c)] ∧
    r.2.2 = syncOfCl [.bcCancel k, .fired k (some .cancelled), .bcDisconnect b] ∧
    l.2 = (if Compose.remaining x rq.id = [] then [] else [.connect b a.1 a.2]) ∧
    (Compose.remaining x rq.id ≠ [] →
      o.2 = (Compose.remaining x rq.id).map (fun r => Ob.bc b (.write x.nconn r.serial r.id))) ∧
    rq.serial ∉ (Compose.remaining x rq.id).map (·.serial) := by
  have hsx : SInv x := hi x (List.mem_of_getElem? hx)
  obtain ⟨t1, t2, t3, t4, t5, t6⟩ := Compose.timeout_disconnect_resends cfg.bc x hsx rq c hrq hlive hp hlo hwf
  have hcl : x.closed = false := by
    cases hc : x.closed
    · rfl
    · have := hsx.closedEmpty hc; rw [this] at hrq; cases hrq
  -- the three broker-client states
  obtain ⟨s1, hs1⟩ : ∃ s1, (BrokerClient.step cfg.bc x (.cancel rq.id)).1 = s1 := ⟨_, rfl⟩
  rw [hs1] at t2 t3 t4 t5
  obtain ⟨s2, hs2⟩ : ∃ s2, (BrokerClient.step cfg.bc s1 .disconnect).1 = s2 := ⟨_, rfl⟩
  rw [hs2] at t3 t4 t5
  obtain ⟨s3, hs3⟩ : ∃ s3, (BrokerClient.step cfg.bc s2 .lost).1 = s3 := ⟨_, rfl⟩
  rw [hs3] at t3 t5
  have hc1 : s1.closed = false := by
    rw [← hs1]
    simp only [BrokerClient.step]; split <;> exact hcl
  have hc2 : s2.closed = false := by
    rw [← hs2]
    simp only [BrokerClient.step]; split <;> exact hc1
  have hc3 : s3.closed = false := by
    rw [← hs3]
    simp only [BrokerClient.step]
    split
    · exact hc2
    · rw [lostStep_closed]; exact hc2
  -- routing
  have hroute : route cfg cl s [.bcCancel k, .fired k (some .cancelled), .bcDisconnect b] [] [] =
      ({ s with bcs := (s.bcs.set b s1).set b s2 },
       [.bc b (.fire rq.serial rq.id (.err .cancelled)), .bc b (.lose c)],
       [Sync.fired k (some .cancelled)]) := by
    have e1 := bcStep_eq0 cfg s b (.cancel rq.id) x hx hsr
    rw [hs1, t1] at e1
    have hx1 : ({ s with bcs := s.bcs.set b s1 } : St).bcs[b]? = some s1 := set_get _ _ _ _ hx
    have e2 := bcStep_eq0 cfg { s with bcs := s.bcs.set b s1 } b .disconnect s1 hx1 hsr
    rw [hs2, t2] at e2
    have htn : rq.id.toNat = k := by rw [hid]; exact Int.toNat_natCast k
    simp only [route, downCall, hq, Option.map_some, hqb]
    rw [← hid]
    simp only [e1, e2, liftObs, syncOfBc, List.map_cons, List.map_nil,
      List.filterMap_cons, List.filterMap_nil, List.nil_append, List.cons_append, kindOf, htn]
  -- the composed state after routing
  obtain ⟨S, hSdef⟩ : ∃ S : St, S = { s with bcs := (s.bcs.set b s1).set b s2 } := ⟨_, rfl⟩
  have hS2 : S.bcs[b]? = some s2 := by rw [hSdef]; exact set_get _ _ _ _ (set_get _ _ _ _ hx)
  have hSa : S.addr[b]? = some a := by rw [hSdef]; exact ha
  have hSs : S.syncRefuse = 0 := by rw [hSdef]; exact hsr
  -- the connection goes
  have hl : step cfg S (.lost b env) =
      ({ (({ S with bcs := S.bcs.set b s3 } : St)) with cl := (ClientNet.step cfg.cl S.cl {} (.conn b false)).1 },
       if Compose.remaining x rq.id = [] then [] else [.connect b a.1 a.2]) := by
    have e3 := bcStep_eq0 cfg S b .lost s2 hS2 hSs
    rw [hs3, t4] at e3
    simp only [step, hS2, e3, hc2, Bool.false_eq_true, if_false]
    congr 1
    split
    · simp [liftObs]
    · simp [liftObs, hSa]
  obtain ⟨L, hLdef⟩ : ∃ L : St, L = { (({ S with bcs := S.bcs.set b s3 } : St)) with cl := (ClientNet.step cfg.cl S.cl {} (.conn b false)).1 } := ⟨_, rfl⟩
  rw [← hLdef] at hl
  have hL3 : L.bcs[b]? = some s3 := by rw [hLdef]; exact set_get _ _ _ _ hS2
  have hLs : L.syncRefuse = 0 := by rw [hLdef]; exact hSs
  -- the new connection
  have ho : Compose.remaining x rq.id ≠ [] → (step cfg L (.connOk b [])).2 =
      (Compose.remaining x rq.id).map (fun r => Ob.bc b (.write x.nconn r.serial r.id)) := by
    intro hne
    simp only [step, hL3, hc3, Bool.false_eq_true, if_false]
    have hL3' : ({ L with cl := (ClientNet.step cfg.cl L.cl {} (.conn b true)).1 } : St).bcs[b]? = some s3 := hL3
    have e4 := bcStep_eq0 cfg { L with cl := (ClientNet.step cfg.cl L.cl {} (.conn b true)).1 } b .connOk s3 hL3' hLs
    rw [t5 hne] at e4
    rw [e4, deliver_nofire]
    · exact liftObs_writes _ _ _ _
    · intro o ho
      simp only [List.mem_map] at ho
      obtain ⟨_, _, rfl⟩ := ho
      rfl
  rw [← hSdef] at hroute
  intro r l o
  have hr : r = (S, [.bc b (.fire rq.serial rq.id (.err .cancelled)), .bc b (.lose c)], [Sync.fired k (some .cancelled)]) := hroute
  have hl' : l = (L, if Compose.remaining x rq.id = [] then [] else [.connect b a.1 a.2]) := by
    show step cfg r.1 (.lost b env) = _
    rw [hr]; exact hl
  refine ⟨by rw [hr], by rw [hr]; simp [syncOfCl], by rw [hl'], ?_, t6⟩
  intro hne
  show (step cfg l.1 (.connOk b [])).2 = _
  rw [hl']; exact ho hne

end Afkak.ClientCompose
