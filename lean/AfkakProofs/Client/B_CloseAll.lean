import Afkak.ClientNet
import AfkakProofs.Client.Net
import AfkakProofs.Client.B_BcInv
import AfkakProofs.Client.B_MonC20
import AfkakProofs.Client.MonC11
/-!
# `close()` tells every broker client to close (C20)

1. `BcInv` (instances numbered by position; `cache.clients` keys = node ids of the instances in `self.clients`, no
   duplicates) is preserved by every action and event.
2. `Pend st acts`: every instance that has left `self.clients` (or every instance, once the client is closing) has
   been told to close or its `closeBc` is still on the action stack - preserved by every action, so at the end of
   a step that did not run out of fuel every such instance has been told to close.
3. The `close` step schedules `closeBc` for every instance still in `self.clients` (`BcInv`), hence afterwards
   EVERY instance has been told to close (`close_closes_all`).
-/
namespace Afkak.ClientNet
open Afkak.ClientCache Afkak.Consts

/-! ### cache operations that leave `clients` alone -/

theorem b_resetTopic_clients (c : Cache) (t : String) : (resetTopic c t).clients = c.clients := rfl

theorem b_mergeTopic_clients (c : Cache) (tm : TopicMeta) : (mergeTopic c tm).clients = c.clients := by
  unfold mergeTopic
  dsimp only
  split <;> rfl

theorem b_foldl_mergeTopic_clients : ∀ (ts : List (String × TopicMeta)) (c : Cache),
    (ts.foldl (fun c e => mergeTopic c e.2) c).clients = c.clients
  | [], _ => rfl
  | t :: ts, c => by
    simp only [List.foldl_cons]
    rw [b_foldl_mergeTopic_clients ts, b_mergeTopic_clients]

theorem b_resetTopics_clients : ∀ (ts : List String) (c : Cache), (resetTopics c ts).clients = c.clients
  | [], _ => rfl
  | t :: ts, c => by
    unfold resetTopics
    simp only [List.foldl_cons]
    exact (b_resetTopics_clients ts (resetTopic c t)).trans rfl

theorem b_examineRest_clients (g : Option String) (f : Raised) : ∀ (rs : List (String × Int)) (c : Cache),
    (examineRest g f c rs).1.clients = c.clients
  | [], _ => rfl
  | (t, e) :: rs, c => by
    unfold examineRest
    repeat' split
    all_goals (first | rfl | exact b_examineRest_clients _ f rs _ | exact (b_examineRest_clients _ f rs _).trans rfl)

theorem b_afterFirst_clients (g : Option String) (f : Raised) (c : Cache) (rs : List (String × Int)) :
    (afterFirst g f c rs).1.clients = c.clients := by
  unfold afterFirst
  split
  · exact b_examineRest_clients g f rs c
  · rfl

theorem b_handleResponses_clients (foe : Bool) (g : Option String) : ∀ (rs : List (String × Int)) (c : Cache),
    (handleResponses c foe g rs).1.clients = c.clients
  | [], _ => rfl
  | (t, e) :: rs, c => by
    unfold handleResponses
    repeat' split
    all_goals (first
      | rfl
      | exact b_handleResponses_clients foe _ rs _
      | exact (b_handleResponses_clients foe _ rs _).trans rfl
      | exact b_afterFirst_clients _ _ _ _
      | exact (b_afterFirst_clients _ _ _ _).trans rfl)

theorem shuffle_bcs {α} {st st' : St} {xs ys : List α} (h : shuffle st xs = some (st', ys)) :
    st'.bcs = st.bcs ∧ st'.cache = st.cache := by
  unfold shuffle at h
  split at h
  · cases h
  · simp only [Option.map_eq_some_iff] at h
    obtain ⟨_, _, heq⟩ := h
    cases heq; exact ⟨rfl, rfl⟩

theorem reqDone_bcs (st : St) (o : ReqOwner) (k : Nat) (r : Res) :
    (reqDone st o k r).1.bcs = st.bcs ∧ (reqDone st o k r).1.cache = st.cache := by
  unfold reqDone
  split
  · split <;> (try split) <;> exact ⟨rfl, rfl⟩
  · exact ⟨rfl, rfl⟩
  · exact ⟨rfl, rfl⟩

theorem cloadJoin_bcs (st : St) (w : Waiter) (g : String) :
    (cloadJoin st w g).1.bcs = st.bcs ∧ (cloadJoin st w g).1.cache = st.cache := by
  unfold cloadJoin; split <;> exact ⟨rfl, rfl⟩

/-! ## 1. `BcInv` everywhere -/

theorem exec_bcInv (cfg : Cfg) (st : St) (a : Act) (h : BcInv st) : BcInv (exec cfg st a).1 := by
  cases a
  case closeBc b =>
    simp only [exec]
    exact h.mapFlags (fun i => if i.b == b then { i with closed := true, conn := false } else i)
      (fun i => by split <;> exact ⟨rfl, rfl, rfl⟩) rfl rfl
  case bcDown b nested =>
    simp only [exec]
    exact h.mapFlags (fun i => if i.b == b then { i with down := true } else i)
      (fun i => by split <;> exact ⟨rfl, rfl, rfl⟩) rfl rfl
  case unawareDone u r =>
    have h0 : BcInv (setUnaware st u fun y => { y with st := .done }) := h.of_eq rfl rfl
    simp only [exec, updateBrokers]
    split <;> try dsimp only
    · exact h
    · split
      all_goals (split <;> try dsimp only)
      all_goals (first
        | exact applyUpdate_bcInv h0 _ _ _
        | exact h0
        | exact h0.of_eq rfl rfl
        | (apply applyUpdate_bcInv; exact h0.of_eq rfl rfl))
  all_goals simp only [exec, updateBrokers]
  all_goals (repeat' split)
  all_goals (try dsimp only)
  all_goals (first
    | exact h
    | exact h.of_eq rfl rfl
    | (rename_i hs; exact h.of_eq (shuffle_bcs hs).1 (by rw [(shuffle_bcs hs).2] <;> rfl))
    | exact h.of_eq (reqDone_bcs _ _ _ _).1 (by rw [(reqDone_bcs _ _ _ _).2] <;> rfl)
    | exact h.of_eq (cloadJoin_bcs _ _ _).1 (by rw [(cloadJoin_bcs _ _ _).2] <;> rfl)
    | exact issueTo_err_bcInv (by assumption) h
    | exact (issueTo_ok_bcInv (by assumption) h).of_eq rfl rfl
    | exact applyUpdate_bcInv (h.of_eq rfl rfl) _ _ _
    | exact h.of_eq rfl (b_foldl_mergeTopic_clients _ _)
    | exact h.of_eq rfl (b_handleResponses_clients _ _ _ _))

theorem runActs_bcInv (cfg : Cfg) : ∀ (fuel : Nat) (st : St) (acts : List Act) (obs : List Ob),
    BcInv st → BcInv (runActs cfg fuel st acts obs).1
  | 0, _, _, _, h => by simp only [runActs]; exact h
  | _+1, _, [], _, h => by simp only [runActs]; exact h
  | fuel+1, st, a :: rest, obs, h => by
    simp only [runActs]
    exact runActs_bcInv cfg fuel _ _ _ (exec_bcInv cfg st a h)

theorem fireDue_bcInv (cfg : Cfg) : ∀ (n : Nat) (st : St) (obs : List Ob), BcInv st → BcInv (fireDue cfg n st obs).1
  | 0, _, _, h => by simp only [fireDue]; exact h
  | n+1, st, obs, h => by
    simp only [fireDue]
    split
    · exact h
    · split
      · exact h
      · rename_i t rest _ _
        have h' : BcInv ({ st with timers := rest } : St) := h.of_eq rfl rfl
        exact fireDue_bcInv cfg n _ _ (runActs_bcInv cfg fuel _ _ _ h')

theorem cancelOp_bcs (st : St) (o : Nat) : (cancelOp st o).1.bcs = st.bcs ∧ (cancelOp st o).1.cache = st.cache := by
  unfold cancelOp
  repeat' split
  all_goals exact ⟨rfl, rfl⟩

theorem nodesIn_allOut (l : List BcInst) : nodesIn (l.map (fun i => { i with inClients := false })) = [] := by
  induction l with
  | nil => rfl
  | cons a l ih => simpa [nodesIn] using ih

theorem step_bcInv (cfg : Cfg) (st : St) (env : Env) (e : Ev) (h : BcInv st) : BcInv (step cfg st env e).1 := by
  have h' : BcInv ({ st with env := env } : St) := h.of_eq rfl rfl
  cases e
  case cancel o =>
    simp only [step]
    exact runActs_bcInv cfg fuel _ _ _ (h'.of_eq (cancelOp_bcs _ o).1 (by rw [(cancelOp_bcs _ o).2]))
  case advance dt =>
    simp only [step]
    split
    · exact h'
    · exact fireDue_bcInv cfg _ _ _ (h'.of_eq rfl rfl)
  case close o =>
    simp only [step]
    split
    · split
      · exact runActs_bcInv cfg fuel _ _ _ h'
      · exact h'
    · apply runActs_bcInv
      constructor
      · intro k i hi
        simp only [List.getElem?_map] at hi
        cases h0 : st.bcs[k]? with
        | none => rw [h0] at hi; cases hi
        | some i0 =>
          rw [h0] at hi
          simp only [Option.map_some, Option.some.injEq] at hi
          rw [← hi]; exact h.ids k i0 h0
      · show ([] : List (Int × Broker)).map (·.1) = nodesIn (st.bcs.map _)
        rw [nodesIn_allOut]; rfl
      · show (nodesIn (st.bcs.map _)).Nodup
        rw [nodesIn_allOut]; exact List.nodup_nil
  case conn b v =>
    simp only [step]
    exact h.mapFlags (fun i => if i.b == b then { i with conn := v } else i) (fun i => by split <;> exact ⟨rfl, rfl, rfl⟩) rfl rfl
  case resetTopics ts => simp only [step]; exact h.of_eq rfl (b_resetTopics_clients ts st.cache)
  case load o topics => simp only [step]; exact runActs_bcInv cfg fuel _ _ _ (h'.of_eq rfl rfl)
  case cload o g =>
    simp only [step]
    exact runActs_bcInv cfg fuel _ _ _ (h.of_eq (cloadJoin_bcs _ _ _).1 (by rw [(cloadJoin_bcs _ _ _).2]))
  case srtc o g m =>
    simp only [step]
    split
    · exact runActs_bcInv cfg fuel _ _ _ (h'.of_eq rfl rfl)
    · exact runActs_bcInv cfg fuel _ _ _ (h.of_eq (cloadJoin_bcs _ _ _).1 (by rw [(cloadJoin_bcs _ _ _).2]))
  case bootOk j =>
    simp only [step]
    split
    · exact h'
    · exact h'.of_eq rfl rfl
  case bootFail j =>
    simp only [step]
    split
    · exact h'
    · exact runActs_bcInv cfg fuel _ _ _ h'
  case send o keys group foe expect =>
    simp only [step]
    split
    · exact runActs_bcInv cfg fuel _ _ _ (h'.of_eq rfl rfl)
    · split <;> exact runActs_bcInv cfg fuel _ _ _ (h'.of_eq rfl rfl)
  case ltp o topics => simp only [step]; exact runActs_bcInv cfg fuel _ _ _ (h'.of_eq rfl rfl)
  all_goals (simp only [step]; exact runActs_bcInv cfg fuel _ _ _ h')

theorem run_bcInv (cfg : Cfg) (evs : List (Env × Ev)) (st : St) (h : BcInv st) :
    BcInv (evs.foldl (fun s e => (step cfg s e.1 e.2).1) st) := by
  induction evs generalizing st with
  | nil => exact h
  | cons e es ih => exact ih _ (step_bcInv cfg st e.1 e.2 h)

/-! ## 2. told to close, or about to be -/

/-- every instance that has left `self.clients` (every instance, once closing) has been told to close or its
    `closeBc` is on the stack -/
def Pend (st : St) (acts : List Act) : Prop :=
  ∀ i ∈ st.bcs, (i.inClients = false ∨ st.closing = true) → i.closed = true ∨ Act.closeBc i.b ∈ acts

/-- how the instances of `st1` come from those of `st` when an action produced the follow-up actions `acts1` -/
def Evo (st st1 : St) (acts1 : List Act) : Prop :=
  ∀ i1 ∈ st1.bcs, (i1.inClients = false ∨ st1.closing = true) →
    i1.closed = true ∨ Act.closeBc i1.b ∈ acts1 ∨
    ∃ i ∈ st.bcs, i.b = i1.b ∧ (i.inClients = false ∨ st.closing = true) ∧ (i.closed = true → i1.closed = true)

theorem Evo.of_eq {st st1 : St} (acts1 : List Act) (hb : st1.bcs = st.bcs) (hc : st1.closing = st.closing) : Evo st st1 acts1 := by
  intro i1 hi1 hp
  rw [hb] at hi1
  rw [hc] at hp
  exact Or.inr (Or.inr ⟨i1, hi1, rfl, hp, id⟩)

theorem Evo.trans_eq {st st0 st1 : St} {acts1 : List Act} (h : Evo st0 st1 acts1) (hb : st0.bcs = st.bcs) (hc : st0.closing = st.closing) :
    Evo st st1 acts1 := by
  intro i1 hi1 hp
  rcases h i1 hi1 hp with h1 | h1 | ⟨i, hi, h2, h3, h4⟩
  · exact Or.inl h1
  · exact Or.inr (Or.inl h1)
  · exact Or.inr (Or.inr ⟨i, hb ▸ hi, h2, hc ▸ h3, h4⟩)

theorem Evo.mapFlags {st st1 : St} (acts1 : List Act) (f : BcInst → BcInst)
    (hf : ∀ i, (f i).b = i.b ∧ (f i).inClients = i.inClients ∧ (i.closed = true → (f i).closed = true))
    (hb : st1.bcs = st.bcs.map f) (hc : st1.closing = st.closing) : Evo st st1 acts1 := by
  intro i1 hi1 hp
  rw [hb, List.mem_map] at hi1
  obtain ⟨i, hi, rfl⟩ := hi1
  rw [hc, (hf i).2.1] at hp
  exact Or.inr (Or.inr ⟨i, hi, ((hf i).1).symm, hp, (hf i).2.2⟩)

theorem Pend.step {st st1 : St} {a : Act} {rest acts1 : List Act} (h : Pend st (a :: rest))
    (hne : ∀ i ∈ st.bcs, Act.closeBc i.b ∈ (a :: rest) → Act.closeBc i.b ∈ acts1 ++ rest ∨ ∀ i1 ∈ st1.bcs, i1.b = i.b → i1.closed = true)
    (he : Evo st st1 acts1) : Pend st1 (acts1 ++ rest) := by
  intro i1 hi1 hp
  rcases he i1 hi1 hp with h1 | h1 | ⟨i, hi, h2, h3, h4⟩
  · exact Or.inl h1
  · exact Or.inr (List.mem_append_left _ h1)
  · rcases h i hi h3 with h5 | h5
    · exact Or.inl (h4 h5)
    · rcases hne i hi h5 with h6 | h6
      · rw [← h2]; exact Or.inr h6
      · exact Or.inl (h6 i1 hi1 h2.symm)

/-- an action other than `closeBc` leaves the `closeBc`s of the stack where they are -/
theorem keep_closeBc {a : Act} {rest acts1 : List Act} (hn : ∀ b, a ≠ .closeBc b) (b : Nat) (h : Act.closeBc b ∈ a :: rest) :
    Act.closeBc b ∈ acts1 ++ rest := by
  rcases List.mem_cons.mp h with h | h
  · exact absurd h.symm (hn b)
  · exact List.mem_append_right _ h

theorem getBrokerClient_evo {st st1 : St} {n : Int} {b : Nat} {obs : List Ob} (acts1 : List Act)
    (hg : getBrokerClient st n = .ok (st1, b, obs)) : Evo st st1 acts1 := by
  unfold getBrokerClient at hg
  split at hg
  · cases hg
  · rename_i hcl
    split at hg
    · cases hg; exact Evo.of_eq _ rfl rfl
    · split at hg
      · cases hg
      · cases hg
        intro i1 hi1 hp
        rcases List.mem_append.mp hi1 with h1 | h1
        · exact Or.inr (Or.inr ⟨i1, h1, rfl, hp, id⟩)
        · simp only [List.mem_singleton] at h1
          subst h1
          exfalso
          rcases hp with hp | hp
          · cases hp
          · exact hcl hp

theorem issueTo_ok_evo {cfg : Cfg} {st : St} {n : Int} {o : ReqOwner} {e : Bool} {w : ReqWhat} {m : Option Rat}
    {rj : Bool} {i : IssueOk} (acts1 : List Act) (hi : issueTo cfg st n o e w m rj = .ok i) : Evo st i.st acts1 := by
  obtain ⟨st1, b, obs1, hg, hst, _, _, _⟩ := issueTo_ok hi
  have := getBrokerClient_evo acts1 hg
  intro i1 hi1 hp
  rw [hst] at hi1 hp
  exact this i1 hi1 hp

theorem issueTo_err_evo {cfg : Cfg} {st : St} {n : Int} {o : ReqOwner} {e : Bool} {w : ReqWhat} {m : Option Rat}
    {rj : Bool} {er : IssueErr} (acts1 : List Act) (he : issueTo cfg st n o e w m rj = .error er) : Evo st er.st acts1 := by
  rcases issueTo_err he with ⟨h1, _⟩ | ⟨b, hg⟩
  · rw [h1]; exact Evo.of_eq _ rfl rfl
  · exact getBrokerClient_evo acts1 hg

theorem applyUpdate_evo (st : St) (c' : Cache) (cn : List Int) (bs : List Broker) (more : List Act) :
    Evo st (applyUpdate st c' cn bs).1 ((applyUpdate st c' cn bs).2.2 ++ more) := by
  intro i1 hi1 hp
  simp only [applyUpdate, List.mem_map] at hi1
  obtain ⟨i, hi, rfl⟩ := hi1
  split
  · rename_i hT
    refine Or.inr (Or.inl ?_)
    apply List.mem_append_left
    simp only [applyUpdate]
    have hmem : i.b ∈ (sortByNode (st.bcs.filter (fun i => i.inClients && cn.contains i.node))).map (·.b) := by
      simpa [List.contains_iff_mem] using hT
    have hne : ((sortByNode (st.bcs.filter (fun i => i.inClients && cn.contains i.node))).map (·.b)).isEmpty = false := by
      cases hl : (sortByNode (st.bcs.filter (fun i => i.inClients && cn.contains i.node))).map (·.b) with
      | nil => rw [hl] at hmem; cases hmem
      | cons a l => rfl
    rw [hne]
    simp only [Bool.false_eq_true, if_false]
    apply List.mem_append_left
    exact List.mem_map.mpr ⟨i.b, hmem, rfl⟩
  · rename_i hT
    simp only [hT] at hp
    exact Or.inr (Or.inr ⟨i, hi, rfl, hp, id⟩)

theorem exec_evo (cfg : Cfg) (st : St) (a : Act) : Evo st (exec cfg st a).1 (exec cfg st a).2.2 := by
  cases a
  case closeBc b =>
    simp only [exec]
    exact Evo.mapFlags _ (fun i => if i.b == b then { i with closed := true, conn := false } else i)
      (fun i => by split <;> simp) rfl rfl
  case bcDown b nested =>
    simp only [exec]
    exact Evo.mapFlags _ (fun i => if i.b == b then { i with down := true } else i)
      (fun i => by split <;> simp) rfl rfl
  case unawareDone u r =>
    simp only [exec, updateBrokers]
    split <;> try dsimp only
    · exact Evo.of_eq _ rfl rfl
    · split
      all_goals (split <;> try dsimp only)
      all_goals (first
        | exact Evo.of_eq _ rfl rfl
        | exact (applyUpdate_evo _ _ _ _ _).trans_eq rfl rfl)
  all_goals simp only [exec]
  all_goals (repeat' split)
  all_goals (try dsimp only)
  all_goals (first
    | exact Evo.of_eq _ rfl rfl
    | (rename_i hs; exact Evo.of_eq _ (shuffle_bcs hs).1 (shuffle_closing hs))
    | exact Evo.of_eq _ (reqDone_bcs _ _ _ _).1 (reqDone_closing _ _ _ _)
    | exact Evo.of_eq _ (cloadJoin_bcs _ _ _).1 (cloadJoin_closing _ _ _)
    | exact issueTo_err_evo _ (by assumption)
    | exact (issueTo_ok_evo _ (by assumption)).trans_eq rfl rfl
    | (refine Evo.trans_eq (st0 := _) ?_ rfl rfl; exact issueTo_ok_evo _ (by assumption)))

theorem exec_pend (cfg : Cfg) (st : St) (a : Act) (rest : List Act) (h : Pend st (a :: rest)) :
    Pend (exec cfg st a).1 ((exec cfg st a).2.2 ++ rest) := by
  apply Pend.step h ?_ (exec_evo cfg st a)
  cases a
  case closeBc b =>
    intro i hi hm
    rcases List.mem_cons.mp hm with hm | hm
    · right
      have hb : i.b = b := by cases hm; rfl
      intro i1 hi1 h1
      simp only [exec, List.mem_map] at hi1
      obtain ⟨i0, _, rfl⟩ := hi1
      by_cases hib : i0.b = b
      · simp [hib]
      · exfalso
        simp only [beq_iff_eq, hib, if_false] at h1
        exact hib (h1.trans hb)
    · exact Or.inl (List.mem_append_right _ hm)
  all_goals (intro i hi hm; exact Or.inl (keep_closeBc (fun b hh => by cases hh) i.b hm))

theorem runActs_pend (cfg : Cfg) : ∀ (fuel : Nat) (st : St) (acts : List Act) (obs : List Ob),
    Pend st acts → Ob.badOp "fuel" ∉ (runActs cfg fuel st acts obs).2 → Pend (runActs cfg fuel st acts obs).1 []
  | 0, st, acts, obs, _, hf => by exfalso; apply hf; simp [runActs]
  | _+1, st, [], obs, h, _ => by simpa [runActs] using h
  | fuel+1, st, a :: rest, obs, h, hf => by
    simp only [runActs] at hf ⊢
    exact runActs_pend cfg fuel _ _ _ (exec_pend cfg st a rest h) hf

theorem Pend.weaken {st : St} (h : Pend st []) (acts : List Act) : Pend st acts := by
  intro i hi hp
  rcases h i hi hp with h1 | h1
  · exact Or.inl h1
  · cases h1

theorem Pend.of_eq {st st' : St} {acts : List Act} (h : Pend st acts) (hb : st'.bcs = st.bcs) (hc : st'.closing = st.closing) :
    Pend st' acts := by
  intro i hi hp
  rw [hb] at hi; rw [hc] at hp
  exact h i hi hp

theorem fireDue_pend (cfg : Cfg) : ∀ (n : Nat) (st : St) (obs : List Ob),
    Pend st [] → Ob.badOp "fuel" ∉ (fireDue cfg n st obs).2 → Pend (fireDue cfg n st obs).1 []
  | 0, st, obs, _, hf => by exfalso; apply hf; simp [fireDue]
  | n+1, st, obs, h, hf => by
    simp only [fireDue] at hf ⊢
    split
    · exact h
    · split
      · exact h
      · rename_i t rest hti hdue
        simp only [hti, hdue, if_false] at hf
        have h' : Pend ({ st with timers := rest } : St) [timerAct t.what] := (h.of_eq rfl rfl).weaken _
        -- the inner run did not run out of fuel either: its observations are a prefix of the final ones
        have hf2 : Ob.badOp "fuel" ∉ (runActs cfg fuel { st with timers := rest } [timerAct t.what] obs).2 := by
          intro hm
          obtain ⟨more, hmore⟩ := fireDue_prefix cfg n (runActs cfg fuel { st with timers := rest } [timerAct t.what] obs).1
            (runActs cfg fuel { st with timers := rest } [timerAct t.what] obs).2
          apply hf
          rw [hmore]
          exact List.mem_append_left _ hm
        exact fireDue_pend cfg n _ _ (runActs_pend cfg fuel _ _ _ h' hf2) hf

/-! ## 3. the `close` step -/

theorem inj_of_nodup_map {α β} (f : α → β) : ∀ (l : List α), (l.map f).Nodup → ∀ x ∈ l, ∀ y ∈ l, f x = f y → x = y
  | [], _, _, hx, _, _, _ => by cases hx
  | a :: l, hn, x, hx, y, hy, hxy => by
    simp only [List.map_cons, List.nodup_cons] at hn
    rcases List.mem_cons.mp hx with rfl | hx'
    · rcases List.mem_cons.mp hy with rfl | hy'
      · rfl
      · exact absurd (List.mem_map.mpr ⟨y, hy', hxy.symm⟩) hn.1
    · rcases List.mem_cons.mp hy with rfl | hy'
      · exact absurd (List.mem_map.mpr ⟨x, hx', hxy⟩) hn.1
      · exact inj_of_nodup_map f l hn.2 x hx' y hy' hxy

/-- under `BcInv`, every instance still in `self.clients` is one of those `close()` closes -/
theorem open_covers {st : St} (h : BcInv st) (i : BcInst) (hi : i ∈ st.bcs) (hin : i.inClients = true) :
    i.b ∈ st.cache.clients.filterMap (fun cl => (bcOfNode st cl.1).map (·.b)) := by
  have hnode : i.node ∈ nodesIn st.bcs := List.mem_map.mpr ⟨i, List.mem_filter.mpr ⟨hi, hin⟩, rfl⟩
  rw [← h.keys] at hnode
  obtain ⟨cl, hcl, hcn⟩ := List.mem_map.mp hnode
  rw [List.mem_filterMap]
  refine ⟨cl, hcl, ?_⟩
  -- `bcOfNode` finds `i`: it is the only instance in `clients` with that node id
  have hmem : i ∈ st.bcs.filter (fun j => j.node == cl.1 && j.inClients) :=
    List.mem_filter.mpr ⟨hi, by simp [hcn, hin]⟩
  cases hh : (st.bcs.filter (fun j => j.node == cl.1 && j.inClients)).head? with
  | none => rw [List.head?_eq_none_iff] at hh; rw [hh] at hmem; cases hmem
  | some j =>
    have hj := List.mem_of_mem_head? hh
    obtain ⟨hjm, hjp⟩ := List.mem_filter.mp hj
    simp only [Bool.and_eq_true, beq_iff_eq] at hjp
    have hnd : ((st.bcs.filter (fun j => j.inClients)).map (fun j => j.node)).Nodup := h.nodup
    have hji : j = i := inj_of_nodup_map (fun j => j.node) (st.bcs.filter (fun j => j.inClients)) hnd j
      (List.mem_filter.mpr ⟨hjm, hjp.2⟩) i (List.mem_filter.mpr ⟨hi, hin⟩) (hjp.1.trans hcn)
    simp only [bcOfNode, hh, Option.map_some, hji]

theorem step_close_closing (cfg : Cfg) (st : St) (env : Env) (o : Nat) (hc : st.closing = true) :
    step cfg st env (.close o) =
      (if clientCloseIdempotent then runActs cfg fuel { st with env := env } [.closeAgain o] []
       else ({ st with env := env }, [.raised o "AttributeError"])) := by
  simp only [step, hc, if_true]

theorem step_close_open (cfg : Cfg) (st : St) (env : Env) (o : Nat) (hc : st.closing = false) :
    step cfg st env (.close o) =
      runActs cfg fuel { st with env := env, closing := true, cache := { st.cache with clients := [] },
                                 bcs := st.bcs.map (fun i => { i with inClients := false }) }
        ((st.cache.clients.filterMap (fun cl => (bcOfNode { st with env := env } cl.1).map (·.b))).map Act.closeBc ++
          [.newAgg (st.cache.clients.filterMap (fun cl => (bcOfNode { st with env := env } cl.1).map (·.b))), .cancelBoots] ++
          (if clientCloseWakesRetryDelays then [.cancelDelays] else []) ++ [.finishClose o]) [] := by
  simp only [step, hc, Bool.false_eq_true, if_false]

theorem step_pend (cfg : Cfg) (st : St) (env : Env) (e : Ev) (hI : BcInv st) (h : Pend st [])
    (hf : Ob.badOp "fuel" ∉ (step cfg st env e).2) : Pend (step cfg st env e).1 [] := by
  have h' : Pend ({ st with env := env } : St) [] := h.of_eq rfl rfl
  cases e
  case cancel o =>
    simp only [step] at hf ⊢
    exact runActs_pend cfg fuel _ _ _ ((h'.of_eq (cancelOp_bcs _ o).1 (cancelOp_closing _ o).1).weaken _) hf
  case advance dt =>
    simp only [step] at hf ⊢
    split
    · exact h'
    · rename_i hd
      simp only [hd, if_false] at hf
      exact fireDue_pend cfg _ _ _ (h'.of_eq rfl rfl) hf
  case close o =>
    cases hc : st.closing
    · rw [step_close_open cfg st env o hc] at hf ⊢
      refine runActs_pend cfg fuel _ _ _ ?_ hf
      intro i0 hi0 _
      simp only [List.mem_map] at hi0
      obtain ⟨i, hi, rfl⟩ := hi0
      cases hin : i.inClients
      · rcases h i hi (Or.inl hin) with h1 | h1
        · exact Or.inl h1
        · cases h1
      · right
        apply List.mem_append_left
        apply List.mem_append_left
        apply List.mem_append_left
        exact List.mem_map.mpr ⟨i.b, open_covers (st := { st with env := env }) (hI.of_eq rfl rfl) i hi hin, rfl⟩
    · rw [step_close_closing cfg st env o hc] at hf ⊢
      split
      · rename_i hidem
        simp only [hidem, if_true] at hf
        exact runActs_pend cfg fuel _ _ _ (h'.weaken _) hf
      · exact h'
  case conn b v =>
    simp only [step]
    intro i1 hi1 hp
    simp only [List.mem_map] at hi1
    obtain ⟨i, hi, rfl⟩ := hi1
    have hp' : i.inClients = false ∨ st.closing = true := by
      rcases hp with hp | hp
      · left; split at hp <;> exact hp
      · right; exact hp
    rcases h i hi hp' with h1 | h1
    · left; split <;> exact h1
    · cases h1
  case resetTopics ts => simp only [step]; exact h.of_eq rfl rfl
  case load o topics => simp only [step] at hf ⊢; exact runActs_pend cfg fuel _ _ _ ((h'.of_eq rfl rfl).weaken _) hf
  case cload o g =>
    simp only [step] at hf ⊢
    have h2 : Pend ({ st with env := env, liveOps := st.liveOps ++ [o] } : St) [] := h.of_eq rfl rfl
    exact runActs_pend cfg fuel _ _ _ ((h2.of_eq (cloadJoin_bcs _ _ _).1 (cloadJoin_closing _ _ _)).weaken _) hf
  case srtc o g m =>
    simp only [step] at hf ⊢
    split
    · rename_i hg; simp only [hg] at hf; exact runActs_pend cfg fuel _ _ _ ((h'.of_eq rfl rfl).weaken _) hf
    · rename_i hg; simp only [hg] at hf
      have h2 : Pend ({ st with env := env, liveOps := st.liveOps ++ [o], srtcs := st.srtcs ++ [{ r := st.srtcs.length, o := o, g := g, minTimeout := m, phase := .resolving }] } : St) [] := h.of_eq rfl rfl
      exact runActs_pend cfg fuel _ _ _ ((h2.of_eq (cloadJoin_bcs _ _ _).1 (cloadJoin_closing _ _ _)).weaken _) hf
  case bootOk j =>
    simp only [step]
    split
    · exact h'
    · exact h'.of_eq rfl rfl
  case bootFail j =>
    simp only [step] at hf ⊢
    split
    · exact h'
    · rename_i x hx; simp only [hx] at hf; exact runActs_pend cfg fuel _ _ _ (h'.weaken _) hf
  case send o keys group foe expect =>
    simp only [step] at hf ⊢
    split
    · rename_i hk; simp only [hk, if_true] at hf; exact runActs_pend cfg fuel _ _ _ ((h'.of_eq rfl rfl).weaken _) hf
    · rename_i hk
      simp only [hk, if_false] at hf
      split
      · rename_i hd; simp only [hd, if_true] at hf; exact runActs_pend cfg fuel _ _ _ ((h'.of_eq rfl rfl).weaken _) hf
      · rename_i hd; simp only [hd, if_false] at hf; exact runActs_pend cfg fuel _ _ _ ((h'.of_eq rfl rfl).weaken _) hf
  case ltp o topics => simp only [step] at hf ⊢; exact runActs_pend cfg fuel _ _ _ ((h'.of_eq rfl rfl).weaken _) hf
  all_goals (simp only [step] at hf ⊢; exact runActs_pend cfg fuel _ _ _ (h'.weaken _) hf)

/-- in every state reachable without running out of fuel, every instance that has left `self.clients` (every
    instance, once closing) has been told to close -/
theorem run_pend (cfg : Cfg) : ∀ (evs : List (Env × Ev)) (st : St), BcInv st → Pend st [] → NoFuel cfg st evs →
    Pend (evs.foldl (fun s e => (step cfg s e.1 e.2).1) st) []
  | [], _, _, h, _ => h
  | (env, e) :: rest, st, hI, h, hnf => by
    obtain ⟨hf, hnf'⟩ := hnf
    exact run_pend cfg rest _ (step_bcInv cfg st env e hI) (step_pend cfg st env e hI h hf) hnf'

/-- **`close()` tells every broker client to close**: after the close step of an open client, in any state reachable
    without fuel exhaustion, EVERY broker-client instance ever created has been told to close -/
theorem close_closes_all (cfg : Cfg) (evs : List (Env × Ev)) (hnf : NoFuel cfg {} evs) (env : Env) (o : Nat)
    (hf : Ob.badOp "fuel" ∉ (step cfg (evs.foldl (fun s e => (step cfg s e.1 e.2).1) ({} : St)) env (.close o)).2) :
    ∀ i ∈ (step cfg (evs.foldl (fun s e => (step cfg s e.1 e.2).1) ({} : St)) env (.close o)).1.bcs, i.closed = true := by
  have hI := run_bcInv cfg evs {} BcInv.init
  have hP := run_pend cfg evs {} BcInv.init (by intro i hi; cases hi) hnf
  have hP' := step_pend cfg _ env (.close o) hI hP hf
  intro i hi
  cases hc : (evs.foldl (fun s e => (step cfg s e.1 e.2).1) ({} : St)).closing
  · have hcl : (step cfg (evs.foldl (fun s e => (step cfg s e.1 e.2).1) ({} : St)) env (.close o)).1.closing = true := by
      rw [step_close_open cfg _ env o hc]
      exact runActs_closing_state cfg fuel _ _ _ rfl
    rcases hP' i hi (Or.inr hcl) with h1 | h1
    · exact h1
    · cases h1
  · have hcl : (step cfg (evs.foldl (fun s e => (step cfg s e.1 e.2).1) ({} : St)) env (.close o)).1.closing = true := by
      rw [step_close_closing cfg _ env o hc]
      split
      · rw [runActs_closing_eq]; exact hc
      · exact hc
    rcases hP' i hi (Or.inr hcl) with h1 | h1
    · exact h1
    · cases h1

end Afkak.ClientNet
