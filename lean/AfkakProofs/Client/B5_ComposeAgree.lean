import AfkakProofs.Client.B_ComposeClose
import AfkakProofs.Client.B5_Tbl
/-!
# The composition keeps the client's broker-client table and the broker-client components in step (C20 end to end)

`Agree s`: the composed state has one broker-client component per instance of the client's table, and every instance
the client layer has told to close (`closed` in its table) IS a closed broker-client component.  Holds in every
reachable composed state (`run_cinv`): a client step's `bcNew` / `bcClose` observations are exactly what `route` turns
into new components / `close` events (`B5_Tbl.lean`: `step_tb`), a closed component stays closed under every event
(`C10_closed_quiet`), and nothing else touches either table.
-/
namespace Afkak.ClientCompose
open Afkak Afkak.BrokerClient
open Afkak.ClientNet (FLe tbl tblStep cflags Tb BcInv)

def bflags (s : St) : List Bool := s.bcs.map (·.closed)

def Agree (s : St) : Prop := FLe (cflags s.cl) (bflags s)

structure CInv (s : St) : Prop where
  sinv : AllSInv s
  bcInv : BcInv s.cl
  agree : Agree s

theorem bflags_get (s : St) (k : Nat) : (bflags s)[k]? = (s.bcs[k]?).map (·.closed) := by
  simp [bflags]

theorem bc_close_closed (cfg : BrokerClient.Cfg) (x : BrokerClient.St) : (BrokerClient.step cfg x .close).1.closed = true := by
  simp only [BrokerClient.step]
  split
  · assumption
  · split
    · rfl
    · split <;> rfl

/-- closed components stay closed through any event of any component; the lengths do not change -/
theorem bcStep_mono (cfg : Cfg) (s : St) (b : Nat) (e : BrokerClient.Ev) (h : AllSInv s) :
    FLe (bflags s) (bflags (bcStep cfg s b e).1) := by
  refine ⟨by simp [bflags, bcStep_len], ?_⟩
  intro k hk
  rw [bflags_get] at hk ⊢
  cases hx : s.bcs[k]? with
  | none => rw [hx] at hk; cases hk
  | some x =>
    rw [hx] at hk
    simp only [Option.map_some, Option.some.injEq] at hk
    by_cases hb : k = b
    · subst hb
      obtain ⟨⟨x', hx', hc'⟩, _⟩ := bcStep_closed cfg s k e x hx (h x (List.mem_of_getElem? hx)) hk
      rw [hx']; simp [hc']
    · rw [bcStep_other cfg s b k e hb, hx]; simp [hk]

/-- a `close` event closes the component it is addressed to -/
theorem bcStep_close (cfg : Cfg) (s : St) (b : Nat) (h : AllSInv s) :
    FLe ((bflags s).set b true) (bflags (bcStep cfg s b .close).1) := by
  have hm := bcStep_mono cfg s b .close h
  refine ⟨by simp [hm.1.symm], ?_⟩
  intro k hk
  rw [List.getElem?_set] at hk
  by_cases hb : b = k
  · subst hb
    simp only [if_true] at hk
    have hlt : b < s.bcs.length := by
      split at hk
      · rename_i hl; simpa [bflags] using hl
      · cases hk
    rw [bflags_get]
    have hx : s.bcs[b]? = some s.bcs[b] := List.getElem?_eq_getElem hlt
    unfold bcStep
    simp only [hx]
    split
    · rename_i hcond
      have hs1 : SInv (BrokerClient.step cfg.bc s.bcs[b] .close).1 := sinv_step _ _ _ (h _ (List.getElem_mem hlt))
      have := (bc_closed_quiet cfg.bc _ hs1 (bc_close_closed cfg.bc s.bcs[b]) .connFail).2
      simp [hlt, this]
    · simp [hlt, bc_close_closed]
  · simp only [hb, if_false] at hk
    exact hm.2 k hk

/-- `route` does to the components' `closed` flags at least what `tbl` does to a table of flags -/
theorem route_tbl (cfg : Cfg) (cl : ClientNet.St) : ∀ (obs : List ClientNet.Ob) (s : St) (out : List Ob) (sy : List Sync),
    AllSInv s → FLe (tbl (bflags s) obs) (bflags (route cfg cl s obs out sy).1)
  | [], s, out, sy, _ => by simp only [route, tbl, List.foldl_nil]; exact FLe.refl _
  | o :: rest, s, out, sy, h => by
    have key : ∀ (s' : St), AllSInv s' → FLe (tblStep (bflags s) o) (bflags s') →
        ∀ out' sy', FLe (tbl (bflags s) (o :: rest)) (bflags (route cfg cl s' rest out' sy').1) := by
      intro s' hs' hle out' sy'
      simp only [tbl, List.foldl_cons]
      exact (ClientNet.tbl_mono rest hle).trans (route_tbl cfg cl rest s' out' sy' hs')
    unfold route
    split
    · rename_i b nd host port
      split
      · rename_i hb
        refine key _ (allSInv_append h _ rfl) ?_ _ _
        have : (b == (bflags s).length) = true := by simpa [bflags] using hb
        simp only [tblStep, this, if_true]
        exact FLe.of_eq (by simp [bflags]; rfl)
      · rename_i hb
        refine key _ h ?_ _ _
        have : (b == (bflags s).length) = false := by simpa [bflags] using hb
        simp only [tblStep, this]
        exact FLe.refl _
    · rename_i b host port
      exact key { s with addr := s.addr.set b (host, port) } (fun x hx => h x hx) (FLe.refl _) _ _
    · rename_i hn1 hn2
      split
      · rename_i hd
        refine key _ h ?_ _ _
        have : tblStep (bflags s) o = bflags s := by
          cases o
          case bcNew a1 a2 a3 a4 => exact absurd rfl (hn1 a1 a2 a3 a4)
          case bcClose b' => simp [downCall] at hd
          all_goals rfl
        rw [this]; exact FLe.refl _
      · rename_i b e hd
        refine key _ (bcStep_allSInv cfg s b e h) ?_ _ _
        cases o
        case bcClose b' =>
          simp only [downCall, Option.some.injEq, Prod.mk.injEq] at hd
          obtain ⟨rfl, rfl⟩ := hd
          exact bcStep_close cfg s b' h
        case bcNew a1 a2 a3 a4 => exact absurd rfl (hn1 a1 a2 a3 a4)
        all_goals (simp only [tblStep]; exact bcStep_mono cfg s b e h)

theorem clientStep_cinv (cfg : Cfg) (s : St) (env : ClientNet.Env) (e : ClientNet.Ev) (h : CInv s) :
    CInv (clientStep cfg s env e).1 := by
  refine ⟨clientStep_allSInv cfg s env e h.sinv, by rw [clientStep_cl]; exact ClientNet.step_bcInv cfg.cl _ env e h.bcInv, ?_⟩
  unfold Agree
  rw [clientStep_cl]
  have htb : Tb s.cl (ClientNet.step cfg.cl s.cl env e).2 (ClientNet.step cfg.cl s.cl env e).1 := ClientNet.step_tb cfg.cl s.cl env e h.bcInv
  have hr := route_tbl cfg (ClientNet.step cfg.cl s.cl env e).1 (ClientNet.step cfg.cl s.cl env e).2
    { s with cl := (ClientNet.step cfg.cl s.cl env e).1 } [] [] (fun x hx => h.sinv x hx)
  simp only [clientStep]
  exact (FLe.trans htb (ClientNet.tbl_mono _ h.agree)).trans hr

theorem bcStep_cinv (cfg : Cfg) (s : St) (b : Nat) (e : BrokerClient.Ev) (h : CInv s) : CInv (bcStep cfg s b e).1 := by
  refine ⟨bcStep_allSInv cfg s b e h.sinv, by rw [bcStep_cl]; exact h.bcInv, ?_⟩
  unfold Agree
  rw [bcStep_cl]
  exact h.agree.trans (bcStep_mono cfg s b e h.sinv)

/-- the client learns that `connected()` of a broker client changed: no table changes -/
theorem conn_cinv (cfg : Cfg) (s : St) (b : Nat) (v : Bool) (h : CInv s) (s' : St)
    (hcl : s'.cl = (ClientNet.step cfg.cl s.cl {} (.conn b v)).1) (hb : s'.bcs = s.bcs) : CInv s' := by
  refine ⟨allSInv_of_bcs h.sinv hb, by rw [hcl]; exact ClientNet.step_bcInv cfg.cl _ _ _ h.bcInv, ?_⟩
  unfold Agree
  have : cflags s'.cl = cflags s.cl := by
    rw [hcl]
    simp only [ClientNet.step, cflags, List.map_map]
    apply List.map_congr_left
    intro i _
    simp only [Function.comp]
    split <;> rfl
  rw [this]
  have ha : FLe (cflags s.cl) (bflags s) := h.agree
  simpa [bflags, hb] using ha

theorem deliver_cinv (cfg : Cfg) (p : Option ClientNet.Payload) : ∀ (obs : List BrokerClient.Ob) (s : St)
    (envs : List ClientNet.Env) (out : List Ob), CInv s → CInv (deliver cfg p s obs envs out).1
  | [], s, envs, out, h => by simpa [deliver] using h
  | o :: rest, s, envs, out, h => by
    unfold deliver
    split
    · dsimp only
      split
      · exact deliver_cinv cfg p rest _ _ _ h
      · exact deliver_cinv cfg p rest _ _ _ (clientStep_cinv cfg s _ _ h)
    · exact deliver_cinv cfg p rest _ _ _ h

theorem advanceBcs_cinv (cfg : Cfg) (dt : Rat) : ∀ (bs : List Nat) (s : St) (out : List Ob),
    CInv s → CInv (advanceBcs cfg dt s bs out).1
  | [], s, out, h => by simpa [advanceBcs] using h
  | b :: rest, s, out, h => by
    unfold advanceBcs
    exact advanceBcs_cinv cfg dt rest _ _ (bcStep_cinv cfg s b _ h)

theorem tickmap_cinv (s : St) (h : CInv s) (others : List Nat) (dt : Rat) (s' : St) (hcl : s'.cl = s.cl)
    (hs : s'.bcs = ((List.range s.bcs.length).zip s.bcs).map (fun e => if others.contains e.1 then tick e.2 dt else e.2)) :
    CInv s' := by
  refine ⟨allSInv_tickmap s h.sinv others dt s' hs, by rw [hcl]; exact h.bcInv, ?_⟩
  unfold Agree
  rw [hcl]
  have hfl : bflags s' = bflags s := by
    apply List.ext_getElem?
    intro k
    rw [bflags_get, bflags_get, hs, List.getElem?_map]
    cases hx : s.bcs[k]? with
    | none =>
      have : ((List.range s.bcs.length).zip s.bcs)[k]? = none := by
        rw [List.getElem?_eq_none_iff] at hx ⊢
        simp; omega
      rw [this]; rfl
    | some x =>
      have hlt : k < s.bcs.length := by
        rcases Nat.lt_or_ge k s.bcs.length with h' | h'
        · exact h'
        · rw [List.getElem?_eq_none h'] at hx; cases hx
      have hz : ((List.range s.bcs.length).zip s.bcs)[k]? = some (k, x) := by
        rw [List.getElem?_zip_eq_some]
        exact ⟨by simp [hlt], hx⟩
      rw [hz]
      simp only [Option.map_some]
      split <;> rfl
  rw [hfl]; exact h.agree

theorem step_cinv (cfg : Cfg) (s : St) (e : Ev) (h : CInv s) : CInv (step cfg s e).1 := by
  cases e with
  | api env e =>
    simp only [step]
    split
    · exact h
    · exact clientStep_cinv cfg s env e h
  | setSyncRefuse n => exact ⟨allSInv_of_bcs h.sinv rfl, h.bcInv, h.agree⟩
  | connOk b envs =>
    simp only [step]
    split
    · exact h
    · (try dsimp only)
      rename_i x hx
      apply deliver_cinv
      apply bcStep_cinv
      split
      · exact h
      · exact conn_cinv cfg s b true h _ rfl rfl
  | connFail b =>
    simp only [step]
    exact bcStep_cinv cfg s b _ h
  | lost b env =>
    simp only [step]
    split
    · exact h
    · (try dsimp only)
      split
      · exact clientStep_cinv cfg _ _ _ (bcStep_cinv cfg s b _ h)
      · exact conn_cinv cfg _ b false (bcStep_cinv cfg s b .lost h) _ rfl rfl
  | reply b k p env =>
    simp only [step]
    split
    · exact h
    · split
      · exact h
      · (try dsimp only)
        exact deliver_cinv cfg _ _ _ _ _ (bcStep_cinv cfg s b _ h)
  | advance dt first after env =>
    simp only [step]
    split
    · exact h
    · split
      · exact h
      · (try dsimp only)
        apply advanceBcs_cinv
        apply clientStep_cinv
        exact tickmap_cinv _ (advanceBcs_cinv cfg dt _ s [] h) _ dt _ rfl rfl

theorem cinv_init : CInv ({} : St) := ⟨allSInv_init, BcInv.init, FLe.refl _⟩

theorem run_cinv (cfg : Cfg) : ∀ (evs : List Ev) (s : St), CInv s → CInv (run cfg s evs)
  | [], _, h => h
  | e :: es, s, h => run_cinv cfg es _ (step_cinv cfg s e h)

/-- with `Agree`: when every instance of the client's table is closed, every broker-client component is closed -/
theorem all_closed_of_agree {s : St} (h : Agree s) (hall : ∀ i ∈ s.cl.bcs, i.closed = true) : ∀ x ∈ s.bcs, x.closed = true := by
  intro x hx
  obtain ⟨k, hk, hkx⟩ := List.getElem_of_mem hx
  have hlen : s.cl.bcs.length = s.bcs.length := by simpa [cflags, bflags] using h.1
  have hk' : k < s.cl.bcs.length := by omega
  have hc : (cflags s.cl)[k]? = some true := by
    simp only [cflags, List.getElem?_map, List.getElem?_eq_getElem hk', Option.map_some]
    rw [hall _ (List.getElem_mem hk')]
  have := h.2 k hc
  rw [bflags_get, List.getElem?_eq_getElem hk, hkx] at this
  simpa using this

end Afkak.ClientCompose
