import Afkak.ClientCache
/-! Lemmas about the routing kernels of `Afkak.ClientCache` (C07). -/
namespace Afkak.ClientCache

theorem mem_dedup {a : Int} : ∀ {l : List Int}, a ∈ dedup l ↔ a ∈ l
  | [] => by simp [dedup]
  | b :: l => by
    simp only [dedup, List.mem_cons, List.mem_filter, mem_dedup (l := l)]
    constructor
    · rintro (h | ⟨h, _⟩)
      · exact Or.inl h
      · exact Or.inr h
    · rintro (h | h)
      · exact Or.inl h
      · by_cases hab : a = b
        · exact Or.inl hab
        · exact Or.inr ⟨h, by simpa using hab⟩

theorem dedup_nodup : ∀ (l : List Int), (dedup l).Nodup
  | [] => by simp [dedup]
  | b :: l => by
    simp only [dedup, List.nodup_cons, List.mem_filter]
    refine ⟨fun h => by simp at h, (dedup_nodup l).sublist List.filter_sublist⟩

/-- the brokers of the issued requests: each node once, in first-seen order -/
theorem groupByNode_nodes {α} (xs : List (Int × α)) :
    (groupByNode xs).map (·.1) = dedup (xs.map (·.1)) := by
  simp [groupByNode, List.map_map, Function.comp_def]

theorem groupByNode_nodup {α} (xs : List (Int × α)) : ((groupByNode xs).map (·.1)).Nodup := by
  rw [groupByNode_nodes]; exact dedup_nodup _

/-- a request carries exactly the payloads routed to its broker, in payload order -/
theorem groupByNode_group {α} (xs : List (Int × α)) (n : Int) (ps : List α)
    (h : (n, ps) ∈ groupByNode xs) : ps = (xs.filter (fun x => x.1 == n)).map (·.2) ∧ n ∈ xs.map (·.1) := by
  simp only [groupByNode, List.mem_map] at h
  obtain ⟨m, hm, heq⟩ := h
  simp only [Prod.mk.injEq] at heq
  obtain ⟨rfl, rfl⟩ := heq
  exact ⟨rfl, mem_dedup.mp hm⟩

/-- every payload is carried by the request to its broker -/
theorem groupByNode_covers {α} (xs : List (Int × α)) (x : Int × α) (hx : x ∈ xs) :
    ∃ ps, (x.1, ps) ∈ groupByNode xs ∧ x.2 ∈ ps := by
  refine ⟨(xs.filter (fun y => y.1 == x.1)).map (·.2), ?_, ?_⟩
  · simp only [groupByNode, List.mem_map]
    exact ⟨x.1, mem_dedup.mpr (List.mem_map.mpr ⟨x, hx, rfl⟩), rfl⟩
  · exact List.mem_map.mpr ⟨x, List.mem_filter.mpr ⟨hx, by simp⟩, rfl⟩

theorem groupByNode_nonempty {α} (xs : List (Int × α)) (n : Int) (ps : List α)
    (h : (n, ps) ∈ groupByNode xs) : ps ≠ [] := by
  obtain ⟨rfl, hn⟩ := groupByNode_group xs n ps h
  obtain ⟨x, hx, rfl⟩ := List.mem_map.mp hn
  intro hnil
  have : x.2 ∈ (xs.filter (fun y => y.1 == x.1)).map (·.2) :=
    List.mem_map.mpr ⟨x, List.mem_filter.mpr ⟨hx, by simp⟩, rfl⟩
  rw [hnil] at this; cases this

theorem eq_of_nodup_map {α β} (f : α → β) : ∀ {l : List α}, (l.map f).Nodup → ∀ {a b}, a ∈ l → b ∈ l → f a = f b → a = b
  | [], _, _, _, ha, _, _ => by cases ha
  | x :: l, h, a, b, ha, hb, hab => by
    simp only [List.map_cons, List.nodup_cons, List.mem_map, not_exists, not_and] at h
    rcases List.mem_cons.mp ha with rfl | ha' <;> rcases List.mem_cons.mp hb with rfl | hb'
    · rfl
    · exact absurd hab.symm (h.1 b hb')
    · exact absurd hab (h.1 a ha')
    · exact eq_of_nodup_map f h.2 ha' hb' hab

/-- `resolveAll` pairs every payload index with the node of the leader the cache names for its key -/
theorem resolveAll_spec (c : Cache) : ∀ (keys : List TP) (off : Nat) (r : List (Int × Nat)),
    resolveAll c off keys = .ok r →
    r.map (·.2) = (List.range keys.length).map (· + off) ∧
    ∀ j (hj : j < keys.length), ∃ b, get? keys[j] c.t2b = some (some b) ∧ (b.nodeId, j + off) ∈ r
  | [], off, r, h => by
    simp only [resolveAll, Except.ok.injEq] at h; subst h; simp
  | k :: ks, off, r, h => by
    simp only [resolveAll] at h
    cases hl : leaderOf c off k with
    | error e => simp [hl] at h
    | ok b =>
      simp only [hl] at h
      cases hr : resolveAll c (off + 1) ks with
      | error e => simp [hr] at h
      | ok r' =>
        simp only [hr, Except.ok.injEq] at h; subst h
        obtain ⟨hidx, hlead⟩ := resolveAll_spec c ks (off + 1) r' hr
        have hb : get? k c.t2b = some (some b) := by
          unfold leaderOf at hl
          split at hl <;> simp_all
        constructor
        · simp only [List.map_cons, List.length_cons, hidx]
          rw [List.range_succ_eq_map]
          simp [List.map_map, Function.comp_def, Nat.add_assoc, Nat.add_comm 1]
        · intro j hj
          cases j with
          | zero => exact ⟨b, hb, by simp⟩
          | succ j =>
            obtain ⟨b', hb', hm⟩ := hlead j (by simpa using hj)
            refine ⟨b', by simpa using hb', ?_⟩
            simp only [List.mem_cons]; right
            have : j + (off + 1) = j + 1 + off := by omega
            rw [this] at hm; exact hm

theorem nodup_flatMap_of {α β} (f : α → List β) : ∀ (l : List α), (∀ a ∈ l, (f a).Nodup) →
    l.Pairwise (fun a b => ∀ x, x ∈ f a → x ∉ f b) → (l.flatMap f).Nodup
  | [], _, _ => by simp
  | a :: l, h1, h2 => by
    rw [List.flatMap_cons, List.nodup_append]
    obtain ⟨ha, hl⟩ := List.pairwise_cons.mp h2
    refine ⟨h1 a (by simp), nodup_flatMap_of f l (fun b hb => h1 b (by simp [hb])) hl, ?_⟩
    intro x hx y hy hxy
    obtain ⟨b, hb, hyb⟩ := List.mem_flatMap.mp hy
    exact ha b hb x hx (hxy ▸ hyb)

/-- the requests built from a routing of the payload indices `0..n-1` partition those indices -/
theorem groupByNode_partition (routed : List (Int × Nat)) (n : Nat) (h : routed.map (·.2) = List.range n) :
    ((groupByNode routed).flatMap (·.2)).Nodup ∧ ∀ i, i < n → i ∈ (groupByNode routed).flatMap (·.2) := by
  have hnd : (routed.map (·.2)).Nodup := by rw [h]; exact List.nodup_range
  constructor
  · apply nodup_flatMap_of
    · intro g hg
      obtain ⟨hps, _⟩ := groupByNode_group routed g.1 g.2 hg
      rw [hps]
      exact hnd.sublist (List.Sublist.map _ List.filter_sublist)
    · simp only [groupByNode, List.pairwise_map]
      have hd := dedup_nodup (routed.map (·.1))
      rw [List.nodup_iff_pairwise_ne] at hd
      refine hd.imp ?_
      intro a b hab x hx hx'
      simp only [List.mem_map, List.mem_filter, beq_iff_eq] at hx hx'
      obtain ⟨p, ⟨hp, hpa⟩, rfl⟩ := hx
      obtain ⟨p', ⟨hp', hpb⟩, hpp⟩ := hx'
      have := eq_of_nodup_map (·.2) hnd hp' hp hpp
      rw [this] at hpb
      exact hab (hpa ▸ hpb ▸ rfl)
  · intro i hi
    have : i ∈ routed.map (·.2) := by rw [h]; exact List.mem_range.mpr hi
    obtain ⟨x, hx, rfl⟩ := List.mem_map.mp this
    obtain ⟨ps, hps, hin⟩ := groupByNode_covers routed x hx
    exact List.mem_flatMap.mpr ⟨_, hps, hin⟩

end Afkak.ClientCache
