import AfkakProofs.Client.A_Kept
/-! Live broker clients sit at the address the metadata names for their broker (reachable-state invariant; the rule
    the C07 monitor evaluates on every dump of the real client). -/
namespace Afkak.ClientNet
open Afkak.ClientCache

theorem mergeTopic_clients (c : Cache) (tm : TopicMeta) : (mergeTopic c tm).clients = c.clients := by
  simp only [mergeTopic]
  split <;> rfl

theorem foldl_mergeTopic_clients : ∀ (ts : List (String × TopicMeta)) (c : Cache),
    (ts.foldl (fun c e => mergeTopic c e.2) c).clients = c.clients
  | [], _ => rfl
  | t :: ts, c => by
    simp only [List.foldl_cons]
    rw [foldl_mergeTopic_clients ts, mergeTopic_clients]

theorem resetTopics_clients : ∀ (ts : List String) (c : Cache), (resetTopics c ts).clients = c.clients
  | [], _ => rfl
  | t :: ts, c => by
    simp only [resetTopics, List.foldl_cons]
    exact (resetTopics_clients ts (resetTopic c t)).trans rfl

theorem examineRest_clients (g : Option String) (f : Raised) : ∀ (rs : List (String × Int)) (c : Cache),
    (examineRest g f c rs).1.clients = c.clients
  | [], _ => rfl
  | (t, e) :: rs, c => by
    simp only [examineRest]
    repeat' split
    all_goals (first | rfl | exact examineRest_clients _ f rs _ | exact (examineRest_clients _ f rs _).trans rfl)

theorem afterFirst_clients (g : Option String) (f : Raised) (c : Cache) (rs : List (String × Int)) :
    (afterFirst g f c rs).1.clients = c.clients := by
  unfold afterFirst
  split
  · exact examineRest_clients g f rs c
  · rfl

theorem handleResponses_clients (foe : Bool) (g : Option String) : ∀ (rs : List (String × Int)) (c : Cache),
    (handleResponses c foe g rs).1.clients = c.clients
  | [], _ => rfl
  | (t, e) :: rs, c => by
    simp only [handleResponses]
    repeat' split
    all_goals (first
      | rfl
      | exact handleResponses_clients foe _ rs _
      | exact (handleResponses_clients foe _ rs _).trans rfl
      | exact afterFirst_clients _ _ _ _
      | exact (afterFirst_clients _ _ _ _).trans rfl)


def Follows (c : Cache) : Prop := ∀ cl ∈ c.clients, get? cl.1 c.brokers = some cl.2

theorem Follows.of_eq {c c' : Cache} (h : Follows c) (h1 : c'.brokers = c.brokers) (h2 : c'.clients = c.clients) : Follows c' := by
  intro cl hcl; rw [h2] at hcl; rw [h1]; exact h cl hcl

theorem updateBrokersDict_follows {c : Cache} (h : Follows c) (byId : List (Int × Broker)) (hnd : (byId.map (·.1)).Nodup) (rm : Bool) :
    Follows (updateBrokersDict c byId rm).1 := by
  have key : ∀ cl' ∈ c.clients.map (fun cl => match get? cl.1 byId with | some b => (cl.1, b) | none => cl),
      get? cl'.1 (byId.foldl (fun d e => upsert e.1 e.2 d) c.brokers) = some cl'.2 := by
    intro cl' hcl'
    obtain ⟨cl, hcl, rfl⟩ := List.mem_map.mp hcl'
    rw [get?_foldl_upsert _ _ _ hnd]
    cases hg : get? cl.1 byId with
    | some b => simp [hg]
    | none => simp only [hg]; exact h cl hcl
  unfold updateBrokersDict
  split
  · intro cl' hcl'
    exact key cl' (List.mem_filter.mp hcl').1
  · exact key

theorem setCoord_follows {c : Cache} (h : Follows c) (g : String) (b : Broker) :
    Follows (updateBrokers { c with groups := upsert g b c.groups } [b] false).1 := by
  unfold updateBrokers
  have h1 : Follows { c with groups := upsert g b c.groups } := h.of_eq rfl rfl
  exact updateBrokersDict_follows h1 _ (dictOfList_nodup _) _

theorem getBrokerClient_follows {st st' : St} {n : Int} {b : Nat} {obs : List Ob}
    (h : Follows st.cache) (hg : getBrokerClient st n = .ok (st', b, obs)) : Follows st'.cache := by
  unfold getBrokerClient at hg
  split at hg
  · cases hg
  · split at hg
    · cases hg; exact h
    · split at hg
      · cases hg
      · rename_i bm hbm
        cases hg
        intro cl hcl
        rcases List.mem_append.mp hcl with h1 | h1
        · exact h cl h1
        · rw [List.mem_singleton.mp h1]; exact hbm

theorem issueTo_follows_ok {cfg : Cfg} {st : St} {n : Int} {o : ReqOwner} {e : Bool} {w : ReqWhat} {m : Option Rat} {rj : Bool}
    {i : IssueOk} (h : Follows st.cache) (hi : issueTo cfg st n o e w m rj = .ok i) : Follows i.st.cache := by
  obtain ⟨st1, b, obs1, hg, h1, _, _, _⟩ := issueTo_ok hi
  have := getBrokerClient_follows h hg
  rw [h1]; exact this

theorem issueTo_follows_err {cfg : Cfg} {st : St} {n : Int} {o : ReqOwner} {e : Bool} {w : ReqWhat} {m : Option Rat} {rj : Bool}
    {er : IssueErr} (h : Follows st.cache) (he : issueTo cfg st n o e w m rj = .error er) : Follows er.st.cache := by
  rcases issueTo_err he with ⟨h1, _⟩ | ⟨b, hg⟩
  · rw [h1]; exact h
  · exact getBrokerClient_follows h hg

theorem exec_follows (cfg : Cfg) (st : St) (a : Act) (h : Follows st.cache) : Follows (exec cfg st a).1.cache := by
  cases a
  all_goals simp only [exec]
  all_goals (repeat' split)
  all_goals (try dsimp only)
  all_goals (first
    | exact h
    | exact h.of_eq rfl rfl
    | (rename_i hs; rw [shuffle_cache hs]; exact h)
    | (rw [cloadJoin_cache]; exact h)
    | (rw [reqDone_cache]; exact h)
    | (rename_i he; exact issueTo_follows_err h he)
    | (rename_i hi; exact issueTo_follows_ok h hi)
    | exact updateBrokersDict_follows h _ (dictOfList_nodup _) _
    | exact setCoord_follows (c := st.cache) h _ _
    | exact h.of_eq (foldl_mergeTopic_brokers _ _) (foldl_mergeTopic_clients _ _)
    | exact h.of_eq (handleResponses_brokers _ _ _ _) (handleResponses_clients _ _ _ _))

theorem runActs_follows (cfg : Cfg) : ∀ (fuel : Nat) (st : St) (acts : List Act) (obs : List Ob),
    Follows st.cache → Follows (runActs cfg fuel st acts obs).1.cache
  | 0, _, _, _, h => h
  | _+1, _, [], _, h => h
  | fuel+1, st, a :: rest, obs, h => by
    simp only [runActs]
    exact runActs_follows cfg fuel _ _ _ (exec_follows cfg st a h)

theorem fireDue_follows (cfg : Cfg) : ∀ (n : Nat) (st : St) (obs : List Ob), Follows st.cache → Follows (fireDue cfg n st obs).1.cache
  | 0, _, _, h => h
  | n+1, st, obs, h => by
    simp only [fireDue]
    split
    · exact h
    · split
      · exact h
      · exact fireDue_follows cfg n _ _ (runActs_follows cfg _ _ _ _ h)

theorem resetTopic_follows {c : Cache} (h : Follows c) (t : String) : Follows (resetTopic c t) := h.of_eq rfl rfl

theorem resetTopics_follows : ∀ (ts : List String) {c : Cache}, Follows c → Follows (resetTopics c ts)
  | [], _, h => h
  | t :: ts, c, h => by
    simp only [resetTopics, List.foldl_cons]
    exact resetTopics_follows ts (resetTopic_follows h t)

theorem step_follows (cfg : Cfg) (st : St) (env : Env) (e : Ev) (h : Follows st.cache) : Follows (step cfg st env e).1.cache := by
  cases e
  all_goals simp only [step]
  all_goals (repeat' split)
  all_goals (first
    | exact h
    | exact runActs_follows cfg _ _ _ _ h
    | exact runActs_follows cfg _ _ _ _ (by rw [cloadJoin_cache]; exact h)
    | exact runActs_follows cfg _ _ _ _ (by rw [cancelOp_cache]; exact h)
    | exact runActs_follows cfg _ _ _ _ (fun _ hcl => by cases hcl)
    | exact resetTopics_follows _ h
    | exact fireDue_follows cfg _ _ _ h)

/-- in every reachable state each live broker client sits at the address the metadata names for its node -/
theorem reachable_follows (cfg : Cfg) : ∀ (evs : List (Env × Ev)) (st : St), Follows st.cache →
    Follows (evs.foldl (fun s e => (step cfg s e.1 e.2).1) st).cache
  | [], _, h => h
  | e :: rest, st, h => by
    simp only [List.foldl_cons]
    exact reachable_follows cfg rest _ (step_follows cfg st e.1 e.2 h)

end Afkak.ClientNet
