import Afkak.Murmur
namespace Afkak.Murmur
open Afkak.Consts

theorem and_mask (x : Nat) : x &&& murmurMask32 = x % 2^32 := by
  have : murmurMask32 = 2^32 - 1 := by decide
  rw [this, Nat.and_two_pow_sub_one_eq_mod]

theorem byte_and (b : UInt8) : b.toNat &&& 0xFF = b.toNat := by
  have h : (0xFF:Nat) = 2^8 - 1 := by decide
  rw [h, Nat.and_two_pow_sub_one_eq_mod]
  exact Nat.mod_eq_of_lt b.toNat_lt

theorem jM_toNat : jM.toNat = murmurM := by decide
theorem r_eq : murmurR = 24 := by decide

theorem xor_shr_mod (a n : Nat) (ha : a < 2^32) : (a ^^^ (a >>> n)) % 2^32 = a ^^^ (a >>> n) := by
  apply Nat.mod_eq_of_lt
  apply Nat.xor_lt_two_pow ha
  exact Nat.lt_of_le_of_lt (Nat.shiftRight_le a n) ha

theorem xor_mod (a b : Nat) (ha : a < 2^32) (hb : b < 2^32) : (a ^^^ b) % 2^32 = a ^^^ b :=
  Nat.mod_eq_of_lt (Nat.xor_lt_two_pow ha hb)

theorem kbytes (b0 b1 b2 b3 : UInt8) :
   (((b0.toNat + b1.toNat <<< (UInt32.toNat 8 % 32) % 2 ^ 32) % 2 ^ 32 +
                        b2.toNat <<< (UInt32.toNat 16 % 32) % 2 ^ 32) % 2 ^ 32 +
                    b3.toNat <<< (UInt32.toNat 24 % 32) % 2 ^ 32) % 2 ^ 32
   = (b0.toNat + b1.toNat <<< 8 + b2.toNat <<< 16 + b3.toNat <<< 24) % 2 ^ 32 := by
  have h0 := b0.toNat_lt; have h1 := b1.toNat_lt; have h2 := b2.toNat_lt; have h3 := b3.toNat_lt
  have e8 : UInt32.toNat 8 % 32 = 8 := by decide
  have e16 : UInt32.toNat 16 % 32 = 16 := by decide
  have e24 : UInt32.toNat 24 % 32 = 24 := by decide
  rw [e8, e16, e24]
  simp only [Nat.shiftLeft_eq]
  omega

theorem pyMix_eq (h : UInt32) (b0 b1 b2 b3 : UInt8) :
    pyMix h.toNat b0 b1 b2 b3 = (jMix h b0 b1 b2 b3).toNat := by
  unfold pyMix jMix
  simp only [and_mask, byte_and, UInt32.toNat_mul, UInt32.toNat_xor, UInt32.toNat_add,
    UInt32.toNat_shiftRight, UInt32.toNat_shiftLeft, jM_toNat, UInt8.toNat_toUInt32, kbytes, r_eq]
  have hA : (b0.toNat + b1.toNat <<< 8 + b2.toNat <<< 16 + b3.toNat <<< 24) % 2 ^ 32 * murmurM % 2 ^ 32 < 2^32 :=
    Nat.mod_lt _ (by decide)
  generalize (b0.toNat + b1.toNat <<< 8 + b2.toNat <<< 16 + b3.toNat <<< 24) % 2 ^ 32 * murmurM % 2 ^ 32 = A at hA
  have e24 : UInt32.toNat 24 % 32 = 24 := by decide
  have eA : A % 4294967296 = A := Nat.mod_eq_of_lt hA
  rw [e24, eA, xor_shr_mod A 24 hA]
  exact xor_mod _ _ (Nat.mod_lt _ (by decide)) (Nat.mod_lt _ (by decide))

theorem pyLoop_eq (h : UInt32) (bs : List UInt8) :
    pyLoop h.toNat bs = ((jLoop h bs).1.toNat, (jLoop h bs).2) := by
  fun_induction jLoop h bs with
  | case1 h b0 b1 b2 b3 rest ih => simp only [pyLoop, pyMix_eq, ih]
  | case2 h tail hne =>
    unfold pyLoop
    split
    · exact absurd rfl (hne _ _ _ _ _)
    · rfl

theorem byte_lt32 (b : UInt8) : b.toNat < 2^32 := Nat.lt_trans b.toNat_lt (by decide)
theorem byte_shl8 (b : UInt8) : b.toNat <<< 8 < 2^32 := by
  have := b.toNat_lt; simp only [Nat.shiftLeft_eq]; omega
theorem byte_shl16 (b : UInt8) : b.toNat <<< 16 < 2^32 := by
  have := b.toNat_lt; simp only [Nat.shiftLeft_eq]; omega

theorem pyTail_eq (h : UInt32) (t : List UInt8) : pyTail h.toNat t = (jTail h t).toNat := by
  have e8 : UInt32.toNat 8 % 32 = 8 := by decide
  have e16 : UInt32.toNat 16 % 32 = 16 := by decide
  have hh : h.toNat < 2^32 := h.toNat_lt
  unfold pyTail jTail
  split <;> simp only [and_mask, byte_and, UInt32.toNat_mul, UInt32.toNat_xor,
    UInt32.toNat_shiftLeft, jM_toNat, UInt8.toNat_toUInt32, e8, e16]
  · rename_i t0 t1 t2
    have x1 := Nat.xor_lt_two_pow hh (byte_shl16 t2)
    have x2 := Nat.xor_lt_two_pow x1 (byte_shl8 t1)
    have x3 := Nat.xor_lt_two_pow x2 (byte_lt32 t0)
    rw [Nat.mod_eq_of_lt (byte_shl16 t2), Nat.mod_eq_of_lt (byte_shl8 t1), Nat.mod_eq_of_lt x1,
      Nat.mod_eq_of_lt x2, Nat.mod_eq_of_lt x3]
  · rename_i t0 t1
    have x2 := Nat.xor_lt_two_pow hh (byte_shl8 t1)
    have x3 := Nat.xor_lt_two_pow x2 (byte_lt32 t0)
    rw [Nat.mod_eq_of_lt (byte_shl8 t1), Nat.mod_eq_of_lt x2, Nat.mod_eq_of_lt x3]
  · rename_i t0
    rw [Nat.mod_eq_of_lt (Nat.xor_lt_two_pow hh (byte_lt32 t0))]

theorem pyFinal_eq (h : UInt32) : pyFinal h.toNat = (jFinal h).toNat := by
  have e13 : UInt32.toNat 13 % 32 = 13 := by decide
  have e15 : UInt32.toNat 15 % 32 = 15 := by decide
  have hh : h.toNat < 2^32 := h.toNat_lt
  unfold pyFinal jFinal
  simp only [and_mask, UInt32.toNat_mul, UInt32.toNat_xor, UInt32.toNat_shiftRight, jM_toNat, e13, e15]
  have eh : h.toNat % 4294967296 = h.toNat := Nat.mod_eq_of_lt hh
  rw [eh, xor_shr_mod _ 13 hh]
  have hB : (h.toNat ^^^ h.toNat >>> 13) * murmurM % 2 ^ 32 < 2^32 := Nat.mod_lt _ (by decide)
  generalize (h.toNat ^^^ h.toNat >>> 13) * murmurM % 2 ^ 32 = B at hB
  have eB : B % 4294967296 = B := Nat.mod_eq_of_lt hB
  rw [eB, xor_shr_mod _ 15 hB]

/-- The Python function computes the Java function, for every input a Java array can hold. -/
theorem pureMurmur2_eq_java (bs : List UInt8) (hlen : bs.length < 2^32) :
    pureMurmur2 bs = (murmur2Java bs).toNat := by
  unfold pureMurmur2 murmur2Java
  have hs : murmurSeed ^^^ bs.length = ((0x9747b28c : UInt32) ^^^ UInt32.ofNat bs.length).toNat := by
    rw [UInt32.toNat_xor, UInt32.toNat_ofNat']
    have : bs.length % 2^32 = bs.length := Nat.mod_eq_of_lt hlen
    simp only [this]; rfl
  rw [hs, pyLoop_eq]
  simp only [pyTail_eq, pyFinal_eq]

end Afkak.Murmur
