import Afkak.BrokerClient
import Afkak.Bootstrap
/-!
# Framing × broker client, at the byte level, per connection (core Lean only)

`Afkak/Frame.lean` is `IntNStringReceiver.dataReceived`; `Afkak/BrokerClient.lean` calls it (`feed`) on its own
`_unprocessed` for every `bytesIn chunk`.  This file states what the COMPOSITION owes an outside observer who
only sees raw bytes: for every connection, take ALL the bytes its protocol was handed, in order, as one string;
run the framing loop over that string ONCE, from its start (`parseAll`); then

* a request Deferred that fires `ok b` during a `dataReceived` fires with a packet `b` that this very call
  completed in that whole-stream parse, and whose first bytes are the request's correlation id;
* nothing fires `ok` outside a `dataReceived` of a live connection;
* a stream whose whole-stream parse stops at an over-long prefix has had `loseConnection()` called on it (or the same
  `dataReceived` completed a packet too short to carry an id, whose exception drops the connection), and no byte is
  handed to a connection after it was told to go.

`lstep` is the fold that cuts a recorded trace `(event, observations)` into per-connection logs and checks the
above as it goes (`bad` is sticky).  It never looks at `_unprocessed`, at the request table, or at how the bytes
were chunked.  The driver evaluates `bytesOk` on traces of the real `_KafkaBrokerClient`;
`AfkakProofs/BrokerClient/Bytes.lean` proves it of every trace the C06 monitor accepts, hence of every model trace.
-/
namespace Afkak.BrokerClientBytes
open Afkak.Frame Afkak.BrokerClient Afkak.Consts

/-- the framing loop run once over a whole byte string, from its start -/
def parseAll (data : Bytes) : Out := loop kafkaMaxLength (data.length + 1) data

/-- the `ok` firings among the observations of one step: (serial, correlation id, payload), in order -/
def okFires : List Ob → List (Nat × Int × Bytes)
  | [] => []
  | .fire k i (.ok b) :: os => (k, i, b) :: okFires os
  | _ :: os => okFires os

/-- what one connection saw over its lifetime -/
structure ConnLog where
  conn : Nat
  /-- every byte handed to this connection's protocol, in order, as one string -/
  bytes : Bytes
  /-- every `ok` firing while it was the current connection, in order -/
  oks : List (Nat × Int × Bytes)
  /-- `loseConnection()` was called on its transport, or an exception escaped from `dataReceived` -/
  dropped : Bool
  deriving DecidableEq, Repr

structure LSt where
  /-- finished connections, newest first -/
  done : List ConnLog
  cur : Option ConnLog
  nconn : Nat
  bad : Bool
  deriving DecidableEq, Repr

def LSt.init : LSt := { done := [], cur := none, nconn := 0, bad := false }

def badStep (os : List Ob) : Bool := os.contains .badOp

/-- the packets that appending `chunk` to the stream `sofar` completes, in the whole-stream parse -/
def newFrames (sofar chunk : Bytes) : List Bytes :=
  (parseAll (sofar ++ chunk)).frames.drop (parseAll sofar).frames.length

/-- one of the packets is too short to carry a correlation id: `get_response_correlation_id` raises out of
    `dataReceived` and the reactor drops the connection -/
def anyShort (fs : List Bytes) : Bool := fs.any (fun f => (corrId f).isNone)

/-- is this `dataReceived(chunk)` on the connection logged as `g` in order? -/
def chunkOk (g : ConnLog) (chunk : Bytes) (os : List Ob) : Bool :=
  !g.dropped &&
  (okFires os).all (fun x => (newFrames g.bytes chunk).contains x.2.2 && corrId x.2.2 == some x.2.1) &&
  (!(parseAll (g.bytes ++ chunk)).exceeded || os.contains (.lose g.conn) || anyShort (newFrames g.bytes chunk))

def noteLose (g : ConnLog) (os : List Ob) : ConnLog := { g with dropped := g.dropped || os.contains (.lose g.conn) }

def lstep (l : LSt) : Ev × List Ob → LSt
  | (.connOk, os) =>
    if badStep os then { l with bad := l.bad || !(okFires os).isEmpty }
    else { done := l.cur.toList ++ l.done,
           cur := some { conn := l.nconn, bytes := [], oks := [], dropped := os.contains (.lose l.nconn) },
           nconn := l.nconn + 1, bad := l.bad || !(okFires os).isEmpty }
  | (.bytesIn chunk, os) =>
    if badStep os then { l with bad := l.bad || !(okFires os).isEmpty }
    else match l.cur with
      | none => { l with bad := true }
      | some g =>
        { l with cur := some (noteLose { g with bytes := g.bytes ++ chunk, oks := g.oks ++ okFires os,
                                                 dropped := g.dropped || anyShort (newFrames g.bytes chunk) } os),
                 bad := l.bad || !chunkOk g chunk os }
  | (.lost, os) =>
    if badStep os then { l with bad := l.bad || !(okFires os).isEmpty }
    else { l with done := l.cur.toList ++ l.done, cur := none, bad := l.bad || !(okFires os).isEmpty }
  | (.close, os) =>
    if os.contains .raiseAssert then { l with bad := l.bad || !(okFires os).isEmpty }
    else { l with cur := l.cur.map (fun g => noteLose g os), bad := l.bad || !(okFires os).isEmpty }
  | (.disconnect, os) => { l with cur := l.cur.map (fun g => noteLose g os), bad := l.bad || !(okFires os).isEmpty }
  | (_, os) => { l with bad := l.bad || !(okFires os).isEmpty }

def lrun (l : LSt) : List (Ev × List Ob) → LSt
  | [] => l
  | t :: ts => lrun (lstep l t) ts

/-- the per-connection logs of a trace, oldest first -/
def connLogs (tr : List (Ev × List Ob)) : List ConnLog :=
  let l := lrun LSt.init tr
  (l.cur.toList ++ l.done).reverse

def bytesOk (tr : List (Ev × List Ob)) : Bool := !(lrun LSt.init tr).bad

/-- index of the first step at which the fold turns bad -/
def bytesFirstBad (l : LSt) (n : Nat) : List (Ev × List Ob) → Option Nat
  | [] => none
  | t :: ts => if (lstep l t).bad then some n else bytesFirstBad (lstep l t) (n + 1) ts

/-- what `bytesOk` guarantees of a finished or current log, checked from scratch (used by the theorems, and by the
    driver as a second opinion at the end of a trace) -/
def logOk (g : ConnLog) : Bool :=
  g.oks.all (fun x => (parseAll g.bytes).frames.contains x.2.2 && corrId x.2.2 == some x.2.1) &&
  (!(parseAll g.bytes).exceeded || g.dropped)

/-! ## The same for one `KafkaBootstrapProtocol` connection (one connection: one byte string) -/
namespace Boot
open Afkak.Bootstrap

/-- payloads of the `ok` firings among the observations of one step -/
def okPayloads : List Bootstrap.Ob → List Bytes
  | [] => []
  | .fire _ (.ok b) :: os => b :: okPayloads os
  | _ :: os => okPayloads os

structure BL where
  /-- every byte handed to the protocol so far -/
  bytes : Bytes
  bad : Bool
  deriving DecidableEq, Repr

def BL.init : BL := { bytes := [], bad := false }

/-- every `ok` payload of a `dataReceived` is a packet which that call completed in the parse of ALL the bytes received
    so far, run once from the start; nothing fires `ok` in any other step -/
def bstepL (l : BL) : Bootstrap.Ev × List Bootstrap.Ob → BL
  | (.bytesIn chunk, os) =>
    if os.contains .badOp then { l with bad := l.bad || !(okPayloads os).isEmpty }
    else { bytes := l.bytes ++ chunk,
           bad := l.bad || !(okPayloads os).all (fun b => (newFrames l.bytes chunk).contains b) }
  | (_, os) => { l with bad := l.bad || !(okPayloads os).isEmpty }

def brunL (l : BL) : List (Bootstrap.Ev × List Bootstrap.Ob) → BL
  | [] => l
  | t :: ts => brunL (bstepL l t) ts

def bootBytesOk (tr : List (Bootstrap.Ev × List Bootstrap.Ob)) : Bool := !(brunL BL.init tr).bad

def bootBytesFirstBad (l : BL) (n : Nat) : List (Bootstrap.Ev × List Bootstrap.Ob) → Option Nat
  | [] => none
  | t :: ts => if (bstepL l t).bad then some n else bootBytesFirstBad (bstepL l t) (n + 1) ts

end Boot

end Afkak.BrokerClientBytes
