import Afkak.Generated.BrokerclientConsts
/-!
# Framing: `twisted.protocols.basic.IntNStringReceiver.dataReceived` as used by
`afkak/_protocol.py: _BaseKafkaProtocol(Int32StringReceiver)`

`structFormat = "!I"` (4-byte unsigned big-endian prefix), `MAX_LENGTH` from the extractor.
The `while` loop is modelled as written:

```
alldata = self._unprocessed + data ; currentOffset = 0 ; self._unprocessed = alldata
while len(alldata) >= currentOffset + 4:
    length = unpack("!I", alldata[currentOffset:currentOffset+4])
    if length > MAX_LENGTH: self._unprocessed = alldata; self.lengthLimitExceeded(length); return
    if len(alldata) < currentOffset + 4 + length: break
    packet = alldata[currentOffset+4 : currentOffset+4+length]; currentOffset += 4 + length
    self.stringReceived(packet)
self._unprocessed = alldata[currentOffset:]
```

Core Lean only.
-/
namespace Afkak.Frame
open Afkak.Consts

abbrev Bytes := List UInt8

/-- `struct.unpack("!I", four bytes)` -/
def be32 (a b c d : UInt8) : Nat :=
  ((a.toNat * 256 + b.toNat) * 256 + c.toNat) * 256 + d.toNat

/-- `struct.pack("!I", n)` for `n < 2^32` (the prefix `sendString` writes). -/
def prefix32 (n : Nat) : Bytes :=
  [UInt8.ofNat (n / 16777216 % 256), UInt8.ofNat (n / 65536 % 256), UInt8.ofNat (n / 256 % 256), UInt8.ofNat (n % 256)]

/-- What one run of the `while` loop over `alldata[currentOffset:]` produces. -/
structure Out where
  /-- packets handed to `stringReceived`, in order -/
  frames : List Bytes
  /-- `alldata[currentOffset:]` when the loop stopped -/
  rest : Bytes
  /-- `lengthLimitExceeded` was called (the loop `return`ed) -/
  exceeded : Bool
  deriving Repr, DecidableEq

/-- The loop over `data = alldata[currentOffset:]`.  `fuel` bounds the number of iterations; every
    iteration consumes at least four bytes, so `fuel = data.length + 1` never runs out
    (`loop_fuel_irrelevant` in `AfkakProofs/BrokerClient/Frame.lean`). -/
def loop (maxLen : Nat) : Nat → Bytes → Out
  | fuel + 1, a :: b :: c :: d :: body =>
    let n := be32 a b c d
    if n > maxLen then ⟨[], a :: b :: c :: d :: body, true⟩
    else if body.length < n then ⟨[], a :: b :: c :: d :: body, false⟩
    else
      let o := loop maxLen fuel (body.drop n)
      ⟨body.take n :: o.frames, o.rest, o.exceeded⟩
  | _, data => ⟨[], data, false⟩

/-- Result of one `dataReceived(chunk)` call. -/
structure Fed where
  frames : List Bytes
  /-- new `_unprocessed` -/
  buf : Bytes
  exceeded : Bool
  deriving Repr, DecidableEq

/-- `dataReceived(chunk)` with `_unprocessed = buf`.  As written, when the limit is exceeded the
    WHOLE of `alldata` (including packets already delivered by this call) stays in `_unprocessed`;
    a transport stops reading once `loseConnection` has been called, so this is never re-parsed by
    a real connection (the connection models make `bytesIn` a non-event after `lose`). -/
def feedWith (maxLen : Nat) (buf chunk : Bytes) : Fed :=
  let alldata := buf ++ chunk
  let o := loop maxLen (alldata.length + 1) alldata
  ⟨o.frames, if o.exceeded then alldata else o.rest, o.exceeded⟩

/-- The afkak protocols: `MAX_LENGTH = kafkaMaxLength`. -/
def feed (buf chunk : Bytes) : Fed := feedWith kafkaMaxLength buf chunk

/-- Feed a sequence of chunks, starting from buffer `buf`, as a live transport does: nothing is
    delivered once the limit was exceeded.  Returns all delivered packets. -/
def feedAllWith (maxLen : Nat) (buf : Bytes) : List Bytes → Fed
  | [] => ⟨[], buf, false⟩
  | c :: cs =>
    let f := feedWith maxLen buf c
    if f.exceeded then f
    else
      let g := feedAllWith maxLen f.buf cs
      ⟨f.frames ++ g.frames, g.buf, g.exceeded⟩

def feedAll (buf : Bytes) (chunks : List Bytes) : Fed := feedAllWith kafkaMaxLength buf chunks

/-- What `sendString` puts on the wire for one packet. -/
def encode (f : Bytes) : Bytes := prefix32 f.length ++ f

def encodeAll (fs : List Bytes) : Bytes := fs.flatMap encode

/-- The big-endian integer `relative_unpack(fmt, data, 0)` reads in
    `KafkaCodec.get_response_correlation_id` (width and signedness from the extractor);
    `none` = `BufferUnderflowError` (fewer than `width` bytes). -/
def natBE : Bytes → Nat
  | [] => 0
  | b :: bs => b.toNat * 256 ^ bs.length + natBE bs

def corrIdWith (width : Nat) (signed : Bool) (frame : Bytes) : Option Int :=
  if frame.length < width then none
  else
    let n := natBE (frame.take width)
    if signed && 2 * n ≥ 256 ^ width then some ((n : Int) - (256 ^ width : Nat)) else some (n : Int)

def corrId (frame : Bytes) : Option Int := corrIdWith respCorrIdWidth respCorrIdSigned frame

end Afkak.Frame
