import Afkak.Generated.ClientConsts
/-!
# `KafkaClient` metadata cache and the pure kernels of request routing (`afkak/client.py`)

Python dicts are association lists in insertion order (`upsert` = `d[k] = v`, `erase` = `del d[k]`).
Python exceptions are `none` / an error constructor, never a default value.
The model follows the code as it stands after the fixes b3c000b (F7), 32c5e48 (F16), 7433602
(missing leader); the F7 handler is read from the source (`clientHandleCatchAll`).
-/
namespace Afkak.ClientCache
open Afkak.Consts

/-- `BrokerMetadata(node_id, host, port)` -/
structure Broker where
  nodeId : Int
  host : String
  port : Int
  deriving DecidableEq, Repr, Inhabited

/-- `(topic, partition)` -/
abbrev TP := String × Int

/-! ## dict helpers -/

def get? {κ ν} [BEq κ] (k : κ) : List (κ × ν) → Option ν
  | [] => none
  | (k', v) :: l => if k' == k then some v else get? k l

def hasKey {κ ν} [BEq κ] (k : κ) (l : List (κ × ν)) : Bool := l.any (fun e => e.1 == k)

/-- `d[k] = v`: replaces in place (position kept) or appends. -/
def upsert {κ ν} [BEq κ] (k : κ) (v : ν) (l : List (κ × ν)) : List (κ × ν) :=
  if hasKey k l then l.map (fun e => if e.1 == k then (k, v) else e) else l ++ [(k, v)]

def erase {κ ν} [BEq κ] (k : κ) (l : List (κ × ν)) : List (κ × ν) := l.filter (fun e => !(e.1 == k))

/-- `dict(pairs)` / a dict built by successive assignment: first position, last value. -/
def dictOfList {κ ν} [BEq κ] (l : List (κ × ν)) : List (κ × ν) := l.foldl (fun d e => upsert e.1 e.2 d) []

/-- `sorted(ints)` (structural insertion sort). -/
def insertInt (a : Int) : List Int → List Int
  | [] => [a]
  | b :: l => if a ≤ b then a :: b :: l else b :: insertInt a l

def sortInts : List Int → List Int
  | [] => []
  | a :: l => insertInt a (sortInts l)

/-! ## the cache -/

/-- one partition of a metadata response (`PartitionMetadata`; replicas/isr are not modelled) -/
structure PartMeta where
  err : Int
  part : Int
  leader : Int
  deriving DecidableEq, Repr

/-- one topic of a metadata response, partitions in wire order -/
structure TopicMeta where
  name : String
  err : Int
  parts : List PartMeta
  deriving DecidableEq, Repr

structure Cache where
  /-- `_brokers`: node id ↦ BrokerMetadata, insertion order (never pruned) -/
  brokers : List (Int × Broker) := []
  /-- `clients`: node id ↦ the address the broker client currently holds (`updateMetadata`) -/
  clients : List (Int × Broker) := []
  /-- `topics_to_brokers` -/
  t2b : List (TP × Option Broker) := []
  /-- `topic_partitions` -/
  topicParts : List (String × List Int) := []
  /-- `topic_errors` -/
  topicErrs : List (String × Int) := []
  /-- `partition_meta` (never pruned) -/
  partMeta : List (TP × PartMeta) := []
  /-- `_group_to_coordinator` -/
  groups : List (String × Broker) := []
  deriving Repr, DecidableEq

/-- `reset_topic_metadata(topic)` for one topic: delete the routing entry of every partition listed in
    `topic_partitions[topic]`, the list itself, and the topic error. -/
def resetTopic (c : Cache) (topic : String) : Cache :=
  { c with
    t2b := c.t2b.filter (fun e =>
      !(e.1.1 == topic && c.topicParts.any (fun tp => tp.1 == topic && tp.2.contains e.1.2)))
    topicParts := erase topic c.topicParts
    topicErrs := erase topic c.topicErrs }

def resetTopics (c : Cache) (topics : List String) : Cache := topics.foldl resetTopic c

/-- `reset_consumer_group_metadata(group)` -/
def resetGroup (c : Cache) (group : String) : Cache := { c with groups := erase group c.groups }

/-- `reset_all_metadata()` -/
def resetAll (c : Cache) : Cache :=
  { c with t2b := [], topicParts := [], topicErrs := [], groups := [],
           partMeta := if clientResetAllClearsPartMeta then [] else c.partMeta }

/-- `_update_brokers` with `brokers_by_id` already built.  Returns the new cache and the broker
    clients popped from `clients` and handed to `_close_brokerclients` (set order in Python: compared sorted). -/
def updateBrokersDict (c : Cache) (byId : List (Int × Broker)) (remove : Bool) : Cache × List Int :=
  let brokers' := byId.foldl (fun d e => upsert e.1 e.2 d) c.brokers
  let clients' := c.clients.map (fun cl => match get? cl.1 byId with | some b => (cl.1, b) | none => cl)
  if remove then
    ({ c with brokers := brokers', clients := clients'.filter (fun cl => hasKey cl.1 byId) },
     (clients'.filter (fun cl => !hasKey cl.1 byId)).map (·.1))
  else ({ c with brokers := brokers', clients := clients' }, [])

/-- `_update_brokers(brokers, remove)`: `brokers_by_id = {bm.node_id: bm for bm in brokers}` -/
def updateBrokers (c : Cache) (bs : List Broker) (remove : Bool) : Cache × List Int :=
  updateBrokersDict c (dictOfList (bs.map (fun b => (b.nodeId, b)))) remove

/-- the body of the `for topic, topic_metadata in topics.items()` loop of `_merge_topic_metadata` -/
def mergeTopic (c : Cache) (tm : TopicMeta) : Cache :=
  let c1 := resetTopic c tm.name
  let c2 := { c1 with topicErrs := upsert tm.name tm.err c1.topicErrs }
  let parts := dictOfList (tm.parts.map (fun p => (p.part, p)))
  if parts.isEmpty then c2 else
  { c2 with
    topicParts := upsert tm.name (sortInts (parts.map (·.1))) c2.topicParts
    partMeta := parts.foldl (fun d e => upsert (tm.name, e.1) e.2 d) c2.partMeta
    t2b := parts.foldl (fun d e =>
      upsert (tm.name, e.1) (if e.2.leader == -1 then none else get? e.2.leader c2.brokers) d) c2.t2b }

/-- `_merge_topic_metadata(brokers, topics, fetched_all_topics)`; the arguments are the decoded
    response in wire order (the decoder's dicts are rebuilt here). -/
def mergeTopicMetadata (c : Cache) (bs : List Broker) (topics : List TopicMeta) (fetchedAll : Bool) :
    Cache × List Int :=
  let byId := dictOfList (bs.map (fun b => (b.nodeId, b)))
  let (c1, closed) := updateBrokersDict c byId (fetchedAll && !byId.isEmpty)
  let tdict := dictOfList (topics.map (fun t => (t.name, t)))
  (tdict.foldl (fun c e => mergeTopic c e.2) c1, closed)

/-- `load_coordinator_for_group` success: cache the coordinator and `_update_brokers([bm])` -/
def setCoordinator (c : Cache) (group : String) (b : Broker) : Cache :=
  (updateBrokers { c with groups := upsert group b c.groups } [b] false).1

/-- `_get_brokerclient(node_id)` on an open client: `none` is the `KeyError` of `_brokers[node_id]`. -/
def getBrokerClient (c : Cache) (node : Int) : Option Cache :=
  if hasKey node c.clients then some c else
  match get? node c.brokers with
  | some b => some { c with clients := c.clients ++ [(node, b)] }
  | none => none

/-! ## `_handle_responses` -/

/-- what `_handle_responses` raises -/
inductive Raised where
  /-- the `BrokerResponseError` subclass for this errno -/
  | errno (e : Int)
  /-- `reset_consumer_group_metadata(None)`: `_coerce_consumer_group` raises `TypeError` -/
  | typeError
  deriving DecidableEq, Repr

/-- The rest of a `_handle_responses` pass once the first error is remembered (`fail_on_error=True`, fix
    55f24eb): the remaining responses are still examined - each stale-routing answer resets - and then
    `first` is raised.  (A `TypeError` of `reset_consumer_group_metadata(None)`, or - without the catch-all
    handler - an error code no handler names, still propagates at once.) -/
def examineRest (group : Option String) (first : Raised) : Cache → List (String × Int) → Cache × Option Raised
  | c, [] => (c, some first)
  | c, (topic, err) :: rest =>
    if err == 0 then examineRest group first c rest
    else if clientTopicResetErrnos.contains err then examineRest group first (resetTopic c topic) rest
    else if clientGroupResetErrnos.contains err then
      match group with
      | none => (c, some .typeError)
      | some g => examineRest group first (resetGroup c g) rest
    else if !clientHandleCatchAll then (c, some (.errno err))
    else examineRest group first c rest

/-- what happens after the first error with `fail_on_error=True`: read from the source
    (`clientHandleExaminesAll`): examine the rest, or (before 55f24eb) raise at once -/
def afterFirst (group : Option String) (first : Raised) (c : Cache) (rest : List (String × Int)) : Cache × Option Raised :=
  if clientHandleExaminesAll then examineRest group first c rest else (c, some first)

/-- What `_handle_responses` does for the responses in order: what is raised (if anything) and the
    cache after the resets performed. `(topic, error)` per response. -/
def handleResponses (c : Cache) (failOnError : Bool) (group : Option String) :
    List (String × Int) → Cache × Option Raised
  | [] => (c, none)
  | (topic, err) :: rest =>
    if err == 0 then handleResponses c failOnError group rest
    else if clientTopicResetErrnos.contains err then
      let c' := resetTopic c topic
      if failOnError then afterFirst group (.errno err) c' rest else handleResponses c' failOnError group rest
    else if clientGroupResetErrnos.contains err then
      match group with
      | none => (c, some .typeError)
      | some g =>
        let c' := resetGroup c g
        if failOnError then afterFirst group (.errno err) c' rest else handleResponses c' failOnError group rest
    else if failOnError || !clientHandleCatchAll then
      (if clientHandleCatchAll then afterFirst group (.errno err) c rest else (c, some (.errno err)))
    else handleResponses c failOnError group rest

/-! ## routing kernels of `_send_broker_aware_request` -/

inductive RouteErr where
  | partitionUnavailable (idx : Nat)
  | leaderUnavailable (idx : Nat)
  | coordinatorNotAvailable
  deriving DecidableEq, Repr

/-- first-occurrence de-duplication (dict key order of `payloads_by_broker`) -/
def dedup {α} [BEq α] : List α → List α
  | [] => []
  | a :: l => a :: (dedup l).filter (fun b => !(b == a))

/-- `payloads_by_broker` (a `defaultdict(list)` keyed by leader node id): brokers in first-seen order,
    each with its payloads in payload order. -/
def groupByNode {α} (xs : List (Int × α)) : List (Int × List α) :=
  (dedup (xs.map (·.1))).map (fun n => (n, (xs.filter (fun x => x.1 == n)).map (·.2)))

/-- leader lookup of one payload with the metadata already loaded (`_get_leader_for_partition`
    after its reload): missing key ⇒ PartitionUnavailableError, `None` ⇒ LeaderUnavailableError. -/
def leaderOf (c : Cache) (idx : Nat) (k : TP) : Except RouteErr Broker :=
  match get? k c.t2b with
  | none => .error (.partitionUnavailable idx)
  | some none => .error (.leaderUnavailable idx)
  | some (some b) => .ok b

def resolveAll (c : Cache) : Nat → List TP → Except RouteErr (List (Int × Nat))
  | _, [] => .ok []
  | i, k :: ks => match leaderOf c i k with
    | .error e => .error e
    | .ok b => match resolveAll c (i+1) ks with
      | .error e => .error e
      | .ok r => .ok ((b.nodeId, i) :: r)

/-- `route cache keys group`: with every key resolvable from the cache, the broker requests issued —
    `(node id, payload indices)` in issue order.  With a group, every payload goes to the coordinator. -/
def route (c : Cache) (keys : List TP) (group : Option String) : Except RouteErr (List (Int × List Nat)) :=
  match group with
  | none => (resolveAll c 0 keys).map groupByNode
  | some g => match get? g c.groups with
    | none => .error .coordinatorNotAvailable
    | some b => .ok (groupByNode ((List.range keys.length).map (fun i => (b.nodeId, i))))

/-- one decoded response object: its key, its error code and an opaque identity (the harness numbers them) -/
structure Resp where
  key : TP
  tag : Int
  err : Int := 0
  deriving DecidableEq, Repr

/-- outcome of one broker request of a send; `φ` is the failure description -/
inductive BrokerResult (φ : Type) where
  | ok (rs : List Resp)
  | fail (kind : φ)
  deriving DecidableEq, Repr

/-- `acc`: the decoded responses of the successful requests in `inFlight` order; `acc[k]` is the last. -/
def accOf {φ} (results : List (List Nat × BrokerResult φ)) : List Resp :=
  results.flatMap (fun r => match r.2 with | .ok rs => rs | .fail _ => [])

def accGet (acc : List Resp) (k : TP) : Option Resp := (acc.filter (fun r => r.key == k)).getLast?

/-- `failed_payloads`: every payload (index) of every failed request, with the failure -/
def failedOf {φ} (results : List (List Nat × BrokerResult φ)) : List (Nat × φ) :=
  results.flatMap (fun r => match r.2 with | .ok _ => [] | .fail k => r.1.map (fun i => (i, k)))

/-- `[acc[k] for k in original_keys if k in acc] if acc else []` -/
def responsesOf (keys : List TP) (acc : List Resp) : List Resp := keys.filterMap (accGet acc)

/-- tail of `_send_broker_aware_request`: `(responses, failed_payloads)`; the call raises
    `FailedPayloadsError` (after `reset_all_metadata`) iff `failed_payloads` is non-empty. -/
def assemble {φ} (keys : List TP) (results : List (List Nat × BrokerResult φ)) : List Resp × List (Nat × φ) :=
  (responsesOf keys (accOf results), failedOf results)

/-! ## `_normalize_hosts` -/

def pyStrip (s : String) : String :=
  let ws : Char → Bool := fun c => c == ' ' || c == '\t' || c == '\n' || c == '\r' || c == '\x0b' || c == '\x0c'
  String.ofList ((s.toList.dropWhile ws).reverse.dropWhile ws).reverse

/-- `int(s)` for the inputs the harness generates: optional sign, ASCII digits (after `strip`).
    Anything else is `ValueError` (`none`). -/
def pyInt (s : String) : Option Int :=
  let cs := (pyStrip s).toList
  let (neg, ds) := match cs with
    | '-' :: r => (true, r)
    | '+' :: r => (false, r)
    | r => (false, r)
  if ds.isEmpty || !ds.all Char.isDigit then none
  else
    let n : Nat := ds.foldl (fun a c => a * 10 + (c.toNat - '0'.toNat)) 0
    some (if neg then -(n : Int) else n)

/-- one element of the `hosts` sequence: a `"host[:port]"` string or a `(host, port)` tuple -/
inductive HostSpec where
  | str (s : String)
  | tup (host : String) (port : String)
  deriving Repr, DecidableEq

/-- `str.split(c)` on characters (structural, so it evaluates in the kernel) -/
def splitOnChar (c : Char) : List Char → List (List Char)
  | [] => [[]]
  | x :: xs =>
    if x == c then [] :: splitOnChar c xs
    else match splitOnChar c xs with
      | [] => [[x]]
      | h :: t => (x :: h) :: t

def pySplit (c : Char) (s : String) : List String := (splitOnChar c s.toList).map String.ofList

def parseHost : HostSpec → Option (String × Int)
  | .str s =>
    match pySplit ':' s with
    | [] => none
    | [h] => some (pyStrip h, clientDefaultKafkaPort)
    | h :: p :: _ => (pyInt p).map (fun n => (pyStrip h, n))
  | .tup h p => (pyInt p).map (fun n => (h, n))

def hpLt (a b : String × Int) : Bool := a.1 < b.1 || (a.1 == b.1 && a.2 < b.2)

/-- insert into a strictly ascending list, dropping duplicates (`sorted(set(...))`) -/
def insertHP (a : String × Int) : List (String × Int) → List (String × Int)
  | [] => [a]
  | b :: l => if hpLt a b then a :: b :: l else if a == b then b :: l else b :: insertHP a l

def sortHP : List (String × Int) → List (String × Int)
  | [] => []
  | a :: l => insertHP a (sortHP l)

/-- `_normalize_hosts(hosts)` with `hosts` already split at `,` when it was a string -/
def normalizeHosts (hs : List HostSpec) : Option (List (String × Int)) :=
  (hs.mapM parseHost).map sortHP

end Afkak.ClientCache
