import Afkak.Generated.GroupConsts
/-!
# Group membership (`afkak/_group.py`: `Coordinator` + `ConsumerGroup`)

The model follows the code statement by statement, against the client INTERFACE: every client call
(`_get_coordinator_for_group`, `load_metadata_for_topics`, `_send_request_to_coordinator` for
join / sync / heartbeat / leave, `_load_topic_partitions`) is an output observation, its completion an
input event carrying `ok …` or an error kind `GErr` (the classification the code makes; the tables
`rejoinRow`, `coordFailRow`, `escapeRejoins` are generated from the source's if-chains).  Partition
consumers are records (topic, partition, generation, member, phase); their shutdown completion and
their errors are environment events (the guarantee side of the consumer properties).

`inlineCallbacks` coroutines are explicit continuation states: `JPc` for `_join_and_sync`
(`_rejoin_d`), `StopCo` for each `ConsumerGroup.stop` waiting for its consumers, `leaveWait` for the
`Coordinator.stop` waiting for the LeaveGroup reply.  Cancel outcomes are the real client's
(harness/lib/client_iface.md): a cancelled coordinator request fails with Twisted's `CancelledError`,
a cancelled `load_metadata_for_topics` SUCCEEDS with `None`, a cancelled coordinator look-up fails
with `CancelledError`, a cancelled `_load_topic_partitions` fails with a `KafkaError` — or, when the client call is sleeping
before a retry, with `CancelledError` (`Cfg.partsCancelSleeping`).

Twisted facts used: a `DelayedCall` object is truthy after it fired or was cancelled
(`_rejoin_wait_dc` is a reference, not an "active" flag); cancelling an `inlineCallbacks` Deferred
cancels what it waits on and the generator continues with what that yields; `DeferredList(
fireOnOneErrback, consumeErrors)` fails on the first failure and swallows the rest; `LoopingCall`
(`start(now=False)`, `reset`, `stop`, tick times `start + k·interval`).
-/
namespace Afkak.Group
open Afkak.Consts

structure Cfg where
  initialBackoffMs : Nat
  retryBackoffMs : Nat
  fatalBackoffMs : Nat
  heartbeatMs : Nat
  /-- environment: when the group cancels `_load_topic_partitions` the client call is sleeping
      before a retry (the cancellation then surfaces as Twisted's CancelledError) rather than
      waiting for its metadata request (KafkaError).  A member is stopped at most once, so one
      choice per run covers every history. -/
  partsCancelSleeping : Bool := false
  deriving Repr, DecidableEq

def Cfg.default : Cfg :=
  { initialBackoffMs := groupInitialBackoffMs, retryBackoffMs := groupRetryBackoffMs,
    fatalBackoffMs := groupFatalBackoffMs, heartbeatMs := groupHeartbeatIntervalMs }

/-- `x_ms / 1000.0` -/
def secs (ms : Nat) : Rat := (ms : Rat) / (groupMsPerSecond : Rat)

inductive Phase where | running | draining | stopped
  deriving DecidableEq, Repr

/-- What the environment can make a consumer's `shutdown()` do (the handlers in
    `shutdown_consumers` exist for both): raise synchronously, or return an already failed Deferred
    (what the real `Consumer.shutdown` does when it is shutting down already; a consumer that is
    not running any more is skipped by `shutdown_consumers` and is outside this model's alphabet). -/
inductive Quirk where | none | shutdownRaises | shutdownFails
  deriving DecidableEq, Repr

/-- One partition consumer created by `on_join_complete`. `held` = it is in `self.consumers`;
    `startFired` = the Deferred returned by its `start()` has fired. -/
structure Con where
  cid : Nat
  topic : Nat
  part : Int
  gen : Option Int
  member : Nat
  phase : Phase
  held : Bool
  startFired : Bool
  quirk : Quirk := .none
  deriving DecidableEq, Repr

inductive TKind where | rejoin | retry | hb
  deriving DecidableEq, Repr

/-- An active `DelayedCall` on the injected reactor. -/
structure Timer where
  id : Nat
  due : Rat
  kind : TKind
  deriving DecidableEq, Repr

/-- Where the `_join_and_sync` coroutine is suspended. -/
inductive JPc where
  | idle | coordLookup | metaLoad | prepare | hang | join | loadParts (n : Nat) | sync
  deriving DecidableEq, Repr

/-- One `shutdown_consumers()` in progress: `batch` = `current_consumers`, `pending` = the
    shutdown Deferreds in the `DeferredList` that have not fired. -/
structure Drain where
  batch : List Nat
  pending : List Nat
  deriving DecidableEq, Repr

/-- A `ConsumerGroup.stop(errback_result)` coroutine waiting in its `shutdown_consumers()`. -/
structure StopCo where
  drain : Drain
  err : Option GErr
  user : Bool
  deriving DecidableEq, Repr

structure St where
  now : Rat := 0
  started : Bool := false            -- `_start_d is not None`
  startResult : Option (Option GErr) := none   -- how the Deferred of the latest `start()` fired
  stopping : Bool := false
  rejoinNeeded : Bool := true
  rejoinD : Bool := false            -- `_rejoin_d` truthy
  jpc : JPc := .idle
  prep : Drain := ⟨[], []⟩           -- the drain of `on_join_prepare` (meaningful when jpc = prepare)
  rejoinWaitDc : Option Nat := none  -- `_rejoin_wait_dc` (reference to a DelayedCall, maybe inactive)
  member : Nat := 0                  -- 0 is the empty member id
  gen : Option Int := none
  coordBroker : Bool := false        -- `coordinator_broker is not None`
  hbRunning : Bool := false          -- `_heartbeat_looper.running`
  hbStart : Rat := 0                 -- looper `starttime`
  hbInFlight : Bool := false         -- `_heartbeat_request_d`
  timers : List Timer := []
  nextTimer : Nat := 0
  cons : List Con := []
  nextCid : Nat := 0
  asg : List (Nat × Int) := []       -- the assignment of the last successful sync
  stops : List StopCo := []
  leaveWait : Option (Option GErr × Bool) := none   -- `Coordinator.stop` awaiting the leave reply
  stopDraining : Bool := false       -- `ConsumerGroup._stop_draining`: stop() is shutting the consumers down
  deriving Repr

inductive CoordRes where | ok | none | err (e : GErr)
  deriving DecidableEq, Repr
inductive Res where | ok | err (e : GErr)
  deriving DecidableEq, Repr
inductive JoinRes where
  | ok (member : Nat) (gen : Int) (leader : Bool) (nMembers : Nat)
  | err (e : GErr)
  deriving DecidableEq, Repr
inductive SyncRes where
  | ok (asg : List (Nat × List Int))
  | err (e : GErr)
  deriving DecidableEq, Repr

inductive Ev where
  | start | stop
  | coordDone (r : CoordRes)
  | metaDone (r : Res)
  | joinDone (r : JoinRes)
  | partsDone (r : Res)
  | syncDone (r : SyncRes)
  | hbDone (r : Res)
  | leaveDone (r : Res)
  | consumerDown (cid : Nat) (ok : Bool)
  | consumerErr (cid : Nat) (e : GErr)
  | consumerQuirk (cid : Nat) (q : Quirk)
  | fire (id : Nat) (hbNext : Option Rat)   -- `hbNext`: what `LoopingCall._scheduleFrom` computed (floats), when recorded
  | advance (dt : Rat)
  deriving DecidableEq, Repr

inductive ReqKind where | coordR | metaR | joinR | partsR | syncR | hbR
  deriving DecidableEq, Repr

inductive Ob where
  | coordLookup | loadMeta
  | join (member : Nat)
  | loadParts
  | sync (gen : Option Int) (member : Nat) (n : Nat)
  | heartbeat (gen : Option Int) (member : Nat)
  | leave (member : Nat)
  | resetGroupMeta
  | consumerStart (cid topic : Nat) (part : Int) (gen : Option Int) (member : Nat) (offset : Int)
  | consumerShutdown (cid : Nat)
  | consumerStop (cid : Nat)
  | startFired (r : Option GErr)
  | stopFired (restop : Bool)
  | setTimer (id : Nat) (kind : TKind) (delay : Rat)
  | cancelTimer (id : Nat)
  | cancelReq (k : ReqKind)
  | raised (what : String)
  | badOp
  deriving DecidableEq, Repr

abbrev Out := St × List Ob

/-- sequencing of effects -/
@[inline] def andThen (o : Out) (f : St → Out) : Out :=
  let r := f o.1
  (r.1, o.2 ++ r.2)

/-! ## Consumers -/

def heldCids (s : St) : List Nat := (s.cons.filter (·.held)).map (·.cid)

/-- `consumer.stop()` for every consumer of `cids` whose `_start_d` is set (phase ≠ stopped). -/
def stopCons (s : St) (cids : List Nat) : Out :=
  let hit := fun (c : Con) => cids.contains c.cid && c.phase != .stopped
  ({ s with cons := s.cons.map fun c => if hit c then { c with phase := .stopped, held := false, startFired := true } else c },
   (s.cons.filter hit).map fun c => .consumerStop c.cid)

/-- `stop_consumers()` (`on_group_leave`) -/
def stopConsumers (s : St) : Out := stopCons s (heldCids s)

/-- the loop of `shutdown_consumers()` up to the `DeferredList`: `consumer.shutdown()` for every
    held consumer, in order.  A `shutdown()` that raises is answered with `consumer.stop()` at once
    and its consumer is not waited for; returns the drain (`batch` = all of `current_consumers`,
    `pending` = the shutdown Deferreds collected). -/
def beginDrain (s : St) : St × List Ob × Drain :=
  let heldC := s.cons.filter (·.held)
  ({ s with cons := s.cons.map fun c =>
      if c.held then
        (if c.quirk = .shutdownRaises then { c with phase := .stopped, held := false, startFired := true }
         else { c with phase := .draining, held := false })
      else c },
   heldC.flatMap (fun c => if c.quirk = .shutdownRaises then [.consumerShutdown c.cid, .consumerStop c.cid] else [.consumerShutdown c.cid]),
   ⟨heldC.map (·.cid), (heldC.filter (fun c => c.quirk != .shutdownRaises)).map (·.cid)⟩)

/-- one of the collected shutdown Deferreds has failed already: the `DeferredList` fails at once -/
def drainFails (s : St) : Bool := s.cons.any fun c => c.held && c.quirk == .shutdownFails

/-- a `shutdown_consumers()` finished (all shutdown Deferreds fired, or the first failure):
    on failure every consumer of the batch that is still running is stopped. -/
def drainDone (s : St) (d : Drain) (ok : Bool) : Out :=
  if ok then (s, []) else stopCons s d.batch

/-! ## Timers -/

def addTimer (s : St) (kind : TKind) (delay : Rat) : Out :=
  ({ s with timers := s.timers ++ [⟨s.nextTimer, s.now + delay, kind⟩], nextTimer := s.nextTimer + 1 },
   [.setTimer s.nextTimer kind delay])

def cancelTimer (s : St) (id : Nat) : Out :=
  ({ s with timers := s.timers.filter (·.id != id) }, [.cancelTimer id])

def timerActive (s : St) (id : Nat) : Bool := s.timers.any (·.id == id)

/-- `LoopingCall._scheduleFrom(now)` -/
def hbDelay (cfg : Cfg) (s : St) : Rat :=
  let iv := secs cfg.heartbeatMs
  if iv = 0 then 0 else
  let runningFor := s.now - s.hbStart
  iv - (runningFor - iv * (((runningFor / iv).floor : Int) : Rat))

def hbSchedule (cfg : Cfg) (s : St) : Out := addTimer s .hb (hbDelay cfg s)

/-- `_join_group_success`: a heartbeat that is still unanswered was sent with the previous member id
    and generation; it is cancelled and `_handle_heartbeat_failure` ignores the CancelledError of a
    request it no longer waits for -/
def abandonHb (s : St) : Out :=
  if s.hbInFlight then ({ s with hbInFlight := false }, [.cancelReq .hbR]) else (s, [])

/-- `_heartbeat_looper.stop()` : cancels the pending call -/
def hbStop (s : St) : Out :=
  let ids := (s.timers.filter (·.kind == .hb)).map (·.id)
  ({ s with hbRunning := false, timers := s.timers.filter (·.kind != .hb) }, ids.map .cancelTimer)

/-- `reset_heartbeat_timer()` -/
def resetHeartbeat (cfg : Cfg) (s : St) : Out :=
  if s.hbRunning then
    -- LoopingCall.reset(): cancel the call, starttime = now, schedule
    let ids := (s.timers.filter (·.kind == .hb)).map (·.id)
    let s1 := { s with timers := s.timers.filter (·.kind != .hb), hbStart := s.now }
    andThen (s1, ids.map .cancelTimer) (hbSchedule cfg)
  else
    hbSchedule cfg { s with hbRunning := true, hbStart := s.now }

/-! ## `rejoin_after_error` without its `self.stop(...)` (returned as a flag) -/

/-- the side effects of a table row: `on_group_leave()`, `reset_consumer_group_metadata`, `member_id = ""` -/
def rowEffects (s : St) (row : RejoinRow) : Out :=
  let o1 : Out := if row.leave then stopConsumers s else (s, [])
  let o2 : Out := andThen o1 fun s => (s, if row.resetMeta then [.resetGroupMeta] else [])
  andThen o2 fun s => (if row.clearMember then { s with member := 0 } else s, [])

/-- the tail of `rejoin_after_error`: `_rejoin_needed = True`; a timer unless `_rejoin_wait_dc` is set -/
def scheduleRejoin (cfg : Cfg) (s : St) (fatalDelay : Bool) : Out :=
  let s := { s with rejoinNeeded := true }
  if s.rejoinWaitDc.isNone then
    andThen (addTimer s .rejoin (secs (if fatalDelay then cfg.fatalBackoffMs else cfg.retryBackoffMs)))
      fun s' => ({ s' with rejoinWaitDc := some s.nextTimer }, [])
  else (s, [])

def rejoinWith (cfg : Cfg) (s : St) (row : RejoinRow) : Out × Bool :=
  match row.act with
  | .ignore => ((s, []), false)
  | .fatal => (stopConsumers s, true)           -- on_group_leave(); then self.stop(errback_result)
  | .effectsOnly => (rowEffects s row, false)
  | .rejoin => (andThen (rowEffects s row) fun s => scheduleRejoin cfg s row.fatalDelay, false)

def rejoinCore (cfg : Cfg) (s : St) (e : GErr) : Out × Bool := rejoinWith cfg s (rejoinRow s.stopping e)

/-- an error escaped `_join_and_sync`: `cleanup_rejoin_d`, then `rejoin_d_errback`; the nested
    `self.stop` of a fatal row is returned as a flag. -/
def escapeCore (cfg : Cfg) (s : St) (e : GErr) : Out × Bool :=
  let s := { s with jpc := .idle, rejoinD := false }
  if escapeRejoins e then rejoinCore cfg s e else ((s, []), false)

/-! ## `Coordinator.stop` -/

/-- `if self._rejoin_d: d.cancel()` in `Coordinator.stop`: the join coroutine is cancelled where it
    waits; the outcome is what the real client produces for that request. -/
def cancelJoin (cfg : Cfg) (s : St) : Out :=
  if s.rejoinD then
    let s := { s with rejoinD := false }
    match s.jpc with
    | .idle => (s, [])
    | .coordLookup =>
      -- cancelled look-up fails with CancelledError -> `_get_coordinator_failed`
      andThen (s, [.cancelReq .coordR]) fun s =>
        match coordFailRow .cancelled with
        | .propagate => (escapeCore cfg s .cancelled).1
        | .retryInitial => andThen (addTimer s .retry (secs cfg.initialBackoffMs)) fun s => ({ s with jpc := .idle }, [])
        | .retryFatal => andThen (addTimer s .retry (secs cfg.fatalBackoffMs)) fun s => ({ s with jpc := .idle }, [])
    | .metaLoad =>
      -- cancelled load_metadata_for_topics succeeds with None; `_stopping` -> return
      ({ s with jpc := .idle }, [.cancelReq .metaR])
    | .prepare =>
      -- DeferredList cancelled -> FirstError -> stop every consumer of the batch; `_stopping` -> return
      andThen (stopCons s s.prep.batch) fun s => ({ s with jpc := .idle, prep := ⟨[], []⟩ }, [])
    | .hang =>
      -- the bare Deferred of `on_join_prepare` is cancelled: CancelledError escapes, only logged
      ({ s with jpc := .idle }, [])
    | .join =>
      andThen ({ s with jpc := .idle }, [.cancelReq .joinR]) fun s => (rejoinCore cfg s .cancelled).1
    | .loadParts _ =>
      andThen (s, [.cancelReq .partsR]) fun s =>
        (escapeCore cfg s (if cfg.partsCancelSleeping then .cancelled else .kafkaUnavailable)).1
    | .sync =>
      andThen ({ s with jpc := .idle }, [.cancelReq .syncR]) fun s => (rejoinCore cfg s .cancelled).1
  else (s, [])

/-- The tail of `Coordinator.stop` after the leave: cancel `_rejoin_d`, reset, fire `start`'s
    Deferred.  `_stopping` is true here, so a nested `self.stop` (fatal row) raises `RestopError`
    inside an unobserved Deferred: the flag of `rejoinCore` is dropped. -/
def finishStop (cfg : Cfg) (s : St) (err : Option GErr) (user : Bool) : Out :=
  andThen (cancelJoin cfg s) fun s =>
    let s := { s with member := 0, gen := none, coordBroker := false, started := false, leaveWait := none }
    let fire : List Ob := if s.startResult.isNone then [.startFired err] else []
    ({ s with startResult := if s.startResult.isNone then some err else s.startResult },
     fire ++ (if user then [.stopFired false] else []))

/-- `if self._rejoin_wait_dc: self._rejoin_wait_dc.cancel()` -/
def stopCancelDc (s : St) : Out :=
  match s.rejoinWaitDc with
  | some id => cancelTimer s id
  | none => (s, [])

/-- `if self._heartbeat_request_d: self._heartbeat_request_d.cancel()`: the request fails with
    CancelledError -> `_handle_heartbeat_failure` -/
def stopCancelHb (cfg : Cfg) (s : St) : Out :=
  if s.hbInFlight then
    let s := { s with hbInFlight := false }
    if s.hbRunning then
      andThen (andThen (s, [.cancelReq .hbR]) hbStop) fun s => (rejoinCore cfg s .cancelled).1
    else (s, [.cancelReq .hbR, .raised "AssertionError"])
  else (s, [])

/-- `if self._heartbeat_looper.running: self._heartbeat_looper.stop()` -/
def stopLooper (s : St) : Out := if s.hbRunning then hbStop s else (s, [])

/-- `if self.coordinator_broker is not None and self.member_id: yield self.send_leave_group_request()` -/
def leaveOrFinish (cfg : Cfg) (err : Option GErr) (user : Bool) (s : St) : Out :=
  if s.coordBroker && s.member != 0 then
    ({ s with leaveWait := some (err, user) }, [.leave s.member])
  else finishStop cfg s err user

/-- `Coordinator.stop(errback_result)` from its first statement. -/
def coordStop (cfg : Cfg) (s : St) (err : Option GErr) (user : Bool) : Out :=
  if !s.started || s.stopping then (s, if user then [.stopFired true] else [])   -- RestopError
  else
    let s := { s with stopping := true, rejoinNeeded := false }
    -- `self._rejoin_wait_dc.cancel()` raises if the call is not active
    if s.rejoinWaitDc.any (fun id => !timerActive s id) then (s, [.raised "AlreadyCalled"]) else
    andThen (andThen (andThen (stopCancelDc s) (stopCancelHb cfg)) stopLooper) (leaveOrFinish cfg err user)

/-- the loop of `ConsumerGroup.stop`: `while self.consumers: yield self.shutdown_consumers()`, then
    `Coordinator.stop`. -/
def stopLoop (cfg : Cfg) (s : St) (err : Option GErr) (user : Bool) : Out :=
  if (heldCids s).isEmpty then coordStop cfg s err user
  else
    let failed := drainFails s
    let r := beginDrain s
    if failed || r.2.2.pending.isEmpty then
      -- the DeferredList fires at once; `self.consumers` is empty now, so the loop ends
      andThen (andThen (r.1, r.2.1) fun s => drainDone s r.2.2 (!failed)) fun s => coordStop cfg s err user
    else ({ r.1 with stops := r.1.stops ++ [⟨r.2.2, err, user⟩] }, r.2.1)

/-- `ConsumerGroup.stop`: mark that the consumers are being shut down for a stop (so that no
    JoinGroup exchange starts meanwhile), then the loop. -/
def stopCall (cfg : Cfg) (s : St) (err : Option GErr) (user : Bool) : Out :=
  stopLoop cfg (if s.started && !s.stopping then { s with stopDraining := true } else s) err user

/-- `ConsumerGroup.stop()` called by the application (no `errback_result`): while an earlier `stop()`
    is still shutting the consumers down (`_stop_draining` set, `Coordinator.stop` not begun) the call
    is refused with `RestopError` — that stop leaves the group when the consumers are done. -/
def userStop (cfg : Cfg) (s : St) : Out :=
  if s.stopDraining && !s.stopping then (s, [.stopFired true]) else stopCall cfg s none true

/-- `rejoin_after_error(failure)` -/
def rejoinAfterError (cfg : Cfg) (s : St) (e : GErr) : Out :=
  let r := rejoinCore cfg s e
  if r.2 then andThen r.1 fun s => stopCall cfg s (some e) false else r.1

/-- an error escaping `_join_and_sync` -/
def escape (cfg : Cfg) (s : St) (e : GErr) : Out :=
  let r := escapeCore cfg s e
  if r.2 then andThen r.1 fun s => stopCall cfg s (some e) false else r.1

/-! ## `join_and_sync` and the `_join_and_sync` coroutine -/

/-- `send_join_group_request()` after `on_join_prepare` completed -/
def afterPrepare (s : St) : Out :=
  if s.stopping then ({ s with jpc := .idle, rejoinD := false }, [])
  else ({ s with jpc := .join }, [.join s.member])

/-- `on_join_prepare()` = `shutdown_consumers()` from `_join_and_sync` -/
def prepare (s : St) : Out :=
  if s.stopDraining then
    -- `stop()` is waiting for the consumers: `on_join_prepare` returns a Deferred that never fires
    -- (the stop cancels this join when it is done)
    ({ s with jpc := .hang }, [])
  else if (heldCids s).isEmpty then afterPrepare s
  else
    let failed := drainFails s
    let r := beginDrain s
    if failed || r.2.2.pending.isEmpty then
      andThen (andThen (r.1, r.2.1) fun s => drainDone s r.2.2 (!failed)) afterPrepare
    else ({ r.1 with jpc := .prepare, prep := r.2.2 }, r.2.1)

def joinAndSync (s : St) : Out :=
  let s := { s with rejoinWaitDc := none }
  if !s.rejoinNeeded then (s, [])
  else if s.rejoinD then (s, [])
  else ({ s with rejoinD := true, jpc := .coordLookup }, [.coordLookup])

/-- `on_join_complete(assignment)` -/
def startConsumers (s : St) (asg : List (Nat × List Int)) : Out :=
  let tps : List (Nat × Int) := asg.flatMap fun tp => tp.2.map fun p => (tp.1, p)
  let news : List Con := tps.zipIdx.map fun (tp, i) =>
    { cid := s.nextCid + i, topic := tp.1, part := tp.2, gen := s.gen, member := s.member,
      phase := .running, held := true, startFired := false }
  ({ s with cons := s.cons ++ news, nextCid := s.nextCid + tps.length, asg := tps },
   news.map fun c => .consumerStart c.cid c.topic c.part c.gen c.member groupConsumerStartOffset)

/-- split the waiting `ConsumerGroup.stop` coroutines at the first one whose `DeferredList` contains
    the shutdown Deferred of consumer `cid` -/
def splitStops (cid : Nat) : List StopCo → Option (List StopCo × StopCo × List StopCo)
  | [] => none
  | co :: rest =>
    if co.drain.pending.contains cid then some ([], co, rest)
    else match splitStops cid rest with
      | some (a, x, b) => some (co :: a, x, b)
      | none => none

/-- the consumer `cid`'s shutdown Deferred fired -/
def consumerDown (cfg : Cfg) (s : St) (cid : Nat) (ok : Bool) : Out :=
  -- the consumer itself has stopped (`_start_d = None`, start's Deferred called back)
  let s : St := { s with cons := s.cons.map fun (c : Con) => if c.cid = cid && c.phase == .draining then { c with phase := .stopped, startFired := true } else c }
  if s.jpc = .prepare && s.prep.pending.contains cid then
    let d : Drain := { s.prep with pending := s.prep.pending.filter (· != cid) }
    if ok && !d.pending.isEmpty then ({ s with prep := d }, [])
    else andThen (drainDone { s with prep := ⟨[], []⟩ } d ok) afterPrepare
  else
    match splitStops cid s.stops with
    | none => (s, [])   -- its DeferredList has fired already: the result is consumed silently
    | some (a, co, b) =>
      -- the `ConsumerGroup.stop` coroutine whose DeferredList contains it
      let d : Drain := { co.drain with pending := co.drain.pending.filter (· != cid) }
      if ok && !d.pending.isEmpty then ({ s with stops := a ++ { co with drain := d } :: b }, [])
      else andThen (drainDone { s with stops := a ++ b } d ok) fun s => stopLoop cfg s co.err co.user

def step (cfg : Cfg) (s : St) : Ev → Out
  | .start =>
    -- already started, or stopped for good (`_stopping` is never reset; `protocol = None`)
    if s.started || s.stopping then (s, [.raised "RestartError"])
    else joinAndSync { s with started := true, startResult := none }
  | .stop => userStop cfg s
  | .coordDone r =>
    if s.jpc != .coordLookup then (s, [.badOp]) else
    match r with
    | .ok => ({ s with jpc := .metaLoad }, [.loadMeta])
    | .none =>
      andThen (addTimer s .retry (secs cfg.initialBackoffMs)) fun s => ({ s with jpc := .idle, rejoinD := false }, [])
    | .err e =>
      match coordFailRow e with
      | .propagate => escape cfg s e
      | .retryInitial => andThen (addTimer s .retry (secs cfg.initialBackoffMs)) fun s => ({ s with jpc := .idle, rejoinD := false }, [])
      | .retryFatal => andThen (addTimer s .retry (secs cfg.fatalBackoffMs)) fun s => ({ s with jpc := .idle, rejoinD := false }, [])
  | .metaDone r =>
    if s.jpc != .metaLoad then (s, [.badOp]) else
    match r with
    | .err e => escape cfg s e
    | .ok =>
      if s.stopping then ({ s with jpc := .idle, rejoinD := false }, [])
      else prepare { s with coordBroker := true }
  | .joinDone r =>
    if s.jpc != .join then (s, [.badOp]) else
    match r with
    | .err e =>
      andThen (rejoinAfterError cfg { s with jpc := .idle } e) fun s => ({ s with rejoinD := false }, [])
    | .ok m g leader n =>
      -- `_join_group_success`: adopt the ids; abandon a heartbeat sent with the previous ones
      andThen (abandonHb { s with member := m, gen := some g }) fun s =>
      if s.stopping then ({ s with jpc := .idle, rejoinD := false }, [])
      else if leader then ({ s with jpc := .loadParts n }, [.loadParts])
      else ({ s with jpc := .sync }, [.sync s.gen s.member 0])
  | .partsDone r =>
    match s.jpc with
    | .loadParts n =>
      match r with
      | .err e => escape cfg s e
      | .ok =>
        if s.stopping then ({ s with jpc := .idle, rejoinD := false }, [])
        else ({ s with jpc := .sync }, [.sync s.gen s.member n])
    | _ => (s, [.badOp])
  | .syncDone r =>
    if s.jpc != .sync then (s, [.badOp]) else
    match r with
    | .err e =>
      andThen (rejoinAfterError cfg { s with jpc := .idle } e) fun s => ({ s with rejoinD := false }, [])
    | .ok asg =>
      if s.stopping then ({ s with jpc := .idle, rejoinD := false }, [])
      else
        andThen (resetHeartbeat cfg s) fun s =>
          startConsumers { s with rejoinNeeded := false, jpc := .idle, rejoinD := false } asg
  | .hbDone r =>
    if !s.hbInFlight then (s, [.badOp]) else
    let s := { s with hbInFlight := false }
    match r with
    | .ok => (s, [])
    | .err e =>
      if s.hbRunning then andThen (hbStop s) fun s => rejoinAfterError cfg s e
      else (s, [.raised "AssertionError"])
  | .leaveDone r =>
    match s.leaveWait with
    | none => (s, [.badOp])
    | some (err, user) =>
      let s := match r with
        | .ok => { s with member := 0, gen := none }      -- `_leave_group_success`
        | .err _ => s                                       -- `except Exception: log`
      finishStop cfg s err user
  | .consumerDown cid ok =>
    if s.cons.any (fun c => c.cid = cid && c.phase = .draining) then consumerDown cfg s cid ok
    else (s, [.badOp])
  | .consumerErr cid e =>
    if s.cons.any (fun c => c.cid = cid && c.phase != .stopped && !c.startFired) then
      let s := { s with cons := s.cons.map fun c => if c.cid = cid then { c with startFired := true } else c }
      -- on_consumer_error
      if e = .cancelled && (heldCids s).isEmpty then (s, []) else rejoinAfterError cfg s e
    else (s, [.badOp])
  | .consumerQuirk cid q =>
    if s.cons.any (fun c => c.cid = cid && c.phase = .running) then
      ({ s with cons := s.cons.map fun c => if c.cid = cid && c.phase == .running then { c with quirk := q } else c }, [])
    else (s, [.badOp])
  | .fire id hbNext =>
    if hbNext.any (· < 0) then (s, [.badOp]) else
    match s.timers.filter (·.id == id) with
    | [] => (s, [.badOp])
    | t :: _ =>
      if s.now < t.due then (s, [.badOp]) else
      let s := { s with timers := s.timers.filter (·.id != id) }
      match t.kind with
      | .rejoin | .retry => joinAndSync s
      | .hb =>
        -- LoopingCall.__call__: `_heartbeat()`, then reschedule while running
        let o : Out :=
          if s.stopping || s.rejoinNeeded || s.hbInFlight then (s, [])
          else ({ s with hbInFlight := true }, [.heartbeat s.gen s.member])
        andThen o fun s => if s.hbRunning then addTimer s .hb (hbNext.getD (hbDelay cfg s)) else (s, [])
  | .advance dt =>
    if dt < 0 then (s, [.badOp]) else ({ s with now := s.now + dt }, [])

def init : St := {}

/-- What the harness can inspect on the real objects after every step (and what `snap` extracts
    from the model state): the input of the monitors besides events and observations. -/
structure Snap where
  started : Bool
  stopping : Bool
  joinInFlight : Bool     -- `_rejoin_d` truthy
  rejoinNeeded : Bool
  hbRunning : Bool        -- `_heartbeat_looper.running`
  hbInFlight : Bool
  startFired : Bool       -- the Deferred returned by the latest `start()` has fired
  joinTimers : Nat        -- active delayed calls of `join_and_sync` (rejoin + coordinator retry)
  hbTimers : Nat          -- active delayed calls of the heartbeat looper
  member : Nat
  gen : Option Int
  cons : List Con         -- every consumer created so far, with its phase
  deriving DecidableEq, Repr

def snap (s : St) : Snap :=
  { started := s.started, stopping := s.stopping, joinInFlight := s.rejoinD, rejoinNeeded := s.rejoinNeeded,
    hbRunning := s.hbRunning, hbInFlight := s.hbInFlight, startFired := s.startResult.isSome,
    joinTimers := (s.timers.filter (·.kind != .hb)).length, hbTimers := (s.timers.filter (·.kind == .hb)).length,
    member := s.member, gen := s.gen, cons := s.cons }

/-- One step of a trace as the monitors see it. -/
structure MStep where
  ev : Ev
  obs : List Ob
  snap : Snap
  deriving DecidableEq, Repr

def toMSteps (tr : List (Ev × List Ob × St)) : List MStep := tr.map fun (e, o, s) => ⟨e, o, snap s⟩

/-- Fold `step`, collecting per-event observations and the state after each event. -/
def runFrom (cfg : Cfg) (s : St) : List Ev → List (Ev × List Ob × St)
  | [] => []
  | e :: es => let r := step cfg s e; (e, r.2, r.1) :: runFrom cfg r.1 es

def finalFrom (cfg : Cfg) (s : St) : List Ev → St
  | [] => s
  | e :: es => finalFrom cfg (step cfg s e).1 es

def run (cfg : Cfg) (evs : List Ev) : List (Ev × List Ob × St) := runFrom cfg init evs
def final (cfg : Cfg) (evs : List Ev) : St := finalFrom cfg init evs

end Afkak.Group
