import Afkak.Generated.ConsumerConsts
/-!
# Model of `afkak/consumer.py` (`class Consumer`) against the client interface

The model follows the code statement by statement (DESIGN §2.4): every `Deferred` chain and the
`inlineCallbacks` generator `_process_messages` are flattened into handlers that run in callback
order; continuation states are explicit (`Gen` = the suspended `_process_messages` generator with the
`_commit_and_stop` callback `shutdown()` may have attached behind it; `Waiter` = one Deferred of
`_commit_ds` together with the callbacks the code attached to it).

Environment (assume side, `ClientIface`): each `send_*_request` is an observation and its completion an
event.  `cancel()` of a client Deferred is an observation `cancelReq k`; what the cancel produces is
the environment's choice (`envReq`/`envCommit`, set by the event `env`): `some (kind, tag)` = the request
completes AT ONCE with that failure (the real client: `FailedPayloadsError` for an in-flight request,
`PartitionUnavailableError` while resolving a leader, twisted `CancelledError` while resolving the
coordinator), `none` = the cancel is eaten, the request stays pending and completes later.

The processor is a script: entry `i` says which API calls the processor makes re-entrantly
(`stop`/`commit`/`shutdown`) and how it ends (returns, raises, returns a Deferred fired later by
`procDone`).  Re-entrant calls go through `inner : Ops` (one level down, `opsN`), which is how the
genuinely recursive call structure (`stop` → processor → `stop` …) is made structurally terminating.

A Python exception that the code does not handle (`AttributeError` on `None`, `AlreadyCalledError`,
`OperationInProgress` raised by `_send_commit_request`) is the observation `crash site`; the model
stops there (`crashed`: every later event is `badOp`).
-/
namespace Afkak.Consumer
open Afkak.Consts

/-! ## Vocabulary -/

/-- Failure classes as far as `Consumer` distinguishes them. -/
inductive ErrKind
  | cancelled   -- twisted.internet.defer.CancelledError
  | outOfRange  -- OffsetOutOfRangeError
  | kafka       -- any other KafkaError
  | groupFatal  -- IllegalGeneration / InvalidGroupId / UnknownMemberId
  | other       -- not a KafkaError
  deriving DecidableEq, Repr, Inhabited

inductive Fail
  | ext (k : ErrKind) (tag : Nat)   -- produced by the environment (client or processor); `tag` identifies it
  | tooSmall                        -- ConsumerFetchSizeTooSmall created by the consumer
  | invalidGroup                    -- InvalidConsumerGroupError
  | opInProgress (w : Nat)          -- OperationInProgress carrying waiter Deferred `w`
  deriving DecidableEq, Repr, Inhabited

def Fail.isCancelled : Fail → Bool
  | .ext .cancelled _ => true
  | _ => false

/-- `failure.check(KafkaError)` -/
def Fail.isKafka : Fail → Bool
  | .ext .cancelled _ => false
  | .ext .other _ => false
  | _ => true

def Fail.isOutOfRange : Fail → Bool
  | .ext .outOfRange _ => true
  | _ => false

def Fail.isGroupFatal : Fail → Bool
  | .ext .groupFatal _ => true
  | _ => false

def Fail.isOpInProgress : Fail → Bool
  | .opInProgress _ => true
  | _ => false

structure Msg where
  off : Int
  pid : Nat          -- identity of key/value (opaque payload)
  deriving DecidableEq, Repr, Inhabited

/-- How iterating `resp.messages` ends. -/
inductive Tail
  | done
  | small                           -- raises ConsumerFetchSizeTooSmall
  | raise (k : ErrKind) (tag : Nat) -- raises something else (e.g. ChecksumError) part-way
  deriving DecidableEq, Repr, Inhabited

structure Reply where
  msgs : List Msg
  tail : Tail
  deriving DecidableEq, Repr, Inhabited

inductive PRes
  | ok
  | err (k : ErrKind) (tag : Nat)
  | defer
  deriving DecidableEq, Repr, Inhabited

inductive Act | stop | commit | shutdown
  deriving DecidableEq, Repr, Inhabited

structure PEntry where
  acts : List Act
  res : PRes
  deriving DecidableEq, Repr, Inhabited

inductive TimerKind | retry | commit | loop
  deriving DecidableEq, Repr, Inhabited

/-- Result delivered to Deferreds waiting for a commit. -/
inductive DRes
  | ok (v : Option Int)
  | err (f : Fail)
  deriving DecidableEq, Repr, Inhabited

inductive Ev
  | start (off : Int)
  | stop
  | shutdown
  | commit
  | fetchOk (k : Nat) (r : Reply)
  | fetchErr (k : Nat) (ek : ErrKind) (tag : Nat)
  | offsetOk (k : Nat) (off : Int)
  | offsetErr (k : Nat) (ek : ErrKind) (tag : Nat)
  | offsetFetchOk (k : Nat) (off : Int)
  | offsetFetchErr (k : Nat) (ek : ErrKind) (tag : Nat)
  | commitOk (k : Nat)
  | commitErr (k : Nat) (ek : ErrKind) (tag : Nat)
  | procOk
  | procErr (ek : ErrKind) (tag : Nat)
  | retryFire
  | commitRetryFire
  | autoCommitTick
  | advance (dt : Rat)
  | env (rq cm : Option (ErrKind × Nat))
  deriving DecidableEq, Repr, Inhabited

inductive Ob
  | fetch (k : Nat) (off : Int) (maxBytes : Nat)
  | offsets (k : Nat) (time : Int)
  | offsetFetch (k : Nat)
  | commitReq (k : Nat) (off : Int)
  | proc (blk : List Msg)
  | procRet (r : PRes)             -- how the processor call ended (script; recorded by both sides)
  | act (a : Act)                  -- the processor makes this API call now (script; recorded by both sides)
  | procCancel                     -- the consumer cancelled the processor's Deferred
  | cancelReq (k : Nat)
  | startFired (r : DRes)
  | shutdownFired (r : DRes)
  | shutdownRejected
  | commitFired (c : Nat) (r : DRes)
  | waiterFired (w : Nat) (r : DRes)
  | setTimer (t : TimerKind) (d : Rat)
  | cancelTimer (t : TimerKind)
  | stopReturned (v : Option Int)
  | raisedRestart
  | raisedRestop
  | crash (site : String)
  | probe (lp lc : Option Int)     -- last_processed_offset / last_committed_offset after the event
  deriving DecidableEq, Repr, Inhabited

inductive Item
  | ev (e : Ev)     -- an event the environment enabled (applied)
  | rej (e : Ev)    -- an event that was not enabled: nothing happened
  | ob (o : Ob)
  deriving DecidableEq, Repr, Inhabited

/-! ## Configuration and state -/

structure Cfg where
  group : Bool              -- `consumer_group` is truthy
  autoN : Nat               -- auto_commit_every_n (0: None / disabled)
  autoS : Rat               -- auto_commit_every_s (0: disabled)
  bufInit : Nat
  bufMax : Option Nat
  retryInit : Rat
  retryMax : Rat
  maxAttempts : Nat         -- request_retry_max_attempts
  reset : Option Int        -- auto_offset_reset: none | OFFSET_EARLIEST | OFFSET_LATEST
  depth : Nat := 4          -- nesting of re-entrant API calls the model follows
  deriving Repr, Inhabited

inductive StartD | none | pending | called
  deriving DecidableEq, Repr, Inhabited

inductive ReqKind | fetch | offsets | offsetFetch
  deriving DecidableEq, Repr, Inhabited

/-- `_request_d` -/
inductive ReqD
  | none
  | pending (k : Nat) (kind : ReqKind) (cancelled : Bool)
  | parked (k : Nat)          -- fired; its reply waits behind `_msg_block_d`
  deriving DecidableEq, Repr, Inhabited

/-- `_retry_call`: a `DelayedCall` stays referenced (and truthy) after it fired or was cancelled. -/
inductive TRef
  | none
  | pending (due : Rat)
  | dead
  deriving DecidableEq, Repr, Inhabited

/-- `_commit_call` with the arguments it will pass to `_send_commit_request`. -/
inductive CRef
  | none
  | pending (due : Rat) (delay : Rat) (attempt : Nat)
  | dead
  deriving DecidableEq, Repr, Inhabited

structure CommitReq where
  k : Nat
  off : Int
  delay : Rat
  attempt : Nat
  cancelled : Bool
  deriving DecidableEq, Repr, Inhabited

/-- One Deferred of `_commit_ds`, identified by what is attached to it. -/
inductive Waiter
  | user (c : Nat)           -- returned by a manual `commit()`
  | inProg (w : Nat)         -- handed out inside OperationInProgress to a manual `commit()`
  | autoHead                 -- `_auto_commit`'s own `commit()` (errback `_handle_auto_commit_error`)
  | autoRetry (byCount : Bool)  -- `_auto_commit` waiting for the in-progress commit (`_retry_auto_commit`)
  | shutHead                 -- `shutdown()`'s `commit()`
  | shutInProg               -- `shutdown()` waiting behind an in-progress commit
  | orphan                   -- OperationInProgress waiter nobody looks at
  deriving DecidableEq, Repr, Inhabited

/-- The suspended `_process_messages` generator (waiting on the processor's Deferred). -/
structure Gen where
  rest : List Msg
  last : Int
  shutWait : Bool            -- `shutdown()` attached `_commit_and_stop` to this processor Deferred
  deriving DecidableEq, Repr, Inhabited

/-- The `_process_messages` generator while it is EXECUTING the processor call (the processor may
    re-enter the API now): the block just handed over ends at `last`, `rest` is still queued.  No
    handler reads it (Python: generator locals); it is state so that invariants can speak about it. -/
structure Frame where
  rest : List Msg
  last : Int
  deriving DecidableEq, Repr, Inhabited

structure Looper where
  start : Rat
  due : Option Rat           -- `none` while the LoopingCall is inside its call
  deriving DecidableEq, Repr, Inhabited

structure St where
  fetchOffset : Int := 0
  lastProcessed : Option Int := none
  lastCommitted : Option Int := none
  stopping : Bool := false
  shuttingDown : Bool := false
  shutdownD : Bool := false
  looper : Option Looper := none
  commitDs : List Waiter := []
  commitReq : Option CommitReq := none
  startD : StartD := .none
  requestD : ReqD := .none
  retryCall : TRef := .none
  commitCall : CRef := .none
  msgBlock : Bool := false
  parked : Option Reply := none
  proc : Option Gen := none
  frame : Option Frame := none
  retryDelay : Rat
  attempts : Nat := 1
  bufferSize : Nat
  now : Rat := 0
  nextReq : Nat := 0
  nextCommit : Nat := 0
  nextWaiter : Nat := 0
  script : List PEntry := []
  envReq : Option (ErrKind × Nat) := none
  envCommit : Option (ErrKind × Nat) := none
  crashed : Bool := false
  out : List Item := []       -- newest first
  deriving Repr, Inhabited

def init (cfg : Cfg) (script : List PEntry) : St :=
  { retryDelay := cfg.retryInit, bufferSize := cfg.bufInit, script := script }

/-- Re-entrant API as seen from inside the processor and from the shutdown continuations. -/
structure Ops where
  stop : St → St        -- `stop()` as an API call (reports its return value / RestopError)
  stopCore : St → St    -- the body of `stop()` (called by the shutdown continuations)
  commit : St → St
  shutdown : St → St

/-! ## Pure kernels (C14) -/

/-- `min(retry_delay * REQUEST_RETRY_FACTOR, retry_max_delay)` -/
def nextDelay (maxD d : Rat) : Rat := min (d * requestRetryFactor) maxD

/-- Buffer growth on `ConsumerFetchSizeTooSmall`: `none` = already at the maximum (fails). -/
def grow (buf : Nat) (max : Option Nat) : Option Nat :=
  let factor := if buf ≤ growThreshold then growFactorSmall else growFactorLarge
  match max with
  | none => some (buf * factor)
  | some m => if buf < m then some (min (buf * factor) m) else none

/-- The message loop of `_handle_fetch_response`: skip offsets below the fetch position, advance it
    past every message taken. -/
def extract : Int → List Msg → List Msg × Int
  | fo, [] => ([], fo)
  | fo, m :: ms =>
    if m.off < fo then extract fo ms
    else let (taken, fo') := extract (m.off + 1) ms; (m :: taken, fo')

/-- `LoopingCall._scheduleFrom(when).howLong()` for a positive interval. -/
def howLong (T start now : Rat) : Rat :=
  if T == 0 then 0 else
  let runningFor := now - start
  T - (runningFor - T * ((runningFor / T).floor : Int))

/-! ## Handlers -/

def emit (o : Ob) (s : St) : St := { s with out := .ob o :: s.out }

def crash (site : String) (s : St) : St := { emit (.crash site) s with crashed := true }

/-- `self._start_d.errback(failure)`.  When `_start_d` is `None` or has already been called the Python
    statement raises (AttributeError / AlreadyCalledError); everywhere it occurs that exception is
    swallowed by the enclosing Deferred (or logged by the reactor) and aborts the rest of the handler.
    Nothing is observable. -/
def startErrback (f : Fail) (s : St) : St :=
  match s.startD with
  | .pending => { emit (.startFired (.err f)) s with startD := .called }
  | _ => s

/-- whether `self._start_d.errback(..)` raises in this state -/
def errbackRaises (s : St) : Bool := s.startD != .pending

/-- `_do_fetch` -/
def doFetch (cfg : Cfg) (s : St) : St :=
  match s.requestD with
  | .none =>
    let s := match s.retryCall with
      | .pending _ => { emit (.cancelTimer .retry) s with retryCall := .none }
      | _ => { s with retryCall := .none }
    if s.fetchOffset == offsetEarliest || s.fetchOffset == offsetLatest then
      { emit (.offsets s.nextReq s.fetchOffset) s with requestD := .pending s.nextReq .offsets false, nextReq := s.nextReq + 1 }
    else if s.fetchOffset == offsetCommitted then
      let raised := !cfg.group && errbackRaises s
      let s := if cfg.group then s else startErrback .invalidGroup s
      if raised then s else
      { emit (.offsetFetch s.nextReq) s with requestD := .pending s.nextReq .offsetFetch false, nextReq := s.nextReq + 1 }
    else
      { emit (.fetch s.nextReq s.fetchOffset s.bufferSize) s with requestD := .pending s.nextReq .fetch false, nextReq := s.nextReq + 1 }
  | _ => s

/-- `_retry_fetch(after)` -/
def retryFetch (cfg : Cfg) (after : Option Rat) (s : St) : St :=
  if s.stopping || s.shuttingDown || s.startD == .none then s else
  match s.retryCall with
  | .none =>
    let d := after.getD s.retryDelay
    let s := if after.isNone then { s with retryDelay := nextDelay cfg.retryMax s.retryDelay } else s
    { emit (.setTimer .retry d) s with attempts := s.attempts + 1, retryCall := .pending (s.now + d) }
  | _ => s

/-- `_handle_offset_response` after `self._request_d = None` -/
def offsetResponseTail (cfg : Cfg) (isFetch : Bool) (off : Int) (s : St) : St :=
  if s.startD == .none then s else   -- stopped: late result of a cancelled request
  let s := { s with retryDelay := cfg.retryInit, attempts := 1 }
  let s :=
    if !isFetch then { s with fetchOffset := off }
    else if off == offsetNotCommitted then
      { s with fetchOffset := if cfg.reset == some offsetLatest then offsetLatest else offsetEarliest }
    else { s with fetchOffset := off + 1, lastCommitted := some off }
  doFetch cfg s

/-- `_handle_offset_response` for both OffsetResponse (`isFetch = false`) and OffsetFetchResponse. -/
def handleOffsetResponse (cfg : Cfg) (isFetch : Bool) (off : Int) (s : St) : St :=
  offsetResponseTail cfg isFetch off { s with requestD := .none }

/-- `_handle_offset_error` after `self._request_d = None` -/
def offsetErrorTail (cfg : Cfg) (f : Fail) (s : St) : St :=
  if s.startD == .none then s   -- stopped: late result of a cancelled request
  else if s.stopping then s
  else if cfg.maxAttempts != 0 && s.attempts ≥ cfg.maxAttempts then startErrback f s
  else retryFetch cfg none s

/-- `_handle_offset_error` -/
def handleOffsetError (cfg : Cfg) (f : Fail) (s : St) : St :=
  offsetErrorTail cfg f { s with requestD := .none }

/-- `LoopingCall.reset()` (only acts while a call is scheduled). -/
def looperReset (cfg : Cfg) (s : St) : St :=
  match s.looper with
  | some l =>
    match l.due with
    | some _ =>
      let s := emit (.cancelTimer .loop) s
      let s := emit (.setTimer .loop (howLong cfg.autoS s.now s.now)) s
      { s with looper := some { start := s.now, due := some (s.now + howLong cfg.autoS s.now s.now) } }
    | none => s
  | none => s

/-- `_send_commit_request(retry_delay, attempt)` -/
def sendCommitRequest (cfg : Cfg) (delay : Option Rat) (attempt : Option Nat) (s : St) : St :=
  let s := match s.commitCall with
    | .dead => { s with commitCall := .none }
    | _ => s
  match s.commitReq with
  | some _ => crash "_send_commit_request: OperationInProgress" s
  | none =>
    match s.lastProcessed with
    | none => crash "_send_commit_request: offset None" s
    | some off =>
      { emit (.commitReq s.nextReq off) s with
        commitReq := some { k := s.nextReq, off := off, delay := delay.getD cfg.retryInit, attempt := attempt.getD 1, cancelled := false },
        nextReq := s.nextReq + 1 }

/-- `_handle_auto_commit_error` -/
def handleAutoCommitError (f : Fail) (s : St) : St :=
  if s.stopping && f.isCancelled then s
  else if s.startD == .pending then startErrback f s else s

inductive Who | user | auto | shut
  deriving DecidableEq, Repr

/-- `commit()`: what the returned Deferred already holds when `commit()` returns (`none`: still
    pending, it is the new head of `_commit_ds`). -/
def commitResult (cfg : Cfg) (who : Who) (s : St) : Option DRes :=
  if !cfg.group then some (.err .invalidGroup)
  else if s.lastProcessed.isNone || s.lastProcessed == s.lastCommitted then some (.ok s.lastCommitted)
  else if !s.commitDs.isEmpty then
    match who with
    | .user => some (.err (.opInProgress s.nextWaiter))
    | _ => some (.err (.opInProgress 0))
  else none

/-- `commit()`: its effect on the consumer. -/
def commitState (cfg : Cfg) (who : Who) (s : St) : St :=
  if !cfg.group then s
  else if s.lastProcessed.isNone || s.lastProcessed == s.lastCommitted then s
  else if !s.commitDs.isEmpty then
    match who with
    | .user => { s with commitDs := s.commitDs ++ [.inProg s.nextWaiter], nextWaiter := s.nextWaiter + 1 }
    | .shut => { s with commitDs := s.commitDs ++ [.shutInProg] }
    | .auto => { s with commitDs := s.commitDs ++ [.orphan] }
  else
    let head := match who with
      | .user => Waiter.user s.nextCommit
      | .shut => .shutHead
      | .auto => .autoHead
    looperReset cfg (sendCommitRequest cfg none none { s with commitDs := [head] })

/-- `_auto_commit(by_count)` -/
def autoCommit (cfg : Cfg) (byCount : Bool) (s : St) : St :=
  if s.stopping || s.shuttingDown || s.startD == .none || s.lastProcessed.isNone || !cfg.group
      || (byCount && cfg.autoN == 0) then s
  else
    let due := !byCount || (match s.lastProcessed, s.lastCommitted with
      | some p, some c => decide (p - c ≥ (cfg.autoN : Int))
      | _, _ => true)
    if !due then s
    else if s.commitDs.isEmpty then
      match commitResult cfg .auto s with
      | some (.err f) => handleAutoCommitError f (commitState cfg .auto s)
      | _ => commitState cfg .auto s
    else { s with commitDs := s.commitDs ++ [.autoRetry byCount] }

/-- manual `commit()` -/
def commitUser (cfg : Cfg) (s : St) : St :=
  let c := s.nextCommit
  match commitResult cfg .user s with
  | some r => emit (.commitFired c r) { commitState cfg .user s with nextCommit := c + 1 }
  | none => { commitState cfg .user s with nextCommit := c + 1 }

/-- `_handle_processor_error` (`_start_d` None: skipped; already called: AlreadyCalledError, consumed
    by the generator) -/
def handleProcessorError (f : Fail) (s : St) : St :=
  if s.stopping && f.isCancelled then s else startErrback f s

/-- whether `_handle_processor_error` passes the failure on to `_process_messages` -/
def procErrPassed (f : Fail) (s : St) : Bool := !(s.stopping && f.isCancelled)

section WithInner
variable (cfg : Cfg) (inner : Ops)

def runAct (a : Act) (s : St) : St :=
  match a with
  | .stop => inner.stop s
  | .commit => inner.commit s
  | .shutdown => inner.shutdown s

/-- The processor is called with `blk`: from now on it may re-enter the API. -/
def procEnter (blk rest' : List Msg) (last : Int) (s : St) : St :=
  { emit (.proc blk) s with script := s.script.tail, frame := some { rest := rest', last := last } }

/-- The API calls the processor makes. -/
def procActs (acts : List Act) (s : St) : St :=
  acts.foldl (fun s a => runAct inner a (emit (.act a) s)) s

/-- The processor call ends with `res` (`maybeDeferred`), the callbacks that do not depend on the
    outcome of later steps run: `_clear_processor_deferred`, `_update_processed_offset`'s assignment;
    for a Deferred: it is cancelled at once if the consumer was stopped meanwhile, else the generator
    suspends on it. -/
def procLeave (res : PRes) (rest' : List Msg) (last : Int) (s : St) : St :=
  match res with
  | .ok => { emit (.procRet .ok) s with frame := none, lastProcessed := some last }
  | .err k t => { emit (.procRet (.err k t)) s with frame := none }
  | .defer =>
    if s.stopping || s.startD == .none then { emit .procCancel (emit (.procRet .defer) s) with frame := none }
    else { emit (.procRet .defer) s with frame := none, proc := some { rest := rest', last := last, shutWait := false } }

/-- One iteration of the `while` loop of `_process_messages`: hand `blk` to the processor (script
    entry `e`), then act on how the call ended; `k` is the rest of the loop. -/
def procBody (k : St → St × Bool) (blk rest' : List Msg) (last : Int) (e : PEntry) (s : St) : St × Bool :=
  let s := procLeave e.res rest' last (procActs inner e.acts (procEnter blk rest' last s))
  match e.res with
  | .ok =>
    -- _update_processed_offset: _auto_commit(by_count=True)
    let s := autoCommit cfg true s
    if s.stopping || s.startD == .none then (s, true) else k s
  | .err kd t =>
    let passed := procErrPassed (.ext kd t) s
    let s := handleProcessorError (.ext kd t) s
    if s.stopping || s.startD == .none then (s, true)
    else if passed then (s, false) else k s
  | .defer =>
    if s.proc.isSome then (s, true) else (handleProcessorError (.ext .cancelled 0) s, true)

/-- `proc_block_size`: `auto_commit_every_n` if set, else the whole list (`sys.maxsize`). -/
def blockSize (n : Nat) : Nat := if cfg.autoN != 0 then cfg.autoN else n

/-- The `while` loop of `_process_messages` from the point where it (re-)checks its condition.
    Ends with `proc = some _` (waiting on the processor), or finished (`done = true`: falls through
    to the `_msg_block_d` clean-up), or abandoned after a processor failure (`done = false`). -/
def procLoop : Nat → List Msg → St → St × Bool
  | 0, _, s => (s, true)
  | fuel + 1, rest, s =>
    if rest.isEmpty || s.shuttingDown || s.stopping then (s, true) else
    match (rest.take (blockSize cfg rest.length)).getLast? with
    | none => (s, true)
    | some lastMsg =>
      procBody cfg inner (procLoop fuel (rest.drop (blockSize cfg rest.length)))
        (rest.take (blockSize cfg rest.length)) (rest.drop (blockSize cfg rest.length)) lastMsg.off
        (s.script.head?.getD { acts := [], res := .ok }) s

/-- `stop()` as called by the shutdown continuations (`if not self._stopping: self.stop()`). -/
def nestedStop (s : St) : St :=
  if s.stopping then s
  else if s.startD == .none then crash "shutdown: stop() raised RestopError" s
  else inner.stopCore s

/-- The tail of `_handle_shutdown_commit_success` / `_handle_shutdown_commit_failure`
    (non-OperationInProgress): stop and fire the shutdown Deferred. -/
def shutdownFinish (r : Option Fail) (s : St) : St :=
  let had := s.shutdownD
  let s := { s with shutdownD := false }
  let s := nestedStop inner s
  let s := { s with shuttingDown := false }
  if !had then crash "shutdown: _shutdown_d is None" s
  else match r with
    | none => emit (.shutdownFired (.ok s.lastProcessed)) s
    | some f => emit (.shutdownFired (.err f)) s

/-- `_handle_shutdown_commit_success` must commit again when more has been processed meanwhile. -/
def behind (s : St) : Bool := cfg.group && s.lastProcessed.isSome && s.lastProcessed != s.lastCommitted

/-- `_commit_and_stop` when `_handle_shutdown_commit_success` does not loop back into it. -/
def commitAndStop1 (s : St) : St :=
  if s.stopping then shutdownFinish inner (some (.ext .cancelled 0)) s
  else if !cfg.group then shutdownFinish inner none s
  else match commitResult cfg .shut s with
    | some (.ok _) => shutdownFinish inner none (commitState cfg .shut s)   -- `commit()` short-circuited: nothing is behind
    | some (.err f) => if f.isOpInProgress then commitState cfg .shut s else shutdownFinish inner (some f) (commitState cfg .shut s)
    | none => commitState cfg .shut s

/-- `_commit_and_stop` -/
def commitAndStop (s : St) : St := commitAndStop1 cfg inner s

/-- `_handle_shutdown_commit_success` -/
def shutdownSuccess (s : St) : St :=
  if behind cfg s then commitAndStop cfg inner s else shutdownFinish inner none s

/-- Fire one Deferred of `_commit_ds` with `r` (callback, or errback when `r` is a failure). -/
def fireWaiter (r : DRes) (s : St) (w : Waiter) : St :=
  match w, r with
  | .user c, _ => emit (.commitFired c r) s
  | .inProg n, _ => emit (.waiterFired n r) s
  | .autoHead, .ok _ => s
  | .autoHead, .err f => handleAutoCommitError f s
  | .autoRetry bc, .ok _ => autoCommit cfg bc s
  | .autoRetry _, .err _ => s
  | .shutHead, .ok _ => shutdownSuccess cfg inner s
  | .shutHead, .err f => shutdownFinish inner (some f) s
  | .shutInProg, .ok _ => commitAndStop cfg inner s
  | .shutInProg, .err f => shutdownFinish inner (some f) s
  | .orphan, _ => s

/-- `_deliver_commit_result` -/
def deliver (r : DRes) (s : St) : St :=
  let ws := s.commitDs
  ws.reverse.foldl (fireWaiter cfg inner r) { s with commitDs := [] }

/-- The attempt limit `_handle_commit_error` applies: while shutting down a commit never retries
    forever. -/
def commitAttemptLimit (s : St) : Nat :=
  if cfg.maxAttempts == 0 && s.shuttingDown then shutdownRetryAttempts else cfg.maxAttempts

/-- `_handle_commit_error` (after `_clear_commit_req`) -/
def handleCommitError (f : Fail) (delay : Rat) (attempt : Nat) (s : St) : St :=
  if s.stopping && f.isCancelled then deliver cfg inner (.ok s.lastCommitted) s
  else if !f.isKafka then deliver cfg inner (.err f) s
  else if f.isGroupFatal then deliver cfg inner (.err f) s
  else if commitAttemptLimit cfg s != 0 && attempt ≥ commitAttemptLimit cfg s then deliver cfg inner (.err f) s
  else
    let nd := nextDelay cfg.retryMax delay
    { emit (.setTimer .commit nd) s with commitCall := .pending (s.now + nd) nd (attempt + 1) }

/-- Clean-up at the end of `_process_messages` when nothing can be parked (the block was created in
    this very step). -/
def finishSimple (s : St) : St :=
  if s.msgBlock then { s with msgBlock := false, parked := none } else s

/-- `_handle_fetch_error` after `self._request_d = None` -/
def fetchErrorTail (f : Fail) (s : St) : St :=
  if s.startD == .none then s else   -- stopped: late result of a cancelled request
  if f.isOutOfRange && cfg.reset.isNone then startErrback f s else
  let s := if f.isOutOfRange then { s with fetchOffset := cfg.reset.getD s.fetchOffset } else s
  if s.stopping then s
  else if cfg.maxAttempts != 0 && s.attempts ≥ cfg.maxAttempts then startErrback f s
  else retryFetch cfg none s

/-- `_handle_fetch_error` -/
def handleFetchError (f : Fail) (s : St) : St :=
  fetchErrorTail cfg f { s with requestD := .none }

/-- Hand the extracted messages to `_process_messages` (the `finally:` clause). -/
def deliverBlock (msgs : List Msg) (s : St) : St :=
  if msgs.isEmpty then s else
  let s := { s with msgBlock := true }
  let (s, done) := procLoop cfg inner (msgs.length + 1) msgs s
  if s.proc.isSome || !done then s else finishSimple s

/-- `_handle_fetch_response` once no block is in progress.  `viaBlock`: invoked as a callback of
    `_msg_block_d` (a parked reply), where an exception is lost instead of reaching
    `_handle_fetch_error`. -/
def fetchTail (viaBlock : Bool) (r : Reply) (s : St) : St :=
  let msgs := (extract s.fetchOffset r.msgs).1
  let s := { s with fetchOffset := (extract s.fetchOffset r.msgs).2 }
  match r.tail with
  | .done => retryFetch cfg (some 0) (deliverBlock cfg inner msgs s)
  | .small =>
    match grow s.bufferSize cfg.bufMax with
    | some b => retryFetch cfg (some 0) (deliverBlock cfg inner msgs { s with bufferSize := b })
    | none =>
      let raised := errbackRaises s
      let s := deliverBlock cfg inner msgs (startErrback .tooSmall s)
      -- the exception raised by `errback` leaves through the `finally:` and, on the request's own
      -- callback chain, reaches `_handle_fetch_error`
      if raised && !viaBlock then handleFetchError cfg (.ext .other 0) s else s
  | .raise k t =>
    let s := deliverBlock cfg inner msgs s
    if viaBlock then s else handleFetchError cfg (.ext k t) s

/-- `_handle_fetch_response` from `self._request_d = None` on -/
def fetchBody (viaBlock : Bool) (r : Reply) (s : St) : St :=
  fetchTail cfg inner viaBlock r { s with requestD := .none }

/-- `_handle_fetch_response` -/
def handleFetchResponse (k : Nat) (r : Reply) (s : St) : St :=
  if s.startD == .none then { s with requestD := .none } else   -- stopped: late reply, deliver nothing
  let s := { s with retryDelay := cfg.retryInit, attempts := 1 }
  if s.msgBlock then { s with parked := some r, requestD := .parked k }
  else fetchBody cfg inner false r s

/-- End of `_process_messages` when resumed by the processor's result: fire `_msg_block_d`, which
    runs a parked reply. -/
def finishFull (s : St) : St :=
  if s.msgBlock then
    let s := { s with msgBlock := false }
    match s.parked with
    | some r =>
      let s := { s with parked := none }
      if s.startD == .none then { s with requestD := .none } else
      let s := { s with retryDelay := cfg.retryInit, attempts := 1 }
      fetchBody cfg inner true r s
    | none => s
  else s

/-- The processor's Deferred fires: the callbacks that precede the generator's own
    (`_clear_processor_deferred`, `_update_processed_offset`, `_handle_processor_error`). -/
def procFired (g : Gen) (r : Option Fail) (s : St) : St :=
  match r with
  | none => autoCommit cfg true { s with proc := none, lastProcessed := some g.last }
  | some f => handleProcessorError f { s with proc := none }

/-- … then the generator resumes (unless the failure was passed on to it: it returns, leaving
    `_msg_block_d` set). -/
def procResume (g : Gen) (passed : Bool) (s : St) : St :=
  if passed then s
  else
    let res := procLoop cfg inner (g.rest.length + 1) g.rest s
    if res.1.proc.isSome || !res.2 then res.1 else finishFull cfg inner res.1

/-- The processor's Deferred fires (event) or is cancelled by `stop()`. -/
def procResult (g : Gen) (r : Option Fail) (s : St) : St :=
  let passed := match r with
    | none => false
    | some f => procErrPassed f s
  let s := procResume cfg inner g passed (procFired cfg g r s)
  if g.shutWait then commitAndStop cfg inner s else s

/-- The `while self._commit_ds:` loop of `stop()`. -/
def cancelWaiters : Nat → St → St
  | 0, s => if s.commitDs.isEmpty then s else crash "stop: waiter loop" s
  | fuel + 1, s =>
    match s.commitDs.getLast? with
    | none => s
    | some w =>
      let s := { s with commitDs := s.commitDs.dropLast }
      cancelWaiters fuel (fireWaiter cfg inner (.err (.ext .cancelled 0)) s w)

/-- `stop()`: `if self._request_d: self._request_d.cancel()` -/
def stopReq (s : St) : St :=
  match s.requestD with
  | .pending k kind _ =>
    let s := { emit (.cancelReq k) s with requestD := .pending k kind true }
    -- OffsetFetch is routed to the coordinator, like OffsetCommit
    match (if kind == ReqKind.offsetFetch then s.envCommit else s.envReq) with
    | some (ek, tag) =>
      match kind with
      | .fetch => handleFetchError cfg (.ext ek tag) s
      | _ => handleOffsetError cfg (.ext ek tag) s
    | none => s
  | _ => s

/-- `stop()`: the block of messages is cancelled (a parked reply is dropped; `_discard_response`
    forgets its request). -/
def stopBlock (s : St) : St :=
  if s.msgBlock then
    { s with msgBlock := false, requestD := (if s.parked.isSome then .none else s.requestD), parked := none }
  else s

/-- `stop()`: the block of messages, then the processor's Deferred. -/
def stopBlockProc (s : St) : St :=
  match (stopBlock s).proc with
  | some g => procResult cfg inner g (some (.ext .cancelled 0)) (emit .procCancel (stopBlock s))
  | none => stopBlock s

/-- `stop()`: the retry timer -/
def stopRetry (s : St) : St :=
  match s.retryCall with
  | .pending _ => { emit (.cancelTimer .retry) s with retryCall := .dead }
  | _ => s

/-- `stop()`: `if self._commit_req: self._commit_req.cancel()` -/
def stopCommitReq (s : St) : St :=
  match s.commitReq with
  | some r =>
    let s := emit (.cancelReq r.k) s
    match s.envCommit with
    | some (ek, tag) => handleCommitError cfg inner (.ext ek tag) r.delay r.attempt { s with commitReq := none }
    -- the client swallowed the cancel: the request is forgotten (`stop()` clears `_commit_req` before it returns and
    -- nothing reads it in between); its late result is dropped by `_in_this_run` - the event is not enabled any more
    | none => { s with commitReq := none }
  | none => s

/-- `stop()`: the commit retry timer and the auto-commit looper -/
def stopTimers (s : St) : St :=
  let s := match s.commitCall with
    | .pending _ _ _ => { emit (.cancelTimer .commit) s with commitCall := .dead }
    | _ => s
  match s.looper with
  | some l =>
    match l.due with
    | some _ => { emit (.cancelTimer .loop) s with looper := none }
    | none => { s with looper := none }
  | none => s

/-- `stop()`: the run is over - a request whose cancel the client swallowed is forgotten (its late result
    is dropped by `_in_this_run`: the event is simply not enabled any more) -; clear and possibly call back
    the start Deferred -/
def stopFinish (s : St) : St :=
  let s := { s with stopping := false, requestD := .none }
  match s.startD with
  | .pending => { emit (.startFired (.ok s.lastProcessed)) s with startD := .none }
  | .called => { s with startD := .none }
  | .none => crash "stop: _start_d is None" s

/-- The body of `stop()` once `_start_d` is known to be set. -/
def stopCore (s : St) : St :=
  let s := { s with stopping := true }
  let s := stopReq cfg s
  let s := stopBlockProc cfg inner s
  let s := stopRetry s
  let s := cancelWaiters cfg inner (s.commitDs.length + 4) s
  let s := stopCommitReq cfg inner s
  let s := stopTimers s
  stopFinish s

/-- `stop()` -/
def stop (s : St) : St :=
  if s.startD == .none then emit .raisedRestop s
  else
    let s := stopCore cfg inner s
    emit (.stopReturned s.lastProcessed) s

/-- `shutdown()` -/
def shutdown (s : St) : St :=
  if s.startD == .none then emit .shutdownRejected s
  else if s.shutdownD then emit .shutdownRejected s
  else
    let s := { s with shuttingDown := true, shutdownD := true }
    match s.proc with
    | some g => { s with proc := some { g with shutWait := true } }
    | none => commitAndStop cfg inner s

def mkOps : Ops :=
  { stop := stop cfg inner, stopCore := stopCore cfg inner, commit := commitUser cfg, shutdown := shutdown cfg inner }

end WithInner

def opsN (cfg : Cfg) : Nat → Ops
  | 0 => { stop := crash "re-entrancy depth", stopCore := crash "re-entrancy depth", commit := crash "re-entrancy depth",
           shutdown := crash "re-entrancy depth" }
  | n + 1 => mkOps cfg (opsN cfg n)

/-- `start(start_offset)` -/
def start (cfg : Cfg) (off : Int) (s : St) : St :=
  if s.startD != .none then emit .raisedRestart s else
  let s := { s with startD := .pending, fetchOffset := off }
  let s := doFetch cfg s
  if cfg.group && cfg.autoS != 0 then
    { emit (.setTimer .loop (howLong cfg.autoS s.now s.now)) s with
      looper := some { start := s.now, due := some (s.now + howLong cfg.autoS s.now s.now) } }
  else s

def probe (s : St) : St := emit (.probe s.lastProcessed s.lastCommitted) s

/-- One event; `none` when the environment does not enable it (no such request outstanding, timer not
    due, no processor result pending). -/
def stepCore (cfg : Cfg) (s : St) (e : Ev) : Option St :=
  let inner := opsN cfg cfg.depth
  match e with
  | .start off => some (start cfg off s)
  | .stop => some (stop cfg inner s)
  | .shutdown => some (shutdown cfg inner s)
  | .commit => some (commitUser cfg s)
  | .fetchOk k r =>
    if s.requestD == .pending k .fetch false || s.requestD == .pending k .fetch true then some (handleFetchResponse cfg inner k r s) else none
  | .fetchErr k ek tag =>
    if s.requestD == .pending k .fetch false || s.requestD == .pending k .fetch true then some (handleFetchError cfg (.ext ek tag) s) else none
  | .offsetOk k off =>
    if s.requestD == .pending k .offsets false || s.requestD == .pending k .offsets true then some (handleOffsetResponse cfg false off s) else none
  | .offsetErr k ek tag =>
    if s.requestD == .pending k .offsets false || s.requestD == .pending k .offsets true then some (handleOffsetError cfg (.ext ek tag) s) else none
  | .offsetFetchOk k off =>
    if s.requestD == .pending k .offsetFetch false || s.requestD == .pending k .offsetFetch true then some (handleOffsetResponse cfg true off s) else none
  | .offsetFetchErr k ek tag =>
    if s.requestD == .pending k .offsetFetch false || s.requestD == .pending k .offsetFetch true then some (handleOffsetError cfg (.ext ek tag) s) else none
  | .commitOk k =>
    match s.commitReq with
    | some r =>
      if r.k == k then
        -- _clear_commit_req; _update_committed_offset
        some (deliver cfg inner (.ok (some r.off)) { s with commitReq := none, lastCommitted := some r.off })
      else none
    | none => none
  | .commitErr k ek tag =>
    match s.commitReq with
    | some r =>
      if r.k == k then some (handleCommitError cfg inner (.ext ek tag) r.delay r.attempt { s with commitReq := none })
      else none
    | none => none
  | .procOk =>
    match s.proc with
    | some g => some (procResult cfg inner g none s)
    | none => none
  | .procErr ek tag =>
    match s.proc with
    | some g => some (procResult cfg inner g (some (.ext ek tag)) s)
    | none => none
  | .retryFire =>
    match s.retryCall with
    | .pending due => if due ≤ s.now then some (doFetch cfg { s with retryCall := .dead }) else none
    | _ => none
  | .commitRetryFire =>
    match s.commitCall with
    | .pending due delay attempt =>
      if due ≤ s.now then some (sendCommitRequest cfg (some delay) (some attempt) { s with commitCall := .dead }) else none
    | _ => none
  | .autoCommitTick =>
    match s.looper with
    | some l =>
      match l.due with
      | some due =>
        if due ≤ s.now then
          let s := autoCommit cfg false { s with looper := some { l with due := none } }
          match s.looper with
          | some l' =>
            let d := howLong cfg.autoS l'.start s.now
            some { emit (.setTimer .loop d) s with looper := some { l' with due := some (s.now + d) } }
          | none => some s
        else none
      | none => none
    | none => none
  | .advance dt => if dt < 0 then none else some { s with now := s.now + dt }
  | .env rq cm => some { s with envReq := rq, envCommit := cm }

def step (cfg : Cfg) (s : St) (e : Ev) : St :=
  if s.crashed then { s with out := .rej e :: s.out }
  else
    match stepCore cfg { s with out := .ev e :: s.out } e with
    | none => { s with out := .rej e :: s.out }
    | some s' => if s'.crashed then s' else probe s'

def run (cfg : Cfg) (script : List PEntry) (evs : List Ev) : St :=
  evs.foldl (step cfg) (init cfg script)

/-- Chronological trace. -/
def trace (cfg : Cfg) (script : List PEntry) (evs : List Ev) : List Item :=
  (run cfg script evs).out.reverse

end Afkak.Consumer
