import Afkak.Generated.PartitionerConsts
/-!
# Murmur2: the Python function as written, and the Java reference

`pureMurmur2` follows `afkak/partitioner.py: pure_murmur2` statement by statement over unbounded
naturals (Python ints) with the explicit `& 0xFFFFFFFF` / `% 0x100000000` reductions the source
performs.  `murmur2Java` is a transcription of
`org.apache.kafka.common.utils.Utils.murmur2(byte[])` with Java `int` semantics (32-bit wrap-around
multiply, `>>>`, `& 0xff`), written over `UInt32`.
-/
namespace Afkak.Murmur
open Afkak.Consts

/-- One loop iteration of `pure_murmur2` (the body of `for i in range(length4)`). -/
def pyMix (h : Nat) (b0 b1 b2 b3 : UInt8) : Nat :=
  let k := (b0.toNat &&& 0xFF) + ((b1.toNat &&& 0xFF) <<< 8) + ((b2.toNat &&& 0xFF) <<< 16)
            + ((b3.toNat &&& 0xFF) <<< 24)
  let k := k &&& murmurMask32
  let k := k * murmurM
  let k := k &&& murmurMask32
  let k := k ^^^ ((k % 0x100000000) >>> murmurR)
  let k := k &&& murmurMask32
  let k := k * murmurM
  let k := k &&& murmurMask32
  let h := h * murmurM
  let h := h &&& murmurMask32
  let h := h ^^^ k
  h &&& murmurMask32

/-- The 4-byte-chunk loop; returns the running hash and the `length % 4` trailing bytes. -/
def pyLoop (h : Nat) : List UInt8 → Nat × List UInt8
  | b0 :: b1 :: b2 :: b3 :: rest => pyLoop (pyMix h b0 b1 b2 b3) rest
  | tail => (h, tail)

/-- The "last few bytes" section of `pure_murmur2`. -/
def pyTail (h : Nat) : List UInt8 → Nat
  | [t0, t1, t2] =>
    let h := (h ^^^ ((t2.toNat &&& 0xFF) <<< 16)) &&& murmurMask32
    let h := (h ^^^ ((t1.toNat &&& 0xFF) <<< 8)) &&& murmurMask32
    let h := (h ^^^ (t0.toNat &&& 0xFF)) &&& murmurMask32
    (h * murmurM) &&& murmurMask32
  | [t0, t1] =>
    let h := (h ^^^ ((t1.toNat &&& 0xFF) <<< 8)) &&& murmurMask32
    let h := (h ^^^ (t0.toNat &&& 0xFF)) &&& murmurMask32
    (h * murmurM) &&& murmurMask32
  | [t0] =>
    let h := (h ^^^ (t0.toNat &&& 0xFF)) &&& murmurMask32
    (h * murmurM) &&& murmurMask32
  | _ => h

/-- The final avalanche of `pure_murmur2`. -/
def pyFinal (h : Nat) : Nat :=
  let h := (h ^^^ ((h % 0x100000000) >>> 13)) &&& murmurMask32
  let h := (h * murmurM) &&& murmurMask32
  (h ^^^ ((h % 0x100000000) >>> 15)) &&& murmurMask32

/-- `pure_murmur2(bytearray(bs), seed)`. -/
def pureMurmur2 (bs : List UInt8) (seed : Nat := murmurSeed) : Nat :=
  let (h, tail) := pyLoop (seed ^^^ bs.length) bs
  pyFinal (pyTail h tail)

/-! ## Java reference (`int` = `UInt32` bit patterns) -/

def jM : UInt32 := 0x5bd1e995

def jMix (h : UInt32) (b0 b1 b2 b3 : UInt8) : UInt32 :=
  let k : UInt32 := b0.toUInt32 + (b1.toUInt32 <<< 8) + (b2.toUInt32 <<< 16) + (b3.toUInt32 <<< 24)
  let k := k * jM
  let k := k ^^^ (k >>> 24)
  let k := k * jM
  let h := h * jM
  h ^^^ k

def jLoop (h : UInt32) : List UInt8 → UInt32 × List UInt8
  | b0 :: b1 :: b2 :: b3 :: rest => jLoop (jMix h b0 b1 b2 b3) rest
  | tail => (h, tail)

/-- Java's fall-through `switch (length % 4)`. -/
def jTail (h : UInt32) : List UInt8 → UInt32
  | [t0, t1, t2] => (((h ^^^ (t2.toUInt32 <<< 16)) ^^^ (t1.toUInt32 <<< 8)) ^^^ t0.toUInt32) * jM
  | [t0, t1] => ((h ^^^ (t1.toUInt32 <<< 8)) ^^^ t0.toUInt32) * jM
  | [t0] => (h ^^^ t0.toUInt32) * jM
  | _ => h

def jFinal (h : UInt32) : UInt32 :=
  let h := h ^^^ (h >>> 13)
  let h := h * jM
  h ^^^ (h >>> 15)

/-- `Utils.murmur2(data)` with `seed = 0x9747b28c`; `length` is a Java `int`. -/
def murmur2Java (bs : List UInt8) : UInt32 :=
  let (h, tail) := jLoop ((0x9747b28c : UInt32) ^^^ UInt32.ofNat bs.length) bs
  jFinal (jTail h tail)

end Afkak.Murmur
