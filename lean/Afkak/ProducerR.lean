import Afkak.Producer
/-!
# The Producer with RE-ENTRANT callbacks

`Afkak/Producer.lean` treats every API call / client completion / timer as one atomic step.  That is exact
as long as the callbacks a caller attaches to the Deferreds of `send_messages` do not call back into the
Producer.  Twisted runs callbacks synchronously inside `callback()` / `errback()` / `cancel()`, so a caller's
callback that calls `send_messages()`, cancels another send or calls `stop()` runs IN THE MIDDLE of the loop
that is firing the Deferreds: `_send_requests`' loop over the look-up results, `_deliver_result`'s loops in
`_handle_send_response`, `_cancel_outstanding`'s loop in `stop()`.  This file is the same machine with those
loops threading the whole state, so that a callback ("hook") runs at the exact point the code fires a
Deferred (the Deferred has already left `_outstanding`: `_remove_from_outstanding` is its first callback):

* every loop re-tests `d.called` (here: membership in `_outstanding`) against the CURRENT state;
* `_send_requests` re-tests `self.stopping` after its loop (fix F19: a callback of a send failed in the loop
  may have called `stop()`; the sends grouped so far must not be transmitted);
* while a callback of the batch Deferred's chain is running (`running`: inside `_send_requests`,
  `_handle_send_response`, `_cancel_retry`) `self._batch_send_d.cancel()` does nothing - the chain is not
  waiting on anything - so a re-entrant `stop()` only sets `stopping`, stops the looping call and cancels
  what is outstanding; the code that was running goes on, finds its Deferreds called and its guards set;
* a send made by a callback while a batch is in flight is queued; when the chain reaches
  `_check_send_batch` it may be dispatched at once (the nested dispatch the flat model knows to be empty).

A hook is a finite list of calls; it is attached right after `send_messages` returned (as the harness does),
so a Deferred that fired inside `send_messages` runs its hook after the call.  Calls made by a hook are
executed by `act`, the machine one level down (`actAt`): hooks nest at most as deep as there are hooked
sends; `depthOut` would be emitted if the levels ran out (the driver uses 12).
-/
namespace Afkak.ProducerR
open Afkak.Consts Afkak.Producer

/-- one call a callback makes into the Producer -/
inductive Action
  | send (topic : Topic) (key : Option (List UInt8)) (msgs : List (Option Nat))
  | cancel (sid : Sid)
  | stop (wipe : Bool) (pout : Option ProdRes) (mouts : List (Rid × MetaRes))
  deriving Repr

abbrev Hook := List Action

inductive ObR
  | ob (o : Ob)
  | hookBegin (sid : Sid)
  | hookEnd
  | depthOut
  deriving DecidableEq, Repr

inductive EvR
  | flat (e : Ev)
  /-- `send_messages` whose Deferred gets a callback making the calls of `hook` -/
  | sendH (sid : Sid) (topic : Topic) (key : Option (List UInt8)) (msgs : List (Option Nat)) (hook : Hook)
  deriving Repr

structure StR where
  core : St
  /-- callbacks waiting on unfired send Deferreds -/
  hooks : List (Sid × Hook) := []
  /-- a callback of `_batch_send_d`'s chain is executing -/
  running : Bool := false
  deriving Repr

def StR.init (cfg : Cfg) : StR := { core := St.init cfg }

/-- how a call made by a hook is executed -/
abbrev Act := StR → Action → StR × List ObR

def lift (obs : List Ob) : List ObR := obs.map .ob

/-- how deep `_check_send_batch → _send_batch → … → _check_send_batch` may nest inside one step -/
def chainFuel : Nat := 64

section
variable (cfg : Cfg) (act : Act)

def runActs : StR → List Action → StR × List ObR
  | st, [] => (st, [])
  | st, a :: rest =>
    let (s1, o1) := act st a
    let (s2, o2) := runActs s1 rest
    (s2, o1 ++ o2)

def hookOf (st : StR) (s : Sid) : Option Hook := ((st.hooks.filter (·.1 = s)).head?).map (·.2)

/-- the Deferred of `s` fires (it has already left `_outstanding`): its callback, if any, runs now -/
def fired (st : StR) (s : Sid) (o : Outcome) : StR × List ObR :=
  match hookOf st s with
  | none => (st, [.ob (.fire s o)])
  | some h =>
    let (s1, obs) := runActs act { st with hooks := st.hooks.filter (·.1 ≠ s) } h
    (s1, [.ob (.fire s o), .hookBegin s] ++ obs ++ [.hookEnd])

def eraseOut (st : StR) (s : Sid) : StR := { st with core := { st.core with outstanding := st.core.outstanding.erase s } }

/-- `_deliver_result`: `for d in d_list: if not d.called: d.callback(result)` -/
def deliver : StR → List Sid → Outcome → StR × List ObR
  | st, [], _ => (st, [])
  | st, s :: rest, o =>
    if s ∈ st.core.outstanding then
      let (s1, o1) := fired act (eraseOut st s) s o
      let (s2, o2) := deliver s1 rest o
      (s2, o1 ++ o2)
    else deliver st rest o

def deliverMany : StR → List (List Sid × Outcome) → StR × List ObR
  | st, [] => (st, [])
  | st, (sids, o) :: rest =>
    let (s1, o1) := deliver act st sids o
    let (s2, o2) := deliverMany s1 rest
    (s2, o1 ++ o2)

/-- the loop of `_send_requests` -/
def procResults : List Lookup → StR → List Payload → StR × List Payload × List ObR
  | [], st, gs => (st, gs, [])
  | l :: rest, st, gs =>
    if l.req.sid ∈ st.core.outstanding then
      match l.pc with
      | .done (.part p) => procResults rest st (addToGroups gs ⟨l.req.topic, p⟩ l.req.sid l.req.wire)
      | .done (.fail k) =>
        let (s1, o1) := fired act (eraseOut st l.req.sid) l.req.sid (.err k)
        let (s2, g, o2) := procResults rest s1 gs
        (s2, g, o1 ++ o2)
      | _ => procResults rest st gs
    else procResults rest st gs

/-- `_send_requests`; the Bool says the batch resolved (no request went out) -/
def sendRequests (st : StR) (ls : List Lookup) : StR × List ObR × Bool :=
  if st.core.stopping then (st, [], true)
  else
    let (s1, gs, obs) := procResults act ls { st with running := true } []
    let s2 := { s1 with running := false }
    if gs.isEmpty || s2.core.stopping then (s2, obs, true)
    else
      let b : Batch := { groups := gs, live := gs.map (·.tp), current := gs.map (·.tp) }
      ({ s2 with core := { s2.core with nextRid := s2.core.nextRid + 1, attempts := s2.core.attempts + 1,
                                         phase := .sending s2.core.nextRid b } },
        obs ++ [.ob (.produce s2.core.nextRid gs)], false)

/-- `_complete_batch_send` then `_check_send_batch`, the dispatch being `d` -/
def completeWith (d : StR → StR × List ObR) (st : StR) : StR × List ObR :=
  let st' := { st with core := resetBatch cfg st.core }
  if thresholdMet cfg st'.core && canDispatch st'.core then d st' else (st', [])

/-- `_send_batch` past its guard (the chain of the new `_batch_send_d` runs as far as it can at once) -/
def dispatchN : Nat → StR → StR × List ObR
  | 0, st => (st, [.depthOut])
  | n + 1, st =>
    let r := startLookups cfg { st.core with queue := [], msgCount := 0, byteCount := 0 } st.core.queue
    let st2 := { st with core := { r.1 with phase := .lookups r.2.1 } }
    if r.2.1.all (·.pc.isDone) then
      let (st3, obs2, resolved) := sendRequests act st2 r.2.1
      if resolved then
        let (st4, obs3) := completeWith cfg (dispatchN n) st3
        (st4, lift r.2.2 ++ obs2 ++ obs3)
      else (st3, lift r.2.2 ++ obs2)
    else (st2, lift r.2.2)

def dispatch (st : StR) : StR × List ObR := dispatchN cfg act chainFuel st

def sendBatch (st : StR) : StR × List ObR :=
  if canDispatch st.core then dispatch cfg act st else (st, [])

def checkSendBatch (st : StR) : StR × List ObR :=
  if thresholdMet cfg st.core then sendBatch cfg act st else (st, [])

def completeBatch (st : StR) : StR × List ObR := completeWith cfg (dispatch cfg act) st

def afterLookups (st : StR) (ls : List Lookup) (obs : List Ob) : StR × List ObR :=
  let st1 := { st with core := { st.core with phase := .lookups ls } }
  if ls.all (·.pc.isDone) then
    let (st2, obs2, resolved) := sendRequests act st1 ls
    if resolved then
      let (st3, obs3) := completeBatch cfg act st2
      (st3, lift obs ++ obs2 ++ obs3)
    else (st2, lift obs ++ obs2)
  else (st1, lift obs)

/-- `_check_retry_payloads` -/
def checkRetry (st : StR) (b : Batch) (failed : List FailedP) : StR × List ObR × Bool :=
  if st.core.stopping then (st, [], true)
  else if st.core.attempts ≥ cfg.maxAttempts then
    let (s1, o1) := deliverMany act st (failed.map (fun f => (b.sidsOf f.tp, .err f.kind)))
    let (s2, o2) := if cfg.acks = producerAckNotRequired then deliver act s1 b.allSids .okNone else (s1, [])
    (s2, o1 ++ o2, true)
  else
    let r := Producer.checkRetry cfg st.core b failed
    ({ st with core := r.1 }, lift r.2.1, r.2.2)

def handleResults (st : StR) (b : Batch) (rs : List Resp) (fs : List FailedP) : StR × List ObR × Bool :=
  let failed := fs ++ (rs.filter (·.error ≠ 0)).map (fun r => ⟨r.tp, .broker r.error, false⟩)
  let good := rs.filter (·.error = 0)
  let (s1, o1) := deliverMany act st (good.map (fun r => (b.sidsOf r.tp, .ok r)))
  let b' := { b with live := b.live.filter (fun tp => failed.any (·.tp = tp)) }
  if failed.isEmpty then (s1, o1, true)
  else
    let (s2, o2, resolved) := checkRetry cfg act s1 b' failed
    (s2, o1 ++ o2, resolved)

def deliverAll (st : StR) (b : Batch) (o : Outcome) : StR × List ObR × Bool :=
  let (s1, o1) := deliver act st b.allSids o
  (s1, o1, true)

/-- `_handle_send_response`: a callback of the chain runs from here to its `return` -/
def handleSendResponse (st : StR) (b : Batch) (r : ProdRes) : StR × List ObR × Bool :=
  let st := { st with running := true }
  let out : StR × List ObR × Bool :=
    match r with
    | .none => deliverAll act st b (if cfg.acks = producerAckNotRequired then .okNone else .err .noResponse)
    | .responses [] => deliverAll act st b (if cfg.acks = producerAckNotRequired then .okNone else .err .noResponse)
    | .responses rs => handleResults cfg act st b rs []
    | .failed rs fs => handleResults cfg act st b rs fs
    | .err k =>
      if k.isKafka then handleResults cfg act st b [] (b.live.map (fun tp => ⟨tp, k, true⟩))
      else deliverAll act st b (.err k)
  ({ out.1 with running := false }, out.2.1, out.2.2)

def finish (r : StR × List ObR × Bool) : StR × List ObR :=
  if r.2.2 then
    let (st', obs') := completeBatch cfg act r.1
    (st', r.2.1 ++ obs')
  else (r.1, r.2.1)

/-- `_cancel_send_messages`, then the Deferred's callback -/
def cancelSend (st : StR) (sid : Sid) : StR × List ObR :=
  let r := Producer.cancelSend st.core sid
  match r.2 with
  | [.fire s o] => fired act { st with core := r.1 } s o
  | obs => ({ st with core := r.1 }, lift obs)

/-- `_cancel_outstanding`: `for d in list(self._outstanding): d.cancel()` -/
def cancelAll : StR → List Sid → StR × List ObR
  | st, [] => (st, [])
  | st, s :: rest =>
    let (st1, obs1) := cancelSend act st s
    let (st2, obs2) := cancelAll st1 rest
    (st2, obs1 ++ obs2)

def cancelLookups (st : StR) (ls : List Lookup) (mouts : List (Rid × MetaRes)) : StR × List ObR :=
  let rs := ls.map (cancelLookup mouts)
  afterLookups cfg act { st with core := { st.core with zombies := st.core.zombies ++ rs.flatMap (·.2.1) } }
    (rs.map (·.1)) (rs.flatMap (·.2.2))

def cancelSending (st : StR) (wipe : Bool) (rid : Rid) (b : Batch) : Option ProdRes → StR × List ObR
  | none => (st, [.ob (.cancelReq rid)])
  | some r =>
    let st1 := if wipe then { st with core := { st.core with tmeta := [] } } else st
    let (st2, obs) := finish cfg act (handleSendResponse cfg act st1 b r)
    (st2, .ob (.cancelReq rid) :: obs)

/-- `_cancel_retry`: a callback (errback) of the chain -/
def cancelRetryWait (st : StR) (tid : Tid) (b : Batch) : StR × List ObR :=
  let d := deliverAll act { st with running := true } b (.err .tcancelled)
  let (st1, obs) := finish cfg act ({ d.1 with running := false }, d.2.1, d.2.2)
  (st1, .ob (.cancelTimer tid) :: obs)

/-- `self._batch_send_d.cancel()`: nothing while the chain is executing a callback -/
def cancelBatch (st : StR) (wipe : Bool) (pout : Option ProdRes) (mouts : List (Rid × MetaRes)) : StR × List ObR :=
  if st.running then (st, [])
  else
    match st.core.phase with
    | .idle => (st, [])
    | .lookups ls => cancelLookups cfg act st ls mouts
    | .sending rid b => cancelSending cfg act st wipe rid b pout
    | .retryWait tid b _ => cancelRetryWait cfg act st tid b

def doStop (st : StR) (wipe : Bool) (pout : Option ProdRes) (mouts : List (Rid × MetaRes)) : StR × List ObR :=
  let (st2, obs2) := cancelBatch cfg act { st with core := { st.core with stopping := true } } wipe pout mouts
  let (st3, obs3) : StR × List ObR :=
    if cfg.everyT.isSome && st2.core.looper then ({ st2 with core := { st2.core with looper := false } }, [.ob .stopLooper])
    else (st2, [])
  let (st4, obs4) := cancelAll act st3 st3.core.outstanding
  (st4, obs2 ++ obs3 ++ obs4)

def timerLookups (st : StR) (ls : List Lookup) (tid : Tid) : StR × List ObR :=
  match findPc ls (.waitBackoff tid) with
  | some l =>
    let r := lookupHead cfg st.core l.req
    afterLookups cfg act { st with core := r.1 } (setPc ls (.waitBackoff tid) r.2.1) r.2.2
  | none => let z := zombieTimer st.core tid; ({ st with core := z.1 }, lift z.2)

def metaDoneLookups (st : StR) (ls : List Lookup) (rid : Rid) (res : MetaRes) : StR × List ObR :=
  match findPc ls (.waitMeta rid) with
  | some l =>
    let r := metaContinue cfg st.core l.req res
    afterLookups cfg act { st with core := r.1 } (setPc ls (.waitMeta rid) r.2.1) r.2.2
  | none => (st, [.ob .badOp])

/-- one call into the Producer / one completion, hooks running where Deferreds fire -/
def stepCore (st : StR) : Ev → StR × List ObR
  | .send sid topic key msgs =>
    if sid ≠ st.core.nextSid then (st, [.ob .badOp])
    else if msgs.isEmpty || st.core.stopping then
      ({ st with core := { st.core with nextSid := st.core.nextSid + 1 } },
        [.ob (.fire sid (.err (if msgs.isEmpty then .other 4 else .acancelled (some false))))])
    else checkSendBatch cfg act { st with core := enqueue st.core sid topic key msgs }
  | .cancel sid =>
    if sid < st.core.nextSid then cancelSend act st sid else (st, [.ob .badOp])
  | .tick =>
    if st.core.looper then sendBatch cfg act st else (st, [.ob .badOp])
  | .timer tid =>
    match st.core.phase with
    | .lookups ls => timerLookups cfg act st ls tid
    | .retryWait t b tps =>
      if t = tid then let r := doRetry st.core b tps; ({ st with core := r.1 }, lift r.2)
      else let z := zombieTimer st.core tid; ({ st with core := z.1 }, lift z.2)
    | _ => let z := zombieTimer st.core tid; ({ st with core := z.1 }, lift z.2)
  | .advance _ => (st, [])
  | .metaSet topic err parts =>
    ({ st with core := { st.core with tmeta := st.core.tmeta.filter (·.topic ≠ topic) ++ [{ topic, err, parts }] } }, [])
  | .metaReset topics => ({ st with core := { st.core with tmeta := st.core.tmeta.filter (fun m => m.topic ∉ topics) } }, [])
  | .metaWipe => ({ st with core := { st.core with tmeta := [] } }, [])
  | .metaDone rid res =>
    match st.core.phase with
    | .lookups ls => metaDoneLookups cfg act st ls rid res
    | _ => (st, [.ob .badOp])
  | .produceDone rid res =>
    match st.core.phase with
    | .sending r b =>
      if r = rid && validResult b res then finish cfg act (handleSendResponse cfg act st b res)
      else (st, [.ob .badOp])
    | _ => (st, [.ob .badOp])
  | .stop wipe pout mouts =>
    if !st.running && !stopValid st.core pout then (st, [.ob .badOp]) else doStop cfg act st wipe pout mouts

end

/-- the event a hook's call amounts to -/
def Action.toEv (st : StR) : Action → Ev
  | .send topic key msgs => .send st.core.nextSid topic key msgs
  | .cancel sid => .cancel sid
  | .stop wipe pout mouts => .stop wipe pout mouts

/-- calls made by hooks, `n` levels of nesting left -/
def actAt (cfg : Cfg) : Nat → Act
  | 0 => fun st _ => (st, [.depthOut])
  | n + 1 => fun st a => stepCore cfg (actAt cfg n) st (a.toEv st)

def stepR (cfg : Cfg) (depth : Nat) (st : StR) : EvR → StR × List ObR
  | .flat e => stepCore cfg (actAt cfg depth) st e
  | .sendH sid topic key msgs hook =>
    let (s1, obs) := stepCore cfg (actAt cfg depth) st (.send sid topic key msgs)
    if sid ≠ st.core.nextSid then (s1, obs)
    else if sid ∈ s1.core.outstanding then ({ s1 with hooks := s1.hooks ++ [(sid, hook)] }, obs)
    else
      -- the Deferred fired inside `send_messages`: the callback runs as it is attached
      let (s2, obs2) := runActs (actAt cfg depth) s1 hook
      (s2, obs ++ [.hookBegin sid] ++ obs2 ++ [.hookEnd])

def runR (cfg : Cfg) (depth : Nat) : StR → List EvR → StR × List ObR
  | st, [] => (st, [])
  | st, e :: es =>
    let (st1, obs1) := stepR cfg depth st e
    let (st2, obs2) := runR cfg depth st1 es
    (st2, obs1 ++ obs2)

end Afkak.ProducerR
