import Afkak.Murmur
/-!
# Partitioners (`afkak/partitioner.py`)

`HashedPartitioner.partition(key, partitions)` and `RoundRobinPartitioner` as written.
`randint` is a parameter (the harness scripts it).  Python exceptions are `none`.
-/
namespace Afkak.Partitioner
open Afkak.Consts Afkak.Murmur

/-- `HashedPartitioner.partition`: `partitions[(hash & 0x7FFFFFFF) % len(partitions)]`.
    `len = 0` raises `ZeroDivisionError` in Python: `none`. -/
def hashed (key : List UInt8) (ps : List Int) : Option Int :=
  if ps.length = 0 then none
  else ps[((pureMurmur2 key) &&& hashedPositiveMask) % ps.length]?

/-- The Java client's `DefaultPartitioner`: `toPositive(murmur2(key)) % numPartitions` as an index. -/
def javaIndex (key : List UInt8) (n : Nat) : Nat :=
  ((murmur2Java key).toNat &&& 0x7fffffff) % n

/-- State of a `RoundRobinPartitioner`: `self.partitions` (a sorted copy) and the `itertools.cycle`
    iterator, modelled as the rotation of the list it was built from whose head is the next pick. -/
structure RR where
  parts : List Int
  rot : List Int
  deriving Repr, DecidableEq

/-- `sorted(partitions)` — insertion sort (structural, so it evaluates in the kernel). -/
def insertInt (a : Int) : List Int → List Int
  | [] => [a]
  | b :: l => if a ≤ b then a :: b :: l else b :: insertInt a l

def sortInts : List Int → List Int
  | [] => []
  | a :: l => insertInt a (sortInts l)

/-- one `next(self.iterpart)` -/
def rotate1 : List Int → List Int
  | [] => []
  | x :: xs => xs ++ [x]

def rotateN : Nat → List Int → List Int
  | 0, l => l
  | n+1, l => rotateN n (rotate1 l)

/-- `_set_partitions(partitions)`; `start` is the value `randint(0, len-1)` returned when
    `randomStart` is on, `none` when it is off.  `randint(0, -1)` raises: `none`. -/
def setPartitions (ps : List Int) (start : Option Nat) : Option RR :=
  match start with
  | none => some { parts := sortInts ps, rot := ps }
  | some r => if ps.length = 0 then none else some { parts := sortInts ps, rot := rotateN r ps }

/-- `partition(key, partitions)`: refresh if `self.partitions != partitions`, then `next`.
    `next` on an empty cycle raises `StopIteration`: `none`. -/
def rrPartition (st : RR) (ps : List Int) (start : Option Nat) : Option (Int × RR) :=
  let st? := if st.parts ≠ ps then setPartitions ps start else some st
  match st? with
  | none => none
  | some st' =>
    match st'.rot with
    | [] => none
    | x :: _ => some (x, { st' with rot := rotate1 st'.rot })

/-- `k` consecutive picks with the same list and (if refreshed) the same scripted start. -/
def rrPicks (st : RR) (ps : List Int) (start : Option Nat) : Nat → Option (List Int × RR)
  | 0 => some ([], st)
  | k+1 => match rrPartition st ps start with
    | none => none
    | some (x, st') => match rrPicks st' ps start k with
      | none => none
      | some (xs, st'') => some (x :: xs, st'')

end Afkak.Partitioner
