import Afkak.Murmur
import Afkak.Assign
/-!
# Partitioners (`afkak/partitioner.py`)

`HashedPartitioner.partition(key, partitions)` and `RoundRobinPartitioner` as written.
`randint` is a parameter (the harness scripts it).  Python exceptions are `none`.
-/
namespace Afkak.Partitioner
open Afkak.Consts Afkak.Murmur

/-- `HashedPartitioner.partition`: `partitions[(hash & 0x7FFFFFFF) % len(partitions)]`.
    `len = 0` raises `ZeroDivisionError` in Python: `none`. -/
def hashed (key : List UInt8) (ps : List Int) : Option Int :=
  if ps.length = 0 then none
  else ps[((pureMurmur2 key) &&& hashedPositiveMask) % ps.length]?

/-- A partition key as the caller passes it: `bytes`/`bytearray`, or a text string (its code points). -/
inductive Key
  | bytes (b : List UInt8)
  | text (cps : List Nat)
  deriving Repr, DecidableEq

/-- `HashedPartitioner._hash`'s coercion: a text key is encoded as UTF-8 (`bytearray(key, "UTF-8")`,
    no normalisation; lone surrogates raise `UnicodeEncodeError`: `none`), bytes are taken as they
    are.  The UTF-8 encoder is the model's own (`Afkak.Assign.utf8Encode`, RFC 3629), not Python's. -/
def keyBytes : Key → Option (List UInt8)
  | .bytes b => some b
  | .text cps => match Afkak.Assign.utf8Encode cps with
    | .ok b => some b
    | .error _ => none

/-- `HashedPartitioner.partition(key, partitions)` for a key of either form. -/
def hashedKey (k : Key) (ps : List Int) : Option Int :=
  match keyBytes k with
  | none => none
  | some b => hashed b ps

/-- The Java client's `DefaultPartitioner`: `toPositive(murmur2(key)) % numPartitions` as an index. -/
def javaIndex (key : List UInt8) (n : Nat) : Nat :=
  ((murmur2Java key).toNat &&& 0x7fffffff) % n

/-- State of a `RoundRobinPartitioner`: `self.partitions` (a sorted copy) and the `itertools.cycle`
    iterator, modelled as the rotation of the list it was built from whose head is the next pick. -/
structure RR where
  parts : List Int
  rot : List Int
  deriving Repr, DecidableEq

/-- `sorted(partitions)` — insertion sort (structural, so it evaluates in the kernel). -/
def insertInt (a : Int) : List Int → List Int
  | [] => [a]
  | b :: l => if a ≤ b then a :: b :: l else b :: insertInt a l

def sortInts : List Int → List Int
  | [] => []
  | a :: l => insertInt a (sortInts l)

/-- one `next(self.iterpart)` -/
def rotate1 : List Int → List Int
  | [] => []
  | x :: xs => xs ++ [x]

def rotateN : Nat → List Int → List Int
  | 0, l => l
  | n+1, l => rotateN n (rotate1 l)

/-- `_set_partitions(partitions)`; `start` is the value `randint(0, len-1)` returned when
    `randomStart` is on, `none` when it is off.  `randint(0, -1)` raises: `none`. -/
def setPartitions (ps : List Int) (start : Option Nat) : Option RR :=
  match start with
  | none => some { parts := sortInts ps, rot := ps }
  | some r => if ps.length = 0 then none else some { parts := sortInts ps, rot := rotateN r ps }

/-- `partition(key, partitions)`: refresh if `self.partitions != partitions`, then `next`.
    `next` on an empty cycle raises `StopIteration`: `none`. -/
def rrPartition (st : RR) (ps : List Int) (start : Option Nat) : Option (Int × RR) :=
  let st? := if st.parts ≠ ps then setPartitions ps start else some st
  match st? with
  | none => none
  | some st' =>
    match st'.rot with
    | [] => none
    | x :: _ => some (x, { st' with rot := rotate1 st'.rot })

/-- The state a call leaves behind when it RAISES (the driver keeps going after an exception):
    `_set_partitions` has already stored the sorted copy and the new cycle before `randint` or
    `next` raises; without a refresh nothing changed. -/
def rrAfterError (st : RR) (ps : List Int) : RR :=
  if st.parts ≠ ps then { parts := sortInts ps, rot := ps } else st

/-- `k` consecutive picks with the same list and (if refreshed) the same scripted start. -/
def rrPicks (st : RR) (ps : List Int) (start : Option Nat) : Nat → Option (List Int × RR)
  | 0 => some ([], st)
  | k+1 => match rrPartition st ps start with
    | none => none
    | some (x, st') => match rrPicks st' ps start k with
      | none => none
      | some (xs, st'') => some (x :: xs, st'')

end Afkak.Partitioner

namespace Afkak.Partitioner

/-! ## The producer's per-topic partitioners (`Producer._next_partition`, producer.py)

`self.partitioners` is a dict topic → partitioner; a missing topic gets
`partitioner_class(topic, partitions)` (whose `__init__` runs `_set_partitions`) and then
`.partition(key, partitions)` is called with the current partition list. -/

abbrev PMap := List (String × RR)

def PMap.get (m : PMap) (t : String) : Option RR :=
  match m with
  | [] => none
  | (t', st) :: rest => if t' = t then some st else PMap.get rest t

def PMap.set (m : PMap) (t : String) (st : RR) : PMap :=
  match m with
  | [] => [(t, st)]
  | (t', st') :: rest => if t' = t then (t, st) :: rest else (t', st') :: PMap.set rest t st

/-- `_next_partition(topic, key)` for the round-robin class, metadata already good. -/
def getOrNew (m : PMap) (t : String) (ps : List Int) (start : Option Nat) : Option RR :=
  match m.get t with
  | some st => some st
  | none => setPartitions ps start

def nextPartitionRR (m : PMap) (t : String) (ps : List Int) (start : Option Nat) :
    Option (Int × PMap) :=
  match getOrNew m t ps start with
  | none => none
  | some st => match rrPartition st ps start with
    | none => none
    | some (x, st') => some (x, m.set t st')

/-- The map a call leaves behind when it RAISES (`nextPartitionRR … = none`; the producer keeps going
    after an exception).  A topic that already has a partitioner: `.partition` raised, after
    `_set_partitions` (if the list differed) had stored the sorted copy and the new cycle
    (`rrAfterError`).  A topic without one: if the constructor raises (`_set_partitions` in `__init__`:
    `randint(0, -1)`), nothing is stored in `self.partitioners`; otherwise the constructed
    partitioner IS stored before `.partition` is called on it and raises. -/
def nextPartitionRRAfterError (m : PMap) (t : String) (ps : List Int) (start : Option Nat) : PMap :=
  match m.get t with
  | some st => m.set t (rrAfterError st ps)
  | none => match setPartitions ps start with
    | none => m
    | some st => m.set t (rrAfterError st ps)

end Afkak.Partitioner

namespace Afkak.Partitioner

structure Call where
  topic : String
  ps : List Int
  start : Option Nat
  deriving Repr, DecidableEq

/-- The selections made for topic `t` (in order; `none` = the call raised) while the producer
    processes an arbitrary interleaving of calls for any topics.  A call that raises still leaves
    its mark on the topic's partitioner (`nextPartitionRRAfterError`). -/
def picksOf (t : String) (m : PMap) : List Call → List (Option Int)
  | [] => []
  | c :: cs => match nextPartitionRR m c.topic c.ps c.start with
    | none => (if c.topic = t then [none] else []) ++
        picksOf t (nextPartitionRRAfterError m c.topic c.ps c.start) cs
    | some (x, m') => (if c.topic = t then [some x] else []) ++ picksOf t m' cs

end Afkak.Partitioner
