import Afkak.Generated.CrcConsts
/-!
# The consumer's reaction to `ConsumerFetchSizeTooSmall` (`Consumer._handle_fetch_response`,
the `except ConsumerFetchSizeTooSmall` handler), as a pure function of
`(buffer_size, max_buffer_size)`.  `none` = "already at max": the start Deferred is failed.
The fetch offset is not touched by the handler (it is only advanced when a message is appended).
-/
namespace Afkak.C12
open Afkak.Consts

def growFactor (b : Nat) : Nat := if b ≤ c12GrowThreshold then c12GrowFactorSmall else c12GrowFactor

/-- new `buffer_size`, or `none` when the consumer gives up -/
def grow (b : Nat) (max : Option Nat) : Option Nat :=
  match max with
  | none => some (b * growFactor b)
  | some m => if b < m then some (min (b * growFactor b) m) else none

/-- `n` consecutive too-small answers -/
def growN (max : Option Nat) : Nat → Nat → Option Nat
  | 0, b => some b
  | n + 1, b => match grow b max with
    | none => none
    | some b' => growN max n b'

end Afkak.C12
