import Afkak.Crc32
import Afkak.WireCost
/-!
# Message and message-set decoding as written (`KafkaCodec._decode_message_set_iter`,
`KafkaCodec._decode_message`), cost-instrumented; and an independent message-set encoder.

`decodeSet` models *iterating* the generator: the `OffsetAndMessage`s it yields, then the exception
(if any) that ends it.  The partial-trailing-message rule is the `except BufferUnderflowError`
handler of the `while` loop: `ConsumerFetchSizeTooSmall` when nothing has been yielded yet,
silent end of the iteration otherwise.

`gzip_decode` is a parameter (`Gz`); the harness records what the real one returned and hands the
same table to the model.  Snappy is not installed: `snappy_decode` raises `NotImplementedError`.
-/
namespace Afkak.C12
open Afkak.Crc32 Afkak.WireCost Afkak.Consts

/-- `gzip_decode(value)`; `value` may be `None`.  An exception is given by its class name. -/
abbrev Gz := Option (List UInt8) → Except String (List UInt8)

/-- Outcome of `_decode_message(msg, offset)` followed by exhausting the generator it returns. -/
inductive MsgRes where
  /-- `BufferUnderflowError` (necessarily before anything was yielded) -/
  | bue (cost : Nat)
  /-- the messages yielded, then normal end (`none`) or an exception other than underflow -/
  | out (msgs : List (Int × Msg)) (err : Option Err) (cost gz : Nat)

/-- The generator `v0` / `v1` up to the codec dispatch: timestamp (v1), key, value. -/
def msgFields [HasMeasure] (magic : Int) : Rd (Option Int × Option (List UInt8) × Option (List UInt8)) :=
  if magic == 0 then do
    let key ← readIntString
    let value ← readIntString
    pure (none, key, value)
  else do
    let [ts] ← relativeUnpack c12Fmt_message_1 | fail .valueError
    let key ← readIntString
    let value ← readIntString
    pure (some ts, key, value)

/-- `v1_inner`: the inner set is decoded eagerly (`list(...)`), then re-based on the wrapper offset. -/
def v1Inner (wrapperOffset : Int) (r : SetOut) (k : Nat) (glen : Nat) : MsgRes :=
  match r.err with
  | some e => .out [] (some e) (k + r.cost) (glen + r.gz)
  | none =>
    match r.msgs.getLast? with
    | none => .out [] none (k + r.cost) (glen + r.gz)
    | some last =>
      let base := wrapperOffset - last.1
      .out (r.msgs.map (fun om => (base + om.1, om.2))) none (k + r.cost) (glen + r.gz)

/-- `_decode_message(data, offset)` and the iteration of its result.
    `inner` decodes a nested (decompressed) message set. -/
def decodeMessage [hm : HasMeasure] (inner : List UInt8 → SetOut) (gunzip : Gz) (msg : Option (List UInt8))
    (offset : Int) : MsgRes :=
  match msg with
  | none => .out [] (some .typeError) (tick hm.μ 0) 0     -- relative_unpack: len(None), nothing sliced
  | some data =>
    match relativeUnpack c12Fmt_message_0 data 0 0 with
    | .err .bufferUnderflow k => .bue k
    | .err e k => .out [] (some e) k 0
    | .ok vals cur k =>
      match vals with
      | [crc, magic, att] =>
        -- `crc != zlib.crc32(data[4:]) & 0xFFFFFFFF`: the CRC covers magic..value
        let body := data.drop 4
        let k := k + body.length
        if crc != ((crc32 body).toNat : Int) then .out [] (some .checksum) k 0
        else if magic == 0 || magic == 1 then
          match msgFields magic data cur k with
          | .err .bufferUnderflow k => .bue k
          | .err e k => .out [] (some e) k 0
          | .ok (ts, key, value) _ k =>
            let codec := att.toNat &&& c12CodecMask
            if codec == c12CodecNone then
              .out [(offset, { magic := magic, attrs := att, key := key, value := value, ts := ts })] none k 0
            else if codec == c12CodecGzip then
              match gunzip value with
              | .error cls => .out [] (some (.external cls)) k 0
              | .ok g =>
                let r := inner g
                if magic == 0 then .out r.msgs r.err (k + r.cost) (g.length + r.gz)
                else v1Inner offset r k g.length
            else if codec == c12CodecSnappy then .out [] (some .notImplemented) k 0
            else .out [] (some .protocol) k 0
        else .out [] (some .checksum) k 0
      | _ => .out [] (some .valueError) k 0

/-- `offset ← relative_unpack(">q")`, `msg ← read_int_string` — the 12-byte entry header and body. -/
def entryHeader [HasMeasure] : Rd (Int × Option (List UInt8)) := do
  let [offset] ← relativeUnpack c12Fmt_msgset_0 | fail .valueError
  let msg ← readIntString
  pure (offset, msg)

/-- The `while cur < len(data)` loop of `_decode_message_set_iter`.
    `acc` is the reversed list of what has been yielded; `rm` is `read_message`. -/
def setLoop [HasMeasure] (inner : List UInt8 → SetOut) (gunzip : Gz) (data : List UInt8) :
    Nat → Nat → Bool → List (Int × Msg) → Nat → Nat → SetOut
  | 0, _, _, acc, k, g => ⟨acc.reverse, some .modelFuel, k, g⟩
  | fuel + 1, cur, rm, acc, k, g =>
    if cur < data.length then
      match entryHeader data cur k with
      | .err .bufferUnderflow k =>
        if rm then ⟨acc.reverse, none, k, g⟩ else ⟨acc.reverse, some .fetchSizeTooSmall, k, g⟩
      | .err e k => ⟨acc.reverse, some e, k, g⟩
      | .ok (offset, msg) cur' k =>
        match decodeMessage inner gunzip msg offset with
        | .bue k2 =>
          if rm then ⟨acc.reverse, none, k + k2, g⟩
          else ⟨acc.reverse, some .fetchSizeTooSmall, k + k2, g⟩
        | .out ms (some e) k2 g2 => ⟨(ms.reverse ++ acc).reverse, some e, k + k2, g + g2⟩
        | .out ms none k2 g2 =>
          setLoop inner gunzip data fuel cur' (rm || !ms.isEmpty) (ms.reverse ++ acc) (k + k2) (g + g2)
    else ⟨acc.reverse, none, k, g⟩

/-- Iterating `_decode_message_set_iter(data)`; compressed sets may nest `depth` deep. -/
def decodeSet [HasMeasure] (gunzip : Gz) : Nat → List UInt8 → SetOut
  | 0, data =>
    setLoop (fun _ => ⟨[], some .recursion, 0, 0⟩) gunzip data (data.length + 1) 0 false [] 0 0
  | depth + 1, data =>
    setLoop (decodeSet gunzip depth) gunzip data (data.length + 1) 0 false [] 0 0

/-- `_decode_message_set_iter(None)`: `len(None)` raises on the first `next()`. -/
def decodeSetOpt [HasMeasure] (gunzip : Gz) (depth : Nat) : Option (List UInt8) → SetOut
  | none => ⟨[], some .typeError, 0, 0⟩
  | some data => decodeSet gunzip depth data

/-! ## A whole fetch response: the response decoder, then every message set iterated -/

/-- the message set of one decoded partition entry `[topic, partition, error, highwater, set]` -/
def partSet : Val → Option (Option (List UInt8))
  | .list [_, _, _, _, .mset d] => some d
  | _ => none

/-- the message sets of a decoded fetch response, in order -/
def fetchSets : Val → List (Option (List UInt8))
  | .list parts => parts.filterMap partSet
  | _ => []

/-- total cost of `decode_fetch_response` + iterating every `messages` generator, and the total
    number of bytes obtained from gunzip; `none` when the response decoder itself raised (its cost
    is then the first component). -/
def fetchTotal [HasMeasure] (gz : Gz) (depth : Nat) (v : Int) (bs : List UInt8) : Nat × Option Nat :=
  match run (decodeFetch v) bs with
  | .err _ k => (k, none)
  | .ok val _ k =>
    let outs := (fetchSets val).map (decodeSetOpt gz depth)
    (k + (outs.map (·.cost)).sum, some (outs.map (·.gz)).sum)

/-! ## Independent encoder (Kafka protocol guide: MessageSet, Message v0/v1) -/

/-- `w` bytes, big-endian, of `n mod 256^w`. -/
def toBE : Nat → Nat → List UInt8
  | 0, _ => []
  | w + 1, n => toBE w (n / 256) ++ [UInt8.ofNat (n % 256)]

/-- two's complement on `w` bytes -/
def toBESigned (w : Nat) (i : Int) : List UInt8 := toBE w (i % (2 ^ (8 * w) : Nat)).toNat

def encBytes : Option (List UInt8) → List UInt8
  | none => toBESigned 4 (-1)
  | some b => toBESigned 4 b.length ++ b

def encTs : Option Int → List UInt8
  | some t => toBESigned 8 t
  | none => []

/-- magic, attributes, [timestamp], key, value -/
def encodeBody (m : Msg) : List UInt8 :=
  [UInt8.ofNat m.magic.toNat, UInt8.ofNat m.attrs.toNat] ++ encTs m.ts ++ encBytes m.key
    ++ encBytes m.value

/-- Crc MagicByte Attributes [Timestamp] Key Value -/
def encodeMessage (m : Msg) : List UInt8 :=
  let body := encodeBody m
  toBE 4 (crc32 body).toNat ++ body

/-- Offset MessageSize Message -/
def encodeEntry (om : Int × Msg) : List UInt8 :=
  let msg := encodeMessage om.2
  toBESigned 8 om.1 ++ toBESigned 4 msg.length ++ msg

def encodeSet : List (Int × Msg) → List UInt8
  | [] => []
  | om :: rest => encodeEntry om ++ encodeSet rest

/-! ## Well-formed plain messages (the hypothesis of the truncation theorem) -/

def int64 (i : Int) : Bool := decide (-9223372036854775808 ≤ i) && decide (i < 9223372036854775808)

def optLen : Option (List UInt8) → Nat
  | none => 0
  | some b => b.length

/-- A message the encoder can represent (any codec bits): magic 0 without timestamp or magic 1 with
    an int64 timestamp, attributes one byte, key, value and the whole message shorter than 2^31. -/
def encodableMsg (m : Msg) : Bool :=
  ((m.magic == 0 && m.ts == none) ||
    (m.magic == 1 && (match m.ts with | some t => int64 t | none => false)))
  && decide (0 ≤ m.attrs) && decide (m.attrs < 256)
  && decide (optLen m.key < 2147483648) && decide (optLen m.value < 2147483648)
  && decide ((encodeMessage m).length < 2147483648)

/-- A message the encoder can represent and that is not a compression wrapper: magic 0 without
    timestamp or magic 1 with an int64 timestamp, attributes one byte with codec bits 0, key,
    value and the whole encoded message shorter than 2^31 (the size field is an int32). -/
def plainMsg (m : Msg) : Bool :=
  ((m.magic == 0 && m.ts == none) ||
    (m.magic == 1 && (match m.ts with | some t => int64 t | none => false)))
  && decide (0 ≤ m.attrs) && decide (m.attrs < 256)
  && (m.attrs.toNat &&& c12CodecMask == c12CodecNone)
  && decide (optLen m.key < 2147483648) && decide (optLen m.value < 2147483648)
  && decide ((encodeMessage m).length < 2147483648)

def plainEntry (om : Int × Msg) : Bool := int64 om.1 && plainMsg om.2

/-! ## Sets whose entries may be gzip wrappers (either message format) -/

/-- An entry of a message set: a plain message, or a gzip wrapper message `wm` (its value is the
    compressed payload) around the inner set `ims`. -/
inductive SetEntry where
  | plain (om : Int × Msg)
  | wrapper (off : Int) (wm : Msg) (ims : List (Int × Msg))

def SetEntry.off : SetEntry → Int
  | .plain om => om.1
  | .wrapper off _ _ => off

def SetEntry.msgBytes : SetEntry → List UInt8
  | .plain om => encodeMessage om.2
  | .wrapper _ wm _ => encodeMessage wm

/-- Offset MessageSize Message -/
def SetEntry.bytes (e : SetEntry) : List UInt8 :=
  toBESigned 8 e.off ++ toBESigned 4 e.msgBytes.length ++ e.msgBytes

def SetEntry.len (e : SetEntry) : Nat := 12 + e.msgBytes.length

/-- What iterating the entry yields: the message itself; for a format-0 wrapper the inner messages
    with their stored offsets; for a format-1 wrapper the inner messages re-based so that the last
    one carries the wrapper's offset. -/
def SetEntry.yields : SetEntry → List (Int × Msg)
  | .plain om => [om]
  | .wrapper off wm ims =>
    if wm.magic == 0 then ims
    else match ims.getLast? with
      | none => []
      | some last => ims.map (fun om => (off - last.1 + om.1, om.2))

def encodeEntries : List SetEntry → List UInt8
  | [] => []
  | e :: rest => e.bytes ++ encodeEntries rest

/-- The entry is well formed for the decompressor `gz`: a plain entry is `plainEntry`; a wrapper is an
    encodable message with the gzip codec bits whose value `gz` decompresses to the encoding of a
    set of plain messages (the `gunzip ∘ gzip` hypothesis, per payload). -/
def SetEntry.WellFormed (gz : Gz) : SetEntry → Prop
  | .plain om => plainEntry om = true
  | .wrapper off wm ims =>
    int64 off = true ∧ encodableMsg wm = true ∧ (wm.attrs.toNat &&& c12CodecMask) = c12CodecGzip ∧
    gz wm.value = .ok (encodeSet ims) ∧ ∀ om ∈ ims, plainEntry om = true

end Afkak.C12
