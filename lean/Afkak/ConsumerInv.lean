import Afkak.Monitor.C14
/-!
# Candidate invariants of the consumer model, as executable checks

Used through the driver (`inv`) to TEST a candidate invariant on many model traces before proving
it (`AfkakProofs/Consumer/*`).  Nothing here is part of the model or of a monitor.
-/
namespace Afkak.Consumer.InvTest
open Afkak.Consumer Afkak.Monitor Afkak.Consts

def special (o : Int) : Bool := o == offsetEarliest || o == offsetLatest || o == offsetCommitted

def activeReq : ReqD → Option Nat
  | .pending k _ false => some k
  | _ => none

def TRef.isPending : TRef → Bool
  | .pending _ => true
  | _ => false

def queue (s : St) : List Msg :=
  match s.frame, s.proc with
  | some fr, _ => fr.rest
  | none, some g => g.rest
  | none, none => []

def ltAll (l : Option Int) (q : List Msg) : Bool :=
  match l with
  | none => true
  | some v => q.all fun m => decide (v < m.off)

def check (cfg : Cfg) (s : St) : List String :=
  let bad (name : String) (ok : Bool) : List String := if ok then [] else [name]
  let ov := runR C02.ovStep {} s.out
  let sf := runR C02.sfStep {} s.out
  let oif := runR C03.oifStep {} s.out
  let clp := runR C03.clpStep {} s.out
  let ack := runR C03.ackStep {} s.out
  let res := runR C03.resStep {} s.out
  let inc := runR (C02.incStep cfg.reset.isSome) {} s.out
  let dl := runR (C14.dlStep cfg.retryInit cfg.retryMax) {} s.out
  bad "frameProc" (!s.frame.isSome || s.proc.isNone)
  ++ bad "procBlock" (!s.proc.isSome || s.msgBlock)
  ++ bad "parkedBlock" (!s.parked.isSome || s.msgBlock)
  ++ bad "parkedReq" (s.parked.isSome == (match s.requestD with | .parked _ => true | _ => false))
  ++ bad "retryRunning" (!(TRef.isPending s.retryCall) || s.startD != .none)
  ++ bad "looperRunning" (!s.looper.isSome || s.startD != .none)
  ++ bad "procRunning" (!s.proc.isSome || s.startD != .none)
  ++ bad "reqRunning" ((activeReq s.requestD).isNone || s.startD != .none)
  ++ bad "notStopping" (!s.stopping)
  ++ bad "frameNone" (s.frame.isNone)
  ++ bad "reqId" (match s.requestD with | .pending k _ _ => decide (k < s.nextReq) | .parked k => decide (k < s.nextReq) | .none => true)
  ++ bad "commitId" (match s.commitReq with | some r => decide (r.k < s.nextReq) | none => true)
  ++ bad "idsDistinct" (match s.requestD, s.commitReq with | .pending k _ _, some r => k != r.k | .parked k, some r => k != r.k | _, _ => true)
  ++ bad "ov" (!ov.bad && ov.pending == s.proc.isSome)
  ++ bad "sf" (!sf.bad && sf.req == activeReq s.requestD && sf.timer == TRef.isPending s.retryCall)
  ++ bad "oif" (!oif.bad && oif.req == (match s.commitReq with | some r => if r.cancelled then none else some r.k | none => none))
  ++ bad "clp" (!clp.bad && clp.p.processed == s.lastProcessed && (match s.proc with | some g => clp.p.cur == some g.last | none => true))
  ++ bad "ack" (!ack.bad && ack.lc == s.lastCommitted && (match s.commitReq with | some r => ack.reqs.contains (r.k, r.off) | none => true))
  ++ bad "res" (!res.bad && (!res.expect.isSome || (s.startD == .none && !(TRef.isPending s.retryCall))))
  ++ bad "inc" (!inc.bad
        && (inc.armed || ltAll inc.last [{ off := s.fetchOffset, pid := 0 }])
        && (!special s.fetchOffset || inc.armed)
        && (match s.requestD with | .pending _ .fetch _ => true | .pending _ _ _ => inc.armed | _ => true)
        && (match s.requestD with | .pending _ .fetch false => !special s.fetchOffset | _ => true)
        && incFrom none (queue s) && ltAll inc.last (queue s)
        && (inc.armed || (queue s).all fun x => decide (x.off < s.fetchOffset)))
  ++ bad "dl" (!dl.bad && s.retryDelay == C14.delayAt cfg.retryInit cfg.retryMax dl.k)
  -- candidates of session 5 (C13: no crash, shutdown never stuck)
  ++ bad "lpCommit" (s.commitDs.isEmpty || s.lastProcessed.isSome)
  ++ bad "dsConv" (s.commitDs.isEmpty || s.commitReq.isSome || (match s.commitCall with | .pending _ _ _ => true | _ => false))
  ++ bad "shutStuck" (!s.shutdownD || s.proc.isSome || s.commitReq.isSome || (match s.commitCall with | .pending _ _ _ => true | _ => false))

end Afkak.Consumer.InvTest
