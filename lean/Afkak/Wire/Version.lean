import Afkak.Wire.Requests
import Afkak.Wire.Responses
/-!
# Version selection (`KafkaClient.get_api_version`, `fetch_api_versions`,
`_handle_api_version_update`, `send_produce_request`, `send_fetch_request`; `Producer._send_requests`'
choice of the message format), as written

`KafkaClient._api_versions` is `None` (undiscovered), `0` (legacy fallback) or the advertised table.
The network is a parameter: the outcome of each ApiVersions attempt is given by the caller.
-/
namespace Afkak.Wire
open Afkak Afkak.Consts

/-- `KafkaClient._api_versions` -/
inductive ApiVersionsState
  | undiscovered                       -- `None`
  | legacy                             -- `0`
  | table (t : List ApiVersion)        -- `resp.api_versions`
  deriving DecidableEq, Repr

/-- what one `_send_broker_unaware_request` of the ApiVersions request ends with -/
inductive Attempt
  | unavailable                        -- raised `KafkaUnavailableError`
  | reply (data : Bytes)               -- the response frame
  deriving DecidableEq, Repr

/-- `_handle_api_version_update(resp)` -/
def handleApiVersionUpdate (errorCode : Int) (versions : List ApiVersion) : ApiVersionsState :=
  if errorCode ≠ 0 then .legacy else .table versions

/-- the `while self._api_versions is None and api_version_failures < 3` loop of
    `fetch_api_versions`; `failuresLeft` counts down from `apiVersionAttempts`.
    `none` = the attempts supplied do not decide it yet (a request is still outstanding). -/
def fetchLoop : Nat → List Attempt → Option (R ApiVersionsState)
  | 0, _ =>
    -- `resp` is still `None`: `ApiVersionResponse(-1, [])` is handed to the update
    some (.ok (handleApiVersionUpdate (-1) []))
  | _+1, [] => none
  | n+1, .unavailable :: rest => fetchLoop n rest
  | _+1, .reply data :: _ =>
    match decodeApiVersionsResponse data with
    | .error e => some (.error e)      -- the decoder's exception escapes; the state stays `None`
    | .ok (err, vs) => some (.ok (handleApiVersionUpdate err vs))

/-- `fetch_api_versions()` started in the undiscovered state -/
def fetchApiVersions (attempts : List Attempt) : Option (R ApiVersionsState) :=
  fetchLoop apiVersionAttempts attempts

/-- the loop of `fetch_api_versions` together with what the method returns (`if resp: return
    KafkaCodec.decode_api_versions_response(resp)`, else the `ApiVersionResponse(-1, [])` it also
    hands to `_handle_api_version_update`): new state, `error_code`, `api_versions` -/
def fetchLoopCall : Nat → List Attempt → Option (R (ApiVersionsState × Int × List ApiVersion))
  | 0, _ => some (.ok (handleApiVersionUpdate (-1) [], -1, []))
  | _+1, [] => none
  | n+1, .unavailable :: rest => fetchLoopCall n rest
  | _+1, .reply data :: _ =>
    match decodeApiVersionsResponse data with
    | .error e => some (.error e)
    | .ok (err, vs) => some (.ok (handleApiVersionUpdate err vs, err, vs))

/-- the PUBLIC `KafkaClient.fetch_api_versions()`, callable in any state.  The loop condition is
    `self._api_versions is None and api_version_failures < 3`: once a discovery has ended the loop
    is not entered and `resp` is still `None`; then
    ```
    elif self._api_versions:   return ApiVersionResponse(0, self._api_versions)
    else:                      err = ApiVersionResponse(-1, []); self._handle_api_version_update(err); return err
    ```
    a discovered (non-empty) table is answered from and kept; `0` and the empty table end in `0`. -/
def fetchApiVersionsCall (st : ApiVersionsState) (attempts : List Attempt) :
    Option (R (ApiVersionsState × Int × List ApiVersion)) :=
  match st with
  | .undiscovered => fetchLoopCall apiVersionAttempts attempts
  | .table (v :: vs) => some (.ok (.table (v :: vs), 0, v :: vs))
  | _ => fetchLoopCall 0 attempts

/-- the lookup of `get_api_version(key)` once the state is known -/
def lookupVersion (key : Int) : ApiVersionsState → Option Int
  | .undiscovered => none
  | .legacy => some apiVersionFallback
  | .table t => match t.filter (fun v => v.apiKey = key) with
    | v :: _ => some v.maxVersion
    | [] => some apiVersionMissingKey

/-- `get_api_version(key)`: new state and the version returned. -/
def getApiVersion (st : ApiVersionsState) (key : Int) (attempts : List Attempt) :
    Option (R (ApiVersionsState × Int)) :=
  match st with
  | .undiscovered =>
    match fetchApiVersions attempts with
    | none => none
    | some (.error e) => some (.error e)
    | some (.ok st') => (lookupVersion key st').map (fun v => .ok (st', v))
  | st => (lookupVersion key st).map (fun v => .ok (st, v))

/-- `KafkaClient.send_produce_request`, the lines that hand the version on:
    ```
    api_ver = yield self.get_api_version(KafkaCodec.PRODUCE_KEY)
    encoder = partial(KafkaCodec.encode_produce_request, acks=acks, timeout=timeout, api_version=api_ver)
    decoder = None if acks == 0 else partial(KafkaCodec.decode_produce_response, api_version=api_ver)
    ```
    Result: the new discovery state, the `api_version` the encoder is called with, and the one the
    decoder is called with (`none`: no decoder, the broker sends no reply for `acks = 0`). -/
def sendProduceVersions (st : ApiVersionsState) (attempts : List Attempt) (acks : Int) :
    Option (R (ApiVersionsState × Int × Option Int)) :=
  match getApiVersion st glueProduceKey attempts with
  | none => none
  | some (.error e) => some (.error e)
  | some (.ok (st', apiVer)) => some (.ok (st', apiVer, if acks = 0 then none else some apiVer))

/-- `KafkaClient.send_fetch_request`:
    ```
    api_ver = yield self.get_api_version(KafkaCodec.FETCH_KEY)
    encoder = partial(KafkaCodec.encode_fetch_request, …, api_version=api_ver)
    decoder = partial(KafkaCodec.decode_fetch_response, api_version=api_ver)
    ``` -/
def sendFetchVersions (st : ApiVersionsState) (attempts : List Attempt) :
    Option (R (ApiVersionsState × Int × Int)) :=
  match getApiVersion st glueFetchKey attempts with
  | none => none
  | some (.error e) => some (.error e)
  | some (.ok (st', apiVer)) => some (.ok (st', apiVer, apiVer))

/-- `Producer._send_requests`: `if self.client._api_versions: magic = 1 else: magic = 0` — the
    truthiness of `None`, `0`, `[]` and a non-empty table; it is evaluated BEFORE
    `send_produce_request` runs the discovery. -/
def producerMagic : ApiVersionsState → Int
  | .undiscovered => producerMagicOtherwise
  | .legacy => producerMagicOtherwise
  | .table [] => producerMagicOtherwise
  | .table (_ :: _) => producerMagicWhenAdvertised

end Afkak.Wire
