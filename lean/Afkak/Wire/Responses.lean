import Afkak.Wire.Message
/-!
# Response decoders of `KafkaCodec`, as written

Cursor style, statement by statement.  Decoders that are Python generators (produce, fetch,
list-offsets, offset-commit, offset-fetch) are modelled by `G α = items yielded × (final cursor or
the exception that ended the iteration)`; the others return `R value`.
`for _ in range(n)` runs `n.toNat` times (no iteration for `n ≤ 0`).
A destructuring assignment whose arity does not fit the format raises `ValueError`.
-/
namespace Afkak.Wire
open Afkak Afkak.Bytes Afkak.Consts

abbrev G (α : Type) := List α × R Int

def ru1 (fmt : List Char) (data : Bytes) (cur : Int) : R (Int × Int) :=
  match relativeUnpack fmt data cur with
  | .ok ([a], c) => .ok (a, c)
  | .ok _ => .error .valueError
  | .error e => .error e

def ru2 (fmt : List Char) (data : Bytes) (cur : Int) : R (Int × Int × Int) :=
  match relativeUnpack fmt data cur with
  | .ok ([a, b], c) => .ok (a, b, c)
  | .ok _ => .error .valueError
  | .error e => .error e

def ru3 (fmt : List Char) (data : Bytes) (cur : Int) : R (Int × Int × Int × Int) :=
  match relativeUnpack fmt data cur with
  | .ok ([a, b, c'], c) => .ok (a, b, c', c)
  | .ok _ => .error .valueError
  | .error e => .error e

def ru4 (fmt : List Char) (data : Bytes) (cur : Int) : R (Int × Int × Int × Int × Int) :=
  match relativeUnpack fmt data cur with
  | .ok ([a, b, c', d], c) => .ok (a, b, c', d, c)
  | .ok _ => .error .valueError
  | .error e => .error e

/-- `for _ in range(n): body` inside a generator -/
def repeatG {α : Type} (body : Int → G α) : Nat → Int → G α
  | 0, cur => ([], .ok cur)
  | n+1, cur => match body cur with
    | (ys, .error e) => (ys, .error e)
    | (ys, .ok cur') =>
      let r := repeatG body n cur'
      (ys ++ r.1, r.2)

/-- `for _ in range(n): body` collecting one item per iteration -/
def repeatR {α : Type} (body : Int → R (α × Int)) : Nat → Int → R (List α × Int)
  | 0, cur => .ok ([], cur)
  | n+1, cur => match body cur with
    | .error e => .error e
    | .ok (a, cur') => match repeatR body n cur' with
      | .error e => .error e
      | .ok (as, cur'') => .ok (a :: as, cur'')

/-! ## Produce -/

structure ProduceResp where
  topic : Bytes
  partition : Int
  error : Int
  offset : Int
  deriving DecidableEq, Repr

/-- one iteration of the partition loop of `decode_produce_response` (`v0`: `>ihq`, `v2`: `>ihqq`) -/
def producePartition (fmtP : List Char) (wide : Bool) (data : Bytes) (topic : Bytes) (cur : Int) : G ProduceResp :=
  if wide then
    match ru4 fmtP data cur with
    | .error e => ([], .error e)
    | .ok (partition, error, offset, _, cur) => ([⟨topic, partition, error, offset⟩], .ok cur)
  else
    match ru3 fmtP data cur with
    | .error e => ([], .error e)
    | .ok (partition, error, offset, cur) => ([⟨topic, partition, error, offset⟩], .ok cur)

/-- one iteration of the topic loop -/
def produceTopic (fmtN fmtP : List Char) (wide : Bool) (data : Bytes) (cur : Int) : G ProduceResp :=
  match readShortAscii data cur with
  | .error e => ([], .error e)
  | .ok (topic, cur) => match ru1 fmtN data cur with
    | .error e => ([], .error e)
    | .ok (numPartitions, cur) => repeatG (producePartition fmtP wide data topic) numPartitions.toNat cur

/-- the topic / partition loops shared by `v0` and `v2` of `decode_produce_response` -/
def produceTopics (fmtN fmtP : List Char) (wide : Bool) (data : Bytes) (numTopics cur : Int) : G ProduceResp :=
  repeatG (produceTopic fmtN fmtP wide data) numTopics.toNat cur

/-- `KafkaCodec.decode_produce_response(data, api_version)`, iterated to its end.
    `.error` = raised by the call itself (before any iteration). -/
def decodeProduceResponse (data : Bytes) (apiVersion : Int) : R (G ProduceResp) :=
  if apiVersion = produceRespV0Is then
    .ok (match ru2 fmt_decode_produce_response_v0_0 data 0 with
      | .error e => ([], .error e)
      | .ok (_, numTopics, cur) =>
        produceTopics fmt_decode_produce_response_v0_1 fmt_decode_produce_response_v0_2 false data numTopics cur)
  else if apiVersion ≥ produceRespV2From then
    .ok (match ru2 fmt_decode_produce_response_v2_0 data 0 with
      | .error e => ([], .error e)
      | .ok (_, numTopics, cur) =>
        match produceTopics fmt_decode_produce_response_v2_1 fmt_decode_produce_response_v2_2 true data numTopics cur with
        | (ys, .error e) => (ys, .error e)
        | (ys, .ok cur) =>
          -- `throttle_time_ms, cur = relative_unpack(">i", data, cur)` (any arity fits a 2-tuple target)
          match relativeUnpack fmt_decode_produce_response_v2_3 data cur with
          | .error e => (ys, .error e)
          | .ok (_, cur) => (ys, .ok cur))
  else .error .valueError

/-! ## Fetch -/

structure FetchResp where
  topic : Bytes
  partition : Int
  error : Int
  highwaterMark : Int
  /-- `_decode_message_set_iter(message_set)` iterated to its end -/
  messages : Gen
  deriving DecidableEq, Repr

/-- `_decode_message_set_iter(message_set)` where `message_set` may be `None` (`len(None)`). -/
def decodeMessageSetOpt (ext : Ext) (depth : Nat) : Option Bytes → Gen
  | none => ([], some .typeError)
  | some data => decodeMessageSet ext depth data

/-- one iteration of the partition loop of `decode_fetch_response` -/
def fetchPartition (ext : Ext) (depth : Nat) (data : Bytes) (topic : Bytes) (cur : Int) : G FetchResp :=
  match ru3 fmt_decode_fetch_response_3 data cur with
  | .error e => ([], .error e)
  | .ok (partition, error, hw, cur) => match readIntString data cur with
    | .error e => ([], .error e)
    | .ok (ms, cur) => ([⟨topic, partition, error, hw, decodeMessageSetOpt ext depth ms⟩], .ok cur)

/-- one iteration of the topic loop of `decode_fetch_response` -/
def fetchTopic (ext : Ext) (depth : Nat) (data : Bytes) (cur : Int) : G FetchResp :=
  match readShortAscii data cur with
  | .error e => ([], .error e)
  | .ok (topic, cur) => match ru1 fmt_decode_fetch_response_2 data cur with
    | .error e => ([], .error e)
    | .ok (numPartitions, cur) => repeatG (fetchPartition ext depth data topic) numPartitions.toNat cur

/-- `KafkaCodec.decode_fetch_response(data, api_version)`, iterated to its end, every `messages`
    generator iterated to its end too. -/
def decodeFetchResponse (ext : Ext) (depth : Nat) (data : Bytes) (apiVersion : Int) : G FetchResp :=
  let start : R (Int × Int) :=
    if apiVersion = fetchRespV0Is then
      match ru2 fmt_decode_fetch_response_0 data 0 with
      | .error e => .error e
      | .ok (_, numTopics, cur) => .ok (numTopics, cur)
    else if apiVersion ≥ fetchRespV2From then
      match ru3 fmt_decode_fetch_response_1 data 0 with
      | .error e => .error e
      | .ok (_, _, numTopics, cur) => .ok (numTopics, cur)
    else .error .unboundLocal
  match start with
  | .error e => ([], .error e)
  | .ok (numTopics, cur) => repeatG (fetchTopic ext depth data) numTopics.toNat cur

/-! ## ListOffsets -/

structure OffsetResp where
  topic : Bytes
  partition : Int
  error : Int
  offsets : List Int
  deriving DecidableEq, Repr

/-- one iteration of the partition loop of `decode_offset_response` -/
def offsetPartition (data : Bytes) (topic : Bytes) (cur : Int) : G OffsetResp :=
  match ru3 fmt_decode_offset_response_2 data cur with
  | .error e => ([], .error e)
  | .ok (partition, error, numOffsets, cur) =>
    match repeatR (ru1 fmt_decode_offset_response_3 data) numOffsets.toNat cur with
    | .error e => ([], .error e)
    | .ok (offsets, cur) => ([⟨topic, partition, error, offsets⟩], .ok cur)

/-- one iteration of the topic loop of `decode_offset_response` -/
def offsetTopic (data : Bytes) (cur : Int) : G OffsetResp :=
  match readShortAscii data cur with
  | .error e => ([], .error e)
  | .ok (topic, cur) => match ru1 fmt_decode_offset_response_1 data cur with
    | .error e => ([], .error e)
    | .ok (numPartitions, cur) => repeatG (offsetPartition data topic) numPartitions.toNat cur

/-- `KafkaCodec.decode_offset_response(data)` -/
def decodeOffsetResponse (data : Bytes) : G OffsetResp :=
  match ru2 fmt_decode_offset_response_0 data 0 with
  | .error e => ([], .error e)
  | .ok (_, numTopics, cur) => repeatG (offsetTopic data) numTopics.toNat cur

/-! ## Metadata -/

structure BrokerMeta where
  nodeId : Int
  host : Bytes
  port : Int
  deriving DecidableEq, Repr

structure PartitionMeta where
  topic : Bytes
  partition : Int
  partitionErrorCode : Int
  leader : Int
  replicas : List Int
  isr : List Int
  deriving DecidableEq, Repr

structure TopicMeta where
  topic : Bytes
  topicErrorCode : Int
  /-- the `dict` partition → PartitionMetadata as its list of items -/
  partitionMetadata : List (Int × PartitionMeta)
  deriving DecidableEq, Repr

/-- insert the decoded items into a Python `dict` in order -/
def dictOfList {κ ν : Type} [BEq κ] (l : List (κ × ν)) : List (κ × ν) :=
  l.foldl (fun d e => dictSet d e.1 e.2) []

/-- one iteration of the broker loop of `decode_metadata_response` -/
def metadataBroker (data : Bytes) (cur : Int) : R ((Int × BrokerMeta) × Int) :=
  match ru1 fmt_decode_metadata_response_1 data cur with
  | .error e => .error e
  | .ok (nodeId, cur) => match readShortAscii data cur with
    | .error e => .error e
    | .ok (host, cur) => match ru1 fmt_decode_metadata_response_2 data cur with
      | .error e => .error e
      | .ok (port, cur) => .ok ((nodeId, (⟨nodeId, host, port⟩ : BrokerMeta)), cur)

/-- one iteration of the partition loop -/
def metadataPartition (data : Bytes) (topicName : Bytes) (cur : Int) : R ((Int × PartitionMeta) × Int) :=
  match ru4 fmt_decode_metadata_response_6 data cur with
  | .error e => .error e
  | .ok (perr, partition, leader, numReplicas, cur) =>
    match relativeUnpackN fmt_decode_metadata_response_7 numReplicas data cur with
    | .error e => .error e
    | .ok (replicas, cur) => match ru1 fmt_decode_metadata_response_8 data cur with
      | .error e => .error e
      | .ok (numIsr, cur) =>
        match relativeUnpackN fmt_decode_metadata_response_9 numIsr data cur with
        | .error e => .error e
        | .ok (isr, cur) =>
          .ok ((partition, (⟨topicName, partition, perr, leader, replicas, isr⟩ : PartitionMeta)), cur)

/-- one iteration of the topic loop -/
def metadataTopic (data : Bytes) (cur : Int) : R ((Bytes × TopicMeta) × Int) :=
  match ru1 fmt_decode_metadata_response_4 data cur with
  | .error e => .error e
  | .ok (topicError, cur) => match readShortAscii data cur with
    | .error e => .error e
    | .ok (topicName, cur) => match ru1 fmt_decode_metadata_response_5 data cur with
      | .error e => .error e
      | .ok (numPartitions, cur) =>
        match repeatR (metadataPartition data topicName) numPartitions.toNat cur with
        | .error e => .error e
        | .ok (parts, cur) =>
          .ok ((topicName, (⟨topicName, topicError, dictOfList parts⟩ : TopicMeta)), cur)

/-- `KafkaCodec.decode_metadata_response(data)`: `(brokers, topic_metadata)` as lists of dict items -/
def decodeMetadataResponse (data : Bytes) : R (List (Int × BrokerMeta) × List (Bytes × TopicMeta)) :=
  match ru2 fmt_decode_metadata_response_0 data 0 with
  | .error e => .error e
  | .ok (_, numBrokers, cur) =>
    if numBrokers > maxBrokers then .error .invalidMessage else
    match repeatR (metadataBroker data) numBrokers.toNat cur with
    | .error e => .error e
    | .ok (brokers, cur) => match ru1 fmt_decode_metadata_response_3 data cur with
      | .error e => .error e
      | .ok (numTopics, cur) =>
        match repeatR (metadataTopic data) numTopics.toNat cur with
        | .error e => .error e
        | .ok (topics, _) => .ok (dictOfList brokers, dictOfList topics)

/-! ## FindCoordinator (`ConsumerMetadataResponse`) -/

structure ConsumerMetadataResp where
  error : Int
  nodeId : Int
  host : Bytes
  port : Int
  deriving DecidableEq, Repr

/-- `KafkaCodec.decode_consumermetadata_response(data)` -/
def decodeConsumerMetadataResponse (data : Bytes) : R ConsumerMetadataResp :=
  match ru3 fmt_decode_consumermetadata_response_0 data 0 with
  | .error e => .error e
  | .ok (_, error, nodeId, cur) => match readShortAscii data cur with
    | .error e => .error e
    | .ok (host, cur) => match ru1 fmt_decode_consumermetadata_response_1 data cur with
      | .error e => .error e
      | .ok (port, _) => .ok ⟨error, nodeId, host, port⟩

/-! ## OffsetCommit / OffsetFetch -/

structure OffsetCommitResp where
  topic : Bytes
  partition : Int
  error : Int
  deriving DecidableEq, Repr

/-- one iteration of the partition loop of `decode_offset_commit_response` -/
def offsetCommitPartition (data : Bytes) (topic : Bytes) (cur : Int) : G OffsetCommitResp :=
  match ru2 fmt_decode_offset_commit_response_3 data cur with
  | .error e => ([], .error e)
  | .ok (partition, error, cur) => ([⟨topic, partition, error⟩], .ok cur)

/-- one iteration of the topic loop of `decode_offset_commit_response` -/
def offsetCommitTopic (data : Bytes) (cur : Int) : G OffsetCommitResp :=
  match readShortAscii data cur with
  | .error e => ([], .error e)
  | .ok (topic, cur) => match ru1 fmt_decode_offset_commit_response_2 data cur with
    | .error e => ([], .error e)
    | .ok (numPartitions, cur) => repeatG (offsetCommitPartition data topic) numPartitions.toNat cur

/-- `KafkaCodec.decode_offset_commit_response(data)` -/
def decodeOffsetCommitResponse (data : Bytes) : G OffsetCommitResp :=
  match ru1 fmt_decode_offset_commit_response_0 data 0 with
  | .error e => ([], .error e)
  | .ok (_, cur) => match ru1 fmt_decode_offset_commit_response_1 data cur with
    | .error e => ([], .error e)
    | .ok (numTopics, cur) => repeatG (offsetCommitTopic data) numTopics.toNat cur

structure OffsetFetchResp where
  topic : Bytes
  partition : Int
  offset : Int
  metadata : Option Bytes
  error : Int
  deriving DecidableEq, Repr

/-- one iteration of the partition loop of `decode_offset_fetch_response` -/
def offsetFetchPartition (data : Bytes) (topic : Bytes) (cur : Int) : G OffsetFetchResp :=
  match ru2 fmt_decode_offset_fetch_response_3 data cur with
  | .error e => ([], .error e)
  | .ok (partition, offset, cur) => match readShortBytes data cur with
    | .error e => ([], .error e)
    | .ok (metadata, cur) => match ru1 fmt_decode_offset_fetch_response_4 data cur with
      | .error e => ([], .error e)
      | .ok (error, cur) => ([⟨topic, partition, offset, metadata, error⟩], .ok cur)

/-- one iteration of the topic loop of `decode_offset_fetch_response` -/
def offsetFetchTopic (data : Bytes) (cur : Int) : G OffsetFetchResp :=
  match readShortAscii data cur with
  | .error e => ([], .error e)
  | .ok (topic, cur) => match ru1 fmt_decode_offset_fetch_response_2 data cur with
    | .error e => ([], .error e)
    | .ok (numPartitions, cur) => repeatG (offsetFetchPartition data topic) numPartitions.toNat cur

/-- `KafkaCodec.decode_offset_fetch_response(data)` -/
def decodeOffsetFetchResponse (data : Bytes) : G OffsetFetchResp :=
  match ru1 fmt_decode_offset_fetch_response_0 data 0 with
  | .error e => ([], .error e)
  | .ok (_, cur) => match ru1 fmt_decode_offset_fetch_response_1 data cur with
    | .error e => ([], .error e)
    | .ok (numTopics, cur) => repeatG (offsetFetchTopic data) numTopics.toNat cur

/-! ## Group membership -/

structure JoinGroupResp where
  error : Int
  generationId : Int
  groupProtocol : Bytes
  leaderId : Bytes
  memberId : Bytes
  /-- `(member_id, member_metadata)` -/
  members : List (Bytes × Option Bytes)
  deriving DecidableEq, Repr

/-- one iteration of the member loop of `decode_join_group_response` -/
def joinGroupMember (data : Bytes) (cur : Int) : R ((Bytes × Option Bytes) × Int) :=
  match readShortText data cur with
  | .error e => .error e
  | .ok (mid, cur) => match readIntString data cur with
    | .error e => .error e
    | .ok (md, cur) => .ok ((mid, md), cur)

/-- `KafkaCodec.decode_join_group_response(data)` -/
def decodeJoinGroupResponse (data : Bytes) : R JoinGroupResp :=
  match ru3 fmt_decode_join_group_response_0 data 0 with
  | .error e => .error e
  | .ok (_, error, generationId, cur) => match readShortText data cur with
    | .error e => .error e
    | .ok (groupProtocol, cur) => match readShortText data cur with
      | .error e => .error e
      | .ok (leaderId, cur) => match readShortText data cur with
        | .error e => .error e
        | .ok (memberId, cur) => match ru1 fmt_decode_join_group_response_1 data cur with
          | .error e => .error e
          | .ok (numMembers, cur) =>
            match repeatR (joinGroupMember data) numMembers.toNat cur with
            | .error e => .error e
            | .ok (members, _) => .ok ⟨error, generationId, groupProtocol, leaderId, memberId, members⟩

structure JoinGroupProtocolMetadata where
  version : Int
  subscriptions : List Bytes
  userData : Option Bytes
  deriving DecidableEq, Repr

/-- `KafkaCodec.decode_join_group_protocol_metadata(data)` -/
def decodeJoinGroupProtocolMetadata (data : Bytes) : R JoinGroupProtocolMetadata :=
  match ru2 fmt_decode_join_group_protocol_metadata_0 data 0 with
  | .error e => .error e
  | .ok (version, n, cur) =>
    match repeatR (readShortText data) n.toNat cur with
    | .error e => .error e
    | .ok (subs, cur) => match readIntString data cur with
      | .error e => .error e
      | .ok (ud, _) => .ok ⟨version, subs, ud⟩

/-- `decode_leave_group_response` and `decode_heartbeat_response`: the error code -/
def decodeErrorOnlyResponse (fmt : List Char) (data : Bytes) : R Int :=
  match ru2 fmt data 0 with
  | .error e => .error e
  | .ok (_, error, _) => .ok error

def decodeLeaveGroupResponse (data : Bytes) : R Int :=
  decodeErrorOnlyResponse fmt_decode_leave_group_response_0 data

def decodeHeartbeatResponse (data : Bytes) : R Int :=
  decodeErrorOnlyResponse fmt_decode_heartbeat_response_0 data

/-- `KafkaCodec.decode_sync_group_response(data)`: `(error, member_assignment)` -/
def decodeSyncGroupResponse (data : Bytes) : R (Int × Option Bytes) :=
  match ru2 fmt_decode_sync_group_response_0 data 0 with
  | .error e => .error e
  | .ok (_, error, cur) => match readIntString data cur with
    | .error e => .error e
    | .ok (ma, _) => .ok (error, ma)

structure SyncGroupMemberAssignment where
  version : Int
  /-- the `dict` topic → partitions as its list of items -/
  assignments : List (Bytes × List Int)
  userData : Option Bytes
  deriving DecidableEq, Repr

/-- one iteration of the topic loop of `decode_sync_group_member_assignment` -/
def assignmentTopic (data : Bytes) (cur : Int) : R ((Bytes × List Int) × Int) :=
  match readShortAscii data cur with
  | .error e => .error e
  | .ok (topic, cur) => match ru1 fmt_decode_sync_group_member_assignment_1 data cur with
    | .error e => .error e
    | .ok (np, cur) => match relativeUnpackN fmt_decode_sync_group_member_assignment_2 np data cur with
      | .error e => .error e
      | .ok (ps, cur) => .ok ((topic, ps), cur)

/-- `KafkaCodec.decode_sync_group_member_assignment(data)` -/
def decodeSyncGroupMemberAssignment (data : Bytes) : R SyncGroupMemberAssignment :=
  match ru2 fmt_decode_sync_group_member_assignment_0 data 0 with
  | .error e => .error e
  | .ok (version, n, cur) =>
    if version ≠ 0 then .error .protocol else
    match repeatR (assignmentTopic data) n.toNat cur with
    | .error e => .error e
    | .ok (as, cur) => match readIntString data cur with
      | .error e => .error e
      | .ok (ud, _) => .ok ⟨version, dictOfList as, ud⟩

/-! ## ApiVersions -/

structure ApiVersion where
  apiKey : Int
  minVersion : Int
  maxVersion : Int
  deriving DecidableEq, Repr

/-- one iteration of the loop of `decode_api_versions_response` -/
def apiVersionEntry (data : Bytes) (cur : Int) : R (ApiVersion × Int) :=
  match ru3 fmt_decode_api_versions_response_1 data cur with
  | .error e => .error e
  | .ok (k, lo, hi, cur) => .ok ((⟨k, lo, hi⟩ : ApiVersion), cur)

/-- `KafkaCodec.decode_api_versions_response(data)`: `(error_code, api_versions)` -/
def decodeApiVersionsResponse (data : Bytes) : R (Int × List ApiVersion) :=
  match ru3 fmt_decode_api_versions_response_0 data 0 with
  | .error e => .error e
  | .ok (_, errorCode, n, cur) =>
    match repeatR (apiVersionEntry data) n.toNat cur with
    | .error e => .error e
    | .ok (vs, _) => .ok (errorCode, vs)

/-- `KafkaCodec.get_response_correlation_id(data)` -/
def getResponseCorrelationId (data : Bytes) : R Int :=
  match ru1 fmt_get_response_correlation_id_0 data 0 with
  | .error e => .error e
  | .ok (c, _) => .ok c

end Afkak.Wire
