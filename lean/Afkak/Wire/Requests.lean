import Afkak.Wire.Message
/-!
# Request encoders of `KafkaCodec`, as written

Each `encodeX` follows `KafkaCodec.encode_x` statement by statement: the same `struct` formats (from
the extractor), the same order of evaluation (so the first exception raised is the same), the
grouping of payloads through `group_by_topic_and_partition` (insertion order, last wins), and the
`api_version >= 2` clamp of produce and fetch.
-/
namespace Afkak.Wire
open Afkak Afkak.Bytes Afkak.Consts

/-- `message += f(x)` for every `x` of a list, in order -/
def concatMapM {α : Type} (f : α → R Bytes) : List α → R Bytes
  | [] => .ok []
  | a :: as => match f a with
    | .error e => .error e
    | .ok x => match concatMapM f as with
      | .error e => .error e
      | .ok y => .ok (x ++ y)

/-- `KafkaCodec._encode_message_header(client_id, correlation_id, request_key, api_version)` -/
def encodeHeader (clientId : Bytes) (correlationId requestKey apiVersion : Int) : R Bytes :=
  match pack fmt_encode_message_header_0 [requestKey, apiVersion, correlationId, clientId.length] with
  | .error e => .error e
  | .ok h => .ok (h ++ clientId)

/-- the `for topic, topic_payloads in grouped_payloads.items()` loop every broker-aware request shares:
    `write_short_ascii(topic)`, `struct.pack(">i", len(topic_payloads))`, then one entry per partition -/
def topicEntry {α : Type} (fmtN : List Char) (partEntry : Int × α → R Bytes) (tp : Option Bytes × List (Int × α)) : R Bytes :=
  match writeShortAscii tp.1 with
  | .error e => .error e
  | .ok t => match pack fmtN [tp.2.length] with
    | .error e => .error e
    | .ok n => match concatMapM partEntry tp.2 with
      | .error e => .error e
      | .ok ps => .ok (t ++ n ++ ps)

/-- `sum(len(by_partition) for by_partition in grouped.values())` of `_group_payloads`: a grouped
    structure that holds fewer payloads than were given lost one to a repeated (topic, partition),
    and the encoder refuses the list (`ValueError`) -/
def payloadCount {α : Type} (grouped : List (Option Bytes × List (Int × α))) : Nat :=
  (grouped.map (fun tp => tp.2.length)).sum

/-! ## payload structs (`afkak/common.py`); a topic / group / member id is a Python `str` given by
its UTF-8 bytes, or `None` -/

structure ProduceReq where
  topic : Option Bytes
  partition : Int
  messages : List Message
  deriving DecidableEq, Repr

structure FetchReq where
  topic : Option Bytes
  partition : Int
  offset : Int
  maxBytes : Int
  deriving DecidableEq, Repr

structure OffsetReq where
  topic : Option Bytes
  partition : Int
  time : Int
  maxOffsets : Int
  deriving DecidableEq, Repr

structure OffsetCommitReq where
  topic : Option Bytes
  partition : Int
  offset : Int
  timestamp : Int
  metadata : Option Bytes
  deriving DecidableEq, Repr

structure OffsetFetchReq where
  topic : Option Bytes
  partition : Int
  deriving DecidableEq, Repr

/-- the `api_version >= 2` clamp of `encode_produce_request`: header version and `magic` -/
def produceClamp (apiVersion : Int) : Int × Int :=
  if apiVersion ≥ produceClampAt then (produceClampTo, produceMagicHi) else (apiVersion, produceMagicLo)

/-- the clamp of `encode_fetch_request` -/
def fetchClamp (apiVersion : Int) : Int :=
  if apiVersion ≥ fetchClampAt then fetchClampTo else apiVersion

/-- one partition of a produce request: the encoded message set behind `struct.pack(">ii", partition, len(msg_set))` -/
def producePartEntry (ext : Ext) (magic : Int) (pp : Int × ProduceReq) : R Bytes :=
  match encodeMessageSet ext pp.2.messages none magic with
  | .error e => .error e
  | .ok ms => match pack fmt_encode_produce_request_2 [pp.1, ms.length] with
    | .error e => .error e
    | .ok h => .ok (h ++ ms)

/-- `KafkaCodec.encode_produce_request(client_id, correlation_id, payloads, acks, timeout, api_version)` -/
def encodeProduceRequest (ext : Ext) (clientId : Bytes) (corr : Int) (payloads : List ProduceReq)
    (acks timeout apiVersion : Int) : R Bytes :=
  let grouped := groupByTopicPartition ProduceReq.topic ProduceReq.partition payloads
  if payloadCount grouped ≠ payloads.length then .error .valueError else
  let (reqVer, magic) := produceClamp apiVersion
  match encodeHeader clientId corr hdrKey_encode_produce_request reqVer with
  | .error e => .error e
  | .ok hdr => match pack fmt_encode_produce_request_0 [acks, timeout, grouped.length] with
    | .error e => .error e
    | .ok h2 =>
      match concatMapM (topicEntry fmt_encode_produce_request_1 (producePartEntry ext magic)) grouped with
      | .error e => .error e
      | .ok body => .ok (hdr ++ h2 ++ body)

/-- one partition of a fetch request -/
def fetchPartEntry (pp : Int × FetchReq) : R Bytes :=
  pack fmt_encode_fetch_request_2 [pp.1, pp.2.offset, pp.2.maxBytes]

/-- `KafkaCodec.encode_fetch_request(client_id, correlation_id, payloads, max_wait_time, min_bytes, api_version)` -/
def encodeFetchRequest (clientId : Bytes) (corr : Int) (payloads : List FetchReq)
    (maxWaitTime minBytes apiVersion : Int) : R Bytes :=
  let grouped := groupByTopicPartition FetchReq.topic FetchReq.partition payloads
  if payloadCount grouped ≠ payloads.length then .error .valueError else
  match encodeHeader clientId corr hdrKey_encode_fetch_request (fetchClamp apiVersion) with
  | .error e => .error e
  | .ok hdr =>
    match pack fmt_encode_fetch_request_0 [argc_encode_fetch_request_0_0, maxWaitTime, minBytes, grouped.length] with
    | .error e => .error e
    | .ok h2 =>
      match concatMapM (topicEntry fmt_encode_fetch_request_1 fetchPartEntry) grouped with
      | .error e => .error e
      | .ok body => .ok (hdr ++ h2 ++ body)

/-- one partition of a list-offsets request -/
def offsetPartEntry (pp : Int × OffsetReq) : R Bytes :=
  pack fmt_encode_offset_request_2 [pp.1, pp.2.time, pp.2.maxOffsets]

/-- `KafkaCodec.encode_offset_request(client_id, correlation_id, payloads)` (ListOffsets v0) -/
def encodeOffsetRequest (clientId : Bytes) (corr : Int) (payloads : List OffsetReq) : R Bytes :=
  let grouped := groupByTopicPartition OffsetReq.topic OffsetReq.partition payloads
  if payloadCount grouped ≠ payloads.length then .error .valueError else
  match encodeHeader clientId corr hdrKey_encode_offset_request hdrVer_encode_offset_request with
  | .error e => .error e
  | .ok hdr =>
    match pack fmt_encode_offset_request_0 [argc_encode_offset_request_0_0, grouped.length] with
    | .error e => .error e
    | .ok h2 =>
      match concatMapM (topicEntry fmt_encode_offset_request_1 offsetPartEntry) grouped with
      | .error e => .error e
      | .ok body => .ok (hdr ++ h2 ++ body)

/-- `KafkaCodec.encode_metadata_request(client_id, correlation_id, topics)` -/
def encodeMetadataRequest (clientId : Bytes) (corr : Int) (topics : List (Option Bytes)) : R Bytes :=
  match encodeHeader clientId corr hdrKey_encode_metadata_request hdrVer_encode_metadata_request with
  | .error e => .error e
  | .ok hdr => match pack fmt_encode_metadata_request_0 [topics.length] with
    | .error e => .error e
    | .ok n => match concatMapM writeShortAscii topics with
      | .error e => .error e
      | .ok ts => .ok (hdr ++ n ++ ts)

/-- `KafkaCodec.encode_consumermetadata_request(client_id, correlation_id, consumer_group)` -/
def encodeConsumerMetadataRequest (clientId : Bytes) (corr : Int) (group : Option Bytes) : R Bytes :=
  match encodeHeader clientId corr hdrKey_encode_consumermetadata_request hdrVer_encode_consumermetadata_request with
  | .error e => .error e
  | .ok hdr => match writeShortText group with
    | .error e => .error e
    | .ok g => .ok (hdr ++ g)

/-- one partition of an offset-commit request -/
def offsetCommitPartEntry (pp : Int × OffsetCommitReq) : R Bytes :=
  match pack fmt_encode_offset_commit_request_3 [pp.1, pp.2.offset, pp.2.timestamp] with
  | .error e => .error e
  | .ok h => match writeShortBytes pp.2.metadata with
    | .error e => .error e
    | .ok md => .ok (h ++ md)

/-- `KafkaCodec.encode_offset_commit_request(client_id, correlation_id, group, group_generation_id,
    consumer_id, payloads)` (v1) -/
def encodeOffsetCommitRequest (clientId : Bytes) (corr : Int) (group : Option Bytes) (generationId : Int)
    (consumerId : Option Bytes) (payloads : List OffsetCommitReq) : R Bytes :=
  if consumerId.isNone then .error .assertion else
  let grouped := groupByTopicPartition OffsetCommitReq.topic OffsetCommitReq.partition payloads
  if payloadCount grouped ≠ payloads.length then .error .valueError else
  match encodeHeader clientId corr hdrKey_encode_offset_commit_request hdrVer_encode_offset_commit_request with
  | .error e => .error e
  | .ok hdr => match writeShortText group with
    | .error e => .error e
    | .ok g => match pack fmt_encode_offset_commit_request_0 [generationId] with
      | .error e => .error e
      | .ok gen => match writeShortText consumerId with
        | .error e => .error e
        | .ok cid => match pack fmt_encode_offset_commit_request_1 [grouped.length] with
          | .error e => .error e
          | .ok n =>
            match concatMapM (topicEntry fmt_encode_offset_commit_request_2 offsetCommitPartEntry) grouped with
            | .error e => .error e
            | .ok body => .ok (hdr ++ g ++ gen ++ cid ++ n ++ body)

/-- one partition of an offset-fetch request -/
def offsetFetchPartEntry (pp : Int × OffsetFetchReq) : R Bytes :=
  pack fmt_encode_offset_fetch_request_2 [pp.1]

/-- `KafkaCodec.encode_offset_fetch_request(client_id, correlation_id, group, payloads)` (v1) -/
def encodeOffsetFetchRequest (clientId : Bytes) (corr : Int) (group : Option Bytes)
    (payloads : List OffsetFetchReq) : R Bytes :=
  let grouped := groupByTopicPartition OffsetFetchReq.topic OffsetFetchReq.partition payloads
  if payloadCount grouped ≠ payloads.length then .error .valueError else
  match encodeHeader clientId corr hdrKey_encode_offset_fetch_request hdrVer_encode_offset_fetch_request with
  | .error e => .error e
  | .ok hdr => match writeShortText group with
    | .error e => .error e
    | .ok g => match pack fmt_encode_offset_fetch_request_0 [grouped.length] with
      | .error e => .error e
      | .ok n =>
        match concatMapM (topicEntry fmt_encode_offset_fetch_request_1 offsetFetchPartEntry) grouped with
        | .error e => .error e
        | .ok body => .ok (hdr ++ g ++ n ++ body)

/-- `_JoinGroupRequest` with its `_JoinGroupRequestProtocol`s `(protocol_name, protocol_metadata)` -/
structure JoinGroupReq where
  group : Option Bytes
  sessionTimeout : Int
  memberId : Option Bytes
  protocolType : Option Bytes
  groupProtocols : List (Option Bytes × Option Bytes)
  deriving DecidableEq, Repr

/-- `KafkaCodec.encode_join_group_request(client_id, correlation_id, payload)` -/
def encodeJoinGroupRequest (clientId : Bytes) (corr : Int) (p : JoinGroupReq) : R Bytes :=
  match encodeHeader clientId corr hdrKey_encode_join_group_request hdrVer_encode_join_group_request with
  | .error e => .error e
  | .ok hdr => match writeShortText p.group with
    | .error e => .error e
    | .ok g => match pack fmt_encode_join_group_request_0 [p.sessionTimeout] with
      | .error e => .error e
      | .ok st => match writeShortText p.memberId with
        | .error e => .error e
        | .ok mid => match writeShortText p.protocolType with
          | .error e => .error e
          | .ok pt => match pack fmt_encode_join_group_request_1 [p.groupProtocols.length] with
            | .error e => .error e
            | .ok n =>
              match concatMapM (fun (gp : Option Bytes × Option Bytes) =>
                  match writeShortAscii gp.1 with
                  | .error e => .error e
                  | .ok nm => match writeIntString gp.2 with
                    | .error e => .error e
                    | .ok md => .ok (nm ++ md)) p.groupProtocols with
              | .error e => .error e
              | .ok ps => .ok (hdr ++ g ++ st ++ mid ++ pt ++ n ++ ps)

/-- `KafkaCodec.encode_join_group_protocol_metadata(version, subscriptions, user_data)` -/
def encodeJoinGroupProtocolMetadata (version : Int) (subscriptions : List (Option Bytes))
    (userData : Option Bytes) : R Bytes :=
  match pack fmt_encode_join_group_protocol_metadata_0 [version, subscriptions.length] with
  | .error e => .error e
  | .ok h => match concatMapM writeShortText subscriptions with
    | .error e => .error e
    | .ok ss => match writeIntString userData with
      | .error e => .error e
      | .ok ud => .ok (h ++ ss ++ ud)

/-- `KafkaCodec.encode_leave_group_request(client_id, correlation_id, payload)` -/
def encodeLeaveGroupRequest (clientId : Bytes) (corr : Int) (group memberId : Option Bytes) : R Bytes :=
  match encodeHeader clientId corr hdrKey_encode_leave_group_request hdrVer_encode_leave_group_request with
  | .error e => .error e
  | .ok hdr => match writeShortText group with
    | .error e => .error e
    | .ok g => match writeShortText memberId with
      | .error e => .error e
      | .ok m => .ok (hdr ++ g ++ m)

/-- `KafkaCodec.encode_heartbeat_request(client_id, correlation_id, payload)` -/
def encodeHeartbeatRequest (clientId : Bytes) (corr : Int) (group : Option Bytes) (generationId : Int)
    (memberId : Option Bytes) : R Bytes :=
  match encodeHeader clientId corr hdrKey_encode_heartbeat_request hdrVer_encode_heartbeat_request with
  | .error e => .error e
  | .ok hdr => match writeShortText group with
    | .error e => .error e
    | .ok g => match pack fmt_encode_heartbeat_request_0 [generationId] with
      | .error e => .error e
      | .ok gen => match writeShortText memberId with
        | .error e => .error e
        | .ok m => .ok (hdr ++ g ++ gen ++ m)

/-- `KafkaCodec.encode_sync_group_request(client_id, correlation_id, payload)`;
    `groupAssignment` is the list of `(member_id, member_metadata)` -/
def encodeSyncGroupRequest (clientId : Bytes) (corr : Int) (group : Option Bytes) (generationId : Int)
    (memberId : Option Bytes) (groupAssignment : List (Option Bytes × Option Bytes)) : R Bytes :=
  match encodeHeader clientId corr hdrKey_encode_sync_group_request hdrVer_encode_sync_group_request with
  | .error e => .error e
  | .ok hdr => match writeShortText group with
    | .error e => .error e
    | .ok g => match pack fmt_encode_sync_group_request_0 [generationId] with
      | .error e => .error e
      | .ok gen => match writeShortText memberId with
        | .error e => .error e
        | .ok m => match pack fmt_encode_sync_group_request_1 [groupAssignment.length] with
          | .error e => .error e
          | .ok n =>
            match concatMapM (fun (a : Option Bytes × Option Bytes) =>
                match writeShortText a.1 with
                | .error e => .error e
                | .ok mid => match writeIntString a.2 with
                  | .error e => .error e
                  | .ok md => .ok (mid ++ md)) groupAssignment with
            | .error e => .error e
            | .ok as => .ok (hdr ++ g ++ gen ++ m ++ n ++ as)

/-- `struct.pack(">i%si" % len(vals), len(vals), *vals)` for a template `>` `c0` `%s` `c` -/
def packCounted (tmpl : List Char) (vals : List Int) : R Bytes :=
  match tmpl with
  | ['>', c0, '%', k, c] =>
    if k ≠ 'd' ∧ k ≠ 's' then .error .structError
    else packBody (c0 :: List.replicate vals.length c) ((vals.length : Int) :: vals)
  | _ => .error .structError

/-- `KafkaCodec.encode_sync_group_member_assignment(version, assignments, user_data)`;
    `assignments` is the `dict` as its list of items -/
def encodeSyncGroupMemberAssignment (version : Int) (assignments : List (Option Bytes × List Int))
    (userData : Option Bytes) : R Bytes :=
  match pack fmt_encode_sync_group_member_assignment_0 [version] with
  | .error e => .error e
  | .ok v => match pack fmt_encode_sync_group_member_assignment_1 [assignments.length] with
    | .error e => .error e
    | .ok n =>
      match concatMapM (fun (a : Option Bytes × List Int) =>
          match writeShortAscii a.1 with
          | .error e => .error e
          | .ok t => match packCounted fmt_encode_sync_group_member_assignment_2 a.2 with
            | .error e => .error e
            | .ok ps => .ok (t ++ ps)) assignments with
      | .error e => .error e
      | .ok as => match writeIntString userData with
        | .error e => .error e
        | .ok ud => .ok (v ++ n ++ as ++ ud)

/-- `KafkaCodec.encode_api_versions_request(client_id, correlation_id, ApiVersionRequest(api_key, api_version))` -/
def encodeApiVersionsRequest (clientId : Bytes) (corr : Int) (apiKey apiVersion : Int) : R Bytes :=
  encodeHeader clientId corr apiKey apiVersion

end Afkak.Wire
