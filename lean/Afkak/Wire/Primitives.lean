import Afkak.Bytes
import Afkak.Generated.WireConsts
/-!
# Wire primitives (`afkak/_util.py` + the parts of CPython `struct` the codec uses), as written

* `pack` / `unpack` interpret a `struct` format given as `List Char` (the format strings themselves
  are extracted from `/repo` into `Afkak.Consts.fmt_*`); range violations are `Err.structError`
  exactly where `struct.pack` raises `struct.error`.
* `relativeUnpack`, `readShortBytes`, `readIntString` follow the cursor arithmetic and the Python
  slicing of the source statement by statement — the cursor is an `Int`, slices are `pySlice`.
* Python `str` values are represented by their UTF-8 bytes; `.encode("ascii")`, `.decode("ascii")`,
  `.decode("utf-8")` are the corresponding validity checks.
Python exceptions are `Except.error` (never a default value).
-/
namespace Afkak.Wire
open Afkak Afkak.Bytes Afkak.Consts

/-- Exception classes the codec can raise (what the harness canonicalises real exceptions to). -/
inductive Err
  | bufferUnderflow | checksum | fetchSizeTooSmall | protocol | invalidMessage | unsupportedCodec
  | structError | unicodeDecode | unicodeEncode | attributeError | typeError | notImplemented
  | valueError | unboundLocal | assertion | gunzip | extMissing | fuel
  deriving DecidableEq, Repr, Inhabited

def Err.name : Err → String
  | .bufferUnderflow => "BufferUnderflowError" | .checksum => "ChecksumError"
  | .fetchSizeTooSmall => "ConsumerFetchSizeTooSmall" | .protocol => "ProtocolError"
  | .invalidMessage => "InvalidMessageError" | .unsupportedCodec => "UnsupportedCodecError"
  | .structError => "struct.error" | .unicodeDecode => "UnicodeDecodeError"
  | .unicodeEncode => "UnicodeEncodeError" | .attributeError => "AttributeError"
  | .typeError => "TypeError" | .notImplemented => "NotImplementedError" | .valueError => "ValueError"
  | .unboundLocal => "UnboundLocalError" | .assertion => "AssertionError" | .gunzip => "GunzipError"
  | .extMissing => "ext-missing" | .fuel => "fuel"

abbrev R := Except Err

instance instDecidableEqR {α : Type} [DecidableEq α] : DecidableEq (R α) := fun a b =>
  match a, b with
  | .ok x, .ok y => if h : x = y then isTrue (by rw [h]) else isFalse (fun e => h (by cases e; rfl))
  | .error x, .error y => if h : x = y then isTrue (by rw [h]) else isFalse (fun e => h (by cases e; rfl))
  | .ok _, .error _ => isFalse (fun e => by cases e)
  | .error _, .ok _ => isFalse (fun e => by cases e)

/-! ## `struct` -/

/-- width in bytes and signedness of a format character (standard sizes, as with `>`). -/
def fieldSpec : Char → Option (Nat × Bool)
  | 'b' => some (1, true)
  | 'B' => some (1, false)
  | 'h' => some (2, true)
  | 'H' => some (2, false)
  | 'i' => some (4, true)
  | 'I' => some (4, false)
  | 'q' => some (8, true)
  | 'Q' => some (8, false)
  | _ => none

/-- the range `struct.pack` accepts for a field of `w` bytes: `-2^(8w-1) ≤ v < 2^(8w-1)` signed,
    `0 ≤ v < 2^(8w)` unsigned.  (Written by cases on the sign with `Nat.blt`, so that reducing it on
    a symbolic value gets stuck at once instead of unfolding a 2^31-deep numeral.) -/
def fieldInRange (w : Nat) (signed : Bool) (v : Int) : Bool :=
  match v with
  | .ofNat n => Nat.blt n (if signed then 2 ^ (8 * w - 1) else 2 ^ (8 * w))
  | .negSucc n => signed && Nat.blt n (2 ^ (8 * w - 1))

def packField (c : Char) (v : Int) : R Bytes :=
  match fieldSpec c with
  | none => .error .structError
  | some (w, s) => if fieldInRange w s v then .ok (ofIntBE w v) else .error .structError

def packBody : List Char → List Int → R Bytes
  | [], [] => .ok []
  | c :: cs, v :: vs =>
    match packField c v with
    | .error e => .error e
    | .ok a => match packBody cs vs with
      | .error e => .error e
      | .ok b => .ok (a ++ b)
  | _, _ => .error .structError

/-- `struct.pack(fmt, *vs)` for the big-endian formats the codec uses. -/
def pack : List Char → List Int → R Bytes
  | '>' :: cs, vs => packBody cs vs
  | _, _ => .error .structError

def bodySize : List Char → Option Nat
  | [] => some 0
  | c :: cs => match fieldSpec c, bodySize cs with
    | some (w, _), some n => some (w + n)
    | _, _ => none

/-- `struct.calcsize(fmt)`; `none` = `struct.error` (bad char in format). -/
def calcsize : List Char → Option Nat
  | '>' :: cs => bodySize cs
  | _ => none

def fieldValue (signed : Bool) (bs : Bytes) : Int :=
  if signed then toIntBE bs else (toNatBE bs : Int)

/-- decode the fields of `cs` from the front of `bs`; the rest is returned -/
def unpackBody : List Char → Bytes → Option (List Int × Bytes)
  | [], bs => some ([], bs)
  | c :: cs, bs => match fieldSpec c with
    | none => none
    | some (w, s) =>
      if bs.length < w then none
      else match unpackBody cs (bs.drop w) with
        | none => none
        | some (vs, rest) => some (fieldValue s (bs.take w) :: vs, rest)

/-- `struct.unpack(fmt, bs)`: the buffer must have exactly `calcsize(fmt)` bytes. -/
def unpack : List Char → Bytes → Option (List Int)
  | '>' :: cs, bs => match unpackBody cs bs with
    | some (vs, []) => some vs
    | _ => none
  | _, _ => none

/-- `_util.relative_unpack(fmt, data, cur)` -/
def relativeUnpack (fmt : List Char) (data : Bytes) (cur : Int) : R (List Int × Int) :=
  match calcsize fmt with
  | none => .error .structError
  | some size =>
    if (data.length : Int) < cur + size then .error .bufferUnderflow
    else match unpack fmt (pySlice data cur (cur + size)) with
      | none => .error .structError
      | some vs => .ok (vs, cur + size)

/-- `relative_unpack(tmpl % n, data, cur)` for a template `">%d<c>"` / `">%s<c>"`: `n` copies of `c`.
    A negative `n` formats to `">-3i"`, which `struct` rejects. -/
def relativeUnpackN (tmpl : List Char) (n : Int) (data : Bytes) (cur : Int) : R (List Int × Int) :=
  match tmpl with
  | ['>', '%', k, c] =>
    if k ≠ 'd' ∧ k ≠ 's' then .error .structError else
    match fieldSpec c with
    | none => .error .structError
    | some (w, _) =>
      if n < 0 then .error .structError
      else
        let size : Int := n * w
        if (data.length : Int) < cur + size then .error .bufferUnderflow
        else match unpackBody (List.replicate n.toNat c) (pySlice data cur (cur + size)) with
          | some (vs, []) => .ok (vs, cur + size)
          | _ => .error .structError
  | _ => .error .structError

/-! ## Python text, represented by its UTF-8 bytes -/

def isAscii (bs : Bytes) : Bool := bs.all (· < 128)

def isCont (b : UInt8) : Bool := 0x80 ≤ b && b ≤ 0xBF

/-- CPython's strict UTF-8 decoder accepts exactly the well-formed sequences of Unicode Table 3-7. -/
def validUtf8 : Bytes → Bool
  | [] => true
  | b0 :: rest =>
    if b0 < 0x80 then validUtf8 rest
    else if 0xC2 ≤ b0 && b0 ≤ 0xDF then
      match rest with
      | b1 :: r => isCont b1 && validUtf8 r
      | _ => false
    else if 0xE0 ≤ b0 && b0 ≤ 0xEF then
      match rest with
      | b1 :: b2 :: r =>
        (if b0 == 0xE0 then 0xA0 ≤ b1 && b1 ≤ 0xBF
         else if b0 == 0xED then 0x80 ≤ b1 && b1 ≤ 0x9F
         else isCont b1) && isCont b2 && validUtf8 r
      | _ => false
    else if 0xF0 ≤ b0 && b0 ≤ 0xF4 then
      match rest with
      | b1 :: b2 :: b3 :: r =>
        (if b0 == 0xF0 then 0x90 ≤ b1 && b1 ≤ 0xBF
         else if b0 == 0xF4 then 0x80 ≤ b1 && b1 ≤ 0x8F
         else isCont b1) && isCont b2 && isCont b3 && validUtf8 r
      | _ => false
    else false

/-- `b.decode("ascii")`; `b = None` raises `AttributeError`. -/
def decodeAscii : Option Bytes → R Bytes
  | none => .error .attributeError
  | some bs => if isAscii bs then .ok bs else .error .unicodeDecode

/-- `b.decode("utf-8")` -/
def decodeText : Option Bytes → R Bytes
  | none => .error .attributeError
  | some bs => if validUtf8 bs then .ok bs else .error .unicodeDecode

/-! ## writers -/

/-- `_NULL_SHORT_STRING` -/
def nullShortString : R Bytes := pack fmt_null_short_string [nullShortLen]

/-- `write_short_bytes(b)` -/
def writeShortBytes : Option Bytes → R Bytes
  | none => nullShortString
  | some b =>
    if b.length > shortBytesMax then .error .structError
    else match pack fmt_write_short_bytes_0 [b.length] with
      | .error e => .error e
      | .ok l => .ok (l ++ b)

/-- `write_short_ascii(s)`: `s.encode("ascii")` then `write_short_bytes` -/
def writeShortAscii : Option Bytes → R Bytes
  | none => nullShortString
  | some s => if isAscii s then writeShortBytes (some s) else .error .unicodeEncode

/-- `write_short_text(s)`: `s.encode("utf-8")` (the identity on the representation) -/
def writeShortText : Option Bytes → R Bytes
  | none => nullShortString
  | some s => writeShortBytes (some s)

/-- `write_int_string(s)` -/
def writeIntString : Option Bytes → R Bytes
  | none => pack fmt_write_int_string_0 [writeIntNull]
  | some s => match pack fmt_write_int_string_1 [s.length] with
    | .error e => .error e
    | .ok l => .ok (l ++ s)

/-! ## readers -/

/-- the common body of `read_short_bytes` (`lenW = 2`) and `read_int_string` (`lenW = 4`) -/
def readLenPrefixed (fmt : List Char) (lenW : Int) (null negBelow : Int) (data : Bytes) (cur : Int) :
    R (Option Bytes × Int) :=
  if (data.length : Int) < cur + lenW then .error .bufferUnderflow
  else match unpack fmt (pySlice data cur (cur + lenW)) with
    | some [strlen] =>
      if strlen = null then .ok (none, cur + lenW)
      else if strlen < negBelow then .error .bufferUnderflow
      else
        let cur := cur + lenW
        if (data.length : Int) < cur + strlen then .error .bufferUnderflow
        else .ok (some (pySlice data cur (cur + strlen)), cur + strlen)
    | _ => .error .structError

/-- `read_short_bytes(data, cur)` -/
def readShortBytes (data : Bytes) (cur : Int) : R (Option Bytes × Int) :=
  readLenPrefixed fmt_read_short_bytes_0 2 readShortNull readShortNegBelow data cur

/-- `read_int_string(data, cur)` -/
def readIntString (data : Bytes) (cur : Int) : R (Option Bytes × Int) :=
  readLenPrefixed fmt_read_int_string_0 4 readIntNull readIntNegBelow data cur

/-- `read_short_ascii(data, cur)` -/
def readShortAscii (data : Bytes) (cur : Int) : R (Bytes × Int) :=
  match readShortBytes data cur with
  | .error e => .error e
  | .ok (b, cur) => match decodeAscii b with
    | .error e => .error e
    | .ok s => .ok (s, cur)

/-- `read_short_text(data, cur)` -/
def readShortText (data : Bytes) (cur : Int) : R (Bytes × Int) :=
  match readShortBytes data cur with
  | .error e => .error e
  | .ok (b, cur) => match decodeText b with
    | .error e => .error e
    | .ok s => .ok (s, cur)

/-! ## Python `dict` (insertion ordered, assignment to an existing key keeps its place) -/

def dictSet {κ ν : Type} [BEq κ] (d : List (κ × ν)) (k : κ) (v : ν) : List (κ × ν) :=
  if d.any (fun e => e.1 == k) then d.map (fun e => if e.1 == k then (e.1, v) else e)
  else d ++ [(k, v)]

def dictGet {κ ν : Type} [BEq κ] (d : List (κ × ν)) (k : κ) : Option ν :=
  (d.filter (fun e => e.1 == k)).head?.map (·.2)

/-- `group_by_topic_and_partition(tuples)`: `out[t.topic][t.partition] = t` on a
    `defaultdict(dict)`. -/
def groupByTopicPartition {α : Type} (topic : α → Option Bytes) (partition : α → Int) :
    List α → List (Option Bytes × List (Int × α))
  | xs => xs.foldl (fun out t =>
      dictSet out (topic t) (dictSet ((dictGet out (topic t)).getD []) (partition t) t)) []

end Afkak.Wire
