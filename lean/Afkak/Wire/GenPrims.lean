import Afkak.Wire.Primitives
/-!
# Library primitives the source-generated terms are written in

`harness/lib/wire_translate.py` regenerates, on every run, Lean terms for functions of
`afkak/_util.py` and `afkak/kafkacodec.py` from their AST (`Afkak/Generated/WiregenConsts.lean`).
Those terms are sequences of calls of *library* operations (CPython `struct`, `bytes` slicing,
`str.encode` / `bytes.decode`, `len`, `+`), each of which is one definition below or in
`Afkak/Wire/Primitives.lean` (`pack`, `unpack`, `calcsize`, `pySlice`, `decodeAscii`, `decodeText`).
Nothing here models afkak code.  Python exceptions are `Except.error`.
-/
namespace Afkak.Wire
open Afkak Afkak.Bytes

/-- `struct.unpack(fmt, bs)` as a fallible operation: a buffer of the wrong size or a bad format
    character raises `struct.error`. -/
def unpackR (fmt : List Char) (bs : Bytes) : R (List Int) :=
  match unpack fmt bs with
  | none => .error .structError
  | some vs => .ok vs

/-- `struct.calcsize(fmt)` -/
def calcsizeR (fmt : List Char) : R Int :=
  match calcsize fmt with
  | none => .error .structError
  | some n => .ok (n : Int)

/-- `s.encode("ascii")` for a `str` given by its UTF-8 bytes -/
def encodeAscii (s : Bytes) : R Bytes :=
  if isAscii s then .ok s else .error .unicodeEncode

/-- `s.encode("utf-8")` for a `str` given by its UTF-8 bytes (the identity on the representation) -/
def encodeUtf8 (s : Bytes) : R Bytes := .ok s

/-- `out[k1][k2] = v` on `out = collections.defaultdict(dict)`: `out[k1]` looks the inner dict up
    (`__missing__` stores a new `{}` under `k1`, at the end, when there is none), then `[k2] = v` sets
    the item in it; both dicts keep insertion order and an existing key keeps its place
    (`dictSet` / `dictGet` of `Primitives.lean`). -/
def ddSet2 {κ₁ κ₂ ν : Type} [BEq κ₁] [BEq κ₂] (out : List (κ₁ × List (κ₂ × ν))) (k1 : κ₁) (k2 : κ₂) (v : ν) :
    List (κ₁ × List (κ₂ × ν)) :=
  dictSet out k1 (dictSet ((dictGet out k1).getD []) k2 v)

/-- `tmpl % n` for a struct format template with one `%d` / `%s` directive that is used as a repeat
    count (`">%si"`, `">i%si"`), as `struct` then reads it: `n` copies of the format character that
    follows the directive (`"3i"` is `"iii"`, `"0i"` is nothing).  A negative `n` formats to `">-3i"`,
    which `struct` rejects (`struct.error`, raised by the `struct` call that receives the format);
    so is a directive that is not followed by a format character. -/
def expandFmt : List Char → Int → Option (List Char)
  | [], _ => none
  | '%' :: k :: c :: rest, n =>
    if (k = 'd' ∨ k = 's') ∧ 0 ≤ n ∧ c ≠ '%' ∧ ¬ rest.contains '%' then some (List.replicate n.toNat c ++ rest) else none
  | c :: rest, n => if c = '%' then none else (expandFmt rest n).map (c :: ·)

def expandFmtR (tmpl : List Char) (n : Int) : R (List Char) :=
  match expandFmt tmpl n with
  | none => .error .structError
  | some f => .ok f
/-- `twisted.python.compat.nativeString(s)` for a `str` s (given by its UTF-8 bytes): checks that s is
    ASCII (`s.encode("ascii")`, UnicodeEncodeError otherwise) and returns s itself. -/
def nativeStringR (s : Bytes) : R Bytes :=
  if isAscii s then .ok s else .error .unicodeEncode
/-- A Python generator run to its end: the items it yielded, then the value it finished with or
    the exception that ended the iteration (items yielded before the exception are kept). -/
abbrev Y (ι α : Type) := List ι × R α

def Y.pure {ι α : Type} (a : α) : Y ι α := ([], .ok a)

def Y.bind {ι α β : Type} (x : Y ι α) (f : α → Y ι β) : Y ι β :=
  match x with
  | (ys, .error e) => (ys, .error e)
  | (ys, .ok a) => (ys ++ (f a).1, (f a).2)

instance {ι : Type} : Monad (Y ι) where
  pure := Y.pure
  bind := Y.bind

/-- `yield i` -/
def yieldY {ι : Type} (i : ι) : Y ι Unit := ([i], .ok ())

/-- a fallible call inside a generator: nothing is yielded; an exception ends the run -/
def liftR {ι α : Type} (x : R α) : Y ι α := ([], x)
end Afkak.Wire
