import Afkak.Wire.Primitives
/-!
# Library primitives the source-generated terms are written in

`harness/lib/wire_translate.py` regenerates, on every run, Lean terms for functions of
`afkak/_util.py` and `afkak/kafkacodec.py` from their AST (`Afkak/Generated/WiregenConsts.lean`).
Those terms are sequences of calls of *library* operations (CPython `struct`, `bytes` slicing,
`str.encode` / `bytes.decode`, `len`, `+`), each of which is one definition below or in
`Afkak/Wire/Primitives.lean` (`pack`, `unpack`, `calcsize`, `pySlice`, `decodeAscii`, `decodeText`).
Nothing here models afkak code.  Python exceptions are `Except.error`.
-/
namespace Afkak.Wire
open Afkak Afkak.Bytes

/-- `struct.unpack(fmt, bs)` as a fallible operation: a buffer of the wrong size or a bad format
    character raises `struct.error`. -/
def unpackR (fmt : List Char) (bs : Bytes) : R (List Int) :=
  match unpack fmt bs with
  | none => .error .structError
  | some vs => .ok vs

/-- `struct.calcsize(fmt)` -/
def calcsizeR (fmt : List Char) : R Int :=
  match calcsize fmt with
  | none => .error .structError
  | some n => .ok (n : Int)

/-- `s.encode("ascii")` for a `str` given by its UTF-8 bytes -/
def encodeAscii (s : Bytes) : R Bytes :=
  if isAscii s then .ok s else .error .unicodeEncode

/-- `s.encode("utf-8")` for a `str` given by its UTF-8 bytes (the identity on the representation) -/
def encodeUtf8 (s : Bytes) : R Bytes := .ok s

end Afkak.Wire
