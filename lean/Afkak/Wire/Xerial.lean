import Afkak.Wire.Primitives
/-!
# `afkak.codec.snappy_decode`: the xerial framing loop, as written

```
if payload.startswith(_XERIAL_HEADER):
    cursor = 16
    while cursor < length:
        block_size = struct.unpack_from("!i", view, cursor)[0]
        cursor += 4
        end = cursor + block_size
        out.append(snappy.decompress(view[cursor:end].tobytes()))
        cursor = end
    return b"".join(out)
else:
    return snappy.decompress(payload)
```

`snappy.decompress` is a parameter (python-snappy is not installed in the sandbox).  The `while`
loop runs on fuel; `Err.fuel` means the fuel ran out.  Tied to the code by the correspondence check
of C05 (`harness/props/c05.py: xerial_cases`): the real `snappy_decode` / `snappy_encode` run with the
module object `afkak.codec.snappy` replaced by a stub (identity compress / decompress, a call budget
that plays the role of the fuel) on well-formed and malformed streams, negative block sizes included.
Theorems: `C05_snappy_xerial_roundtrip`, `C05_xerial_negative_block_spins`.
-/
namespace Afkak.Wire
open Afkak Afkak.Bytes

/-- `_XERIAL_HEADER` = `b"\x82SNAPPY\x00" + struct.pack("!ii", 1, 1)` -/
def xerialHeader : Bytes := [0x82, 0x53, 0x4E, 0x41, 0x50, 0x50, 0x59, 0x00, 0, 0, 0, 1, 0, 0, 0, 1]

/-- the `while cursor < length` loop.  `struct.unpack_from("!i", view, cursor)`: a negative offset
    counts from the end of the buffer; `struct.error` when the (normalised) offset is out of range or
    fewer than 4 bytes follow it.  The slice `view[cursor:end]` is Python slicing (negative bounds count
    from the end, everything is clamped, empty when `end <= cursor`).  `block_size` is used unchecked. -/
def xerialLoop (decompress : Bytes → R Bytes) (payload : Bytes) : Nat → Int → R Bytes
  | 0, _ => .error .fuel
  | fuel + 1, cursor =>
    if ¬ (cursor < (payload.length : Int)) then .ok []
    else
      let off := if cursor < 0 then cursor + payload.length else cursor
      if off < 0 ∨ (payload.length : Int) < off + 4 then .error .structError
      else
        let blockSize := toIntBE (pySlice payload off (off + 4))
        let cursor := cursor + 4
        let «end» := cursor + blockSize
        match decompress (pySlice payload cursor «end») with
        | .error e => .error e
        | .ok block => match xerialLoop decompress payload fuel «end» with
          | .error e => .error e
          | .ok rest => .ok (block ++ rest)

/-- `snappy_decode(payload)` with python-snappy present -/
def snappyDecode (decompress : Bytes → R Bytes) (fuel : Nat) (payload : Bytes) : R Bytes :=
  if payload.take 16 = xerialHeader then xerialLoop decompress payload fuel 16
  else decompress payload

/-- `snappy_encode(payload, xerial_compatible=True)` for the chunks the caller's block size gives -/
def xerialEncode (compress : Bytes → Bytes) (chunks : List Bytes) : Bytes :=
  xerialHeader ++ (chunks.map (fun c => ofIntBE 4 (compress c).length ++ compress c)).flatten

end Afkak.Wire
