import Afkak.Wire.Primitives
/-!
# Messages and message sets (`afkak/kafkacodec.py`), as written

`_encode_message`, `_encode_message_set`, `_decode_message_set_iter`, `_decode_message`,
`create_message`, `create_gzip_message`, `create_snappy_message`, `create_message_set`.

Externals are parameters (`Ext`): the checksum (`zlib.crc32`), `gzip_encode` / `gzip_decode`,
`snappy_encode` / `snappy_decode` and `int(time.time() * 1000)`.

A Python generator is modelled by what it yields followed by how it ends: `Gen = items × Option Err`
(`none` = exhausted normally, `some e` = raised `e` after yielding the items).
-/
namespace Afkak.Wire
open Afkak Afkak.Bytes Afkak.Consts

/-- `afkak.common.Message` (`timestamp_type` is never read or written by the codec). -/
structure Message where
  magic : Int
  attributes : Int
  key : Option Bytes
  value : Option Bytes
  timestamp : Option Int := none
  deriving DecidableEq, Repr, Inhabited

/-- `afkak.common.OffsetAndMessage` -/
structure OffsetAndMessage where
  offset : Int
  message : Message
  deriving DecidableEq, Repr, Inhabited

/-- The externals of the codec. -/
structure Ext where
  /-- `zlib.crc32` -/
  crc : Bytes → Nat
  /-- `codec.gzip_encode` -/
  gzip : Bytes → R Bytes
  /-- `codec.gzip_decode`; the argument is `None` for a wrapper with a null value -/
  gunzip : Option Bytes → R Bytes
  /-- `codec.snappy_encode` (raises `NotImplementedError` when python-snappy is absent) -/
  snappy : Bytes → R Bytes
  /-- `codec.snappy_decode` -/
  unsnappy : Option Bytes → R Bytes
  /-- `int(time.time() * 1000)` -/
  nowMs : Int

abbrev Gen := List OffsetAndMessage × Option Err

/-! ## encoding -/

/-- `KafkaCodec._encode_message(message)` -/
def encodeMessage (ext : Ext) (m : Message) : R Bytes :=
  if m.magic = 0 then
    match pack fmt_encode_message_0 [m.magic, m.attributes], writeIntString m.key, writeIntString m.value with
    | .ok h, .ok k, .ok v =>
      let msg := h ++ k ++ v
      match pack fmt_encode_message_1 [((ext.crc msg) &&& crcMask : Nat)] with
      | .ok c => .ok (c ++ msg)
      | .error e => .error e
    | .error e, _, _ => .error e
    | _, .error e, _ => .error e
    | _, _, .error e => .error e
  else if m.magic = 1 then
    let hdr := match m.timestamp with
      | none => pack fmt_encode_message_2 [m.magic, m.attributes, ext.nowMs]
      | some ts => pack fmt_encode_message_3 [m.magic, m.attributes, ts]
    match hdr, writeIntString m.key, writeIntString m.value with
    | .ok h, .ok k, .ok v =>
      let msg := h ++ k ++ v
      match pack fmt_encode_message_4 [((ext.crc msg) &&& crcMask : Nat)] with
      | .ok c => .ok (c ++ msg)
      | .error e => .error e
    | .error e, _, _ => .error e
    | _, .error e, _ => .error e
    | _, _, .error e => .error e
  else .error .protocol

/-- the loop of `_encode_message_set`: `offset` is the running offset, `incr` its increment -/
def encodeMessageSetLoop (ext : Ext) (magic : Int) (incr : Int) : Int → List Message → R Bytes
  | _, [] => .ok []
  | offset, m :: ms =>
    -- `if magic == 0: … elif magic == 1: …` binds `encoded_message`; otherwise it is unbound
    if magic ≠ 0 ∧ magic ≠ 1 then .error .unboundLocal
    else match encodeMessage ext m with
      | .error e => .error e
      | .ok enc => match pack fmt_encode_message_set_0 [offset, enc.length] with
        | .error e => .error e
        | .ok hdr => match encodeMessageSetLoop ext magic incr (offset + incr) ms with
          | .error e => .error e
          | .ok rest => .ok (hdr ++ enc ++ rest)

/-- `KafkaCodec._encode_message_set(messages, offset=None, magic=0)` -/
def encodeMessageSet (ext : Ext) (ms : List Message) (offset : Option Int := none) (magic : Int := 0) :
    R Bytes :=
  match offset with
  | none => encodeMessageSetLoop ext magic msgSetIncrNoOffset 0 ms
  | some o => encodeMessageSetLoop ext magic msgSetIncr o ms

/-! ## decoding -/

/-- `v1_inner(wrapper_offset, data)`: materialise the inner set; the wrapper carries the absolute
    offset of its last inner message, inner offsets are relative. -/
def v1Inner (wrapperOffset : Int) (inner : Gen) : Gen :=
  match inner with
  | (_, some e) => ([], some e)
  | (items, none) =>
    match items.getLast? with
    | none => ([], none)
    | some last =>
      (items.map (fun om => { om with offset := wrapperOffset - last.offset + om.offset }), none)

/-- the `codec` dispatch shared by `v0` and `v1` of `_decode_message` once key and value are read -/
def decodeCodec (ext : Ext) (recSet : Bytes → Gen) (att : Int) (value : Option Bytes)
    (plain : Gen) (wrap : Gen → Gen) : Gen :=
  let codec := att.toNat &&& attributeCodecMask   -- `att` comes from a `B` field: 0 ≤ att < 256
  if codec = codecNone.toNat then plain
  else if codec = codecGzip.toNat then
    match ext.gunzip value with
    | .error e => ([], some e)
    | .ok gz => wrap (recSet gz)
  else if codec = codecSnappy.toNat then
    match ext.unsnappy value with
    | .error e => ([], some e)
    | .ok snp => wrap (recSet snp)
  else ([], some .protocol)

/-- `KafkaCodec._decode_message(data, offset)` followed by iterating the generator it returns.
    `recSet` is `_decode_message_set_iter` (for the nested set of a compressed wrapper);
    `data = none` is a null message (`read_int_string` returned `None`): `len(None)` is a `TypeError`. -/
def decodeMessageWith (ext : Ext) (recSet : Bytes → Gen) (data : Option Bytes) (offset : Int) : Gen :=
  match data with
  | none => ([], some .typeError)
  | some data =>
  match relativeUnpack fmt_decode_message_0 data 0 with
  | .error e => ([], some e)
  | .ok ([crc, magic, att], cur) =>
    if crc ≠ ((ext.crc (pySlice data crcFrom data.length)) &&& crcMask : Nat) then ([], some .checksum)
    else if magic = 0 then
      match readIntString data cur with
      | .error e => ([], some e)
      | .ok (key, cur) => match readIntString data cur with
        | .error e => ([], some e)
        | .ok (value, _) =>
          decodeCodec ext recSet att value
            ([⟨offset, { magic := magic, attributes := att, key := key, value := value }⟩], none) id
    else if magic = 1 then
      match relativeUnpack fmt_decode_message_v1_0 data cur with
      | .error e => ([], some e)
      | .ok ([timestamp], cur) =>
        match readIntString data cur with
        | .error e => ([], some e)
        | .ok (key, cur) => match readIntString data cur with
          | .error e => ([], some e)
          | .ok (value, _) =>
            decodeCodec ext recSet att value
              ([⟨offset, { magic := magic, attributes := att, key := key, value := value,
                           timestamp := some timestamp }⟩], none)
              (v1Inner offset)
      | .ok _ => ([], some .valueError)   -- `((timestamp,), cur) = …` with another arity
    else ([], some .checksum)
  | .ok _ => ([], some .valueError)       -- `((crc, magic, att), cur) = …` with another arity

/-- the `while cur < len(data)` loop of `_decode_message_set_iter`; `n` bounds the iterations
    (exhaustion is the distinguished error `fuel`, never a value). -/
def setLoopWith (ext : Ext) (recSet : Bytes → Gen) (data : Bytes) :
    Nat → Int → Bool → Gen
  | 0, cur, _ => if cur < data.length then ([], some .fuel) else ([], none)
  | n+1, cur, readMessage =>
    if ¬ (cur < data.length) then ([], none)
    else
      -- `except BufferUnderflowError:` of the loop body
      let onErr (yielded : List OffsetAndMessage) (rm : Bool) (e : Err) : Gen :=
        if e = .bufferUnderflow then
          (if rm = false then (yielded, some .fetchSizeTooSmall) else (yielded, none))
        else (yielded, some e)
      match relativeUnpack fmt_decode_message_set_iter_0 data cur with
      | .error e => onErr [] readMessage e
      | .ok ([offset], cur1) =>
        match readIntString data cur1 with
        | .error e => onErr [] readMessage e
        | .ok (msg, cur2) =>
          let (ys, err) := decodeMessageWith ext recSet msg offset
          let rm := readMessage || !ys.isEmpty
          match err with
          | some e => onErr ys rm e
          | none =>
            let (zs, err') := setLoopWith ext recSet data n cur2 rm
            (ys ++ zs, err')
      | .ok _ => ([], some .valueError)

/-- `KafkaCodec._decode_message_set_iter(data)`, iterated to its end.  `depth` bounds the nesting of
    compressed wrappers (each level needs an answer of the external `gunzip`). -/
def decodeMessageSet (ext : Ext) : Nat → Bytes → Gen
  | 0, _ => ([], some .fuel)
  | depth+1, data => setLoopWith ext (decodeMessageSet ext depth) data (data.length + 1) 0 false

/-! ## message construction (`create_*`) -/

/-- `create_message(payload, key, magic)` (`magic ∈ {0, 1}` is asserted) -/
def createMessage (ext : Ext) (payload key : Option Bytes) (magic : Int) : R Message :=
  if magic ≠ 0 ∧ magic ≠ 1 then .error .assertion
  else if magic = 1 then .ok { magic := magic, attributes := 0, key := key, value := payload, timestamp := some ext.nowMs }
  else .ok { magic := magic, attributes := 0, key := key, value := payload }

/-- `create_gzip_message(message_set, magic)` -/
def createGzipMessage (ext : Ext) (ms : List Message) (magic : Int) : R Message :=
  match encodeMessageSet ext ms with
  | .error e => .error e
  | .ok enc => match ext.gzip enc with
    | .error e => .error e
    | .ok gz =>
      if magic = 1 then .ok { magic := magic, attributes := codecGzip, key := none, value := some gz, timestamp := some ext.nowMs }
      else .ok { magic := magic, attributes := codecGzip, key := none, value := some gz }

/-- `create_snappy_message(message_set, magic)` -/
def createSnappyMessage (ext : Ext) (ms : List Message) (magic : Int) : R Message :=
  match encodeMessageSet ext ms with
  | .error e => .error e
  | .ok enc => match ext.snappy enc with
    | .error e => .error e
    | .ok sn =>
      if magic = 1 then .ok { magic := magic, attributes := codecSnappy, key := none, value := some sn, timestamp := some ext.nowMs }
      else .ok { magic := magic, attributes := codecSnappy, key := none, value := some sn }

/-- the messages `create_message_set` builds for one `SendRequest(key, messages)` -/
def createMessagesFor (ext : Ext) (magic : Int) (key : Option Bytes) : List (Option Bytes) → R (List Message)
  | [] => .ok []
  | p :: ps =>
    match createMessage ext p key (if magic = 1 then 1 else 0), createMessagesFor ext magic key ps with
    | .ok m, .ok rest => .ok (m :: rest)
    | .error e, _ => .error e
    | _, .error e => .error e

def createMsgList (ext : Ext) (magic : Int) : List (Option Bytes × List (Option Bytes)) → R (List Message)
  | [] => .ok []
  | (key, payloads) :: reqs =>
    match createMessagesFor ext magic key payloads, createMsgList ext magic reqs with
    | .ok a, .ok b => .ok (a ++ b)
    | .error e, _ => .error e
    | _, .error e => .error e

/-- `create_message_set(requests, codec, magic)`; a request is `(key, messages)` -/
def createMessageSet (ext : Ext) (reqs : List (Option Bytes × List (Option Bytes))) (codec : Int) (magic : Int) :
    R (List Message) :=
  match createMsgList ext magic reqs with
  | .error e => .error e
  | .ok msglist =>
    if codec = codecNone then .ok msglist
    else if codec = codecGzip then
      match createGzipMessage ext msglist magic with
      | .error e => .error e
      | .ok m => .ok [m]
    else if codec = codecSnappy then
      match createSnappyMessage ext msglist magic with
      | .error e => .error e
      | .ok m => .ok [m]
    else .error .unsupportedCodec

end Afkak.Wire
