import Afkak.Bytes
/-!
# CRC-32 (IEEE 802.3, reflected, as `zlib.crc32`) — table driven, for RUNNING the wire model.

The wire models and theorems take the checksum function as a parameter (`Ext.crc`); the driver
instantiates it with `crc32`, and the correspondence check compares `crc32` with `zlib.crc32` on
every run.  (The algebraic CRC model used for the C12 burst theorem lives in `Afkak/Crc32.lean`.)
-/
namespace Afkak.Wire.Crc
open Afkak

def poly : UInt32 := 0xEDB88320

def step1 (c : UInt32) : UInt32 := if c &&& 1 == 1 then (c >>> 1) ^^^ poly else c >>> 1

def tableEntry (i : Nat) : UInt32 :=
  step1 (step1 (step1 (step1 (step1 (step1 (step1 (step1 (UInt32.ofNat i))))))))

def table : Array UInt32 := (Array.range 256).map tableEntry

def update (c : UInt32) (b : UInt8) : UInt32 :=
  (table.getD ((c ^^^ b.toUInt32) &&& 0xFF).toNat 0) ^^^ (c >>> 8)

/-- `zlib.crc32(bs)` -/
def crc32 (bs : Bytes) : Nat := ((bs.foldl update 0xFFFFFFFF) ^^^ 0xFFFFFFFF).toNat

end Afkak.Wire.Crc
