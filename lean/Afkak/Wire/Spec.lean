import Afkak.Codec.Combinators
/-!
# The Kafka protocol grammar — INDEPENDENT of afkak

Written from the Kafka protocol guide (https://kafka.apache.org/protocol: "Protocol Primitive
Types", "The Messages", and the message-set section of the 0.10 documentation), NOT from afkak's
sources: every layout below is a composition of the combinators of `Afkak/Codec/Combinators.lean`,
each of which carries the proof of its round-trip law, so every `Codec` defined here satisfies
`valid a → dec (enc a ++ rest) = some (a, rest)` by construction.

This module does not import any model of afkak.  `C04` decodes afkak's request bytes with the
request codecs; `C05` encodes responses / message sets with the response codecs and feeds them to
afkak's decoders.  Strings are byte strings (the grammar does not look inside them).
The checksum function is a parameter (`crc`), instantiated with CRC-32.
-/
namespace Afkak.Wire.Spec
open Afkak Afkak.Codec

/-! ## request header: `api_key api_version correlation_id client_id` -/

structure Header where
  apiKey : Int
  apiVersion : Int
  correlationId : Int
  clientId : Option Bytes
  deriving DecidableEq, Repr

def header : Codec Header :=
  iso (int16 ⊗ int16 ⊗ int32 ⊗ nullableString)
    (fun p => ⟨p.1, p.2.1, p.2.2.1, p.2.2.2⟩)
    (fun h => (h.apiKey, h.apiVersion, h.correlationId, h.clientId))
    (fun _ => true) (fun _ _ => rfl)

/-! ## messages and message sets (message format 0 and 1)

```
Message   => Crc MagicByte Attributes [Timestamp] Key Value
  Crc        => uint32   CRC-32 of everything after the Crc field
  MagicByte  => int8     0 or 1
  Attributes => int8     bit field: bits 0-2 compression codec, bit 3 timestamp type
  Timestamp  => int64    only when MagicByte = 1
  Key, Value => nullable BYTES
MessageSet => [Offset MessageSize Message]     -- NOT preceded by an array count
  Offset => int64   MessageSize => int32
```
`Attributes` is kept as the byte it is (0..255). -/

structure Msg where
  magic : Int
  attributes : Nat
  timestamp : Option Int
  key : Option Bytes
  value : Option Bytes
  deriving DecidableEq, Repr

/-- what follows `MagicByte`, depending on it -/
def msgRest (magic : Int) : Codec (Nat × Option Int × Option Bytes × Option Bytes) :=
  if magic = 0 then
    iso (uint8 ⊗ nullableBytes ⊗ nullableBytes)
      (fun p => (p.1, none, p.2.1, p.2.2)) (fun q => (q.1, q.2.2.1, q.2.2.2))
      (fun q => q.2.1.isNone)
      (by intro ⟨a, t, k, v⟩ h; cases t <;> simp_all)
  else if magic = 1 then
    iso (uint8 ⊗ int64 ⊗ nullableBytes ⊗ nullableBytes)
      (fun p => (p.1, some p.2.1, p.2.2.1, p.2.2.2))
      (fun q => (q.1, (match q.2.1 with | some t => t | none => 0), q.2.2.1, q.2.2.2))
      (fun q => q.2.1.isSome)
      (by intro ⟨a, t, k, v⟩ h; cases t <;> simp_all)
  else fail

/-- `MagicByte Attributes [Timestamp] Key Value` -/
def msgBody : Codec Msg :=
  iso (dep int8 msgRest)
    (fun p => ⟨p.1, p.2.1, p.2.2.1, p.2.2.2.1, p.2.2.2.2⟩)
    (fun m => (m.magic, m.attributes, m.timestamp, m.key, m.value))
    (fun _ => true) (fun _ _ => rfl)

/-- a whole message: the checksum, then the body, filling its region exactly -/
def message (crc : Bytes → Nat) : Exact Msg := checksummed crc (whole msgBody)

/-- `Offset MessageSize Message` -/
def entry (crc : Bytes → Nat) : Codec (Int × Msg) := int64 ⊗ sized32 (message crc)

/-- a message set filling its region exactly -/
def messageSet (crc : Bytes → Nat) : Exact (List (Int × Msg)) := many (entry crc)

/-! ## requests (body only; the frame is `header` then the body, nothing after it) -/

/-- `[topic [partition-level item]]` -/
def topics {α : Type} (c : Codec α) : Codec (List (Bytes × List α)) := array (string ⊗ array c)

/-- Produce v0, v1, v2: `acks timeout [topic [partition record_set]]`; `record_set` is a
    size-prefixed message set. -/
abbrev ProduceReq := Int × Int × List (Bytes × List (Int × List (Int × Msg)))
def produceRequest (crc : Bytes → Nat) : Codec ProduceReq :=
  int16 ⊗ int32 ⊗ topics (int32 ⊗ sized32 (messageSet crc))

/-- Fetch v0, v1, v2: `replica_id max_wait_time min_bytes [topic [partition fetch_offset max_bytes]]` -/
abbrev FetchReq := Int × Int × Int × List (Bytes × List (Int × Int × Int))
def fetchRequest : Codec FetchReq := int32 ⊗ int32 ⊗ int32 ⊗ topics (int32 ⊗ int64 ⊗ int32)

/-- ListOffsets v0: `replica_id [topic [partition timestamp max_num_offsets]]` -/
abbrev ListOffsetsReq := Int × List (Bytes × List (Int × Int × Int))
def listOffsetsRequest : Codec ListOffsetsReq := int32 ⊗ topics (int32 ⊗ int64 ⊗ int32)

/-- Metadata v0: `[topic]` -/
def metadataRequest : Codec (List Bytes) := array string

/-- OffsetCommit v1: `group_id generation_id member_id [topic [partition offset timestamp metadata]]` -/
abbrev OffsetCommitReq := Bytes × Int × Bytes × List (Bytes × List (Int × Int × Int × Option Bytes))
def offsetCommitRequest : Codec OffsetCommitReq :=
  string ⊗ int32 ⊗ string ⊗ topics (int32 ⊗ int64 ⊗ int64 ⊗ nullableString)

/-- OffsetFetch v1: `group_id [topic [partition]]` -/
abbrev OffsetFetchReq := Bytes × List (Bytes × List Int)
def offsetFetchRequest : Codec OffsetFetchReq := string ⊗ topics int32

/-- FindCoordinator v0 (GroupCoordinator): `group_id` -/
def findCoordinatorRequest : Codec Bytes := string

/-- JoinGroup v0: `group_id session_timeout member_id protocol_type [protocol_name protocol_metadata]` -/
abbrev JoinGroupReq := Bytes × Int × Bytes × Bytes × List (Bytes × Bytes)
def joinGroupRequest : Codec JoinGroupReq := string ⊗ int32 ⊗ string ⊗ string ⊗ array (string ⊗ bytes)

/-- SyncGroup v0: `group_id generation_id member_id [member_id member_assignment]` -/
abbrev SyncGroupReq := Bytes × Int × Bytes × List (Bytes × Bytes)
def syncGroupRequest : Codec SyncGroupReq := string ⊗ int32 ⊗ string ⊗ array (string ⊗ bytes)

/-- Heartbeat v0: `group_id generation_id member_id` -/
abbrev HeartbeatReq := Bytes × Int × Bytes
def heartbeatRequest : Codec HeartbeatReq := string ⊗ int32 ⊗ string

/-- LeaveGroup v0: `group_id member_id` -/
abbrev LeaveGroupReq := Bytes × Bytes
def leaveGroupRequest : Codec LeaveGroupReq := string ⊗ string

/-- ApiVersions v0: empty body -/
def apiVersionsRequest : Codec Unit := unit

/-- a whole request frame: header then body, nothing after -/
def request {α : Type} (body : Codec α) : Exact (Header × α) := whole (header ⊗ body)

/-! ## the consumer embedded protocol (payloads of JoinGroup / SyncGroup) -/

/-- `ConsumerProtocol` subscription: `version [topic] user_data` -/
abbrev Subscription := Int × List Bytes × Option Bytes
def subscription : Codec Subscription := int16 ⊗ array string ⊗ nullableBytes

/-- `ConsumerProtocol` assignment: `version [topic [partition]] user_data` -/
abbrev Assignment := Int × List (Bytes × List Int) × Option Bytes
def assignment : Codec Assignment := int16 ⊗ array (string ⊗ array int32) ⊗ nullableBytes

/-! ## responses: `correlation_id` then the body -/

/-- Produce v0: `[topic [partition error_code base_offset]]` -/
abbrev ProduceRespV0 := Int × List (Bytes × List (Int × Int × Int))
def produceResponseV0 : Codec ProduceRespV0 := int32 ⊗ topics (int32 ⊗ int16 ⊗ int64)

/-- Produce v2: `[topic [partition error_code base_offset log_append_time]] throttle_time_ms` -/
abbrev ProduceRespV2 := Int × List (Bytes × List (Int × Int × Int × Int)) × Int
def produceResponseV2 : Codec ProduceRespV2 := int32 ⊗ topics (int32 ⊗ int16 ⊗ int64 ⊗ int64) ⊗ int32

/-- Fetch v0: `[topic [partition error_code high_watermark record_set]]` -/
abbrev FetchRespV0 := Int × List (Bytes × List (Int × Int × Int × List (Int × Msg)))
def fetchResponseV0 (crc : Bytes → Nat) : Codec FetchRespV0 :=
  int32 ⊗ topics (int32 ⊗ int16 ⊗ int64 ⊗ sized32 (messageSet crc))

/-- Fetch v1, v2: `throttle_time_ms [topic [partition error_code high_watermark record_set]]` -/
abbrev FetchRespV2 := Int × Int × List (Bytes × List (Int × Int × Int × List (Int × Msg)))
def fetchResponseV2 (crc : Bytes → Nat) : Codec FetchRespV2 :=
  int32 ⊗ int32 ⊗ topics (int32 ⊗ int16 ⊗ int64 ⊗ sized32 (messageSet crc))

/-- ListOffsets v0: `[topic [partition error_code [offset]]]` -/
abbrev ListOffsetsResp := Int × List (Bytes × List (Int × Int × List Int))
def listOffsetsResponse : Codec ListOffsetsResp := int32 ⊗ topics (int32 ⊗ int16 ⊗ array int64)

/-- Metadata v0: `[node_id host port] [error_code topic [error_code partition leader [replica] [isr]]]` -/
abbrev MetadataResp :=
  Int × List (Int × Bytes × Int) × List (Int × Bytes × List (Int × Int × Int × List Int × List Int))
def metadataResponse : Codec MetadataResp :=
  int32 ⊗ array (int32 ⊗ string ⊗ int32)
    ⊗ array (int16 ⊗ string ⊗ array (int16 ⊗ int32 ⊗ int32 ⊗ array int32 ⊗ array int32))

/-- OffsetCommit v1: `[topic [partition error_code]]` -/
abbrev OffsetCommitResp := Int × List (Bytes × List (Int × Int))
def offsetCommitResponse : Codec OffsetCommitResp := int32 ⊗ topics (int32 ⊗ int16)

/-- OffsetFetch v1: `[topic [partition offset metadata error_code]]` -/
abbrev OffsetFetchResp := Int × List (Bytes × List (Int × Int × Option Bytes × Int))
def offsetFetchResponse : Codec OffsetFetchResp := int32 ⊗ topics (int32 ⊗ int64 ⊗ nullableString ⊗ int16)

/-- FindCoordinator v0: `error_code node_id host port` -/
abbrev FindCoordinatorResp := Int × Int × Int × Bytes × Int
def findCoordinatorResponse : Codec FindCoordinatorResp := int32 ⊗ int16 ⊗ int32 ⊗ string ⊗ int32

/-- JoinGroup v0: `error_code generation_id group_protocol leader_id member_id [member_id member_metadata]` -/
abbrev JoinGroupResp := Int × Int × Int × Bytes × Bytes × Bytes × List (Bytes × Bytes)
def joinGroupResponse : Codec JoinGroupResp :=
  int32 ⊗ int16 ⊗ int32 ⊗ string ⊗ string ⊗ string ⊗ array (string ⊗ bytes)

/-- SyncGroup v0: `error_code member_assignment` -/
abbrev SyncGroupResp := Int × Int × Bytes
def syncGroupResponse : Codec SyncGroupResp := int32 ⊗ int16 ⊗ bytes

/-- Heartbeat v0 / LeaveGroup v0: `error_code` -/
abbrev ErrorOnlyResp := Int × Int
def errorOnlyResponse : Codec ErrorOnlyResp := int32 ⊗ int16

/-- ApiVersions v0: `error_code [api_key min_version max_version]` -/
abbrev ApiVersionsResp := Int × Int × List (Int × Int × Int)
def apiVersionsResponse : Codec ApiVersionsResp := int32 ⊗ int16 ⊗ array (int16 ⊗ int16 ⊗ int16)

end Afkak.Wire.Spec
