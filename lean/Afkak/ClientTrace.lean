import Afkak.ClientNet
/-!
# The model's trace with the attribution items, and well-formed runs

`traceOf` (ClientNet.lean) emits what the core of the implementation's traces contains: events,
observations, the cache dump and the timer list after every step.  The C07 monitor also needs to know
which operation a broker request belongs to (`attr`: the payload indices a request of a send carries;
`uattr`: the broker-agnostic request instance that made a request).  The harness reads these off the
running coroutines; the model knows them from the owner of each request.  `traceOfA` adds them (after the
observations of the step, before its dump).  The bootstrap attributions (`battr`, `uop`) are not derived:
the monitor's rules about the fall-back to the bootstrap hosts are idle on these traces.
-/
namespace Afkak.ClientNet
open Afkak.ClientCache

/-- the attribution items of the requests issued in a step, read off the state after it -/
def attrItems (st' : St) (obs : List Ob) : List TItem :=
  obs.flatMap (fun o => match o with
    | .mk k _ _ what =>
      (match reqGet st' k with
       | some q =>
         (match q.owner, what with
          | .slot s _, .payloads idxs _ => (match sendGet st' s with | some x => [TItem.attr k x.o idxs] | none => [])
          | .unaware u _, _ => [TItem.uattr k u]
          | _, _ => [])
       | none => [])
    | _ => [])

/-- the model's trace with attribution items -/
def traceOfA (cfg : Cfg) : St → List (Env × Ev) → List TItem
  | _, [] => []
  | st, (env, e) :: rest =>
    let r := step cfg st env e
    [TItem.ev e] ++ r.2.map TItem.ob ++ attrItems r.1 r.2 ++
      [TItem.dump r.1.cache, TItem.timers (r.1.timers.map (fun t => (t.what, t.due)))] ++ traceOfA cfg r.1 rest

/-- the operation id an API event introduces -/
def opIdOf : Ev → Option Nat
  | .load o _ | .send o _ _ _ _ | .cload o _ | .srtc o _ _ | .ltp o _ | .close o => some o
  | _ => none

/-- a run the harness can produce: operation ids are fresh, the environment answered every question the
    model asked (no `badOp`: enough shuffle results, events that refer to existing requests/connections,
    non-negative clock steps) and no step exhausted the interpreter's fuel -/
def WellFormedRun (cfg : Cfg) (evs : List (Env × Ev)) : Prop :=
  (evs.filterMap (fun e => opIdOf e.2)).Nodup ∧
  (∀ it ∈ traceOf cfg {} evs, ∀ w, it ≠ TItem.ob (.badOp w))

end Afkak.ClientNet
