import Afkak.ClientNet
/-!
# `ClientIface` — what the layers above `KafkaClient` (producer, consumer, group) may assume

The closed set of result kinds a client operation completes with, and the contract as a decidable
predicate over OBSERVED client traces (`List TItem`): every operation completes at most once, with a
kind that its API admits; `FailedPayloadsError` lists distinct payloads of the call with per-payload
kinds from a closed set; and the outcomes of `Deferred.cancel()` are the ones documented in
`harness/lib/client_iface.md` (operation × state at cancel).  The client-layer checks evaluate
`contractOk` on the real client's traces (driver request `mon-iface`), which keeps the table honest;
the fake clients of the producer/consumer/group checks implement the same table.
-/
namespace Afkak.ClientIface
open Afkak.ClientNet Afkak.ClientCache

/-- per-payload failure kinds inside `FailedPayloadsError` -/
inductive PKind where
  | timedOut | cancelled | clientClosed | other
  deriving DecidableEq, Repr

/-- the closed set of completion kinds -/
inductive ResKind where
  | okTrue                       -- load_metadata_for_topics / load_coordinator_for_group succeeded
  | okNone                       -- load_metadata_for_topics: cancelled (documented value)
  | responses (n : Nat)
  | failedPayloads (nresp : Nat) (failed : List (Nat × PKind))
  | simple (err : Int)
  | brokerError (code : Int)
  | leaderUnavailable | partitionUnavailable | coordinatorNotAvailable | unavailable
  | clientClosed | cancelled | timedOut | other
  deriving DecidableEq, Repr

def pkindOf : Kind → PKind
  | .brokerError e => if e == Afkak.Consts.clientRequestTimedOutErrno then .timedOut else .other
  | .cancelled => .cancelled
  | .clientClosed => .clientClosed
  | _ => .other

def classifyKind : Kind → ResKind
  | .brokerError e =>
    if e == Afkak.Consts.clientRequestTimedOutErrno then .timedOut
    else if e == Afkak.Consts.clientCoordinatorNotAvailableErrno then .coordinatorNotAvailable
    else .brokerError e
  | .leaderUnavailable => .leaderUnavailable
  | .partitionUnavailable => .partitionUnavailable
  | .unavailable => .unavailable
  | .clientClosed => .clientClosed
  | .cancelled | .afkakCancelled => .cancelled
  | _ => .other

def classify : OpRes → ResKind
  | .okTrue => .okTrue
  | .okNone => .okNone
  | .responses tags => .responses tags.length
  | .failedPayloads tags failed => .failedPayloads tags.length (failed.map (fun f => (f.1, pkindOf f.2)))
  | .simple e => .simple e
  | .fail k => classifyKind k

/-- which API an operation is -/
inductive OpType where
  | load | send (n : Nat) (group : Bool) | cload | srtc | ltp
  deriving DecidableEq, Repr

def nodupNat : List Nat → Bool
  | [] => true
  | a :: l => !l.contains a && nodupNat l

/-- kinds each API may complete with -/
def admits : OpType → ResKind → Bool
  | .load, .okTrue | .load, .okNone | .load, .unavailable | .load, .other => true
  | .send n _, .responses m => m ≤ n
  | .send n _, .failedPayloads m failed =>
    -- (a broker may also answer for partitions another, failed, request carried: no bound on m + failed)
    m ≤ n && nodupNat (failed.map (·.1)) && failed.all (fun f => f.1 < n) && !failed.isEmpty
  | .send _ _, .brokerError _ | .send _ _, .timedOut | .send _ _, .leaderUnavailable
  | .send _ _, .partitionUnavailable | .send _ _, .unavailable | .send _ _, .other => true
  | .send _ _, .clientClosed => true   -- closed while resolving: `_get_brokerclient` refuses
  | .send _ true, .coordinatorNotAvailable | .send _ true, .cancelled => true
  | .cload, .okTrue | .cload, .coordinatorNotAvailable | .cload, .cancelled => true
  | .srtc, .simple _ | .srtc, .brokerError _ | .srtc, .timedOut | .srtc, .coordinatorNotAvailable
  | .srtc, .cancelled | .srtc, .clientClosed | .srtc, .other => true
  | .ltp, .okTrue | .ltp, .unavailable | .ltp, .clientClosed | .ltp, .cancelled | .ltp, .other => true
  | _, _ => false

/-- outcomes of `cancel()` when the Deferred completes inside the cancel call -/
def cancelAdmits : OpType → ResKind → Bool
  | .load, .okNone | .load, .unavailable => true
  | .send _ _, .failedPayloads _ failed => failed.all (fun f => f.2 == .cancelled || f.2 == .timedOut || f.2 == .clientClosed || f.2 == .other)
      && failed.any (fun f => f.2 == .cancelled)
  | .send _ _, .partitionUnavailable | .send _ _, .leaderUnavailable | .send _ _, .unavailable => true
  | .send _ true, .cancelled => true
  | .send _ _, .responses _ | .send _ _, .brokerError _ | .send _ _, .other => true  -- everything had been answered
  | .cload, .cancelled => true
  | .srtc, .cancelled => true
  | .ltp, .cancelled | .ltp, .unavailable => true
  | _, _ => false

structure MSt where
  ops : List (Nat × OpType) := []
  done : List Nat := []
  /-- the operation cancelled by the current step's event -/
  cancelling : Option Nat := none
  fails : List String := []
  deriving Repr

def stepItem (s : MSt) : TItem → MSt
  | .ev e =>
    let s := { s with cancelling := none }
    match e with
    | .load o _ => { s with ops := s.ops ++ [(o, .load)] }
    | .send o keys g _ _ => { s with ops := s.ops ++ [(o, .send keys.length g.isSome)] }
    | .cload o _ => { s with ops := s.ops ++ [(o, .cload)] }
    | .srtc o _ _ => { s with ops := s.ops ++ [(o, .srtc)] }
    | .ltp o _ => { s with ops := s.ops ++ [(o, .ltp)] }
    | .cancel o => { s with cancelling := some o }
    | _ => s
  | .ob (.result o r) =>
    let k := classify r
    let s1 := if s.done.contains o then { s with fails := s.fails ++ [s!"operation {o} completed twice"] } else { s with done := s.done ++ [o] }
    match get? o s.ops with
    | none => { s1 with fails := s1.fails ++ [s!"result for unknown operation {o}"] }
    | some t =>
      let s2 := if admits t k then s1 else { s1 with fails := s1.fails ++ [s!"operation {o} completed with a kind outside the set of its API"] }
      -- `other` covers decode errors and argument errors; an internal look-up error is never a documented result
      let internal := match r with
        | .fail (.other cls) => cls == "KeyError" || cls == "IndexError"
        | .failedPayloads _ fl => fl.any (fun f => match f.2 with | .other cls => cls == "KeyError" || cls == "IndexError" | _ => false)
        | _ => false
      let s2 := if internal then { s2 with fails := s2.fails ++ [s!"operation {o} surfaced an internal error of the client"] } else s2
      if s.cancelling == some o && !cancelAdmits t k then
        { s2 with fails := s2.fails ++ [s!"operation {o}: cancel outcome is not in the documented table"] }
      else s2
  | _ => s

def run (tr : List TItem) : MSt := tr.foldl stepItem {}

/-- the contract over one observed trace -/
def contractOk (tr : List TItem) : Bool := (run tr).fails.isEmpty

end Afkak.ClientIface
