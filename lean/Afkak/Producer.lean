import Afkak.Partitioner
import Afkak.Generated.ProducerConsts
/-!
# `afkak/producer.py` — the Producer, modelled against the client INTERFACE (DESIGN §2.9)

Every call the Producer makes into its client is an observation (`loadMeta`, `produce`, `resetMeta`,
`cancelReq`); every completion of such a call is an input event carrying one of the `ClientIface`
result kinds.  The client's metadata cache, which the Producer reads synchronously
(`metadata_error_for_topic`, `topic_partitions`), is mirrored in `St.tmeta` and changed only by the
environment events `metaSet / metaReset / metaWipe` and by the Producer's own `reset_topic_metadata`.

Deferred chains are flattened into handlers (same order as the callbacks run):

* `_send_batch`            = `dispatch` (the `_next_partition` coroutines are `Lookup`s with an explicit pc)
* `DeferredList` + `_send_requests` = `afterLookups` / `sendRequests`
* `_handle_send_response` (+ `_deliver_result`, `_check_retry_payloads`, `_do_retry`, `_cancel_retry`)
                            = `handleSendResponse`, `deliver`, `checkRetry`, `doRetry`, the `retryWait` case of `stop`
* `_complete_batch_send` + `_check_send_batch` = `completeBatch`
* `Deferred.cancel` of `_batch_send_d` = `cancelBatch` (cancels what the chain currently waits on; the
  client's answer to a cancel is a parameter of the `stop` event, see harness/lib/client_iface.md)

Timers are abstract (`setTimer tid d` / `timer tid`); "timers fire when due" is an assumed contract.
-/
namespace Afkak.Producer
open Afkak.Consts Afkak.Partitioner

abbrev Sid := Nat
abbrev Rid := Nat
abbrev Tid := Nat
abbrev Topic := Nat

structure TP where
  topic : Topic
  part : Int
  deriving DecidableEq, Repr

/-- Canonical exception kinds `(class, errno)`. `other n`: not a `KafkaError`
    (0 KeyError, 1 RuntimeError, 2 ZeroDivisionError, 3 TypeError, 4 ValueError, …). -/
inductive ErrKind
  | broker (code : Int)
  | leaderUnavailable
  | partitionUnavailable
  | unavailable
  | clientClosed
  | tcancelled                      -- twisted.internet.defer.CancelledError
  | acancelled (sent : Option Bool) -- afkak.common.CancelledError(request_sent=…): a KafkaError
  | noResponse
  | other (n : Nat)
  deriving DecidableEq, Repr

/-- `failure.check(KafkaError)` -/
def ErrKind.isKafka : ErrKind → Bool
  | .tcancelled => false
  | .other _ => false
  | _ => true

/-- a cancellation error of either flavour -/
def ErrKind.isCancel : ErrKind → Bool
  | .tcancelled => true
  | .acancelled _ => true
  | _ => false

structure Resp where
  tp : TP
  error : Int
  offset : Int
  deriving DecidableEq, Repr

/-- one `(payload, failure)` entry of a `FailedPayloadsError`; `wrapped`: the second component is a
    `Failure` (real client) rather than a bare exception instance (what the suite's mocks pass). -/
structure FailedP where
  tp : TP
  kind : ErrKind
  wrapped : Bool
  deriving DecidableEq, Repr

/-- completion of `send_produce_request` -/
inductive ProdRes
  | responses (rs : List Resp)                  -- callback(list)
  | none                                        -- callback(None)
  | failed (rs : List Resp) (fs : List FailedP) -- errback(FailedPayloadsError(rs, fs))
  | err (k : ErrKind)                           -- errback(anything else)
  deriving DecidableEq, Repr

/-- completion of `load_metadata_for_topics`: any callback value (True, None) or a failure -/
inductive MetaRes
  | ok
  | err (k : ErrKind)
  deriving DecidableEq, Repr

/-- what a send's Deferred fired with -/
inductive Outcome
  | ok (r : Resp)
  | okNone
  | okExc (k : ErrKind)   -- callback(exception instance): never produced by the model (F6, fixed); kept for monitors
  | err (k : ErrKind)
  deriving DecidableEq, Repr

/-- `SendRequest(topic, key, messages, deferred)`; a message is its length, `none` = null message -/
structure Req where
  sid : Sid
  topic : Topic
  key : Option (List UInt8)
  msgs : List (Option Nat)
  deriving DecidableEq, Repr

/-- one message of a produce payload: the key of the `send_messages` call it came from, and its value (`none`: a
    null message; the number stands for the value - its size is what the byte counter sees) -/
structure Msg where
  key : Option (List UInt8)
  value : Option Nat
  deriving DecidableEq, Repr

/-- one topic/partition of a batch: `deferredsByTopicPart[tp]` (the sends riding on it, in order) and
    `payloadsByTopicPart[tp].messages` (their messages, in that order) -/
structure Payload where
  tp : TP
  sids : List Sid
  /-- `payloadsByTopicPart[tp].messages`: what `create_message_set(reqs)` is given, message by message -/
  msgs : List Msg := []
  deriving DecidableEq, Repr

/-- the messages of a send as they go into a payload: each value with the call's key -/
def Req.wire (r : Req) : List Msg := r.msgs.map (fun v => ⟨r.key, v⟩)

inductive LRes
  | part (p : Int)
  | fail (k : ErrKind)
  deriving DecidableEq, Repr

/-- program counter of one `_next_partition` coroutine -/
inductive LPc
  | waitMeta (rid : Rid)     -- `yield self.client.load_metadata_for_topics(topic)`
  | waitBackoff (tid : Tid)  -- `yield d` (the back-off Deferred)
  | done (r : LRes)
  deriving DecidableEq, Repr

structure Lookup where
  req : Req
  pc : LPc
  deriving DecidableEq, Repr

structure Batch where
  groups : List Payload   -- deferredsByTopicPart, in dict order
  live : List TP          -- keys of payloadsByTopicPart (acknowledged ones popped), in dict order
  current : List TP       -- payloads of the attempt in flight
  deriving DecidableEq, Repr

inductive Phase
  | idle                                             -- `_batch_send_d is None`
  | lookups (ls : List Lookup)                       -- waiting on the DeferredList
  | sending (rid : Rid) (b : Batch)                  -- waiting on the client
  | retryWait (tid : Tid) (b : Batch) (retry : List TP)  -- waiting on the retry timer
  deriving DecidableEq, Repr

structure TopicMeta where
  topic : Topic
  err : Int
  parts : Option (List Int)   -- `none`: topic absent from `topic_partitions`
  deriving DecidableEq, Repr

structure Cfg where
  acks : Int
  maxAttempts : Int
  initInterval : Rat
  everyN : Int
  everyB : Int
  everyT : Option Rat
  hashed : Bool
  deriving Repr

/-- `Producer.__init__`'s normalisation of the batch arguments -/
def Cfg.ofArgs (acks maxAttempts : Int) (initInterval : Rat) (batchSend : Bool) (n b : Int)
    (t : Option Rat) (hashed : Bool) : Cfg :=
  if batchSend then { acks, maxAttempts, initInterval, everyN := n, everyB := b, everyT := t, hashed }
  else { acks, maxAttempts, initInterval, everyN := 1, everyB := 1, everyT := none, hashed }

structure St where
  queue : List Req := []            -- _batch_reqs
  msgCount : Int := 0               -- _waitingMsgCount
  byteCount : Int := 0              -- _waitingByteCount
  outstanding : List Sid := []      -- _outstanding
  phase : Phase := .idle            -- _batch_send_d and what its chain waits on
  attempts : Int := 0               -- _req_attempts
  interval : Rat := 0               -- _retry_interval
  partitioners : List (Topic × RR) := []
  looper : Bool := false            -- _sendLooper is running
  stopping : Bool := false
  tmeta : List TopicMeta := []      -- the client's cache
  nextSid : Sid := 0
  nextRid : Rid := 0
  nextTid : Tid := 0
  zombies : List Tid := []          -- back-off timers whose Deferred was cancelled (firing them does nothing)
  deriving Repr

/-- `if batch_every_t:` start the LoopingCall -/
def St.init (cfg : Cfg) : St :=
  { interval := cfg.initInterval,
    looper := match cfg.everyT with | some t => t != 0 | none => false }

inductive Ev
  | send (sid : Sid) (topic : Topic) (key : Option (List UInt8)) (msgs : List (Option Nat))
  | cancel (sid : Sid)
  | tick
  | timer (tid : Tid)
  | advance (dt : Rat)
  | metaSet (topic : Topic) (err : Int) (parts : Option (List Int))
  | metaReset (topics : List Topic)
  | metaWipe
  | metaDone (rid : Rid) (r : MetaRes)
  | produceDone (rid : Rid) (r : ProdRes)
  /-- `stop()`; what the client answers SYNCHRONOUSLY to the cancel of its pending request(s):
      `pout` for the produce request in flight, `mouts` for metadata loads; absent = stays pending.
      `wipe`: the client calls `reset_all_metadata()` before answering the produce cancel. -/
  | stop (wipe : Bool) (pout : Option ProdRes) (mouts : List (Rid × MetaRes))
  deriving Repr

inductive Ob
  | loadMeta (rid : Rid) (topic : Topic)
  | produce (rid : Rid) (payloads : List Payload)
  | cancelReq (rid : Rid)
  | fire (sid : Sid) (o : Outcome)
  | setTimer (tid : Tid) (d : Rat)
  | cancelTimer (tid : Tid)
  | resetMeta (topics : List Topic)
  | stopLooper
  | badOp
  deriving DecidableEq, Repr

/-! ## the client's cache as the Producer reads it -/

def metaEntry (st : St) (t : Topic) : Option TopicMeta := (st.tmeta.filter (·.topic = t)).head?

/-- `client.metadata_error_for_topic(topic)` -/
def metaErr (st : St) (t : Topic) : Int :=
  match metaEntry st t with
  | some m => m.err
  | none => producerErrnoUnknownTopic

/-- `client.topic_partitions[topic]` (`none`: KeyError) -/
def metaParts (st : St) (t : Topic) : Option (List Int) :=
  match metaEntry st t with
  | some m => m.parts
  | none => none

def setPartitioner (st : St) (t : Topic) (rr : RR) : St :=
  { st with partitioners := (st.partitioners.filter (·.1 ≠ t)) ++ [(t, rr)] }

/-- tail of `_next_partition`: `topic_partitions[topic]`, create the partitioner if needed, `partition(key, partitions)` -/
def pickPartition (cfg : Cfg) (st : St) (t : Topic) (key : Option (List UInt8)) : St × LRes :=
  match metaParts st t with
  | none => (st, .fail (.other 0))                      -- KeyError
  | some ps =>
    if cfg.hashed then
      match key with
      | none => (st, .fail (.other 3))                  -- TypeError from _hash(None)
      | some k =>
        match hashed k ps with
        | some p => (st, .part p)
        | none => (st, .fail (.other 2))                -- ZeroDivisionError
    else
      let rr0 : RR := match (st.partitioners.filter (·.1 = t)).head? with
        | some e => e.2
        | none => { parts := sortInts ps, rot := ps }   -- RoundRobinPartitioner(topic, partitions)
      match rrPartition rr0 ps none with
      | some (p, rr') => (setPartitioner st t rr', .part p)
      | none =>   -- StopIteration inside the generator: RuntimeError; `_set_partitions` has run
        (setPartitioner st t (if rr0.parts ≠ ps then { parts := sortInts ps, rot := ps } else rr0), .fail (.other 1))

/-- `_next_partition` from the head of its `while` loop up to the next `yield` (or its end) -/
def lookupHead (cfg : Cfg) (st : St) (r : Req) : St × LPc × List Ob :=
  if metaErr st r.topic ≠ 0 then
    if st.attempts ≥ cfg.maxAttempts then
      (st, .done (.fail (.broker (metaErr st r.topic))), [])      -- raise_for_errno
    else
      ({ st with nextRid := st.nextRid + 1 }, .waitMeta st.nextRid, [.loadMeta st.nextRid r.topic])
  else
    let (st', res) := pickPartition cfg st r.topic r.key
    (st', .done res, [])

/-- `for req in requests: d_list.append(self._next_partition(req.topic, req.key))` -/
def startLookups (cfg : Cfg) : St → List Req → St × List Lookup × List Ob
  | st, [] => (st, [], [])
  | st, r :: rest =>
    let (st1, pc, obs1) := lookupHead cfg st r
    let (st2, ls, obs2) := startLookups cfg st1 rest
    (st2, { req := r, pc := pc } :: ls, obs1 ++ obs2)

def LPc.isDone : LPc → Bool
  | .done _ => true
  | _ => false

/-! ## firing send Deferreds (`_deliver_result`: `if not d.called: d.callback(result)`) -/

/-- fire, in order, those of `sids` that have not been called; returns the new `_outstanding` -/
def deliver : List Sid → List Sid → Outcome → List Sid × List Ob
  | out, [], _ => (out, [])
  | out, s :: rest, o =>
    if s ∈ out then
      let (out', obs) := deliver (out.erase s) rest o
      (out', .fire s o :: obs)
    else deliver out rest o

def deliverMany : List Sid → List (List Sid × Outcome) → List Sid × List Ob
  | out, [] => (out, [])
  | out, (sids, o) :: rest =>
    let (out1, obs1) := deliver out sids o
    let (out2, obs2) := deliverMany out1 rest
    (out2, obs1 ++ obs2)

/-- `deferredsByTopicPart[tp]` (a defaultdict: `[]` when absent) -/
def Batch.sidsOf (b : Batch) (tp : TP) : List Sid := (b.groups.filter (·.tp = tp)).flatMap (·.sids)

/-- `deferredsByTopicPart.values()` flattened -/
def Batch.allSids (b : Batch) : List Sid := b.groups.flatMap (·.sids)

def Batch.payloadsFor (b : Batch) (tps : List TP) : List Payload :=
  tps.flatMap (fun tp => b.groups.filter (·.tp = tp))

/-! ## `_send_requests` -/

def addToGroups (gs : List Payload) (tp : TP) (sid : Sid) (ms : List Msg) : List Payload :=
  if gs.any (·.tp = tp) then
    gs.map (fun g => if g.tp = tp then { g with sids := g.sids ++ [sid], msgs := g.msgs ++ ms } else g)
  else gs ++ [{ tp := tp, sids := [sid], msgs := ms }]

/-- the loop over `zip(parts_results, requests)`: skip called ones, errback failed look-ups, group the rest -/
def procResults : List Lookup → List Sid → List Payload → List Sid × List Payload × List Ob
  | [], out, gs => (out, gs, [])
  | l :: rest, out, gs =>
    if l.req.sid ∈ out then
      match l.pc with
      | .done (.part p) => procResults rest out (addToGroups gs ⟨l.req.topic, p⟩ l.req.sid l.req.wire)
      | .done (.fail k) =>
        let (o, g, obs) := procResults rest (out.erase l.req.sid) gs
        (o, g, .fire l.req.sid (.err k) :: obs)
      | _ => procResults rest out gs
    else procResults rest out gs

/-- `_complete_batch_send`'s resets -/
def resetBatch (cfg : Cfg) (st : St) : St :=
  { st with phase := .idle, attempts := 0, interval := cfg.initInterval }

/-- `_send_requests`; the Bool says the batch resolved (no request went out) -/
def sendRequests (st : St) (ls : List Lookup) : St × List Ob × Bool :=
  if st.stopping then (st, [], true)
  else
    let (out, gs, obs) := procResults ls st.outstanding []
    let st1 := { st with outstanding := out }
    if gs.isEmpty then (st1, obs, true)
    else
      let b : Batch := { groups := gs, live := gs.map (·.tp), current := gs.map (·.tp) }
      ({ st1 with nextRid := st1.nextRid + 1, attempts := st1.attempts + 1, phase := .sending st1.nextRid b },
        obs ++ [.produce st1.nextRid gs], false)

/-- `_check_send_batch`'s test -/
def thresholdMet (cfg : Cfg) (st : St) : Bool :=
  (cfg.everyN ≠ 0 && decide (cfg.everyN ≤ st.msgCount)) || (cfg.everyB ≠ 0 && decide (cfg.everyB ≤ st.byteCount))

/-- `_send_batch`'s guard -/
def canDispatch (st : St) : Bool :=
  !st.queue.isEmpty && st.phase == .idle && !st.stopping

/-- `_send_batch` past its guard.  If every look-up finishes at once `_send_requests` runs inside, and if
    that resolves the batch the nested `_check_send_batch` finds `_batch_reqs` empty: only the resets remain. -/
def dispatch (cfg : Cfg) (st : St) : St × List Ob :=
  let (st1, ls, obs1) := startLookups cfg { st with queue := [], msgCount := 0, byteCount := 0 } st.queue
  let st2 := { st1 with phase := .lookups ls }
  if ls.all (·.pc.isDone) then
    let (st3, obs2, resolved) := sendRequests st2 ls
    (if resolved then resetBatch cfg st3 else st3, obs1 ++ obs2)
  else (st2, obs1)

def sendBatch (cfg : Cfg) (st : St) : St × List Ob :=
  if canDispatch st then dispatch cfg st else (st, [])

def checkSendBatch (cfg : Cfg) (st : St) : St × List Ob :=
  if thresholdMet cfg st then sendBatch cfg st else (st, [])

/-- `_complete_batch_send` then `_check_send_batch` -/
def completeBatch (cfg : Cfg) (st : St) : St × List Ob :=
  checkSendBatch cfg (resetBatch cfg st)

/-- after a look-up moved: has the DeferredList fired? -/
def afterLookups (cfg : Cfg) (st : St) (ls : List Lookup) (obs : List Ob) : St × List Ob :=
  let st1 := { st with phase := .lookups ls }
  if ls.all (·.pc.isDone) then
    let (st2, obs2, resolved) := sendRequests st1 ls
    if resolved then
      let (st3, obs3) := completeBatch cfg st2
      (st3, obs ++ obs2 ++ obs3)
    else (st2, obs ++ obs2)
  else (st1, obs)

/-! ## `_handle_send_response` -/

def insertNat (a : Nat) : List Nat → List Nat
  | [] => [a]
  | b :: l => if a < b then a :: b :: l else if a = b then b :: l else b :: insertNat a l

/-- `sorted(set(...))` -/
def sortDedup : List Nat → List Nat
  | [] => []
  | a :: l => insertNat a (sortDedup l)

/-- topics whose failure is an (unwrapped) NotLeaderForPartition / UnknownTopicOrPartition instance -/
def resetTopics (failed : List FailedP) : List Topic :=
  sortDedup ((failed.filter (fun f => !f.wrapped &&
    (f.kind = .broker producerErrnoNotLeader || f.kind = .broker producerErrnoUnknownTopic))).map (·.tp.topic))

/-- `_check_retry_payloads` -/
def checkRetry (cfg : Cfg) (st : St) (b : Batch) (failed : List FailedP) : St × List Ob × Bool :=
  if st.stopping then (st, [], true)
  else if st.attempts ≥ cfg.maxAttempts then
    let (out, obs) := deliverMany st.outstanding (failed.map (fun f => (b.sidsOf f.tp, .err f.kind)))
    -- acks = 0: no acknowledgement will ever arrive; what did not fail was handed to a connection
    let (out2, obs2) := if cfg.acks = producerAckNotRequired then deliver out b.allSids .okNone else (out, [])
    ({ st with outstanding := out2 }, obs ++ obs2, true)
  else
    let topics := resetTopics failed
    ({ st with nextTid := st.nextTid + 1, interval := st.interval * producerRetryFactor,
               tmeta := st.tmeta.filter (fun m => m.topic ∉ topics),
               phase := .retryWait st.nextTid b (failed.map (·.tp)) },
      [.setTimer st.nextTid st.interval] ++ (if topics.isEmpty then [] else [.resetMeta topics]), false)

/-- the topic/partitions a result talks about -/
def ProdRes.tps : ProdRes → List TP
  | .responses rs => rs.map (·.tp)
  | .none => []
  | .failed rs fs => fs.map (·.tp) ++ rs.map (·.tp)
  | .err _ => []

/-- Client contract (C07): a result names only payloads of the request, each at most once. -/
def validResult (b : Batch) (r : ProdRes) : Bool :=
  r.tps.all (· ∈ b.current) && decide r.tps.Nodup

/-- the part of `_handle_send_response` after `result` / `failed_payloads` are set -/
def handleResults (cfg : Cfg) (st : St) (b : Batch) (rs : List Resp) (fs : List FailedP) : St × List Ob × Bool :=
  let failed := fs ++ (rs.filter (·.error ≠ 0)).map (fun r => ⟨r.tp, .broker r.error, false⟩)
  let good := rs.filter (·.error = 0)
  let (out, obs) := deliverMany st.outstanding (good.map (fun r => (b.sidsOf r.tp, .ok r)))
  -- only what failed stays listed for a retry (F17, F30)
  let b' := { b with live := b.live.filter (fun tp => failed.any (·.tp = tp)) }
  let st1 := { st with outstanding := out }
  if failed.isEmpty then (st1, obs, true)
  else
    let (st2, obs2, resolved) := checkRetry cfg st1 b' failed
    (st2, obs ++ obs2, resolved)

def deliverAll (st : St) (b : Batch) (o : Outcome) : St × List Ob × Bool :=
  let (out, obs) := deliver st.outstanding b.allSids o
  ({ st with outstanding := out }, obs, true)

def handleSendResponse (cfg : Cfg) (st : St) (b : Batch) (r : ProdRes) : St × List Ob × Bool :=
  match r with
  | .none => deliverAll st b (if cfg.acks = producerAckNotRequired then .okNone else .err .noResponse)
  | .responses [] => deliverAll st b (if cfg.acks = producerAckNotRequired then .okNone else .err .noResponse)
  | .responses rs => handleResults cfg st b rs []
  | .failed rs fs => handleResults cfg st b rs fs
  | .err k =>
    if k.isKafka then handleResults cfg st b [] (b.live.map (fun tp => ⟨tp, k, true⟩))
    else deliverAll st b (.err k)

/-- run a handler that may resolve the batch, then the completion hook -/
def finish (cfg : Cfg) (r : St × List Ob × Bool) : St × List Ob :=
  if r.2.2 then
    let (st', obs') := completeBatch cfg r.1
    (st', r.2.1 ++ obs')
  else (r.1, r.2.1)

/-- `_do_retry(payloads)` -/
def doRetry (st : St) (b : Batch) (tps : List TP) : St × List Ob :=
  ({ st with nextRid := st.nextRid + 1, attempts := st.attempts + 1,
             phase := .sending st.nextRid { b with current := tps } },
    [.produce st.nextRid (b.payloadsFor tps)])

/-! ## `_cancel_send_messages` -/

def msgBytes (msgs : List (Option Nat)) : Int :=
  (msgs.map (fun m => match m with | some n => (n : Int) | none => 0)).sum

def cancelSend (st : St) (sid : Sid) : St × List Ob :=
  if sid ∈ st.outstanding then
    if st.queue.any (·.sid = sid) then
      let gone := st.queue.filter (·.sid = sid)
      ({ st with queue := st.queue.filter (·.sid ≠ sid),
                 msgCount := st.msgCount - (gone.map (fun r => (r.msgs.length : Int))).sum,
                 byteCount := st.byteCount - (gone.map (fun r => msgBytes r.msgs)).sum,
                 outstanding := st.outstanding.erase sid },
        [.fire sid (.err (.acancelled (some false)))])
    else
      ({ st with outstanding := st.outstanding.erase sid },
        [.fire sid (.err (.acancelled (some (st.phase != .idle))))])
  else (st, [])

/-- `_cancel_outstanding`: `for d in list(self._outstanding): d.cancel()` -/
def cancelAll : St → List Sid → St × List Ob
  | st, [] => (st, [])
  | st, s :: rest =>
    let (st1, obs1) := cancelSend st s
    let (st2, obs2) := cancelAll st1 rest
    (st2, obs1 ++ obs2)

/-! ## `stop` -/

def assocMeta (mouts : List (Rid × MetaRes)) (rid : Rid) : Option MetaRes :=
  ((mouts.filter (·.1 = rid)).head?).map (·.2)

/-- `DeferredList.cancel`: cancel every look-up that is still waiting (we are stopping) -/
def cancelLookup (mouts : List (Rid × MetaRes)) (l : Lookup) : Lookup × List Tid × List Ob :=
  match l.pc with
  | .done _ => (l, [], [])
  | .waitBackoff tid => ({ l with pc := .done (.fail .tcancelled) }, [tid], [])
  | .waitMeta rid =>
    match assocMeta mouts rid with
    | none => (l, [], [.cancelReq rid])
    | some .ok => ({ l with pc := .done (.fail (.acancelled (some false))) }, [], [.cancelReq rid])
    | some (.err k) => ({ l with pc := .done (.fail k) }, [], [.cancelReq rid])

/-- cancel of `_batch_send_d` while the DeferredList is pending -/
def cancelLookups (cfg : Cfg) (st : St) (ls : List Lookup) (mouts : List (Rid × MetaRes)) : St × List Ob :=
  let rs := ls.map (cancelLookup mouts)
  afterLookups cfg { st with zombies := st.zombies ++ rs.flatMap (·.2.1) } (rs.map (·.1)) (rs.flatMap (·.2.2))

/-- … while the client's produce Deferred is pending -/
def cancelSending (cfg : Cfg) (st : St) (wipe : Bool) (rid : Rid) (b : Batch) : Option ProdRes → St × List Ob
  | none => (st, [.cancelReq rid])
  | some r =>
    let (st2, obs) := finish cfg (handleSendResponse cfg (if wipe then { st with tmeta := [] } else st) b r)
    (st2, .cancelReq rid :: obs)

/-- … while the retry Deferred is pending (`_cancel_retry`) -/
def cancelRetryWait (cfg : Cfg) (st : St) (tid : Tid) (b : Batch) : St × List Ob :=
  let (st1, obs) := finish cfg (deliverAll st b (.err .tcancelled))
  (st1, .cancelTimer tid :: obs)

def cancelBatch (cfg : Cfg) (st : St) (wipe : Bool) (pout : Option ProdRes)
    (mouts : List (Rid × MetaRes)) : St × List Ob :=
  match st.phase with
  | .idle => (st, [])
  | .lookups ls => cancelLookups cfg st ls mouts
  | .sending rid b => cancelSending cfg st wipe rid b pout
  | .retryWait tid b _ => cancelRetryWait cfg st tid b

def stopValid (st : St) (pout : Option ProdRes) : Bool :=
  match st.phase, pout with
  | .sending _ b, some r => validResult b r
  | _, _ => true

/-- the look-up waiting at `pc` (request and timer ids are fresh, so there is at most one) -/
def findPc (ls : List Lookup) (pc : LPc) : Option Lookup := (ls.filter (·.pc = pc)).head?

def setPc (ls : List Lookup) (old new : LPc) : List Lookup :=
  ls.map (fun l => if l.pc = old then { l with pc := new } else l)

/-- `_next_partition` resumed after `yield self.client.load_metadata_for_topics(topic)` -/
def metaContinue (cfg : Cfg) (st : St) (r : Req) : MetaRes → St × LPc × List Ob
  | .err k => (st, .done (.fail k), [])                 -- the failure is thrown into the generator
  | .ok =>
    if st.stopping then (st, .done (.fail (.acancelled (some false))), [])
    else if metaErr st r.topic = 0 then
      let (st', res) := pickPartition cfg st r.topic r.key
      (st', .done res, [])
    else
      ({ st with attempts := st.attempts + 1, nextTid := st.nextTid + 1,
                 interval := st.interval * producerRetryFactor },
        .waitBackoff st.nextTid, [.setTimer st.nextTid st.interval])

/-- a timer that is not the one the batch waits on: a cancelled back-off timer does nothing -/
def zombieTimer (st : St) (tid : Tid) : St × List Ob :=
  if tid ∈ st.zombies then ({ st with zombies := st.zombies.erase tid }, []) else (st, [.badOp])

/-- a timer fires while look-ups are pending: the back-off of one of them, or a zombie -/
def timerLookups (cfg : Cfg) (st : St) (ls : List Lookup) (tid : Tid) : St × List Ob :=
  match findPc ls (.waitBackoff tid) with
  | some l =>
    let (s, pc, obs) := lookupHead cfg st l.req
    afterLookups cfg s (setPc ls (.waitBackoff tid) pc) obs
  | none => zombieTimer st tid

/-- a metadata load completes while look-ups are pending -/
def metaDoneLookups (cfg : Cfg) (st : St) (ls : List Lookup) (rid : Rid) (res : MetaRes) : St × List Ob :=
  match findPc ls (.waitMeta rid) with
  | some l =>
    let (s, pc, obs) := metaContinue cfg st l.req res
    afterLookups cfg s (setPc ls (.waitMeta rid) pc) obs
  | none => (st, [.badOp])

/-- the stop event past its validity check -/
def doStop (cfg : Cfg) (st : St) (wipe : Bool) (pout : Option ProdRes) (mouts : List (Rid × MetaRes)) : St × List Ob :=
  let (st2, obs2) := cancelBatch cfg { st with stopping := true } wipe pout mouts
  let (st3, obs3) : St × List Ob :=
    if cfg.everyT.isSome && st2.looper then ({ st2 with looper := false }, [.stopLooper]) else (st2, [])
  let (st4, obs4) := cancelAll st3 st3.outstanding
  (st4, obs2 ++ obs3 ++ obs4)

/-- `send_messages`: queue the request, count it, remember its Deferred -/
def enqueue (st : St) (sid : Sid) (topic : Topic) (key : Option (List UInt8)) (msgs : List (Option Nat)) : St :=
  { st with nextSid := st.nextSid + 1,
            queue := st.queue ++ [{ sid, topic, key, msgs }],
            msgCount := st.msgCount + msgs.length,
            byteCount := st.byteCount + msgBytes msgs,
            outstanding := st.outstanding ++ [sid] }

/-- `send_messages` past its validation -/
def doSend (cfg : Cfg) (st : St) (sid : Sid) (topic : Topic) (key : Option (List UInt8)) (msgs : List (Option Nat)) : St × List Ob :=
  checkSendBatch cfg (enqueue st sid topic key msgs)

/-! ## the step function -/

def step (cfg : Cfg) (st : St) : Ev → St × List Ob
  | .send sid topic key msgs =>
    if sid ≠ st.nextSid then (st, [.badOp])
    else if msgs.isEmpty || st.stopping then
      -- refused: no messages (ValueError), or `stop()` has begun - nothing would ever fire the request (F29)
      ({ st with nextSid := st.nextSid + 1 },
        [.fire sid (.err (if msgs.isEmpty then .other 4 else .acancelled (some false)))])
    else doSend cfg st sid topic key msgs
  | .cancel sid =>
    if sid < st.nextSid then cancelSend st sid else (st, [.badOp])
  | .tick =>
    if st.looper then sendBatch cfg st else (st, [.badOp])
  | .timer tid =>
    match st.phase with
    | .lookups ls => timerLookups cfg st ls tid
    | .retryWait t b tps => if t = tid then doRetry st b tps else zombieTimer st tid
    | _ => zombieTimer st tid
  | .advance _ => (st, [])
  | .metaSet topic err parts =>
    ({ st with tmeta := st.tmeta.filter (·.topic ≠ topic) ++ [{ topic, err, parts }] }, [])
  | .metaReset topics => ({ st with tmeta := st.tmeta.filter (fun m => m.topic ∉ topics) }, [])
  | .metaWipe => ({ st with tmeta := [] }, [])
  | .metaDone rid res =>
    match st.phase with
    | .lookups ls => metaDoneLookups cfg st ls rid res
    | _ => (st, [.badOp])
  | .produceDone rid res =>
    match st.phase with
    | .sending r b =>
      if r = rid && validResult b res then finish cfg (handleSendResponse cfg st b res)
      else (st, [.badOp])
    | _ => (st, [.badOp])
  | .stop wipe pout mouts =>
    if !stopValid st pout then (st, [.badOp]) else doStop cfg st wipe pout mouts

def run (cfg : Cfg) : St → List Ev → St × List Ob
  | st, [] => (st, [])
  | st, e :: es =>
    let (st1, obs1) := step cfg st e
    let (st2, obs2) := run cfg st1 es
    (st2, obs1 ++ obs2)

end Afkak.Producer
