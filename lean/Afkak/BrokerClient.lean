import Afkak.Frame
/-!
# `_KafkaBrokerClient` (`afkak/brokerclient.py`) with its `KafkaProtocol` (`afkak/_protocol.py`)

An event/observation state machine, written after the code statement by statement.

* `reqs` is `self.requests` (an `OrderedDict`: insertion order, keyed by correlation id).
  Every accepted `makeRequest` gets the next `serial` (the harness numbers the Deferreds it gets
  back the same way), so "the request" in the theorems is an incarnation, not an id.
* `proto` is `self.proto` (the number of the connection it belongs to), `losing` is its transport's
  `disconnecting` flag (`loseConnection()` was called: a transport then stops reading and drops
  writes), `rbuf` is the protocol's `_unprocessed`.
* `connector` is `self.connector`: `None`, the Deferred of a pending `endpoint.connect`, the
  Deferred of a pending `deferLater` (back-off) or a Deferred that has fired (left behind by
  `close()`).
* `closed` is `self._dDown is not None`.
* The retry policy is a parameter (`Cfg.policy`); time is `Rat`; `wfail` is an environment switch:
  `transport.write` raises (the only way `_sendRequest`'s `except` branch is reachable).

Twisted folded in: `Deferred.cancel()` on an unfired request Deferred runs `_cancelRequest` and then
fires it with `CancelledError`; on a fired one it is a no-op.  `connector.cancel()` runs the
endpoint's / `deferLater`'s canceller, then the errback chain (`ebConnect` returns the failure since
`_dDown` is set, `connectingFailed` fires `_dDown`).  An exception escaping `dataReceived`
(`BufferUnderflowError` from a response shorter than the correlation id) makes the reactor drop the
connection (`connectionLost`) at once.
-/
namespace Afkak.BrokerClient
open Afkak.Frame Afkak.Consts

inductive ErrKind
  | cancelled     -- twisted.internet.defer.CancelledError
  | clientError   -- afkak.common.ClientError
  | writeError    -- whatever `sendString` raised
  deriving DecidableEq, Repr

/-- What a request Deferred fired with. -/
inductive Res
  | ok (b : Bytes)
  | none
  | err (k : ErrKind)
  deriving DecidableEq, Repr

/-- `_RequestState` -/
structure Req where
  serial : Nat
  id : Int
  expect : Bool
  sent : Bool
  cancelled : Bool
  deriving DecidableEq, Repr

inductive Connector
  | none
  | attempt
  | backoff (due : Rat)
  | stale
  deriving DecidableEq, Repr

structure Cfg where
  policy : Nat → Rat

structure St where
  host : Nat
  port : Nat
  reqs : List Req
  proto : Option Nat
  losing : Bool
  rbuf : Bytes
  connector : Connector
  closed : Bool
  failures : Nat
  now : Rat
  /-- connections established so far = number of the next one -/
  nconn : Nat
  /-- Deferreds handed out so far = serial of the next one -/
  nmake : Nat
  wfail : Bool
  deriving DecidableEq, Repr

def St.init (host port : Nat) : St :=
  { host, port, reqs := [], proto := none, losing := false, rbuf := [], connector := .none,
    closed := false, failures := 0, now := 0, nconn := 0, nmake := 0, wfail := false }

inductive Ev
  | make (id : Int) (expect : Bool)
  | cancel (id : Int)
  | connOk
  | connFail
  | advance (dt : Rat)
  | bytesIn (chunk : Bytes)
  | lost
  | close
  | disconnect
  | updateMetadata (host port : Nat)
  | writeFail (on : Bool)
  deriving DecidableEq, Repr

inductive Ob
  | connect (host port : Nat)
  | setTimer (delay : Rat)
  | cancelTimer
  | cancelConnect
  /-- request bytes handed to the transport of connection `conn` -/
  | write (conn serial : Nat) (id : Int)
  /-- the same, but `loseConnection()` has already been called on the transport.  Whether the bytes still
      reach the broker is outside the model: `iosim.FakeTransport` drops them, a real TCP transport buffers and
      flushes them before closing.  Counted as a write (`Monitor.C10.writes`). -/
  | writeLost (conn serial : Nat) (id : Int)
  | lose (conn : Nat)
  | fire (serial : Nat) (id : Int) (r : Res)
  /-- the Deferred returned by `close()` fired -/
  | down
  | raiseDup (id : Int)
  | raiseAssert
  | raiseUnderflow
  /-- `log.error("Unexpected response …")` -/
  | unexpected (id : Int)
  | badOp
  deriving DecidableEq, Repr

/-! ## `_sendRequest` -/

/-- What `_sendRequest(tReq)` does to the outside on connection `c`. -/
def sendObs (s : St) (c : Nat) (r : Req) : List Ob :=
  if s.wfail then [.fire r.serial r.id (.err .writeError)]
  else (if s.losing then [.writeLost c r.serial r.id] else [.write c r.serial r.id])
        ++ (if r.expect then [] else [.fire r.serial r.id .none])

/-- Does the entry stay in `self.requests` after `_sendRequest`? -/
def keepAfterSend (s : St) (r : Req) : Bool := r.expect && !s.wfail

/-- `_sendQueued` on connection `c`. -/
def sendQueued (s : St) (c : Nat) : St × List Ob :=
  ({ s with reqs := (s.reqs.filter (fun r => r.sent || keepAfterSend s r)).map (fun r => { r with sent := true }) },
   s.reqs.flatMap (fun r => if r.sent then [] else sendObs s c r))

/-! ## `_connect` -/

/-- `tryConnect()` -/
def tryConnect (s : St) : St × List Ob :=
  ({ s with connector := .attempt }, [.connect s.host s.port])

/-- `_connect()` -/
def connect_ (s : St) : St × List Ob := tryConnect { s with failures := 0 }

/-! ## `_connectionLost` -/

def lostStep (s : St) : St × List Ob :=
  let reqs' := (s.reqs.filter (fun r => !r.cancelled)).map (fun r => { r with sent := false })
  let s1 := { s with proto := none, losing := false, rbuf := [], reqs := reqs' }
  if s.closed then (s1, [.down])
  else if reqs'.isEmpty then (s1, [])
  else connect_ s1

/-! ## `handleResponse` -/

def handleResponse (s : St) (id : Int) (frame : Bytes) : St × List Ob :=
  ({ s with reqs := s.reqs.filter (fun r => r.id != id) },
   if s.reqs.any (fun r => r.id == id) then
     (s.reqs.filter (fun r => r.id == id && !r.cancelled)).map (fun r => .fire r.serial r.id (.ok frame))
   else [.unexpected id])

/-- The `stringReceived` calls of one `dataReceived`; `true` = an exception escaped. -/
def handleFrames (s : St) : List Bytes → St × List Ob × Bool
  | [] => (s, [], false)
  | f :: fs =>
    match corrId f with
    | none => (s, [.raiseUnderflow], true)
    | some id =>
      let r1 := handleResponse s id f
      let r2 := handleFrames r1.1 fs
      (r2.1, r1.2 ++ r2.2.1, r2.2.2)

/-! ## The step function -/

def step (cfg : Cfg) (s : St) : Ev → St × List Ob
  | .make id expect =>
    if s.reqs.any (fun r => r.id == id) then (s, [.raiseDup id])
    else if s.closed then ({ s with nmake := s.nmake + 1 }, [.fire s.nmake id (.err .clientError)])
    else
      let r : Req := { serial := s.nmake, id, expect, sent := false, cancelled := false }
      match s.proto with
      | some c =>
        ({ s with nmake := s.nmake + 1,
                  reqs := s.reqs ++ (if keepAfterSend s r then [{ r with sent := true }] else []) },
         sendObs s c r)
      | none =>
        let s1 := { s with nmake := s.nmake + 1, reqs := s.reqs ++ [r] }
        if s.connector = .none then connect_ s1 else (s1, [])
  | .cancel id =>
    if s.reqs.any (fun r => r.id == id && !r.cancelled) then
      ({ s with reqs := (s.reqs.filter (fun r => r.id != id || r.sent)).map
                          (fun r => if r.id == id then { r with cancelled := true } else r) },
       (s.reqs.filter (fun r => r.id == id && !r.cancelled)).map (fun r => .fire r.serial r.id (.err .cancelled)))
    else (s, [.badOp])
  | .connOk =>
    if s.connector = .attempt then
      let c := s.nconn
      let s1 := { s with failures := 0, connector := .none, proto := some c, nconn := s.nconn + 1,
                         losing := false, rbuf := [] }
      if s.closed then ({ s1 with losing := true }, [.lose c]) else sendQueued s1 c
    else (s, [.badOp])
  | .connFail =>
    if s.connector = .attempt then
      if s.closed then (s, [])
      else
        let n := s.failures + 1
        ({ s with failures := n, connector := .backoff (s.now + cfg.policy n) }, [.setTimer (cfg.policy n)])
    else (s, [.badOp])
  | .advance dt =>
    if dt < 0 then (s, [.badOp])
    else
      let s1 := { s with now := s.now + dt }
      match s.connector with
      | .backoff due => if due ≤ s1.now then tryConnect s1 else (s1, [])
      | _ => (s1, [])
  | .bytesIn chunk =>
    match s.proto with
    | none => (s, [.badOp])
    | some c =>
      if s.losing then (s, [.badOp])
      else
        let f := feed s.rbuf chunk
        let r := handleFrames s f.frames
        if r.2.2 then
          let l := lostStep r.1
          (l.1, r.2.1 ++ l.2)
        else if f.exceeded then ({ r.1 with rbuf := f.buf, losing := true }, r.2.1 ++ [.lose c])
        else ({ r.1 with rbuf := f.buf }, r.2.1)
  | .lost =>
    match s.proto with
    | none => (s, [.badOp])
    | some _ => lostStep s
  | .close =>
    if s.closed then (s, [.raiseAssert])
    else
      let fires := ((if closePopLast then s.reqs.reverse else s.reqs).filter (fun r => !r.cancelled)).map
                     (fun r => Ob.fire r.serial r.id (.err .clientError))
      -- `down` (the Deferred `close()` returns has fired) is listed last: the caller can only look
      -- at that Deferred once `close()` has returned, i.e. after the request Deferreds have fired.
      match s.proto with
      | some c => ({ s with closed := true, reqs := [], losing := true }, .lose c :: fires)
      | none =>
        match s.connector with
        | .attempt => ({ s with closed := true, reqs := [], connector := .stale }, .cancelConnect :: fires ++ [.down])
        | .backoff _ => ({ s with closed := true, reqs := [], connector := .stale }, .cancelTimer :: fires ++ [.down])
        | .none => ({ s with closed := true, reqs := [] }, fires ++ [.down])
        -- unreachable (`stale` only after `close()`): `cancel()` of a fired Deferred is a no-op and
        -- the errback just added runs at once
        | .stale => ({ s with closed := true, reqs := [] }, fires ++ [.down])
  | .disconnect =>
    match s.proto with
    | some c => ({ s with losing := true }, [.lose c])
    | none => (s, [])
  | .updateMetadata host port => ({ s with host, port }, [])
  | .writeFail on => ({ s with wfail := on }, [])

/-- All observations of a run, one list per event. -/
def trace (cfg : Cfg) (s : St) : List Ev → List (Ev × List Ob)
  | [] => []
  | e :: es => (e, (step cfg s e).2) :: trace cfg (step cfg s e).1 es

def run (cfg : Cfg) (s : St) : List Ev → St
  | [] => s
  | e :: es => run cfg (step cfg s e).1 es

/-- Observations of a run, flattened. -/
def obs (cfg : Cfg) (s : St) (es : List Ev) : List Ob := (trace cfg s es).flatMap (·.2)

end Afkak.BrokerClient
