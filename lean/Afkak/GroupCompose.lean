import Afkak.Group
/-!
# The group member together with its partition consumers' requests (C16, composition)

The group model (`Afkak.Group`) treats a partition consumer as a record (`Con`: started with topic,
partition, generation and member id; running / draining / stopped).  This file puts the consumers'
REQUESTS on the wire into the same trace: the product of the group model with the part of the
`Consumer` interface that fencing is about.

Interface of a partition consumer (`afkak/consumer.py`, model `Afkak/Consumer.lean`) used here:

* `Consumer(commit_consumer_id=…, commit_generation_id=…)`: the two attributes are assigned in
  `__init__` only and `_send_commit_request` passes them to `send_offset_commit_request` (checked on
  the source by `harness/consts/group.py`, constant `groupCommitIdentityFixed`).  So a commit request
  of consumer `cid` carries the `gen` / `member` of its record.
* life cycle start → (shutdown → commit →) stop; a `Consumer` whose `stop()` has run — called by the
  group (`consumerStop`), or by itself when its shutdown completed (`consumerDown`) — has no request
  outstanding and no timer pending (`C13_stop_leaves_nothing_fetching`, `C13_stop_leaves_no_timer`),
  and the group never starts a `Consumer` object again: a stopped consumer issues nothing.  This is
  the enabling condition of the two consumer events below (an event of a stopped or unknown
  consumer is answered `refused`, the analogue of `badOp`).  The full-stack stage checks exactly
  this on the real `Consumer` objects (every fetch / commit call of every partition consumer is
  recorded and the composed monitor runs on that trace).

Product step: a group event is the group model's step; `conFetch cid` / `conCommit cid` are the
consumer `cid` sending a fetch / an offset commit.
-/
namespace Afkak.GroupCompose
open Afkak.Group Afkak.Consts

/-- a request a partition consumer puts on the wire -/
inductive CReq where
  | fetch (cid : Nat)
  | commit (cid : Nat) (gen : Option Int) (member : Nat)
  | refused
  deriving DecidableEq, Repr

inductive PEv where
  | grp (e : Ev)
  | conFetch (cid : Nat)
  | conCommit (cid : Nat)
  deriving DecidableEq, Repr

/-- the records of consumer `cid` that are running or draining -/
def liveCons (s : St) (cid : Nat) : List Con := s.cons.filter fun c => c.cid == cid && c.phase != .stopped

def pstep (cfg : Cfg) (s : St) : PEv → St × List Ob × List CReq
  | .grp e => ((step cfg s e).1, (step cfg s e).2, [])
  | .conFetch cid =>
    (s, [], match liveCons s cid with | _ :: _ => [.fetch cid] | [] => [.refused])
  | .conCommit cid =>
    (s, [], match liveCons s cid with | c :: _ => [.commit cid c.gen c.member] | [] => [.refused])

/-- One step of a composed trace as the monitor sees it. -/
structure PStep where
  ev : PEv
  obs : List Ob
  reqs : List CReq
  snap : Snap
  deriving DecidableEq, Repr

def prunFrom (cfg : Cfg) (s : St) : List PEv → List PStep
  | [] => []
  | e :: es => let r := pstep cfg s e; ⟨e, r.2.1, r.2.2, snap r.1⟩ :: prunFrom cfg r.1 es

def pfinalFrom (cfg : Cfg) (s : St) : List PEv → St
  | [] => s
  | e :: es => pfinalFrom cfg (pstep cfg s e).1 es

def prun (cfg : Cfg) (evs : List PEv) : List PStep := prunFrom cfg init evs

/-! ## The composed monitor -/

def isJoinOb : Ob → Bool | .join _ => true | _ => false

/-- (cid, generation, member) of the `consumerStart` observations -/
def startsOf (obs : List Ob) : List (Nat × Option Int × Nat) :=
  obs.filterMap fun | .consumerStart cid _ _ g m _ => some (cid, g, m) | _ => none

/-- what the monitor remembers: `known` = the consumers started so far with the ids they were
    started with; `fenced` = the consumers that had been started when the member last sent a
    JoinGroup request (they belong to an earlier generation than the one that join asks for) -/
structure MSt where
  known : List (Nat × Option Int × Nat) := []
  fenced : List Nat := []
  deriving DecidableEq, Repr

def liveIn (pre : Snap) (cid : Nat) : Bool := pre.cons.any fun c => c.cid == cid && c.phase != .stopped

/-- every commit request carries the generation and member id its consumer was STARTED with -/
def commitIdsOk (st : MSt) : CReq → Bool
  | .commit cid g m => st.known.contains (cid, g, m)
  | _ => true

/-- a fetch / commit comes from a consumer that is running or draining (not from one the group has
    stopped or whose shutdown has completed); `pre` = snapshot before the step -/
def liveOk (pre : Snap) : CReq → Bool
  | .fetch cid | .commit cid _ _ => liveIn pre cid
  | .refused => true

/-- generation fencing end to end: no fetch / commit from a consumer that was started before the
    member's latest JoinGroup request (i.e. in an earlier generation than the one being joined) -/
def fencedOk (st : MSt) : CReq → Bool
  | .fetch cid | .commit cid _ _ => !st.fenced.contains cid
  | .refused => true

def next (st : MSt) (p : PStep) : MSt :=
  let known' := st.known ++ startsOf p.obs
  { known := known', fenced := if p.obs.any isJoinOb then known'.map (·.1) else st.fenced }

def checkFrom (ok : Snap → MSt → CReq → Bool) (pre : Snap) (st : MSt) : List PStep → Bool
  | [] => true
  | p :: ps => p.reqs.all (ok pre st) && checkFrom ok p.snap (next st p) ps

def composedCommitIds (tr : List PStep) : Bool := checkFrom (fun _ st => commitIdsOk st) (snap init) {} tr
def composedLive (tr : List PStep) : Bool := checkFrom (fun pre _ => liveOk pre) (snap init) {} tr
def composedFenced (tr : List PStep) : Bool := checkFrom (fun _ st => fencedOk st) (snap init) {} tr

def checks : List (String × (List PStep → Bool)) :=
  [("composedCommitIds", composedCommitIds), ("composedLive", composedLive), ("composedFenced", composedFenced)]

def failing (tr : List PStep) : List String := (checks.filter fun c => !c.2 tr).map (·.1)

end Afkak.GroupCompose
