import Afkak.Assign
import Afkak.Monitor.C15
import Afkak.Monitor.C04
import Afkak.Wire.Requests
import Afkak.Wire.Responses
import Afkak.Wire.Spec
/-!
# The leader's assignments across the SyncGroup wire path (glue between the assign and wire models)

`generate_assignments` (model `Afkak.Assign.generateAssignments`) hands the coordinator a list of
`_SyncGroupRequestMember(member_id, assignment_bytes)`.  The leader puts it into
`_SyncGroupRequest.group_assignment`, `KafkaCodec.encode_sync_group_request` (model
`Afkak.Wire.encodeSyncGroupRequest`) frames it, a broker answers every member's SyncGroup request
with that member's entry, `KafkaCodec.decode_sync_group_response` (model
`Afkak.Wire.decodeSyncGroupResponse`) unframes it and `_ConsumerProtocol.decode_assignment`
(`Afkak.Assign.decodeAssignment`) decodes the bytes.

The two models meet in `syncEntries`: the wire model represents a Python `str` by its UTF-8 bytes, the
assignor model by its code points, and `write_short_text(member_id)` is `member_id.encode("utf-8")`.

The broker (`brokerSyncEcho`) is NOT modelled on afkak: it parses the request frame with the protocol
grammar's request decoder (`Afkak.Wire.Spec`, written from the Kafka protocol guide) and writes the
response with the grammar's response encoder.  Core Lean only (the driver runs these definitions).
-/
namespace Afkak.Assign
open Afkak.Codec Afkak.Monitor.C15

/-- `group_assignment` as `encode_sync_group_request` sees it: per listed member
    `(write_short_text(member_id) argument, write_int_string argument)`; `member_id.encode("utf-8")`
    raises `UnicodeEncodeError` on a lone surrogate. -/
def syncEntries : List (Str × Bytes) → Except Err (List (Option Bytes × Option Bytes))
  | [] => .ok []
  | e :: es =>
    match utf8Encode e.1 with
    | .error err => .error err
    | .ok idb =>
      match syncEntries es with
      | .error err => .error err
      | .ok r => .ok ((some idb, some e.2) :: r)

/-- A broker's side of SyncGroup v0, by the protocol grammar alone: parse the leader's request frame
    (header, group, generation, member id, `[member_id member_assignment]`, nothing left over), take
    the FIRST entry of the array whose member id is `memberId` and answer
    `correlation_id error_code=0 member_assignment` with the correlation id `corr'` of that member's
    own request.  `none`: the frame is not a SyncGroup request of the grammar, or it has no entry for
    this member.  (Entries that repeat a member id carry identical bytes —
    `AfkakProofs/Assign/SyncWire.lean: syncEntries_same_id` — so a broker keeping the last one answers the same.) -/
def brokerSyncEcho (frame : Bytes) (memberId : Bytes) (corr' : Int) : Option Bytes :=
  match (Afkak.Wire.Spec.request Afkak.Wire.Spec.syncGroupRequest).dec frame with
  | none => none
  | some (_, _, _, _, entries) =>
    match entries.find? (fun e => e.1 == memberId) with
    | none => none
    | some e => some (Afkak.Wire.Spec.syncGroupResponse.enc (corr', 0, e.2))

/-- What `_join_and_sync` does with the decoded `_SyncGroupResponse(error, member_assignment)` (or the
    exception `decode_sync_group_response` raised): with error code 0,
    `decode_assignment(sync_response.member_assignment)`.  `none`: a decoder raised, the assignment is
    `None`, or the error code is not 0. -/
def syncAssignmentOf : Afkak.Wire.R (Int × Option Bytes) → Option (Dict Str (List Int))
  | .ok (err, some b) =>
    if err = 0 then
      match decodeAssignment b with
      | .ok a => some a
      | .error _ => none
    else none
  | _ => none

/-- What the member `id` ends up with: the response the broker that received the leader's `frame`
    sends to it (`member_id.encode("utf-8")` names it on the wire), through
    `decode_sync_group_response`, then `decode_assignment`.  `none`: no response, or as above. -/
def memberViaSync (frame : Bytes) (corr' : Int) (id : Str) : Option (Dict Str (List Int)) :=
  match utf8Encode id with
  | .error _ => none
  | .ok idb =>
    match brokerSyncEcho frame idb corr' with
    | none => none
    | some resp => syncAssignmentOf (Afkak.Wire.decodeSyncGroupResponse resp)

/-- What all listed members observe over the wire (`corrOf id`: the correlation id of member `id`'s
    own SyncGroup request). -/
def observeViaSync (frame : Bytes) (corrOf : Str → Int) : List Str → Option Obs
  | [] => some []
  | id :: ids =>
    match memberViaSync frame (corrOf id) id, observeViaSync frame corrOf ids with
    | some a, some r => some ((id, a) :: r)
    | _, _ => none

/-! ## hypotheses of the theorems, as decidable predicates -/

/-- every listed member's own SyncGroup request carries an int32 correlation id (a response cannot
    echo anything else) -/
def corrsInRange (corrOf : Str → Int) (members : List Member) : Bool :=
  members.all (fun m => Afkak.Codec.int32.valid (corrOf m.1))

/-- the leader's SyncGroup request is one the protocol grammar can carry: client id, group, leader id
    and every member id at most 32767 bytes; correlation id and generation int32; fewer than 2^31
    entries, each assignment shorter than 2^31 bytes -/
def syncRequestInRange (cid : Bytes) (corr : Int) (g : Bytes) (gen : Int) (leader : Bytes)
    (ga : List (Option Bytes × Option Bytes)) : Bool :=
  match Afkak.Monitor.C04.pairs ga with
  | some ps => (Afkak.Wire.Spec.request Afkak.Wire.Spec.syncGroupRequest).valid
      (Afkak.Monitor.C04.hdr 14 0 corr cid, g, gen, leader, ps)
  | none => false

end Afkak.Assign
