import Afkak.Bytes
/-!
# A generic value tree for the wire driver's line protocol

`V` is what crosses the pipe between the harness and `model_wire`: ints, optional byte strings and
lists.  Token syntax (space separated): `i<int>`, `b<hex>` (`b` alone is the empty byte string),
`n` (Python `None`), `[` … `]`.
-/
namespace Afkak.Codec
open Afkak

inductive V
  | int (i : Int)
  | bytes (b : Bytes)
  | null
  | list (l : List V)
  deriving Repr, Inhabited

namespace V

def hexVal (c : Char) : Option Nat :=
  if '0' ≤ c ∧ c ≤ '9' then some (c.toNat - '0'.toNat)
  else if 'a' ≤ c ∧ c ≤ 'f' then some (c.toNat - 'a'.toNat + 10)
  else Option.none

def parseHexChars : List Char → Bytes → Option Bytes
  | [], acc => some acc.reverse
  | a :: b :: rest, acc => match hexVal a, hexVal b with
    | some x, some y => parseHexChars rest (UInt8.ofNat (x * 16 + y) :: acc)
    | _, _ => Option.none
  | _, _ => Option.none

def hexDigit (n : Nat) : Char := if n < 10 then Char.ofNat (48 + n) else Char.ofNat (87 + n)

def hexOf (bs : Bytes) : String :=
  String.ofList (bs.foldr (fun b acc => hexDigit (b.toNat / 16) :: hexDigit (b.toNat % 16) :: acc) [])

mutual
  /-- parse one value from the token list; `fuel` bounds the work (tokens are consumed) -/
  def parse : Nat → List String → Option (V × List String)
    | 0, _ => Option.none
    | _, [] => Option.none
    | fuel+1, t :: ts =>
      if t == "n" then some (.null, ts)
      else if t == "[" then parseList fuel ts []
      else match t.toList with
        | 'i' :: cs => (String.ofList cs).toInt?.map (fun i => (.int i, ts))
        | 'b' :: cs => (parseHexChars cs []).map (fun b => (.bytes b, ts))
        | _ => Option.none
  def parseList : Nat → List String → List V → Option (V × List String)
    | 0, _, _ => Option.none
    | _, [], _ => Option.none
    | fuel+1, t :: ts, acc =>
      if t == "]" then some (.list acc.reverse, ts)
      else match parse fuel (t :: ts) with
        | Option.none => Option.none
        | some (v, rest) => parseList fuel rest (v :: acc)
end

/-- parse exactly one value from all the tokens -/
def parseAll (ts : List String) : Option V :=
  match parse (2 * ts.length + 2) ts with
  | some (v, []) => some v
  | _ => Option.none

/-- parse a sequence of values from the tokens -/
def parseMany : Nat → List String → Option (List V)
  | _, [] => some []
  | 0, _ => Option.none
  | fuel+1, ts => match parse (2 * ts.length + 2) ts with
    | Option.none => Option.none
    | some (v, rest) => (parseMany fuel rest).map (v :: ·)

partial def render : V → String
  | .int i => s!"i{i}"
  | .bytes b => "b" ++ hexOf b
  | .null => "n"
  | .list l => "[ " ++ String.join (l.map (fun v => render v ++ " ")) ++ "]"

def optBytes : Option Bytes → V
  | Option.none => .null
  | some b => .bytes b

def optInt : Option Int → V
  | Option.none => .null
  | some i => .int i

def toInt? : V → Option Int
  | .int i => some i
  | _ => Option.none

def toBytes? : V → Option Bytes
  | .bytes b => some b
  | _ => Option.none

/-- `None` or bytes -/
def toOptBytes? : V → Option (Option Bytes)
  | .bytes b => some (some b)
  | .null => some Option.none
  | _ => Option.none

def toOptInt? : V → Option (Option Int)
  | .int i => some (some i)
  | .null => some Option.none
  | _ => Option.none

def toList? : V → Option (List V)
  | .list l => some l
  | _ => Option.none

end V
end Afkak.Codec
