import Afkak.Bytes
/-!
# Codec combinators with their round-trip law

A `Codec α` is an encoder, a decoder that returns the unread rest, the set of values it is meant for
(`valid`) and the PROOF that decoding what was encoded gives the value back and leaves the rest
untouched.  An `Exact α` is the same for a region whose end is known from outside (a size-prefixed
region, a whole frame): it consumes all of its input.

Every combinator below is used by the independent protocol grammar `Afkak/Wire/Spec.lean`; nothing
here mentions afkak.  Core Lean only.
-/
namespace Afkak.Codec
open Afkak Afkak.Bytes

/-! ## big-endian lemmas -/

theorem ofNatBE_length (w n : Nat) : (ofNatBE w n).length = w := by
  induction w with
  | zero => rfl
  | succ w ih => simp [ofNatBE, ih]

theorem toNatBE_ofNatBE (w n : Nat) : toNatBE (ofNatBE w n) = n % 256 ^ w := by
  induction w with
  | zero => simp [ofNatBE, toNatBE, Nat.mod_one]
  | succ w ih =>
    have h : (n / 256 ^ w % 256) % 2 ^ 8 = n / 256 ^ w % 256 := Nat.mod_eq_of_lt (Nat.mod_lt _ (by decide))
    simp only [ofNatBE, toNatBE, ofNatBE_length, ih, UInt8.toNat_ofNat', h]
    rw [Nat.mod_pow_succ, Nat.mul_comm, Nat.add_comm]

theorem toNatBE_lt (bs : Bytes) : toNatBE bs < 256 ^ bs.length := by
  induction bs with
  | nil => simp [toNatBE]
  | cons b bs ih =>
    simp only [toNatBE, List.length_cons, Nat.pow_succ]
    have hb : b.toNat < 256 := b.toNat_lt
    have : b.toNat * 256 ^ bs.length + toNatBE bs < 256 ^ bs.length * 256 := by
      calc b.toNat * 256 ^ bs.length + toNatBE bs
          < b.toNat * 256 ^ bs.length + 256 ^ bs.length := by omega
        _ = (b.toNat + 1) * 256 ^ bs.length := by rw [Nat.add_mul, Nat.one_mul]
        _ ≤ 256 * 256 ^ bs.length := Nat.mul_le_mul_right _ (by omega)
        _ = 256 ^ bs.length * 256 := Nat.mul_comm _ _
    exact this

theorem ofIntBE_length (w : Nat) (i : Int) : (ofIntBE w i).length = w := by
  simp [ofIntBE, ofNatBE_length]

/-- the signed range of `w` bytes -/
def IntFits (w : Nat) (i : Int) : Prop := -(256 ^ w : Nat) ≤ 2 * i ∧ 2 * i < (256 ^ w : Nat)

instance (w : Nat) (i : Int) : Decidable (IntFits w i) := by unfold IntFits; infer_instance

/-- `IntFits` as a Boolean, by cases on the sign with `Nat.blt` / `Nat.ble`: reducing it on a symbolic
    value gets stuck at once (the `Decidable` instance above would unfold a `256^w`-deep numeral). -/
def intFitsB (w : Nat) (i : Int) : Bool :=
  match i with
  | .ofNat n => Nat.blt (2 * n) (256 ^ w)
  | .negSucc n => Nat.ble (2 * (n + 1)) (256 ^ w)

theorem intFitsB_iff (w : Nat) (i : Int) : intFitsB w i = true ↔ IntFits w i := by
  unfold intFitsB IntFits
  cases i with
  | ofNat n => simp only [Nat.blt_eq, Int.ofNat_eq_natCast]; constructor <;> intro h <;> omega
  | negSucc n => simp only [Nat.ble_eq, Int.negSucc_eq]; constructor <;> intro h <;> omega

theorem toIntBE_ofIntBE (w : Nat) (i : Int) (h : IntFits w i) : toIntBE (ofIntBE w i) = i := by
  unfold IntFits at h
  have hpos : (0 : Int) < (256 ^ w : Nat) := by
    have : 0 < 256 ^ w := Nat.pow_pos (by decide)
    omega
  simp only [toIntBE, ofIntBE, toNatBE_ofNatBE, ofNatBE_length]
  have hm : ((i % ((256 ^ w : Nat) : Int)).toNat % 256 ^ w : Nat) = (i % ((256 ^ w : Nat) : Int)).toNat := by
    apply Nat.mod_eq_of_lt
    have := Int.emod_lt_of_pos i hpos
    have := Int.emod_nonneg i (Int.ne_of_gt hpos)
    omega
  rw [hm]
  have hnn := Int.emod_nonneg i (Int.ne_of_gt hpos)
  have hlt := Int.emod_lt_of_pos i hpos
  have hcast : (((i % ((256 ^ w : Nat) : Int)).toNat : Nat) : Int) = i % ((256 ^ w : Nat) : Int) :=
    Int.toNat_of_nonneg hnn
  by_cases hi : 0 ≤ i
  · have he : i % ((256 ^ w : Nat) : Int) = i := Int.emod_eq_of_lt hi (by omega)
    have h2 : 2 * (i % ((256 ^ w : Nat) : Int)).toNat < 256 ^ w := by omega
    rw [if_pos h2, hcast, he]
  · have he : i % ((256 ^ w : Nat) : Int) = i + ((256 ^ w : Nat) : Int) := by
      have : (i + ((256 ^ w : Nat) : Int)) % ((256 ^ w : Nat) : Int) = i + ((256 ^ w : Nat) : Int) :=
        Int.emod_eq_of_lt (by omega) (by omega)
      rw [← this, Int.add_emod_right]
    have h2 : ¬ 2 * (i % ((256 ^ w : Nat) : Int)).toNat < 256 ^ w := by omega
    rw [if_neg h2, hcast, he]
    omega

/-! ## the structures -/

/-- A prefix codec: `dec` reads a value from the front and returns the unread rest. -/
structure Codec (α : Type) where
  enc : α → Bytes
  dec : Bytes → Option (α × Bytes)
  valid : α → Bool
  law : ∀ a rest, valid a = true → dec (enc a ++ rest) = some (a, rest)

/-- A whole-region codec: `dec` must consume its input completely. -/
structure Exact (α : Type) where
  enc : α → Bytes
  dec : Bytes → Option α
  valid : α → Bool
  law : ∀ a, valid a = true → dec (enc a) = some a

/-! ## integers -/

/-- unsigned big-endian integer of `w` bytes -/
def uintN (w : Nat) : Codec Nat where
  enc n := ofNatBE w n
  dec bs := if bs.length < w then none else some (toNatBE (bs.take w), bs.drop w)
  valid n := decide (n < 256 ^ w)
  law := by
    intro n rest h
    have h : n < 256 ^ w := of_decide_eq_true h
    have hl : (ofNatBE w n).length = w := ofNatBE_length w n
    have : ¬ (ofNatBE w n ++ rest).length < w := by simp [hl]
    simp only [this, if_false, List.take_left' hl, List.drop_left' hl, toNatBE_ofNatBE, Nat.mod_eq_of_lt h]

/-- two's-complement big-endian integer of `w` bytes -/
def intN (w : Nat) : Codec Int where
  enc i := ofIntBE w i
  dec bs := if bs.length < w then none else some (toIntBE (bs.take w), bs.drop w)
  valid i := intFitsB w i
  law := by
    intro i rest h
    have h : IntFits w i := (intFitsB_iff w i).mp h
    have hl : (ofIntBE w i).length = w := ofIntBE_length w i
    have : ¬ (ofIntBE w i ++ rest).length < w := by simp [hl]
    simp only [this, if_false, List.take_left' hl, List.drop_left' hl, toIntBE_ofIntBE w i h]

theorem intN_law' (w : Nat) (i : Int) (rest : Bytes) (h : IntFits w i) :
    (if (ofIntBE w i ++ rest).length < w then none
     else some (toIntBE ((ofIntBE w i ++ rest).take w), (ofIntBE w i ++ rest).drop w)) = some (i, rest) :=
  (intN w).law i rest ((intFitsB_iff w i).mpr h)

def uint8 : Codec Nat := uintN 1
def uint32 : Codec Nat := uintN 4
def int8 : Codec Int := intN 1
def int16 : Codec Int := intN 2
def int32 : Codec Int := intN 4
def int64 : Codec Int := intN 8

/-! ## sequencing, mapping -/

/-- `a` then `b` -/
def seq {α β : Type} (a : Codec α) (b : Codec β) : Codec (α × β) where
  enc p := a.enc p.1 ++ b.enc p.2
  dec bs := match a.dec bs with
    | none => none
    | some (x, r) => match b.dec r with
      | none => none
      | some (y, r') => some ((x, y), r')
  valid p := a.valid p.1 && b.valid p.2
  law := by
    intro p rest h
    have h := Bool.and_eq_true_iff.mp h
    simp only [List.append_assoc, a.law p.1 _ h.1, b.law p.2 _ h.2]

infixr:35 " ⊗ " => seq

/-- a tag, then a body whose layout depends on the tag -/
def dep {τ β : Type} (tag : Codec τ) (body : τ → Codec β) : Codec (τ × β) where
  enc p := tag.enc p.1 ++ (body p.1).enc p.2
  dec bs := match tag.dec bs with
    | none => none
    | some (t, r) => match (body t).dec r with
      | none => none
      | some (y, r') => some ((t, y), r')
  valid p := tag.valid p.1 && (body p.1).valid p.2
  law := by
    intro p rest h
    have h := Bool.and_eq_true_iff.mp h
    simp only [List.append_assoc, tag.law p.1 _ h.1, (body p.1).law p.2 _ h.2]

/-- transport a codec along `f` with right inverse `g` on the values satisfying `p` -/
def iso {α β : Type} (c : Codec α) (f : α → β) (g : β → α) (p : β → Bool)
    (h : ∀ b, p b = true → f (g b) = b) : Codec β where
  enc b := c.enc (g b)
  dec bs := match c.dec bs with
    | none => none
    | some (a, r) => some (f a, r)
  valid b := p b && c.valid (g b)
  law := by
    intro b rest hv
    have hv := Bool.and_eq_true_iff.mp hv
    simp only [c.law (g b) rest hv.2, h b hv.1]

/-- a codec for the unit: nothing on the wire -/
def unit : Codec Unit where
  enc _ := []
  dec bs := some ((), bs)
  valid _ := true
  law := by intro a rest _; rfl

/-- the codec that accepts nothing -/
def fail {α : Type} : Codec α where
  enc _ := []
  dec _ := none
  valid _ := false
  law := by intro a rest h; cases h

/-- restrict the accepted values (`dec` rejects anything outside `p`) -/
def guard {α : Type} (c : Codec α) (p : α → Bool) : Codec α where
  enc := c.enc
  dec bs := match c.dec bs with
    | none => none
    | some (a, r) => if p a then some (a, r) else none
  valid a := c.valid a && p a
  law := by
    intro a rest h
    have h := Bool.and_eq_true_iff.mp h
    simp only [c.law a rest h.1, h.2, if_true]

/-! ## repetition -/

def encAll {α : Type} (c : Codec α) : List α → Bytes
  | [] => []
  | a :: as => c.enc a ++ encAll c as

def decN {α : Type} (c : Codec α) : Nat → Bytes → Option (List α × Bytes)
  | 0, bs => some ([], bs)
  | n+1, bs => match c.dec bs with
    | none => none
    | some (a, r) => match decN c n r with
      | none => none
      | some (as, r') => some (a :: as, r')

theorem decN_encAll {α : Type} (c : Codec α) (l : List α) (rest : Bytes) (h : ∀ a ∈ l, c.valid a = true) :
    decN c l.length (encAll c l ++ rest) = some (l, rest) := by
  induction l with
  | nil => rfl
  | cons a as ih =>
    have ha : c.valid a = true := h a (List.mem_cons_self)
    have has : ∀ x ∈ as, c.valid x = true := fun x hx => h x (List.mem_cons_of_mem _ hx)
    simp only [encAll, List.length_cons, decN, List.append_assoc, c.law a _ ha, ih has]

/-- exactly `n` repetitions -/
def counted {α : Type} (c : Codec α) (n : Nat) : Codec (List α) where
  enc l := encAll c l
  dec bs := decN c n bs
  valid l := decide (l.length = n) && l.all c.valid
  law := by
    intro l rest h
    have h := Bool.and_eq_true_iff.mp h
    have := decN_encAll c l rest (List.all_eq_true.mp h.2)
    rw [of_decide_eq_true h.1] at this
    exact this

/-- Kafka `ARRAY`: int32 count (non-negative; the null array is not used by these APIs) then the items -/
def array {α : Type} (c : Codec α) : Codec (List α) where
  enc l := ofIntBE 4 l.length ++ encAll c l
  dec bs := match int32.dec bs with
    | none => none
    | some (n, r) => if n < 0 then none else decN c n.toNat r
  valid l := intFitsB 4 l.length && l.all c.valid
  law := by
    intro l rest h
    have h := Bool.and_eq_true_iff.mp h
    have h1 := intN_law' 4 (l.length : Int) (encAll c l ++ rest) ((intFitsB_iff _ _).mp h.1)
    simp only [int32, intN, List.append_assoc, h1]
    have : ¬ ((l.length : Int) < 0) := by omega
    simp only [this, if_false, Int.toNat_natCast, decN_encAll c l rest (List.all_eq_true.mp h.2)]

/-! ## strings and byte fields -/

/-- the length-prefixed field shared by STRING / BYTES: `lenW`-byte signed length, then the bytes -/
def lenPrefixed (lenW : Nat) : Codec Bytes where
  enc b := ofIntBE lenW b.length ++ b
  dec bs := match (intN lenW).dec bs with
    | none => none
    | some (n, r) => if n < 0 then none else if r.length < n.toNat then none else some (r.take n.toNat, r.drop n.toNat)
  valid b := intFitsB lenW b.length
  law := by
    intro b rest h
    have h1 := intN_law' lenW (b.length : Int) (b ++ rest) ((intFitsB_iff _ _).mp h)
    simp only [intN, List.append_assoc, h1]
    have h0 : ¬ ((b.length : Int) < 0) := by omega
    have h2 : ¬ (b ++ rest).length < b.length := by simp
    simp only [h0, if_false, Int.toNat_natCast, h2, List.take_left' rfl, List.drop_left' rfl]

/-- the nullable variant: length `-1` is null -/
def nullablePrefixed (lenW : Nat) : Codec (Option Bytes) where
  enc
    | none => ofIntBE lenW (-1)
    | some b => ofIntBE lenW b.length ++ b
  dec bs := match (intN lenW).dec bs with
    | none => none
    | some (n, r) =>
      if n = -1 then some (none, r)
      else if n < 0 then none else if r.length < n.toNat then none else some (some (r.take n.toNat), r.drop n.toNat)
  valid
    | none => intFitsB lenW (-1)
    | some b => intFitsB lenW b.length
  law := by
    intro a rest h
    cases a with
    | none =>
      have h1 := intN_law' lenW (-1) rest ((intFitsB_iff _ _).mp h)
      simp only [intN, h1, if_true]
    | some b =>
      have h1 := intN_law' lenW (b.length : Int) (b ++ rest) ((intFitsB_iff _ _).mp h)
      simp only [intN, List.append_assoc, h1]
      have hm : ¬ ((b.length : Int) = -1) := by omega
      have h0 : ¬ ((b.length : Int) < 0) := by omega
      have h2 : ¬ (b ++ rest).length < b.length := by simp
      simp only [hm, h0, if_false, Int.toNat_natCast, h2, List.take_left' rfl, List.drop_left' rfl]

/-- Kafka `STRING` (int16 length; UTF-8 is a convention the grammar does not check) -/
def string : Codec Bytes := lenPrefixed 2
/-- Kafka `NULLABLE_STRING` -/
def nullableString : Codec (Option Bytes) := nullablePrefixed 2
/-- Kafka `BYTES` -/
def bytes : Codec Bytes := lenPrefixed 4
/-- Kafka `NULLABLE_BYTES` -/
def nullableBytes : Codec (Option Bytes) := nullablePrefixed 4

/-! ## regions -/

/-- a prefix codec run on a whole region: nothing may be left over -/
def whole {α : Type} (c : Codec α) : Exact α where
  enc := c.enc
  dec bs := match c.dec bs with
    | some (a, []) => some a
    | _ => none
  valid := c.valid
  law := by
    intro a h
    have := c.law a [] h
    simp only [List.append_nil] at this
    simp only [this]

/-- an int32 size, then exactly that many bytes holding an `Exact` region -/
def sized32 {α : Type} (e : Exact α) : Codec α where
  enc a := ofIntBE 4 (e.enc a).length ++ e.enc a
  dec bs := match int32.dec bs with
    | none => none
    | some (n, r) =>
      if n < 0 then none else if r.length < n.toNat then none
      else match e.dec (r.take n.toNat) with
        | none => none
        | some a => some (a, r.drop n.toNat)
  valid a := e.valid a && intFitsB 4 (e.enc a).length
  law := by
    intro a rest h
    have h := Bool.and_eq_true_iff.mp h
    have h1 := intN_law' 4 ((e.enc a).length : Int) (e.enc a ++ rest) ((intFitsB_iff _ _).mp h.2)
    simp only [int32, intN, List.append_assoc, h1]
    have h0 : ¬ (((e.enc a).length : Int) < 0) := by omega
    have h2 : ¬ (e.enc a ++ rest).length < (e.enc a).length := by simp
    simp only [h0, if_false, Int.toNat_natCast, h2, List.take_left' rfl, List.drop_left' rfl, e.law a h.1]

/-- a uint32 checksum of everything that follows it in the region -/
def checksummed {α : Type} (crc : Bytes → Nat) (e : Exact α) : Exact α where
  enc a := ofNatBE 4 (crc (e.enc a) % 256 ^ 4) ++ e.enc a
  dec bs := match uint32.dec bs with
    | none => none
    | some (c, body) => if c = crc body % 256 ^ 4 then e.dec body else none
  valid := e.valid
  law := by
    intro a h
    have hv : uint32.valid (crc (e.enc a) % 256 ^ 4) = true := by
      simp only [uint32, uintN]
      exact decide_eq_true (Nat.mod_lt _ (by decide))
    have h1 := uint32.law (crc (e.enc a) % 256 ^ 4) (e.enc a) hv
    have h1' : uint32.dec (ofNatBE 4 (crc (e.enc a) % 256 ^ 4) ++ e.enc a) = some (crc (e.enc a) % 256 ^ 4, e.enc a) := h1
    simp only [h1', if_true, e.law a h]

/-- repeat a prefix codec until the region is used up; `fuel` bounds the number of items -/
def decMany {α : Type} (c : Codec α) : Nat → Bytes → Option (List α)
  | _, [] => some []
  | 0, _ :: _ => none
  | n+1, b :: bs => match c.dec (b :: bs) with
    | none => none
    | some (a, r) => match decMany c n r with
      | none => none
      | some as => some (a :: as)

theorem decMany_encAll {α : Type} (c : Codec α) (l : List α) (n : Nat) (hn : l.length ≤ n)
    (h : ∀ a ∈ l, c.valid a = true) (hne : ∀ a ∈ l, c.enc a ≠ []) :
    decMany c n (encAll c l) = some l := by
  induction l generalizing n with
  | nil => cases n <;> rfl
  | cons a as ih =>
    have ha : c.valid a = true := h a (List.mem_cons_self)
    have has : ∀ x ∈ as, c.valid x = true := fun x hx => h x (List.mem_cons_of_mem _ hx)
    have hne' : ∀ x ∈ as, c.enc x ≠ [] := fun x hx => hne x (List.mem_cons_of_mem _ hx)
    have hna : c.enc a ≠ [] := hne a (List.mem_cons_self)
    cases n with
    | zero => simp at hn
    | succ n =>
      have hlen : as.length ≤ n := by simpa using hn
      simp only [encAll]
      match hc : c.enc a, hna with
      | b :: bs, _ =>
        simp only [List.cons_append, decMany]
        have := c.law a (encAll c as) ha
        rw [hc, List.cons_append] at this
        simp only [this, ih n hlen has hne']

theorem encAll_length_ge {α : Type} (c : Codec α) (l : List α) (hne : ∀ a ∈ l, c.enc a ≠ []) :
    l.length ≤ (encAll c l).length := by
  induction l with
  | nil => simp
  | cons a as ih =>
    have hna : c.enc a ≠ [] := hne a (List.mem_cons_self)
    have := ih (fun x hx => hne x (List.mem_cons_of_mem _ hx))
    simp only [encAll, List.length_append, List.length_cons]
    have : 0 < (c.enc a).length := List.length_pos_iff.mpr hna
    omega

/-- a region filled with items of `c` (at least one byte per item, so `length` is enough fuel) -/
def many {α : Type} (c : Codec α) : Exact (List α) where
  enc l := encAll c l
  dec bs := decMany c bs.length bs
  valid l := l.all (fun a => c.valid a && !(c.enc a).isEmpty)
  law := by
    intro l h
    have h := List.all_eq_true.mp h
    have hv : ∀ a ∈ l, c.valid a = true := fun a ha => (Bool.and_eq_true_iff.mp (h a ha)).1
    have hne : ∀ a ∈ l, c.enc a ≠ [] := by
      intro a ha hnil
      have := (Bool.and_eq_true_iff.mp (h a ha)).2
      simp [hnil] at this
    exact decMany_encAll c l _ (encAll_length_ge c l hne) hv hne


/-! ## what `valid` means, combinator by combinator (accessors for proofs about users of the grammar) -/

theorem intN_valid {w : Nat} {i : Int} (h : (intN w).valid i = true) : IntFits w i := (intFitsB_iff w i).mp h

theorem seq_valid {α β : Type} {a : Codec α} {b : Codec β} {p : α × β} (h : (a ⊗ b).valid p = true) :
    a.valid p.1 = true ∧ b.valid p.2 = true := Bool.and_eq_true_iff.mp h

theorem seq_enc {α β : Type} (a : Codec α) (b : Codec β) (p : α × β) : (a ⊗ b).enc p = a.enc p.1 ++ b.enc p.2 := rfl

theorem lenPrefixed_valid {w : Nat} {b : Bytes} (h : (lenPrefixed w).valid b = true) : IntFits w b.length :=
  (intFitsB_iff _ _).mp h

theorem lenPrefixed_enc (w : Nat) (b : Bytes) : (lenPrefixed w).enc b = ofIntBE w b.length ++ b := rfl

theorem nullablePrefixed_valid_some {w : Nat} {b : Bytes} (h : (nullablePrefixed w).valid (some b) = true) :
    IntFits w b.length := (intFitsB_iff _ _).mp h

theorem nullablePrefixed_valid_none {w : Nat} (h : (nullablePrefixed w).valid none = true) : IntFits w (-1) :=
  (intFitsB_iff _ _).mp h

theorem nullablePrefixed_enc_some (w : Nat) (b : Bytes) : (nullablePrefixed w).enc (some b) = ofIntBE w b.length ++ b := rfl
theorem nullablePrefixed_enc_none (w : Nat) : (nullablePrefixed w).enc none = ofIntBE w (-1) := rfl

theorem array_valid {α : Type} {c : Codec α} {l : List α} (h : (array c).valid l = true) :
    IntFits 4 l.length ∧ ∀ a ∈ l, c.valid a = true := by
  have h := Bool.and_eq_true_iff.mp h
  exact ⟨(intFitsB_iff _ _).mp h.1, List.all_eq_true.mp h.2⟩

theorem array_enc' {α : Type} (c : Codec α) (l : List α) : (array c).enc l = ofIntBE 4 l.length ++ encAll c l := rfl

theorem sized32_valid {α : Type} {e : Exact α} {a : α} (h : (sized32 e).valid a = true) :
    e.valid a = true ∧ IntFits 4 (e.enc a).length := by
  have h := Bool.and_eq_true_iff.mp h
  exact ⟨h.1, (intFitsB_iff _ _).mp h.2⟩

theorem sized32_enc {α : Type} (e : Exact α) (a : α) : (sized32 e).enc a = ofIntBE 4 (e.enc a).length ++ e.enc a := rfl

theorem many_valid {α : Type} {c : Codec α} {l : List α} (h : (many c).valid l = true) :
    ∀ a ∈ l, c.valid a = true := by
  intro a ha
  exact (Bool.and_eq_true_iff.mp (List.all_eq_true.mp h a ha)).1

theorem many_enc {α : Type} (c : Codec α) (l : List α) : (many c).enc l = encAll c l := rfl

theorem encAll_cons {α : Type} (c : Codec α) (a : α) (l : List α) : encAll c (a :: l) = c.enc a ++ encAll c l := rfl
theorem encAll_nil {α : Type} (c : Codec α) : encAll c [] = [] := rfl

end Afkak.Codec
