import Afkak.Producer
import Afkak.Monitor.ProducerTrace
/-!
# `_send_requests` when the message sets of the batch cannot be BUILT (fix 3a8b78c, finding F32)

`create_message_set` raises (codec=CODEC_SNAPPY without the snappy library - the constructor accepts it -, an encoder
that raises): the repaired code fails every request of the batch that was grouped into a payload and has not been
called, in `deferredsByTopicPart` order, with that exception, sends nothing, and the exception goes on to
`_complete_batch_send` (the batch resolves).  This is the handler the fix added, as a function next to `sendRequests`
(which is the same code when nothing raises); it is NOT wired into `step` (the model's alphabet has no "encoder raises"
input): the scenario level is covered on the code by the encode-failure stage of the harness (monitors only).
-/
namespace Afkak.Producer
open Afkak.Monitor.ProducerTrace

/-- `_send_requests`, the encoder raising `k` -/
def sendRequestsE (k : ErrKind) (st : St) (ls : List Lookup) : St × List Ob × Bool :=
  if st.stopping then (st, [], true)
  else
    let (out, gs, obs) := procResults ls st.outstanding []
    let st1 := { st with outstanding := out }
    if gs.isEmpty then (st1, obs, true)
    else
      let (out2, obs2) := deliver out (payloadSids gs) (.err k)
      ({ st1 with outstanding := out2 }, obs ++ obs2, true)

end Afkak.Producer
