import Afkak.Generated.CrcConsts
/-!
# Cost-instrumented model of the primitive readers and of every response decoder

`afkak/_util.py`: `relative_unpack`, `read_short_bytes/ascii/text`, `read_int_string` — as written
after the F15 fix (lengths < −1 are rejected with `BufferUnderflowError`).
`afkak/kafkacodec.py`: every `decode_*` function, statement by statement.

A decoder is a function `data → cursor → cost → Res`.  **Cost** counts one unit per call of a
primitive reader (`relative_unpack`, `read_short_*`, `read_int_string`) — exactly what the
correspondence harness counts on the real decoder with a wrapper around those functions.  Every
loop iteration of every decoder performs at least one such call, so the count bounds the loop
iterations as well.  Python exceptions are `Res.err` with the exception class.

Generators (`decode_produce_response`, `decode_fetch_response`, `decode_offset_response`,
`decode_offset_commit_response`, `decode_offset_fetch_response`) are modelled as what
`list(generator)` gives: the list, or the exception that ends the iteration.
-/
namespace Afkak.WireCost
open Afkak.Consts

/-- Exception classes (the harness canonicalises a Python exception to its class name). -/
inductive Err where
  | bufferUnderflow     -- afkak.common.BufferUnderflowError
  | checksum            -- afkak.common.ChecksumError
  | fetchSizeTooSmall   -- afkak.common.ConsumerFetchSizeTooSmall
  | protocol            -- afkak.common.ProtocolError
  | invalidMessage      -- afkak.common.InvalidMessageError (an alias of the class CorruptMessage)
  | structError         -- struct.error
  | attributeError      -- None.decode(...)
  | typeError           -- len(None)
  | unicodeDecode       -- bytes.decode("ascii"/"utf-8") failed
  | notImplemented      -- snappy codec not installed
  | valueError          -- unsupported api_version / tuple-unpacking arity
  | unboundLocal        -- decode_fetch_response with api_version 1 (num_topics never assigned)
  | recursion           -- nesting of compressed message sets deeper than the depth given
  | modelFuel           -- never produced (proved): the model's iteration fuel ran out
  | external (name : String)  -- whatever the real gzip_decode raised (recorded by the harness)
  deriving Repr, DecidableEq

def Err.name : Err → String
  | .bufferUnderflow => "BufferUnderflowError"
  | .checksum => "ChecksumError"
  | .fetchSizeTooSmall => "ConsumerFetchSizeTooSmall"
  | .protocol => "ProtocolError"
  | .invalidMessage => "CorruptMessage"
  | .structError => "error"
  | .attributeError => "AttributeError"
  | .typeError => "TypeError"
  | .unicodeDecode => "UnicodeDecodeError"
  | .notImplemented => "NotImplementedError"
  | .valueError => "ValueError"
  | .unboundLocal => "UnboundLocalError"
  | .recursion => "RecursionError"
  | .modelFuel => "MODEL-FUEL"
  | .external n => n

/-- Result of running a decoder from a cursor: value, new cursor and cost, or exception and cost. -/
inductive Res (α : Type) where
  | ok (a : α) (cur cost : Nat)
  | err (e : Err) (cost : Nat)

/-- A decoder: `data → cur → cost so far → result`. -/
def Rd (α : Type) := List UInt8 → Nat → Nat → Res α

@[inline] def Rd.pure {α : Type} (a : α) : Rd α := fun _ c k => .ok a c k

@[inline] def Rd.bind {α β : Type} (m : Rd α) (f : α → Rd β) : Rd β := fun d c k =>
  match m d c k with
  | .ok a c' k' => f a d c' k'
  | .err e k' => .err e k'

instance : Monad Rd where
  pure := Rd.pure
  bind := Rd.bind

/-- `raise e` -/
def fail {α : Type} (e : Err) : Rd α := fun _ _ k => .err e k

/-! ## What the cost counter measures

The same decoders are run under two measures: `reads` (one unit per call of a primitive reader — the
time side) and `bytes` (the number of bytes the call slices out of the buffer, i.e. what
`data[cur:cur+n]` copies — the memory side).  The measure is an instance argument with `reads` as
the default instance, so that `decodeMetadata` means the read-counting decoder. -/

inductive Measure where
  | reads
  | bytes
  deriving DecidableEq, Repr

class HasMeasure where
  μ : Measure

instance (priority := low) readsMeasure : HasMeasure := ⟨.reads⟩

/-- the instance of the memory-side runs -/
@[reducible] def bytesMeasure : HasMeasure := ⟨.bytes⟩

/-- cost of one primitive call that sliced `sliced` bytes -/
def tick (μ : Measure) (sliced : Nat) : Nat :=
  match μ with
  | .reads => 1
  | .bytes => sliced

@[simp] theorem tick_reads (n : Nat) : tick readsMeasure.μ n = 1 := rfl
@[simp] theorem tick_bytes (n : Nat) : tick bytesMeasure.μ n = n := rfl

/-! ## `struct` -/

/-- `struct.calcsize` of one format character (`none`: "bad char in struct format"). -/
def fldSize : Char → Option Nat
  | 'b' => some 1 | 'B' => some 1
  | 'h' => some 2 | 'H' => some 2
  | 'i' => some 4 | 'I' => some 4
  | 'q' => some 8 | 'Q' => some 8
  | _ => none

def fldSigned (c : Char) : Bool := c == 'b' || c == 'h' || c == 'i' || c == 'q'

/-- `struct.calcsize(">" + fmt)`. -/
def fmtSize : List Char → Option Nat
  | [] => some 0
  | c :: cs => match fldSize c, fmtSize cs with
    | some a, some b => some (a + b)
    | _, _ => none

/-- big-endian unsigned -/
def beNat (bs : List UInt8) : Nat := bs.foldl (fun acc b => acc * 256 + b.toNat) 0

/-- two's complement of width `8 * w` bits -/
def toSigned (w : Nat) (n : Nat) : Int :=
  if n < 2 ^ (8 * w - 1) then (n : Int) else (n : Int) - (2 ^ (8 * w) : Nat)

/-- `struct.unpack(">" + fmt, bs)` for `bs` of exactly `calcsize` bytes. -/
def decodeFields : List Char → List UInt8 → List Int
  | [], _ => []
  | c :: cs, bs =>
    match fldSize c with
    | none => []
    | some w =>
      let n := beNat (bs.take w)
      (if fldSigned c then toSigned w n else (n : Int)) :: decodeFields cs (bs.drop w)

/-- `data[cur : cur + n]` for `0 ≤ cur`, `0 ≤ n` -/
def slice (d : List UInt8) (cur n : Nat) : List UInt8 := (d.drop cur).take n

/-- `relative_unpack(">" + fmt, data, cur)`:
    `size = struct.calcsize(fmt)`; underflow check; `struct.unpack`. -/
def relativeUnpack [m : HasMeasure] (fmt : List Char) : Rd (List Int) := fun d c k =>
  match fmtSize fmt with
  | none => .err .structError (k + tick m.μ 0)
  | some size =>
    if d.length < c + size then .err .bufferUnderflow (k + tick m.μ 0)
    else .ok (decodeFields fmt (slice d c size)) (c + size) (k + tick m.μ size)

/-- `relative_unpack(">%di" % n, data, cur)` (`ch` is the field character of the template):
    a negative count makes the format `">-3i"`, which `struct.calcsize` rejects. -/
def relativeUnpackN [m : HasMeasure] (ch : Char) (n : Int) : Rd (List Int) := fun d c k =>
  if n < 0 then .err .structError (k + tick m.μ 0)
  else match fldSize ch with
    | none => .err .structError (k + tick m.μ 0)
    | some w =>
      let size := n.toNat * w
      if d.length < c + size then .err .bufferUnderflow (k + tick m.μ 0)
      else .ok (decodeFields (List.replicate n.toNat ch) (slice d c size)) (c + size) (k + tick m.μ size)

/-! ## Length-prefixed strings (`afkak/_util.py`, after the F15 fix) -/

/-- `read_short_bytes` (`w = 2`) / `read_int_string` (`w = 4`). -/
def readLenBytes [m : HasMeasure] (w : Nat) : Rd (Option (List UInt8)) := fun d c k =>
  if d.length < c + w then .err .bufferUnderflow (k + tick m.μ 0)
  else
    -- the length prefix has been sliced (`w` bytes) from here on
    let strlen := toSigned w (beNat (slice d c w))
    if strlen == -1 then .ok none (c + w) (k + tick m.μ w)
    else if strlen < 0 then .err .bufferUnderflow (k + tick m.μ w)
    else
      let c := c + w
      if d.length < c + strlen.toNat then .err .bufferUnderflow (k + tick m.μ w)
      else .ok (some (slice d c strlen.toNat)) (c + strlen.toNat) (k + tick m.μ (w + strlen.toNat))

def readShortBytes [HasMeasure] : Rd (Option (List UInt8)) := readLenBytes 2
def readIntString [HasMeasure] : Rd (Option (List UInt8)) := readLenBytes 4

/-- Python's strict UTF-8 decoder as a DFA: state = (continuation bytes still needed, bounds for the
    next byte). -/
def utf8Step (st : Option (Nat × UInt8 × UInt8)) (b : UInt8) : Option (Nat × UInt8 × UInt8) :=
  match st with
  | none => none
  | some (0, _, _) =>
    if b < 0x80 then some (0, 0x80, 0xBF)
    else if 0xC2 ≤ b && b ≤ 0xDF then some (1, 0x80, 0xBF)
    else if b == 0xE0 then some (2, 0xA0, 0xBF)
    else if b == 0xED then some (2, 0x80, 0x9F)
    else if 0xE1 ≤ b && b ≤ 0xEF then some (2, 0x80, 0xBF)
    else if b == 0xF0 then some (3, 0x90, 0xBF)
    else if 0xF1 ≤ b && b ≤ 0xF3 then some (3, 0x80, 0xBF)
    else if b == 0xF4 then some (3, 0x80, 0x8F)
    else none
  | some (n + 1, lo, hi) => if lo ≤ b && b ≤ hi then some (n, 0x80, 0xBF) else none

def validUtf8 (bs : List UInt8) : Bool :=
  match bs.foldl utf8Step (some (0, 0x80, 0xBF)) with
  | some (0, _, _) => true
  | _ => false

def validAscii (bs : List UInt8) : Bool := bs.all (· < 0x80)

/-- `b.decode(...)` on the result of `read_short_bytes`; the text is kept as its bytes. -/
def decodeText (valid : List UInt8 → Bool) : Option (List UInt8) → Rd (List UInt8)
  | none => fail .attributeError
  | some bs => if valid bs then pure bs else fail .unicodeDecode

/-- `read_short_ascii`: one primitive call (counted once), then `.decode("ascii")`. -/
def readShortAscii [HasMeasure] : Rd (List UInt8) := do decodeText validAscii (← readShortBytes)
/-- `read_short_text`: `.decode("utf-8")`. -/
def readShortText [HasMeasure] : Rd (List UInt8) := do decodeText validUtf8 (← readShortBytes)

/-! ## Loops -/

/-- `for _ in range(n): acc.append(body)` — tail recursive; stops at the first exception. -/
def repeatAcc {α : Type} (m : Rd α) : Nat → List α → Rd (List α)
  | 0, acc => Rd.pure acc.reverse
  | n + 1, acc => fun d c k =>
    match m d c k with
    | .ok a c' k' => repeatAcc m n (a :: acc) d c' k'
    | .err e k' => .err e k'

/-- `range(n)` for a Python int `n` (negative: no iteration). -/
def forRange {α : Type} (n : Int) (m : Rd α) : Rd (List α) := repeatAcc m n.toNat []

/-! ## Values -/

/-- A decoded message (`afkak.common.Message`: magic, attributes, key, value, timestamp). -/
structure Msg where
  magic : Int
  attrs : Int
  key : Option (List UInt8)
  value : Option (List UInt8)
  ts : Option Int
  deriving Repr, DecidableEq

/-- What iterating a message set gives: the `OffsetAndMessage`s yielded, then the exception (if
    any) that ended the iteration. -/
structure SetOut where
  msgs : List (Int × Msg)
  err : Option Err
  /-- primitive reader calls + bytes handed to `zlib.crc32` -/
  cost : Nat
  /-- total number of bytes obtained from `gzip_decode` calls -/
  gz : Nat
  deriving Repr

/-- Generic decoded value: ints, bytes/str (as bytes), None, tuples/lists/structs/dict items (in
    insertion order), and — for fetch responses — a message set still to be iterated. -/
inductive Val where
  | int (i : Int)
  | bytes (b : List UInt8)
  | null
  | list (l : List Val)
  | mset (data : Option (List UInt8))

def optBytes : Option (List UInt8) → Val
  | none => .null
  | some b => .bytes b

def ints (l : List Int) : Val := .list (l.map .int)

/-- `d[k] = v` on a dict kept as its item list in insertion order. -/
def dictSet {κ ν : Type} [BEq κ] (d : List (κ × ν)) (k : κ) (v : ν) : List (κ × ν) :=
  if d.any (fun e => e.1 == k) then d.map (fun e => if e.1 == k then (e.1, v) else e)
  else d ++ [(k, v)]

def dictOf {κ ν : Type} [BEq κ] (items : List (κ × ν)) : List (κ × ν) :=
  items.foldl (fun d e => dictSet d e.1 e.2) []

/-! ## Response decoders (`KafkaCodec.decode_*`) -/

/-- one iteration of the topic loop shared by produce, list-offsets, offset-commit and offset-fetch
    responses: `topic = read_short_ascii; n = relative_unpack(">i"); for _ in range(n): part(topic)` -/
def topicLoop [HasMeasure] (fN : List Char) (part : List UInt8 → Rd Val) : Rd (List Val) := do
  let topic ← readShortAscii
  let [numPartitions] ← relativeUnpack fN | fail .valueError
  forRange numPartitions (part topic)

/-- the topic loop; what `list(generator)` gives -/
def topicsLoop [HasMeasure] (fN : List Char) (part : List UInt8 → Rd Val) (numTopics : Int) : Rd Val := do
  let tss ← forRange numTopics (topicLoop fN part)
  pure (.list tss.flatten)

/-- one iteration of the loop of `decode_api_versions_response` -/
def apiVersionEntry [HasMeasure] : Rd Val := do
  let [k, lo, hi] ← relativeUnpack c12Fmt_apiversions_1 | fail .valueError
  pure (Val.list [.int k, .int lo, .int hi])

def decodeApiVersions [HasMeasure] : Rd Val := do
  let [_corr, errorCode, num] ← relativeUnpack c12Fmt_apiversions_0 | fail .valueError
  let vs ← forRange num apiVersionEntry
  pure (.list [.int errorCode, .list vs])

/-- one iteration of the partition loop of `decode_produce_response` (`v0`: 3 fields, `v2`: 4) -/
def producePartition [HasMeasure] (fPart : List Char) (arity : Nat) (topic : List UInt8) : Rd Val := do
  let vs ← relativeUnpack fPart
  if vs.length != arity then fail .valueError
  else match vs with
    | partition :: error :: offset :: _ => pure (Val.list [.bytes topic, .int partition, .int error, .int offset])
    | _ => fail .valueError

/-- the body shared by `decode_produce_response.v0` / `.v2` (formats differ) -/
def produceTopics [HasMeasure] (fHead fParts fPart : List Char) (arity : Nat) : Rd Val := do
  let [_corr, numTopics] ← relativeUnpack fHead | fail .valueError
  topicsLoop fParts (producePartition fPart arity) numTopics

def decodeProduce [HasMeasure] (apiVersion : Int) : Rd Val :=
  if apiVersion == 0 then produceTopics c12Fmt_produce_0 c12Fmt_produce_1 c12Fmt_produce_2 3
  else if apiVersion ≥ 1 then do
    let rs ← produceTopics c12Fmt_produce_3 c12Fmt_produce_4 c12Fmt_produce_5 4
    let _throttle ← relativeUnpack c12Fmt_produce_6
    pure rs
  else fail .valueError

/-- the head of `decode_fetch_response`: correlation id, [throttle time,] topic count -/
def fetchHead [HasMeasure] (apiVersion : Int) : Rd Int :=
  if apiVersion == 0 then do
    let [_corr, n] ← relativeUnpack c12Fmt_fetch_0 | fail .valueError
    pure n
  else if apiVersion ≥ 2 then do
    let [_corr, _throttle, n] ← relativeUnpack c12Fmt_fetch_1 | fail .valueError
    pure n
  else fail .unboundLocal

/-- one iteration of the partition loop of `decode_fetch_response` -/
def fetchPartition [HasMeasure] (topic : List UInt8) : Rd Val := do
  let [partition, error, hw] ← relativeUnpack c12Fmt_fetch_3 | fail .valueError
  let messageSet ← readIntString
  pure (Val.list [.bytes topic, .int partition, .int error, .int hw, .mset messageSet])

/-- one iteration of the topic loop of `decode_fetch_response` -/
def fetchTopic [HasMeasure] : Rd (List Val) := do
  let topic ← readShortAscii
  let [numPartitions] ← relativeUnpack c12Fmt_fetch_2 | fail .valueError
  forRange numPartitions (fetchPartition topic)

/-- the topic / partition loops of `decode_fetch_response` -/
def fetchTopics [HasMeasure] (numTopics : Int) : Rd Val := do
  let tss ← forRange numTopics fetchTopic
  pure (.list tss.flatten)

def decodeFetch [HasMeasure] (apiVersion : Int) : Rd Val := do
  let numTopics ← fetchHead apiVersion
  fetchTopics numTopics

/-- one iteration of the offsets loop of `decode_offset_response` -/
def offsetEntry [HasMeasure] : Rd Int := do
  let [offset] ← relativeUnpack c12Fmt_offset_3 | fail .valueError
  pure offset

/-- one iteration of the partition loop of `decode_offset_response` -/
def offsetPartition [HasMeasure] (topic : List UInt8) : Rd Val := do
  let [partition, error, numOffsets] ← relativeUnpack c12Fmt_offset_2 | fail .valueError
  let offsets ← forRange numOffsets offsetEntry
  pure (Val.list [.bytes topic, .int partition, .int error, ints offsets])

def decodeOffset [HasMeasure] : Rd Val := do
  let [_corr, numTopics] ← relativeUnpack c12Fmt_offset_0 | fail .valueError
  topicsLoop c12Fmt_offset_1 offsetPartition numTopics

/-- one iteration of the broker loop of `decode_metadata_response`: the `brokers[nodeId] = …` item -/
def metadataBroker [HasMeasure] : Rd (Int × Val) := do
  let [nodeId] ← relativeUnpack c12Fmt_metadata_1 | fail .valueError
  let host ← readShortAscii
  let [port] ← relativeUnpack c12Fmt_metadata_2 | fail .valueError
  pure (nodeId, Val.list [.int nodeId, .bytes host, .int port])

/-- one iteration of the partition loop: the `partition_metadata[partition] = …` item -/
def metadataPartition [HasMeasure] (topicName : List UInt8) : Rd (Int × Val) := do
  let [pErr, partition, leader, numReplicas] ← relativeUnpack c12Fmt_metadata_6 | fail .valueError
  let replicas ← relativeUnpackN c12Rep_metadata_7 numReplicas
  let [numIsr] ← relativeUnpack c12Fmt_metadata_8 | fail .valueError
  let isr ← relativeUnpackN c12Rep_metadata_9 numIsr
  pure (partition, Val.list [.bytes topicName, .int partition, .int pErr, .int leader, ints replicas, ints isr])

/-- one iteration of the topic loop: the `topic_metadata[topic_name] = …` item -/
def metadataTopic [HasMeasure] : Rd (List UInt8 × Val) := do
  let [topicError] ← relativeUnpack c12Fmt_metadata_4 | fail .valueError
  let topicName ← readShortAscii
  let [numPartitions] ← relativeUnpack c12Fmt_metadata_5 | fail .valueError
  let parts ← forRange numPartitions (metadataPartition topicName)
  let pm := (dictOf parts).map (fun e => Val.list [.int e.1, e.2])
  pure (topicName, Val.list [.bytes topicName, .int topicError, .list pm])

/-- `decode_metadata_response` after the broker-count guard -/
def metadataBody [HasMeasure] (numBrokers : Int) : Rd Val := do
  let brokers ← forRange numBrokers metadataBroker
  let [numTopics] ← relativeUnpack c12Fmt_metadata_3 | fail .valueError
  let topics ← forRange numTopics metadataTopic
  let bd := (dictOf brokers).map (fun e => Val.list [.int e.1, e.2])
  let td := (dictOf topics).map (fun e => Val.list [.bytes e.1, e.2])
  pure (.list [.list bd, .list td])

def decodeMetadata [HasMeasure] : Rd Val := do
  let [_corr, numBrokers] ← relativeUnpack c12Fmt_metadata_0 | fail .valueError
  if numBrokers > (c12MaxBrokers : Int) then fail .invalidMessage else metadataBody numBrokers

def decodeConsumerMetadata [HasMeasure] : Rd Val := do
  let [_corr, errorCode, nodeId] ← relativeUnpack c12Fmt_consumermetadata_0 | fail .valueError
  let host ← readShortAscii
  let [port] ← relativeUnpack c12Fmt_consumermetadata_1 | fail .valueError
  pure (.list [.int errorCode, .int nodeId, .bytes host, .int port])

/-- one iteration of the partition loop of `decode_offset_commit_response` -/
def offsetCommitPartition [HasMeasure] (topic : List UInt8) : Rd Val := do
  let [partition, error] ← relativeUnpack c12Fmt_offsetcommit_3 | fail .valueError
  pure (Val.list [.bytes topic, .int partition, .int error])

def decodeOffsetCommit [HasMeasure] : Rd Val := do
  let [_corr] ← relativeUnpack c12Fmt_offsetcommit_0 | fail .valueError
  let [numTopics] ← relativeUnpack c12Fmt_offsetcommit_1 | fail .valueError
  topicsLoop c12Fmt_offsetcommit_2 offsetCommitPartition numTopics

/-- one iteration of the partition loop of `decode_offset_fetch_response` -/
def offsetFetchPartition [HasMeasure] (topic : List UInt8) : Rd Val := do
  let [partition, offset] ← relativeUnpack c12Fmt_offsetfetch_3 | fail .valueError
  let metadata ← readShortBytes
  let [error] ← relativeUnpack c12Fmt_offsetfetch_4 | fail .valueError
  pure (Val.list [.bytes topic, .int partition, .int offset, optBytes metadata, .int error])

def decodeOffsetFetch [HasMeasure] : Rd Val := do
  let [_corr] ← relativeUnpack c12Fmt_offsetfetch_0 | fail .valueError
  let [numTopics] ← relativeUnpack c12Fmt_offsetfetch_1 | fail .valueError
  topicsLoop c12Fmt_offsetfetch_2 offsetFetchPartition numTopics

/-- one iteration of the subscription loop of `decode_join_group_protocol_metadata` -/
def subscriptionEntry [HasMeasure] : Rd Val := do
  let s ← readShortText
  pure (Val.bytes s)

def decodeJoinGroupProtocolMetadata [HasMeasure] : Rd Val := do
  let [version, numSubscriptions] ← relativeUnpack c12Fmt_joinmeta_0 | fail .valueError
  let subs ← forRange numSubscriptions subscriptionEntry
  let userData ← readIntString
  pure (.list [.int version, .list subs, optBytes userData])

/-- one iteration of the member loop of `decode_join_group_response` -/
def joinGroupMember [HasMeasure] : Rd Val := do
  let mid ← readShortText
  let mdata ← readIntString
  pure (Val.list [.bytes mid, optBytes mdata])

def decodeJoinGroup [HasMeasure] : Rd Val := do
  let [_corr, error, generationId] ← relativeUnpack c12Fmt_join_0 | fail .valueError
  let groupProtocol ← readShortText
  let leaderId ← readShortText
  let memberId ← readShortText
  let [numMembers] ← relativeUnpack c12Fmt_join_1 | fail .valueError
  let members ← forRange numMembers joinGroupMember
  pure (.list [.int error, .int generationId, .bytes groupProtocol, .bytes leaderId, .bytes memberId, .list members])

def decodeErrorOnly [HasMeasure] (fmt : List Char) : Rd Val := do
  let [_corr, error] ← relativeUnpack fmt | fail .valueError
  pure (.list [.int error])

def decodeLeaveGroup [HasMeasure] : Rd Val := decodeErrorOnly c12Fmt_leave_0
def decodeHeartbeat [HasMeasure] : Rd Val := decodeErrorOnly c12Fmt_heartbeat_0

def decodeSyncGroup [HasMeasure] : Rd Val := do
  let [_corr, error] ← relativeUnpack c12Fmt_sync_0 | fail .valueError
  let memberAssignment ← readIntString
  pure (.list [.int error, optBytes memberAssignment])

/-- one iteration of the topic loop of `decode_sync_group_member_assignment` -/
def assignmentTopic [HasMeasure] : Rd (List UInt8 × Val) := do
  let topic ← readShortAscii
  let [numPartitions] ← relativeUnpack c12Fmt_assignment_1 | fail .valueError
  let partitions ← relativeUnpackN c12Rep_assignment_2 numPartitions
  pure (topic, ints partitions)

/-- the part of `decode_sync_group_member_assignment` after the version check -/
def assignmentBody [HasMeasure] (version numAssignments : Int) : Rd Val := do
  let assignments ← forRange numAssignments assignmentTopic
  let userData ← readIntString
  let ad := (dictOf assignments).map (fun e => Val.list [.bytes e.1, e.2])
  pure (.list [.int version, .list ad, optBytes userData])

def decodeSyncGroupMemberAssignment [HasMeasure] : Rd Val := do
  let [version, numAssignments] ← relativeUnpack c12Fmt_assignment_0 | fail .valueError
  if version != 0 then fail .protocol else assignmentBody version numAssignments

/-- Run a decoder the way the codec calls it: on the whole buffer from cursor 0. -/
def run {α : Type} (m : Rd α) (data : List UInt8) : Res α := m data 0 0

def Res.cost {α : Type} : Res α → Nat
  | .ok _ _ k => k
  | .err _ k => k

end Afkak.WireCost
