import Afkak.Monitor.C17
/-!
# Monitor for C17, continued — the member's own machinery never trips over itself

`afkak/_group.py` has two places where an internal inconsistency would raise instead of progressing:
`Coordinator.stop` calls `self._rejoin_wait_dc.cancel()` on whatever `_rejoin_wait_dc` references (a
`DelayedCall` that has already fired or been cancelled raises `AlreadyCalled`/`AlreadyCancelled`:
`stop()` would fail half-way with `_stopping` set — no leave, `start`'s Deferred never fired, the
member wedged in `[stopping]` for ever), and `_handle_heartbeat_failure` calls
`self._heartbeat_looper.stop()` (asserts that the looper is running).  The model has both branches
(`Ob.raised "AlreadyCalled"`, `Ob.raised "AssertionError"`).  This monitor says they are never taken;
`RestartError` from `start()` on a started or stopped member is the documented API answer, not a crash.
-/
namespace Afkak.Monitor.C17Crash
open Afkak.Group Afkak.Consts

def isCrashOb : Ob → Bool
  | .raised w => w != "RestartError"
  | _ => false

def noCrashStep (m : MStep) : Bool := !m.obs.any isCrashOb
def noInternalError (tr : List MStep) : Bool := tr.all noCrashStep

def checks : List (String × (List MStep → Bool)) := [("noInternalError", noInternalError)]
def failing (tr : List MStep) : List String := (checks.filter fun c => !c.2 tr).map (·.1)

end Afkak.Monitor.C17Crash
