import Afkak.Monitor.C02
/-! # Monitors for C03 (see `Monitor/C02.lean` for the conventions) -/
namespace Afkak.Monitor
open Afkak.Consumer

/-- What a trace says about processing: `cur` = last offset of the block most recently handed to the
    processor, `processed` = last offset of the most recent block whose processing SUCCEEDED. -/
structure ProcSt where
  cur : Option Int := none
  processed : Option Int := none
  deriving DecidableEq, Repr

def procTrack (m : ProcSt) : Item → ProcSt
  | .ob (.proc blk) => { m with cur := lastOff blk }
  | .ob (.procRet .ok) => { m with processed := m.cur }
  | .ev .procOk => { m with processed := m.cur }
  | _ => m

namespace C03

/-! ### Every commit request carries the last successfully processed offset at the time it is issued -/

def clpStep (m : ProcSt) (x : Item) : Option ProcSt :=
  match x with
  | .ob (.commitReq _ off) => if m.processed == some off then some m else none
  | _ => some (procTrack m x)

def commitLeProcessedOk (tr : List Item) : Bool := accepts clpStep {} tr

/-! ### At most one (uncancelled) commit request outstanding -/

def oifDone (m : Option Nat) (k : Nat) : Option Nat := if m == some k then none else m

def oifStep (m : Option Nat) : Item → Option (Option Nat)
  | .ob (.commitReq k _) => if m.isNone then some (some k) else none
  | .ob (.cancelReq k) => some (oifDone m k)
  | .ev (.commitOk k) => some (oifDone m k)
  | .ev (.commitErr k _ _) => some (oifDone m k)
  | _ => some m

def oneInFlightOk (tr : List Item) : Bool := accepts oifStep none tr

/-! ### `last_committed_offset` only takes a value the broker acknowledged or reported -/

structure AckSt where
  lc : Option Int := none
  reqs : List (Nat × Int) := []      -- commit requests issued: (id, offset)
  cur : Option Ev := none            -- the event being handled
  deriving DecidableEq, Repr

def ackJustified (m : AckSt) (lc' : Option Int) : Bool :=
  match m.cur, lc' with
  | some (.commitOk k), some v => m.reqs.contains (k, v)
  | some (.offsetFetchOk _ off), some v => off != Afkak.Consts.offsetNotCommitted && v == off
  | _, _ => false

def ackStep (m : AckSt) : Item → Option AckSt
  | .ev e => some { m with cur := some e }
  | .ob (.commitReq k off) => some { m with reqs := (k, off) :: m.reqs }
  | .ob (.probe _ lc') =>
    if lc' == m.lc then some m
    else if ackJustified m lc' then some { m with lc := lc' } else none
  | _ => some m

def committedAckedOk (tr : List Item) : Bool := accepts ackStep {} tr

/-! ### Started from the committed position `c`, the first fetch is at `c + 1`, issued at once -/

def resStep (expect : Option Int) : Item → Option (Option Int)
  | .ev (.offsetFetchOk _ c) => some (if 0 ≤ c then some (c + 1) else none)
  | .ob (.fetch _ off _) =>
    match expect with
    | some e => if off == e then some none else none
    | none => some none
  | .ob (.probe _ _) => if expect.isSome then none else some none
  | _ => some expect

def resumeOk (tr : List Item) : Bool := accepts resStep none tr

/-! ### After a processor failure nothing more is delivered until the consumer is started again -/

structure HaltSt where
  halted : Bool := false
  saved : Bool := false
  deriving DecidableEq, Repr

def haltStep (m : HaltSt) : Item → Option HaltSt
  | .ev (.start _) => some { halted := false, saved := m.halted }
  | .ob .raisedRestart => some { m with halted := m.saved }
  | .ob (.procRet (.err k _)) => some (if k == .cancelled then m else { m with halted := true })
  | .ev (.procErr _ _) => some { m with halted := true }
  | .ob (.proc _) => if m.halted then none else some m
  | _ => some m

def failureStopsOk (tr : List Item) : Bool := accepts haltStep {} tr

end C03
end Afkak.Monitor
