import Afkak.Monitor.C02
/-! # Monitors for C03 (see `Monitor/C02.lean` for the conventions) -/
namespace Afkak.Monitor
open Afkak.Consumer

/-- What a trace says about processing: `cur` = last offset of the block most recently handed to the
    processor, `processed` = last offset of the most recent block whose processing SUCCEEDED. -/
structure ProcSt where
  cur : Option Int := none
  processed : Option Int := none
  deriving DecidableEq, Repr

def procTrack (m : ProcSt) : Item → ProcSt
  | .ob (.proc blk) => { m with cur := lastOff blk }
  | .ob (.procRet .ok) => { m with processed := m.cur }
  | .ev .procOk => { m with processed := m.cur }
  | _ => m

namespace C03

/-! ### Every commit request carries the last successfully processed offset at the time it is issued -/

structure ClpSt where
  p : ProcSt := {}
  bad : Bool := false
  deriving DecidableEq, Repr

instance : HasBad ClpSt := ⟨ClpSt.bad⟩

def clpStep (m : ClpSt) (x : Item) : ClpSt :=
  match x with
  | .ob (.commitReq _ off) => if m.p.processed == some off then m else { m with bad := true }
  | _ => { m with p := procTrack m.p x }

def commitLeProcessedOk (tr : List Item) : Bool := accepts clpStep {} tr

/-! ### At most one (uncancelled) commit request outstanding -/

structure OifSt where
  req : Option Nat := none
  bad : Bool := false
  deriving DecidableEq, Repr

instance : HasBad OifSt := ⟨OifSt.bad⟩

def oifDone (m : OifSt) (k : Nat) : OifSt := if m.req == some k then { m with req := none } else m

def oifStep (m : OifSt) : Item → OifSt
  | .ob (.commitReq k _) => if m.req.isNone then { m with req := some k } else { m with bad := true }
  | .ob (.cancelReq k) => oifDone m k
  | .ev (.commitOk k) => oifDone m k
  | .ev (.commitErr k _ _) => oifDone m k
  | _ => m

def oneInFlightOk (tr : List Item) : Bool := accepts oifStep {} tr

/-! ### `last_committed_offset` only takes a value the broker acknowledged or reported -/

structure AckSt where
  lc : Option Int := none
  reqs : List (Nat × Int) := []      -- commit requests issued: (id, offset)
  cur : Option Ev := none            -- the event being handled
  bad : Bool := false
  deriving DecidableEq, Repr

instance : HasBad AckSt := ⟨AckSt.bad⟩

def ackJustified (m : AckSt) (lc' : Option Int) : Bool :=
  match m.cur, lc' with
  | some (.commitOk k), some v => m.reqs.contains (k, v)
  | some (.offsetFetchOk _ off), some v => off != Afkak.Consts.offsetNotCommitted && v == off
  | _, _ => false

def ackStep (m : AckSt) : Item → AckSt
  | .ev e => { m with cur := some e }
  | .ob (.commitReq k off) => { m with reqs := (k, off) :: m.reqs }
  | .ob (.probe _ lc') =>
    if lc' == m.lc then m
    else if ackJustified m lc' then { m with lc := lc' } else { m with bad := true }
  | _ => m

def committedAckedOk (tr : List Item) : Bool := accepts ackStep {} tr

/-! ### Started from the committed position `c`, the next fetch is at `c + 1` -/

structure ResSt where
  expect : Option Int := none
  bad : Bool := false
  deriving DecidableEq, Repr

instance : HasBad ResSt := ⟨ResSt.bad⟩

def resStep (m : ResSt) : Item → ResSt
  | .ev (.offsetFetchOk _ c) => { m with expect := if 0 ≤ c then some (c + 1) else none }
  | .ev (.start _) => { m with expect := none }     -- a restart overrides the position
  | .ob (.fetch _ off _) =>
    match m.expect with
    | some e => if off == e then { m with expect := none } else { m with bad := true }
    | none => m
  | _ => m

def resumeOk (tr : List Item) : Bool := accepts resStep {} tr

/-! ### After a processor failure nothing more is delivered until the consumer is started again -/

structure HaltSt where
  halted : Bool := false
  saved : Bool := false
  bad : Bool := false
  deriving DecidableEq, Repr

instance : HasBad HaltSt := ⟨HaltSt.bad⟩

def haltStep (m : HaltSt) : Item → HaltSt
  | .ev (.start _) => { m with halted := false, saved := m.halted }
  | .ob .raisedRestart => { m with halted := m.saved }
  | .ob (.procRet (.err _ _)) => { m with halted := true }
  | .ev (.procErr _ _) => { m with halted := true }
  | .ob (.proc _) => if m.halted then { m with bad := true } else m
  | _ => m

def failureStopsOk (tr : List Item) : Bool := accepts haltStep {} tr

/-! ### `commit()` that reports success at once has nothing to commit

A manual `commit()` whose Deferred succeeds immediately (no request issued) is only right when nothing
has been processed yet or the reported (= last committed) offset IS the last processed one. -/

structure CrSt where
  p : ProcSt := {}
  inCommit : Bool := false     -- handling a `commit()` call
  sent : Bool := false         -- … which issued a commit request
  bad : Bool := false
  deriving DecidableEq, Repr

instance : HasBad CrSt := ⟨CrSt.bad⟩

def crStep (m0 : CrSt) (x : Item) : CrSt :=
  let m := { m0 with p := procTrack m0.p x }
  match x with
  | .ev .commit => { m with inCommit := true, sent := false }
  | .ob (.act .commit) => { m with inCommit := true, sent := false }
  | .ev _ => { m with inCommit := false }
  | .ob (.act _) => { m with inCommit := false }
  | .ob (.commitReq _ _) => { m with sent := true }
  | .ob (.commitFired _ (.ok v)) =>
    if m.inCommit && !m.sent && m.p.processed.isSome && v != m.p.processed then { m with bad := true }
    else { m with inCommit := false }
  | .ob (.procRet _) => { m with inCommit := false }
  | _ => m

def commitReportsOk (tr : List Item) : Bool := accepts crStep {} tr

end C03
end Afkak.Monitor
