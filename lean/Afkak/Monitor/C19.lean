import Afkak.Monitor.ProducerTrace
import Afkak.Monitor.C01
/-!
# Monitors for C19 — batching thresholds, time limit, cancellation, stop
-/
namespace Afkak.Monitor.C19
open Afkak.Consts Afkak.Producer Afkak.Monitor.ProducerTrace

def msgCountOf (t : Track) (q : List Sid) : Int := (q.map (fun sid => ((t.msgsOf sid).length : Int))).sum
def byteCountOf (t : Track) (q : List Sid) : Int := (q.map (fun sid => msgBytes (t.msgsOf sid))).sum

/-- `_check_send_batch`'s test on the two counters -/
def thresh (cfg : Cfg) (mc bc : Int) : Bool :=
  (cfg.everyN != 0 && decide (cfg.everyN ≤ mc)) || (cfg.everyB != 0 && decide (cfg.everyB ≤ bc))

/-- Accounting: after every step the two counters are the sums over the queue (so they are zero
    when it is empty, whatever cancels happened). -/
def accountingStep (pre : Snap) (t : Track) (s : Step) : Bool :=
  let t0 := trackEv pre t s.ev
  s.post.msgCount == msgCountOf t0 s.post.queue && s.post.byteCount == byteCountOf t0 s.post.queue

/-- the queue a dispatch in this step would take -/
def queueAtCheck (nextSid : Sid) (pre : Snap) (e : Ev) : List Sid :=
  match e with
  | .send sid _ _ msgs => if sid = nextSid ∧ msgs.isEmpty = false then pre.queue ++ [sid] else pre.queue
  | .cancel sid => pre.queue.filter (· ≠ sid)
  | _ => pre.queue

/-- Dispatch exactly when it should: (i) never idle with a non-empty queue over a threshold (a
    threshold met during flight takes effect in the step that resolves the batch); (ii) a dispatch
    not made by the periodic tick happens only with a threshold met; (iii) a tick with no batch in
    flight takes a non-empty queue; (iv) no dispatch once stopped. -/
def dispatchStep (cfg : Cfg) (pre : Snap) (t : Track) (s : Step) : Bool :=
  let t0 := trackEv pre t s.ev
  let q := queueAtCheck t.nextSid pre s.ev
  let d := dispatched t.nextSid pre s
  (t0.stopped || !s.post.idle || s.post.queue.isEmpty || !thresh cfg s.post.msgCount s.post.byteCount) &&
  (!d || (match s.ev with | .tick => true | _ => thresh cfg (msgCountOf t0 q) (byteCountOf t0 q))) &&
  (match s.ev with | .tick => !(pre.idle && !pre.queue.isEmpty && !t0.stopped && pre.looper) || d | _ => true) &&
  (!d || !t0.stopped)

/-- Cancelling a queued send: it will never be in a request (checked at every produce), it fires
    `CancelledError(request_sent=False)`, and it leaves the queue and the accounting at once.
    Cancelling a dispatched send only detaches the caller: it fires `CancelledError`, nothing else
    happens and nothing else changes.  Cancelling a fired send does nothing. -/
def cancelStep (pre : Snap) (t : Track) (s : Step) : Bool :=
  (s.obs.all (fun o => match o with
    | .produce _ ps => (payloadSids ps).all (· ∉ (trackEv pre t s.ev).cancelledQueued)
    | _ => true)) &&
  (match s.ev with
   | .cancel sid =>
     if sid ∈ pre.queue then
       !t.produced.contains sid &&
       s.obs == [.fire sid (.err (.acancelled (some false)))] &&
       s.post == { pre with queue := pre.queue.filter (· ≠ sid),
                            msgCount := pre.msgCount - (t.msgsOf sid).length,
                            byteCount := pre.byteCount - msgBytes (t.msgsOf sid),
                            outstanding := pre.outstanding.erase sid }
     else if sid ∈ pre.outstanding then
       s.obs == [.fire sid (.err (.acancelled (some (!pre.idle))))] &&
       s.post == { pre with outstanding := pre.outstanding.erase sid }
     else s.obs.all (· == .badOp) && s.post == pre
   | _ => true)

def isTransmission : Ob → Bool
  | .produce .. => true
  | .loadMeta .. => true
  | _ => false

/-- the client's answer to the cancel of an in-flight produce is one of ClientIface's cancel outcomes:
    still pending, failed payloads (with whatever had been answered), a KafkaError, or CancelledError -/
def legitCancel : Option ProdRes → Bool
  | none => true
  | some (.failed _ _) => true
  | some (.err k) => k.isKafka || k == .tcancelled
  | _ => false

/-- Stop: every outstanding send has fired when `stop()` returns, each with a cancellation error
    (or truthfully `ok`, when the client's answer to the cancel still carried its acknowledgement:
    C01 checks those); the looping call is stopped; nothing is transmitted in or after `stop()`. -/
def stopStep (pre : Snap) (t : Track) (s : Step) : Bool :=
  let t0 := trackEv pre t s.ev
  (!t0.stopped || s.obs.all (!isTransmission ·)) &&
  (match s.ev with
   | .stop _ pout _ =>
     !effective t s.ev ||
     (s.post.outstanding.isEmpty && !s.post.looper && s.post.queue.isEmpty &&
      pre.outstanding.all (· ∈ firedSids s.obs) &&
      (!legitCancel pout || s.obs.all (fun o => match o with
        | .fire _ (.err k) => k.isCancel
        | .fire _ (.ok _) => true
        | .fire _ _ => false
        | _ => true)))
   | _ => true)

/-- A late cancel only detaches the caller: the batch goes on and, when it has resolved, every OTHER
    send of it has fired as well (the exactly-once check of C01, on traces that contain a late cancel). -/
def detachStep (cfg : Cfg) (pre : Snap) (t : Track) (s : Step) : Bool :=
  !(track pre t s).lateCancel || Afkak.Monitor.C01.resolvedFiredStep cfg pre t s

def detach (cfg : Cfg) (tr : List Step) : Bool := checkTrace cfg (detachStep cfg) tr
def accounting (cfg : Cfg) (tr : List Step) : Bool := checkTrace cfg accountingStep tr
def dispatchIff (cfg : Cfg) (tr : List Step) : Bool := checkTrace cfg (dispatchStep cfg) tr
def cancel (cfg : Cfg) (tr : List Step) : Bool := checkTrace cfg cancelStep tr
def stop (cfg : Cfg) (tr : List Step) : Bool := checkTrace cfg stopStep tr

end Afkak.Monitor.C19
