import Afkak.Monitor.ProducerTrace
import Afkak.Monitor.C01
/-!
# Monitors for C19 — batching thresholds, time limit, cancellation, stop
-/
namespace Afkak.Monitor.C19
open Afkak.Consts Afkak.Producer Afkak.Monitor.ProducerTrace

def msgCountOf (t : Track) (q : List Sid) : Int := (q.map (fun sid => ((t.msgsOf sid).length : Int))).sum
def byteCountOf (t : Track) (q : List Sid) : Int := (q.map (fun sid => msgBytes (t.msgsOf sid))).sum

/-- `_check_send_batch`'s test on the two counters -/
def thresh (cfg : Cfg) (mc bc : Int) : Bool :=
  (cfg.everyN != 0 && decide (cfg.everyN ≤ mc)) || (cfg.everyB != 0 && decide (cfg.everyB ≤ bc))

/-- Accounting: after every step the two counters are the sums over the queue (so they are zero
    when it is empty, whatever cancels happened). -/
def accountingStep (pre : Snap) (t : Track) (s : Step) : Bool :=
  let t0 := trackEv pre t s.ev
  s.post.msgCount == msgCountOf t0 s.post.queue && s.post.byteCount == byteCountOf t0 s.post.queue

/-- the queue a dispatch in this step would take -/
def queueAtCheck (nextSid : Sid) (stopped : Bool) (pre : Snap) (e : Ev) : List Sid :=
  match e with
  | .send sid _ _ msgs =>
    if sid = nextSid ∧ msgs.isEmpty = false ∧ stopped = false then pre.queue ++ [sid] else pre.queue
  | .cancel sid => pre.queue.filter (· ≠ sid)
  | _ => pre.queue

/-- is this event an answer to a partition look-up of the batch in flight (metadata result, back-off timer)? -/
def isLookupAnswer : Ev → Bool
  | .metaDone .. => true
  | .timer _ => true
  | _ => false

/-- Dispatch exactly when it should: (i) never idle with a non-empty queue over a threshold (a
    threshold met during flight takes effect in the step that resolves the batch) - stopped or not: once stopped
    the queue is empty; (ii) a dispatch not made by the periodic tick happens only with a threshold met;
    (iii) a tick with no batch in flight takes a non-empty queue; (iv) no dispatch once stopped; (v) the queue is
    taken ONLY WHEN NO BATCH IS IN FLIGHT: nothing was in flight before the step, or the step takes the client's
    answer to the request in flight, or the step is the answer to a look-up of a batch that had no request out
    (and resolved). -/
def dispatchStep (cfg : Cfg) (pre : Snap) (t : Track) (s : Step) : Bool :=
  let t0 := trackEv pre t s.ev
  let q := queueAtCheck t.nextSid t.stopped pre s.ev
  let d := dispatched t.nextSid t.stopped pre s
  (!s.post.idle || s.post.queue.isEmpty || !thresh cfg s.post.msgCount s.post.byteCount) &&
  (!d || (match s.ev with | .tick => true | _ => thresh cfg (msgCountOf t0 q) (byteCountOf t0 q))) &&
  (match s.ev with | .tick => !(pre.idle && !pre.queue.isEmpty && pre.looper) || d | _ => true) &&
  (!d || !t0.stopped) &&
  (!d || pre.idle || (t.curRes.isNone && t0.curRes.isSome) ||
     (isLookupAnswer s.ev && (t0.cur.isNone || t0.curRes.isSome)))

/-- Cancelling a queued send: it will never be in a request (checked at every produce), it fires
    `CancelledError(request_sent=False)`, and it leaves the queue and the accounting at once.
    Cancelling a dispatched send only detaches the caller: it fires `CancelledError`, nothing else
    happens and nothing else changes.  Cancelling a fired send does nothing. -/
def cancelStep (pre : Snap) (t : Track) (s : Step) : Bool :=
  (s.obs.all (fun o => match o with
    | .produce _ ps => (payloadSids ps).all (· ∉ (trackEv pre t s.ev).cancelledQueued)
    | _ => true)) &&
  (match s.ev with
   | .cancel sid =>
     if sid ∈ pre.queue then
       !t.produced.contains sid &&
       s.obs == [.fire sid (.err (.acancelled (some false)))] &&
       s.post == { pre with queue := pre.queue.filter (· ≠ sid),
                            msgCount := pre.msgCount - (t.msgsOf sid).length,
                            byteCount := pre.byteCount - msgBytes (t.msgsOf sid),
                            outstanding := pre.outstanding.erase sid }
     else if sid ∈ pre.outstanding then
       s.obs == [.fire sid (.err (.acancelled (some (!pre.idle))))] &&
       s.post == { pre with outstanding := pre.outstanding.erase sid }
     else s.obs.all (· == .badOp) && s.post == pre
   | _ => true)

def isTransmission : Ob → Bool
  | .produce .. => true
  | .loadMeta .. => true
  | _ => false

/-- the client's answer to the cancel of an in-flight produce is one of ClientIface's cancel outcomes:
    still pending, failed payloads (with whatever had been answered), a KafkaError, or CancelledError -/
def legitCancel : Option ProdRes → Bool
  | none => true
  | some (.failed _ _) => true
  | some (.err k) => k.isKafka || k == .tcancelled
  | _ => false

/-- Stop: every outstanding send has fired when `stop()` returns, each with a cancellation error
    (or truthfully `ok`, when the client's answer to the cancel still carried its acknowledgement:
    C01 checks those); the looping call is stopped; nothing is transmitted in or after `stop()`; from then on
    nothing is queued and nothing is outstanding after any step, and a `send_messages` is refused at once with
    `CancelledError(request_sent=False)`.
    Two conditions are on the ENVIRONMENT, not waivers of the Producer's duty: `effective` - the answer the client
    gives to the cancel of the request in flight names only payloads of that request (C07; the model has no
    transition for an answer that does not, and the fake client never gives one); `legitCancel` - the cancellation
    kinds are demanded when that answer is one of the real client's cancel outcomes (a mock answering the cancel
    with, say, the empty answer makes the sends fail with NoResponseError - truthfully). -/
def stopStep (pre : Snap) (t : Track) (s : Step) : Bool :=
  let t0 := trackEv pre t s.ev
  (!t0.stopped || s.obs.all (!isTransmission ·)) &&
  (!t0.stopped || (s.post.outstanding.isEmpty && s.post.queue.isEmpty)) &&
  (match s.ev with
   | .send sid _ _ msgs =>
     !(t.stopped && sid == t.nextSid && !msgs.isEmpty) || s.obs == [.fire sid (.err (.acancelled (some false)))]
   | .stop _ pout _ =>
     !effective t s.ev ||
     (s.post.outstanding.isEmpty && !s.post.looper && s.post.queue.isEmpty &&
      pre.outstanding.all (· ∈ firedSids s.obs) &&
      (!legitCancel pout || s.obs.all (fun o => match o with
        | .fire _ (.err k) => k.isCancel
        | .fire _ (.ok _) => true
        | .fire _ _ => false
        | _ => true)))
   | _ => true)

/-- A late cancel only detaches the caller: the batch goes on and, when it has resolved, every OTHER
    send of it has fired as well (the exactly-once check of C01, on traces that contain a late cancel). -/
def detachStep (cfg : Cfg) (pre : Snap) (t : Track) (s : Step) : Bool :=
  !(track pre t s).lateCancel || Afkak.Monitor.C01.resolvedFiredStep cfg pre t s

/-! ## the looping call's clock

`batch_every_t` is served by a Twisted `LoopingCall(self._send_batch)` started with `now=False` on the
client's reactor: calls at `start + k·T`, a call that became due while the clock jumped is made once (late),
the missed multiples are skipped; `_send_batch` returns `None`, so the looping call never waits for a
Deferred of its callee.  The model takes `tick` as an input event; `scheduleFrom` is the assumption on WHEN
ticks happen, checked on every trace of the real Producer (over the real `LoopingCall`). -/

/-- the next call time after a call made at `now` (start at 0): the next multiple of the period -/
def nextDue (T now : Rat) : Rat := (((now / T).floor + 1 : Int) : Rat) * T

/-- the clock (time, next due call) after a trace -/
def clockFrom (T : Rat) : Rat → Rat → List Step → Rat × Rat
  | now, due, [] => (now, due)
  | now, due, s :: rest =>
    match s.ev with
    | .advance dt => clockFrom T (now + dt) due rest
    | .tick => clockFrom T now (nextDue T now) rest
    | _ => clockFrom T now due rest

/-- is the looping call running after a trace? -/
def runningAfter : Bool → List Step → Bool
  | r, [] => r
  | _, s :: rest => runningAfter s.post.looper rest

/-- The schedule: time only moves forward; a tick happens only when the running looping call is due, and
    the next one is due at the next multiple of the period (more than 0, at most one period ahead); while a
    call is overdue nothing happens but timers firing (the reactor runs everything due before it returns). -/
def scheduleFrom (T : Rat) : Rat → Rat → Bool → List Step → Bool
  | _, _, _, [] => true
  | now, due, run, s :: rest =>
    let overdue := run && decide (due ≤ now)
    match s.ev with
    | .advance dt => decide (0 ≤ dt) && !overdue && scheduleFrom T (now + dt) due s.post.looper rest
    | .tick => overdue && decide (now < nextDue T now) && decide (nextDue T now ≤ now + T) &&
        scheduleFrom T now (nextDue T now) s.post.looper rest
    | .timer _ => scheduleFrom T now due s.post.looper rest
    | _ => !overdue && scheduleFrom T now due s.post.looper rest

/-- … from the construction of the producer (at reactor time 0) -/
def schedule (cfg : Cfg) (tr : List Step) : Bool :=
  match cfg.everyT with
  | some T => scheduleFrom T 0 T (Snap.init cfg).looper tr
  | none => tr.all (fun s => match s.ev with | .tick => false | _ => true)

def detach (cfg : Cfg) (tr : List Step) : Bool := checkTrace cfg (detachStep cfg) tr
def accounting (cfg : Cfg) (tr : List Step) : Bool := checkTrace cfg accountingStep tr
def dispatchIff (cfg : Cfg) (tr : List Step) : Bool := checkTrace cfg (dispatchStep cfg) tr
def cancel (cfg : Cfg) (tr : List Step) : Bool := checkTrace cfg cancelStep tr
def stop (cfg : Cfg) (tr : List Step) : Bool := checkTrace cfg stopStep tr

end Afkak.Monitor.C19
