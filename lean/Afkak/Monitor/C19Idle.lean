import Afkak.Monitor.C19
/-!
# C19, first sentence, on traces WITH re-entrant calls

Clause (i) of `Afkak.Monitor.C19.dispatchStep` on its own: after a step the producer is never left with no batch in
flight and a non-empty queue over a threshold ("queued messages are dispatched at the first moment no batch is in flight
and the count or byte threshold is met, a threshold met while a batch is in flight taking effect the moment that batch
resolves").  It looks at the bookkeeping AFTER the step only, so it means the same on a trace whose steps contain calls
made from callbacks of send Deferreds (a send from the callback of a batch that completes inside `_send_batch()`:
the threshold it meets must take effect when that batch resolves - in the same step).  The flat monitors depend on the
atomicity of a step and are not evaluated on such traces; this one is.
-/
namespace Afkak.Monitor.C19
open Afkak.Producer Afkak.Monitor.ProducerTrace

def idleOverStep (cfg : Cfg) (_pre : Snap) (_t : Track) (s : Step) : Bool :=
  !s.post.idle || s.post.queue.isEmpty || !thresh cfg s.post.msgCount s.post.byteCount

def neverIdleOver (cfg : Cfg) (tr : List Step) : Bool := checkTrace cfg (idleOverStep cfg) tr

end Afkak.Monitor.C19
