import Afkak.Wire.Spec
import Afkak.Wire.Responses
import Afkak.Monitor.C04
/-!
# Monitor for C05 — responses and message sets decode to exactly what was encoded

The driver encodes a well-formed value `v` with the INDEPENDENT grammar (`Spec.X.enc v`), the harness
hands those bytes to the REAL decoder, and `check (expectedX v) observed` demands that what came out
is exactly `v` (in afkak's result types: `expectedX` only flattens the protocol's nesting and names
the fields).  `AfkakProps/C05.lean` proves `decodeX (Spec.X.enc v) = expectedX v` of the model.

`expectedX v = none` means `v` is outside what the property quantifies over (not a well-formed
response: a topic or host that is not ASCII, text that is not UTF-8, two entries for one dict key,
more brokers than any cluster has, an integer out of range).
-/
namespace Afkak.Monitor.C05
open Afkak Afkak.Wire Afkak.Codec
open Afkak.Monitor.C04 (Verdict)

set_option synthInstance.maxSize 100000

/-- THE PROPERTY for one decoded value. -/
def check {β : Type} [DecidableEq β] (expected : Option β) (observed : β) : Verdict :=
  match expected with
  | none => .outOfRange
  | some e => if observed = e then .ok else .fail

/-- `v` if the grammar can carry it -/
def ifValid {α : Type} (c : Codec α) (v : α) : Option α := if c.valid v then some v else none

def allAscii (l : List Bytes) : Bool := l.all isAscii
def allText (l : List Bytes) : Bool := l.all validUtf8

def nodup {κ : Type} [BEq κ] : List κ → Bool
  | [] => true
  | k :: ks => !(ks.contains k) && nodup ks

/-! ## message sets -/

def toMessage (m : Spec.Msg) : Message :=
  { magic := m.magic, attributes := m.attributes, key := m.key, value := m.value, timestamp := m.timestamp }

/-- What the protocol says a message set contains once compressed wrappers are opened
    (`gunzip` is the decompressor; `depth` bounds the nesting):
    * codec bits 0 (`attributes mod 8`): the message itself, at its offset;
    * codec 1 (gzip): the messages of the inner set — for a format-0 wrapper with the offsets stored
      inside, for a format-1 wrapper with `wrapper offset − last inner offset + inner offset`;
    * anything else is not judged: codecs 2, 3 (snappy, lz4) are not available here, and codec values
      4..7 are not defined for message formats 0 and 1.  NOTE the two masks: the protocol's codec field
      is bits 0–2 (`mod 8`, used here), afkak's `ATTRIBUTE_CODEC_MASK` is `0x03` (`mod 4`, used by the
      decoder and in the round-trip theorems).  On every attributes byte judged here (`mod 8 ∈ {0, 1}`)
      the two agree (`C05_codec_mask_agree`); with bit 2 set (afkak would read 5 as gzip, 4 as plain)
      the verdict is out-of-range. -/
def expandWith (openWrapper : Int → Spec.Msg → Option (List (Int × Spec.Msg))) :
    List (Int × Spec.Msg) → Option (List (Int × Spec.Msg))
  | [] => some []
  | (off, m) :: rest =>
    match expandWith openWrapper rest with
    | none => none
    | some tail =>
      if m.attributes % 8 = 0 then some ((off, m) :: tail)
      else if m.attributes % 8 = 1 then (openWrapper off m).map (· ++ tail)
      else none

/-- what a gzip wrapper at offset `off` contains, given how to expand the set inside it -/
def openWrapper (crc : Bytes → Nat) (gunzip : Bytes → Option Bytes)
    (expandInner : List (Int × Spec.Msg) → Option (List (Int × Spec.Msg))) (off : Int) (m : Spec.Msg) :
    Option (List (Int × Spec.Msg)) :=
  match m.value with
  | none => none
  | some gz => match gunzip gz with
    | none => none
    | some raw => match (Spec.messageSet crc).dec raw with
      | none => none
      | some inner => match expandInner inner with
        | none => none
        | some flat =>
          if m.magic = 1 then
            match flat.getLast? with
            | none => some []
            | some last => some (flat.map (fun e => (off - last.1 + e.1, e.2)))
          else some flat

def expand (crc : Bytes → Nat) (gunzip : Bytes → Option Bytes) :
    Nat → List (Int × Spec.Msg) → Option (List (Int × Spec.Msg))
  | 0, l => expandWith (fun _ _ => none) l
  | d+1, l => expandWith (openWrapper crc gunzip (expand crc gunzip d)) l

/-- the iteration of afkak's message-set generator that the property demands -/
def expectedSet (crc : Bytes → Nat) (gunzip : Bytes → Option Bytes) (depth : Nat)
    (entries : List (Int × Spec.Msg)) : Option Gen :=
  if (Spec.messageSet crc).valid entries then
    (expand crc gunzip depth entries).map (fun l => (l.map (fun e => ⟨e.1, toMessage e.2⟩), none))
  else none

/-! ## responses -/

def flatten {α β : Type} (f : Bytes → α → β) (topics : List (Bytes × List α)) : List β :=
  topics.flatMap (fun t => t.2.map (f t.1))

def topicsAscii {α : Type} (topics : List (Bytes × List α)) : Bool := allAscii (topics.map (·.1))

def expectedProduceV0 (v : Spec.ProduceRespV0) : Option (List ProduceResp × Bool) :=
  if Spec.produceResponseV0.valid v && topicsAscii v.2 then
    some (flatten (fun t (p : Int × Int × Int) => ⟨t, p.1, p.2.1, p.2.2⟩) v.2, true)
  else none

def expectedProduceV2 (v : Spec.ProduceRespV2) : Option (List ProduceResp × Bool) :=
  if Spec.produceResponseV2.valid v && topicsAscii v.2.1 then
    some (flatten (fun t (p : Int × Int × Int × Int) => ⟨t, p.1, p.2.1, p.2.2.1⟩) v.2.1, true)
  else none

def expectedFetchParts (crc : Bytes → Nat) (gunzip : Bytes → Option Bytes) (depth : Nat)
    (topics : List (Bytes × List (Int × Int × Int × List (Int × Spec.Msg)))) : Option (List FetchResp) :=
  (flatten (fun t (p : Int × Int × Int × List (Int × Spec.Msg)) => (t, p)) topics).mapM (fun tp =>
    (expectedSet crc gunzip depth tp.2.2.2.2).map (fun g =>
      (⟨tp.1, tp.2.1, tp.2.2.1, tp.2.2.2.1, g⟩ : FetchResp)))

def expectedFetchV0 (crc : Bytes → Nat) (gunzip : Bytes → Option Bytes) (depth : Nat) (v : Spec.FetchRespV0) :
    Option (List FetchResp × Bool) :=
  if (Spec.fetchResponseV0 crc).valid v && topicsAscii v.2 then
    (expectedFetchParts crc gunzip depth v.2).map (fun l => (l, true))
  else none

def expectedFetchV2 (crc : Bytes → Nat) (gunzip : Bytes → Option Bytes) (depth : Nat) (v : Spec.FetchRespV2) :
    Option (List FetchResp × Bool) :=
  if (Spec.fetchResponseV2 crc).valid v && topicsAscii v.2.2 then
    (expectedFetchParts crc gunzip depth v.2.2).map (fun l => (l, true))
  else none

def expectedListOffsets (v : Spec.ListOffsetsResp) : Option (List OffsetResp × Bool) :=
  if Spec.listOffsetsResponse.valid v && topicsAscii v.2 then
    some (flatten (fun t (p : Int × Int × List Int) => ⟨t, p.1, p.2.1, p.2.2⟩) v.2, true)
  else none

/-- no real cluster has more brokers than this; afkak refuses larger counts on purpose -/
def brokerLimit : Nat := 1024

def expectedMetadata (v : Spec.MetadataResp) :
    Option (List (Int × BrokerMeta) × List (Bytes × TopicMeta)) :=
  let brokers := v.2.1
  let topics := v.2.2
  if Spec.metadataResponse.valid v && allAscii (brokers.map (·.2.1)) && allAscii (topics.map (·.2.1))
      && nodup (brokers.map (·.1)) && nodup (topics.map (·.2.1))
      && topics.all (fun t => nodup (t.2.2.map (·.2.1)))
      && decide (brokers.length ≤ brokerLimit) then
    some (brokers.map (fun b => (b.1, ⟨b.1, b.2.1, b.2.2⟩)),
          topics.map (fun t => (t.2.1, ⟨t.2.1, t.1,
            t.2.2.map (fun p => (p.2.1, ⟨t.2.1, p.2.1, p.1, p.2.2.1, p.2.2.2.1, p.2.2.2.2⟩))⟩)))
  else none

def expectedFindCoordinator (v : Spec.FindCoordinatorResp) : Option ConsumerMetadataResp :=
  if Spec.findCoordinatorResponse.valid v && isAscii v.2.2.2.1 then
    some ⟨v.2.1, v.2.2.1, v.2.2.2.1, v.2.2.2.2⟩
  else none

def expectedOffsetCommit (v : Spec.OffsetCommitResp) : Option (List OffsetCommitResp × Bool) :=
  if Spec.offsetCommitResponse.valid v && topicsAscii v.2 then
    some (flatten (fun t (p : Int × Int) => ⟨t, p.1, p.2⟩) v.2, true)
  else none

def expectedOffsetFetch (v : Spec.OffsetFetchResp) : Option (List OffsetFetchResp × Bool) :=
  if Spec.offsetFetchResponse.valid v && topicsAscii v.2 then
    some (flatten (fun t (p : Int × Int × Option Bytes × Int) => ⟨t, p.1, p.2.1, p.2.2.1, p.2.2.2⟩) v.2, true)
  else none

def expectedJoinGroup (v : Spec.JoinGroupResp) : Option JoinGroupResp :=
  let (_, err, gen, proto, leader, member, members) := v
  if Spec.joinGroupResponse.valid v && allText ([proto, leader, member] ++ members.map (·.1)) then
    some ⟨err, gen, proto, leader, member, members.map (fun m => (m.1, some m.2))⟩
  else none

def expectedSyncGroup (v : Spec.SyncGroupResp) : Option (Int × Option Bytes) :=
  if Spec.syncGroupResponse.valid v then some (v.2.1, some v.2.2) else none

def expectedErrorOnly (v : Spec.ErrorOnlyResp) : Option Int :=
  if Spec.errorOnlyResponse.valid v then some v.2 else none

def expectedApiVersions (v : Spec.ApiVersionsResp) : Option (Int × List ApiVersion) :=
  if Spec.apiVersionsResponse.valid v then some (v.2.1, v.2.2.map (fun e => ⟨e.1, e.2.1, e.2.2⟩)) else none

def expectedSubscription (v : Spec.Subscription) : Option JoinGroupProtocolMetadata :=
  if Spec.subscription.valid v && allText v.2.1 then some ⟨v.1, v.2.1, v.2.2⟩ else none

/-- version 0 is the only assignment layout the protocol defines -/
def expectedAssignment (v : Spec.Assignment) : Option SyncGroupMemberAssignment :=
  if Spec.assignment.valid v && v.1 = 0 && allAscii (v.2.1.map (·.1)) && nodup (v.2.1.map (·.1)) then
    some ⟨v.1, v.2.1, v.2.2⟩
  else none

/-- the correlation id every response starts with -/
def expectedCorrelationId (corr : Int) : Option Int :=
  if int32.valid corr then some corr else none

end Afkak.Monitor.C05
