import Afkak.Monitor.C16
/-!
# Monitor for C16, continued — the member leaves the group only when no partition consumer is live

"No partition consumer outlives its group generation": the LeaveGroup request ends the member's
generation (the coordinator rebalances at once and hands the partitions to the other members), so it
may be sent only when every partition consumer has stopped — `ConsumerGroup.stop()` "waits for any
ongoing processing to complete and commits offsets", then departs.

(A file of its own so that adding it did not rebuild every proof importing `Afkak.Monitor.C16`; the
driver evaluates `Afkak.Monitor.C16.failing ++ Afkak.Monitor.C16Leave.failing ++ composed monitors`.)
-/
namespace Afkak.Monitor.C16Leave
open Afkak.Group Afkak.Consts Afkak.Monitor.C16

def isLeaveOb : Ob → Bool | .leave _ => true | _ => false

/-- a LeaveGroup request is observed only in a step after which no consumer is running or draining -/
def leaveAfterDrainStep (m : MStep) : Bool := !m.obs.any isLeaveOb || m.snap.cons.all (fun c => !isLive c)
def leaveAfterDrain (tr : List MStep) : Bool := tr.all leaveAfterDrainStep

def checks : List (String × (List MStep → Bool)) := [("leaveAfterDrain", leaveAfterDrain)]
def failing (tr : List MStep) : List String := (checks.filter fun c => !c.2 tr).map (·.1)

end Afkak.Monitor.C16Leave
