import Afkak.ClientNet
import Afkak.Monitor.C08
/-!
# Monitor for C20 — closing the client fails everything pending and releases every connection.
A decidable predicate over an OBSERVED trace of the real `KafkaClient`.
-/
namespace Afkak.Monitor.C20
open Afkak.ClientNet Afkak.ClientCache

structure MSt where
  closed : Bool := false
  /-- the current step is the one of the first `close()` -/
  closeStep : Bool := false
  closeOp : Option Nat := none
  /-- operations whose Deferred has not fired -/
  live : List Nat := []
  /-- operation started by the current step's event, after close -/
  newOp : Option Nat := none
  closedBcs : List Nat := []
  /-- every broker client ever created -/
  newBcs : List Nat := []
  downBcs : List Nat := []
  /-- close operations whose Deferred has fired -/
  firedOps : List Nat := []
  /-- bootstrap connections the client told to close / whose closing has been notified -/
  bootLost : List Nat := []
  bootGone : List Nat := []
  fails : List String := []
  /-- failures of the rules "after close nothing connects, creates a broker client, writes a bootstrap request or
      hands a request to a broker client" (part of `ok`; kept apart because these rules are PROVED of every model
      trace: `C20_model_traces_satisfy_monitor_partial`) -/
  connFails : List String := []
  /-- failures of the one rule the code is KNOWN to violate (kept apart: `ok` does not include them) -/
  bootFails : List String := []
  /-- the harness reported, at the end of the trace, that no connection is open, being attempted or awaiting
      its closed notification -/
  quiet : Bool := false
  deriving Repr

def fail (s : MSt) (why : String) : MSt := { s with fails := s.fails ++ [why] }
def failC (s : MSt) (why : String) : MSt := { s with connFails := s.connFails ++ [why] }

/-- a result that reports failure (or the documented cancellation value `None` of a metadata load) -/
def failing : OpRes → Bool
  | .fail _ | .failedPayloads _ _ | .okNone => true
  | _ => false

def endStep (s : MSt) : MSt :=
  let s1 := match s.newOp with
    | some o => if s.live.contains o then fail s s!"operation {o} started after close did not fail at once" else s
    | none => s
  let s2 := if s1.closeStep && !s1.live.isEmpty then fail s1 s!"operations {s1.live} still pending after close()" else s1
  { s2 with newOp := none, closeStep := false }

def startOp (s : MSt) (o : Nat) : MSt :=
  { s with live := s.live ++ [o], newOp := if s.closed then some o else none }

def stepItem (s : MSt) : TItem → MSt
  | .exc c => { s with bootFails := s.bootFails ++ [s!"exception {c} escaped into the reactor"] }
  | .ev e =>
    let s := endStep s
    match e with
    | .load o _ => startOp s o
    | .send o _ _ _ _ => startOp s o
    | .cload o _ => startOp s o
    | .srtc o _ _ => startOp s o
    | .ltp o _ => startOp s o
    | .close o => if s.closed then s else { s with closed := true, closeStep := true, closeOp := some o }
    | .down b => { s with downBcs := s.downBcs ++ [b] }
    | _ => s
  | .ob o =>
    match o with
    | .result op r =>
      let s1 := { s with live := s.live.filter (fun x => !(x == op)) }
      -- the documented `None` of a cancelled metadata load is what close() makes of a load it interrupts:
      -- not a failure (full-strength rule, known finding)
      let s2 := if s.closed && r == .okNone
        then { s1 with bootFails := s1.bootFails ++ ["a metadata load interrupted by close completed with None instead of failing"] } else s1
      if s.closed && !failing r then fail s2 s!"operation {op} completed successfully after close" else s2
    | .raised op _ => { s with live := s.live.filter (fun x => !(x == op)) }
    | .mk k _ _ _ => if s.closed then failC s s!"request {k} issued after close" else s
    | .bcNew b _ _ _ =>
      let s1 := { s with newBcs := s.newBcs ++ [b] }
      if s.closed then failC s1 s!"broker client {b} created after close" else s1
    | .bootConnect j _ _ => if s.closed then failC s s!"bootstrap connect {j} after close" else s
    | .bootWrite j => if s.closed then failC s s!"bootstrap write {j} after close" else s
    | .bcClose b => { s with closedBcs := s.closedBcs ++ [b] }
    | .bootLose j => { s with bootLost := s.bootLost ++ [j] }
    | .down b => { s with downBcs := s.downBcs ++ [b] }
    | .closeFired o =>
      let s2 := if s.firedOps.contains o then fail s "close Deferred fired twice" else { s with firedOps := s.firedOps ++ [o] }
      let s3 := if s2.bootLost.all (fun j => s2.bootGone.contains j) then s2
        else { s2 with bootFails := s2.bootFails ++ ["close Deferred fired before a bootstrap connection had gone"] }
      let s4 := if s3.closedBcs.all (fun b => s3.downBcs.contains b) then s3
        else fail s3 "close Deferred fired before the last broker client had gone"
      -- all broker connections are closed: every broker client ever created was told to close
      if s4.newBcs.all (fun b => s4.closedBcs.contains b) then s4
      else fail s4 "close Deferred fired although a broker client was never told to close"
    | _ => s
  | .dump c =>
    if s.closed && !Afkak.Monitor.C08.allInvalid c then fail s "metadata survives close" else
    if s.closed && !c.clients.isEmpty then fail s "clients survive close" else
    if s.closed && !c.partMeta.isEmpty then fail s "partition metadata survives close" else s
  | .net what => if s.closed then fail s s!"network activity after close: {what}" else s
  | .bootGone j => { s with bootGone := s.bootGone ++ [j] }
  | .netQuiet => { s with quiet := true }
  | _ => s

def run (tr : List TItem) : MSt :=
  let s := endStep (tr.foldl stepItem {})
  -- at the end: once every closed broker client has gone the close Deferred must have fired
  if s.closed && s.closedBcs.all (fun b => s.downBcs.contains b) &&
      !(match s.closeOp with | some o => s.firedOps.contains o | none => true) then
    fail s "every broker client has gone but the close Deferred did not fire exactly once"
  -- independent of the broker clients' own reports: nothing is left on the network, so every connection HAS gone
  else if s.closed && s.quiet && !(match s.closeOp with | some o => s.firedOps.contains o | none => true) then
    fail s "no connection is left (none open, attempted or awaiting its notification) but the close Deferred has not fired"
  else s

def ok (tr : List TItem) : Bool := (run tr).fails.isEmpty && (run tr).connFails.isEmpty

/-- `ok` plus the rule that the close Deferred also waits for the bootstrap connections (which the
    code is known not to do: known finding, open statement `C20_close_awaits_bootstrap_connections`) -/
def okFull (tr : List TItem) : Bool := ok tr && (run tr).bootFails.isEmpty

end Afkak.Monitor.C20
