import Afkak.ClientNet
/-!
# Monitor for C07 — requests reach the responsible broker; results return in payload order.
A decidable predicate over an OBSERVED trace of the real `KafkaClient` (request log per broker client
with the harness's attribution of each request to its operation, replies, results, cache dumps).
-/
namespace Afkak.Monitor.C07
open Afkak.ClientNet Afkak.ClientCache

inductive Outcome where
  | none
  | ok (rs : List (TP × Int × Int))
  | failed
  deriving Repr

structure MReq where
  k : Nat
  b : Nat
  op : Option Nat := .none
  idxs : List Nat := []
  outcome : Outcome := .none
  /-- the metadata current when the request was issued: the dump before its step and (for what the step
      itself merged before issuing) the dump after its step -/
  cands : List Cache := []
  deriving Repr

structure MOp where
  o : Nat
  keys : List TP
  group : Option String
  expect : Bool
  /-- cache dumps since (and just before) the operation started: "the current metadata" -/
  hist : List Cache
  done : Bool := false
  deriving Repr

structure MUn where
  u : Nat
  tried : List Int := []
  boots : List (String × Int) := []
  /-- nodes with a connected broker client when the request started -/
  connAtStart : List Int
  known : Option (List Int) := .none
  /-- brokers the client knew before the step in which the request started (a lower bound of `known`, which is
      only available once that step's cache dump arrives) -/
  known0 : List Int := []
  bad : Bool := false
  deriving Repr

structure MSt where
  lastDump : Cache := {}
  bcNode : List (Nat × Int) := []
  bcConn : List Nat := []
  bcClosed : List Nat := []
  reqs : List MReq := []
  boots : List (Nat × String × Int) := []
  ops : List MOp := []
  uns : List MUn := []
  /-- sends completed in the current step: checked at the end of the step, when the step's own
      cache dump (the metadata the routing may have used) is known -/
  pendingChecks : List (Nat × List Int × List Nat) := []
  /-- sends that issued all their requests and then failed with a broker's error code (`fail_on_error`): their
      routing is checked like that of a completed send -/
  pendingRouting : List Nat := []
  /-- sends that failed in any other way (cancelled, undecodable reply, client closed or encoder error while issuing,
      TypeError of `_handle_responses`) after at least one request was issued: the requests issued SO FAR are checked
      (distinct brokers, disjoint ascending payload indices, each payload to a broker the metadata named) -/
  pendingPartial : List Nat := []
  /-- coordinator requests (`_send_request_to_coordinator`) issued in the current step: request, broker client,
      group, the cache before the step -/
  pendingCoord : List (Nat × Nat × String × Cache) := []
  /-- metadata load operation ↦ its broker-unaware request -/
  loadUn : List (Nat × Nat) := []
  /-- operations that were cancelled, or started when the client was closed (their failure is not the
      exhaustion of all servers) -/
  excused : List Nat := []
  closed : Bool := false
  fails : List String := []
  /-- full-strength rule the code is known to violate: routing by the metadata current at send time -/
  staleFails : List String := []
  deriving Repr

def fail (s : MSt) (why : String) : MSt := { s with fails := s.fails ++ [why] }

def nodeOf (s : MSt) (b : Nat) : Option Int := get? b s.bcNode

def insertNat (a : Nat) : List Nat → List Nat
  | [] => [a]
  | b :: l => if a ≤ b then a :: b :: l else b :: insertNat a l

def sortNats : List Nat → List Nat
  | [] => []
  | a :: l => insertNat a (sortNats l)

def ascending : List Nat → Bool
  | a :: b :: rest => decide (a < b) && ascending (b :: rest)
  | _ => true

def nodup {α} [BEq α] : List α → Bool
  | [] => true
  | a :: l => !l.contains a && nodup l

/-- the node the cache `c` names as responsible for `key` (leader, or the group's coordinator) -/
def responsible (c : Cache) (key : TP) (group : Option String) : Option Int :=
  match group with
  | .none => match get? key c.t2b with | some (some b) => some b.nodeId | _ => .none
  | some g => (get? g c.groups).map (·.nodeId)

def setReq (s : MSt) (k : Nat) (f : MReq → MReq) : MSt :=
  { s with reqs := s.reqs.map (fun r => if r.k == k then f r else r) }

def isOk : Outcome → Bool | .ok _ => true | _ => false
def isFailed : Outcome → Bool | .failed => true | _ => false
def itemsOf : Outcome → List (TP × Int × Int) | .ok rs => rs | _ => []

/-- does the reply answer exactly the partitions asked (the hypothesis of the accounting law)? -/
def answersAsked (keys : List TP) (r : MReq) : Bool :=
  let asked := r.idxs.filterMap (fun i => keys[i]?)
  let got := (itemsOf r.outcome).map (·.1)
  nodup got && got.all (fun k => asked.contains k) && asked.all (fun k => got.contains k)

/-- STRICT routing: each payload went to the broker named by the metadata current when its request was issued
    (`checkSend` accepts any metadata seen since the operation started: a leader resolved before a reload
    that the same call triggered for a later payload is kept although the reload moved it) -/
def checkStale (s : MSt) (op : MOp) : List String :=
  let rs := s.reqs.filter (fun r => r.op == some op.o)
  if rs.all (fun r => r.idxs.all (fun i => match op.keys[i]?, nodeOf s r.b with
      | some key, some node => r.cands.any (fun c => responsible c key op.group == some node)
      | _, _ => true)) then []
  else ["a payload was sent to a broker that the metadata current at send time no longer named for it"]

/-- routing checks of a send all of whose requests were issued: one request per broker, the requests partition
    the payload list in order, each payload went to a broker the metadata named for it -/
def checkRouting (s : MSt) (op : MOp) : List String :=
  let rs := s.reqs.filter (fun r => r.op == some op.o)
  let n := op.keys.length
  let nodes := rs.filterMap (fun r => nodeOf s r.b)
  let c1 := if nodup nodes && nodes.length == rs.length then [] else [s!"op {op.o}: more than one request to the same broker"]
  let c2 := if sortNats (rs.flatMap (·.idxs)) == List.range n && rs.all (fun r => ascending r.idxs) then []
            else [s!"op {op.o}: the requests do not partition the payload list in order"]
  let c3 := if rs.all (fun r => r.idxs.all (fun i => match op.keys[i]?, nodeOf s r.b with
              | some key, some node => op.hist.any (fun c => responsible c key op.group == some node)
              | _, _ => false)) then [] else [s!"op {op.o}: a payload was sent to a broker the metadata never named for it"]
  c1 ++ c2 ++ c3

/-- routing checks of a send that failed before (or without) completing: what was issued so far goes to distinct
    brokers, carries disjoint, ascending payload indices of the list, each payload to a broker the metadata named -/
def checkRoutingPartial (s : MSt) (op : MOp) : List String :=
  let rs := s.reqs.filter (fun r => r.op == some op.o)
  let n := op.keys.length
  let nodes := rs.filterMap (fun r => nodeOf s r.b)
  let c1 := if nodup nodes && nodes.length == rs.length then [] else [s!"op {op.o}: more than one request to the same broker"]
  let c2 := if nodup (rs.flatMap (·.idxs)) && (rs.flatMap (·.idxs)).all (fun i => decide (i < n)) && rs.all (fun r => ascending r.idxs) then []
            else [s!"op {op.o}: the requests issued do not carry disjoint parts of the payload list in order"]
  let c3 := if rs.all (fun r => r.idxs.all (fun i => match op.keys[i]?, nodeOf s r.b with
              | some key, some node => op.hist.any (fun c => responsible c key op.group == some node)
              | _, _ => false)) then [] else [s!"op {op.o}: a payload was sent to a broker the metadata never named for it"]
  c1 ++ c2 ++ c3

/-- checks at the completion of a send with `responses` / `FailedPayloadsError` -/
def checkSend (s : MSt) (op : MOp) (tags : List Int) (failed : List Nat) : List String :=
  let rs := s.reqs.filter (fun r => r.op == some op.o)
  let n := op.keys.length
  let nodes := rs.filterMap (fun r => nodeOf s r.b)
  let c1 := if nodup nodes && nodes.length == rs.length then [] else [s!"op {op.o}: more than one request to the same broker"]
  let c2 := if sortNats (rs.flatMap (·.idxs)) == List.range n && rs.all (fun r => ascending r.idxs) then []
            else [s!"op {op.o}: the requests do not partition the payload list in order"]
  let c3 := if rs.all (fun r => r.idxs.all (fun i => match op.keys[i]?, nodeOf s r.b with
              | some key, some node => op.hist.any (fun c => responsible c key op.group == some node)
              | _, _ => false)) then [] else [s!"op {op.o}: a payload was sent to a broker the metadata never named for it"]
  let acc := if op.expect then (rs.filter (fun r => isOk r.outcome)).flatMap (fun r => itemsOf r.outcome) else []
  let expected := op.keys.filterMap (fun key => ((acc.filter (fun it => it.1 == key)).getLast?).map (fun it => it.2.2))
  let c4 := if tags == expected then [] else [s!"op {op.o}: responses are not the answers in payload order"]
  let c5 := if failed == (rs.filter (fun r => isFailed r.outcome)).flatMap (·.idxs) then []
            else [s!"op {op.o}: failed payloads are not exactly the payloads of the failed requests"]
  let hyp := op.expect && nodup op.keys && (rs.filter (fun r => isOk r.outcome)).all (answersAsked op.keys)
  let c6 := if !hyp || (tags.length + failed.length == n &&
                 nodup (failed ++ (List.range n).filter (fun i => match op.keys[i]? with
                   | some key => acc.any (fun it => it.1 == key) && !failed.contains i | .none => false)))
            then [] else [s!"op {op.o}: responses and failed payloads do not account for every payload exactly once"]
  c1 ++ c2 ++ c3 ++ c4 ++ c5 ++ c6

def connectedNodes (s : MSt) : List Int :=
  (s.bcConn.filter (fun b => !s.bcClosed.contains b)).filterMap (nodeOf s)

def getUn (s : MSt) (u : Nat) : MSt × MUn :=
  match (s.uns.filter (fun x => x.u == u)).head? with
  | some x => (s, x)
  | .none =>
    let x : MUn := { u := u, connAtStart := connectedNodes s, known0 := s.lastDump.brokers.map (·.1) }
    ({ s with uns := s.uns ++ [x] }, x)

def setUn (s : MSt) (x : MUn) : MSt := { s with uns := s.uns.map (fun y => if y.u == x.u then x else y) }

def stepItem (cfg : Cfg) (s : MSt) : TItem → MSt
  | .exc c => fail s s!"exception {c} escaped into the reactor"
  | .ev e =>
    match e with
    | .send o keys group _ expect =>
      { s with ops := s.ops ++ [{ o := o, keys := keys, group := group, expect := expect, hist := [s.lastDump] }] }
    | .cancel o => { s with excused := s.excused ++ [o] }
    | .close _ => { s with closed := true, excused := s.excused ++ s.loadUn.map (·.1) }
    | .load o _ => if s.closed then { s with excused := s.excused ++ [o] } else s
    | .conn b v => { s with bcConn := if v then s.bcConn ++ [b] else s.bcConn.filter (fun x => !(x == b)) }
    | .fire k r =>
      (match (s.reqs.filter (fun q => q.k == k)).head? with
       | some q => (match q.outcome with
         | .none => setReq s k (fun q => { q with outcome := match r with
             | .ok (.items rs) => .ok rs
             | .ok .none => .ok []
             | _ => .failed })
         | _ => s)
       | .none => s)
    | _ => s
  | .ob o =>
    match o with
    | .bcNew b node _ _ => { s with bcNode := s.bcNode ++ [(b, node)] }
    | .bcClose b => { s with bcClosed := s.bcClosed ++ [b] }
    | .mk k b _ what =>
      let s1 := { s with reqs := s.reqs ++ [{ k := k, b := b, cands := [s.lastDump] }] }
      (match what with
       | .group g => { s1 with pendingCoord := s1.pendingCoord ++ [(k, b, g, s.lastDump)] }
       | _ => s1)
    | .fired k kd =>
      setReq s k (fun q => match q.outcome with
        | .none => { q with outcome := match kd with | .none => .ok [] | some _ => .failed }
        | _ => q)
    | .bootConnect j h p => { s with boots := s.boots ++ [(j, h, p)] }
    | .result op r =>
      (match (s.ops.filter (fun x => x.o == op && !x.done)).head? with
       | .none =>
         -- a metadata load: "unavailable" only after every known broker and every bootstrap host was tried
         (match r, get? op s.loadUn with
          | .fail .unavailable, some u =>
            if s.excused.contains op then s else
            (match (s.uns.filter (fun x => x.u == u)).head? with
             | .none => if cfg.bootHosts.isEmpty then s else fail s s!"op {op}: unavailable although no server was tried"
             | some x =>
               if cfg.bootHosts.all (fun hp => x.boots.contains hp) then s
               else fail s s!"op {op}: unavailable before every bootstrap host was tried")
          | _, _ => s)
       | some x =>
         let s1 := { s with ops := s.ops.map (fun y => if y.o == op then { y with done := true } else y) }
         match r with
         | .responses tags => { s1 with pendingChecks := s1.pendingChecks ++ [(op, tags, [])] }
         | .failedPayloads tags fl => { s1 with pendingChecks := s1.pendingChecks ++ [(op, tags, fl.map (·.1))] }
         | .fail kd =>
           -- routing failures: nothing may have been sent for this operation
           if (kd == .partitionUnavailable || kd == .leaderUnavailable) && s1.reqs.any (fun q => q.op == some op)
           then fail s1 s!"op {op}: requests were sent although routing failed"
           else (match kd with
             | .brokerError _ =>
               -- raised by `_handle_responses` after every request was issued and answered (a coordinator look-up
               -- failing with a broker error code happens before anything is issued)
               if s1.reqs.any (fun q => q.op == some op) then { s1 with pendingRouting := s1.pendingRouting ++ [op] } else s1
             | _ => if s1.reqs.any (fun q => q.op == some op) then { s1 with pendingPartial := s1.pendingPartial ++ [op] } else s1)
         | _ => s1)
    | _ => s
  | .dump c =>
    let s : MSt := { s with reqs := s.reqs.map (fun (q : MReq) => if q.cands.length == 1 then { q with cands := q.cands ++ [c] } else q) }
    let s0 := { s with lastDump := c, ops := s.ops.map (fun (x : MOp) =>
      if x.done && !s.pendingChecks.any (fun (p : Nat × List Int × List Nat) => p.1 == x.o) && !s.pendingRouting.contains x.o && !s.pendingPartial.contains x.o then x
      else { x with hist := x.hist ++ [c] }) }
    let newFails := s0.pendingChecks.flatMap (fun (p : Nat × List Int × List Nat) =>
      match (s0.ops.filter (fun (x : MOp) => x.o == p.1)).head? with
      | some x => checkSend s0 x p.2.1 p.2.2
      | Option.none => [])
    let newStale := s0.pendingChecks.flatMap (fun (p : Nat × List Int × List Nat) =>
      match (s0.ops.filter (fun (x : MOp) => x.o == p.1)).head? with
      | some x => if (checkSend s0 x p.2.1 p.2.2).isEmpty then checkStale s0 x else []
      | Option.none => [])
    let newRouting := s0.pendingRouting.flatMap (fun (o : Nat) =>
      match (s0.ops.filter (fun (x : MOp) => x.o == o)).head? with
      | some x => checkRouting s0 x
      | Option.none => [])
    let staleRouting := s0.pendingRouting.flatMap (fun (o : Nat) =>
      match (s0.ops.filter (fun (x : MOp) => x.o == o)).head? with
      | some x => if (checkRouting s0 x).isEmpty then checkStale s0 x else []
      | Option.none => [])
    let newPartial := s0.pendingPartial.flatMap (fun (o : Nat) =>
      match (s0.ops.filter (fun (x : MOp) => x.o == o)).head? with
      | some x => checkRoutingPartial s0 x
      | Option.none => [])
    let stalePartial := s0.pendingPartial.flatMap (fun (o : Nat) =>
      match (s0.ops.filter (fun (x : MOp) => x.o == o)).head? with
      | some x => if (checkRoutingPartial s0 x).isEmpty then checkStale s0 x else []
      | Option.none => [])
    -- a coordinator request goes to the broker the cache names as the group's coordinator (before the step,
    -- or after it: the step itself may have looked the coordinator up)
    let newCoord := s0.pendingCoord.flatMap (fun (p : Nat × Nat × String × Cache) =>
      match nodeOf s0 p.2.1 with
      | some node =>
        if responsible p.2.2.2 ("", 0) (some p.2.2.1) == some node || responsible c ("", 0) (some p.2.2.1) == some node then []
        else [s!"request {p.1}: coordinator request for group {p.2.2.1} sent to a broker that is not its coordinator"]
      | Option.none => [s!"request {p.1}: coordinator request on an unknown broker client"])
    -- "the broker that the current metadata names": a live broker client sits at the address the metadata gives for
    -- its node (`_update_brokers` tells every existing broker client: what it has queued goes to the new address)
    let newAddr := if c.clients.all (fun (cl : Int × Broker) => get? cl.1 c.brokers == some cl.2) then []
      else ["a live broker client is not at the address the current metadata names for its broker"]
    let s1 := { s0 with pendingChecks := [], pendingRouting := [], pendingPartial := [], pendingCoord := [],
                        fails := s0.fails ++ newFails ++ newRouting ++ newPartial ++ newCoord ++ newAddr,
                        staleFails := s0.staleFails ++ newStale ++ staleRouting ++ stalePartial }
    { s1 with uns := s1.uns.map (fun (x : MUn) => match x.known with | Option.none => { x with known := some (c.brokers.map (·.1)) } | some _ => x) }
  | .attr k o idxs => setReq s k (fun q => { q with op := some o, idxs := idxs })
  | .uop u o => { s with loadUn := s.loadUn ++ [(o, u)] }
  | .uattr k u =>
    let (s1, x) := getUn s u
    (match (s1.reqs.filter (fun q => q.k == k)).head? with
     | .none => s1
     | some q => match nodeOf s1 q.b with
       | .none => s1
       | some node =>
         let x' := { x with tried := x.tried ++ [node] }
         let s2 := setUn s1 x'
         let s3 := if x.tried.contains node then fail s2 s!"unaware {u}: broker {node} tried twice" else s2
         let s4 := if !x.boots.isEmpty then fail s3 s!"unaware {u}: broker tried after falling back to bootstrap" else s3
         if x'.connAtStart.contains node && x.tried.any (fun t => !x'.connAtStart.contains t)
         then fail s4 s!"unaware {u}: an unconnected broker was tried before the connected broker {node}" else s4)
  | .battr j u =>
    let (s1, x) := getUn s u
    (match (s1.boots.filter (fun e => e.1 == j)).head? with
     | .none => s1
     | some e =>
       let hp := e.2
       let x' := { x with boots := x.boots ++ [hp] }
       let s2 := setUn s1 x'
       let s3 := if x.boots.contains hp || !cfg.bootHosts.contains hp then fail s2 s!"unaware {u}: bootstrap host tried twice or unknown" else s2
       -- falling back to bootstrap only after every known broker was tried
       let known := match x.known with | some known => known | .none => x.known0
       if known.all (fun n => x.tried.contains n) then s3 else fail s3 s!"unaware {u}: bootstrap before every known broker was tried")
  | _ => s

def run (cfg : Cfg) (tr : List TItem) : MSt := tr.foldl (stepItem cfg) {}

def ok (cfg : Cfg) (tr : List TItem) : Bool := (run cfg tr).fails.isEmpty

/-- `ok` plus routing by the metadata current at SEND time (known finding: stale leader within one call) -/
def okFull (cfg : Cfg) (tr : List TItem) : Bool := (run cfg tr).fails.isEmpty && (run cfg tr).staleFails.isEmpty

end Afkak.Monitor.C07
