import Afkak.Monitor.C04
/-!
# C04, the other direction: arguments the encoder MUST accept

`must… = true` says: the caller's values are ones the grammar can carry (every integer fits its field,
every string its length prefix), the names afkak encodes with `.encode("ascii")` (topic names, whose
legal characters are `[a-zA-Z0-9._-]`, and assignor protocol names; group and member ids are UTF-8) are ASCII, and no
(topic, partition) is named twice.  The theorems `C04_*_total` / `C04_must_encode` prove that the
model of the encoder then writes a frame (and the monitor's verdict on it is `ok`); the harness
evaluates these predicates whenever the REAL encoder refused an argument list — a refusal of a list
that must be accepted is a violation with that list as the failing input.
-/
namespace Afkak.Monitor.C04
open Afkak Afkak.Wire Afkak.Codec

set_option synthInstance.maxSize 100000

/-- topics of the regrouped payloads are ASCII -/
def asciiTopics {β : Type} (l : List (Bytes × β)) : Bool := l.all (fun e => isAscii e.1)

def mustProduce (crc : Bytes → Nat) (nowMs : Int) (clientId : Bytes) (corr : Int) (payloads : List ProduceReq)
    (acks timeout apiVersion : Int) : Bool :=
  match implementedVersion apiVersion,
        keyed ProduceReq.topic ProduceReq.partition (fun p => specEntries nowMs p.messages) payloads with
  | some v, some l =>
    !(decide (v < 2) && l.any (fun e => e.2.2.any (fun m => m.2.magic ≠ 0)))
    && decide ((payloads.map (fun p => (p.topic, p.partition))).Nodup)
    && (Spec.request (Spec.produceRequest crc)).valid (hdr 0 v corr clientId, acks, timeout, regroup l)
    && asciiTopics (regroup l)
  | _, _ => false

def mustFetch (clientId : Bytes) (corr : Int) (payloads : List FetchReq) (maxWait minBytes apiVersion : Int) : Bool :=
  match implementedVersion apiVersion,
        keyed FetchReq.topic FetchReq.partition (fun p => some (p.offset, p.maxBytes)) payloads with
  | some v, some l =>
    decide ((payloads.map (fun p => (p.topic, p.partition))).Nodup)
    && (Spec.request Spec.fetchRequest).valid (hdr 1 v corr clientId, -1, maxWait, minBytes, regroup l)
    && asciiTopics (regroup l)
  | _, _ => false

def mustListOffsets (clientId : Bytes) (corr : Int) (payloads : List OffsetReq) : Bool :=
  match keyed OffsetReq.topic OffsetReq.partition (fun p => some (p.time, p.maxOffsets)) payloads with
  | some l =>
    decide ((payloads.map (fun p => (p.topic, p.partition))).Nodup)
    && (Spec.request Spec.listOffsetsRequest).valid (hdr 2 0 corr clientId, -1, regroup l)
    && asciiTopics (regroup l)
  | none => false

def mustOffsetFetch (clientId : Bytes) (corr : Int) (group : Option Bytes) (payloads : List OffsetFetchReq) : Bool :=
  match group, keyed OffsetFetchReq.topic OffsetFetchReq.partition (fun _ => some ()) payloads with
  | some g, some l =>
    decide ((payloads.map (fun p => (p.topic, p.partition))).Nodup)
    && (Spec.request Spec.offsetFetchRequest).valid
        (hdr 9 1 corr clientId, g, (regroup l).map (fun e => (e.1, e.2.map (·.1))))
    && asciiTopics (regroup l)
  | _, _ => false

def mustOffsetCommit (clientId : Bytes) (corr : Int) (group : Option Bytes) (generationId : Int)
    (consumerId : Option Bytes) (payloads : List OffsetCommitReq) : Bool :=
  match group, consumerId,
        keyed OffsetCommitReq.topic OffsetCommitReq.partition (fun p => some (p.offset, p.timestamp, p.metadata)) payloads with
  | some g, some c, some l =>
    decide ((payloads.map (fun p => (p.topic, p.partition))).Nodup)
    && (Spec.request Spec.offsetCommitRequest).valid (hdr 8 1 corr clientId, g, generationId, c, regroup l)
    && asciiTopics (regroup l)
  | _, _, _ => false

def mustMetadata (clientId : Bytes) (corr : Int) (topics : List (Option Bytes)) : Bool :=
  match topics.mapM id with
  | some ts => (Spec.request Spec.metadataRequest).valid (hdr 3 0 corr clientId, ts) && ts.all isAscii
  | none => false

def mustFindCoordinator (clientId : Bytes) (corr : Int) (group : Option Bytes) : Bool :=
  match group with
  | some g => (Spec.request Spec.findCoordinatorRequest).valid (hdr 10 0 corr clientId, g)
  | none => false

def mustJoinGroup (clientId : Bytes) (corr : Int) (p : JoinGroupReq) : Bool :=
  match p.group, p.memberId, p.protocolType, pairs p.groupProtocols with
  | some g, some m, some t, some ps =>
    (Spec.request Spec.joinGroupRequest).valid (hdr 11 0 corr clientId, g, p.sessionTimeout, m, t, ps)
    && ps.all (fun e => isAscii e.1)
  | _, _, _, _ => false

def mustSyncGroup (clientId : Bytes) (corr : Int) (group : Option Bytes) (generationId : Int)
    (memberId : Option Bytes) (assignment : List (Option Bytes × Option Bytes)) : Bool :=
  match group, memberId, pairs assignment with
  | some g, some m, some a => (Spec.request Spec.syncGroupRequest).valid (hdr 14 0 corr clientId, g, generationId, m, a)
  | _, _, _ => false

def mustHeartbeat (clientId : Bytes) (corr : Int) (group : Option Bytes) (generationId : Int)
    (memberId : Option Bytes) : Bool :=
  match group, memberId with
  | some g, some m => (Spec.request Spec.heartbeatRequest).valid (hdr 12 0 corr clientId, g, generationId, m)
  | _, _ => false

def mustLeaveGroup (clientId : Bytes) (corr : Int) (group memberId : Option Bytes) : Bool :=
  match group, memberId with
  | some g, some m => (Spec.request Spec.leaveGroupRequest).valid (hdr 13 0 corr clientId, g, m)
  | _, _ => false

def mustApiVersions (clientId : Bytes) (corr : Int) (apiKey apiVersion : Int) : Bool :=
  decide (apiKey = 18 ∧ apiVersion = 0) && (Spec.request Spec.apiVersionsRequest).valid (hdr 18 0 corr clientId, ())

def mustSubscription (version : Int) (topics : List (Option Bytes)) (userData : Option Bytes) : Bool :=
  match topics.mapM id with
  | some ts => (whole Spec.subscription).valid (version, ts, userData)
  | none => false

def mustAssignment (version : Int) (asg : List (Option Bytes × List Int)) (userData : Option Bytes) : Bool :=
  match asg.mapM (fun (p : Option Bytes × List Int) => p.1.map (fun t => (t, p.2))) with
  | some a => (whole Spec.assignment).valid (version, a, userData) && a.all (fun e => isAscii e.1)
  | none => false

end Afkak.Monitor.C04
