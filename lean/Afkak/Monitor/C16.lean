import Afkak.Group
/-!
# Monitor for C16 — generation fencing

Decidable predicates over an observed trace `List MStep` (event, observations of the step, inspected
snapshot after the step).  The driver evaluates them on traces of the REAL `ConsumerGroup`; the
theorems in `AfkakProps/C16.lean` prove them of every model trace.
-/
namespace Afkak.Monitor.C16
open Afkak.Group Afkak.Consts

def isRunning (c : Con) : Bool := c.phase == .running
def isLive (c : Con) : Bool := c.phase != .stopped     -- running or draining

def isJoinOb : Ob → Bool | .join _ => true | _ => false
def isSyncOb : Ob → Bool | .sync .. => true | _ => false
def isHeartbeatOb : Ob → Bool | .heartbeat .. => true | _ => false
def isLookupOb : Ob → Bool | .coordLookup => true | _ => false
def isStartOb : Ob → Bool | .consumerStart .. => true | _ => false
/-- a group request other than the leave -/
def isGroupReqOb (o : Ob) : Bool := isJoinOb o || isSyncOb o || isHeartbeatOb o || isLookupOb o

def flatten (asg : List (Nat × List Int)) : List (Nat × Int) :=
  asg.flatMap fun tp => tp.2.map fun p => (tp.1, p)

/-- `fenced`: in every snapshot a running consumer carries the member's current generation and
    member id, and its partition is in the assignment of the latest sync reply. -/
def fencedStep (asg : List (Nat × Int)) (m : MStep) : Bool :=
  m.snap.cons.all fun c => !isRunning c ||
    (c.gen == m.snap.gen && c.member == m.snap.member && asg.contains (c.topic, c.part))

/-- the assignment in force after a step: that of the sync reply, if the member processed one -/
def nextAsg (asg : List (Nat × Int)) (m : MStep) : List (Nat × Int) :=
  match m.ev with
  | .syncDone (.ok a) => if m.obs == [.badOp] then asg else flatten a
  | _ => asg

def fencedFrom (asg : List (Nat × Int)) : List MStep → Bool
  | [] => true
  | m :: ms => fencedStep (nextAsg asg m) m && fencedFrom (nextAsg asg m) ms

def fenced (tr : List MStep) : Bool := fencedFrom [] tr

/-- consumers are started only by a successful sync reply, from COMMITTED, with the generation and
    member id the member has after that step, one per assigned partition. -/
def startsOk (m : MStep) : Bool :=
  let starts := m.obs.filter isStartOb
  match m.ev with
  | .syncDone (.ok a) =>
    -- no consumer is started only when the reply was not processed or the member is stopping
    (starts.isEmpty && (m.obs == [.badOp] || m.snap.stopping)) ||
      starts.map (fun | .consumerStart _ t p _ _ _ => (t, p) | _ => (0, 0)) == flatten a &&
      starts.all fun
        | .consumerStart _ _ _ g mem off => g == m.snap.gen && mem == m.snap.member && off == groupConsumerStartOffset
        | _ => true
  | _ => starts.isEmpty

def startsCommitted (tr : List MStep) : Bool := tr.all startsOk

/-- the member adopts the member id and generation of every successful join reply it processes
    (so what it hands to its consumers is not stale) -/
def joinAdoptedStep (m : MStep) : Bool :=
  match m.ev with
  | .joinDone (.ok mem g _ _) => m.obs == [.badOp] || (m.snap.member == mem && m.snap.gen == some g)
  | _ => true
def joinAdopted (tr : List MStep) : Bool := tr.all joinAdoptedStep

/-- a join request is observed only when no consumer is running or draining -/
def joinAfterDrainStep (m : MStep) : Bool := !m.obs.any isJoinOb || m.snap.cons.all (fun c => !isLive c)
def joinAfterDrain (tr : List MStep) : Bool := tr.all joinAfterDrainStep

/-- the weaker fact that holds even while `stop()` is draining: never a join with a RUNNING consumer -/
def joinNoRunningStep (m : MStep) : Bool := !m.obs.any isJoinOb || m.snap.cons.all (fun c => !isRunning c)
def joinNoRunning (tr : List MStep) : Bool := tr.all joinNoRunningStep

def isStopEv : Ev → Bool | .stop => true | _ => false

/-- eviction errors: the coordinator rejected generation or member, or the request timed out -/
def isEviction : GErr → Bool
  | .illegalGeneration | .unknownMemberId | .invalidGroupId | .requestTimedOut => true
  | _ => false

def errorOf : Ev → Option GErr
  | .joinDone (.err e) | .syncDone (.err e) | .hbDone (.err e) | .consumerErr _ e => some e
  | _ => none

/-- an eviction error that the member processed: every consumer is stopped in that step (none is
    running afterwards) and the step issues no join or sync. -/
def evictionStep (m : MStep) : Bool :=
  match errorOf m.ev with
  | some e => !isEviction e || m.obs == [.badOp] ||
      (m.snap.cons.all (fun c => !isRunning c) && !m.obs.any (fun o => isJoinOb o || isSyncOb o))
  | none => true
def evictionStopsFirst (tr : List MStep) : Bool := tr.all evictionStep

/-- at most one join/sync exchange in flight: `n` = outstanding join/sync requests -/
def exchangeObs (n : Nat) : List Ob → Option Nat
  | [] => some n
  | o :: os =>
    if isJoinOb o || isSyncOb o then (if n = 0 then exchangeObs 1 os else none)
    else match o with
      | .cancelReq .joinR | .cancelReq .syncR => exchangeObs (n - 1) os
      | _ => exchangeObs n os

def oneJoinFrom (n : Nat) : List MStep → Bool
  | [] => true
  | m :: ms =>
    let n0 := match m.ev with
      | .joinDone _ | .syncDone _ => if m.obs == [.badOp] then n else n - 1
      | _ => n
    match exchangeObs n0 m.obs with
    | some n' => oneJoinFrom n' ms
    | none => false

def oneJoin (tr : List MStep) : Bool := oneJoinFrom 0 tr

/-- heartbeats only while a stable member: `stable` = a sync reply succeeded and since then no
    heartbeat failed, no rejoin was scheduled, no coordinator look-up / join / leave was issued and
    the member is not stopping. -/
def destabilises (o : Ob) : Bool :=
  match o with
  | .setTimer _ .rejoin _ | .coordLookup | .join _ | .leave _ => true
  | _ => false

def hbObs (stable : Bool) : List Ob → Option Bool
  | [] => some stable
  | o :: os =>
    if isHeartbeatOb o then (if stable then hbObs stable os else none)
    else hbObs (stable && !destabilises o) os

def heartbeatFrom (stable : Bool) : List MStep → Bool
  | [] => true
  | m :: ms =>
    let st0 := match m.ev with
      | .hbDone (.err _) => if m.obs == [.badOp] then stable else false
      | _ => stable
    match hbObs st0 m.obs with
    | none => false
    | some st1 =>
      let st2 := match m.ev with
        | .syncDone (.ok _) => if m.obs == [.badOp] then st1 else true
        | _ => st1
      heartbeatFrom (st2 && !m.snap.stopping) ms

def heartbeatOnlyStable (tr : List MStep) : Bool := heartbeatFrom false tr

/-- a step that leaves the member stopping (`Coordinator.stop` has begun or finished) issues no
    group request other than the leave -/
def afterStopStep (m : MStep) : Bool := !m.snap.stopping || !m.obs.any isGroupReqOb
def afterStopOnlyLeave (tr : List MStep) : Bool := tr.all afterStopStep

/-- the STRICT reading of "after stop": once `stop()` has been CALLED on a started, not stopping
    member (`ConsumerGroup.stop` then drains the consumers before `Coordinator.stop` sets
    `_stopping`), no JoinGroup request is observed any more.  (Heartbeats DO continue during the
    drain — the consumers' final commits need a live membership — and a pending rejoin may still
    look the coordinator up; see `afterStopOnlyLeave` for the reading "after `Coordinator.stop` has
    begun", under which nothing but the leave goes out.)  `pre` = snapshot before the step. -/
def noJoinAfterStopCalledFrom (pre : Snap) (called : Bool) : List MStep → Bool
  | [] => true
  | m :: ms =>
    let called' := called || (isStopEv m.ev && pre.started && !pre.stopping)
    (!called' || !m.obs.any isJoinOb) && noJoinAfterStopCalledFrom m.snap called' ms

def noJoinAfterStopCalled (tr : List MStep) : Bool := noJoinAfterStopCalledFrom (snap init) false tr

/-- consumers are started with exactly the member id and generation of the last processed successful
    join reply (what the coordinator knows the member by): `ids` = that pair.  A late reply of an older
    request that rewrites the ids between the join and the sync reply would show here. -/
def startsWithJoinIdsFrom (ids : Option (Nat × Int)) : List MStep → Bool
  | [] => true
  | m :: ms =>
    let ids' := match m.ev with
      | .joinDone (.ok mem g _ _) => if m.obs == [.badOp] then ids else some (mem, g)
      | _ => ids
    (m.obs.all fun
      | .consumerStart _ _ _ g mem _ => ids' == some (mem, g.getD 0) && g.isSome
      | _ => true) && startsWithJoinIdsFrom ids' ms

def startsWithJoinIds (tr : List MStep) : Bool := startsWithJoinIdsFrom none tr

/-- the STRICT reading of "after stop no group request other than the leave": after `stop()` has been
    CALLED.  False of the code (known finding `group-requests-during-stop-drain`): while
    `ConsumerGroup.stop` drains the consumers heartbeats continue and a pending rejoin may look the
    coordinator up. -/
def strictAfterStopFrom (pre : Snap) (called : Bool) : List MStep → Bool
  | [] => true
  | m :: ms =>
    let called' := called || (isStopEv m.ev && pre.started && !pre.stopping)
    (!called' || !m.obs.any isGroupReqOb) && strictAfterStopFrom m.snap called' ms

def strictAfterStop (tr : List MStep) : Bool := strictAfterStopFrom (snap init) false tr

/-- every heartbeat is sent by a member that is neither stopping nor wanting a rejoin, and quotes
    the member's current generation and member id (`pre` = snapshot before the step) -/
def heartbeatIdsFrom (pre : Snap) : List MStep → Bool
  | [] => true
  | m :: ms =>
    (m.obs.all fun o => !isHeartbeatOb o || (!pre.rejoinNeeded && !pre.stopping && o == .heartbeat pre.gen pre.member)) &&
      heartbeatIdsFrom m.snap ms

def heartbeatIds (tr : List MStep) : Bool := heartbeatIdsFrom (snap init) tr

/-- within a step the JoinGroup request is the LAST thing that happens: every consumer of the
    previous generation was shut down / stopped before it, not after -/
def joinLastStep (m : MStep) : Bool :=
  match m.obs.reverse with
  | [] => true
  | _ :: earlier => !earlier.any isJoinOb

def joinLast (tr : List MStep) : Bool := tr.all joinLastStep

/-- "every consumer of the previous generation has been shut down — committing its progress unless
    the coordinator rejects the commit": a consumer is HARD-stopped (`consumerStop`: no final commit)
    only (a) in a step that processes an eviction error (its commits would be rejected) or a fatal
    (non-Kafka) error, at any site; (b) when the shutdown of a faulty consumer (one whose `shutdown()`
    the environment made raise or fail: `faulty`) is attempted in this step, or a shutdown Deferred
    fails (`consumerDown _ false`) — the code's documented fallback kills the rest of the batch.
    Everything else must go through `consumerShutdown` and the consumer's own completion. -/
def anyErrorOf : Ev → Option GErr
  | .coordDone (.err e) | .metaDone (.err e) | .partsDone (.err e)
  | .joinDone (.err e) | .syncDone (.err e) | .hbDone (.err e) | .consumerErr _ e => some e
  | _ => none

def isFatalErr : GErr → Bool
  | .cancelled | .nonKafka => true
  | _ => false

def gracefulStep (faulty : List Nat) (m : MStep) : Bool :=
  !m.obs.any (fun | .consumerStop _ => true | _ => false) ||
    (match anyErrorOf m.ev with
     | some e => isEviction e || isFatalErr e
     | none => false) ||
    (match m.ev with | .consumerDown _ false => true | _ => false) ||
    m.obs.any (fun | .consumerShutdown c => faulty.contains c | _ => false)

def gracefulFrom (faulty : List Nat) : List MStep → Bool
  | [] => true
  | m :: ms =>
    let faulty' := match m.ev with
      | .consumerQuirk c q => if m.obs != [.badOp] && q != .none then c :: faulty else faulty
      | _ => faulty
    gracefulStep faulty' m && gracefulFrom faulty' ms

def gracefulDrain (tr : List MStep) : Bool := gracefulFrom [] tr

/-- every C16 check, by name -/
def checks : List (String × (List MStep → Bool)) :=
  [("fenced", fenced), ("startsCommitted", startsCommitted), ("joinAdopted", joinAdopted), ("joinAfterDrain", joinAfterDrain),
   ("joinNoRunning", joinNoRunning), ("evictionStopsFirst", evictionStopsFirst), ("oneJoin", oneJoin),
   ("heartbeatOnlyStable", heartbeatOnlyStable), ("afterStopOnlyLeave", afterStopOnlyLeave),
   ("noJoinAfterStopCalled", noJoinAfterStopCalled), ("startsWithJoinIds", startsWithJoinIds),
   ("strictAfterStop", strictAfterStop), ("heartbeatIds", heartbeatIds), ("joinLast", joinLast),
   ("gracefulDrain", gracefulDrain)]

def failing (tr : List MStep) : List String := (checks.filter fun c => !c.2 tr).map (·.1)

end Afkak.Monitor.C16
