import Afkak.Partitioner
/-!
# Monitor for C18 — evaluated by the driver on IMPLEMENTATION outputs.
The same predicates are proved of the model in `AfkakProps/C18.lean`.
-/
namespace Afkak.Monitor.C18
open Afkak.Partitioner Afkak.Murmur

/-- What C18 demands of one hashed selection: the result is the element of the list at the index
    the Java client computes (hence in range, a function of key bytes and list only). -/
def hashOk (key : List UInt8) (ps : List Int) (result : Int) : Bool :=
  ps.length != 0 && ps[javaIndex key ps.length]? == some result

/-- The same for a key in the form the caller passed (text or bytes): the choice is the Java
    client's choice for the key's UTF-8 bytes, computed by the model's own encoder. -/
def hashKeyOk (k : Key) (ps : List Int) (result : Int) : Bool :=
  match keyBytes k with
  | none => false
  | some b => hashOk b ps result

/-- What C18 demands of a window of `k·n` consecutive round-robin selections made with an unchanged
    ascending list `ps` of `n` partitions: each partition is chosen exactly `k` times (`k·count`
    if the caller's list repeats an id). -/
def windowFair (ps : List Int) (picks : List Int) : Bool :=
  ps.length != 0 && picks.length % ps.length == 0 &&
    (ps ++ picks).all (fun p => picks.count p == (picks.length / ps.length) * ps.count p)

/-- Every selection is a member of the list supplied with it. -/
def member (ps : List Int) (x : Int) : Bool := ps.contains x

def ascending : List Int → Bool
  | a :: b :: rest => decide (a ≤ b) && ascending (b :: rest)
  | _ => true

end Afkak.Monitor.C18
