import Afkak.Producer
/-!
# Traces of the Producer, as seen by the monitors C01 / C09 / C19

A trace is a list of steps: the input event, the observations it caused, and a snapshot of the
producer's bookkeeping after it.  The model's trace is `traceOf`; the implementation's trace is
recorded by the harness (the snapshot is read from the real object's fields after every event).
The monitors are decidable predicates over such traces; the theorems prove them of `traceOf cfg evs`
for every event list, and the driver evaluates the same definitions on implementation traces.
-/
namespace Afkak.Monitor.ProducerTrace
open Afkak.Producer

/-- the bookkeeping fields the properties talk about (`_batch_reqs`, `_waitingMsgCount`,
    `_waitingByteCount`, `_batch_send_d is None`, `_req_attempts`, `_retry_interval`, `_outstanding`,
    LoopingCall running) -/
structure Snap where
  queue : List Sid
  msgCount : Int
  byteCount : Int
  idle : Bool
  attempts : Int
  interval : Rat
  outstanding : List Sid
  looper : Bool
  deriving DecidableEq, Repr

structure Step where
  ev : Ev
  obs : List Ob
  post : Snap

def snapOf (st : St) : Snap :=
  { queue := st.queue.map (·.sid), msgCount := st.msgCount, byteCount := st.byteCount,
    idle := st.phase == .idle, attempts := st.attempts, interval := st.interval,
    outstanding := st.outstanding, looper := st.looper }

/-- the model's trace from state `st` -/
def traceFrom (cfg : Cfg) : St → List Ev → List Step
  | _, [] => []
  | st, e :: es =>
    let r := step cfg st e
    { ev := e, obs := r.2, post := snapOf r.1 } :: traceFrom cfg r.1 es

def traceOf (cfg : Cfg) (evs : List Ev) : List Step := traceFrom cfg (St.init cfg) evs

/-- all observations of a trace, in order -/
def allObs (tr : List Step) : List Ob := tr.flatMap (·.obs)



/-! ## What a monitor remembers of the trace so far

`Track` is a small summary of the steps seen so far; `track` updates it by one step.  Every monitor
is a check `Track → Step → Bool` of one step against the summary of the steps before it
(`checkTrace`).  The summary is deliberately NOT the model: it only records what was observed
(sends made, Deferreds fired, the last produce request and the result the client gave for it,
which timers were set while a result was being handled, …). -/

def firedSids (obs : List Ob) : List Sid :=
  obs.filterMap (fun o => match o with | .fire s _ => some s | _ => none)

def payloadSids (ps : List Payload) : List Sid := ps.flatMap (·.sids)

/-- the result the client gave in this step for the produce request in flight, if any -/
def completionOf : Ev → Option ProdRes
  | .produceDone _ r => some r
  | .stop _ (some r) _ => some r
  | _ => none

/-- responses carried by a result -/
def respsOf : ProdRes → List Resp
  | .responses rs => rs
  | .failed rs _ => rs
  | _ => []

/-- what a result reports as failed (to be retried), in the order the retry lists them;
    `all`: the payloads still unacknowledged (a total failure names none) -/
def failedTps (all : List TP) : ProdRes → List TP
  | .responses rs => (rs.filter (·.error ≠ 0)).map (·.tp)
  | .failed rs fs => fs.map (·.tp) ++ (rs.filter (·.error ≠ 0)).map (·.tp)
  | .err _ => all
  | .none => []

/-- what the client can answer to a request without acknowledgements: nothing, failed payloads
    (whatever is not listed was handed to its connection), or a failure -/
def isAcks0Shape : ProdRes → Bool
  | .none => true
  | .responses [] => true
  | .failed [] (_ :: _) => true
  | .err _ => true
  | _ => false

/-- does the result account for every payload of the request (C07's accounting contract)? -/
def accounts (ps : List Payload) : ProdRes → Bool
  | .responses [] => true
  | .responses rs => ps.all (fun p => rs.any (·.tp = p.tp))
  | .failed rs fs => ps.all (fun p => rs.any (·.tp = p.tp) || fs.any (·.tp = p.tp))
  | _ => true

structure Track where
  sends : List Req := []            -- valid sends so far
  nextSid : Sid := 0
  fired : List Sid := []
  cur : Option (Rid × List Payload) := none   -- the last produce request observed
  curRes : Option ProdRes := none              -- the result the client gave for it
  batchTps : List TP := []          -- payload keys of the first attempt of the current batch
  acked : List TP := []             -- … of which acknowledged (error 0) so far
  chain : Nat := 0                  -- produce requests of the current batch
  retryTids : List Tid := []        -- timers set while a produce result was being handled
  produced : List Sid := []         -- sends that have been in a produce request
  ex1 : List Sid := []              -- sends of the batches some result of which did NOT account for its request (C07)
  ex0 : List Sid := []              -- … did not have the shape of an answer to a request without acknowledgements
  stopped : Bool := false
  timersSinceReset : Nat := 0
  lastP : List (TP × List Sid) := []   -- last payload seen per topic/partition
  cancelledQueued : List Sid := []     -- sends cancelled while still queued
  lateCancel : Bool := false           -- some send was cancelled after its batch was dispatched
  deriving Repr

def isCompletion (e : Ev) : Bool := (completionOf e).isSome

/-- the sends of the batch in flight: of the last payloads seen for the batch's topic/partitions -/
def batchSids (t : Track) : List Sid := (t.lastP.filter (fun e => t.batchTps.contains e.1)).flatMap (·.2)

/-- is the produce observed in this step a RETRY (it is sent by a timer that was set while the
    result of the previous attempt was being handled)? -/
def isRetryStep (t : Track) (e : Ev) : Bool :=
  match e with
  | .timer tid => tid ∈ t.retryTids
  | _ => false

def trackOb (e : Ev) (retry : Bool) (t : Track) : Ob → Track
  | .fire s _ => { t with fired := s :: t.fired }
  | .produce rid ps =>
    { t with cur := some (rid, ps), curRes := none,
             batchTps := if retry then t.batchTps else ps.map (·.tp),
             acked := if retry then t.acked else [],
             chain := if retry then t.chain + 1 else 1,
             produced := payloadSids ps ++ t.produced,
             lastP := ps.map (fun p => (p.tp, p.sids)) ++ t.lastP.filter (fun x => !ps.any (·.tp = x.1)) }
  | .setTimer tid _ =>
    { t with timersSinceReset := t.timersSinceReset + 1,
             retryTids := if isCompletion e then tid :: t.retryTids else t.retryTids }
  | _ => t

/-- did this step take the queue (a dispatch)?  The queue before the step plus the (valid: its id is
    the next one, and `stop()` has not begun - after that a send is refused, never queued) send made in it,
    minus the send cancelled in it, lost a member. -/
def dispatched (nextSid : Sid) (stopped : Bool) (pre : Snap) (s : Step) : Bool :=
  let q := match s.ev with
    | .send sid _ _ msgs =>
      if sid = nextSid ∧ msgs.isEmpty = false ∧ stopped = false then pre.queue ++ [sid] else pre.queue
    | .cancel sid => pre.queue.filter (· ≠ sid)
    | .stop .. => []      -- stop cancels whatever is queued
    | _ => pre.queue
  q.any (fun x => x ∉ s.post.queue)

/-- does a result name only payloads of the request `ps`, each at most once (the client contract C07)? -/
def validFor (ps : List Payload) (r : ProdRes) : Bool :=
  r.tps.all (· ∈ ps.map (·.tp)) && decide r.tps.Nodup

/-- Is the completion / stop carried by this event enabled, as far as the trace tells: a produce
    result must be for the request in flight and name only its payloads (otherwise the event is a no-op). -/
def effective (t : Track) : Ev → Bool
  | .produceDone k r =>
    match t.cur, t.curRes with
    | some (rid, ps), none => k == rid && validFor ps r
    | _, _ => false
  | .stop _ (some r) _ =>
    match t.cur, t.curRes with
    | some (_, ps), none => validFor ps r
    | _, _ => true
  | _ => true

/-- the part of `track` that looks at the event only -/
def trackEv (pre : Snap) (t : Track) (e : Ev) : Track :=
  let t0 : Track := match e with
    | .send sid topic key msgs =>
      if sid = t.nextSid then
        { t with nextSid := t.nextSid + 1,
                 sends := if msgs.isEmpty then t.sends else t.sends ++ [{ sid, topic, key, msgs }] }
      else t
    | .cancel sid =>
      if sid ∈ pre.queue then { t with cancelledQueued := sid :: t.cancelledQueued }
      else if sid ∈ pre.outstanding then { t with lateCancel := true } else t
    | .stop .. => if effective t e then { t with stopped := true } else t
    | _ => t
  match (if effective t e then completionOf e else none), t0.cur, t0.curRes with
  | some r, some (_, ps), none =>
    { t0 with curRes := some r,
              -- the client broke its contract for THIS batch: its sends (only they) are exempt from "fires"
              ex1 := if accounts ps r then t0.ex1 else batchSids t0 ++ t0.ex1,
              ex0 := if isAcks0Shape r then t0.ex0 else batchSids t0 ++ t0.ex0,
              acked := ((respsOf r).filter (·.error = 0)).map (·.tp) ++ t0.acked }
  | _, _, _ => t0

def track (pre : Snap) (t : Track) (s : Step) : Track :=
  let retry := isRetryStep t s.ev
  let t2 := s.obs.foldl (trackOb s.ev retry) (trackEv pre t s.ev)
  let t3 : Track := match s.ev with
    | .timer tid => { t2 with retryTids := t2.retryTids.filter (· ≠ tid) }
    | _ => t2
  if s.post.idle || dispatched t.nextSid t.stopped pre s then { t3 with timersSinceReset := 0 } else t3

/-- check every observation of a step against the summary as updated by the observations before it -/
def checkObs (chk : Track → Ob → Bool) (e : Ev) (retry : Bool) : Track → List Ob → Bool
  | _, [] => true
  | t, o :: rest => chk t o && checkObs chk e retry (trackOb e retry t o) rest

/-- the snapshot of a producer that has just been constructed -/
def Snap.init (cfg : Cfg) : Snap := snapOf (St.init cfg)

/-- evaluate a per-step check along a trace -/
def checkFrom (chk : Snap → Track → Step → Bool) : Snap → Track → List Step → Bool
  | _, _, [] => true
  | pre, t, s :: rest => chk pre t s && checkFrom chk s.post (track pre t s) rest

def checkTrace (cfg : Cfg) (chk : Snap → Track → Step → Bool) (tr : List Step) : Bool :=
  checkFrom chk (Snap.init cfg) {} tr

/-- sizes of a send, from the `send` events seen -/
def Track.msgsOf (t : Track) (sid : Sid) : List (Option Nat) :=
  (t.sends.filter (·.sid = sid)).flatMap (·.msgs)

end Afkak.Monitor.ProducerTrace
