import Afkak.Monitor.C17
/-!
# Monitor for C17, continued — the rejoin goes to the CURRENT coordinator

"Every retriable condition (… coordinator moved or unavailable, … timeout …) leads to a rejoin …
hence once faults cease the member rejoins within bounded time": a rejoin only gets the member back
into the group if it is addressed to the group's current coordinator.  At the client interface the
coordinator a member found stays cached until `reset_consumer_group_metadata(group)`; the next
`_get_coordinator_for_group` answers from that cache.  A broker that died without a word never
answers NotCoordinator, so the time-out itself must invalidate the cache.

(Kept in a file of its own so that adding it did not rebuild every proof that imports
`Afkak.Monitor.C17`; the driver evaluates `Afkak.Monitor.C17.failing ++ Afkak.Monitor.C17Coord.failing`.)
-/
namespace Afkak.Monitor.C17Coord
open Afkak.Group Afkak.Consts Afkak.Monitor.C17

/-- an error that casts doubt on the cached coordinator: the request to it timed out (the broker may
    have died silently), or it said that it is not (or not yet) the coordinator -/
def suspectsCoordinator : GErr → Bool
  | .requestTimedOut | .notCoordinator | .coordinatorNotAvailable => true
  | _ => false

/-- a started, not stopping member that processes such an error on a join / sync / heartbeat reply
    or from a consumer invalidates the client's cached coordinator in that step (`resetGroupMeta`
    observed), so that the rejoin's coordinator look-up asks the cluster.  (`pre` = snapshot before
    the step.) -/
def coordRefreshedStep (pre : Snap) (m : MStep) : Bool :=
  match errorOf m.ev with
  | some (.request, e) =>
    !suspectsCoordinator e || m.obs == [.badOp] || !(pre.started && !pre.stopping) || m.obs.contains .resetGroupMeta
  | _ => true

def coordRefreshedFrom (pre : Snap) : List MStep → Bool
  | [] => true
  | m :: ms => coordRefreshedStep pre m && coordRefreshedFrom m.snap ms

def coordinatorRefreshed (tr : List MStep) : Bool := coordRefreshedFrom initSnap tr

def checks : List (String × (List MStep → Bool)) := [("coordinatorRefreshed", coordinatorRefreshed)]

def failing (tr : List MStep) : List String := (checks.filter fun c => !c.2 tr).map (·.1)

end Afkak.Monitor.C17Coord
