import Afkak.Monitor.C09
import Afkak.Monitor.C01
/-!
# The partition logs the brokers end up with, as a function of a Producer trace (C09, first sentence, end to end)

An ABSTRACT BROKER LOG: every produce request observed in a trace is carried out by the brokers, payload by payload
(one payload per topic/partition).  A broker appends a payload to the partition's log

* when the client's answer to THAT request carries the error-0 response for the topic/partition (`acked`), and
* possibly also when no such response reached the client - the acknowledgement was LOST (request timed out, connection
  dropped, request cancelled, the request was never answered) or the broker appended locally and answered with an
  error code (e.g. a replication timeout).  Which of those payloads were appended is not observable from the
  Producer's side: it is an ORACLE `applied rid tp` the theorems quantify over.

Requests are carried out in the order they were made (one request in flight: `C09_one_batch`), so the log is the
concatenation, request after request, of the payloads appended for it.  `Entry.acked` records which kind of append
it was.  The theorems (`AfkakProps/C09.lean`: `C09_log_order`, `C09_composed_log_order`,
`C09_composed_duplicates_only_after_lost_ack`, `C09_composed_success_is_logged`) are about `brokerLog` of every
model trace and every oracle.  They are derived at trace level from the monitors `order`, `oneBatch`, `retryOnlyFailed`,
`payloads`, `successAcked` alone, so they hold of every implementation trace on which those monitors pass.  The
definitions are executable (the non-vacuity examples evaluate them); the driver does NOT evaluate `brokerLog` on
implementation traces and it is not compared with the simulated brokers' partition logs (audit round 2, C09-1: open).
LIMIT of the abstraction: requests are appended in the order they were made; the oracle chooses WHETHER an unacknowledged
payload was appended, not WHEN (a timed-out request applied by a broker after the retry is not expressible).
-/
namespace Afkak.Monitor.C09Log
open Afkak.Producer Afkak.Monitor.ProducerTrace

/-- one append to a partition's log: the payload of a produce request for that topic/partition -/
structure Entry where
  tp : TP
  /-- the sends whose messages, in order, are the payload (`C01_payload_integrity`) -/
  sids : List Sid
  msgs : List Msg
  /-- the client's answer to the request that carried the payload had the error-0 response for `tp` -/
  acked : Bool
  deriving DecidableEq, Repr

/-- does the answer acknowledge (error 0) the payload for `tp`?  (`none`: the request was never answered) -/
def acks (r : Option ProdRes) (tp : TP) : Bool :=
  match r with
  | some r => (respsOf r).any (fun x => x.tp == tp && x.error == 0)
  | none => false

/-- what the brokers appended for request `rid` carrying `ps`, answered with `ans`: every acknowledged payload, and
    every payload the oracle says was appended although no acknowledgement reached the client -/
def entries (applied : Rid → TP → Bool) (rid : Rid) (ps : List Payload) (ans : Option ProdRes) : List Entry :=
  (ps.filter (fun p => acks ans p.tp || applied rid p.tp)).map (fun p => ⟨p.tp, p.sids, p.msgs, acks ans p.tp⟩)

/-- the answer of the client this event delivers for the request in flight, if any (the condition under which the
    monitors' summary records it: `trackEv`) -/
def answerOf (t : Track) (e : Ev) : Option ProdRes :=
  match (if effective t e then completionOf e else none), t.cur, t.curRes with
  | some r, some _, none => some r
  | _, _, _ => none

/-- the event part of a step: the request in flight is answered -/
def logEv (applied : Rid → TP → Bool) (t : Track) (e : Ev) (L : List Entry) : List Entry :=
  match answerOf t e, t.cur with
  | some r, some (rid, ps) => L ++ entries applied rid ps (some r)
  | _, _ => L

/-- a request that was never answered: whatever of it the brokers appended, the client did not learn -/
def flush (applied : Rid → TP → Bool) (t : Track) (L : List Entry) : List Entry :=
  match t.cur, t.curRes with
  | some (rid, ps), none => L ++ entries applied rid ps none
  | _, _ => L

/-- one observation: a new produce request closes the previous one -/
def logOb (applied : Rid → TP → Bool) (t : Track) (L : List Entry) : Ob → List Entry
  | .produce _ _ => flush applied t L
  | _ => L

/-- the observations of a step, in order -/
def logObs (applied : Rid → TP → Bool) (e : Ev) (retry : Bool) : Track → List Entry → List Ob → List Entry
  | _, L, [] => L
  | t, L, o :: rest =>
    logObs applied e retry (trackOb e retry t o) (logOb applied t L o) rest

def logFrom (applied : Rid → TP → Bool) : Snap → Track → List Entry → List Step → List Entry
  | _, t, L, [] => flush applied t L
  | pre, t, L, s :: rest =>
    logFrom applied s.post (track pre t s)
      (logObs applied s.ev (isRetryStep t s.ev) (trackEv pre t s.ev) (logEv applied t s.ev L) s.obs) rest

/-- the appends the brokers made along a trace, in order (all partitions; `logOf` selects one) -/
def brokerLog (cfg : Cfg) (applied : Rid → TP → Bool) (tr : List Step) : List Entry :=
  logFrom applied (Snap.init cfg) {} [] tr

/-- one partition's log -/
def logOf (L : List Entry) (tp : TP) : List Entry := L.filter (·.tp == tp)

/-- the successes reported along a trace: `(send, response)` -/
def successes (tr : List Step) : List (Sid × Resp) :=
  (allObs tr).filterMap (fun o => match o with | .fire s (.ok r) => some (s, r) | _ => none)

end Afkak.Monitor.C09Log
