import Afkak.C12.MsgSet
import Afkak.C12.Grow
/-!
# Monitor for C12 — evaluated by the driver on the IMPLEMENTATION's results.
The same predicates are proved of the model in `AfkakProps/C12.lean`.
-/
namespace Afkak.Monitor.C12
open Afkak.Crc32 Afkak.WireCost Afkak.C12

/-! ## Corruption -/

def allZeroBits (l : List Bool) : Bool := l.all (fun b => !b)

/-- Every set bit of the error pattern `e` — bits taken in the order the CRC consumes them: byte by
    byte, least significant bit of each byte first — lies in the window `[k, k + n)`. -/
def burstWithin (e : List UInt8) (k n : Nat) : Bool :=
  allZeroBits ((bitsOf e).take k) && allZeroBits ((bitsOf e).drop (k + n))

def nonzero (e : List UInt8) : Bool := e.any (fun b => b != 0)

/-- The stored CRC of a message (its first four bytes, big-endian) matches its checksummed region
    (everything after them: magic..value). -/
def crcOk (msg : List UInt8) : Bool :=
  6 ≤ msg.length && beNat (msg.take 4) == (crc32 (msg.drop 4)).toNat

/-- `e` is an alteration of the checksummed bytes of a message of `len` bytes: same length, the CRC
    field untouched, not zero, and a burst of span ≤ 32 bits starting at bit `k` of the
    checksummed region. -/
def isBurst (len : Nat) (e : List UInt8) (k : Nat) : Bool :=
  e.length == len && (e.take 4).all (fun b => b == 0) && nonzero (e.drop 4)
    && burstWithin (e.drop 4) k 32

/-- What C12 demands when a message set is iterated in which the message `msg` has been altered to
    `msg ⊕ e`: the messages `before` it (and nothing else) are yielded, then `ChecksumError` —
    altered content is never yielded. -/
def burstOk {μ : Type} [BEq μ] (msg e : List UInt8) (k : Nat) (before yielded : List μ)
    (endErr : Option Err) : Bool :=
  !(crcOk msg && isBurst msg.length e k) || (yielded == before && endErr == some Err.checksum)

/-! ## Truncation -/

/-- how many of the entries (given by their byte lengths) are complete in the first `c` bytes -/
def completeCount : List Nat → Nat → Nat
  | [], _ => 0
  | l :: ls, c => if l ≤ c then completeCount ls (c - l) + 1 else 0

/-- What C12 demands of iterating the first `c` bytes of a message set whose entries have byte
    lengths `lens` and hold the messages `orig`: exactly the complete messages, normal end — or,
    when `0 < c` and not even one is complete, nothing and `ConsumerFetchSizeTooSmall`. -/
def truncOk {μ : Type} [BEq μ] (lens : List Nat) (orig : List μ) (c : Nat)
    (yielded : List μ) (endErr : Option Err) : Bool :=
  let k := completeCount lens c
  if k == 0 && 0 < c then yielded.isEmpty && endErr == some Err.fetchSizeTooSmall
  else yielded == orig.take k && endErr == none

/-- The same for a set whose entries may be gzip wrappers: `contents` lists, per entry, what it
    contains (a plain message: itself; a wrapper: its inner messages with the offsets its format
    prescribes).  Exactly the contents of the complete entries are yielded; the iteration ends
    normally when the cut is on an entry boundary or something was yielded, otherwise with
    `ConsumerFetchSizeTooSmall`. -/
def truncOkG {μ : Type} [BEq μ] (lens : List Nat) (contents : List (List μ)) (c : Nat)
    (yielded : List μ) (endErr : Option Err) : Bool :=
  let k := completeCount lens c
  let ys := (contents.take k).flatten
  yielded == ys &&
    (if !ys.isEmpty || c == (lens.take k).sum then endErr == none
     else endErr == some Err.fetchSizeTooSmall)

/-! ## Enlarging rather than skipping -/

/-- What C12 demands of the consumer after a fetch whose message set was cut short, when the first
    `k` messages (offsets `offs`) were complete: the next fetch starts right after the last complete
    message — at the unchanged offset when none was (`k = 0`) — so the cut message is fetched again,
    never skipped; and when none was complete the buffer is enlarged as `grow` says (`newB = none`:
    the consumer gave up because it was at its maximum). -/
def refetchOk (offs : List Int) (k : Nat) (before after : Int) (b : Nat) (max : Option Nat)
    (c : Nat) (newB : Option Nat) : Bool :=
  match (offs.take k).getLast? with
  | some o => after == o + 1 && newB == some b
  | none => after == before && (if c == 0 then newB == some b else newB == grow b max)

/-! ## Cost -/

/-- Bound proved for every response decoder on every byte string (`C12_linear_*`):
    primitive reader calls ≤ 2·|input| + 1. -/
def readsOk (len cost : Nat) : Bool := cost ≤ 2 * len + 1

/-- Bound proved for message-set iteration (`C12_linear_msgset`): reader calls + bytes checksummed
    ≤ 2·(|input| + bytes obtained from gzip_decode) + 2. -/
def setCostOk (len gz cost : Nat) : Bool := cost ≤ 2 * (len + gz) + 2

/-- Memory side (`C12_alloc_decoders`): bytes sliced by a response decoder ≤ |input|. -/
def allocOk (len bytes : Nat) : Bool := bytes ≤ len

/-- Memory side (`C12_alloc_msgset`): bytes sliced/copied iterating a message set
    ≤ 3·(|input| + bytes obtained from gzip_decode). -/
def setAllocOk (len gz bytes : Nat) : Bool := bytes ≤ 3 * (len + gz)

/-- Bound proved for a fetch response decoded AND all its message sets iterated
    (`C12_linear_fetch_total`): ≤ 4·|input| + 2·(bytes obtained from gzip_decode) + 1. -/
def fetchTotalOk (len gz cost : Nat) : Bool := cost ≤ 4 * len + 2 * gz + 1

end Afkak.Monitor.C12
