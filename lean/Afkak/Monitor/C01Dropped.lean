import Afkak.Monitor.C01
/-!
# C01: a send Deferred leaves `_outstanding` only by firing (audit round 2, C01-6)

The other monitors never tie the two: a trace in which a send vanishes from the queue and from `_outstanding` in
a step that neither transmits nor fires it passed all of them.  This one demands, step by step, that every send that
was outstanding before the step is still outstanding after it or fired in it.
-/
namespace Afkak.Monitor.C01
open Afkak.Producer Afkak.Monitor.ProducerTrace

def neverDroppedStep (pre : Snap) (_t : Track) (s : Step) : Bool :=
  pre.outstanding.all (fun x => s.post.outstanding.contains x || (firedSids s.obs).contains x)

def neverDropped (cfg : Cfg) (tr : List Step) : Bool := checkTrace cfg neverDroppedStep tr

end Afkak.Monitor.C01
