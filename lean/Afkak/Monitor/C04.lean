import Afkak.Wire.Spec
import Afkak.Wire.Version
/-!
# Monitor for C04 — every request on the wire conforms to the Kafka protocol grammar

`conforms spec expected frame` is the property: the frame parses under the INDEPENDENT grammar
(`Afkak/Wire/Spec.lean`), completely, to exactly the values the caller supplied.  The driver
evaluates it on the bytes the REAL `KafkaCodec.encode_*` produced; `AfkakProps/C04.lean` proves it of
the model's bytes.

`expectedX` turns the caller's arguments into the value the grammar must find.  It is written
independently of the encoder: the only structure it adds is the nesting the protocol demands
(`regroup`: topics in order of first occurrence, each with its partitions in the order given).
Arguments the grammar has no representation for are `outOfRange` (a null where the protocol has a
non-nullable field, a version the client does not implement, a magic-1 message in a request older
than Produce v2).  Payload lists that name one (topic, partition) twice ARE covered: the grammar
expects both payloads (afkak's encoders refuse such a list, so no frame exists to fail).
-/
namespace Afkak.Monitor.C04
open Afkak Afkak.Wire Afkak.Codec

-- `DecidableEq` of the nested tuple types of the grammar needs a larger instance-size budget
set_option synthInstance.maxSize 100000

inductive Verdict
  | ok | fail | outOfRange
  deriving DecidableEq, Repr

def Verdict.name : Verdict → String
  | .ok => "ok" | .fail => "fail" | .outOfRange => "out-of-range"

/-- THE PROPERTY for one frame. -/
def conforms {α : Type} [DecidableEq α] (spec : Exact α) (expected : Option α) (frame : Bytes) : Verdict :=
  match expected with
  | none => .outOfRange
  | some v => if spec.valid v then (if spec.dec frame = some v then .ok else .fail) else .outOfRange

/-! ## nesting by topic -/

/-- the distinct elements in order of first occurrence -/
def firstOccurrences : List Bytes → List Bytes
  | [] => []
  | k :: ks => k :: (firstOccurrences ks).filter (fun x => x != k)

/-- `[(topic, item)]` → `[(topic, [item])]`: topics in order of first occurrence, items in order -/
def regroup {β : Type} (xs : List (Bytes × β)) : List (Bytes × List β) :=
  (firstOccurrences (xs.map (·.1))).map (fun t => (t, (xs.filter (fun x => x.1 == t)).map (·.2)))

/-- one payload as `(topic, (partition, item))`; `none` for a null topic or an item the grammar cannot carry -/
def keyOne {α β : Type} (topic : α → Option Bytes) (partition : α → Int) (item : α → Option β) (x : α) :
    Option (Bytes × (Int × β)) :=
  match topic x, item x with
  | some t, some b => some (t, (partition x, b))
  | _, _ => none

/-- topic-keyed payloads; all topics must be non-null.  A list that names one (topic, partition) twice
    is a value like any other: the grammar then expects BOTH payloads in the request (a request
    that carries only one of them does not conform). -/
def keyed {α β : Type} (topic : α → Option Bytes) (partition : α → Int) (item : α → Option β)
    (xs : List α) : Option (List (Bytes × (Int × β))) :=
  xs.mapM (keyOne topic partition item)

/-! ## messages -/

/-- the message the grammar must find for a `Message` given to the encoder; a magic-1 message without
    timestamp is stamped with the clock (`nowMs`) -/
def specMsg (nowMs : Int) (m : Message) : Option Spec.Msg :=
  if m.attributes < 0 then none
  else if m.magic = 0 then some ⟨0, m.attributes.toNat, none, m.key, m.value⟩
  else if m.magic = 1 then
    some ⟨1, m.attributes.toNat, some (match m.timestamp with | some t => t | none => nowMs), m.key, m.value⟩
  else none

/-- a produce payload's messages as message-set entries: the encoder writes offset 0 everywhere -/
def specEntries (nowMs : Int) (ms : List Message) : Option (List (Int × Spec.Msg)) :=
  ms.mapM (fun m => (specMsg nowMs m).map (fun sm => ((0 : Int), sm)))

/-- the entries the grammar must find in a set written by `_encode_message_set(ms, offset)`:
    offsets `offset, offset+1, …`, or all `0` when no offset is given -/
def entriesAt (nowMs : Int) (offset : Option Int) (ms : List Message) : Option (List (Int × Spec.Msg)) :=
  (ms.zipIdx).mapM (fun (m, i) => (specMsg nowMs m).map (fun sm =>
    ((match offset with | some o => o + (i : Int) | none => 0), sm)))

/-- a bare message set (the payload of a produce partition, or what a gzip wrapper contains) -/
def messageSet (crc : Bytes → Nat) (nowMs : Int) (ms : List Message) (offset : Option Int) (data : Bytes) : Verdict :=
  conforms (Spec.messageSet crc) (entriesAt nowMs offset ms) data

/-! ## the version a produce / fetch request is sent with -/

/-- the REQUEST layouts the encoders write: versions 0, 1 and 2 of Produce and Fetch (a version-1
    request has the layout of version 0); a higher version is written as 2.  This is about requests
    only: REPLIES of version 1 are not implemented (`replyImplemented`). -/
def implementedVersion (requested : Int) : Option Int :=
  if requested < 0 then none else if requested ≥ 2 then some 2 else some requested

def hdr (key : Int) (version : Int) (corr : Int) (clientId : Bytes) : Spec.Header :=
  ⟨key, version, corr, some clientId⟩

/-! ## one monitor per API -/

def produce (crc : Bytes → Nat) (nowMs : Int) (clientId : Bytes) (corr : Int) (payloads : List ProduceReq)
    (acks timeout apiVersion : Int) (frame : Bytes) : Verdict :=
  conforms (Spec.request (Spec.produceRequest crc))
    (match implementedVersion apiVersion,
           keyed ProduceReq.topic ProduceReq.partition (fun p => specEntries nowMs p.messages) payloads with
     | some v, some l =>
       -- message format 1 exists from Produce v2 on
       if v < 2 ∧ l.any (fun e => e.2.2.any (fun m => m.2.magic ≠ 0)) then none
       else some (hdr 0 v corr clientId, acks, timeout, regroup l)
     | _, _ => none) frame

def fetch (clientId : Bytes) (corr : Int) (payloads : List FetchReq) (maxWait minBytes apiVersion : Int)
    (frame : Bytes) : Verdict :=
  conforms (Spec.request Spec.fetchRequest)
    (match implementedVersion apiVersion,
           keyed FetchReq.topic FetchReq.partition (fun p => some (p.offset, p.maxBytes)) payloads with
     | some v, some l => some (hdr 1 v corr clientId, -1, maxWait, minBytes, regroup l)
     | _, _ => none) frame

def listOffsets (clientId : Bytes) (corr : Int) (payloads : List OffsetReq) (frame : Bytes) : Verdict :=
  conforms (Spec.request Spec.listOffsetsRequest)
    ((keyed OffsetReq.topic OffsetReq.partition (fun p => some (p.time, p.maxOffsets)) payloads).map
      (fun l => (hdr 2 0 corr clientId, -1, regroup l))) frame

def metadata (clientId : Bytes) (corr : Int) (topics : List (Option Bytes)) (frame : Bytes) : Verdict :=
  conforms (Spec.request Spec.metadataRequest)
    ((topics.mapM id).map (fun ts => (hdr 3 0 corr clientId, ts))) frame

def offsetCommit (clientId : Bytes) (corr : Int) (group : Option Bytes) (generationId : Int)
    (consumerId : Option Bytes) (payloads : List OffsetCommitReq) (frame : Bytes) : Verdict :=
  conforms (Spec.request Spec.offsetCommitRequest)
    (match group, consumerId,
           keyed OffsetCommitReq.topic OffsetCommitReq.partition (fun p => some (p.offset, p.timestamp, p.metadata)) payloads with
     | some g, some c, some l => some (hdr 8 1 corr clientId, g, generationId, c, regroup l)
     | _, _, _ => none) frame

def offsetFetch (clientId : Bytes) (corr : Int) (group : Option Bytes) (payloads : List OffsetFetchReq)
    (frame : Bytes) : Verdict :=
  conforms (Spec.request Spec.offsetFetchRequest)
    (match group, keyed OffsetFetchReq.topic OffsetFetchReq.partition (fun _ => some ()) payloads with
     | some g, some l => some (hdr 9 1 corr clientId, g, (regroup l).map (fun e => (e.1, e.2.map (·.1))))
     | _, _ => none) frame

def findCoordinator (clientId : Bytes) (corr : Int) (group : Option Bytes) (frame : Bytes) : Verdict :=
  conforms (Spec.request Spec.findCoordinatorRequest) (group.map (fun g => (hdr 10 0 corr clientId, g))) frame

def pairs (l : List (Option Bytes × Option Bytes)) : Option (List (Bytes × Bytes)) :=
  l.mapM (fun p => match p.1, p.2 with | some a, some b => some (a, b) | _, _ => none)

def joinGroup (clientId : Bytes) (corr : Int) (p : JoinGroupReq) (frame : Bytes) : Verdict :=
  conforms (Spec.request Spec.joinGroupRequest)
    (match p.group, p.memberId, p.protocolType, pairs p.groupProtocols with
     | some g, some m, some t, some ps => some (hdr 11 0 corr clientId, g, p.sessionTimeout, m, t, ps)
     | _, _, _, _ => none) frame

def syncGroup (clientId : Bytes) (corr : Int) (group : Option Bytes) (generationId : Int)
    (memberId : Option Bytes) (assignment : List (Option Bytes × Option Bytes)) (frame : Bytes) : Verdict :=
  conforms (Spec.request Spec.syncGroupRequest)
    (match group, memberId, pairs assignment with
     | some g, some m, some a => some (hdr 14 0 corr clientId, g, generationId, m, a)
     | _, _, _ => none) frame

def heartbeat (clientId : Bytes) (corr : Int) (group : Option Bytes) (generationId : Int)
    (memberId : Option Bytes) (frame : Bytes) : Verdict :=
  conforms (Spec.request Spec.heartbeatRequest)
    (match group, memberId with
     | some g, some m => some (hdr 12 0 corr clientId, g, generationId, m)
     | _, _ => none) frame

def leaveGroup (clientId : Bytes) (corr : Int) (group memberId : Option Bytes) (frame : Bytes) : Verdict :=
  conforms (Spec.request Spec.leaveGroupRequest)
    (match group, memberId with
     | some g, some m => some (hdr 13 0 corr clientId, g, m)
     | _, _ => none) frame

/-- ApiVersions: the caller names the key and the version; version 0 has an empty body -/
def apiVersions (clientId : Bytes) (corr : Int) (apiKey apiVersion : Int) (frame : Bytes) : Verdict :=
  conforms (Spec.request Spec.apiVersionsRequest)
    (if apiKey = 18 ∧ apiVersion = 0 then some (hdr 18 0 corr clientId, ()) else none) frame

/-- the subscription a group member sends inside JoinGroup (`ConsumerProtocol`) -/
def subscription (version : Int) (topics : List (Option Bytes)) (userData : Option Bytes) (data : Bytes) : Verdict :=
  conforms (whole Spec.subscription) ((topics.mapM id).map (fun ts => (version, ts, userData))) data

/-- the assignment the leader sends inside SyncGroup -/
def assignment (version : Int) (asg : List (Option Bytes × List Int)) (userData : Option Bytes) (data : Bytes) : Verdict :=
  conforms (whole Spec.assignment)
    ((asg.mapM (fun (p : Option Bytes × List Int) => p.1.map (fun t => (t, p.2)))).map (fun a => (version, a, userData))) data

/-! ## version choice -/

/-- the versions of Produce and Fetch the client implements in BOTH directions: 0 and 2.
    `decode_fetch_response(api_version=1)` raises `UnboundLocalError` on every input and
    `decode_produce_response(api_version=1)` reads the version-2 layout, which a version-1 reply does
    not have (`C04_reply_v1_not_implemented`). -/
def replyImplemented (version : Int) : Bool := version = 0 || version = 2

/-- the version found in a produce / fetch request header is one the broker advertised for that API
    and one the client implements -/
def versionChosenOk (table : List ApiVersion) (key : Int) (headerVersion : Int) : Bool :=
  replyImplemented headerVersion &&
  table.any (fun v => v.apiKey = key && v.minVersion ≤ headerVersion && headerVersion ≤ v.maxVersion)

/-- the property's quantifier: the table's (first) entry for the API advertises `min ≤ 0` and `max ≥ 2`.
    A table whose entry has `max = 1`, `min > 0`, or that has no entry for the API is outside it. -/
def inQuantifier (table : List ApiVersion) (key : Int) : Bool :=
  match table.filter (fun v => v.apiKey = key) with
  | v :: _ => v.minVersion ≤ 0 && 2 ≤ v.maxVersion
  | [] => false

/-- message format 1 exists from Produce v2 on: a request older than that carries format-0 messages only -/
def formatOk (headerVersion : Int) (magics : List Int) : Bool :=
  2 ≤ headerVersion || magics.all (· = 0)

/-- the verdict on one produce / fetch frame written after a successful discovery: header version
    advertised and implemented, message format fitting the version; tables outside the quantifier
    are not judged -/
def versionVerdict (table : List ApiVersion) (key : Int) (headerVersion : Int) (magics : List Int) : Verdict :=
  if !inQuantifier table key then .outOfRange
  else if versionChosenOk table key headerVersion && formatOk headerVersion magics then .ok else .fail

/-- after a failed discovery (or an error code) requests carry version 0 and message format 0 -/
def fallbackOk (headerVersion : Int) (magics : List Int) : Bool :=
  headerVersion = 0 && magics.all (· = 0)

end Afkak.Monitor.C04
