import Afkak.Monitor.C13
/-! # Monitors for C14 (see `Monitor/C02.lean` for the conventions) -/
namespace Afkak.Monitor
open Afkak.Consumer
namespace C14

/-- delay before the retry that follows the `k`-th consecutive failure (counting from 0) -/
def delayAt (init maxD : Rat) : Nat → Rat
  | 0 => init
  | k + 1 => nextDelay maxD (delayAt init maxD k)

/-! ### Retry delays grow geometrically from the initial to the maximum delay and reset after a success -/

structure DlSt where
  k : Nat := 0            -- retries scheduled since the last successful reply
  inErr : Bool := false   -- the event being handled is a failed fetch/offset request
  deriving DecidableEq, Repr

def dlStep (init maxD : Rat) (m : DlSt) : Item → Option DlSt
  | .ev (.fetchOk _ r) => some (match r.tail with | .raise _ _ => { k := 0, inErr := true } | _ => { k := 0, inErr := false })
  | .ev (.offsetOk _ _) => some { k := 0, inErr := false }
  | .ev (.offsetFetchOk _ _) => some { k := 0, inErr := false }
  | .ev (.fetchErr _ _ _) => some { m with inErr := true }
  | .ev (.offsetErr _ _ _) => some { m with inErr := true }
  | .ev (.offsetFetchErr _ _ _) => some { m with inErr := true }
  | .ev _ => some { m with inErr := false }
  | .ob (.setTimer .retry d) =>
    if m.inErr then (if d == delayAt init maxD m.k then some { m with k := m.k + 1 } else none)
    else if d == 0 then some m else none
  | _ => some m

def delaysOk (init maxD : Rat) (tr : List Item) : Bool := accepts (dlStep init maxD) {} tr

/-! ### With an attempt limit `L > 0` no retry is scheduled after `L` consecutive failed attempts -/

structure AtSt where
  limit : Nat
  savedLimit : Nat := 0
  cf : Nat := 0           -- consecutive failed fetch/offset requests in this run
  savedCf : Nat := 0
  inErr : Bool := false
  deriving DecidableEq, Repr

def atFail (m : AtSt) : AtSt := { m with cf := m.cf + 1, inErr := true }

def atStep (m : AtSt) : Item → Option AtSt
  | .ev (.start _) => some { m with cf := 0, savedCf := m.cf, inErr := false }
  | .ob .raisedRestart => some { m with cf := m.savedCf }
  | .ev .shutdown => some { m with limit := if m.limit == 0 then Afkak.Consts.shutdownRetryAttempts else m.limit, savedLimit := m.limit, inErr := false }
  | .ob .shutdownRejected => some { m with limit := m.savedLimit }
  | .ev (.fetchOk _ r) => some (match r.tail with | .raise _ _ => { m with cf := 1, inErr := true } | _ => { m with cf := 0, inErr := false })
  | .ev (.offsetOk _ _) => some { m with cf := 0, inErr := false }
  | .ev (.offsetFetchOk _ _) => some { m with cf := 0, inErr := false }
  | .ev (.fetchErr _ _ _) => some (atFail m)
  | .ev (.offsetErr _ _ _) => some (atFail m)
  | .ev (.offsetFetchErr _ _ _) => some (atFail m)
  | .ev _ => some { m with inErr := false }
  | .ob (.setTimer .retry _) => if m.inErr && m.limit != 0 && m.cf ≥ m.limit then none else some m
  | _ => some m

def attemptsOk (limit : Nat) (tr : List Item) : Bool := accepts atStep { limit := limit } tr

/-! ### Out-of-range ⇒ the configured policy: fail, or restart from earliest / latest -/

structure RsSt where
  expect : Option Int := none     -- the next request must be an OffsetRequest for this time
  fatal : Option Nat := none      -- the event being handled is out-of-range (tag) and no policy is set
  reported : Bool := false
  deriving DecidableEq, Repr

def rsStep (reset : Option Int) (m : RsSt) : Item → Option RsSt
  | .ev (.fetchErr _ .outOfRange t) =>
    match reset with
    | none => some { m with fatal := some t, reported := false }
    | some r => some { m with expect := some r, fatal := none }
  | .ev (.start _) => some { m with fatal := none }
  | .ob .raisedRestart => some m
  | .ev _ => some { m with fatal := none }
  | .ob (.startFired r) => some (if m.fatal.isSome then { m with reported := (r == .err (.ext .outOfRange (m.fatal.getD 0))) } else m)
  | .ob (.crash _) => some { m with reported := true }
  | .ob (.setTimer .retry _) => if m.fatal.isSome then none else some m
  | .ob (.fetch _ _ _) => if m.expect.isSome then none else some m
  | .ob (.offsetFetch _) => if m.expect.isSome then none else some m
  | .ob (.offsets _ t) =>
    match m.expect with
    | some r => if t == r then some { m with expect := none } else none
    | none => some m
  | .ob (.probe _ _) => if m.fatal.isSome && !m.reported then none else some { m with fatal := none }
  | _ => some m

/-- (a restart overwrites the fetch position, so it cancels the expectation) -/
def rsStep' (reset : Option Int) (m : RsSt) (x : Item) : Option RsSt :=
  match x with
  | .ev (.start _) => (rsStep reset m x).map fun m' => { m' with expect := none }
  | _ => rsStep reset m x

def resetOk (reset : Option Int) (tr : List Item) : Bool := accepts (rsStep' reset) {} tr

/-! ### Buffer growth: ×16 up to 1 MiB, ×2 after, capped; fails only at the maximum; never shrinks -/

structure GrSt where
  buf : Nat
  credit : Nat := 0      -- too-small answers not yet reflected in a fetch request
  deriving DecidableEq, Repr

def grStep (max : Option Nat) (m : GrSt) : Item → Option GrSt
  | .ev (.fetchOk _ r) => some (if r.tail == .small then { m with credit := m.credit + 1 } else m)
  | .ob (.fetch _ _ mb) =>
    if mb == m.buf then some m
    else if m.credit > 0 && grow m.buf max == some mb then some { buf := mb, credit := m.credit - 1 } else none
  | .ob (.startFired (.err .tooSmall)) => if m.credit > 0 && (grow m.buf max).isNone then some m else none
  | _ => some m

def growthOk (init : Nat) (max : Option Nat) (tr : List Item) : Bool := accepts (grStep max) { buf := init } tr

/-! ### A too-small answer never moves the fetch position -/

structure NsSt where
  offs : List (Nat × Int) := []   -- fetch requests issued: (id, offset)
  expect : Option Int := none
  deriving DecidableEq, Repr

def nsStep (m : NsSt) : Item → Option NsSt
  | .ob (.fetch k off _) =>
    match m.expect with
    | some e => if off == e then some { offs := (k, off) :: m.offs, expect := none } else none
    | none => some { m with offs := (k, off) :: m.offs }
  | .ev (.fetchOk k r) =>
    if r.tail == .small && r.msgs.isEmpty then some { m with expect := (m.offs.lookup k) } else some m
  | .ev (.start _) => some { m with expect := none }
  | .ev (.fetchErr _ .outOfRange _) => some { m with expect := none }
  | _ => some m

def neverSkipsOk (tr : List Item) : Bool := accepts nsStep {} tr

end C14
end Afkak.Monitor
